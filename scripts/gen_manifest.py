#!/usr/bin/env python3
"""Regenerates /verif/MANIFEST.json from the table below (one entry per claimed property)."""
import json, os, subprocess
V = os.path.dirname(os.path.dirname(os.path.abspath(__file__)))

CLAIMED = {
 "C01": dict(
   technique="runtime monitoring: round-trip / fixed-point monitor over generated fonts and reader-accepted byte inputs, with an independent normal-form model of the documented precedence rules and cross-process determinism comparison",
   level="exploration",
   text="Generated fonts of all three outline kinds x glyph-count, cmap, layout and header-field classes are written twice in-process and once in a second OS process (byte-identical?), read back and compared field by field with the property's normal form, then taken round the cycle again (Read(Write(G))==G, second write byte-identical); corpus fonts, library-written files and accepted table-level mutants provide the 'for every accepted byte string' side. Sampled, not exhaustive.",
   note="trusted: the harness's normal-form function (precedence rules quoted from the property), go-cmp comparator options (FDSelect extensional, reals to 9 digits, nil==empty, TrueType 'no widths'==all-zero widths), the font generator staying inside the representable domain",
   design="5/C01"),
 "C03": dict(
   technique="runtime monitoring: independent-decoder monitor (own spec-derived container validator + header.Read + golang.org/x/image/font/sfnt) over writer outputs",
   level="exploration",
   text="header.Write on random tag->bytes maps (table counts around every power of two, all length residues, nil and ill-named entries, three scaler types, with/without head) is judged by sfntwalk (directory order, search fields, alignment, overlap, zero padding, per-table and whole-file checksums, table bytes) and by header.Read; complete generated fonts written by Write/WriteTrueTypePDF/WriteOpenTypeCFFPDF are additionally parsed by x/image and compared on glyph count, units per em, character mapping, advances, glyph names and outlines (simple and composite TrueType, integer-coordinate CFF).",
   note="trusted: sfntwalk (200 lines written from the OpenType spec), x/image within its 26.6 range (cases outside are skipped and counted), the harness's TrueType contour-to-segment conversion",
   design="5/C03"),
 "C10": dict(
   technique="runtime monitoring: reference-model monitor recovering the new->old glyph map from content signatures and comparing every cmap code, encoding slot, kerning pair and substitution rule through it",
   level="exploration",
   text="Generated TrueType (nested/shared composites), simple CFF (built-in encodings) and CID-keyed fonts with GSUB 1.1/4.1 + GPOS 2.1 are subset to duplicate-free lists of every size class and order; each listed glyph must equal the original by a recursive content signature, extras must be original glyphs, cmaps/encodings/kerning/ligature rules are compared through the recovered index map, GSUB is applied before and after through FindLookups, and the subset is written and read back. cff.Outlines.Subset gets the same glyph/encoding clauses.",
   note="trusted: the signature function; glyphs with non-unique signatures are excluded from inverse-map clauses (counted). Two genuine defects are listed in known_findings.json",
   design="5/C10"),
 "C11": dict(
   technique="runtime monitoring: round-trip monitor plus independent-decoder monitor (glyfref: own simple-glyph encoder/decoder and composite writer from the OpenType glyf chapter)",
   level="exploration",
   text="Random glyph sets (nil/simple/composite; every flag and coordinate form drawn independently per point by glyfref, repeat counts 0/1/n, padding 0..3, zero-contour glyphs, all 16 composite argument/transform size combinations, sets on both sides of the 64 KiB / 128 KiB loca limits) go through Encode/Decode (equal?), loca is parsed independently, harness-written glyf/loca bytes in both loca formats are decoded by the library, every simple glyph is point-decoded by library and glyfref, Components/FixComponents are compared with the generated lists and expected bytes.",
   note="trusted: glyfref (self-checked on every glyph: it must decode its own encoding); x/image is the third opinion on outlines in C03",
   design="5/C11"),
 "C12": dict(
   technique="runtime monitoring: round-trip monitors on table values plus definition-recomputing monitor over written files and cross-consistency monitor over the font's metric queries",
   level="exploration",
   text="Table values (hmtx/hhea incl. every (n, constant tail) for n<=40, caret slopes, head, maxp, OS/2, post) go through Encode/Decode with an independent reader as second opinion; for generated fonts the derived fields of the written hhea/head/OS2 tables are recomputed from their definitions with plain offset readers (advanceWidthMax, min side bearings, xMaxExtent, numberOfHMetrics consistency, head bbox, average width, first/last char), and GlyphBBoxes/GlyphBBox/FontBBox/FontBBoxPDF/Widths/WidthsPDF/GlyphWidthPDF/IsFixedPitch are compared with the outlines and with each other.",
   note="trusted: the offset readers (field offsets from the OpenType spec); TrueType boxes are the stored headers which the generator sets to the true bounds",
   design="5/C12"),
 "C17": dict(
   technique="runtime monitoring: reference-model monitor (slice + cursor) run in lock-step with parser.Parser after every operation, plus hook invariant on the cache window",
   level="exploration",
   text="Every operation sequence of length <=3 (quick) / <=4 (thorough) over a boundary-offset alphabet, for 14 input lengths x 5 source behaviours, is executed on the real parser next to a slice model; value, error class, Pos, Size and the window invariant are compared after every step; random 200-step sequences add arbitrary arguments. Bounded-exhaustive inside the alphabet, sampled outside; not a proof.",
   note="trusted: the slice model (40 lines), the test sources' adherence to io.Reader/io.Seeker; hook VerifState for the window invariant (check works without it)",
   design="5/C17"),
 "C18": dict(
   technique="runtime monitoring with fault injection: every fault offset of the harness-supplied io.Writer / io.ReaderAt / io.Reader is enumerated and the outcome (error, byte count, prefix, equality with the fault-free font) is checked",
   level="fault_enumeration",
   text="For each corpus font and each writer API every k in 0..len(output) is injected in two variants (refuse the crossing call / short write): error non-nil, count == bytes accepted, destination is a prefix of the fault-free output, success with count L for k>=L. For the reader every truncation length (ReaderAt and streaming) and every k of a ReaderAt/Reader that fails with a non-EOF error are enumerated; a recording run gives the offsets a fault-free read touches, which decides whether an error or an equal font is required. Exhaustive in k for files below 24 KB, boundary neighbourhoods + stride 7 above.",
   note="trusted: determinism of Write (C01) for the prefix reference; corpus is a dozen fonts, not all fonts",
   design="5/C18"),
 "C15": dict(
   technique="runtime monitoring: composition monitor (Layout vs best-cmap -> selected GSUB -> widths -> selected GPOS), selection oracle over FindLookups (ascending, in range, explained by one language system, stable over 200 calls), harness-assembled kern tables and ligature cmaps as independent inputs",
   level="exploration",
   text="Layouts of generated fonts over mapped/unmapped strings, languages and feature switches are compared stage by stage with the composition the property states; FindLookups is checked on script lists with 1..20 language systems; kern-only files (1..4 format-0 subtables in all horizontal/minimum/override combinations, up to 3000 pairs) are assembled by the harness, read by sfnt.Read and every pair is laid out and compared with the kern specification; all 32 subsets of the five f-ligature characters are checked in proportional and fixed-pitch fonts.",
   note="trusted: gtab.Context.Apply as the middle stage (judged separately by C06/C07), the harness's kern accumulation rule, x/text/language's ranking of near-miss languages is not judged",
   design="5/C15"),
 "C16": dict(
   technique="runtime monitoring with the Go race detector (-race, halt_on_error=0, log parsed per case) plus a value oracle against the sequential result and a canary race that proves the detector is live",
   level="exploration",
   text="2..64 goroutines released by a barrier run seeded permutations of the 15 read-only operations of the property on one shared font (generated fonts of every outline kind with layout tables, corpus fonts read from bytes) under GOMAXPROCS 2 and 16; every race report touching go-sfnt is a violation, every result must equal the result of the same call made alone; the evidence lists the operation pairs whose executions overlapped. A run in which the deliberately racy canary is not reported is inconclusive.",
   note="trusted: the race detector (happens-before based, sees only executed accesses); operations that are nondeterministic when run alone are excluded from the value comparison (Subset uses an order-insensitive digest)",
   design="5/C16"),
 "C20": dict(
   technique="runtime monitoring: postcondition monitor over MakeGlyphNames / EnsureGlyphNames / MakeSimple / PostScriptName on generated fonts, with repeated-call stability comparison",
   level="exploration",
   text="Fonts with every name pattern (complete, none, holes, duplicates, clashes with future placeholders and derived names, invalid names, short TrueType name lists, CID-keyed) x cmaps x GSUB 1.1/1.2/3.1/4.1 rule sets (several rules reaching one target) are asked for names: length, non-empty, pairwise distinct, .notdef first, unique given names kept, free glyph-list names of mapped code points used, substitution-derived names before placeholders, every name explained; 12 repeated calls must agree; EnsureGlyphNames+GlyphName and MakeSimple obey the same rules; PostScriptName over Unicode family names contains only permitted bytes.",
   note="trusted: names.FromUnicode / names.IsValid of the external postscript module as the definition of glyph-list names and CFF name validity",
   design="5/C20"),
}

# fragments written by the builders of the other properties
import glob
for frag in sorted(glob.glob(os.path.join(V, "manifest.*.json"))):
    for pid, e in json.load(open(frag)).items():
        if pid in CLAIMED:
            # a property built in two parts (C12: font level here, table level by the tables builder)
            c = CLAIMED[pid]
            c["text"] += " TABLE LEVEL: " + e["text"]
            c["note"] += "; table level: " + e["note"]
            continue
        CLAIMED[pid] = dict(technique=e["technique"], level=e.get("level", "exploration"), text=e["text"], note=e["note"], design="5/" + pid + " and 11")

REASON_TODO = "check not built yet in this session; no claim is made"
ALL = [json.loads(l)["id"] for l in open(os.path.join(V, "properties.jsonl"))]

hook_commits = subprocess.run(["git", "-C", "/repo", "log", "--format=%H", "--grep=^verif hooks"], capture_output=True, text=True).stdout.split()

m = {
 "version": 1,
 "setup_cmd": "scripts/setup.sh",
 "hooks": {
   "guard": "verif",
   "enable": "go build -tags verif (scripts/check.sh builds /verif/harness, whose go.mod replaces seehuhn.de/go/sfnt by /repo, so every check compiles /repo's working tree)",
   "baseline_off_cmd": "cd /repo && GOFLAGS=-mod=mod GOPROXY=off GOSUMDB=off go test -vet=off -count=1 -timeout 25m ./...",
   "source_commits": hook_commits,
   "add_only": True,
 },
 "engines": [{
   "name": "vcheck", "path": "harness/cmd/vcheck",
   "serves_properties": sorted(CLAIMED),
   "kind_free_text": "driver + worker processes running the real library under generated/enumerated/hostile workloads with reference-model, independent-decoder, invariant and process-level monitors (see DESIGN.md section 2)",
 }],
 "checks": [],
 "not_applicable": [],
 "notes": "exit 0 held / 1 VIOLATION / 2 INCONCLUSIVE; seeds via VERIF_SEED; known findings in known_findings.json",
}
for pid in ALL:
    if pid in CLAIMED:
        c = CLAIMED[pid]
        m["checks"].append({
          "property_id": pid,
          "quick_cmd": f"scripts/check.sh {pid} quick",
          "thorough_cmd": f"scripts/check.sh {pid} thorough",
          "evidence_file": f"evidence/{pid}.json",
          "replay_cmd_template": "bin/vcheck -replay {path}",
          "engine": "vcheck",
          "level_claimed": {"category": c["level"], "text": c["text"], "design_ref": c["design"]},
          "level_note": c["note"],
          "technique": c["technique"],
        })
    else:
        m["not_applicable"].append({"property_id": pid, "reason": REASON_TODO})
json.dump(m, open(os.path.join(V, "MANIFEST.json"), "w"), indent=1)
print("claimed:", sorted(CLAIMED))
