#!/usr/bin/env python3
"""Regenerates /verif/MANIFEST.json from the table below (one entry per claimed property)."""
import json, os, subprocess
V = os.path.dirname(os.path.dirname(os.path.abspath(__file__)))

CLAIMED = {
 "C17": dict(
   technique="runtime monitoring: reference-model monitor (slice + cursor) run in lock-step with parser.Parser after every operation, plus hook invariant on the cache window",
   level="exploration",
   text="Every operation sequence of length <=3 (quick) / <=4 (thorough) over a boundary-offset alphabet, for 14 input lengths x 5 source behaviours, is executed on the real parser next to a slice model; value, error class, Pos, Size and the window invariant are compared after every step; random 200-step sequences add arbitrary arguments. Bounded-exhaustive inside the alphabet, sampled outside; not a proof.",
   note="trusted: the slice model (40 lines), the test sources' adherence to io.Reader/io.Seeker; hook VerifState for the window invariant (check works without it)",
   design="5/C17"),
}

REASON_TODO = "check not built yet in this session; no claim is made"
ALL = [json.loads(l)["id"] for l in open(os.path.join(V, "properties.jsonl"))]

hook_commits = subprocess.run(["git", "-C", "/repo", "log", "--format=%H", "--grep=^verif hooks"], capture_output=True, text=True).stdout.split()

m = {
 "version": 1,
 "setup_cmd": "scripts/setup.sh",
 "hooks": {
   "guard": "verif",
   "enable": "go build -tags verif (scripts/check.sh builds /verif/harness, whose go.mod replaces seehuhn.de/go/sfnt by /repo, so every check compiles /repo's working tree)",
   "baseline_off_cmd": "cd /repo && GOFLAGS=-mod=mod GOPROXY=off GOSUMDB=off go test -vet=off -count=1 -timeout 25m ./...",
   "source_commits": hook_commits,
   "add_only": True,
 },
 "engines": [{
   "name": "vcheck", "path": "harness/cmd/vcheck",
   "serves_properties": sorted(CLAIMED),
   "kind_free_text": "driver + worker processes running the real library under generated/enumerated/hostile workloads with reference-model, independent-decoder, invariant and process-level monitors (see DESIGN.md section 2)",
 }],
 "checks": [],
 "not_applicable": [],
 "notes": "exit 0 held / 1 VIOLATION / 2 INCONCLUSIVE; seeds via VERIF_SEED; known findings in known_findings.json",
}
for pid in ALL:
    if pid in CLAIMED:
        c = CLAIMED[pid]
        m["checks"].append({
          "property_id": pid,
          "quick_cmd": f"scripts/check.sh {pid} quick",
          "thorough_cmd": f"scripts/check.sh {pid} thorough",
          "evidence_file": f"evidence/{pid}.json",
          "replay_cmd_template": "bin/vcheck -replay {path}",
          "engine": "vcheck",
          "level_claimed": {"category": c["level"], "text": c["text"], "design_ref": c["design"]},
          "level_note": c["note"],
          "technique": c["technique"],
        })
    else:
        m["not_applicable"].append({"property_id": pid, "reason": REASON_TODO})
json.dump(m, open(os.path.join(V, "MANIFEST.json"), "w"), indent=1)
print("claimed:", sorted(CLAIMED))
