#!/usr/bin/env python3
"""usage: scripts/record_seeds.py <try log> <round> [strengthen.json]
Reads a log made of '### <seed id>' blocks followed by try_seed.sh output and
enters the seeds into seeded/catch.json and seeded/<id>/meta.json."""
import json, re, sys
log = open(sys.argv[1]).read()
rnd = int(sys.argv[2])
strengthen = json.load(open(sys.argv[3])) if len(sys.argv) > 3 else {}
catch = json.load(open('/verif/seeded/catch.json'))
for b in re.split(r'^### ', log, flags=re.M)[1:]:
    sid = b.split('\n', 1)[0].strip()
    det, cur = {}, None
    for line in b.split('\n'):
        m = re.match(r'== (C\d+) rc=(\d)', line)
        if m:
            cur = m.group(1)
            continue
        m = re.search(r'witness="([^"]*)"', line)
        if m and cur:
            det.setdefault(cur, []).append(m.group(1))
    nd = strengthen.get(sid, '').startswith('NOT-DETECTED:')
    assert det or nd, sid + ' not detected'
    mp = '/verif/seeded/%s/meta.json' % sid
    m = json.load(open(mp))
    m['seed_id'] = sid
    m['round'] = rnd
    m['confirmed'] = 'scripts/verify_seed.sh seeded/%s: suite passes with the change, demo passes on the clean tree and fails with the change (SEED-CONFIRMED)' % sid
    m['checks_run'] = 'scripts/try_seed.sh seeded/%s/patch.diff %s (quick tier, VERIF_SEED=1)' % (sid, ' '.join(det))
    m['detected_by'] = {k: ', '.join(v[:4]) for k, v in det.items()}
    m['first_run'] = 'missed' if sid in strengthen else 'caught'
    if nd:
        m['not_detected'] = strengthen[sid][len('NOT-DETECTED:'):].strip()
    elif sid in strengthen:
        m['strengthened'] = strengthen[sid]
    json.dump(m, open(mp, 'w'), indent=1)
    what = m['summary']
    e = {'breaks': sid[:3], 'what': what[:220].rsplit(' ', 1)[0] + ('…' if len(what) > 220 else ''),
         'caught_by': {k: ', '.join(x if len(x) < 90 else x[:88] + '…' for x in v[:2]) + (' …' if len(v) > 2 else '') for k, v in det.items()},
         'first_run': m['first_run']}
    if nd:
        e['not_detected'] = strengthen[sid][len('NOT-DETECTED:'):].strip()
    elif sid in strengthen:
        e['strengthened'] = strengthen[sid]
    catch[sid] = e
json.dump(catch, open('/verif/seeded/catch.json', 'w'), indent=1)
print(len(catch), 'seeds recorded')
