#!/usr/bin/env python3
"""Regenerates the generated blocks of DESIGN.md (defects fixed / known findings / seeded changes)
from known_findings.json and seeded/catch.json."""
import json, os, re
V = os.path.dirname(os.path.dirname(os.path.abspath(__file__)))
kf = json.load(open(os.path.join(V, "known_findings.json")))
catch = json.load(open(os.path.join(V, "seeded", "catch.json")))

out = []
out.append("#### Genuine defects repaired (`fix:` commits in `/repo`, one per line of `known_findings.json`)\n")
out.append("| property | commit | what failed (witness) |\n|---|---|---|")
for line in kf["fixed"]:
    m = re.match(r"fixed: property=(\S+) (\S+) (.*)$", line, re.S)
    if not m: continue
    what = m.group(3).replace("|", "\\|").replace("\n", " ")
    if len(what) > 420: what = what[:420] + "…"
    out.append(f"| {m.group(1)} | `{m.group(2)}` | {what} |")
out.append("\n#### Known findings (genuine, not repaired; the checks print `KNOWN-FINDING` and exit 0)\n")
out.append("| property | id | witness class (regexp) | what fails |\n|---|---|---|---|")
for f in kf["findings"]:
    what = f["what"].replace("|", "\\|")
    if len(what) > 700: what = what[:700] + "…"
    out.append(f"| {f['property']} | {f['id']} | `{f['witness'].replace('|', chr(92)+'|')}` | {what} |")
findings_block = "\n".join(out)

out = []
out.append("| seed | breaks | change | detected by (witness classes) | first run | strengthening |\n|---|---|---|---|---|---|")
for sid in sorted(catch):
    c = catch[sid]
    det = "; ".join(f"**{p}**: {w}" for p, w in c["caught_by"].items()).replace("|", "\\|")
    note = c.get('strengthened', '')
    if 'not_detected' in c:
        det = det or "— (not detected)"
        note = "NOT DETECTED, on purpose: " + c['not_detected']
    out.append(f"| {sid} | {c['breaks']} | {c['what'].replace('|', chr(92)+'|')} | {det} | {c['first_run']} | {note} |")
seed_block = "\n".join(out)

# summary per seeding round
rounds = {}
for sid in catch:
    mp = os.path.join(V, "seeded", sid, "meta.json")
    rnd = 0
    if os.path.exists(mp):
        rnd = json.load(open(mp)).get("round", 0) or 0
    r = rounds.setdefault(rnd, {"n": 0, "caught": 0, "missed": 0, "nd": 0})
    r["n"] += 1
    c = catch[sid]
    if "not_detected" in c:
        r["nd"] += 1
    elif c["first_run"].startswith("caught"):
        r["caught"] += 1
    else:
        r["missed"] += 1
out = ["| round | seeded changes | caught by the property's check at the first run | missed at first (check strengthened, or caught by another property's check) | not detected on purpose |", "|---|---|---|---|---|"]
tot = {"n": 0, "caught": 0, "missed": 0, "nd": 0}
for rnd in sorted(rounds):
    r = rounds[rnd]
    for key in tot:
        tot[key] += r[key]
    out.append(f"| {rnd if rnd else 1} | {r['n']} | {r['caught']} | {r['missed']} | {r['nd']} |")
out.append(f"| all | {tot['n']} | {tot['caught']} | {tot['missed']} | {tot['nd']} |")
summary_block = "\n".join(out)

p = os.path.join(V, "DESIGN.md")
s = open(p).read()
def put(s, tag, block):
    b, e = f"<!-- BEGIN GENERATED {tag} -->", f"<!-- END GENERATED {tag} -->"
    if b not in s:
        return s
    i, j = s.index(b) + len(b), s.index(e)
    return s[:i] + "\n" + block + "\n" + s[j:]
s = put(s, "findings", findings_block)
s = put(s, "seeds", seed_block)
s = put(s, "seed-summary", summary_block)
open(p, "w").write(s)
print("DESIGN.md blocks regenerated:", len(kf["fixed"]), "fixed,", len(kf["findings"]), "known,", len(catch), "seeds")
