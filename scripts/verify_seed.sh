#!/bin/bash
# usage: scripts/verify_seed.sh <dir with patch.diff, demo/, meta.json>
# Confirms in a scratch worktree that (1) the suite passes with the change,
# (2) the demo passes without it and (3) fails with it.
set -u
S="$(readlink -f "$1")"
export GOFLAGS=-mod=mod GOPROXY=off GOSUMDB=off GOTOOLCHAIN=local
W=/tmp/vseed-$$
git -C /repo worktree add -q --detach $W/repo HEAD || exit 2
cleanup() { git -C /repo worktree remove --force $W/repo; rm -rf $W; }
trap cleanup EXIT
PKG=$(grep -h -m1 '^package ' "$S"/demo/*_test.go | head -1 | awk '{print $2}' | sed 's/_test$//')
if [ "$PKG" = "sfnt" ] || [ -z "$PKG" ]; then DDIR=.; else DDIR=$(cd $W/repo && find . -type d -name "$PKG" | grep -v testdata | head -1); fi
[ -z "$DDIR" ] && DDIR=.
cd $W/repo
RACE=""; grep -qi '"demo_cmd".*-race' "$S/meta.json" && RACE="-race"
cp "$S"/demo/*_test.go "$DDIR"/ 2>/dev/null
go test $RACE -vet=off -count=1 ./"$DDIR" >$W/clean.log 2>&1; RC_CLEAN=$?
rm -f "$DDIR"/zz_seed_demo*_test.go
git apply "$S/patch.diff" || { echo "PATCH DOES NOT APPLY"; exit 1; }
go build ./... >$W/build.log 2>&1 || { echo "BUILD FAILS"; cat $W/build.log | head; exit 1; }
go test -vet=off -count=1 ./... >$W/suite.log 2>&1; RC_SUITE=$?
cp "$S"/demo/*_test.go "$DDIR"/ 2>/dev/null
go test $RACE -vet=off -count=1 ./"$DDIR" >$W/patched.log 2>&1; RC_PATCHED=$?
echo "demo on clean tree rc=$RC_CLEAN (want 0); suite with change rc=$RC_SUITE (want 0); demo with change rc=$RC_PATCHED (want !=0)"
[ $RC_CLEAN -eq 0 ] && [ $RC_SUITE -eq 0 ] && [ $RC_PATCHED -ne 0 ] && echo SEED-CONFIRMED || { echo SEED-NOT-CONFIRMED; for f in clean suite patched; do echo "--- $f"; tail -n 6 $W/$f.log; done; }
