#!/bin/bash
# Builds the monitor binaries once (warms the Go build cache).  Offline.
set -e
VERIF="$(cd "$(dirname "$0")/.." && pwd)"
export GOFLAGS=-mod=mod GOPROXY=off GOSUMDB=off GOTOOLCHAIN=local
mkdir -p "$VERIF/bin" "$VERIF/out" "$VERIF/evidence"
cd "$VERIF/harness"
cp /repo/go.sum go.sum
go build -tags verif -o "$VERIF/bin/vcheck" ./cmd/vcheck
go build -race -tags verif -o "$VERIF/bin/vcheck-race" ./cmd/vcheck
echo setup ok
