#!/usr/bin/env python3
"""Folds a builder's findings.<name>.json into known_findings.json (fixed: lines get the
hash of the commit on /repo main that has the same subject as the builder's commit)."""
import json, subprocess, sys, os
V = os.path.dirname(os.path.dirname(os.path.abspath(__file__)))
name = sys.argv[1]
frag = json.load(open(os.path.join(V, f"findings.{name}.json")))
kf = json.load(open(os.path.join(V, "known_findings.json")))
def git(*a): return subprocess.run(["git", "-C", "/repo", *a], capture_output=True, text=True).stdout.strip()
main_log = {}
for line in git("log", "--format=%h %s", "main").splitlines():
    h, s = line.split(" ", 1); main_log.setdefault(s, h)
n = 0
for e in frag:
    if e["status"] == "fixed":
        subj = git("log", "-1", "--format=%s", e["commit"]) if e.get("commit") else ""
        h = main_log.get(subj, "")
        if not h and "main_subject" in e: h = main_log.get(e["main_subject"], "")
        if not h:
            print("WARNING: no commit on main for", e["property"], subj or e.get("commit")); h = "?"
        line = f"fixed: property={e['property']} {h} {e['what']} [witness class: {e['witness']}]"
        if line not in kf["fixed"]:
            kf["fixed"].append(line); n += 1
    else:
        fid = e.get("id") or f"{e['property']}-{name}-{sum(1 for f in kf['findings'] if f['property']==e['property'])+1}"
        if not any(f["witness"] == e["witness"] and f["property"] == e["property"] for f in kf["findings"]):
            kf["findings"].append({"property": e["property"], "id": fid, "witness": e["witness"], "what": e["what"]}); n += 1
json.dump(kf, open(os.path.join(V, "known_findings.json"), "w"), indent=1)
print("merged", n, "entries from", name)
