#!/bin/bash
# usage: scripts/intake_seed.sh <ID> <first free number> [extra property ids to run]
# Copies /tmp/seed/<ID>/out/change{1,2} to seeded/<ID>-<n>, <n+1>, confirms each
# (verify_seed.sh, scratch worktree) and runs the quick check(s) against it.
set -u
ID=$1; N=$2; shift 2
cd "$(dirname "$0")/.."
for c in 1 2; do
  SRC=/tmp/seed/$ID/out/change$c
  DST=seeded/$ID-$((N+c-1))
  [ -d "$SRC" ] || { echo "no $SRC"; continue; }
  rm -rf "$DST"; mkdir -p "$DST"
  cp "$SRC/patch.diff" "$SRC/meta.json" "$DST"/ && cp -r "$SRC/demo" "$DST"/
  echo "### $DST"
  scripts/verify_seed.sh "$DST" 2>&1 | tail -2
  scripts/try_seed.sh "$DST/patch.diff" "$ID" "$@" 2>&1 | grep -E "^== |witness=|INCONCL" | cut -c1-260 | head -12
done
