#!/bin/bash
# usage: scripts/sweep.sh [tier] [seeds...]   runs every claimed check at several seeds and prints one line each
TIER="${1:-quick}"; shift
SEEDS="${*:-0 1 2 3 12345}"
cd "$(dirname "$0")/.."
IDS=$(python3 -c "import json; print(' '.join(c['property_id'] for c in json.load(open('MANIFEST.json'))['checks']))")
BAD=0
for s in $SEEDS; do
  for id in $IDS; do
    OUT=$(VERIF_SEED=$s scripts/check.sh $id $TIER 2>&1); RC=$?
    LINE=$(echo "$OUT" | grep -E "^SUMMARY" | cut -c1-170)
    echo "seed=$s $id rc=$RC $LINE"
    if [ $RC -ne 0 ]; then BAD=$((BAD+1)); echo "$OUT" | grep -E "^(VIOLATION|INCONCLUSIVE|  kind=)" | cut -c1-300 | head -6; fi
  done
done
echo "SWEEP DONE bad=$BAD"
