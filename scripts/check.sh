#!/bin/bash
# usage: scripts/check.sh <property id> <quick|thorough>
# Rebuilds the harness against /repo's current working tree (build tag
# "verif" = hooks on; falls back to a hook-less build when only the tagged
# build fails) and runs the monitors of one property.
set -u
ID="$1"; TIER="${2:-quick}"
VERIF="$(cd "$(dirname "$0")/.." && pwd)"
export GOFLAGS=-mod=mod GOPROXY=off GOSUMDB=off GOTOOLCHAIN=local
export GOCACHE="${GOCACHE:-$HOME/.cache/go-build}"
mkdir -p "$VERIF/bin" "$VERIF/out" "$VERIF/evidence"
RACE=""
case "$ID" in C16|C19) RACE="-race";; esac
BIN="$VERIF/bin/vcheck${RACE:+-race}"
cd "$VERIF/harness" || exit 2
REPO="${VERIF_REPO:-/repo}"
cp "$REPO/go.sum" go.sum 2>/dev/null
LOG="$VERIF/out/build-$ID.log"
MODFILE=""
if [ "$REPO" != "/repo" ]; then
  # scratch worktree of the repository (used while developing and for seeded changes)
  sed "s#=> /repo#=> $REPO#" go.mod > "$VERIF/out/alt.mod"; cp go.sum "$VERIF/out/alt.sum"
  MODFILE="-modfile=$VERIF/out/alt.mod"
fi
(
  flock 9
  if ! go build $MODFILE $RACE -tags verif -o "$BIN" ./cmd/vcheck >"$LOG" 2>&1; then
    if go build $MODFILE $RACE -o "$BIN" ./cmd/vcheck >>"$LOG" 2>&1; then
      echo "NOTE property=$ID hooks unavailable: tagged build failed, running without hooks"
    else
      cat "$LOG"
      echo "INCONCLUSIVE property=$ID reason=build-failed"
      exit 2
    fi
  fi
  # private copy so that a concurrent rebuild cannot swap the binary under us
  cp "$BIN" "$VERIF/out/vcheck-$ID-$TIER"
) 9>"$VERIF/out/.buildlock" || exit $?
EXE="$VERIF/out/vcheck-$ID-$TIER"
"$EXE" -prop "$ID" -tier "$TIER" -verif "$VERIF"
RC=$?
rm -f "$EXE"
exit $RC
