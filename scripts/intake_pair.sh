#!/bin/bash
# usage: scripts/intake_pair.sh <Pxx> <ID1> <ID2> <n>
# Round 5 layout: /tmp/seed/<Pxx>/out/change1 belongs to <ID1>, change2 to <ID2>.
set -u
P=$1; ID1=$2; ID2=$3; N=$4
cd "$(dirname "$0")/.."
c=0
for ID in $ID1 $ID2; do
  c=$((c+1))
  SRC=/tmp/seed/$P/out/change$c
  DST=seeded/$ID-$N
  [ -d "$SRC" ] || { echo "no $SRC"; continue; }
  rm -rf "$DST"; mkdir -p "$DST"
  cp "$SRC/patch.diff" "$SRC/meta.json" "$DST"/ && cp -r "$SRC/demo" "$DST"/
  echo "### $DST"
  scripts/verify_seed.sh "$DST" 2>&1 | tail -2
  scripts/try_seed.sh "$DST/patch.diff" "$ID" 2>&1 | grep -E "^== |witness=|INCONCL" | cut -c1-260 | head -12
done
