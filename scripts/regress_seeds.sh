#!/bin/bash
# usage: scripts/regress_seeds.sh [seed ids...]
# Re-runs every recorded seeded change against the check(s) recorded as
# catching it, in a scratch worktree of the repository (never in /repo), and
# lists the seeds that are no longer detected.  Run it from a copy (git
# worktree) of /verif when other checks are running in /verif itself.
set -u
V="$(cd "$(dirname "$0")/.." && pwd)"
W=${REGRESS_DIR:-/tmp/regress-$$}
mkdir -p "$W"
git -C /repo worktree add -q --detach "$W/repo" HEAD || exit 2
trap 'git -C /repo worktree remove --force "$W/repo"; rm -rf "$W"' EXIT
IDS="$*"
[ -z "$IDS" ] && IDS=$(python3 -c "import json; print(' '.join(sorted(json.load(open('$V/seeded/catch.json')))))")
BAD=0
for sid in $IDS; do
  PROPS=$(python3 -c "import json; c=json.load(open('$V/seeded/catch.json'))['$sid']; print(' '.join(c['caught_by']) if c['caught_by'] else '')")
  if [ -z "$PROPS" ]; then echo "$sid not-detected-on-purpose"; continue; fi
  git -C "$W/repo" checkout -q -- . && git -C "$W/repo" clean -fdq
  if ! git -C "$W/repo" apply "$V/seeded/$sid/patch.diff" 2>/dev/null; then echo "$sid PATCH-DOES-NOT-APPLY"; BAD=$((BAD+1)); continue; fi
  HIT=""
  for p in $PROPS; do
    VERIF_REPO="$W/repo" "$V/scripts/check.sh" "$p" quick >"$W/out.log" 2>&1; rc=$?
    [ $rc -eq 1 ] && HIT="$HIT $p"
    [ $rc -eq 1 ] && break
  done
  if [ -n "$HIT" ]; then echo "$sid detected-by$HIT"; else echo "$sid NOT-DETECTED (checked: $PROPS)"; BAD=$((BAD+1)); fi
done
echo "REGRESS DONE bad=$BAD"
