#!/bin/bash
# usage: scripts/try_seed.sh <patch.diff> <property id>... 
# Applies a seeded change to /repo, runs the quick checks of the given
# properties, and ALWAYS restores /repo afterwards.
set -u
PATCH="$(readlink -f "$1")"; shift
cd /repo || exit 2
if [ -n "$(git status --porcelain)" ]; then echo "/repo is not clean"; exit 2; fi
# evidence and replays written while the change is applied are not evidence
# about /repo: keep the files of the last clean run
SAVE=$(mktemp -d)
cp -a /verif/evidence/. "$SAVE"/ 2>/dev/null
restore() { git -C /repo checkout -- . ; git -C /repo clean -fdq; cp -a "$SAVE"/. /verif/evidence/; rm -rf "$SAVE"; }
trap restore EXIT
git apply "$PATCH" || { echo "patch does not apply"; exit 2; }
git diff --stat | tail -1
for ID in "$@"; do
  OUT=$(/verif/scripts/check.sh "$ID" "${TIER:-quick}" 2>&1)
  RC=$?
  echo "== $ID rc=$RC"
  echo "$OUT" | grep -E "^(SUMMARY|VIOLATION|INCONCLUSIVE|KNOWN|  kind=)" | cut -c1-220 | head -12
done
