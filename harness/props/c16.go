package props

import (
	"bytes"
	"crypto/sha256"
	"encoding/json"
	"fmt"
	"math/rand/v2"
	"os"
	"os/exec"
	"path/filepath"
	"regexp"
	"runtime"
	"sort"
	"strings"
	"sync"
	"time"

	"golang.org/x/text/language"
	"seehuhn.de/go/sfnt"
	"seehuhn.de/go/sfnt/cff"
	"seehuhn.de/go/sfnt/glyph"
	"seehuhn.de/go/sfnt/header"
	"seehuhn.de/go/sfnt/opentype/classdef"
	"seehuhn.de/go/sfnt/opentype/gdef"
	"seehuhn.de/go/sfnt/opentype/gtab"
	"seehuhn.de/go/sfnt/opentype/gtab/builder"

	"verif/harness/internal/gen/fontgen"
	"verif/harness/internal/gen/otl"
	"verif/harness/internal/mon"
)

// C16: a font that is not being modified is safe for concurrent use.
// Built with -race (scripts/check.sh); GORACE log_path is set by the driver.

func init() {
	mon.RegisterCfg("C16", mon.Config{
		Rule: "one shared *sfnt.Font per case (generated fonts of every outline kind with layout tables, corpus fonts read from bytes); N in {2,4,16,64} goroutines are released by a barrier and each performs seeded permutations of the 15 read-only operations of the property for R rounds, under GOMAXPROCS 2 and 16; the binary is built with the Go race detector (halt_on_error=0, log to file): any report block whose stack touches go-sfnt is a violation; every result is compared with the result of the same call made alone before the goroutines start; a canary (two goroutines calling header.Write on one table map with a head table, documented as patched in place) must be reported by the detector, otherwise the run is inconclusive. distinct = distinct (font, N, GOMAXPROCS, permutation seed) schedules started (hash); overlapping operation pairs are listed as classes; half of the generated fonts are written and read back before they are shared (reader-built structures), CID-keyed fonts with several private dictionaries in contiguous blocks; three layouter operations with different feature selections",
		Assumptions: []string{
			"the race detector reports races between accesses that actually executed; coverage is the set of operation pairs whose executions overlapped in time on the same font (listed in the evidence)",
			"operations whose result differs between two calls made alone (nondeterministic by themselves) are excluded from the value comparison, not from the race detection",
		},
		Shards:  8,
		HardSec: 600,
		SoftSec: 120,
		Env:     []string{"GORACE=halt_on_error=0 exitcode=0 log_path={OUT}/race"},
	}, runC16)
}

type c16op struct {
	name string
	ok   func(f *sfnt.Font) bool
	run  func(f *sfnt.Font, r *rand.Rand) string
}

func digest(b []byte) string {
	h := sha256.Sum256(b)
	return fmt.Sprintf("%x", h[:8])
}

var always = func(*sfnt.Font) bool { return true }

func c16ops() []c16op {
	subsetList := func(f *sfnt.Font) []glyph.ID {
		n := f.NumGlyphs()
		list := []glyph.ID{0}
		for i := 1; i < n && len(list) < 12; i += max(1, n/10) {
			list = append(list, glyph.ID(i))
		}
		return list
	}
	seqFor := func(f *sfnt.Font) []glyph.Info {
		n := f.NumGlyphs()
		var s []glyph.Info
		for i := 0; i < 12; i++ {
			s = append(s, glyph.Info{GID: glyph.ID((i*7 + 1) % n), Text: []rune{rune('a' + i)}})
		}
		return s
	}
	return []c16op{
		{"Write", always, func(f *sfnt.Font, r *rand.Rand) string {
			b := &bytes.Buffer{}
			_, err := f.Write(b)
			return fmt.Sprint(digest(b.Bytes()), err)
		}},
		{"WritePDF", always, func(f *sfnt.Font, r *rand.Rand) string {
			b := &bytes.Buffer{}
			var err error
			if f.IsGlyf() {
				_, err = f.WriteTrueTypePDF(b)
			} else {
				err = f.WriteOpenTypeCFFPDF(b)
			}
			return fmt.Sprint(digest(b.Bytes()), err)
		}},
		{"Subset", func(f *sfnt.Font) bool { return f.Gdef == nil && subsetSupported(f) }, func(f *sfnt.Font, r *rand.Rand) string {
			// the order in which extra glyphs are appended is not specified
			// (and varies between calls made alone): order-insensitive digest
			list := subsetList(f)
			sub := f.Subset(list)
			var items []string
			for i := 0; i < sub.NumGlyphs(); i++ {
				it := fmt.Sprint(sub.GlyphWidth(glyph.ID(i)), sub.GlyphBBox(glyph.ID(i)), sub.GlyphName(glyph.ID(i)))
				if i < len(list) {
					it = fmt.Sprint(i, it)
				}
				items = append(items, it)
			}
			sort.Strings(items)
			_, err := sub.Write(&bytes.Buffer{})
			return fmt.Sprint(sub.NumGlyphs(), digest([]byte(strings.Join(items, "|"))), err != nil)
		}},
		{"Clone", always, func(f *sfnt.Font, r *rand.Rand) string {
			c := f.Clone()
			return fmt.Sprint(c.FamilyName, c.NumGlyphs(), c.UnitsPerEm)
		}},
		{"FontBBox", always, func(f *sfnt.Font, r *rand.Rand) string { return fmt.Sprint(f.FontBBox(), f.FontBBoxPDF()) }},
		{"Widths", always, func(f *sfnt.Font, r *rand.Rand) string {
			return digest([]byte(fmt.Sprint(f.Widths(), f.WidthsPDF(), f.WidthsMapPDF() == nil, f.IsFixedPitch())))
		}},
		{"GlyphBBox", always, func(f *sfnt.Font, r *rand.Rand) string {
			var b strings.Builder
			for i := 0; i < f.NumGlyphs(); i += max(1, f.NumGlyphs()/50) {
				fmt.Fprint(&b, f.GlyphBBox(glyph.ID(i)), f.GlyphWidth(glyph.ID(i)), f.GlyphWidthPDF(glyph.ID(i)), f.GlyphName(glyph.ID(i)))
			}
			return digest([]byte(b.String() + fmt.Sprint(f.GlyphBBoxes())))
		}},
		{"MakeGlyphNames", always, func(f *sfnt.Font, r *rand.Rand) string {
			return digest([]byte(strings.Join(f.MakeGlyphNames(), "\x00")))
		}},
		{"GetFontInfo", always, func(f *sfnt.Font, r *rand.Rand) string {
			return fmt.Sprintf("%+v|%s|%s|%s", *f.GetFontInfo(), f.PostScriptName(), f.FullName(), f.Subfamily())
		}},
		{"AsCFF.Write", func(f *sfnt.Font) bool { return f.IsCFF() }, func(f *sfnt.Font, r *rand.Rand) string {
			b := &bytes.Buffer{}
			err := f.AsCFF().Write(b)
			return fmt.Sprint(digest(b.Bytes()), err)
		}},
		{"Layout", func(f *sfnt.Font) bool { return f.CMapTable != nil }, func(f *sfnt.Font, r *rand.Rand) string {
			return c16layout(f, nil, nil)
		}},
		// layouters with other feature selections: all features of the font,
		// and the first two of each table (they share the first feature with
		// the selection before)
		{"Layout(all features)", func(f *sfnt.Font) bool { return f.CMapTable != nil && (f.Gsub != nil || f.Gpos != nil) }, func(f *sfnt.Font, r *rand.Rand) string {
			return c16layout(f, c16features(f.Gsub, 1<<30), c16features(f.Gpos, 1<<30))
		}},
		{"Layout(two features)", func(f *sfnt.Font) bool { return f.CMapTable != nil && (f.Gsub != nil || f.Gpos != nil) }, func(f *sfnt.Font, r *rand.Rand) string {
			return c16layout(f, c16features(f.Gsub, 2), c16features(f.Gpos, 2))
		}},
		{"Apply(GSUB)", func(f *sfnt.Font) bool { return f.Gsub != nil && len(f.Gsub.LookupList) > 0 }, func(f *sfnt.Font, r *rand.Rand) string {
			var ll []gtab.LookupIndex
			for i := range f.Gsub.LookupList {
				ll = append(ll, gtab.LookupIndex(i))
			}
			ctx := gtab.NewContext(f.Gsub.LookupList, f.Gdef, ll)
			return digest([]byte(seqString(ctx.Apply(seqFor(f)))))
		}},
		{"Apply(GPOS)", func(f *sfnt.Font) bool { return f.Gpos != nil && len(f.Gpos.LookupList) > 0 }, func(f *sfnt.Font, r *rand.Rand) string {
			var ll []gtab.LookupIndex
			for i := range f.Gpos.LookupList {
				ll = append(ll, gtab.LookupIndex(i))
			}
			ctx := gtab.NewContext(f.Gpos.LookupList, f.Gdef, ll)
			return digest([]byte(seqString(ctx.Apply(seqFor(f)))))
		}},
		{"ExplainGsub", func(f *sfnt.Font) bool { return f.Gsub != nil }, func(f *sfnt.Font, r *rand.Rand) string {
			return digest([]byte(builder.ExplainGsub(f)))
		}},
		{"ExplainGpos", func(f *sfnt.Font) bool { return f.Gpos != nil }, func(f *sfnt.Font, r *rand.Rand) string {
			return digest([]byte(strings.Join(builder.ExplainGpos(f), "\n")))
		}},
	}
}

func c16layout(f *sfnt.Font, gsubOn, gposOn map[string]bool) string {
	lay, err := f.NewLayouter(language.English, gsubOn, gposOn)
	if err != nil {
		return "err:" + err.Error()
	}
	var b strings.Builder
	for _, s := range []string{"Hello AB fi", "ffl x", "ABBA"} {
		b.WriteString(seqString(lay.Layout(s)))
	}
	return digest([]byte(b.String()))
}

// c16features switches on the first n distinct feature tags of a table.
func c16features(info *gtab.Info, n int) map[string]bool {
	on := map[string]bool{}
	if info == nil {
		return on
	}
	for _, ft := range info.FeatureList {
		if len(on) >= n {
			break
		}
		if ft != nil {
			on[ft.Tag] = true
		}
	}
	return on
}

// subsetSupported: only layout data the subsetter declares supported.
func subsetSupported(f *sfnt.Font) bool {
	for _, info := range []*gtab.Info{f.Gsub, f.Gpos} {
		if info == nil {
			continue
		}
		for _, l := range info.LookupList {
			for _, st := range l.Subtables {
				switch st.(type) {
				case *gtab.Gsub1_1, *gtab.Gsub4_1, gtab.Gpos2_1:
				default:
					return false
				}
			}
		}
	}
	return true
}

var raceBlockRe = regexp.MustCompile(`(?s)WARNING: DATA RACE.*?==================`)

// raceReports reads the race detector's log files of this process.
func raceReports(outDir string, sinceOffset map[string]int64) (blocks []string) {
	files, _ := filepath.Glob(filepath.Join(outDir, fmt.Sprintf("race.%d", os.Getpid())))
	for _, fn := range files {
		b, err := os.ReadFile(fn)
		if err != nil {
			continue
		}
		off := sinceOffset[fn]
		if int64(len(b)) > off {
			for _, m := range raceBlockRe.FindAllString(string(b[off:]), -1) {
				blocks = append(blocks, m)
			}
			sinceOffset[fn] = int64(len(b))
		}
	}
	return blocks
}

// raceKey: pair of the first go-sfnt frames of the two stacks.
func raceKey(block string) string {
	var frames []string
	for _, part := range strings.Split(block, "\n\n") {
		for _, line := range strings.Split(part, "\n") {
			t := strings.TrimSpace(line)
			if strings.HasPrefix(t, "seehuhn.de/go/sfnt") {
				if i := strings.LastIndex(t, "("); i > 0 {
					t = t[:i]
				}
				frames = append(frames, strings.TrimPrefix(t, "seehuhn.de/go/sfnt"))
				break
			}
		}
		if len(frames) == 2 {
			break
		}
	}
	sort.Strings(frames)
	return strings.Join(frames, " <-> ")
}

// c16cold is the body of a cold-start child process: no library call has
// been made in this process before the goroutines start.
func c16cold(c *mon.Ctx, idx int, out string) {
	ops := c16ops()
	kinds := []string{"glyf", "cff", "cid"}
	var f *sfnt.Font
	desc := ""
	corpus := corpusFiles(c)
	// from the seventh process on: all goroutines make the same call first
	// (sixteen first uses of one operation at the same moment), on a font that
	// was constructed in memory, so that nothing of the library has run yet
	herd := idx >= 6
	herdStart := 0
	if herd {
		starts := []string{"Write", "Layout", "Subset", "WritePDF", "MakeGlyphNames", "ExplainGsub", "Apply(GSUB)", "AsCFF.Write", "Layout(all features)"}
		want := starts[(idx-6)%len(starts)]
		for j, op := range ops {
			if op.name == want {
				herdStart = j
			}
		}
	}
	if idx%2 == 1 && len(corpus) > 0 && !herd {
		// a real font read from bytes inside the goroutines' first operation is
		// not possible (the font must exist first); reading is itself the first use
		cf := corpus[(idx*5)%len(corpus)]
		f0, err := sfnt.Read(bytes.NewReader(cf.data))
		if err != nil {
			return
		}
		f = f0
		desc = "corpus " + cf.name
	} else {
		o := fontgen.Opts{Kind: kinds[idx/2%3], MinGlyphs: 8, MaxGlyphs: 30, Layout: "subset", CMap: "4", Plain: true}
		f, _ = fontgen.Font(c.Rand("coldfont", idx), o)
		if f.CreationTime.IsZero() && f.ModificationTime.IsZero() {
			f.ModificationTime = f.ModificationTime.AddDate(2001, 0, 0)
		}
		c16richLayout(c.Rand("coldlayout", idx), f)
		desc = "generated " + kinds[idx/2%3]
		if co, ok := f.Outlines.(*cff.Outlines); ok {
			for i, g := range co.Glyphs {
				if i%3 == 1 {
					g.Width += 0.5 // in-memory fonts can have fractional widths
				}
			}
		}
		if (idx/2)%2 == 1 && !herd {
			buf := &bytes.Buffer{}
			if _, err := f.Write(buf); err == nil {
				if g, err := sfnt.Read(bytes.NewReader(buf.Bytes())); err == nil {
					f = g
					desc += " read back"
				}
			}
		}
	}
	n := len(ops) // one goroutine per operation: every pair of operations meets at its first use
	results := make([][]string, n)
	var wg sync.WaitGroup
	gate := make(chan struct{})
	for g := 0; g < n; g++ {
		wg.Add(1)
		go func(g int) {
			defer wg.Done()
			r := rand.New(rand.NewPCG(uint64(idx)*100+uint64(g), 5))
			res := make([]string, len(ops))
			<-gate
			for i := range ops {
				j := (i + g) % len(ops) // every operation is somebody's first
				if herd {
					j = (i + herdStart) % len(ops)
				}
				if !ops[j].ok(f) {
					continue
				}
				pv, _ := mon.Try(func() { res[j] = ops[j].run(f, r) })
				if pv != nil {
					res[j] = fmt.Sprint("PANIC: ", pv)
				}
			}
			results[g] = res
		}(g)
	}
	close(gate)
	wg.Wait()
	// sequential reference, computed afterwards
	var mism []string
	nOps := 0
	r0 := rand.New(rand.NewPCG(1, 2))
	for j, op := range ops {
		if !op.ok(f) {
			continue
		}
		a := op.run(f, r0)
		same := true
		for rep := 0; rep < 4; rep++ {
			same = same && op.run(f, r0) == a
		}
		for g := range results {
			nOps++
			if strings.HasPrefix(results[g][j], "PANIC") {
				mism = append(mism, fmt.Sprintf("concurrent-panic:%s %s", op.name, results[g][j]))
			} else if same && results[g][j] != a {
				mism = append(mism, fmt.Sprintf("concurrent-result-differs:%s first concurrent use returned %s, alone %s", op.name, results[g][j], a))
			}
		}
	}
	how := "first use of every operation is concurrent"
	if herd {
		how = "all goroutines call " + ops[herdStart].name + " first"
	}
	b, _ := json.Marshal(map[string]any{"Desc": desc + fmt.Sprintf(", %d goroutines, %s", n, how), "Ops": nOps, "Mismatches": mism})
	os.WriteFile(out, b, 0o644)
}

func firstLine(s string) string {
	for _, l := range strings.Split(s, "\n") {
		if strings.HasPrefix(l, "fatal error") || strings.HasPrefix(l, "panic") {
			return l
		}
	}
	return "?"
}

// c16richLayout replaces the font's layout tables by generated ones with
// contextual and chaining lookups (all expressible in the description
// language, so that Explain works) and GDEF classes.
func c16richLayout(r *rand.Rand, f *sfnt.Font) {
	n := f.NumGlyphs()
	o := otl.Opts{DSL: true, MaxGID: n - 1, NumLookups: 6, Size: otl.Tiny}
	f.Gsub = otl.Info(r, otl.GSUB, o)
	f.Gpos = otl.Info(r, otl.GPOS, o)
	f.Gdef = otl.Gdef(r, n)
	// chained context rules with backtracks of several glyphs (the description
	// language prints backtracks in reverse order)
	bt := func() []glyph.ID {
		var out []glyph.ID
		for i := 2 + r.IntN(3); i > 0; i-- {
			out = append(out, glyph.ID(1+r.IntN(n-1)))
		}
		return out
	}
	first := glyph.ID(1 + r.IntN(n-1))
	chain := &gtab.ChainedSeqContext1{Cov: map[glyph.ID]int{first: 0}, Rules: [][]*gtab.ChainedSeqRule{{
		{Backtrack: bt(), Input: []glyph.ID{glyph.ID(1 + r.IntN(n-1))}, Lookahead: bt(), Actions: []gtab.SeqLookup{{SequenceIndex: 0, LookupListIndex: 0}}},
		{Backtrack: bt(), Actions: []gtab.SeqLookup{{SequenceIndex: 0, LookupListIndex: 0}}},
	}}}
	f.Gsub.LookupList = append(f.Gsub.LookupList, &gtab.LookupTable{Meta: &gtab.LookupMetaInfo{LookupType: 6}, Subtables: []gtab.Subtable{chain}})
	if len(f.Gsub.FeatureList) > 0 {
		f.Gsub.FeatureList[0].Lookups = append(f.Gsub.FeatureList[0].Lookups, gtab.LookupIndex(len(f.Gsub.LookupList)-1))
	}
	// an alternate substitution whose sets are not in glyph order (the order
	// is the designer's: the first alternate is the default)
	alt := func() []glyph.ID {
		return []glyph.ID{glyph.ID(n - 1 - r.IntN(n/2)), glyph.ID(1 + r.IntN(n/2)), glyph.ID(n / 2)}
	}
	a1, a2 := glyph.ID(1+r.IntN(n-1)), glyph.ID(1+r.IntN(n-1))
	cov := map[glyph.ID]int{a1: 0}
	alts := [][]glyph.ID{alt()}
	if a2 != a1 {
		if a2 < a1 {
			cov[a2], cov[a1] = 0, 1
		} else {
			cov[a2] = 1
		}
		alts = append(alts, alt())
	}
	f.Gsub.LookupList = append(f.Gsub.LookupList, &gtab.LookupTable{Meta: &gtab.LookupMetaInfo{LookupType: 3}, Subtables: []gtab.Subtable{&gtab.Gsub3_1{Cov: cov, Alternates: alts}}})
	if len(f.Gsub.FeatureList) > 0 {
		f.Gsub.FeatureList[0].Lookups = append(f.Gsub.FeatureList[0].Lookups, gtab.LookupIndex(len(f.Gsub.LookupList)-1))
	}
	// explicit entries for class 0 (legal in a constructed table, never
	// produced by the reader): an encoder must not "tidy" the shared maps
	if f.Gdef == nil {
		f.Gdef = &gdef.Table{}
	}
	if f.Gdef.GlyphClass == nil {
		f.Gdef.GlyphClass = classdef.Table{}
	}
	for i := 0; i < 6; i++ {
		g := glyph.ID(r.IntN(n))
		if _, ok := f.Gdef.GlyphClass[g]; !ok {
			f.Gdef.GlyphClass[g] = 0
		}
		if f.Gdef.MarkAttachClass != nil {
			if _, ok := f.Gdef.MarkAttachClass[g]; !ok {
				f.Gdef.MarkAttachClass[g] = 0
			}
		}
	}
}

func runC16(c *mon.Ctx) {
	if spec := os.Getenv("C16_COLD"); spec != "" {
		idx := 0
		fmt.Sscan(spec, &idx)
		c16cold(c, idx, os.Getenv("C16_COLD_OUT"))
		return
	}
	raceDir := os.Getenv("GORACE")
	logBase := ""
	if i := strings.Index(raceDir, "log_path="); i >= 0 {
		logBase = filepath.Dir(strings.Fields(raceDir[i+len("log_path="):])[0])
	}
	offsets := map[string]int64{}
	ops := c16ops()
	corpus := corpusFiles(c)
	type cfg struct {
		font  int // <0: corpus index -(font+1)
		n     int
		procs int
	}
	var cfgs []cfg
	nGen := c.N(4, 24)
	nCorp := c.N(2, 10)
	for fi := 0; fi < nGen; fi++ {
		for _, n := range []int{2, 4, 16, 64} {
			cfgs = append(cfgs, cfg{fi, n, []int{2, 16}[(fi+n)%2]})
		}
	}
	for ci := 0; ci < nCorp && ci < len(corpus); ci++ {
		for _, n := range []int{2, 16} {
			cfgs = append(cfgs, cfg{-(ci + 1), n, 16})
		}
	}
	rounds := c.N(8, 60)

	c.Stratum("schedules", len(cfgs), func(k *mon.Case) {
		cf := cfgs[k.Index]
		var f *sfnt.Font
		var name string
		if cf.font >= 0 {
			o := fontgen.Opts{Kind: []string{"glyf", "cff", "cid"}[cf.font%3], MinGlyphs: 8, MaxGlyphs: 40, Layout: "subset", CMap: []string{"4", "both", "12"}[cf.font%3], Plain: true}
			var info *fontgen.Info
			f, info = fontgen.Font(c.Rand("font", cf.font), o)
			if o.Kind == "cid" {
				// several private dictionaries in contiguous blocks of glyphs:
				// the writer then chooses FDSelect format 3 (ranges)
				o.MinGlyphs, o.MaxGlyphs = 24, 60
				for try := 0; try < 20; try++ {
					f, info = fontgen.Font(c.Rand("font", cf.font*100+try), o)
					if len(f.Outlines.(*cff.Outlines).Private) >= 2 {
						break
					}
				}
				ol := f.Outlines.(*cff.Outlines)
				if nfd, n := len(ol.Private), len(ol.Glyphs); nfd >= 2 {
					ol.FDSelect = func(g glyph.ID) int { return int(g) * nfd / n }
					k.Class("font:cid-fd-blocks")
				}
			}
			if f.CreationTime.IsZero() && f.ModificationTime.IsZero() {
				f.ModificationTime = f.ModificationTime.AddDate(2001, 0, 0)
			}
			name = fmt.Sprintf("generated-%d-%s(%d glyphs)", cf.font, info.Kind, info.NGlyphs)
			if cf.font%4 == 0 {
				// lookups that name a mark filtering set although the font has
				// no GDEF table (Subset accepts such fonts)
				if f.Gsub == nil && f.NumGlyphs() > 3 {
					f.Gsub = &gtab.Info{
						ScriptList:  gtab.ScriptListInfo{language.MustParse("und-Zzzz-x-dflt"): {Required: 0xFFFF, Optional: []gtab.FeatureIndex{0}}},
						FeatureList: gtab.FeatureListInfo{{Tag: "liga", Lookups: []gtab.LookupIndex{0}}},
						LookupList: gtab.LookupList{{Meta: &gtab.LookupMetaInfo{LookupType: 1},
							Subtables: []gtab.Subtable{&gtab.Gsub1_1{Cov: map[glyph.ID]bool{1: true}, Delta: 1}}}},
					}
				}
				for _, tb := range []*gtab.Info{f.Gsub, f.Gpos} {
					if tb == nil {
						continue
					}
					for _, l := range tb.LookupList {
						l.Meta.LookupFlags |= gtab.UseMarkFilteringSet
						l.Meta.MarkFilteringSet = 1
					}
				}
				nl := 0
				for _, tb := range []*gtab.Info{f.Gsub, f.Gpos} {
					if tb != nil {
						nl += len(tb.LookupList)
					}
				}
				if nl > 0 {
					k.Class("font:mark-filtering-set-without-gdef")
				}
			}
			if cf.font%2 == 1 {
				c16richLayout(c.Rand("layout", cf.font), f)
				name += "+contextual-layout"
				k.Class("font:contextual-layout")
				k.Class("font:explicit-class-0-entries")
			}
			if co, ok := f.Outlines.(*cff.Outlines); ok && (cf.font/2)%2 == 0 {
				// a font constructed in memory can have fractional advance
				// widths (files hold integers)
				for i, g := range co.Glyphs {
					if i%3 == 1 {
						g.Width += 0.5
					}
				}
				k.Class("font:cff-fractional-widths")
			}
			if (cf.font/2)%2 == 1 {
				// as applications get it: written to a file and read back, so
				// that every structure (FDSelect functions, feature and lookup
				// slices, coverage tables, ...) is the one the reader builds
				buf := &bytes.Buffer{}
				if _, err := f.Write(buf); err != nil {
					k.Fail("mismatch", "setup:write", "cannot write the generated font: %v", err)
					return
				}
				g, err := sfnt.Read(bytes.NewReader(buf.Bytes()))
				if err != nil {
					k.Fail("mismatch", "setup:read", "cannot read the generated font back: %v", err)
					return
				}
				f = g
				name += "+read-back"
				k.Class("font:read-back:" + info.Kind)
			}
		} else {
			// prefer small and large real fonts alternately
			idx := (-cf.font - 1) * 3 % len(corpus)
			var err error
			f, err = sfnt.Read(bytes.NewReader(corpus[idx].data))
			if err != nil {
				return
			}
			name = corpus[idx].name
		}
		desc := fmt.Sprintf("font=%s goroutines=%d GOMAXPROCS=%d rounds=%d", name, cf.n, cf.procs, rounds)
		k.Distinct(desc, c.Seed)
		old := runtime.GOMAXPROCS(cf.procs)
		defer runtime.GOMAXPROCS(old)

		// sequential reference (twice: operations that are not deterministic on
		// their own are excluded from the value comparison)
		var active []int
		ref := make([]string, len(ops))
		stable := make([]bool, len(ops))
		r0 := c.Rand("ref", k.Index)
		for i, op := range ops {
			if !op.ok(f) {
				continue
			}
			var a string
			same := true
			if k.Guard(op.name+" (alone)", func() {
				a = op.run(f, r0)
				for rep := 0; rep < 5; rep++ {
					same = same && op.run(f, r0) == a
				}
			}) {
				return
			}
			active = append(active, i)
			ref[i] = a
			stable[i] = same
			if !stable[i] {
				k.Class("nondeterministic-alone:" + op.name)
			}
		}
		raceReports(logBase, offsets) // discard anything reported before (none expected)

		type interval struct {
			op         int
			start, end time.Time
		}
		type mismatch struct {
			op       int
			got      string
			panicked any
			stack    string
		}
		ivs := make([][]interval, cf.n)
		mms := make([][]mismatch, cf.n)
		var wg sync.WaitGroup
		gate := make(chan struct{})
		for g := 0; g < cf.n; g++ {
			wg.Add(1)
			go func(g int) {
				defer wg.Done()
				r := rand.New(rand.NewPCG(uint64(c.Seed)+uint64(k.Index)*1000+uint64(g), 77))
				<-gate
				for round := 0; round < rounds; round++ {
					perm := r.Perm(len(active))
					for _, pi := range perm {
						i := active[pi]
						t0 := time.Now()
						var got string
						pv, st := mon.Try(func() { got = ops[i].run(f, r) })
						t1 := time.Now()
						ivs[g] = append(ivs[g], interval{i, t0, t1})
						if pv != nil {
							mms[g] = append(mms[g], mismatch{op: i, panicked: pv, stack: st})
						} else if stable[i] && got != ref[i] {
							mms[g] = append(mms[g], mismatch{op: i, got: got})
						}
					}
				}
			}(g)
		}
		close(gate)
		wg.Wait()

		nOps := 0
		for g := range ivs {
			nOps += len(ivs[g])
			for _, m := range mms[g] {
				if m.panicked != nil {
					k.Fail("panic", "concurrent-panic:"+ops[m.op].name, "%s panicked under concurrency: %v\n%s (%s)", ops[m.op].name, m.panicked, m.stack, desc)
				} else {
					k.Fail("mismatch", "concurrent-result-differs:"+ops[m.op].name, "%s returned %s under concurrency, %s when run alone (%s)", ops[m.op].name, m.got, ref[m.op], desc)
				}
			}
		}
		k.Evals(nOps)
		k.ClassN("operations-executed", nOps)

		// which operation pairs overlapped on this font?
		var all []interval
		for g := range ivs {
			all = append(all, ivs[g]...)
		}
		sort.Slice(all, func(i, j int) bool { return all[i].start.Before(all[j].start) })
		seen := map[[2]int]bool{}
		var open []interval
		for _, iv := range all {
			kept := open[:0]
			for _, o := range open {
				if o.end.After(iv.start) {
					kept = append(kept, o)
					a, b := o.op, iv.op
					if a > b {
						a, b = b, a
					}
					seen[[2]int{a, b}] = true
				}
			}
			open = append(kept, iv)
		}
		for p := range seen {
			k.Class("overlap:" + ops[p[0]].name + "+" + ops[p[1]].name)
		}
		k.Class(fmt.Sprintf("goroutines=%d", cf.n))
		k.Class(fmt.Sprintf("GOMAXPROCS=%d", cf.procs))

		// race reports of this case
		for _, blk := range raceReports(logBase, offsets) {
			key := raceKey(blk)
			if len(blk) > 3500 {
				blk = blk[:3500] + "…"
			}
			k.Fail("race", "race:"+key, "data race reported while %s\n%s", desc, blk)
		}
		if k.Index < 2 {
			k.Sample(fmt.Sprintf("%s: %d operations, %d distinct overlapping operation pairs", desc, nOps, len(seen)))
		}
	})

	// cold start: the very first use of the library in a fresh process happens
	// concurrently (lazily initialised package-level state is only exposed then;
	// the sequential reference of the stratum above would warm it up)
	nCold := c.N(12, 36)
	c.Stratum("cold-start", nCold, func(k *mon.Case) {
		exe, err := os.Executable()
		if err != nil {
			return
		}
		resFile := filepath.Join(c.OutDir, fmt.Sprintf("cold-%d-%d.json", c.Shard, k.Index))
		cmd := exec.Command(exe, "-worker", "-prop", "C16", "-tier", c.Tier, "-seed", fmt.Sprint(c.Seed), "-only", "none:0", "-out", c.OutDir, "-nshards", "1", "-shard", fmt.Sprint(900+k.Index))
		cmd.Env = append(os.Environ(), fmt.Sprintf("C16_COLD=%d", k.Index), "C16_COLD_OUT="+resFile)
		var stderr bytes.Buffer
		cmd.Stderr = &stderr
		runErr := cmd.Run()
		k.Eval()
		k.Distinct("cold", k.Index, c.Seed)
		b, _ := os.ReadFile(resFile)
		os.Remove(resFile)
		var res struct {
			Desc       string
			Ops        int
			Mismatches []string
		}
		if json.Unmarshal(b, &res) != nil {
			tail := stderr.String()
			if len(tail) > 3000 {
				tail = tail[len(tail)-3000:]
			}
			k.Fail("crash", "cold-start:child-died:"+mon.PanicClass(firstLine(tail)), "cold-start child did not finish (%v)\n%s", runErr, tail)
			return
		}
		k.Evals(res.Ops)
		for _, m := range res.Mismatches {
			k.Fail("mismatch", "cold-start:"+m[:strings.Index(m+" ", " ")], "%s (%s)", m, res.Desc)
		}
		if cmd.Process != nil {
			logf := filepath.Join(logBase, fmt.Sprintf("race.%d", cmd.Process.Pid))
			if rb, err := os.ReadFile(logf); err == nil {
				for _, blk := range mon.RaceBlocks(string(rb)) {
					key := mon.RaceKey(blk)
					if len(blk) > 3500 {
						blk = blk[:3500] + "…"
					}
					k.Fail("race", "race:"+key, "data race reported in a cold-start process (%s)\n%s", res.Desc, blk)
				}
			}
		}
		k.Class("cold-start-process")
		if strings.Contains(res.Desc, "all goroutines call") {
			k.Class("cold-start-process:same-first-call")
		}
		if k.Index < 1 {
			k.Sample("cold start: " + res.Desc)
		}
	})

	// liveness of the monitor: a known race must be reported
	c.Stratum("canary", 1, func(k *mon.Case) {
		head := make([]byte, 54)
		tables := map[string][]byte{"head": head, "abcd": {1, 2, 3, 4}}
		var wg sync.WaitGroup
		for g := 0; g < 2; g++ {
			wg.Add(1)
			go func() {
				defer wg.Done()
				for i := 0; i < 200; i++ {
					header.Write(&bytes.Buffer{}, header.ScalerTypeTrueType, tables)
				}
			}()
		}
		wg.Wait()
		k.Eval()
		blocks := raceReports(logBase, offsets)
		found := false
		for _, blk := range blocks {
			if strings.Contains(blk, "header.Write") || strings.Contains(blk, "header.clearChecksum") || strings.Contains(blk, "header.patchChecksum") || strings.Contains(blk, "header.checksum") {
				found = true
			}
		}
		if found {
			k.Class("canary-race-reported")
		} else {
			k.Class("canary-race-NOT-reported")
		}
		k.Distinct("canary")
	})
	c.Require("font:cff-fractional-widths", "cold-start-process", "cold-start-process:same-first-call", "font:mark-filtering-set-without-gdef", "font:cid-fd-blocks", "font:read-back:cid", "font:read-back:glyf", "font:contextual-layout", "canary-race-reported", "goroutines=2", "goroutines=64", "GOMAXPROCS=2", "GOMAXPROCS=16",
		"overlap:Write+Write", "overlap:Write+Subset", "overlap:MakeGlyphNames+Layout", "overlap:Apply(GSUB)+ExplainGsub", "overlap:Subset+Layout")
}
