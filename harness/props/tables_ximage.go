package props

import (
	"bytes"
	"time"

	ximage "golang.org/x/image/font/sfnt"

	"seehuhn.de/go/postscript/funit"
	"seehuhn.de/go/sfnt/head"
	"seehuhn.de/go/sfnt/header"
	"seehuhn.de/go/sfnt/hmtx"
	"seehuhn.de/go/sfnt/maxp"
	"seehuhn.de/go/sfnt/os2"

	"verif/harness/internal/ref/cmapref"
)

// ximgFont builds a minimal TrueType font with n empty glyphs, good enough
// for golang.org/x/image/font/sfnt to parse, so that x/image can be asked for
// its opinion on a single table (cmap, name, post).  The scaffolding tables
// come from the library's encoders and are not themselves under test here;
// over replaces or adds tables.  A parse failure of x/image is reported to
// the caller, who counts it as "x/image unavailable", never as a
// disagreement.
func ximgFont(n int, over map[string][]byte) (*ximage.Font, []byte, error) {
	if n < 1 {
		n = 1
	}
	h := &head.Info{UnitsPerEm: 1000, Created: time.Unix(1e9, 0), Modified: time.Unix(1e9, 0), LowestRecPPEM: 8}
	hm := &hmtx.Info{Widths: make([]funit.Int16, n), LSB: make([]funit.Int16, n), Ascent: 800, Descent: -200}
	for i := range hm.Widths {
		hm.Widths[i] = 500
	}
	hhea, hmtxData := hm.Encode()
	mx := &maxp.Info{NumGlyphs: n, TTF: &maxp.TTFInfo{MaxZones: 2}}
	o := &os2.Info{WeightClass: 400, WidthClass: 5, IsRegular: true, Ascent: 800, Descent: -200, XHeight: 500, CapHeight: 700, Vendor: "VRIF"}
	sub, _ := cmapref.SimpleFormat4(0, map[uint16]uint16{'A': 1})
	post := make([]byte, 32)
	post[1] = 3 // version 3.0
	tables := map[string][]byte{
		"head": h.Encode(),
		"hhea": hhea,
		"hmtx": hmtxData,
		"maxp": mx.Encode(),
		"OS/2": o.Encode(),
		"loca": make([]byte, 2*(n+1)),
		"glyf": make([]byte, 4),
		"cmap": cmapref.EncodeTable([]cmapref.TableRecord{{PlatformID: 3, EncodingID: 1, Sub: 0}}, [][]byte{sub}, 0),
		"name": {0, 0, 0, 0, 0, 6},
		"post": post,
	}
	for tag, data := range over {
		tables[tag] = data
	}
	buf := &bytes.Buffer{}
	if _, err := header.Write(buf, 0x00010000, tables); err != nil {
		return nil, nil, err
	}
	f, err := ximage.Parse(buf.Bytes())
	return f, buf.Bytes(), err
}
