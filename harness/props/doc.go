// Package props holds workload and oracle of every property (one file set
// per property, registered from init functions).
package props
