package props

import (
	"bytes"
	"fmt"
	"math/rand/v2"
	"sort"
	"strings"

	ximage "golang.org/x/image/font/sfnt"

	"seehuhn.de/go/sfnt"
	"seehuhn.de/go/sfnt/cmap"
	"seehuhn.de/go/sfnt/glyph"

	"verif/harness/internal/mon"
	"verif/harness/internal/ref/cmapref"
	"verif/harness/internal/ref/tabread"
)

// C09: character maps encode and decode faithfully and the best subtable is
// selected.

func init() {
	mon.RegisterCfg("C09", mon.Config{
		Rule: "format 4 maps generated from run structures (constant-delta runs 1..12 and longer, gaps 0..12 and longer, random glyph ids, deltas wrapping modulo 65536, codes 0/0xFFFE/0xFFFF, sizes from empty to the 64 KiB limit) are encoded by the library and decoded by the library and by the spec-derived decoder cmapref; the three functions (source map, library decode, cmapref decode) are compared on all 65536 codes plus codes above the BMP, header fields are validated by cmapref and x/image GlyphIndex is a third reader; format 12 maps likewise on every mapped code, group boundaries +-1 and sampled codes up to 0x10FFFF; spec-side subtables (formats 0, 4, 6, 12 written by cmapref with features the library's encoder never emits) are decoded by the library and compared with cmapref and with the generator's intent; cmap tables with random key sets and shared subtables go through Encode/Decode (library) and through cmapref's header reader/writer; GetBest is checked on all 32 subsets of its five candidate keys with noise keys. distinct = distinct encoded subtables/tables (hash)",
		Assumptions: []string{
			"a Macintosh (1,0) subtable is queried by Unicode rune through Mac OS Roman (the library's convention for formats 4 and 6, also x/image's for format 0); Mac subtables are generated with codes 0..255 only",
			"maps whose format 4 encoding cannot be shown to fit into 65535 bytes (cmapref's plain encoder as upper bound) only have to be 'panic or faithful'",
			"explicit glyph 0 entries in a source map mean 'unmapped' (the property says 'glyph 0 for every unmapped' code, and glyph 0 is the missing glyph); a quarter of the fmt4 / fmt12 / install maps carry such entries next to mapped runs, behind entries for glyph 0xFFFF and at the ends of the code range: the emitted subtable must still give every code its glyph and 0 (not 0x10000) to the others",
			"a cmap.Table key with a language on a non-Macintosh platform, or a Macintosh key whose language differs from the language field of its subtable, cannot survive: the format keeps the language inside the subtable and requires 0 outside the Macintosh platform (cmap.Decode applies this). Stratum table-odd-languages records what becomes of such a key and judges only panics and the other keys of the table",
			"cmapref is written from the OpenType cmap chapter; where it, the generator's intent and x/image agree against the library the library is taken to be wrong",
		},
	}, runC09)
}

// ---- generators ----

type c09gen struct {
	r   *rand.Rand
	m   cmap.Format4
	cls map[string]bool
}

func (g *c09gen) gid() glyph.ID { return glyph.ID(1 + g.r.IntN(0xFFFF)) }

// run adds one run starting at code pos (0 <= pos <= 0xFFFF) and returns the
// first code behind it.
func (g *c09gen) run(pos, length int, style int, prevDelta *uint16) int {
	r := g.r
	if pos+length > 0x10000 {
		length = 0x10000 - pos
	}
	switch style {
	case 0: // constant delta
		d := uint16(r.Uint32())
		if r.IntN(4) == 0 { // make the run wrap through glyph 0xFFFF -> 0
			d = uint16(0x10000 - pos - r.IntN(length+1))
			g.cls["gen:delta-wraps"] = true
		}
		*prevDelta = d
		for i := 0; i < length; i++ {
			if v := uint16(pos+i) + d; v != 0 {
				g.m[uint16(pos+i)] = glyph.ID(v)
			}
		}
	case 1: // same delta as the previous run (across the gap)
		d := *prevDelta
		for i := 0; i < length; i++ {
			if v := uint16(pos+i) + d; v != 0 {
				g.m[uint16(pos+i)] = glyph.ID(v)
			}
		}
	case 2: // random glyph ids
		for i := 0; i < length; i++ {
			g.m[uint16(pos+i)] = g.gid()
		}
	case 3: // staircase: very short constant-delta pieces
		for i := 0; i < length; {
			d := uint16(r.Uint32())
			l := 1 + r.IntN(5)
			for j := 0; j < l && i < length; j++ {
				if v := uint16(pos+i) + d; v != 0 {
					g.m[uint16(pos+i)] = glyph.ID(v)
				}
				i++
			}
			*prevDelta = d
		}
	}
	return pos + length
}

// c09format4 generates a format 4 map; limit > 0 forces a map close to the
// 64 KiB limit (1: one dense block of random glyph ids, 2: isolated codes,
// 3: blocks of random glyph ids separated by short gaps).
func c09format4(r *rand.Rand, limit int) (cmap.Format4, map[string]bool) {
	g := &c09gen{r: r, m: cmap.Format4{}, cls: map[string]bool{}}
	size := 4 + r.IntN(18)
	switch {
	case limit == 3:
		size = 100
	case limit > 0:
		size = 1 + limit
	case size >= 20:
		size -= 20 // 0 or 1
	}
	var prevDelta uint16 = 1
	special := func() {
		for _, c := range []uint16{0, 0xFFFE, 0xFFFF} {
			switch r.IntN(4) {
			case 0:
				g.m[c] = g.gid()
			case 1:
				delete(g.m, c)
			}
		}
	}
	if limit == 0 && r.IntN(12) == 0 {
		// one block of consecutive codes whose first and last glyph ids are
		// as far apart as the codes, with the interior disturbed: two
		// neighbours exchanged, one entry replaced, or one code unmapped
		g.cls["gen:single-block-interior-disturbed"] = true
		l := 3 + r.IntN(40)
		start := r.IntN(0x10000 - l)
		g0 := 1 + r.IntN(0xFFFF-l)
		for i := 0; i < l; i++ {
			g.m[uint16(start+i)] = glyph.ID(g0 + i)
		}
		i := 1 + r.IntN(l-2)
		switch r.IntN(3) {
		case 0:
			if i+1 < l-1 {
				g.m[uint16(start+i)], g.m[uint16(start+i+1)] = g.m[uint16(start+i+1)], g.m[uint16(start+i)]
			} else {
				g.m[uint16(start+i)] = glyph.ID(1 + r.IntN(0xFFFF))
			}
		case 1:
			g.m[uint16(start+i)] = glyph.ID(1 + r.IntN(0xFFFF))
		default:
			delete(g.m, uint16(start+i))
		}
		return g.m, g.cls
	}
	switch {
	case size == 0:
		g.cls["gen:empty"] = true
		return g.m, g.cls
	case size == 1:
		g.cls["gen:single"] = true
		c := []int{0, 1, 0x41, 0xFFFE, 0xFFFF, r.IntN(0x10000)}[r.IntN(6)]
		g.m[uint16(c)] = g.gid()
		return g.m, g.cls
	case size == 2: // dense block of random glyph ids around the 64 KiB limit
		g.cls["gen:limit-dense"] = true
		l := 32690 + r.IntN(50) // fits: 16 + 3*8 + 2*32739 <= 65535
		start := r.IntN(0x10000 - l)
		g.run(start, l, 2, &prevDelta)
		if r.IntN(2) == 0 {
			g.run(r.IntN(1+start), 1+r.IntN(8), 0, &prevDelta)
		}
		return g.m, g.cls
	case limit == 3: // blocks of random glyph ids separated by short gaps, around the 64 KiB limit
		g.cls["gen:limit-blocks"] = true
		total := 31500 + r.IntN(1400)
		pos := r.IntN(200)
		for total > 0 && pos < 0x10000 {
			l := 100 + r.IntN(200)
			if l > total {
				l = total
			}
			pos = g.run(pos, l, 2, &prevDelta) + 5 + r.IntN(4)
			total -= l
		}
		return g.m, g.cls
	case size == 3: // isolated codes, around the 8189 segment limit
		g.cls["gen:limit-sparse"] = true
		n := 8100 + r.IntN(140)
		if r.IntN(3) == 0 {
			n = 4000 + r.IntN(4000)
		}
		pos := r.IntN(8)
		for i := 0; i < n && pos < 0x10000; i++ {
			g.m[uint16(pos)] = g.gid()
			pos += 7 + r.IntN(2)
		}
		return g.m, g.cls
	}
	var nruns int
	switch {
	case size < 10:
		nruns = 1 + r.IntN(20)
		g.cls["gen:small"] = true
	case size < 16:
		nruns = 20 + r.IntN(400)
		g.cls["gen:medium"] = true
	default:
		nruns = 400 + r.IntN(2600)
		g.cls["gen:large"] = true
	}
	pos := 0
	switch r.IntN(5) {
	case 0:
		pos = r.IntN(16)
	case 1:
		pos = r.IntN(0x10000)
	case 2:
		pos = 0x10000 - r.IntN(1+4*nruns) - 1
		if pos < 0 {
			pos = 0
		}
	}
	for i := 0; i < nruns && pos < 0x10000; i++ {
		gap := r.IntN(13)
		if i == 0 {
			gap = 0
		} else if r.IntN(12) == 0 {
			gap = 13 + r.IntN(3000)
		}
		length := 1 + r.IntN(12)
		if r.IntN(16) == 0 {
			length = 13 + r.IntN(300)
		}
		pos += gap
		if pos >= 0x10000 {
			break
		}
		style := []int{0, 0, 0, 1, 2, 2, 3}[r.IntN(7)]
		pos = g.run(pos, length, style, &prevDelta)
	}
	special()
	return g.m, g.cls
}

// c09zeros4 adds explicit glyph-0 entries ("unmapped", see Assumptions) at
// unmapped codes of a format 4 source map: next to mapped runs, behind a code
// that maps to glyph 0xFFFF, at the ends of the code range and at random codes.
// The meaning of the map is unchanged; the encoder must not let such entries
// disturb their neighbours.
func c09zeros4(r *rand.Rand, m cmap.Format4, cls map[string]bool) {
	keys := make([]int, 0, len(m))
	for c := range m {
		keys = append(keys, int(c))
	}
	sort.Ints(keys)
	put := func(c int, class string) {
		if c < 0 || c > 0xFFFF {
			return
		}
		if _, ok := m[uint16(c)]; ok {
			return
		}
		m[uint16(c)] = 0
		cls["gen:explicit-zero"] = true
		if class != "" {
			cls[class] = true
		}
	}
	mode := r.IntN(4)
	for _, c := range keys {
		if m[uint16(c)] == 0xFFFF && r.IntN(4) != 0 {
			put(c+1, "gen:explicit-zero-behind-glyph-ffff")
		}
		switch {
		case mode == 0 && r.IntN(3) == 0:
			put(c+1, "")
		case mode == 1 && r.IntN(3) == 0:
			put(c-1, "")
		case mode == 2 && r.IntN(6) == 0:
			put(c+1, "")
			put(c+2, "")
			put(c-1, "")
		}
	}
	for i := r.IntN(8); i > 0; i-- {
		put(r.IntN(0x10000), "")
	}
	if r.IntN(3) == 0 {
		put(0, "gen:explicit-zero-at-code-0")
	}
	if r.IntN(3) == 0 {
		put(0xFFFF, "gen:explicit-zero-at-code-ffff")
	}
	if len(keys) == 0 || r.IntN(8) == 0 { // a map that consists of explicit zeros only / isolated zeros
		put(0x41+r.IntN(0x1000), "")
	}
}

// c09zeros12 is c09zeros4 for format 12 source maps.
func c09zeros12(r *rand.Rand, m cmap.Format12, cls map[string]bool) {
	keys := make([]uint32, 0, len(m))
	for c := range m {
		keys = append(keys, c)
	}
	sort.Slice(keys, func(i, j int) bool { return keys[i] < keys[j] })
	put := func(c uint32, class string) {
		if c > 0x10FFFF {
			return
		}
		if _, ok := m[c]; ok {
			return
		}
		m[c] = 0
		cls["gen:explicit-zero"] = true
		if class != "" {
			cls[class] = true
		}
	}
	mode := r.IntN(4)
	for _, c := range keys {
		if m[c] == 0xFFFF && r.IntN(4) != 0 {
			put(c+1, "gen:explicit-zero-behind-glyph-ffff")
		}
		switch {
		case mode == 0 && r.IntN(3) == 0:
			put(c+1, "")
		case mode == 1 && r.IntN(3) == 0 && c > 0:
			put(c-1, "")
		case mode == 2 && r.IntN(6) == 0:
			put(c+1, "")
			put(c+2, "")
		}
	}
	for i := r.IntN(8); i > 0; i-- {
		put(uint32(r.IntN(0x110000)), "")
	}
	if r.IntN(4) == 0 {
		put(0, "gen:explicit-zero-at-code-0")
	}
	if r.IntN(4) == 0 {
		put(0x10FFFF, "gen:explicit-zero-at-code-10ffff")
	}
	if len(keys) == 0 || r.IntN(8) == 0 {
		put(uint32(0x41+r.IntN(0x1000)), "")
	}
}

func c09format12(r *rand.Rand) cmap.Format12 {
	m := cmap.Format12{}
	var budget int
	switch r.IntN(10) {
	case 0:
		return m
	case 1:
		budget = 1
	case 2:
		budget = 60000 + r.IntN(5537)
	case 3:
		budget = 65536
	default:
		budget = 1 + r.IntN(3000)
	}
	pos := uint32(0)
	switch r.IntN(4) {
	case 0:
		pos = uint32(r.IntN(0x110000))
	case 1:
		pos = 0xFF00 + uint32(r.IntN(0x200))
	case 2:
		pos = uint32(r.IntN(17))<<16 - uint32(r.IntN(40))
		if pos > 0x10FFFF {
			pos = 0
		}
	}
	smallRuns := r.IntN(2) == 0 // only short runs: many groups
	for len(m) < budget && pos <= 0x10FFFF {
		length := 1 + r.IntN(12)
		if !smallRuns {
			switch r.IntN(40) {
			case 0:
				length = 1 + r.IntN(5000)
			case 1, 2, 3:
				length = 1 + r.IntN(200)
			case 4, 5, 6:
				length = 1
			}
			if budget >= 60000 && r.IntN(3) == 0 {
				length = 1 + r.IntN(30000)
			}
		}
		if length > budget-len(m) {
			length = budget - len(m)
		}
		g := 1 + r.IntN(0xFFFF)
		if r.IntN(6) == 0 {
			g = 0x10000 - length // run ends at glyph 0xFFFF
			if g < 1 {
				g = 1
			}
		}
		for i := 0; i < length && pos <= 0x10FFFF; i++ {
			if g+i > 0xFFFF {
				break
			}
			m[pos] = glyph.ID(g + i)
			pos++
		}
		step := r.IntN(6)
		if step <= 2 && step > 0 && r.IntN(1+budget/40) != 0 {
			step = 3 // big maps: few big jumps, so that the code space lasts
		}
		switch step {
		case 0: // adjacent
		case 1:
			pos += uint32(r.IntN(0x20000))
		case 2: // jump to just below the next plane boundary
			if p := (pos>>16+1)<<16 - uint32(r.IntN(6)); p > pos {
				pos = p
			}
		default:
			pos += 1 + uint32(r.IntN(40))
		}
	}
	return m
}

// ---- helpers ----

var c09ximgEvery = 4

// c09ximage asks x/image for the glyph of every code in codes, using a font
// that carries sub under the given key.
func c09ximage(k *mon.Case, plat, enc uint16, sub []byte, codes []uint32, want func(uint32) uint32, witness string) {
	tab := cmapref.EncodeTable([]cmapref.TableRecord{{PlatformID: plat, EncodingID: enc, Sub: 0}}, [][]byte{sub}, 0)
	f, _, err := ximgFont(1, map[string][]byte{"cmap": tab})
	if err != nil {
		k.Skip("ximage:" + err.Error())
		return
	}
	var buf ximage.Buffer
	for _, c := range codes {
		g, err := f.GlyphIndex(&buf, rune(c))
		if err != nil {
			k.Skip("ximage-lookup:" + err.Error())
			return
		}
		if uint32(g) != want(c) {
			k.Fail("mismatch", witness, "x/image GlyphIndex(%#x) = %d, expected %d", c, g, want(c))
			return
		}
	}
	k.Evals(1)
	k.Class("ximage:agrees")
}

func c09get(k *mon.Case, key cmap.Key, data []byte) (cmap.Subtable, bool) {
	var sub cmap.Subtable
	var err error
	if k.Guard("cmap.Table.Get", func() { sub, err = cmap.Table{key: data}.Get(key) }) {
		return nil, false
	}
	if err != nil || sub == nil {
		k.Fail("mismatch", fmt.Sprintf("decode:format%d-rejected", uint16(data[0])<<8|uint16(data[1])), "Get(%v) rejects a well-formed subtable: %v", key, err)
		return nil, false
	}
	return sub, true
}

func allBMP() []uint32 {
	out := make([]uint32, 0x10000)
	for i := range out {
		out[i] = uint32(i)
	}
	return out
}

// ---- the property ----

func runC09(c *mon.Ctx) {
	encodeAliasing(c, "cmap", c.N(300, 20000), cmapAliasEncoders)
	c.Require("cmap:encode-aliasing-checked")
	// ------------------------------------------------------------------
	// format 4: library encoder
	c.Stratum("fmt4", c.N(2400, 120000), func(k *mon.Case) { c09fmt4(k, 0) })
	// maps close to the 64 KiB limit; the dense ones cost the library's
	// encoder about 10 s each, so there are few of them
	c.Stratum("fmt4-limit", c.N(32, 640), func(k *mon.Case) { c09fmt4(k, 2+k.Index%2) })
	c.Stratum("fmt4-dense", c.N(2, 48), func(k *mon.Case) { c09fmt4(k, 1) })
	c.Require("seg:delta", "seg:array", "seg:mixed", "gen:delta-wraps", "gen:empty", "gen:single",
		"gen:single-block-interior-disturbed", "gen:limit-dense", "gen:limit-sparse", "gen:limit-blocks", "fmt4:code-ffff-mapped", "fmt4:above-60000-bytes", "ximage:agrees",
		"gen:explicit-zero", "gen:explicit-zero-behind-glyph-ffff", "gen:explicit-zero-at-code-0", "gen:explicit-zero-at-code-ffff")

	// ------------------------------------------------------------------
	// format 12: library encoder
	c.Stratum("fmt12", c.N(1200, 60000), func(k *mon.Case) {
		r := k.Rng
		m := c09format12(r)
		lang := uint16(0)
		if r.IntN(3) == 0 {
			lang = uint16(r.Uint32())
		}
		zcls := map[string]bool{}
		if len(m) < 60000 && r.IntN(4) == 0 {
			c09zeros12(r, m, zcls)
		}
		nMapped := 0
		for c, g := range m {
			if g != 0 {
				nMapped++
			} else if c > 0 && m[c-1] == 0xFFFF {
				zcls["gen:explicit-zero-behind-glyph-ffff"] = true
			}
		}
		var data []byte
		if k.Guard("Format12.Encode", func() { data = m.Encode(lang) }) {
			return
		}
		k.Input(data)
		ref, err := cmapref.Decode(data)
		k.Eval()
		if err != nil || ref.Format != 12 {
			k.Fail("mismatch", "fmt12:ref-cannot-decode", "cmapref cannot decode the emitted subtable: %v", err)
			return
		}
		problems := ref.Problems
		if zcls["gen:explicit-zero-behind-glyph-ffff"] {
			// groups running past glyph 0xFFFF get the more specific witness below
			problems = nil
			for _, p := range ref.Problems {
				if !strings.Contains(p, "glyph ids exceed 0xFFFF") {
					problems = append(problems, p)
				}
			}
		}
		if len(problems) > 0 {
			k.Fail("mismatch", "fmt12:header", "emitted subtable violates the specification: %v", problems)
		}
		if ref.Language != uint32(lang) {
			k.Fail("mismatch", "fmt12:language", "language field %d, want %d", ref.Language, lang)
		}
		key := cmap.Key{PlatformID: 3, EncodingID: 10}
		if r.IntN(4) == 0 {
			key = cmap.Key{PlatformID: 0, EncodingID: 4}
		}
		sub, ok := c09get(k, key, data)
		if !ok {
			return
		}
		// codes to compare: every mapped code, every group boundary +-1, samples
		codes := make([]uint32, 0, len(m)+4*len(ref.Groups)+2100)
		for c := range m {
			codes = append(codes, c)
		}
		sort.Slice(codes, func(i, j int) bool { return codes[i] < codes[j] })
		for _, g := range ref.Groups {
			for _, c := range []uint32{g.StartChar - 1, g.StartChar, g.EndChar, g.EndChar + 1} {
				if c <= 0x10FFFF {
					codes = append(codes, c)
				}
			}
		}
		for i := 0; i < c.N(2000, 10000); i++ {
			codes = append(codes, uint32(r.IntN(0x110000)))
		}
		codes = append(codes, 0, 0xFFFF, 0x10000, 0x10FFFF)
		bad := 0
		planes := map[uint32]bool{}
		for _, c := range codes {
			if c > 0x10FFFF {
				continue
			}
			want := uint32(m[c])
			if want != 0 {
				planes[c>>16] = true
			}
			if g := ref.Lookup(c); g != want && bad < 3 {
				bad++
				if _, explicit := m[c]; explicit && want == 0 && g == 0x10000 && c > 0 && m[c-1] == 0xFFFF {
					// an explicit glyph-0 entry behind an entry for glyph 0xFFFF is merged into that entry's group
					k.Fail("mismatch", "fmt12:explicit-zero-behind-glyph-ffff-joins-the-group", "code %#x: explicit glyph 0 in the source map, code %#x maps to glyph 0xFFFF; the emitted subtable has one group for both, which assigns glyph id %d (0x10000, not a glyph id) to code %#x", c, c-1, g, c)
				} else {
					k.Fail("mismatch", "fmt12:encode-wrong", "code %#x: the emitted subtable maps to glyph %d (independent decoder), the map says %d", c, g, want)
				}
			}
			if g := uint32(sub.Lookup(rune(c))); g != want && bad < 3 {
				bad++
				k.Fail("mismatch", "fmt12:decode-wrong", "code %#x: library decodes glyph %d, the map says %d", c, g, want)
			}
		}
		k.Evals(2)
		total := 0
		ref.Each(func(_, g uint32) {
			if g <= 0xFFFF { // a glyph id of 0x10000 is reported by the comparison above
				total++
			}
		})
		if total != nMapped {
			k.Fail("mismatch", "fmt12:count", "emitted subtable maps %d codes, the map has %d", total, nMapped)
		}
		if f12, ok := sub.(cmap.Format12); ok {
			n := 0
			for _, g := range f12 {
				if g != 0 {
					n++
				}
			}
			if n != nMapped {
				k.Fail("mismatch", "fmt12:count-decoded", "library decodes %d mapped codes, the map has %d", n, nMapped)
			}
		}
		k.Eval()
		if !k.Failed() {
			for _, name := range []string{"gen:explicit-zero", "gen:explicit-zero-behind-glyph-ffff", "gen:explicit-zero-at-code-0", "gen:explicit-zero-at-code-10ffff"} {
				if zcls[name] {
					k.Class("fmt12:" + name)
				}
			}
		}
		if len(planes) > 1 {
			k.Class("fmt12:several-planes")
		}
		if planes[16] {
			k.Class("fmt12:plane-16")
		}
		if nMapped == 65536 {
			k.Class("fmt12:65536-entries")
		}
		if nMapped == 0 {
			k.Class("fmt12:empty")
		}
		k.Max("fmt12:groups", float64(len(ref.Groups)))
		k.DistinctBytes(data)
		if k.Index%c09ximgEvery == 0 && len(ref.Groups) <= 20000 {
			c09ximage(k, 3, 10, data, codes, func(c uint32) uint32 {
				if c > 0x10FFFF {
					return 0
				}
				return uint32(m[c])
			}, "fmt12:ximage-disagrees")
		}
		if k.Index < 2 {
			k.Sample(map[string]any{"entries": len(m), "groups": len(ref.Groups)})
		}
	})
	c.Require("fmt12:several-planes", "fmt12:plane-16", "fmt12:65536-entries", "fmt12:empty", "fmt12:gen:explicit-zero", "fmt12:gen:explicit-zero-at-code-0", "fmt12:gen:explicit-zero-at-code-10ffff")

	// ------------------------------------------------------------------
	// spec-side format 4
	c.Stratum("spec4", c.N(1400, 80000), func(k *mon.Case) { c09spec4(k) })
	c.Require("spec4:delta+offset", "spec4:shared-array", "spec4:overlapping-windows", "spec4:explicit-zero",
		"spec4:final-delta1", "spec4:final-array-zero", "spec4:final-in-range", "spec4:final-maps-ffff",
		"spec4:unused-array-entries", "spec4:delta-wraps", "spec4:mac")

	// spec-side formats 0 and 6
	c.Stratum("spec06", c.N(600, 40000), func(k *mon.Case) { c09spec06(k) })
	c.Require("spec06:format0-mac", "spec06:format0-unicode", "spec06:format6-mac", "spec06:format6-unicode")

	// spec-side format 12
	c.Stratum("spec12", c.N(500, 40000), func(k *mon.Case) { c09spec12(k) })
	c.Require("spec12:single-code-groups", "spec12:maximal-group", "spec12:gid-ends-ffff", "spec12:adjacent-groups", "spec12:start-glyph-0")

	// tables
	c.Stratum("table", c.N(1500, 60000), func(k *mon.Case) { c09table(k) })
	c.Require("table:shared", "table:mac-languages", "table:spec-side", "table:platform-4", "table:single", "table:empty")

	// keys whose language the binary format cannot carry (borderline, see Assumptions):
	// what happens is recorded; only panics and damage to the other keys are judged
	c.Stratum("table-odd-languages", c.N(400, 20000), func(k *mon.Case) { c09oddLanguages(k) })
	c.Require("table-odd:non-mac-language", "table-odd:mac-language-differs-from-subtable", "table-odd:regular-keys-intact")

	// InstallCMap: encoding ids follow the code range, both keys share the subtable
	c.Stratum("install", c.N(300, 20000), func(k *mon.Case) { c09install(k) })
	c.Require("install:full-unicode", "install:bmp", "install:format12-bmp-only", "install:explicit-zero-entries", "install:over-existing-map", "install:over-table-from-file")

	// GetBest
	c.Stratum("getbest", c.N(32*12, 32*600), func(k *mon.Case) { c09getbest(k) })
	for i := 0; i < 32; i++ {
		c.Require(fmt.Sprintf("getbest:subset-%02d", i))
	}
	c.Require("getbest:macintosh-chosen", "getbest:best-candidate-maps-one-code")
}

// c09fmt4 is one case of the library-encoder format 4 strata.
func c09fmt4(k *mon.Case, limit int) {
	r := k.Rng
	m, cls := c09format4(r, limit)
	lang := uint16(0)
	if r.IntN(3) == 0 {
		lang = uint16(r.Uint32())
	}
	if limit == 0 && r.IntN(4) == 0 {
		c09zeros4(r, m, cls)
	}
	src16 := make(map[uint16]uint16, len(m))
	for c, g := range m {
		if g != 0 { // explicit zeros mean "unmapped"
			src16[c] = uint16(g)
		}
	}
	_, fits := cmapref.SimpleFormat4(lang, src16)

	var data []byte
	pv, stack := mon.Try(func() { data = m.Encode(lang) })
	if pv != nil {
		if fits {
			k.Fail("panic", "panic:Format4.Encode:"+mon.PanicClass(pv), "Format4.Encode panics on a map that fits into a format 4 subtable (%d entries): %v\n%s", len(m), pv, stack)
		} else {
			k.Skip("oversize-panic")
		}
		return
	}
	if len(data) > 0xFFFF {
		if fits {
			k.Fail("mismatch", "fmt4:overflow-though-encodable", "encoding has %d bytes although a %d-entry map fits into 65535 bytes", len(data), len(m))
		} else {
			k.Skip("oversize-emitted")
		}
		return
	}
	k.Input(data)
	var clsNames []string
	for name := range cls {
		clsNames = append(clsNames, name)
	}
	sort.Strings(clsNames)
	for _, name := range clsNames {
		k.Class(name)
	}
	if !fits {
		k.Class("fmt4:fits-only-optimised")
	}

	// independent decode and header validation
	ref, err := cmapref.Decode(data)
	k.Eval()
	if err != nil {
		k.Fail("mismatch", "fmt4:ref-cannot-decode", "cmapref cannot decode the emitted subtable: %v", err)
		return
	}
	if ref.Format != 4 {
		k.Fail("mismatch", "fmt4:wrong-format", "format %d", ref.Format)
		return
	}
	if len(ref.Problems) > 0 {
		k.Fail("mismatch", "fmt4:header", "emitted subtable violates the specification: %v", ref.Problems)
	}
	if ref.Language != uint32(lang) {
		k.Fail("mismatch", "fmt4:language", "language field %d, want %d", ref.Language, lang)
	}
	nd, na := 0, 0
	for i := range ref.IDRangeOffs {
		if ref.IDRangeOffs[i] == 0 {
			nd++
		} else {
			na++
		}
	}
	if nd > 0 {
		k.Class("seg:delta")
	}
	if na > 0 {
		k.Class("seg:array")
	}
	if nd > 1 && na > 0 {
		k.Class("seg:mixed")
	}
	k.Max("fmt4:segments", float64(ref.SegCount))
	k.Max("fmt4:bytes", float64(len(data)))
	if len(data) > 60000 {
		k.Class("fmt4:above-60000-bytes")
	}
	if m[0xFFFF] != 0 {
		k.Class("fmt4:code-ffff-mapped")
	}
	if m[0] != 0 {
		k.Class("fmt4:code-0-mapped")
	}

	// library decode
	key := cmap.Key{PlatformID: 3, EncodingID: 1}
	if r.IntN(4) == 0 {
		key = cmap.Key{PlatformID: 0, EncodingID: 3}
	}
	sub, ok := c09get(k, key, data)
	if !ok {
		return
	}
	bad := 0
	for c := 0; c < 0x10000 && bad < 3; c++ {
		want := uint32(m[uint16(c)])
		if g := ref.Lookup(uint32(c)); g != want {
			bad++
			k.Fail("mismatch", "fmt4:encode-wrong", "code %#x: the emitted subtable maps to glyph %d (independent decoder), the map says %d", c, g, want)
		}
		if g := uint32(sub.Lookup(rune(c))); g != want {
			bad++
			k.Fail("mismatch", "fmt4:decode-wrong", "code %#x: library decodes glyph %d, the map says %d", c, g, want)
		}
	}
	k.Evals(2)
	k.ClassN("fmt4:codes-compared", 0x10000)
	// codes above the BMP are unmapped in a format 4 subtable
	for i := 0; i < 64; i++ {
		c := uint32(0x10000) + uint32(r.IntN(0x100000))
		if i < 32 { // aim at aliases of mapped codes
			c = uint32(ref.StartCode[r.IntN(ref.SegCount)]) + uint32(1+r.IntN(16))<<16
		}
		if g := sub.Lookup(rune(c)); g != 0 {
			k.Fail("mismatch", "fmt4:lookup-above-bmp", "decoded format 4 subtable returns glyph %d for U+%X, which no format 4 subtable can map", g, c)
			break
		}
	}
	k.Eval()
	k.DistinctBytes(data)
	if k.Index%c09ximgEvery == 0 {
		c09ximage(k, 3, 1, data, allBMP(), func(c uint32) uint32 { return uint32(m[uint16(c)]) }, "fmt4:ximage-disagrees")
	}
	if k.Index < 2 {
		k.Sample(map[string]any{"entries": len(m), "segments": ref.SegCount, "array_segments": na, "bytes": len(data)})
	}
}

// ---- spec-side format 4 ----

func c09spec4(k *mon.Case) {
	r := k.Rng
	mac := r.IntN(8) == 0
	limit := 0x10000
	if mac {
		limit = 256
	}
	f := &cmapref.Format4{}
	if r.IntN(3) == 0 {
		f.Language = uint16(r.Uint32())
	}
	intent := map[uint32]uint32{}
	feat := map[string]bool{}
	nseg := 1 + r.IntN(12)
	switch r.IntN(10) {
	case 0:
		nseg = 0
	case 1:
		nseg = 40 + r.IntN(400)
	case 2:
		nseg = 1
	}
	if mac {
		nseg = r.IntN(12)
		feat["spec4:mac"] = true
	}
	type window struct{ slot, n int }
	var windows []window
	pos := r.IntN(64)
	if r.IntN(3) == 0 && !mac {
		pos = r.IntN(0x10000)
	}
	apply := func(sg cmapref.Seg4) {
		for c := int(sg.Start); c <= int(sg.End); c++ {
			var g uint16
			if sg.Slot < 0 {
				g = uint16(c) + sg.Delta
			} else if e := f.Glyphs[sg.Slot+c-int(sg.Start)]; e != 0 {
				g = e + sg.Delta
			}
			if g != 0 {
				intent[uint32(c)] = uint32(g)
			}
		}
	}
	lastFree := limit - 1 // codes >= this are left to the final segment logic
	if !mac {
		lastFree = 0xFFFF
	}
	for i := 0; i < nseg; i++ {
		pos += r.IntN(20)
		if r.IntN(10) == 0 {
			pos += r.IntN(3000)
		}
		length := 1 + r.IntN(16)
		if r.IntN(12) == 0 {
			length = 1 + r.IntN(600)
		}
		if pos >= lastFree {
			break
		}
		if pos+length > lastFree {
			length = lastFree - pos
		}
		sg := cmapref.Seg4{Start: uint16(pos), End: uint16(pos + length - 1), Slot: -1}
		kind := r.IntN(8)
		if kind >= 5 && len(windows) == 0 {
			kind = 2
		}
		switch {
		case kind < 2: // delta only
			sg.Delta = uint16(r.Uint32())
			if r.IntN(3) == 0 {
				sg.Delta = uint16(0x10000 - pos - r.IntN(length+1))
				feat["spec4:delta-wraps"] = true
			}
		case kind < 5: // own array window
			if r.IntN(4) == 0 { // leave unused entries in the array
				for j := r.IntN(4) + 1; j > 0; j-- {
					f.Glyphs = append(f.Glyphs, uint16(r.Uint32()))
				}
				feat["spec4:unused-array-entries"] = true
			}
			sg.Slot = len(f.Glyphs)
			for j := 0; j < length; j++ {
				e := uint16(1 + r.IntN(0xFFFF))
				if r.IntN(5) == 0 {
					e = 0
					feat["spec4:explicit-zero"] = true
				}
				f.Glyphs = append(f.Glyphs, e)
			}
			windows = append(windows, window{sg.Slot, length})
			if r.IntN(2) == 0 {
				sg.Delta = uint16(1 + r.IntN(0xFFFF))
				feat["spec4:delta+offset"] = true
			}
		default: // re-use (part of) an earlier window
			w := windows[r.IntN(len(windows))]
			if length > w.n {
				length = w.n
				sg.End = uint16(pos + length - 1)
			}
			off := r.IntN(w.n - length + 1)
			sg.Slot = w.slot + off
			if off == 0 && length == w.n {
				feat["spec4:shared-array"] = true
			} else {
				feat["spec4:overlapping-windows"] = true
			}
			if r.IntN(2) == 0 {
				sg.Delta = uint16(1 + r.IntN(0xFFFF))
				feat["spec4:delta+offset"] = true
			}
		}
		f.Segs = append(f.Segs, sg)
		pos += length
	}
	// array windows may be appended after all segments were chosen, but the
	// slots used so far stay valid.  Final segment:
	final := r.IntN(4)
	if mac {
		final = 0
	}
	if n := len(f.Segs); final == 2 && (n == 0 || pos > 0xFFFF) {
		final = 0
	}
	switch final {
	case 0: // 0xFFFF..0xFFFF, idDelta 1
		f.Segs = append(f.Segs, cmapref.Seg4{Start: 0xFFFF, End: 0xFFFF, Delta: 1, Slot: -1})
		feat["spec4:final-delta1"] = true
	case 1: // 0xFFFF..0xFFFF through a zero array entry, any delta
		f.Glyphs = append(f.Glyphs, 0)
		f.Segs = append(f.Segs, cmapref.Seg4{Start: 0xFFFF, End: 0xFFFF, Delta: uint16(r.Uint32()), Slot: len(f.Glyphs) - 1})
		feat["spec4:final-array-zero"] = true
	case 2: // a real segment that reaches 0xFFFF
		start := 0xFFFF - r.IntN(20)
		if start < pos {
			start = pos
		}
		sg := cmapref.Seg4{Start: uint16(start), End: 0xFFFF, Slot: -1, Delta: uint16(r.Uint32())}
		if r.IntN(2) == 0 {
			if r.IntN(2) == 0 {
				sg.Delta = 0
			} else if sg.Delta != 0 {
				feat["spec4:delta+offset"] = true
			}
			sg.Slot = len(f.Glyphs)
			for j := start; j <= 0xFFFF; j++ {
				f.Glyphs = append(f.Glyphs, uint16(r.IntN(0x10000)))
			}
		}
		f.Segs = append(f.Segs, sg)
		feat["spec4:final-in-range"] = true
	case 3: // 0xFFFF mapped to a glyph
		f.Segs = append(f.Segs, cmapref.Seg4{Start: 0xFFFF, End: 0xFFFF, Delta: uint16(2 + r.IntN(0xFFFE)), Slot: -1})
		feat["spec4:final-maps-ffff"] = true
	}
	for _, sg := range f.Segs {
		apply(sg)
	}
	data, err := f.Encode()
	if err != nil {
		k.Skip("spec4:does-not-fit")
		return
	}
	k.Input(data)
	ref, err := cmapref.Decode(data)
	if err != nil || len(ref.Problems) > 0 {
		k.Fail("mismatch", "harness:spec4-generator", "generator produced a subtable cmapref objects to: %v %v", err, ref.Problems)
		return
	}
	for c := uint32(0); c < 0x10000; c++ {
		if g := ref.Lookup(c); g != intent[c] {
			k.Fail("mismatch", "harness:spec4-references-disagree", "code %#x: cmapref %d, generator intent %d", c, g, intent[c])
			return
		}
	}
	k.Eval()
	key := cmap.Key{PlatformID: 3, EncodingID: 1}
	switch {
	case mac:
		key = cmap.Key{PlatformID: 1, EncodingID: 0, Language: f.Language}
	case r.IntN(3) == 0:
		key = cmap.Key{PlatformID: 0, EncodingID: uint16(r.IntN(5))}
	}
	sub, ok := c09get(k, key, data)
	if !ok {
		return
	}
	want := func(c uint32) uint32 { return intent[c] }
	if mac {
		want = func(c uint32) uint32 {
			if b, ok := tabread.MacRomanByte(rune(c)); ok {
				return intent[uint32(b)]
			}
			return 0
		}
	}
	deltaOffset := feat["spec4:delta+offset"]
	for c := uint32(0); c < 0x10000; c++ {
		if g := uint32(sub.Lookup(rune(c))); g != want(c) {
			w := "spec4:decode-wrong"
			if deltaOffset {
				// is the difference explained by idDelta being ignored?
				w = "spec4:decode-wrong-with-delta+offset"
			}
			if mac {
				w += "-mac"
			}
			k.Fail("mismatch", w, "code %#x: library decodes glyph %d, the specification gives %d (segments %d, glyph array %d)", c, g, want(c), len(f.Segs), len(f.Glyphs))
			break
		}
	}
	k.Eval()
	for name := range feat {
		k.Class(name)
	}
	k.DistinctBytes(data)
	// x/image ignores idDelta for array segments, so it is only asked when
	// that combination is absent
	if !deltaOffset && !mac && k.Index%c09ximgEvery == 0 {
		c09ximage(k, 3, 1, data, allBMP(), want, "spec4:ximage-disagrees")
	}
	if k.Index < 2 {
		k.Sample(map[string]any{"segments": len(f.Segs), "glyph_array": len(f.Glyphs), "features": fmt.Sprint(feat)})
	}
}

// ---- spec-side formats 0 and 6 ----

func c09spec06(k *mon.Case) {
	r := k.Rng
	mac := r.IntN(2) == 0
	lang := uint16(0)
	if mac && r.IntN(2) == 0 {
		lang = uint16(r.IntN(151))
	}
	var data []byte
	intent := map[uint32]uint32{}
	var cls string
	if r.IntN(2) == 0 {
		var g [256]byte
		dens := r.IntN(4)
		for i := range g {
			if dens == 0 || r.IntN(dens+1) != 0 {
				g[i] = byte(r.IntN(256))
			}
			if g[i] != 0 {
				intent[uint32(i)] = uint32(g[i])
			}
		}
		data = cmapref.EncodeFormat0(lang, &g)
		cls = "format0"
	} else {
		max := 0x10000
		if mac {
			max = 256
		}
		first := r.IntN(max)
		if r.IntN(3) == 0 {
			first = r.IntN(1 + max/64)
		}
		n := r.IntN(max - first + 1)
		if n > 32762 { // 16-bit length field
			n = 32762
		}
		if r.IntN(2) == 0 && n > 40 {
			n = r.IntN(40)
		}
		gids := make([]uint16, n)
		for i := range gids {
			if r.IntN(6) != 0 {
				gids[i] = uint16(r.IntN(0x10000))
			}
			if gids[i] != 0 {
				intent[uint32(first+i)] = uint32(gids[i])
			}
		}
		data = cmapref.EncodeFormat6(lang, uint16(first), gids)
		cls = "format6"
	}
	k.Input(data)
	ref, err := cmapref.Decode(data)
	if err != nil || len(ref.Problems) > 0 {
		k.Fail("mismatch", "harness:spec06-generator", "%v %v", err, ref.Problems)
		return
	}
	key := cmap.Key{PlatformID: 3, EncodingID: 1}
	if mac {
		key = cmap.Key{PlatformID: 1, EncodingID: 0, Language: lang}
		cls += "-mac"
	} else {
		if r.IntN(2) == 0 {
			key = cmap.Key{PlatformID: 0, EncodingID: 3}
		}
		cls += "-unicode"
	}
	sub, ok := c09get(k, key, data)
	if !ok {
		return
	}
	want := func(c uint32) uint32 { return intent[c] }
	if mac {
		want = func(c uint32) uint32 {
			if b, ok := tabread.MacRomanByte(rune(c)); ok {
				return intent[uint32(b)]
			}
			return 0
		}
	}
	for c := uint32(0); c < 0x10000; c++ {
		if ref.Lookup(c) != intent[c] {
			k.Fail("mismatch", "harness:spec06-references-disagree", "code %#x", c)
			return
		}
		if g := uint32(sub.Lookup(rune(c))); g != want(c) {
			k.Fail("mismatch", "spec06:"+cls+"-decode-wrong", "rune U+%04X: library gives glyph %d, expected %d (key %v)", c, g, want(c), key)
			break
		}
	}
	for i := 0; i < 32; i++ {
		c := uint32(0x10000 + r.IntN(0x100000))
		if g := sub.Lookup(rune(c)); g != 0 {
			k.Fail("mismatch", "spec06:"+cls+"-lookup-above-bmp", "rune U+%X: library gives glyph %d", c, g)
			break
		}
	}
	k.Evals(2)
	k.Class("spec06:" + cls)
	k.DistinctBytes(data)
	// x/image: format 0 only under the Macintosh key (through Mac OS Roman),
	// format 6 without conversion, so only under the Unicode keys
	if k.Index%2 == 0 && (cls == "format0-mac" || cls == "format6-unicode") {
		codes := allBMP()
		if mac {
			c09ximage(k, 1, 0, data, codes, want, "spec06:ximage-disagrees")
		} else {
			c09ximage(k, 3, 1, data, codes, want, "spec06:ximage-disagrees")
		}
	}
}

// ---- spec-side format 12 ----

func c09spec12(k *mon.Case) {
	r := k.Rng
	var groups []cmapref.Group
	intent := map[uint32]uint32{}
	feat := map[string]bool{}
	budget := 65536
	mode := r.IntN(8)
	pos := uint32(r.IntN(0x300))
	if r.IntN(3) == 0 {
		pos = uint32(r.IntN(0x110000))
	}
	add := func(start, n, g uint32) {
		if n == 0 || start+n-1 > 0x10FFFF || g+n-1 > 0xFFFF || int(n) > budget {
			return
		}
		groups = append(groups, cmapref.Group{StartChar: start, EndChar: start + n - 1, StartGlyph: g})
		for i := uint32(0); i < n; i++ {
			if g+i != 0 {
				intent[start+i] = g + i
			}
		}
		budget -= int(n)
		pos = start + n
	}
	switch mode {
	case 0: // one maximal group
		start := uint32(r.IntN(0x110000 - 65536))
		if r.IntN(2) == 0 {
			start = uint32(r.IntN(17)) << 16 // a whole plane
			if r.IntN(2) == 0 {
				start -= uint32(r.IntN(int(start)/2 + 1))
			}
		}
		add(start, 65536, 0)
		feat["spec12:maximal-group"] = true
		feat["spec12:start-glyph-0"] = true
		feat["spec12:gid-ends-ffff"] = true
	case 1: // many single-code groups
		n := 1 + r.IntN(3000)
		if r.IntN(4) == 0 {
			n = 20000 + r.IntN(30000)
		}
		for i := 0; i < n && pos <= 0x10FFFF; i++ {
			add(pos, 1, uint32(1+r.IntN(0xFFFF)))
			if r.IntN(3) != 0 {
				pos += uint32(r.IntN(30))
			} else {
				feat["spec12:adjacent-groups"] = true
			}
		}
		feat["spec12:single-code-groups"] = true
	default:
		n := r.IntN(60)
		for i := 0; i < n && pos <= 0x10FFFF; i++ {
			l := uint32(1 + r.IntN(20))
			switch r.IntN(8) {
			case 0:
				l = 1
				feat["spec12:single-code-groups"] = true
			case 1:
				l = uint32(1 + r.IntN(8000))
			}
			g := uint32(r.IntN(0x10000))
			switch r.IntN(6) {
			case 0:
				if l <= 0x10000 {
					g = 0x10000 - l
					feat["spec12:gid-ends-ffff"] = true
				}
			case 1:
				g = 0
				feat["spec12:start-glyph-0"] = true
			}
			if g+l-1 > 0xFFFF {
				l = 0x10000 - g
			}
			before := len(groups)
			add(pos, l, g)
			if len(groups) == before {
				break
			}
			switch r.IntN(4) {
			case 0:
				feat["spec12:adjacent-groups"] = true
			case 1:
				if p := (pos>>16+1)<<16 - uint32(r.IntN(4)); p > pos {
					pos = p
				}
			default:
				pos += 1 + uint32(r.IntN(5000))
			}
		}
	}
	lang := uint32(0)
	if r.IntN(3) == 0 {
		lang = uint32(r.IntN(0x10000))
	}
	data := cmapref.EncodeFormat12(lang, groups)
	k.Input(data)
	ref, err := cmapref.Decode(data)
	if err != nil || len(ref.Problems) > 0 {
		k.Fail("mismatch", "harness:spec12-generator", "%v %v", err, ref.Problems)
		return
	}
	key := cmap.Key{PlatformID: 3, EncodingID: 10}
	if r.IntN(3) == 0 {
		key = cmap.Key{PlatformID: 0, EncodingID: 4}
	}
	sub, ok := c09get(k, key, data)
	if !ok {
		return
	}
	codes := make([]uint32, 0, len(intent)+4*len(groups)+2000)
	for c := range intent {
		codes = append(codes, c)
	}
	sort.Slice(codes, func(i, j int) bool { return codes[i] < codes[j] })
	for _, g := range groups {
		for _, c := range []uint32{g.StartChar - 1, g.StartChar, g.EndChar, g.EndChar + 1} {
			if c <= 0x10FFFF {
				codes = append(codes, c)
			}
		}
	}
	for i := 0; i < 2000; i++ {
		codes = append(codes, uint32(r.IntN(0x110000)))
	}
	for _, c := range codes {
		if c > 0x10FFFF {
			continue
		}
		if ref.Lookup(c) != intent[c] {
			k.Fail("mismatch", "harness:spec12-references-disagree", "code %#x", c)
			return
		}
		if g := uint32(sub.Lookup(rune(c))); g != intent[c] {
			k.Fail("mismatch", "spec12:decode-wrong", "code %#x: library gives glyph %d, the specification gives %d (%d groups)", c, g, intent[c], len(groups))
			break
		}
	}
	k.Evals(2)
	for name := range feat {
		k.Class(name)
	}
	k.DistinctBytes(data)
	if k.Index%c09ximgEvery == 0 && len(groups) <= 20000 {
		c09ximage(k, 3, 10, data, codes, func(c uint32) uint32 {
			if c > 0x10FFFF {
				return 0
			}
			return intent[c]
		}, "spec12:ximage-disagrees")
	}
}

// ---- tables ----

// c09subtable returns some subtable with the given language field.
func c09subtable(r *rand.Rand, lang uint16) []byte {
	switch r.IntN(7) {
	case 0:
		var g [256]byte
		for i := range g {
			g[i] = byte(r.IntN(256))
		}
		return cmapref.EncodeFormat0(lang, &g)
	case 1:
		gids := make([]uint16, r.IntN(30))
		for i := range gids {
			gids[i] = uint16(r.Uint32())
		}
		return cmapref.EncodeFormat6(lang, uint16(r.IntN(200)), gids)
	case 2:
		m := cmap.Format12{}
		for i := r.IntN(20); i > 0; i-- {
			m[uint32(r.IntN(0x110000))] = glyph.ID(1 + r.IntN(0xFFFF))
		}
		return m.Encode(lang)
	case 3: // opaque format 14 (length is a uint32 behind the format)
		n := 10 + r.IntN(40)
		b := make([]byte, n)
		for i := range b {
			b[i] = byte(r.Uint32())
		}
		b[0], b[1] = 0, 14
		b[2], b[3], b[4], b[5] = 0, 0, 0, byte(n)
		return b
	case 4: // opaque format 2 with a valid header
		n := 10 + 2*r.IntN(300)
		b := make([]byte, n)
		for i := range b {
			b[i] = byte(r.Uint32())
		}
		b[0], b[1] = 0, 2
		b[2], b[3] = byte(n>>8), byte(n)
		b[4], b[5] = byte(lang>>8), byte(lang)
		return b
	default:
		m := cmap.Format4{}
		for i := r.IntN(40); i > 0; i-- {
			m[uint16(r.Uint32())] = glyph.ID(1 + r.IntN(0xFFFF))
		}
		return m.Encode(lang)
	}
}

func c09table(k *mon.Case) {
	r := k.Rng
	nkeys := 1 + r.IntN(10)
	switch r.IntN(12) {
	case 0:
		nkeys = 0
	case 1:
		nkeys = 1
	case 2:
		nkeys = 10 + r.IntN(60)
	}
	// pool of subtables with language 0, shared between keys
	npool := 1 + r.IntN(4)
	pool := make([][]byte, npool)
	for i := range pool {
		pool[i] = c09subtable(r, 0)
	}
	t := cmap.Table{}
	macLangs := map[uint16]bool{}
	for len(t) < nkeys {
		key := cmap.Key{PlatformID: uint16(r.IntN(5))}
		switch r.IntN(3) {
		case 0:
			key.EncodingID = uint16(r.IntN(12))
		case 1:
			key.EncodingID = uint16(r.Uint32())
		default:
			key.EncodingID = []uint16{0, 1, 3, 4, 10}[r.IntN(5)]
		}
		if key.PlatformID == 1 {
			if r.IntN(2) == 0 {
				key.EncodingID = 0
			}
			if r.IntN(3) != 0 {
				key.Language = uint16(r.IntN(151))
				if r.IntN(4) == 0 {
					key.Language = uint16(r.Uint32())
				}
			}
		}
		if _, dup := t[key]; dup {
			continue
		}
		if key.Language != 0 {
			t[key] = c09subtable(r, key.Language)
			for len(t[key]) >= 2 && t[key][1] == 14 { // format 14 has no language field
				t[key] = c09subtable(r, key.Language)
			}
			macLangs[key.Language] = true
		} else {
			t[key] = pool[r.IntN(npool)]
			if key.PlatformID == 1 {
				macLangs[0] = true
			}
		}
	}
	distinct := map[string]bool{}
	for _, d := range t {
		distinct[string(d)] = true
	}

	var enc []byte
	if k.Guard("cmap.Table.Encode", func() { enc = t.Encode() }) {
		return
	}
	k.Input(enc)
	hdr := cmapref.DecodeTable(enc)
	k.Eval()
	if len(hdr.Problems) > 0 {
		k.Fail("mismatch", "table:header", "emitted cmap header violates the specification: %v", hdr.Problems)
	}
	if len(hdr.Records) != len(t) {
		k.Fail("mismatch", "table:record-count", "%d records for %d keys", len(hdr.Records), len(t))
	}
	offs := map[uint32]bool{}
	seen := map[cmap.Key]bool{}
	for _, rec := range hdr.Records {
		key := cmap.Key{PlatformID: rec.PlatformID, EncodingID: rec.EncodingID}
		if rec.PlatformID == 1 {
			key.Language = uint16(rec.Language)
		}
		want, ok := t[key]
		if !ok {
			k.Fail("mismatch", "table:spurious-record", "record %v not in the table", key)
			continue
		}
		if !bytes.Equal(rec.Data, want) {
			k.Fail("mismatch", "table:subtable-bytes", "independent reader sees different bytes for %v", key)
		}
		seen[key] = true
		offs[rec.Offset] = true
	}
	if len(seen) != len(t) {
		k.Fail("mismatch", "table:key-lost-in-bytes", "%d of %d keys present in the emitted header", len(seen), len(t))
	}
	if len(distinct) < len(t) {
		k.Class("table:shared")
		if len(offs) == len(distinct) {
			k.Class("table:shared-physically")
		} else {
			k.Class("table:shared-duplicated")
		}
	}
	var dec cmap.Table
	var err error
	if k.Guard("cmap.Decode", func() { dec, err = cmap.Decode(enc) }) {
		return
	}
	k.Eval()
	if err != nil {
		k.Fail("mismatch", "table:decode-rejects-own-output", "cmap.Decode(Encode(t)): %v", err)
		return
	}
	if len(dec) != len(t) {
		k.Fail("mismatch", "table:key-count", "%d keys decoded, %d encoded", len(dec), len(t))
	}
	for key, want := range t {
		got, ok := dec[key]
		if !ok {
			k.Fail("mismatch", "table:key-lost", "key %v lost", key)
		} else if !bytes.Equal(got, want) {
			k.Fail("mismatch", "table:subtable-changed", "subtable of key %v changed", key)
		}
	}
	if len(macLangs) > 1 {
		k.Class("table:mac-languages")
	}
	for key := range t {
		k.Class(fmt.Sprintf("table:platform-%d", key.PlatformID))
	}
	switch len(t) {
	case 0:
		k.Class("table:empty")
	case 1:
		k.Class("table:single")
	}
	k.Max("table:keys", float64(len(t)))
	k.DistinctBytes(enc)

	// spec side: the same content written by cmapref with its own layout
	// (subtables in random order, padding between them)
	var subs [][]byte
	idx := map[string]int{}
	for d := range distinct {
		subs = append(subs, []byte(d))
	}
	sort.Slice(subs, func(i, j int) bool { return bytes.Compare(subs[i], subs[j]) < 0 })
	r.Shuffle(len(subs), func(i, j int) { subs[i], subs[j] = subs[j], subs[i] })
	for i, s := range subs {
		idx[string(s)] = i
	}
	var recs []cmapref.TableRecord
	for key, d := range t {
		recs = append(recs, cmapref.TableRecord{PlatformID: key.PlatformID, EncodingID: key.EncodingID, Sub: idx[string(d)]})
	}
	cmapref.SortRecords(recs, subs)
	spec := cmapref.EncodeTable(recs, subs, []int{0, 0, 2, 4}[r.IntN(4)])
	if p := cmapref.DecodeTable(spec).Problems; len(p) > 0 {
		// two platform != 1 keys cannot differ in language, so this would be a generator fault
		k.Fail("mismatch", "harness:table-generator", "%v", p)
		return
	}
	k.Input(spec)
	if k.Guard("cmap.Decode", func() { dec, err = cmap.Decode(spec) }) {
		return
	}
	k.Eval()
	if err != nil {
		k.Fail("mismatch", "table:spec-side-rejected", "cmap.Decode rejects a well-formed table: %v", err)
		return
	}
	if len(dec) != len(t) {
		k.Fail("mismatch", "table:spec-side-key-count", "%d keys decoded, %d written", len(dec), len(t))
	}
	for key, want := range t {
		if got, ok := dec[key]; !ok || !bytes.Equal(got, want) {
			k.Fail("mismatch", "table:spec-side-key", "key %v: present=%v, bytes differ or missing", key, ok)
		}
	}
	k.Class("table:spec-side")
}

// c09oddLanguages: a regular table plus one key whose Language cannot survive:
// a language on a non-Macintosh platform (the format stores the language in
// the subtable, and it must be 0 there for every platform but Macintosh), or a
// Macintosh key whose Language differs from the language field of its subtable.
func c09oddLanguages(k *mon.Case) {
	r := k.Rng
	t := cmap.Table{}
	used := map[[2]uint16]bool{} // (platform, encoding) pairs taken
	nreg := r.IntN(5)
	var regular []cmap.Key
	for len(regular) < nreg {
		key := cmap.Key{PlatformID: uint16(r.IntN(5)), EncodingID: []uint16{0, 1, 3, 4, 10}[r.IntN(5)]}
		if used[[2]uint16{key.PlatformID, key.EncodingID}] {
			continue
		}
		used[[2]uint16{key.PlatformID, key.EncodingID}] = true
		if key.PlatformID == 1 && r.IntN(2) == 0 {
			key.Language = uint16(1 + r.IntN(150))
		}
		d := c09subtable(r, key.Language)
		for key.Language != 0 && d[1] == 14 {
			d = c09subtable(r, key.Language)
		}
		t[key] = d
		regular = append(regular, key)
	}
	var odd cmap.Key
	var kind string
	collides := false
	lang := uint16(1 + r.IntN(150))
	if r.IntN(8) == 0 {
		lang = uint16(1 + r.IntN(0xFFFF))
	}
	if r.IntN(3) != 0 {
		kind = "non-mac-language"
		odd = cmap.Key{PlatformID: []uint16{3, 0, 3, 2, 4}[r.IntN(5)], EncodingID: []uint16{1, 3, 10, 0, 4}[r.IntN(5)], Language: lang}
		field := lang // the subtable's own language field: the key's language, or the 0 the specification asks for
		if r.IntN(2) == 0 {
			field = 0
			kind += ",field=0"
		} else {
			kind += ",field=language"
		}
		d := c09subtable(r, field)
		for d[1] == 14 {
			d = c09subtable(r, field)
		}
		t[odd] = d
	} else {
		kind = "mac-language-differs-from-subtable"
		odd = cmap.Key{PlatformID: 1, EncodingID: 0, Language: lang}
		field := uint16(0)
		if r.IntN(2) == 0 {
			field = lang + 1
		}
		d := c09subtable(r, field)
		for d[1] == 14 {
			d = c09subtable(r, field)
		}
		t[odd] = d
	}
	collides = used[[2]uint16{odd.PlatformID, odd.EncodingID}]
	desc := fmt.Sprintf("odd key %v (%s), %d regular keys, (platform, encoding) shared with a regular key: %v", odd, kind, nreg, collides)
	k.Step(desc)
	var enc []byte
	if k.Guard("cmap.Table.Encode", func() { enc = t.Encode() }) {
		return
	}
	k.Input(enc)
	k.DistinctBytes(enc)
	hdr := cmapref.DecodeTable(enc)
	if len(hdr.Records) != len(t) {
		k.Class("table-odd:record-count-differs")
	}
	var dec cmap.Table
	var err error
	if k.Guard("cmap.Decode", func() { dec, err = cmap.Decode(enc) }) {
		return
	}
	k.Eval()
	base := "table-odd:" + strings.SplitN(kind, ",", 2)[0]
	k.Class(base)
	if err != nil {
		k.Class(base + ":decode-refuses")
		return
	}
	// what became of the odd key
	if got, ok := dec[odd]; ok && bytes.Equal(got, t[odd]) {
		k.Class(base + ":key-preserved")
	} else if got, ok := dec[cmap.Key{PlatformID: odd.PlatformID, EncodingID: odd.EncodingID}]; ok && bytes.Equal(got, t[odd]) {
		k.Class(base + ":comes-back-with-language-0")
	} else {
		found := false
		for key, got := range dec {
			if key.PlatformID == odd.PlatformID && key.EncodingID == odd.EncodingID && bytes.Equal(got, t[odd]) {
				found = true
			}
		}
		if found {
			k.Class(base + ":comes-back-with-the-subtable's-language")
		} else {
			k.Class(base + ":lost")
		}
	}
	// the regular keys must be unharmed unless the odd key shares their (platform, encoding) pair
	if collides {
		k.Class("table-odd:collision-not-judged")
		return
	}
	for _, key := range regular {
		got, ok := dec[key]
		if !ok {
			k.Fail("mismatch", "table-odd:regular-key-lost", "key %v lost from a table that also holds the %s", key, desc)
			return
		}
		if !bytes.Equal(got, t[key]) {
			k.Fail("mismatch", "table-odd:regular-subtable-changed", "subtable of key %v changed in a table that also holds the %s", key, desc)
			return
		}
	}
	k.Class("table-odd:regular-keys-intact")
	if k.Index < 2 {
		k.Sample(desc)
	}
}

// ---- InstallCMap ----

func c09install(k *mon.Case) {
	r := k.Rng
	var sub cmap.Subtable
	want := map[uint32]uint32{}
	astral := false
	if r.IntN(3) == 0 {
		m, _ := c09format4(r, 0)
		if len(m) > 3000 {
			m = cmap.Format4{0x41: 1, 0x42: 2, 0xFFFF: 9}
		}
		if r.IntN(4) == 0 {
			zc := map[string]bool{}
			c09zeros4(r, m, zc)
			if zc["gen:explicit-zero"] {
				k.Class("install:explicit-zero-entries")
			}
		}
		for c, g := range m {
			want[uint32(c)] = uint32(g)
		}
		sub = m
	} else {
		m := c09format12(r)
		if len(m) > 3000 || r.IntN(3) == 0 {
			m = cmap.Format12{}
			for i := 1 + r.IntN(50); i > 0; i-- {
				m[uint32(r.IntN(0x10000))] = glyph.ID(1 + r.IntN(0xFFFF))
			}
			switch r.IntN(3) {
			case 0:
				m[0x10000] = 77
			case 1:
				m[0xFFFF] = 78
			}
		}
		if r.IntN(4) == 0 {
			zc := map[string]bool{}
			c09zeros12(r, m, zc)
			if zc["gen:explicit-zero"] {
				k.Class("install:explicit-zero-entries")
			}
		}
		for c, g := range m {
			want[c] = uint32(g)
			astral = astral || (c > 0xFFFF && g != 0) // explicit zeros mean "unmapped"
		}
		sub = m
		if !astral {
			k.Class("install:format12-bmp-only")
		}
	}
	f := &sfnt.Font{}
	// half of the fonts already have a character map: installed earlier, or
	// as a file would bring it (any subset of the usual keys, each with a
	// mapping that is stale from now on)
	prior := ""
	switch r.IntN(4) {
	case 0:
		old := cmap.Format12{0x41: 60001, 0x1F600: 60002, 0x10FFFF: 60003}
		for c := range want {
			if r.IntN(2) == 0 {
				old[c] = 60004
			}
		}
		if k.Guard("Font.InstallCMap", func() { f.InstallCMap(old) }) {
			return
		}
		prior = "installed-full-unicode"
	case 1:
		f.CMapTable = cmap.Table{}
		for i, key := range c09candidates {
			if r.IntN(2) == 0 {
				continue
			}
			var data []byte
			if key.EncodingID == 10 || key.EncodingID == 4 {
				data = cmap.Format12{0x41: glyph.ID(61000 + i), 0x20000: 61009}.Encode(0)
			} else {
				data = cmap.Format4{0x41: glyph.ID(61000 + i), 0xE9: 61008}.Encode(0)
			}
			f.CMapTable[key] = data
			prior += fmt.Sprintf("(%d,%d)", key.PlatformID, key.EncodingID)
		}
		if prior == "" {
			f.CMapTable = nil
		} else {
			prior = "table:" + prior
		}
	}
	if k.Guard("Font.InstallCMap", func() { f.InstallCMap(sub) }) {
		return
	}
	if prior != "" {
		// the new map is the font's character map now
		var best cmap.Subtable
		var err error
		if k.Guard("cmap.Table.GetBest", func() { best, err = f.CMapTable.GetBest() }) {
			return
		}
		k.Eval()
		if err != nil {
			k.Fail("mismatch", "install:getbest-fails", "GetBest after InstallCMap on a font that had a character map (%s): %v", prior, err)
			return
		}
		probes := []uint32{0x41, 0xE9, 0x1F600, 0x20000, 0x10FFFF}
		for c := range want {
			probes = append(probes, c)
			if len(probes) > 300 {
				break
			}
		}
		sort.Slice(probes, func(i, j int) bool { return probes[i] < probes[j] })
		for _, c := range probes {
			if g := uint32(best.Lookup(rune(c))); g != want[c] {
				k.Fail("mismatch", "install:stale-map-after-install", "the font had a character map (%s); after InstallCMap, GetBest maps U+%04X to glyph %d, the installed map says %d", prior, c, g, want[c])
				return
			}
		}
		k.Class("install:over-existing-map")
		if prior[0] == 't' {
			k.Class("install:over-table-from-file")
		}
		return
	}
	t := f.CMapTable
	full := t[cmap.Key{PlatformID: 3, EncodingID: 10}] != nil || t[cmap.Key{PlatformID: 0, EncodingID: 4}] != nil
	k.Eval()
	if astral && !full {
		k.Fail("mismatch", "install:no-full-unicode-key", "map with codes above 0xFFFF installed under %d keys, none of them (3,10) or (0,4)", len(t))
	}
	if len(t) == 0 {
		k.Fail("mismatch", "install:empty-table", "no subtable installed")
		return
	}
	if astral {
		k.Class("install:full-unicode")
	} else if !full {
		k.Class("install:bmp")
	} else {
		k.Class("install:bmp-under-full-unicode-keys")
	}
	var first []byte
	for _, d := range t {
		if first == nil {
			first = d
		} else if !bytes.Equal(first, d) {
			k.Fail("mismatch", "install:keys-differ", "the installed keys hold different subtables")
		}
	}
	tt := t
	if r.IntN(2) == 0 {
		var err error
		if k.Guard("cmap.Encode/Decode", func() { tt, err = cmap.Decode(t.Encode()) }) {
			return
		}
		if err != nil || len(tt) != len(t) {
			k.Fail("mismatch", "table:decode-rejects-own-output", "%v (%d of %d keys)", err, len(tt), len(t))
			return
		}
	}
	var best cmap.Subtable
	var err error
	if k.Guard("cmap.Table.GetBest", func() { best, err = tt.GetBest() }) {
		return
	}
	k.Eval()
	if err != nil {
		k.Fail("mismatch", "install:getbest-fails", "GetBest after InstallCMap: %v", err)
		return
	}
	codes := make([]uint32, 0, len(want)+600)
	for c := range want {
		codes = append(codes, c)
	}
	sort.Slice(codes, func(i, j int) bool { return codes[i] < codes[j] })
	for i := 0; i < 500; i++ {
		codes = append(codes, uint32(r.IntN(0x110000)))
	}
	for _, c := range codes {
		if g := uint32(best.Lookup(rune(c))); g != want[c] {
			k.Fail("mismatch", "install:lookup", "U+%04X: glyph %d after InstallCMap/GetBest, the installed map says %d", c, g, want[c])
			break
		}
	}
	k.Eval()
	k.DistinctBytes(first)
}

// ---- GetBest ----

var c09candidates = []cmap.Key{{PlatformID: 3, EncodingID: 10}, {PlatformID: 0, EncodingID: 4}, {PlatformID: 3, EncodingID: 1}, {PlatformID: 0, EncodingID: 3}, {PlatformID: 1, EncodingID: 0}}

func c09getbest(k *mon.Case) {
	r := k.Rng
	subset := k.Index % 32
	t := cmap.Table{}
	const probe = 'A'
	// the subtable under candidate i maps 'A' to glyph 100+i and U+00E9 to
	// glyph 50+i (a Macintosh subtable holds it at its Mac Roman code 0x8E);
	// noise keys use 200+
	const probe2, probe2mac = 0xE9, 0x8E
	// a third of the candidate subtables map the probe and nothing else (an
	// icon font with one glyph): a small subtable is as good as a large one
	single := map[cmap.Key]bool{}
	mk := func(marker int, key cmap.Key) []byte {
		m2 := marker - 50
		if marker < 200 && r.IntN(3) == 0 {
			single[key] = true
			switch {
			case key.PlatformID == 1 && r.IntN(2) == 0:
				var g [256]byte
				g[probe] = byte(marker)
				return cmapref.EncodeFormat0(key.Language, &g)
			case key.PlatformID == 1:
				return cmapref.EncodeFormat6(key.Language, probe, []uint16{uint16(marker)})
			case (key.EncodingID == 10 || key.EncodingID == 4) && r.IntN(2) == 0:
				return cmap.Format12{probe: glyph.ID(marker)}.Encode(0)
			default:
				return cmap.Format4{probe: glyph.ID(marker)}.Encode(key.Language)
			}
		}
		switch {
		case key.PlatformID == 1 && r.IntN(2) == 0:
			var g [256]byte
			g[probe] = byte(marker)
			g[probe2mac] = byte(m2)
			return cmapref.EncodeFormat0(key.Language, &g)
		case key.PlatformID == 1 && r.IntN(2) == 0:
			gl := make([]uint16, probe2mac-probe+1)
			gl[0], gl[probe2mac-probe] = uint16(marker), uint16(m2)
			return cmapref.EncodeFormat6(key.Language, probe, gl)
		case key.PlatformID == 1:
			return cmap.Format4{probe: glyph.ID(marker), probe2mac: glyph.ID(m2)}.Encode(key.Language)
		case (key.EncodingID == 10 || key.EncodingID == 4) && r.IntN(4) != 0:
			return cmap.Format12{probe: glyph.ID(marker), probe2: glyph.ID(m2), 0x1F600: 7}.Encode(0)
		default:
			return cmap.Format4{probe: glyph.ID(marker), probe2: glyph.ID(m2), 0x3A9: 7}.Encode(key.Language)
		}
	}
	want := -1
	for i, key := range c09candidates {
		if subset&(1<<i) != 0 {
			t[key] = mk(100+i, key)
			if want < 0 {
				want = i
			}
		}
	}
	var noise []cmap.Key
	for _, t := range [][3]uint16{{0, 0, 0}, {0, 1, 0}, {0, 2, 0}, {0, 5, 0}, {0, 6, 0}, {0, 10, 0}, {3, 0, 0}, {3, 2, 0}, {3, 3, 0}, {3, 4, 0}, {3, 5, 0}, {3, 6, 0}, {1, 1, 0}, {1, 2, 0}, {1, 0, 1}, {1, 0, 7}, {1, 0, 0xFFFF}, {2, 0, 0}, {2, 1, 0}, {2, 10, 0}, {4, 0, 0}, {4, 1, 0}, {4, 10, 0}, {3, 11, 0}, {0, 7, 0}} {
		noise = append(noise, cmap.Key{PlatformID: t[0], EncodingID: t[1], Language: t[2]})
	}
	nn := r.IntN(6)
	if (k.Index/32)%3 == 0 {
		nn = 0
	}
	for i := 0; i < nn; i++ {
		key := noise[r.IntN(len(noise))]
		t[key] = mk(200+i, key)
	}
	useDecoded := r.IntN(2) == 0
	tt := t
	if useDecoded {
		var err error
		if k.Guard("cmap.Encode/Decode", func() { tt, err = cmap.Decode(t.Encode()) }) {
			return
		}
		if err != nil {
			k.Fail("mismatch", "table:decode-rejects-own-output", "%v", err)
			return
		}
	}
	var sub cmap.Subtable
	var err error
	if k.Guard("cmap.Table.GetBest", func() { sub, err = tt.GetBest() }) {
		return
	}
	k.Eval()
	k.Class(fmt.Sprintf("getbest:subset-%02d", subset))
	if want < 0 {
		// nothing the property speaks about; recorded only
		if err == nil {
			k.Class("getbest:no-candidate-but-result")
		} else {
			k.Class("getbest:no-candidate-error")
		}
		return
	}
	if err != nil || sub == nil {
		k.Fail("mismatch", "getbest:error", "subset %05b: GetBest fails although candidate %v is present: %v", subset, c09candidates[want], err)
		return
	}
	got := int(sub.Lookup(probe))
	if got != 100+want {
		chosen := "a noise key"
		if got >= 100 && got < 105 {
			chosen = fmt.Sprint(c09candidates[got-100])
		}
		k.Fail("mismatch", "getbest:preference", "subset %05b (+%d noise keys): GetBest chose %s (glyph %d), expected %v", subset, nn, chosen, got, c09candidates[want])
	}
	// the chosen subtable answers in Unicode, whatever its own code space is
	if single[c09candidates[want]] {
		k.Class("getbest:best-candidate-maps-one-code")
	} else if got2 := int(sub.Lookup(probe2)); got == 100+want && got2 != 50+want {
		k.Fail("mismatch", "getbest:code-space", "subset %05b: the subtable chosen by GetBest (%v) maps U+00E9 to glyph %d, expected %d (Macintosh subtables hold it at code 0x8E)", subset, c09candidates[want], got2, 50+want)
	}
	if want == 4 {
		k.Class("getbest:macintosh-chosen")
	}
	if nn > 0 {
		k.Class("getbest:with-noise")
	}
	keys := make([]string, 0, len(t))
	for key := range t {
		keys = append(keys, fmt.Sprint(key))
	}
	sort.Strings(keys)
	k.Distinct(keys, useDecoded)
}
