package props

import (
	"bytes"
	"os"
	"path/filepath"
	"sort"

	"seehuhn.de/go/sfnt"
	"seehuhn.de/go/sfnt/cmap"
	"seehuhn.de/go/sfnt/glyph"
	"seehuhn.de/go/sfnt/header"

	"verif/harness/internal/mon"
	"verif/harness/internal/ref/sfntwalk"
)

type corpusFile struct {
	name string
	data []byte
}

var corpusCache []corpusFile

// corpusFiles returns the real fonts under <verif>/corpus, sorted by name.
func corpusFiles(c *mon.Ctx) []corpusFile {
	if corpusCache != nil {
		return corpusCache
	}
	dir := filepath.Join(mon.VerifDir(), "corpus")
	ents, _ := os.ReadDir(dir)
	for _, e := range ents {
		if e.IsDir() {
			continue
		}
		ext := filepath.Ext(e.Name())
		if ext != ".ttf" && ext != ".otf" {
			continue
		}
		b, err := os.ReadFile(filepath.Join(dir, e.Name()))
		if err == nil {
			corpusCache = append(corpusCache, corpusFile{e.Name(), b})
		}
	}
	sort.Slice(corpusCache, func(i, j int) bool { return corpusCache[i].name < corpusCache[j].name })
	return corpusCache
}

// mutateFontFile makes a table-level mutant of a font file that has a
// fair chance of still being accepted by the reader: a table dropped, metric
// bytes changed, a table's bytes perturbed, tables re-assembled.
func mutateFontFile(k *mon.Case, b []byte) []byte {
	r := k.Rng
	f, _ := sfntwalk.Walk(b)
	if f == nil || len(f.Tables) == 0 {
		return b
	}
	tables := map[string][]byte{}
	for _, t := range f.Tables {
		if t.Data != nil || t.Length == 0 {
			tables[t.Tag] = append([]byte{}, t.Data...)
		}
	}
	optional := []string{"GSUB", "GPOS", "GDEF", "kern", "post", "name", "OS/2", "cmap", "hmtx", "hhea", "cvt ", "fpgm", "prep", "gasp", "head", "maxp"}
	for n := 1 + r.IntN(2); n > 0; n-- {
		switch r.IntN(5) {
		case 0:
			t := optional[r.IntN(len(optional))]
			if _, ok := tables[t]; ok {
				delete(tables, t)
				k.Class("mutant:drop-" + t)
			}
		case 1:
			if d := tables["hmtx"]; len(d) > 4 {
				i := r.IntN(len(d))
				d[i] = byte(r.Uint32())
				k.Class("mutant:hmtx-byte")
			}
		case 2:
			for _, t := range []string{"OS/2", "hhea", "post", "head", "maxp", "name", "cmap", "GSUB", "GPOS", "GDEF", "kern", "glyf", "loca", "CFF "}[r.IntN(14):] {
				if d := tables[t]; len(d) > 0 {
					i := r.IntN(len(d))
					d[i] ^= 1 << r.IntN(8)
					k.Class("mutant:flip-" + t)
					break
				}
			}
		case 3:
			// unknown extra table
			tables["zzzz"] = []byte{1, 2, 3}
			k.Class("mutant:extra-table")
		case 4:
			// reassemble only (table order / padding as the writer chooses)
			k.Class("mutant:reassemble")
		}
	}
	buf := &bytes.Buffer{}
	if _, err := header.Write(buf, f.Scaler, tables); err != nil {
		return b
	}
	return buf.Bytes()
}

// addTable returns the font file b with one more (or replaced) table.
func addTable(b []byte, tag string, data []byte) []byte {
	f, _ := sfntwalk.Walk(b)
	if f == nil {
		return b
	}
	tables := map[string][]byte{}
	for _, t := range f.Tables {
		tables[t.Tag] = append([]byte{}, t.Data...)
	}
	tables[tag] = data
	buf := &bytes.Buffer{}
	if _, err := header.Write(buf, f.Scaler, tables); err != nil {
		return b
	}
	return buf.Bytes()
}

// withScaler rewrites the container with another scaler type.
func withScaler(b []byte, scaler uint32) []byte {
	f, _ := sfntwalk.Walk(b)
	if f == nil {
		return b
	}
	tables := map[string][]byte{}
	for _, t := range f.Tables {
		tables[t.Tag] = append([]byte{}, t.Data...)
	}
	buf := &bytes.Buffer{}
	if _, err := header.Write(buf, scaler, tables); err != nil {
		return b
	}
	return buf.Bytes()
}

func glyphID(i int) glyph.ID { return glyph.ID(i) }

func cmapFormat4(m map[uint16]glyph.ID) cmap.Format4 { return cmap.Format4(m) }

// aliasGuard remembers byte slices returned by the library and verifies
// later - after further library calls - that they still hold the same
// bytes, i.e. that results are not aliased to reusable internal buffers.
type aliasGuard struct {
	items []aliasItem
}

type aliasItem struct {
	what       string
	live, copy []byte
}

func (g *aliasGuard) Keep(what string, b []byte) {
	g.items = append(g.items, aliasItem{what, b, append([]byte{}, b...)})
}

func (g *aliasGuard) Check(k *mon.Case, witness string) bool {
	for _, it := range g.items {
		if !bytes.Equal(it.live, it.copy) {
			k.Fail("mismatch", witness, "the %d bytes returned by %s were modified by a later library call (first difference at byte %d)", len(it.copy), it.what, firstDiff(it.live, it.copy))
			return false
		}
	}
	return true
}

// readBack writes a constructed font and reads it again, so that a check
// works on the structures the reader builds (closures, slices with spare
// capacity, synthesised tables) rather than on the generator's.  Failures are
// not judged here (that is C01's business): the font is returned unchanged.
func readBack(k *mon.Case, f *sfnt.Font) *sfnt.Font {
	var g *sfnt.Font
	pv, _ := mon.Try(func() {
		buf := &bytes.Buffer{}
		if _, err := f.Write(buf); err != nil {
			return
		}
		if h, err := sfnt.Read(bytes.NewReader(buf.Bytes())); err == nil {
			g = h
		}
	})
	if pv != nil || g == nil {
		k.Class("font:read-back-failed")
		return f
	}
	k.Class("font:read-back")
	return g
}
