package props

import (
	"fmt"
	"math/rand/v2"

	"verif/harness/internal/ref/t2interp"
)

// Grammar-based generator of well-formed Type 2 charstrings (TN5177) with a
// symbolic operand stack.  The generator knows what every program means
// ("intent"): path in absolute coordinates, stems, masks and width.

type fix = t2interp.Fix

const fixOne = t2interp.One

type c05tok struct {
	b     []byte
	isNum bool
	depth int // operand stack depth before the token executes
	name  string
}

type c05gen struct {
	r     *rand.Rand
	toks  []c05tok
	depth int

	// intent
	x, y     fix
	ops      []t2interp.PathOp
	hstem    []fix
	vstem    []fix
	hOps     int
	vOps     int
	hasWidth bool
	widthArg fix

	// features
	allowArith bool
	allowFrac  bool
	usedArith  bool
	usedFrac   bool
	usedFlex   bool // flex or flex1 (not supported by x/image)
	flex1Tie   bool // a flex1 with |dx| == |dy| was generated
	// deprecated forms of TN5177 appendix C
	usedDeprecated bool
	seac           *[4]fix // operands of an endchar in the seac form
	onlyFrag       int     // 0 = any arithmetic fragment, k+1 = only fragment k of val
	stored         [32]bool
	opHist         map[string]int
	moved          bool
}

var t2opcode = map[string][]byte{
	"hstem": {1}, "vstem": {3}, "vmoveto": {4}, "rlineto": {5}, "hlineto": {6}, "vlineto": {7}, "rrcurveto": {8},
	"callsubr": {10}, "return": {11}, "endchar": {14}, "hstemhm": {18}, "hintmask": {19}, "cntrmask": {20}, "rmoveto": {21},
	"hmoveto": {22}, "vstemhm": {23}, "rcurveline": {24}, "rlinecurve": {25}, "vvcurveto": {26}, "hhcurveto": {27},
	"callgsubr": {29}, "vhcurveto": {30}, "hvcurveto": {31},
	"and": {12, 3}, "or": {12, 4}, "not": {12, 5}, "abs": {12, 9}, "add": {12, 10}, "sub": {12, 11}, "div": {12, 12},
	"neg": {12, 14}, "eq": {12, 15}, "drop": {12, 18}, "put": {12, 20}, "get": {12, 21}, "ifelse": {12, 22},
	"random": {12, 23}, "mul": {12, 24}, "sqrt": {12, 26}, "dup": {12, 27}, "exch": {12, 28}, "index": {12, 29},
	"roll": {12, 30}, "hflex": {12, 34}, "flex": {12, 35}, "hflex1": {12, 36}, "flex1": {12, 37},
	"dotsection": {12, 0}, // deprecated (TN5177 appendix C): a no-op
}

// t2num encodes a number.  form: 0 = random legal form.
func t2num(r *rand.Rand, v fix) []byte {
	fixed := []byte{255, byte(v >> 24), byte(v >> 16), byte(v >> 8), byte(v)}
	if v%fixOne != 0 {
		return fixed
	}
	i := int(v >> 16)
	var forms [][]byte
	if i >= -107 && i <= 107 {
		forms = append(forms, []byte{byte(i + 139)})
	}
	if i >= 108 && i <= 1131 {
		w := i - 108
		forms = append(forms, []byte{byte(w>>8) + 247, byte(w)})
	}
	if i <= -108 && i >= -1131 {
		w := -i - 108
		forms = append(forms, []byte{byte(w>>8) + 251, byte(w)})
	}
	short := []byte{28, byte(i >> 8), byte(i)}
	if len(forms) == 0 {
		forms = append(forms, short)
	}
	switch r.IntN(12) {
	case 0:
		return short
	case 1:
		return fixed
	}
	return forms[0]
}

func (g *c05gen) push(b []byte, name string) {
	g.toks = append(g.toks, c05tok{b: b, isNum: true, depth: g.depth, name: name})
	g.depth++
	if g.depth > 48 {
		panic(fmt.Sprintf("c05gen: symbolic stack depth %d", g.depth))
	}
}

// num emits v as a plain number.
func (g *c05gen) num(v fix) {
	if v >= 1<<31 || v < -(1<<31) {
		panic("c05gen: number out of range")
	}
	if v%fixOne != 0 {
		g.usedFrac = true
	}
	g.push(t2num(g.r, v), "num")
}

// op emits an operator; after is the stack depth after it.
func (g *c05gen) op(name string, after int, extra ...byte) {
	code, ok := t2opcode[name]
	if !ok {
		panic("c05gen: unknown operator " + name)
	}
	b := append(append([]byte{}, code...), extra...)
	g.toks = append(g.toks, c05tok{b: b, depth: g.depth, name: name})
	g.depth = after
	g.opHist[name]++
	switch name {
	case "hintmask", "cntrmask", "hstem", "vstem", "hstemhm", "vstemhm", "endchar", "callsubr", "callgsubr", "return",
		"rmoveto", "hmoveto", "vmoveto", "rlineto", "hlineto", "vlineto", "rrcurveto", "hhcurveto", "vvcurveto",
		"hvcurveto", "vhcurveto", "rcurveline", "rlinecurve", "hflex", "hflex1":
	case "dotsection":
		g.usedDeprecated = true
	case "flex", "flex1":
		g.usedFlex = true
	default:
		g.usedArith = true
	}
}

func (g *c05gen) smallInt(lim int) fix { return t2interp.FromInt(g.r.IntN(2*lim+1) - lim) }

func inRange(v fix) bool { return v > -32000*fixOne && v < 32000*fixOne }

// val leaves v on the stack, possibly computed by an arithmetic fragment
// whose result is exact in 16.16.
func (g *c05gen) val(v fix) {
	r := g.r
	if !g.allowArith || g.depth+4 > 48 || (r.IntN(3) != 0 && g.onlyFrag == 0) {
		g.num(v)
		return
	}
	d0 := g.depth
	junk := func() fix {
		if r.IntN(16) == 0 {
			// the ends of the number encodings
			ends := []fix{32767 * fixOne, -32768 * fixOne, 1131 * fixOne, -1131 * fixOne, 1132 * fixOne, -1132 * fixOne, 107 * fixOne, -107 * fixOne, 108 * fixOne, -108 * fixOne}
			if g.allowFrac {
				ends = append(ends, 1<<31-1, -(1 << 31), 1, -1)
			}
			return ends[r.IntN(len(ends))]
		}
		if g.allowFrac && r.IntN(3) == 0 {
			return fix(r.IntN(2000*65536)) - 1000*fixOne
		}
		return g.smallInt(1200)
	}
	if r.IntN(6) == 0 && g.onlyFrag == 0 {
		g.op("random", g.depth+1)
		g.op("drop", g.depth-1)
	}
	frag := r.IntN(16)
	if g.onlyFrag > 0 {
		frag = g.onlyFrag - 1
	}
	switch frag {
	case 0: // add
		a := junk()
		if !inRange(v - a) {
			g.num(v)
			break
		}
		g.num(a)
		g.num(v - a)
		g.op("add", g.depth-1)
	case 1: // sub
		b := junk()
		if !inRange(v + b) {
			g.num(v)
			break
		}
		g.num(v + b)
		g.num(b)
		g.op("sub", g.depth-1)
	case 2:
		g.num(-v)
		g.op("neg", g.depth)
	case 3:
		if v < 0 {
			g.num(v)
			break
		}
		if r.IntN(2) == 0 {
			g.num(-v)
		} else {
			g.num(v)
		}
		g.op("abs", g.depth)
	case 4: // mul: a*b = v exactly
		var a, b fix
		switch r.IntN(3) {
		case 0: // integer factor
			n := []int{2, 3, -2, 5, -1, 1, 4, 7, 10, -3}[r.IntN(10)]
			if int64(v)%int64(n) != 0 {
				g.num(v)
				return
			}
			a, b = v/fix(n), t2interp.FromInt(n)
		case 1: // b = 2^-k
			k := 1 + r.IntN(3)
			a, b = v<<uint(k), fixOne>>uint(k)
			if r.IntN(2) == 0 {
				a, b = -a, -b
			}
		default:
			a, b = v, fixOne
		}
		if !inRange(a) {
			g.num(v)
			return
		}
		if r.IntN(2) == 0 {
			a, b = b, a
		}
		g.num(a)
		g.num(b)
		g.op("mul", g.depth-1)
	case 5: // div: a/b = v exactly
		var a, b fix
		if r.IntN(2) == 0 {
			n := []int{2, 3, -2, 5, -1, 1, 4, 7, 10, -3, 100}[r.IntN(11)]
			a, b = v*fix(n), t2interp.FromInt(n)
		} else {
			k := 1 + r.IntN(3)
			if int64(v)%(1<<uint(k)) != 0 {
				g.num(v)
				return
			}
			a, b = v>>uint(k), fixOne>>uint(k)
		}
		if !inRange(a) {
			g.num(v)
			return
		}
		g.num(a)
		g.num(b)
		g.op("div", g.depth-1)
	case 6: // sqrt
		if v < 0 || v >= 181*fixOne || v%256 != 0 {
			g.num(v)
			break
		}
		g.num(fix((int64(v) * int64(v)) >> 16))
		g.op("sqrt", g.depth)
	case 7:
		g.num(v)
		g.num(junk())
		g.op("drop", g.depth-1)
	case 8:
		g.num(junk())
		g.num(v)
		g.op("exch", g.depth)
		g.op("drop", g.depth-1)
	case 9:
		g.num(v)
		g.op("dup", g.depth+1)
		if r.IntN(2) == 0 {
			g.op("exch", g.depth)
		}
		g.op("drop", g.depth-1)
	case 10: // ifelse
		c1, c2 := junk(), junk()
		if r.IntN(4) == 0 {
			c2 = c1 // the boundary case of "v1 <= v2"
		}
		if c1 <= c2 {
			g.num(v)
			g.num(junk())
		} else {
			g.num(junk())
			g.num(v)
		}
		g.num(c1)
		g.num(c2)
		g.op("ifelse", g.depth-3)
	case 11: // ifelse on a computed condition
		a := junk()
		b := a
		if r.IntN(2) == 0 {
			b = junk()
		}
		// (a b eq) is 1 or 0; compared with 1/2
		if a == b { // condition 1 > 0.5: second value is selected
			g.num(junk())
			g.num(v)
		} else {
			g.num(v)
			g.num(junk())
		}
		g.num(a)
		g.num(b)
		g.op("eq", g.depth-1)
		g.num(fixOne / 2)
		g.op("ifelse", g.depth-3)
	case 12: // boolean results: a fragment with a known truth value b; v = v*1 or v+0, or b itself
		want := r.IntN(2) == 0
		direct := v == 0 || v == fixOne
		if direct {
			want = v == fixOne
		} else {
			g.num(v)
		}
		a, b := junk(), junk()
		switch r.IntN(4) {
		case 0:
			if want {
				b = a
			} else if a == b {
				b = a + fixOne
				if b >= 1<<31 {
					b = a - fixOne // a is the largest operand value
				}
			}
			g.num(a)
			g.num(b)
			g.op("eq", g.depth-1)
		case 1:
			if want {
				if a == 0 {
					a = fixOne
				}
				if b == 0 {
					b = -3 * fixOne
				}
			} else if r.IntN(2) == 0 {
				a = 0
			} else {
				b = 0
			}
			g.num(a)
			g.num(b)
			g.op("and", g.depth-1)
		case 2:
			if want {
				if a == 0 && b == 0 {
					if r.IntN(2) == 0 {
						a = 5 * fixOne
					} else {
						b = -fixOne
					}
				}
			} else {
				a, b = 0, 0
			}
			g.num(a)
			g.num(b)
			g.op("or", g.depth-1)
		default:
			if want {
				a = 0
			} else if a == 0 {
				a = 77 * fixOne
			}
			g.num(a)
			g.op("not", g.depth)
		}
		if !direct {
			if want {
				g.op("mul", g.depth-1)
			} else {
				g.op("add", g.depth-1)
			}
		}
	case 13: // put / get
		i := r.IntN(32)
		g.num(v)
		g.num(t2interp.FromInt(i))
		g.op("put", g.depth-2)
		g.stored[i] = true
		if r.IntN(3) == 0 {
			g.op("random", g.depth+1)
			g.op("drop", g.depth-1)
		}
		g.num(t2interp.FromInt(i))
		g.op("get", g.depth)
	case 14: // index: v junk -> v junk v -> v v junk -> v v -> v
		g.num(v)
		g.num(junk())
		g.num(fixOne)
		g.op("index", g.depth)
		g.op("exch", g.depth)
		g.op("drop", g.depth-1)
		g.op("exch", g.depth)
		g.op("drop", g.depth-1)
	default: // roll
		g.num(junk())
		g.num(v)
		g.num(2 * fixOne)
		g.num(t2interp.FromInt([]int{1, -1, 3, -3, 5}[r.IntN(5)]))
		g.op("roll", g.depth-2)
		g.op("drop", g.depth-1)
	}
	if g.depth != d0+1 {
		panic(fmt.Sprintf("c05gen: fragment changed the depth by %d", g.depth-d0))
	}
}

// operands leaves vals on the stack (in order), using stack-manipulation
// operators now and then.
func (g *c05gen) operands(vals []fix) {
	r := g.r
	base := g.depth
	for i := 0; i < len(vals); {
		room := 48 - g.depth - (len(vals) - i) // spare slots while the remaining values are pushed
		if g.allowArith && g.onlyFrag == 0 && room >= 2 && r.IntN(12) == 0 {
			// roll a segment into place
			n := 1 + r.IntN(min(6, len(vals)-i))
			J := r.IntN(2*n+5) - n - 2
			for k := 0; k < n; k++ {
				// seg_after[(k+J) mod n] = seg_before[k]
				idx := ((k+J)%n + n) % n
				g.num(vals[i+idx])
			}
			g.num(t2interp.FromInt(n))
			g.num(t2interp.FromInt(J))
			g.op("roll", g.depth-2)
			i += n
			continue
		}
		if g.allowArith && g.onlyFrag == 0 && room >= 1 && i > 0 && r.IntN(4) == 0 {
			// copy an equal earlier operand of this list
			done := false
			for j := i - 1; j >= 0 && j >= i-6; j-- {
				if vals[j] == vals[i] {
					switch {
					case j == i-1 && r.IntN(3) == 0:
						g.op("dup", g.depth+1)
					case j == i-1 && r.IntN(2) == 0:
						g.num(-t2interp.FromInt(1 + r.IntN(5)))
						g.op("index", g.depth)
					default:
						g.num(t2interp.FromInt(i - 1 - j))
						g.op("index", g.depth)
					}
					done = true
					break
				}
			}
			if done {
				i++
				continue
			}
		}
		if room >= 4 {
			g.val(vals[i])
		} else {
			g.num(vals[i])
		}
		i++
	}
	if g.depth != base+len(vals) {
		panic("c05gen: operand list depth")
	}
}

// ---- values ----

func (g *c05gen) delta() fix {
	r := g.r
	sign := fix(1 - 2*r.IntN(2))
	if g.allowFrac && r.IntN(3) == 0 {
		switch r.IntN(3) {
		case 0:
			return sign * fix(1+r.IntN(300*65536))
		case 1:
			return sign * (t2interp.FromInt(r.IntN(500)) + fixOne/2)
		default:
			return sign * (t2interp.FromInt(r.IntN(200)) + fix(r.IntN(256))*256)
		}
	}
	switch r.IntN(10) {
	case 0:
		return sign * t2interp.FromInt([]int{107, 108, 1131, 1132, 255, 256, 363, 364, 32767 - 2800, 20000}[r.IntN(10)])
	case 1:
		return sign * t2interp.FromInt(1+r.IntN(1131))
	case 2:
		return sign * t2interp.FromInt(1+r.IntN(6000))
	case 3:
		return 0
	default:
		return sign * t2interp.FromInt(1+r.IntN(107))
	}
}

const c05bound = 31000 * fixOne

// fit flips d if the coordinate would leave the domain.
func fit(c, d fix) fix {
	if c+d > c05bound || c+d < -c05bound {
		d = -d
	}
	if c+d > c05bound || c+d < -c05bound {
		d = 0
	}
	return d
}

func (g *c05gen) iMove(dx, dy fix) {
	g.x += dx
	g.y += dy
	g.moved = true
	g.ops = append(g.ops, t2interp.PathOp{Kind: t2interp.MoveTo, X: [3]fix{g.x}, Y: [3]fix{g.y}})
}

func (g *c05gen) iLine(dx, dy fix) {
	g.x += dx
	g.y += dy
	g.ops = append(g.ops, t2interp.PathOp{Kind: t2interp.LineTo, X: [3]fix{g.x}, Y: [3]fix{g.y}})
}

func (g *c05gen) iCurve(d [6]fix) {
	xa, ya := g.x+d[0], g.y+d[1]
	xb, yb := xa+d[2], ya+d[3]
	g.x, g.y = xb+d[4], yb+d[5]
	g.ops = append(g.ops, t2interp.PathOp{Kind: t2interp.CurveTo, X: [3]fix{xa, xb, g.x}, Y: [3]fix{ya, yb, g.y}})
}

// fitCurve adjusts the six deltas (zero entries stay zero) so that all three
// points stay inside the domain, as seen from (x, y).
func fitCurve(x, y fix, d *[6]fix) (fix, fix) {
	for j := 0; j < 3; j++ {
		d[2*j] = fit(x, d[2*j])
		d[2*j+1] = fit(y, d[2*j+1])
		x += d[2*j]
		y += d[2*j+1]
	}
	return x, y
}

// ---- path operators ----

var c05pathOps = []string{"rlineto", "hlineto", "vlineto", "rrcurveto", "hhcurveto", "vvcurveto", "hvcurveto", "vhcurveto",
	"rcurveline", "rlinecurve", "flex", "hflex", "hflex1", "flex1"}

// pathOp emits one path operator with a random legal operand shape.  It
// returns the operand values and the commands it means, without touching
// the generator state (used by the "draw before move" mutant) when dry.
func (g *c05gen) pathOp(name string) {
	r := g.r
	room := 48 - g.depth
	var vals []fix
	nz := func() fix {
		d := g.delta()
		if d == 0 {
			d = fixOne * 3
		}
		return d
	}
	switch name {
	case "rlineto":
		n := 1 + r.IntN(min(24, room/2))
		if r.IntN(3) != 0 {
			n = 1 + r.IntN(min(4, room/2))
		}
		for i := 0; i < n; i++ {
			dx, dy := fit(g.x, g.delta()), fit(g.y, g.delta())
			vals = append(vals, dx, dy)
			g.iLine(dx, dy)
		}
	case "hlineto", "vlineto":
		n := 1 + r.IntN(min(48, room))
		if r.IntN(3) != 0 {
			n = 1 + r.IntN(min(6, room))
		}
		horiz := name == "hlineto"
		for i := 0; i < n; i++ {
			if horiz {
				d := fit(g.x, g.delta())
				vals = append(vals, d)
				g.iLine(d, 0)
			} else {
				d := fit(g.y, g.delta())
				vals = append(vals, d)
				g.iLine(0, d)
			}
			horiz = !horiz
		}
	case "rrcurveto", "rcurveline", "rlinecurve":
		maxc := room / 6
		nl := 0
		if name == "rlinecurve" {
			nl = 1 + r.IntN(min(21, (room-6)/2))
			if r.IntN(2) == 0 {
				nl = 1 + r.IntN(3)
			}
			for i := 0; i < nl; i++ {
				dx, dy := fit(g.x, g.delta()), fit(g.y, g.delta())
				vals = append(vals, dx, dy)
				g.iLine(dx, dy)
			}
			maxc = 1
		}
		if name == "rcurveline" {
			maxc = (room - 2) / 6
		}
		nc := 1 + r.IntN(maxc)
		if r.IntN(2) == 0 {
			nc = 1 + r.IntN(min(2, maxc))
		}
		if name == "rlinecurve" {
			nc = 1
		}
		for i := 0; i < nc; i++ {
			d := [6]fix{g.delta(), g.delta(), g.delta(), g.delta(), g.delta(), g.delta()}
			fitCurve(g.x, g.y, &d)
			vals = append(vals, d[:]...)
			g.iCurve(d)
		}
		if name == "rcurveline" {
			dx, dy := fit(g.x, g.delta()), fit(g.y, g.delta())
			vals = append(vals, dx, dy)
			g.iLine(dx, dy)
		}
	case "hhcurveto", "vvcurveto":
		lead := r.IntN(2) == 0
		maxc := room / 4
		if lead {
			maxc = (room - 1) / 4
		}
		nc := 1 + r.IntN(maxc)
		if r.IntN(2) == 0 {
			nc = 1 + r.IntN(min(3, maxc))
		}
		for i := 0; i < nc; i++ {
			var d [6]fix
			d[2], d[3] = g.delta(), g.delta()
			if name == "hhcurveto" {
				d[0], d[4] = g.delta(), g.delta()
				if i == 0 && lead {
					d[1] = nz()
				}
			} else {
				d[1], d[5] = g.delta(), g.delta()
				if i == 0 && lead {
					d[0] = nz()
				}
			}
			fitCurve(g.x, g.y, &d)
			if name == "hhcurveto" {
				if i == 0 && lead {
					vals = append(vals, d[1])
				}
				vals = append(vals, d[0], d[2], d[3], d[4])
			} else {
				if i == 0 && lead {
					vals = append(vals, d[0])
				}
				vals = append(vals, d[1], d[2], d[3], d[5])
			}
			g.iCurve(d)
		}
	case "hvcurveto", "vhcurveto":
		trail := r.IntN(2) == 0
		maxc := room / 4
		if trail {
			maxc = (room - 1) / 4
		}
		nc := 1 + r.IntN(maxc)
		if r.IntN(2) == 0 {
			nc = 1 + r.IntN(min(3, maxc))
		}
		horiz := name == "hvcurveto"
		for i := 0; i < nc; i++ {
			var d [6]fix
			d[2], d[3] = g.delta(), g.delta()
			if horiz {
				d[0], d[5] = g.delta(), g.delta()
				if i == nc-1 && trail {
					d[4] = nz()
				}
			} else {
				d[1], d[4] = g.delta(), g.delta()
				if i == nc-1 && trail {
					d[5] = nz()
				}
			}
			fitCurve(g.x, g.y, &d)
			if horiz {
				vals = append(vals, d[0], d[2], d[3], d[5])
				if i == nc-1 && trail {
					vals = append(vals, d[4])
				}
			} else {
				vals = append(vals, d[1], d[2], d[3], d[4])
				if i == nc-1 && trail {
					vals = append(vals, d[5])
				}
			}
			g.iCurve(d)
			horiz = !horiz
		}
	case "flex", "hflex", "hflex1", "flex1":
		sd := func() fix { // small delta
			v := t2interp.FromInt(r.IntN(401) - 200)
			if g.allowFrac && r.IntN(4) == 0 {
				v += fix(r.IntN(65536))
			}
			return v
		}
		var a, b [6]fix
		switch name {
		case "flex":
			for i := range a {
				a[i], b[i] = sd(), sd()
			}
			vals = append(append(append(vals, a[:]...), b[:]...), t2interp.FromInt(r.IntN(100)))
		case "hflex":
			a[0], a[2], a[3], a[4] = sd(), sd(), sd(), sd()
			b[0], b[2], b[3], b[4] = sd(), sd(), -a[3], sd()
			vals = append(vals, a[0], a[2], a[3], a[4], b[0], b[2], b[4])
		case "hflex1":
			a[0], a[1], a[2], a[3], a[4] = sd(), sd(), sd(), sd(), sd()
			b[0], b[2], b[3], b[4] = sd(), sd(), sd(), sd()
			b[5] = -(a[1] + a[3] + b[3])
			vals = append(vals, a[0], a[1], a[2], a[3], a[4], b[0], b[2], b[3], b[4])
		default: // flex1
			for i := range a {
				a[i] = sd()
			}
			b[0], b[1], b[2], b[3] = sd(), sd(), sd(), sd()
			dx := a[0] + a[2] + a[4] + b[0] + b[2]
			dy := a[1] + a[3] + a[5] + b[1] + b[3]
			// TN5177: the flex is horizontal iff |dx| > |dy|; a tie (including
			// dx = dy = 0) counts as vertical.  One flex1 in four is a tie.
			if r.IntN(4) == 0 {
				target := dy
				if r.IntN(2) == 0 {
					target = -dy
				}
				b[2] += target - dx
				dx = target
				g.flex1Tie = true
			}
			adx, ady := dx, dy
			if adx < 0 {
				adx = -adx
			}
			if ady < 0 {
				ady = -ady
			}
			d6 := sd()
			if adx > ady {
				b[4], b[5] = d6, -dy
			} else {
				b[4], b[5] = -dx, d6
			}
			vals = append(vals, a[:]...)
			vals = append(vals, b[0], b[1], b[2], b[3], d6)
		}
		g.iCurve(a)
		g.iCurve(b)
	default:
		panic("c05gen: path operator " + name)
	}
	g.operands(vals)
	g.op(name, 0)
}

// pathOpFits reports whether the current point allows the operator.
func (g *c05gen) flexOK() bool {
	lim := 25000 * fixOne
	return g.x < lim && g.x > -lim && g.y < lim && g.y > -lim
}

// width emits the width operand if the program has one and it was not
// emitted yet.
func (g *c05gen) width(pending *bool) {
	if *pending {
		g.val(g.widthArg)
		*pending = false
	}
}

// c05opts configure one program.
type c05opts struct {
	arith, frac bool
	maxPathOps  int
	nh, nv      int // number of stems
	masks       bool
	width       bool
	onlyOps     []string // restrict the path operators (nil = all)
	onlyFrag    int      // restrict the arithmetic fragments (see c05gen.onlyFrag)
	seac        bool     // end with "adx ady bchar achar endchar" (deprecated, TN5177 appendix C)
	dotsection  bool     // sprinkle dotsection (deprecated no-op) over the path section
}

// c05fragNames names the arithmetic fragments of val.
var c05fragNames = []string{"add", "sub", "neg", "abs", "mul", "div", "sqrt", "drop", "exch", "dup", "ifelse", "eq-ifelse", "bool", "put-get", "index", "roll"}

// program generates a complete well-formed program.  faultAt selects the
// construction point of a single-fault mutant ("" = none).
func c05program(r *rand.Rand, o c05opts, fault string) *c05gen {
	g := &c05gen{r: r, allowArith: o.arith, allowFrac: o.frac, opHist: map[string]int{}, onlyFrag: o.onlyFrag}
	g.hasWidth = o.width
	if g.hasWidth {
		g.widthArg = t2interp.FromInt(r.IntN(1400) - 400)
		if o.frac && r.IntN(2) == 0 {
			g.widthArg += fix(r.IntN(65536))
		}
		if r.IntN(8) == 0 {
			g.widthArg = t2interp.FromInt([]int{0, 107, -107, 108, 1131, -1131, 1132, 32000, -20000}[r.IntN(9)])
		}
	}
	pending := g.hasWidth
	// hint section
	stemOp := func(vertical bool, n int, first bool, implicitLast bool) {
		// emit n stems of one direction, in one or several operators
		pos := fix(0)
		for n > 0 {
			room := (48 - g.depth) / 2
			if pending {
				room = (47 - g.depth) / 2
			}
			kmax := min(n, room)
			k := kmax
			if r.IntN(4) == 0 {
				k = 1 + r.IntN(kmax)
			}
			vals := make([]fix, 0, 2*k)
			pos = 0
			for i := 0; i < k; i++ {
				gap := t2interp.FromInt(r.IntN(150) - 20)
				w := t2interp.FromInt(1 + r.IntN(120))
				switch r.IntN(10) {
				case 0:
					w = -20 * fixOne
				case 1:
					w = -21 * fixOne
				case 2:
					if i == 0 {
						gap = t2interp.FromInt(r.IntN(4000) - 2000)
					}
				}
				if o.frac && r.IntN(3) == 0 {
					gap += fix(r.IntN(65536))
					w += fix(r.IntN(65536))
				}
				vals = append(vals, gap, w)
				a := pos + gap
				pos = a + w
				if vertical {
					g.vstem = append(g.vstem, a, pos)
				} else {
					g.hstem = append(g.hstem, a, pos)
				}
			}
			n -= k
			g.width(&pending)
			g.operands(vals)
			if vertical {
				g.vOps++
			} else {
				g.hOps++
			}
			if n == 0 && implicitLast {
				return // operands stay on the stack for the mask operator
			}
			name := "hstem"
			if vertical {
				name = "vstem"
			}
			if o.masks {
				name += "hm"
			}
			g.op(name, 0)
		}
	}
	nStems := o.nh + o.nv
	maskBytes := func() []byte {
		b := make([]byte, (nStems+7)/8)
		for i := range b {
			b[i] = byte(r.UintN(256))
		}
		return b
	}
	mask := func(name string) {
		mb := maskBytes()
		kind := t2interp.HintMask
		if name == "cntrmask" {
			kind = t2interp.CntrMask
		}
		g.ops = append(g.ops, t2interp.PathOp{Kind: kind, Mask: mb})
		g.op(name, 0, mb...)
	}
	startMasks := o.masks && nStems > 0 && r.IntN(4) != 0
	implicit := startMasks && o.nv > 0 && r.IntN(3) != 0
	if o.nh > 0 {
		stemOp(false, o.nh, true, false)
	}
	if o.nv > 0 {
		stemOp(true, o.nv, o.nh == 0, implicit)
	}
	if startMasks {
		g.width(&pending) // only relevant when there was no stem operand at all (cannot happen: nStems > 0)
		nm := 1 + r.IntN(3)
		for i := 0; i < nm; i++ {
			name := "hintmask"
			if i < nm-1 || r.IntN(4) == 0 {
				name = "cntrmask"
			}
			mask(name)
		}
	}
	if fault == "draw-before-move" {
		c05inject(g, fault)
		fault = ""
	}

	// path section
	names := c05pathOps
	if o.onlyOps != nil {
		names = o.onlyOps
	}
	nOps := 0
	nsub := r.IntN(4)
	if o.maxPathOps == 0 {
		nsub = 0
	}
	for s := 0; s < nsub && nOps < o.maxPathOps; s++ {
		// moveto
		g.width(&pending)
		switch r.IntN(3) {
		case 0:
			dx, dy := fit(g.x, g.delta()), fit(g.y, g.delta())
			g.iMove(dx, dy)
			g.operands([]fix{dx, dy})
			g.op("rmoveto", 0)
		case 1:
			dx := fit(g.x, g.delta())
			g.iMove(dx, 0)
			g.operands([]fix{dx})
			g.op("hmoveto", 0)
		default:
			dy := fit(g.y, g.delta())
			g.iMove(0, dy)
			g.operands([]fix{dy})
			g.op("vmoveto", 0)
		}
		if fault != "" && fault != "missing-endchar" && r.IntN(2) == 0 {
			c05inject(g, fault)
			fault = ""
		}
		if o.dotsection && r.IntN(2) == 0 {
			g.op("dotsection", 0) // directly behind the moveto
		}
		n := r.IntN(6)
		for i := 0; i < n && nOps < o.maxPathOps; i++ {
			name := names[r.IntN(len(names))]
			if (name == "flex" || name == "hflex" || name == "hflex1" || name == "flex1") && !g.flexOK() {
				name = "rlineto"
			}
			g.pathOp(name)
			nOps++
			if o.masks && nStems > 0 && r.IntN(5) == 0 {
				mask("hintmask")
			}
			if o.dotsection && r.IntN(3) == 0 {
				g.op("dotsection", 0)
			}
		}
	}
	if fault != "" && fault != "missing-endchar" {
		c05inject(g, fault)
		fault = ""
	}
	g.width(&pending)
	if fault != "missing-endchar" {
		if o.seac {
			// accent offset and the standard-encoding codes of base and accent character
			v := [4]fix{g.smallInt(600), g.smallInt(600), t2interp.FromInt(r.IntN(256)), t2interp.FromInt(r.IntN(256))}
			g.operands(v[:])
			g.seac = &v
			g.usedDeprecated = true
		}
		g.op("endchar", 0)
	}
	return g
}

// c05inject emits the faulty fragment of a single-fault mutant at the
// current point (operand stack empty).
func c05inject(g *c05gen, fault string) {
	r := g.r
	if g.depth != 0 {
		panic("c05inject: stack not empty")
	}
	switch fault {
	case "underflow":
		type uf struct {
			op   string
			need int
		}
		ops := []uf{{"add", 2}, {"sub", 2}, {"mul", 2}, {"div", 2}, {"neg", 1}, {"abs", 1}, {"sqrt", 1}, {"drop", 1}, {"exch", 2},
			{"dup", 1}, {"index", 1}, {"roll", 2}, {"put", 2}, {"get", 1}, {"and", 2}, {"or", 2}, {"not", 1}, {"eq", 2}, {"ifelse", 4},
			{"callsubr", 1}, {"callgsubr", 1}}
		u := ops[r.IntN(len(ops))]
		have := r.IntN(u.need)
		for i := 0; i < have; i++ {
			g.num(t2interp.FromInt(1 + r.IntN(5)))
		}
		g.op(u.op, 0)
		g.depth = 0
	case "overflow":
		// an operator with 48 legal operands receives a 49th
		for i := 0; i < 48; i++ {
			g.toks = append(g.toks, c05tok{b: t2num(r, t2interp.FromInt(1+r.IntN(50))), isNum: true, depth: min(g.depth+i, 47), name: "num"})
		}
		switch r.IntN(3) {
		case 0:
			g.toks = append(g.toks, c05tok{b: t2num(r, fixOne), isNum: true, depth: 47, name: "num"})
		case 1:
			g.toks = append(g.toks, c05tok{b: t2opcode["dup"], depth: 47, name: "dup"})
		default:
			g.toks = append(g.toks, c05tok{b: t2opcode["random"], depth: 47, name: "random"})
		}
		name := "hlineto"
		if !g.moved {
			name = "hstem"
			if len(g.ops) > 0 || len(g.vstem) > 0 {
				name = "rlineto"
			}
		}
		g.toks = append(g.toks, c05tok{b: t2opcode[name], depth: 47, name: name})
	case "draw-before-move":
		// a path operator with a legal operand shape before the first moveto
		h := &c05gen{r: r, allowFrac: g.allowFrac, opHist: map[string]int{}}
		h.pathOp(c05pathOps[r.IntN(len(c05pathOps))])
		g.toks = append(g.toks, h.toks...)
	default:
		panic("c05inject: " + fault)
	}
}

// bytes concatenates the tokens.
func c05bytes(toks []c05tok) []byte {
	var out []byte
	for _, t := range toks {
		out = append(out, t.b...)
	}
	return out
}

// ---- subroutines ----

// c05tables holds the subroutine tables of a font under construction.
type c05tables struct {
	r      *rand.Rand
	global [][]byte
	local  [][][]byte // per FD
	usedG  map[int]bool
	usedL  []map[int]bool
}

func c05newTables(r *rand.Rand, nGlobal int, nLocal []int) *c05tables {
	filler := []byte{14} // endchar: a wrong call ends the glyph early and is noticed
	t := &c05tables{r: r, usedG: map[int]bool{}}
	t.global = make([][]byte, nGlobal)
	for i := range t.global {
		t.global[i] = filler
	}
	for _, n := range nLocal {
		l := make([][]byte, n)
		for i := range l {
			l[i] = filler
		}
		t.local = append(t.local, l)
		t.usedL = append(t.usedL, map[int]bool{})
	}
	return t
}

// alloc reserves a free slot; ok=false when the table is full.
func (t *c05tables) alloc(global bool, fd int) (idx int, ok bool) {
	tab, used := t.global, t.usedG
	if !global {
		tab, used = t.local[fd], t.usedL[fd]
	}
	n := len(tab)
	if len(used) >= n {
		return 0, false
	}
	for try := 0; try < 8; try++ {
		switch t.r.IntN(4) {
		case 0:
			idx = t.r.IntN(min(n, 3))
		case 1:
			idx = n - 1 - t.r.IntN(min(n, 3))
		default:
			idx = t.r.IntN(n)
		}
		if !used[idx] {
			used[idx] = true
			return idx, true
		}
	}
	for idx = 0; idx < n; idx++ {
		if !used[idx] {
			used[idx] = true
			return idx, true
		}
	}
	return 0, false
}

// c05carve turns token ranges into subroutine calls, recursively.  level is
// the nesting depth of the code being written (0 = the charstring).  deep
// requests a chain of nested calls down to that depth.
func c05carve(t *c05tables, toks []c05tok, fd, level, deep int) []byte {
	r := t.r
	var out []byte
	i := 0
	nCut := r.IntN(3)
	if level > 0 {
		nCut = r.IntN(2)
	}
	if deep > level {
		nCut = max(nCut, 1)
	}
	for i < len(toks) {
		if nCut > 0 && level < 10 && toks[i].depth <= 47 && (r.IntN(max(1, len(toks)/2)) == 0 || (deep > level && i >= len(toks)/3)) {
			j := i + 1 + r.IntN(len(toks)-i)
			if deep > level && r.IntN(2) == 0 {
				j = len(toks)
			}
			global := r.IntN(2) == 0
			idx, ok := t.alloc(global, fd)
			if !ok {
				global = !global
				idx, ok = t.alloc(global, fd)
			}
			if ok {
				body := c05carve(t, toks[i:j], fd, level+1, deep)
				if toks[j-1].name != "endchar" {
					body = append(body, 11) // return
				}
				n := len(t.local[fd])
				if global {
					t.global[idx] = body
					n = len(t.global)
				} else {
					t.local[fd][idx] = body
				}
				out = append(out, t2num(r, t2interp.FromInt(idx-t2interp.Bias(n)))...)
				if global {
					out = append(out, 29)
				} else {
					out = append(out, 10)
				}
				nCut--
				deep = 0 // only one chain
				i = j
				continue
			}
		}
		out = append(out, toks[i].b...)
		i++
	}
	return out
}
