package props

import (
	"bytes"
	"fmt"
	"math"
	"math/rand/v2"
	"strconv"
	"strings"

	"seehuhn.de/go/geom/matrix"
	"seehuhn.de/go/postscript/cid"
	"seehuhn.de/go/postscript/funit"
	"seehuhn.de/go/postscript/type1"
	"seehuhn.de/go/sfnt/cff"
	"seehuhn.de/go/sfnt/glyph"

	"verif/harness/internal/mon"
	"verif/harness/internal/ref/cffmini"
	"verif/harness/internal/ref/t2interp"
)

// C13: CFF structures and numbers survive write/read.

func init() {
	mon.RegisterCfg("C13", mon.Config{
		Rule: "generated cff.Font values (simple: glyph names from the 391 standard strings in runs of every length, custom strings, mixtures; encodings nil/standard/expert/custom contiguous with 1..255 ranges and multiply encoded glyphs; CID-keyed: GID->CID maps with runs and scattered values, 1..256 private dictionaries with FDSelect functions constant / few long runs / many short runs around the format 3 vs 0 break-even; FontInfo strings and numbers; integer and fractional widths; private-dict integers at every size-class boundary, reals with 1..12 significant digits and magnitudes 1e-9..1e9; string volumes forcing INDEX offSize 1, 2, 3 and (thorough) 4) are written with (*cff.Font).Write and (a) read back with cff.Read and compared field by field (FDSelect extensionally, reals relative 5e-9, widths 2^-16), (b) walked by the independent reader cffmini: header, every INDEX (offSize in 1..4 and sufficient, offsets from 1 and monotone, data inside the file), Top DICT offsets, charset/encoding/FDSelect format bytes and lengths, Private size/offset, Subrs offset relative to the Private DICT, sections tile the file; names, CIDs, encoding, FDSelect and DICT numbers decoded by cffmini are compared with the source values; widths are recomputed with t2interp. distinct = distinct output files (hash)",
		Assumptions: []string{
			"values the reader documents as clamped or normalised are generated inside their ranges: BlueScale in [0,1], StdHW/StdVW in [0,10000], |ItalicAngle| <= 179.9; stratum fonts keeps |real| in 1e-9..1e9 or 0",
			"stratum wide-reals covers the rest of the float64 range (decimal exponents -308..+308, values next to 1e300 / 1e-300 / MaxFloat64 / the smallest normal number, nine-digit roundings that carry): the bytes are judged over the whole range by the independent reader; the library's reader clamps |x| > 1e300 to 1e300 and flushes |x| < 1e-300 to 0 (cff/dict.go decodeFloat), which - like its other clamps - is not judged (skip class roundtrip:real-outside-the-reader's-1e-300..1e300-clamp)",
			"stratum subnormal-reals: subnormal numbers cannot carry nine digits; the writer must terminate (a writer that does not return is stopped by the worker watchdog and reported by the driver as a hang) and the stored number must equal the source up to 5e-9 relative + 4 units of the last subnormal place, or be zero",
			"BlueValues/OtherBlues have at most 14/10 entries (TN5176 delta arrays)",
			"fractional widths of magnitude >= 10000 are multiples of 1/4; max-min of the widths of a font < 32000",
			"FontInfo strings are valid UTF-8 (the reader sanitises them)",
			"GIDToCID is present for CID-keyed fonts, with GIDToCID[0] = 0 and distinct CIDs <= 65535",
			"the writer emits no unreferenced bytes: every byte belongs to a section reachable from the header or the Top DICT",
			"simple fonts have at most 64000 glyphs: string identifiers are 16-bit numbers, so more than about 65000 custom names cannot be represented in the format (the writer panics or emits out-of-range SIDs there; recorded in the report, not judged)",
		},
	}, runC13)
}

func c13relClose(a, b float64) bool {
	if a == b {
		return true
	}
	return math.Abs(a-b) <= 5e-9*math.Max(math.Abs(a), math.Abs(b))
}

// c13intExact reports whether want is an integer of up to 32 bits (which the
// format stores exactly) that came back as another value.  It is applied to
// the scalar numbers of the dictionaries; matrix entries are reals throughout.
func c13intLost(got, want float64) bool {
	return want == math.Trunc(want) && math.Abs(want) <= math.MaxInt32 && got != want
}

// c13real draws a real number with d significant digits and magnitude class.
func c13real(r *rand.Rand, minExp, maxExp int) float64 {
	d := 1 + r.IntN(12)
	m := float64(1 + r.Int64N(int64(math.Pow10(d))-1))
	e := minExp + r.IntN(maxExp-minExp+1)
	// value = m * 10^(e-d+1): d digits, leading digit at 10^e
	s := fmt.Sprintf("%.0fe%d", m, e-d+1)
	var v float64
	fmt.Sscanf(s, "%g", &v)
	if r.IntN(2) == 0 {
		v = -v
	}
	return v
}

var c13intBoundaries = []int32{0, 1, -1, 107, 108, -107, -108, 1131, 1132, -1131, -1132, 32767, 32768, -32768, -32769, 65535, 65536,
	math.MaxInt32, math.MinInt32, math.MaxInt32 - 1, math.MinInt32 + 1, 1 << 24, -(1 << 24), 1000, -1000,
	// integers that are long in decimal but close to a short power-of-ten form
	40000, 100000, 999999999, 1000000000, 1000000001, -1000000001, 1500000002, 2000000004, -2000000004}

func c13int(r *rand.Rand) int32 {
	switch r.IntN(4) {
	case 0:
		return int32(r.IntN(215) - 107)
	case 1:
		return int32(r.Uint32())
	default:
		return c13intBoundaries[r.IntN(len(c13intBoundaries))]
	}
}

func c13string(r *rand.Rand, k *mon.Case) string {
	switch r.IntN(10) {
	case 0, 1:
		return ""
	case 2, 3:
		return cffmini.StdStrings[379+r.IntN(12)] // 001.000 … Semibold
	case 4:
		return cffmini.StdStrings[r.IntN(cffmini.NStd)]
	case 5:
		return "Grüße, 世界 𝔘𝔫𝔦𝔠𝔬𝔡𝔢 " + fmt.Sprint(r.IntN(100))
	case 6:
		n := 200 + r.IntN(400)
		return strings.Repeat("x", n)
	default:
		n := 1 + r.IntN(30)
		b := make([]byte, n)
		for i := range b {
			b[i] = byte(0x20 + r.IntN(0x5f))
		}
		return string(b)
	}
}

// c13names returns n unique glyph names, names[0] = ".notdef".
func c13names(r *rand.Rand, n int, k *mon.Case) []string {
	names := make([]string, 0, n)
	used := map[string]bool{".notdef": true}
	names = append(names, ".notdef")
	add := func(s string) bool {
		if used[s] || len(names) >= n {
			return false
		}
		used[s] = true
		names = append(names, s)
		return true
	}
	custom := 0
	stuck := 0
	mode := r.IntN(6)
	for len(names) < n {
		m := mode
		if mode == 5 {
			m = r.IntN(5)
		}
		before := len(names)
		if stuck > 3 {
			m = 2
		}
		switch m {
		case 0: // a run of consecutive standard strings
			start := 1 + r.IntN(cffmini.NStd-1)
			l := 1 + r.IntN(40)
			if r.IntN(4) == 0 {
				start, l = 1, 390
			}
			for i := 0; i < l && start+i < cffmini.NStd; i++ {
				add(cffmini.StdStrings[start+i])
			}
		case 1: // scattered standard strings
			for i := 0; i < 1+r.IntN(10); i++ {
				add(cffmini.StdStrings[1+r.IntN(cffmini.NStd-1)])
			}
		case 2: // a run of custom names (consecutive new SIDs)
			l := 1 + r.IntN(60)
			if r.IntN(6) == 0 {
				l = 250 + r.IntN(20)
			}
			if r.IntN(12) == 0 {
				l = 500 + r.IntN(100)
			}
			for i := 0; i < l; i++ {
				custom++
				add(fmt.Sprintf("c%d", custom))
			}
		case 3: // custom names interleaved with a standard one (breaks runs)
			custom++
			add(fmt.Sprintf("uni%04X", custom))
			add(cffmini.StdStrings[1+r.IntN(cffmini.NStd-1)])
		default: // exotic
			custom++
			switch r.IntN(5) {
			case 0:
				add(fmt.Sprintf("a b%d", custom))
			case 1:
				add(fmt.Sprintf("\xff\xfe%d", custom))
			case 2:
				add(strings.Repeat("n", 64+r.IntN(200)) + fmt.Sprint(custom))
			case 3:
				add(fmt.Sprintf("Ä%d", custom))
			default:
				add(fmt.Sprintf("x%d.alt", custom))
			}
		}
		if len(names) == before {
			stuck++
		}
	}
	return names
}

func c13private(r *rand.Rand) *type1.PrivateDict {
	p := &type1.PrivateDict{BlueScale: 0.039625, BlueShift: 7, BlueFuzz: 1}
	blues := func(max int) []funit.Int16 {
		if r.IntN(3) == 0 {
			return nil
		}
		n := 2 * (1 + r.IntN(max/2))
		out := make([]funit.Int16, n)
		v := -300 + r.IntN(300)
		wide := r.IntN(10) == 0
		for i := range out {
			if wide {
				v = r.IntN(65536) - 32768
			} else {
				v += r.IntN(400)
			}
			out[i] = funit.Int16(v)
		}
		return out
	}
	p.BlueValues = blues(14)
	p.OtherBlues = blues(10)
	switch r.IntN(6) {
	case 0:
	case 1:
		p.BlueScale = 0
	case 2:
		p.BlueScale = 1
	case 3: // close to the default
		p.BlueScale = 0.039625 + []float64{1e-7, -1e-7, 5e-7, 9e-7, -9e-7, 1e-6, 2e-6}[r.IntN(7)]
	default:
		p.BlueScale = math.Abs(c13real(r, -9, -1))
	}
	if r.IntN(2) == 0 {
		p.BlueShift = c13int(r)
	}
	if r.IntN(2) == 0 {
		p.BlueFuzz = c13int(r)
	}
	std := func() float64 {
		switch r.IntN(5) {
		case 0:
			return 0
		case 1:
			return float64(r.IntN(10001))
		case 2:
			return 10000
		default:
			return math.Abs(c13real(r, -9, 3))
		}
	}
	p.StdHW, p.StdVW = std(), std()
	p.ForceBold = r.IntN(4) == 0
	return p
}

func c13matrix(r *rand.Rand, def matrix.Matrix) matrix.Matrix {
	switch r.IntN(8) {
	case 0, 1:
		return def
	case 2: // close to the default
		m := def
		q := []float64{1 / 1005.0, 1 / 995.0, 0.001000001, 0.0010000001, 1.000001, 0.999999}[r.IntN(6)]
		if def[0] == 1 {
			q *= 1000
			if q > 10 {
				q /= 1000
			}
		} else if q > 0.5 {
			q /= 1000
		}
		m[0], m[3] = q, q
		return m
	case 3: // other units per em
		u := float64([]int{2048, 1024, 4096, 500, 991, 1010, 16384, 1}[r.IntN(8)])
		return matrix.Matrix{1 / u, 0, 0, 1 / u, 0, 0}
	case 4:
		return matrix.Matrix{0.001, 0, 0.000212557, 0.001, 0, 0} // oblique
	default:
		var m matrix.Matrix
		for i := range m {
			if r.IntN(4) == 0 {
				continue
			}
			m[i] = c13real(r, -9, 9)
		}
		return m
	}
}

func c13info(r *rand.Rand, k *mon.Case, cidKeyed bool) *type1.FontInfo {
	fi := &type1.FontInfo{
		FontName:           "Verif-C13",
		Version:            c13string(r, k),
		Notice:             c13string(r, k),
		Copyright:          c13string(r, k),
		FullName:           c13string(r, k),
		FamilyName:         c13string(r, k),
		Weight:             c13string(r, k),
		IsFixedPitch:       r.IntN(3) == 0,
		UnderlinePosition:  -100,
		UnderlineThickness: 50,
	}
	switch r.IntN(6) {
	case 0:
		fi.FontName = ""
	case 1:
		fi.FontName = strings.Repeat("N", []int{1, 127, 254, 255, 256, 257}[r.IntN(6)])
	}
	switch r.IntN(5) {
	case 0:
	case 1:
		fi.ItalicAngle = float64(r.IntN(359) - 179)
	case 2:
		fi.ItalicAngle = -12.5
	default:
		fi.ItalicAngle = math.Mod(c13real(r, -9, 2), 179.9)
	}
	ul := func(def funit.Float64) funit.Float64 {
		switch r.IntN(6) {
		case 0, 1:
			return def
		case 2:
			return funit.Float64(c13int(r))
		case 3:
			return funit.Float64(float64(r.IntN(2000)-1000) + []float64{0.5, 0.25, 0.75, 0.1}[r.IntN(4)])
		default:
			return funit.Float64(c13real(r, -9, 9))
		}
	}
	fi.UnderlinePosition = ul(-100)
	fi.UnderlineThickness = ul(50)
	if cidKeyed {
		fi.FontMatrix = c13matrix(r, matrix.Identity)
	} else {
		fi.FontMatrix = c13matrix(r, matrix.Matrix{0.001, 0, 0, 0.001, 0, 0})
	}
	if r.IntN(6) == 0 {
		// the value that is the default of the *other* kind of font (the
		// defaults differ: 0.001 for simple fonts, what the reader assumes
		// as identity for CID-keyed ones)
		if cidKeyed {
			fi.FontMatrix = matrix.Matrix{0.001, 0, 0, 0.001, 0, 0}
		} else {
			fi.FontMatrix = matrix.Identity
		}
	}
	return fi
}

// c13encoding builds a custom encoding that satisfies the documented rule:
// the encoded glyphs are 1..m.
func c13encoding(r *rand.Rand, nGlyphs int, k *mon.Case) []glyph.ID {
	enc := make([]glyph.ID, 256)
	if nGlyphs < 2 {
		return enc
	}
	m := 1 + r.IntN(min(nGlyphs-1, 256))
	switch r.IntN(6) {
	case 0:
		m = min(nGlyphs-1, 256)
	case 1:
		m = min(nGlyphs-1, 1+r.IntN(4))
	}
	manyRuns := false
	if nGlyphs >= 257 && r.IntN(3) == 0 {
		m, manyRuns = 256, true // only format 1 can hold 256 codes; aim at 100..128 ranges
	}
	nSup := 0
	if r.IntN(2) == 0 && m < 256 {
		nSup = 1 + r.IntN(min(8, 256-m))
	}
	// choose m distinct codes; either in runs (format 1) or scattered (format 0)
	codes := r.Perm(256)
	free := map[int]bool{}
	for c := 0; c < 256; c++ {
		free[c] = true
	}
	assign := make([]int, 0, m)
	layout := r.IntN(3)
	if manyRuns {
		layout = 2
	}
	switch layout {
	case 0: // scattered (256 scattered codes fit neither format 0, nCodes <= 255, nor format 1, nRanges <= 255)
		m = min(m, 255)
		assign = append(assign, codes[:m]...)
	case 1: // one run
		start := r.IntN(256 - m + 1)
		for i := 0; i < m; i++ {
			assign = append(assign, start+i)
		}
	default: // several runs: split 0..255 into segments and take them in shuffled order
		want := 1 + r.IntN(min(m, 40))
		if r.IntN(5) == 0 {
			want = min(m, 128)
		}
		if manyRuns {
			want = 100 + r.IntN(29)
		}
		// run lengths
		lens := make([]int, want)
		for i := range lens {
			lens[i] = 1
		}
		for i := want; i < m; i++ {
			lens[r.IntN(want)]++
		}
		// place runs at increasing positions with gaps, then shuffle the order of runs
		slack := 256 - m
		gaps := make([]int, want)
		for i := 0; i < want && slack > 0; i++ {
			g := 1
			if i == 0 {
				g = r.IntN(2)
			}
			if g > slack {
				g = slack
			}
			gaps[i] = g
			slack -= g
		}
		type run struct{ start, l int }
		runs := make([]run, want)
		pos := 0
		for i := range runs {
			pos += gaps[i]
			runs[i] = run{pos, lens[i]}
			pos += lens[i]
		}
		r.Shuffle(len(runs), func(i, j int) { runs[i], runs[j] = runs[j], runs[i] })
		for _, ru := range runs {
			for i := 0; i < ru.l; i++ {
				assign = append(assign, ru.start+i)
			}
		}
	}
	for i, c := range assign {
		enc[c] = glyph.ID(i + 1)
		delete(free, c)
	}
	// supplements: further codes for already encoded glyphs; a supplement code must be
	// larger than the glyph's primary code, because the writer takes the first code as primary
	for s := 0; s < nSup; s++ {
		g := 1 + r.IntN(m)
		prim := assign[g-1]
		var cand []int
		for c := prim + 1; c < 256; c++ {
			if free[c] {
				cand = append(cand, c)
			}
		}
		if len(cand) == 0 {
			continue
		}
		c := cand[r.IntN(len(cand))]
		enc[c] = glyph.ID(g)
		delete(free, c)
		k.Class("gen:encoding-supplement")
	}
	return enc
}

// c13glyphs makes n simple outlines with widths.
func c13glyphs(r *rand.Rand, names []string, n int, k *mon.Case, light bool) []*cff.Glyph {
	gs := make([]*cff.Glyph, n)
	cls := r.IntN(c04NClasses)
	for i := range gs {
		name := ""
		if names != nil {
			name = names[i]
		}
		if light {
			g := &cff.Glyph{Name: name}
			if i%97 == 1 {
				g.MoveTo(float64(i%500), 10)
				g.LineTo(float64(i%500)+20, 300)
				g.LineTo(5, 7)
			}
			gs[i] = g
			continue
		}
		fam := []string{"empty", "random", "mixline", "hhvv", "zero", "empty", "empty"}[r.IntN(7)]
		g, _ := c04glyph(r, name, fam, 0, cls, r.IntN(6) == 0)
		gs[i] = g
	}
	ws := c04widths(r, n, k)
	for i, g := range gs {
		g.Width = ws[i]
	}
	return gs
}

type c13spec struct {
	font  *cff.Font
	fdsel []int // extensional FDSelect
	desc  string
	wide  bool // dictionary reals over the whole float64 range (stratum wide-reals)
}

// rtClose compares a real that went through Write and cff.Read.  The reader
// clamps magnitudes above 1e300 to 1e300 and flushes magnitudes below 1e-300
// to zero (cff/dict.go decodeFloat); like the other clamps of the reader (see
// Assumptions) this is not judged: the bytes are (by the independent reader).
func (sp *c13spec) rtClose(k *mon.Case, got, want float64) bool {
	if sp.wide && want != 0 && (math.Abs(want) > 1e300 || math.Abs(want) < 1e-300) {
		k.Skip("roundtrip:real-outside-the-reader's-1e-300..1e300-clamp")
		return true
	}
	return c13relClose(got, want)
}

// bytesClose compares a real decoded from the bytes by the independent reader
// with the source value.  Values below 1e-300 in magnitude get a witness class
// of their own (the writer's digit extraction loses precision there).
func (sp *c13spec) bytesClose(k *mon.Case, got, want float64) bool {
	if c13relClose(got, want) {
		return true
	}
	if sp != nil && sp.wide && want != 0 && math.Abs(want) < 1e-300 {
		k.Fail("mismatch", "bytes:real:below-1e-300:imprecise", "dictionary real %v is stored as %v in the bytes (relative error %.2g, nine digits allow 5e-9)", want, got, math.Abs(got-want)/math.Abs(want))
		return true
	}
	return false
}

func (sp *c13spec) bytesMatrixClose(k *mon.Case, a, b matrix.Matrix) bool {
	for i := range a {
		if !sp.bytesClose(k, a[i], b[i]) {
			return false
		}
	}
	return true
}

func (sp *c13spec) rtMatrixClose(k *mon.Case, a, b matrix.Matrix) bool {
	for i := range a {
		if !sp.rtClose(k, a[i], b[i]) {
			return false
		}
	}
	return true
}

// c13wideReal draws a real from the parts of the float64 range that c13real
// leaves out: decimal exponents with two and three digits, values next to the
// reader's clamps and next to the limits of the type.  small restricts the
// result to (0, 1).
func c13wideReal(r *rand.Rand, k *mon.Case, small bool) float64 {
	d := 1 + r.IntN(10)
	m := float64(1 + r.Int64N(int64(math.Pow10(d))-1))
	mk := func(e int) float64 { // d digits, leading digit at 10^e
		v, err := strconv.ParseFloat(fmt.Sprintf("%.0fe%d", m, e-d+1), 64)
		if err != nil || math.IsInf(v, 0) {
			return math.MaxFloat64
		}
		return v
	}
	sel := r.IntN(12)
	if small && sel < 6 {
		sel += 6
	}
	var v float64
	switch sel {
	case 0:
		v = mk(10 + r.IntN(90))
		k.Class("real:exponent:+10..+99")
	case 1:
		v = mk(100 + r.IntN(199))
		k.Class("real:exponent:+100..+298")
	case 2:
		v = mk(299)
		k.Class("real:next-to-1e300:inside")
	case 3:
		v = []float64{1e300, 9.99999999e299, 1.00000001e300, math.MaxFloat64, 1e308, 1.7e308, math.MaxFloat64 / 2}[r.IntN(7)]
		if v > 1e300 {
			k.Class("real:above-1e300")
		} else {
			k.Class("real:next-to-1e300:inside")
		}
	case 4:
		v = mk(300 + r.IntN(8))
		if v <= 1e300 {
			v = 1.5e300
		}
		k.Class("real:above-1e300")
	case 5: // the rounding to nine digits carries into a new digit
		e := 10 + r.IntN(280)
		v, _ = strconv.ParseFloat(fmt.Sprintf("9.99999999%de%d", 5+r.IntN(5), e), 64)
		k.Class("real:nine-digit-rounding-carries")
	case 6:
		v = mk(-10 - r.IntN(90))
		k.Class("real:exponent:-10..-99")
	case 7:
		v = mk(-100 - r.IntN(199))
		k.Class("real:exponent:-100..-298")
	case 8:
		v = mk(-299 - r.IntN(2))
		if v < 1e-300 {
			v = 1e-300
		}
		k.Class("real:next-to-1e-300:inside")
	case 9:
		v = []float64{1e-300, 1.00000001e-300, 9.99999999e-301, 0x1p-1022, 2.3e-308, 1e-307, 1e-305}[r.IntN(7)]
		if v < 1e-300 {
			k.Class("real:below-1e-300,normal")
		} else {
			k.Class("real:next-to-1e-300:inside")
		}
	case 10:
		v = mk(-301 - r.IntN(7))
		if v < 0x1p-1022 {
			v = 0x1p-1022
		}
		if v >= 1e-300 {
			v = 9e-301
		}
		k.Class("real:below-1e-300,normal")
	default:
		e := -10 - r.IntN(280)
		v, _ = strconv.ParseFloat(fmt.Sprintf("9.99999999%de%d", 5+r.IntN(5), e), 64)
		k.Class("real:nine-digit-rounding-carries")
	}
	if !small && r.IntN(2) == 0 {
		v = -v
	}
	return v
}

// c13widen replaces the real-valued fields of a generated font by wide reals.
func c13widen(r *rand.Rand, k *mon.Case, sp *c13spec) {
	sp.wide = true
	f := sp.font
	mat := func(m *matrix.Matrix) {
		for i := range m {
			if r.IntN(3) != 0 {
				m[i] = c13wideReal(r, k, false)
			}
		}
	}
	fi := f.FontInfo
	if r.IntN(4) != 0 {
		mat(&fi.FontMatrix)
	}
	if r.IntN(2) == 0 {
		fi.UnderlinePosition = funit.Float64(c13wideReal(r, k, false))
	}
	if r.IntN(2) == 0 {
		fi.UnderlineThickness = funit.Float64(c13wideReal(r, k, false))
	}
	if r.IntN(3) == 0 {
		fi.ItalicAngle = c13wideReal(r, k, true) // tiny angles
		if r.IntN(2) == 0 {
			fi.ItalicAngle = -fi.ItalicAngle
		}
	}
	for i, p := range f.Private {
		if i >= 4 {
			break
		}
		if r.IntN(2) == 0 {
			p.BlueScale = c13wideReal(r, k, true)
		}
		if r.IntN(2) == 0 {
			p.StdHW = c13wideReal(r, k, true)
		}
		if r.IntN(2) == 0 {
			p.StdVW = c13wideReal(r, k, true)
		}
	}
	for i := range f.FontMatrices {
		if i >= 4 {
			break
		}
		if r.IntN(2) == 0 {
			mat(&f.FontMatrices[i])
		}
	}
	sp.desc += ",wide-reals"
}

func c13simple(r *rand.Rand, k *mon.Case, n int, light bool) *c13spec {
	names := c13names(r, n, k)
	encMode := r.IntN(7)
	var partialStd []int // codes of the standard encoding, in the order of the glyphs 1..len
	if encMode == 6 {
		// glyphs named after the standard encoding, of which only a prefix
		// (possibly none) is encoded: a strict subset of the predefined
		// Standard encoding must not be written as "predefined"
		var codes []int
		for code, sid := range cffmini.StandardEncodingSID {
			if sid != 0 {
				codes = append(codes, code)
			}
		}
		r.Shuffle(len(codes), func(i, j int) { codes[i], codes[j] = codes[j], codes[i] })
		if n >= 3 && n-1 <= len(codes) {
			partialStd = codes[:n-1]
			names = names[:1]
			for _, code := range partialStd {
				names = append(names, cffmini.StdStrings[cffmini.StandardEncodingSID[code]])
			}
		} else {
			encMode = 3
		}
	}
	if encMode == 2 {
		// glyph names of the expert set, so that the predefined Expert encoding can apply
		var sids []int
		for _, sid := range cffmini.ExpertEncodingSID {
			if sid != 0 {
				sids = append(sids, sid)
			}
		}
		r.Shuffle(len(sids), func(i, j int) { sids[i], sids[j] = sids[j], sids[i] })
		if n-1 <= len(sids) {
			names = names[:1]
			for _, sid := range sids[:n-1] {
				names = append(names, cffmini.StdStrings[sid])
			}
		}
	}
	f := &cff.Font{FontInfo: c13info(r, k, false), Outlines: &cff.Outlines{}}
	f.Glyphs = c13glyphs(r, names, n, k, light)
	f.Private = []*type1.PrivateDict{c13private(r)}
	f.FDSelect = func(glyph.ID) int { return 0 }
	desc := "simple"
	switch encMode {
	case 0:
		f.Encoding = nil
		desc += ",enc=nil"
	case 1:
		f.Encoding = cff.StandardEncoding(f.Glyphs)
		desc += ",enc=standard"
	case 2:
		// expert encoding according to the harness's table
		enc := make([]glyph.ID, 256)
		byName := map[string]int{}
		for gid, nm := range names {
			byName[nm] = gid
		}
		for code, sid := range cffmini.ExpertEncodingSID {
			if sid != 0 {
				if gid, ok := byName[cffmini.StdStrings[sid]]; ok {
					enc[code] = glyph.ID(gid)
				}
			}
		}
		f.Encoding = enc
		desc += ",enc=expert-table"
	case 6:
		enc := make([]glyph.ID, 256)
		m := r.IntN(len(partialStd)) // 0 .. n-2 encoded glyphs: always a strict subset
		for i := 0; i < m; i++ {
			enc[partialStd[i]] = glyph.ID(i + 1)
		}
		f.Encoding = enc
		desc += fmt.Sprintf(",enc=partial-standard(%d of %d)", m, len(partialStd))
		k.Class("gen:encoding-partial-standard")
	default:
		f.Encoding = c13encoding(r, n, k)
		desc += ",enc=custom"
	}
	return &c13spec{font: f, fdsel: make([]int, n), desc: desc}
}

func c13cid(r *rand.Rand, k *mon.Case, n int, light bool) *c13spec {
	f := &cff.Font{FontInfo: c13info(r, k, true), Outlines: &cff.Outlines{}}
	f.Glyphs = c13glyphs(r, nil, n, k, light)
	f.ROS = &cid.SystemInfo{Registry: "Adobe", Ordering: "Identity", Supplement: 0}
	switch r.IntN(4) {
	case 0:
		f.ROS = &cid.SystemInfo{Registry: "Adobe", Ordering: "Japan1", Supplement: int32(r.IntN(8))}
	case 1:
		f.ROS = &cid.SystemInfo{Registry: c13string(r, k), Ordering: c13string(r, k), Supplement: c13int(r)}
	case 2:
		f.ROS.Supplement = c13int(r)
	}
	// GID -> CID
	f.GIDToCID = make([]cid.CID, n)
	switch r.IntN(5) {
	case 4: // a run that ends at the largest CID there is, ascending runs below it
		l := min(n-1, []int{1, 2, 3, 2 + r.IntN(20), 257 + r.IntN(100)}[r.IntN(5)])
		next := 1
		for i := 1; i < n-l; i++ {
			if r.IntN(3) == 0 {
				next += 1 + r.IntN(40)
			}
			f.GIDToCID[i] = cid.CID(next)
			next++
		}
		for j := 0; j < l; j++ {
			f.GIDToCID[n-l+j] = cid.CID(65535 - l + 1 + j)
		}
		if next > 65535-l {
			for i := range f.GIDToCID {
				f.GIDToCID[i] = cid.CID(i)
			}
		} else if l >= 2 {
			k.Class("gen:cid-run-ends-at-65535")
		}
	case 0: // identity
		for i := range f.GIDToCID {
			f.GIDToCID[i] = cid.CID(i)
		}
	case 1: // runs
		next := 1
		for i := 1; i < n; {
			next += r.IntN(50)
			l := 1 + r.IntN(300)
			for j := 0; j < l && i < n; j++ {
				f.GIDToCID[i] = cid.CID(next)
				next++
				i++
			}
		}
		if next > 65535 {
			for i := range f.GIDToCID {
				f.GIDToCID[i] = cid.CID(i)
			}
		}
	default: // scattered, distinct
		if n-1 <= 30000 {
			used := map[int]bool{0: true}
			for i := 1; i < n; i++ {
				for {
					c := 1 + r.IntN(65535)
					if !used[c] {
						used[c] = true
						f.GIDToCID[i] = cid.CID(c)
						break
					}
				}
			}
		} else {
			p := r.Perm(65535)
			for i := 1; i < n; i++ {
				f.GIDToCID[i] = cid.CID(p[i-1] + 1)
			}
		}
	}
	// private dictionaries
	nfd := 1 + r.IntN(4)
	switch r.IntN(8) {
	case 0:
		nfd = 1
	case 1:
		nfd = 256
	case 2:
		nfd = 2 + r.IntN(254)
	}
	for i := 0; i < nfd; i++ {
		f.Private = append(f.Private, c13private(r))
		f.FontMatrices = append(f.FontMatrices, c13matrix(r, matrix.Matrix{0.001, 0, 0, 0.001, 0, 0}))
	}
	sel := make([]int, n)
	mode := r.IntN(5)
	switch mode {
	case 0: // constant
		fd := r.IntN(nfd)
		for i := range sel {
			sel[i] = fd
		}
	case 1: // few long runs
		fd := r.IntN(nfd)
		for i := range sel {
			if r.IntN(max(2, n/3)) == 0 {
				fd = r.IntN(nfd)
			}
			sel[i] = fd
		}
	case 2: // every glyph differs from its neighbour where possible
		for i := range sel {
			sel[i] = r.IntN(nfd)
		}
	default: // around the break-even: format 3 needs 3 bytes per run + 5, format 0 n + 1
		runs := max(1, (n-4)/3+r.IntN(5)-2)
		runs = min(runs, n)
		// cut n glyphs into `runs` runs
		cuts := map[int]bool{}
		for len(cuts) < runs-1 {
			cuts[1+r.IntN(max(1, n-1))] = true
			if n-1 < runs-1 {
				break
			}
		}
		fd := r.IntN(nfd)
		for i := range sel {
			if cuts[i] && nfd > 1 {
				nf := r.IntN(nfd - 1)
				if nf >= fd {
					nf++
				}
				fd = nf
			}
			sel[i] = fd
		}
	}
	if r.IntN(4) == 0 {
		// the first glyphs use the last private dictionary (index 255 of 256
		// is the largest value an FDSelect entry can hold), the last glyph the
		// first one
		for i := 0; i < min(n, 1+r.IntN(3)); i++ {
			sel[i] = nfd - 1
		}
		sel[n-1] = 0
		k.Class(fmt.Sprintf("cid:first-glyphs-use-last-fd:%s", map[bool]string{true: "256-dicts", false: "fewer"}[nfd == 256]))
	}
	f.FDSelect = func(g glyph.ID) int { return sel[g] }
	return &c13spec{font: f, fdsel: sel, desc: fmt.Sprintf("cid,fds=%d,fdselmode=%d", nfd, mode)}
}

func c13blues(ops []cffmini.Operand) ([]int, bool) {
	out := make([]int, len(ops))
	acc := 0
	for i, o := range ops {
		if !o.IsInt() {
			return nil, false
		}
		acc += int(o.Int)
		out[i] = acc
	}
	return out, true
}

// c13checkPrivate compares the Private DICT decoded by cffmini with the source.
func c13checkPrivate(k *mon.Case, sp *c13spec, d *cffmini.Dict, p *type1.PrivateDict, where string) {
	chkBlues := func(op int, name string, want []funit.Int16) {
		ops, has := d.Get(op)
		if !has {
			if len(want) != 0 {
				k.Fail("mismatch", "bytes:private:"+name, "%s: %s missing from the Private DICT, source has %v", where, name, want)
			}
			return
		}
		got, ok := c13blues(ops)
		if !ok || len(got) != len(want) {
			k.Fail("mismatch", "bytes:private:"+name, "%s: %s decodes to %v, source %v", where, name, got, want)
			return
		}
		for i := range got {
			if got[i] != int(want[i]) {
				k.Fail("mismatch", "bytes:private:"+name, "%s: %s decodes to %v, source %v", where, name, got, want)
				return
			}
		}
	}
	chkBlues(cffmini.OpBlueValues, "BlueValues", p.BlueValues)
	chkBlues(cffmini.OpOtherBlues, "OtherBlues", p.OtherBlues)
	num := func(op int, name string, def, want float64, exact bool) {
		got := d.Num(op, def)
		if (exact && got != want) || (!exact && !sp.bytesClose(k, got, want)) {
			k.Fail("mismatch", "bytes:private:"+name, "%s: %s decodes to %v, source %v", where, name, got, want)
		}
	}
	num(cffmini.OpBlueScale, "BlueScale", 0.039625, p.BlueScale, false)
	num(cffmini.OpBlueShift, "BlueShift", 7, float64(p.BlueShift), true)
	num(cffmini.OpBlueFuzz, "BlueFuzz", 1, float64(p.BlueFuzz), true)
	num(cffmini.OpStdHW, "StdHW", 0, p.StdHW, false)
	num(cffmini.OpStdVW, "StdVW", 0, p.StdVW, false)
	fb := 0.0
	if p.ForceBold {
		fb = 1
	}
	num(cffmini.OpForceBold, "ForceBold", 0, fb, true)
}

func c13matrixOf(d *cffmini.Dict, def matrix.Matrix) (matrix.Matrix, bool) {
	ops, has := d.Get(cffmini.OpFontMatrix)
	if !has {
		return def, true
	}
	if len(ops) != 6 {
		return def, false
	}
	var m matrix.Matrix
	for i := range m {
		m[i] = ops[i].Real
	}
	return m, true
}

// c13dictClasses records number forms seen in a DICT.
func c13dictClasses(k *mon.Case, d *cffmini.Dict) {
	if d == nil {
		return
	}
	for _, e := range d.Entries {
		for _, o := range e.Operands {
			switch o.Form {
			case cffmini.FormInt1:
				k.Class("int-form:1-byte")
			case cffmini.FormInt2:
				if o.Int > 0 {
					k.Class("int-form:2-byte-positive")
				} else {
					k.Class("int-form:2-byte-negative")
				}
			case cffmini.FormInt3:
				k.Class("int-form:3-byte")
			case cffmini.FormInt5:
				k.Class("int-form:5-byte")
			case cffmini.FormReal:
				t := o.Text
				switch {
				case strings.Contains(t, "E-"):
					k.Class("real-form:negative-exponent")
				case strings.Contains(t, "E"):
					k.Class("real-form:positive-exponent")
				case strings.HasPrefix(strings.TrimPrefix(t, "-"), "."):
					k.Class("real-form:leading-point")
				case strings.Contains(t, "."):
					k.Class("real-form:with-point")
				default:
					k.Class("real-form:integer-digits")
				}
				if strings.HasPrefix(t, "-") {
					k.Class("real-form:negative")
				}
			}
		}
	}
}

func c13stdEncoding(names []string) []glyph.ID {
	enc := make([]glyph.ID, 256)
	byName := map[string]int{}
	for gid, nm := range names {
		byName[nm] = gid
	}
	for code, sid := range cffmini.StandardEncodingSID {
		if sid != 0 {
			if gid, ok := byName[cffmini.StdStrings[sid]]; ok {
				enc[code] = glyph.ID(gid)
			}
		}
	}
	return enc
}

// c13check writes the font, walks the bytes and reads them back.
func c13check(k *mon.Case, sp *c13spec) {
	f := sp.font
	n := len(f.Glyphs)
	isCID := f.ROS != nil
	buf := &bytes.Buffer{}
	var err error
	if k.Guard("cff.Font.Write", func() { err = f.Write(buf) }) {
		return
	}
	k.Eval()
	where := fmt.Sprintf("font{%s, %d glyphs}", sp.desc, n)
	if err != nil {
		k.Fail("mismatch", "write-error", "(*cff.Font).Write failed on a valid font: %v (%s)", err, where)
		return
	}
	data := buf.Bytes()
	if len(data) < 4<<20 {
		k.Input(data)
	}
	k.DistinctBytes(data)

	// ---- (b) structural walk by the independent reader ----
	mf, perr := cffmini.Parse(data)
	for _, p := range mf.Problems {
		k.Fail("mismatch", "structure:"+p.Rule, "%s (%s)", p, where)
	}
	if perr != nil {
		return
	}
	k.Eval()
	over, gaps := mf.Tiling()
	for _, o := range over {
		k.Fail("mismatch", "structure:overlap", "%s (%s)", o, where)
	}
	for _, g := range gaps {
		k.Fail("mismatch", "structure:gap", "%s (%s)", g, where)
	}
	if mf.HdrSize != 4 || mf.Major != 1 {
		k.Fail("mismatch", "structure:header", "header %d.%d hdrSize %d", mf.Major, mf.Minor, mf.HdrSize)
	}
	idx := map[string]*cffmini.Index{"name": mf.Names, "topdict": mf.TopDicts, "string": mf.Strings, "gsubr": mf.GSubrs, "charstrings": mf.CharStrings, "fdarray": mf.FDArray}
	for name, ix := range idx {
		if ix != nil && ix.Count > 0 {
			k.Class(fmt.Sprintf("index-offsize:%d", ix.OffSize))
			k.Class(fmt.Sprintf("index-offsize:%s:%d", name, ix.OffSize))
			if ix.OffSize != ix.MinOffSize {
				k.Class("index-offsize:not-minimal")
			}
			last := int(ix.Offsets[ix.Count])
			switch last {
			case 255, 256, 257, 65535, 65536, 65537:
				k.Class(fmt.Sprintf("index-last-offset:%d", last))
			}
		}
	}
	k.Class(fmt.Sprintf("header-offsize:%d", mf.OffSize))
	if mf.NGlyphs != n {
		k.Fail("mismatch", "bytes:glyph-count", "CharStrings INDEX has %d entries, font has %d glyphs", mf.NGlyphs, n)
		return
	}
	if mf.IsCID != isCID {
		k.Fail("mismatch", "bytes:ros", "ROS present %v, font CID-keyed %v", mf.IsCID, isCID)
		return
	}
	if string(mf.Names.Data[0]) != f.FontName {
		k.Fail("mismatch", "bytes:fontname", "Name INDEX has %q, FontName %q", mf.Names.Data[0], f.FontName)
	}
	c13dictClasses(k, mf.Top)
	// Top DICT strings and numbers
	for _, s := range []struct {
		op   int
		name string
		want string
	}{{cffmini.OpVersion, "version", f.Version}, {cffmini.OpNotice, "Notice", f.Notice}, {cffmini.OpCopyright, "Copyright", f.Copyright},
		{cffmini.OpFullName, "FullName", f.FullName}, {cffmini.OpFamilyName, "FamilyName", f.FamilyName}, {cffmini.OpWeight, "Weight", f.Weight}} {
		got, has := mf.TopString(s.op)
		if (!has && s.want != "") || (has && got != s.want) {
			k.Fail("mismatch", "bytes:top:"+s.name, "Top DICT %s: %q (present %v), source %q", s.name, got, has, s.want)
		}
	}
	fp := 0.0
	if f.IsFixedPitch {
		fp = 1
	}
	for _, s := range []struct {
		op   int
		name string
		def  float64
		want float64
	}{{cffmini.OpIsFixedPitch, "isFixedPitch", 0, fp}, {cffmini.OpItalicAngle, "ItalicAngle", 0, f.ItalicAngle},
		{cffmini.OpUnderlinePosition, "UnderlinePosition", -100, float64(f.UnderlinePosition)},
		{cffmini.OpUnderlineThickness, "UnderlineThickness", 50, float64(f.UnderlineThickness)}} {
		if got := mf.Top.Num(s.op, s.def); !sp.bytesClose(k, got, s.want) || c13intLost(got, s.want) {
			k.Fail("mismatch", "bytes:top:"+s.name, "Top DICT %s decodes to %v, source %v", s.name, got, s.want)
		}
	}
	topDef := matrix.Matrix{0.001, 0, 0, 0.001, 0, 0}
	if isCID {
		topDef = matrix.Identity
	}
	if m, ok := c13matrixOf(mf.Top, topDef); !ok || !sp.bytesMatrixClose(k, m, f.FontInfo.FontMatrix) {
		k.Fail("mismatch", "bytes:top:FontMatrix", "Top DICT FontMatrix decodes to %v, source %v", m, f.FontInfo.FontMatrix)
	}
	// charset
	k.Class(fmt.Sprintf("charset-format:%d", mf.CharsetFormat))
	if mf.CharsetFormat == 1 && mf.CharsetRanges > 0 {
		// a run longer than 256 must have been split
		k.Class("charset-format-1")
	}
	if len(mf.Charset) != n {
		k.Fail("mismatch", "bytes:charset-length", "charset covers %d glyphs of %d", len(mf.Charset), n)
		return
	}
	for gid := 0; gid < n; gid++ {
		if isCID {
			if mf.Charset[gid] != int(f.GIDToCID[gid]) {
				k.Fail("mismatch", "bytes:charset-cid", "charset gives CID %d for glyph %d, source %d", mf.Charset[gid], gid, f.GIDToCID[gid])
				break
			}
		} else {
			nm, ok := mf.GlyphName(gid)
			if !ok || nm != f.Glyphs[gid].Name {
				k.Fail("mismatch", "bytes:charset-name", "charset gives %q (ok %v) for glyph %d, source %q", nm, ok, gid, f.Glyphs[gid].Name)
				break
			}
		}
	}
	// encoding
	var wantEnc []glyph.ID
	if !isCID {
		names := make([]string, n)
		for i, g := range f.Glyphs {
			names[i] = g.Name
		}
		wantEnc = f.Encoding
		if len(wantEnc) == 0 {
			wantEnc = c13stdEncoding(names)
		}
		switch {
		case mf.EncodingOffset == 0:
			k.Class("encoding:predefined-standard")
		case mf.EncodingOffset == 1:
			k.Class("encoding:predefined-expert")
		default:
			k.Class(fmt.Sprintf("encoding:format-%d", mf.EncodingFormat))
			if mf.EncodingSuppl {
				k.Class(fmt.Sprintf("encoding:format-%d+supplement", mf.EncodingFormat))
			}
			if mf.EncodingFormat == 1 {
				switch {
				case mf.EncodingNRanges == 1:
					k.Class("encoding:ranges=1")
				case mf.EncodingNRanges >= 100:
					k.Class("encoding:ranges>=100")
				}
			}
		}
		for code := 0; code < 256; code++ {
			if mf.Code2GID[code] != int(wantEnc[code]) {
				k.Fail("mismatch", "bytes:encoding", "encoding in the bytes maps code %d to glyph %d, source %d (%s; Encoding operand %d, format %d)", code, mf.Code2GID[code], wantEnc[code], where, mf.EncodingOffset, mf.EncodingFormat)
				break
			}
		}
	}
	// FDSelect, FDArray, Private
	if isCID {
		k.Class(fmt.Sprintf("fdselect-format:%d", mf.FDSelectFormat))
		if len(mf.FDs) != len(f.Private) {
			k.Fail("mismatch", "bytes:fdarray-count", "FDArray has %d entries, font has %d private dictionaries", len(mf.FDs), len(f.Private))
			return
		}
		for gid := 0; gid < n; gid++ {
			if mf.FDSelect[gid] != sp.fdsel[gid] {
				k.Fail("mismatch", "bytes:fdselect", "FDSelect in the bytes gives %d for glyph %d, source %d (format %d)", mf.FDSelect[gid], gid, sp.fdsel[gid], mf.FDSelectFormat)
				break
			}
		}
		if v, ok := mf.Top.Get(cffmini.OpROS); ok && len(v) == 3 {
			reg, _ := mf.String(int(v[0].Int))
			ord, _ := mf.String(int(v[1].Int))
			if reg != f.ROS.Registry || ord != f.ROS.Ordering || !v[2].IsInt() || v[2].Int != int64(f.ROS.Supplement) {
				k.Fail("mismatch", "bytes:ros", "ROS decodes to (%q, %q, %v), source %v", reg, ord, v[2].Real, f.ROS)
			}
		}
		k.Class(fmt.Sprintf("fds:%s", map[bool]string{true: "256", false: "<256"}[len(f.Private) == 256]))
	}
	for i, fd := range mf.FDs {
		c13dictClasses(k, fd.Private)
		c13dictClasses(k, fd.FontDict)
		c13checkPrivate(k, sp, fd.Private, f.Private[i], fmt.Sprintf("%s private[%d]", where, i))
		if isCID {
			if m, ok := c13matrixOf(fd.FontDict, matrix.Matrix{0.001, 0, 0, 0.001, 0, 0}); !ok || !sp.bytesMatrixClose(k, m, f.FontMatrices[i]) {
				k.Fail("mismatch", "bytes:fd:FontMatrix", "Font DICT %d FontMatrix decodes to %v, source %v", i, m, f.FontMatrices[i])
			}
		}
		if fd.Subrs != nil && fd.SubrsOffset < fd.PrivSize {
			k.Fail("mismatch", "structure:subrs-inside-private", "Subrs offset %d lies inside the Private DICT of %d bytes", fd.SubrsOffset, fd.PrivSize)
		}
		if fd.DefaultWidthX != math.Trunc(fd.DefaultWidthX) {
			k.Class("width:fractional-default")
		}
		if fd.NominalWidthX != math.Trunc(fd.NominalWidthX) {
			k.Class("width:fractional-nominal")
		}
	}
	// widths through the independent interpreter
	for gid := 0; gid < n; gid++ {
		if n > 3000 && gid%17 != 0 {
			continue
		}
		fd := mf.FDs[mf.FDSelect[gid]]
		res := t2interp.Run(mf.CharStrings.Data[gid], &t2interp.Env{GSubrs: mf.GSubrs.Data, Subrs: fd.LocalSubrs(), DefaultWidthX: fd.DefaultWidthX, NominalWidthX: fd.NominalWidthX})
		if res.Fatal || !res.Ended {
			k.Fail("mismatch", "bytes:charstring", "charstring %d cannot be interpreted: %v", gid, res.Violations)
			break
		}
		if !(math.Abs(res.Width-f.Glyphs[gid].Width) <= cffTol16) {
			k.Fail("mismatch", "bytes:width", "glyph %d: width %v in the bytes (default %v, nominal %v, explicit %v), source %v (%s)", gid, res.Width, fd.DefaultWidthX, fd.NominalWidthX, res.HasWidth, f.Glyphs[gid].Width, where)
			break
		}
	}

	// ---- (a) read back with the library ----
	back, rerr, panicked := cffReadGuard(k, data)
	if panicked {
		return
	}
	k.Eval()
	if rerr != nil {
		k.Fail("mismatch", "read-rejects-own-output", "cff.Read: %v (%s)", rerr, where)
		return
	}
	bi, fi := back.FontInfo, f.FontInfo
	for _, s := range []struct{ name, got, want string }{{"FontName", bi.FontName, fi.FontName}, {"Version", bi.Version, fi.Version}, {"Notice", bi.Notice, fi.Notice},
		{"Copyright", bi.Copyright, fi.Copyright}, {"FullName", bi.FullName, fi.FullName}, {"FamilyName", bi.FamilyName, fi.FamilyName}, {"Weight", bi.Weight, fi.Weight}} {
		if s.got != s.want {
			k.Fail("mismatch", "roundtrip:fontinfo:"+s.name, "%s: %q came back as %q", s.name, s.want, s.got)
		}
	}
	if bi.IsFixedPitch != fi.IsFixedPitch {
		k.Fail("mismatch", "roundtrip:fontinfo:IsFixedPitch", "IsFixedPitch %v came back as %v", fi.IsFixedPitch, bi.IsFixedPitch)
	}
	for _, s := range []struct {
		name      string
		got, want float64
	}{{"ItalicAngle", bi.ItalicAngle, fi.ItalicAngle}, {"UnderlinePosition", float64(bi.UnderlinePosition), float64(fi.UnderlinePosition)},
		{"UnderlineThickness", float64(bi.UnderlineThickness), float64(fi.UnderlineThickness)}} {
		// the reader normalises the angle through (x+180) mod 360 - 180, which costs an absolute 3e-14
		if (!sp.rtClose(k, s.got, s.want) || s.name != "ItalicAngle" && c13intLost(s.got, s.want)) && !(s.name == "ItalicAngle" && math.Abs(s.got-s.want) <= 1e-12) {
			k.Fail("mismatch", "roundtrip:fontinfo:"+s.name, "%s: %v came back as %v", s.name, s.want, s.got)
		}
	}
	if !sp.rtMatrixClose(k, bi.FontMatrix, fi.FontMatrix) {
		k.Fail("mismatch", "roundtrip:fontinfo:FontMatrix", "FontMatrix %v came back as %v (%s)", fi.FontMatrix, bi.FontMatrix, where)
	}
	if len(back.Glyphs) != n {
		k.Fail("mismatch", "roundtrip:glyph-count", "%d glyphs came back, wrote %d", len(back.Glyphs), n)
		return
	}
	for gid := 0; gid < n; gid++ {
		a, b := f.Glyphs[gid], back.Glyphs[gid]
		if a.Name != b.Name {
			k.Fail("mismatch", "roundtrip:glyph-name", "glyph %d: name %q came back as %q", gid, a.Name, b.Name)
			break
		}
		if !(math.Abs(a.Width-b.Width) <= cffTol16) {
			k.Fail("mismatch", "roundtrip:width", "glyph %d: width %v came back as %v (%s)", gid, a.Width, b.Width, where)
			break
		}
		if d := cffCompareLibGlyphs(a, b, cffTol16); d != "" {
			k.Fail("mismatch", "roundtrip:outline", "glyph %d: %s", gid, d)
			break
		}
	}
	if (back.ROS != nil) != isCID {
		k.Fail("mismatch", "roundtrip:ros", "ROS %v came back as %v", f.ROS, back.ROS)
		return
	}
	if len(back.Private) != len(f.Private) {
		k.Fail("mismatch", "roundtrip:private-count", "%d private dictionaries came back, wrote %d", len(back.Private), len(f.Private))
		return
	}
	for i := range f.Private {
		a, b := f.Private[i], back.Private[i]
		eqBlues := func(x, y []funit.Int16) bool {
			if len(x) != len(y) {
				return false
			}
			for i := range x {
				if x[i] != y[i] {
					return false
				}
			}
			return true
		}
		switch {
		case !eqBlues(a.BlueValues, b.BlueValues):
			k.Fail("mismatch", "roundtrip:private:BlueValues", "private[%d].BlueValues %v came back as %v", i, a.BlueValues, b.BlueValues)
		case !eqBlues(a.OtherBlues, b.OtherBlues):
			k.Fail("mismatch", "roundtrip:private:OtherBlues", "private[%d].OtherBlues %v came back as %v", i, a.OtherBlues, b.OtherBlues)
		case !sp.rtClose(k, b.BlueScale, a.BlueScale):
			k.Fail("mismatch", "roundtrip:private:BlueScale", "private[%d].BlueScale %v came back as %v", i, a.BlueScale, b.BlueScale)
		case a.BlueShift != b.BlueShift:
			k.Fail("mismatch", "roundtrip:private:BlueShift", "private[%d].BlueShift %v came back as %v", i, a.BlueShift, b.BlueShift)
		case a.BlueFuzz != b.BlueFuzz:
			k.Fail("mismatch", "roundtrip:private:BlueFuzz", "private[%d].BlueFuzz %v came back as %v", i, a.BlueFuzz, b.BlueFuzz)
		case !sp.rtClose(k, b.StdHW, a.StdHW):
			k.Fail("mismatch", "roundtrip:private:StdHW", "private[%d].StdHW %v came back as %v", i, a.StdHW, b.StdHW)
		case !sp.rtClose(k, b.StdVW, a.StdVW):
			k.Fail("mismatch", "roundtrip:private:StdVW", "private[%d].StdVW %v came back as %v", i, a.StdVW, b.StdVW)
		case a.ForceBold != b.ForceBold:
			k.Fail("mismatch", "roundtrip:private:ForceBold", "private[%d].ForceBold %v came back as %v", i, a.ForceBold, b.ForceBold)
		}
	}
	if back.FDSelect == nil {
		k.Fail("mismatch", "roundtrip:fdselect-nil", "FDSelect is nil after Read")
		return
	}
	for gid := 0; gid < n; gid++ {
		var got int
		if k.Guard("FDSelect", func() { got = back.FDSelect(glyph.ID(gid)) }) {
			return
		}
		if got != sp.fdsel[gid] {
			k.Fail("mismatch", "roundtrip:fdselect", "FDSelect(%d) = %d after the round trip, source %d (%s, format %d)", gid, got, sp.fdsel[gid], where, mf.FDSelectFormat)
			break
		}
	}
	if isCID {
		if *back.ROS != *f.ROS {
			k.Fail("mismatch", "roundtrip:ros", "ROS %v came back as %v", *f.ROS, *back.ROS)
		}
		if len(back.GIDToCID) != n {
			k.Fail("mismatch", "roundtrip:gidtocid-length", "GIDToCID has %d entries, want %d", len(back.GIDToCID), n)
		} else {
			for gid := range f.GIDToCID {
				if back.GIDToCID[gid] != f.GIDToCID[gid] {
					k.Fail("mismatch", "roundtrip:gidtocid", "GIDToCID[%d] = %d, source %d (charset format %d)", gid, back.GIDToCID[gid], f.GIDToCID[gid], mf.CharsetFormat)
					break
				}
			}
		}
		if len(back.FontMatrices) != len(f.FontMatrices) {
			k.Fail("mismatch", "roundtrip:fontmatrices-count", "%d font matrices came back, wrote %d", len(back.FontMatrices), len(f.FontMatrices))
		} else {
			for i := range f.FontMatrices {
				if !sp.rtMatrixClose(k, back.FontMatrices[i], f.FontMatrices[i]) {
					k.Fail("mismatch", "roundtrip:fd-fontmatrix", "FontMatrices[%d] %v came back as %v", i, f.FontMatrices[i], back.FontMatrices[i])
					break
				}
			}
		}
		if back.Encoding != nil {
			k.Fail("mismatch", "roundtrip:cid-encoding", "CID-keyed font came back with an encoding")
		}
	} else {
		if len(back.Encoding) != 256 {
			k.Fail("mismatch", "roundtrip:encoding-length", "Encoding has %d entries after Read", len(back.Encoding))
		} else {
			for code := range wantEnc {
				if back.Encoding[code] != wantEnc[code] {
					k.Fail("mismatch", "roundtrip:encoding", "Encoding[%d] = %d after the round trip, source %d (%s; Encoding operand %d, format %d, supplement %v)", code, back.Encoding[code], wantEnc[code], where, mf.EncodingOffset, mf.EncodingFormat, mf.EncodingSuppl)
					break
				}
			}
		}
		if back.GIDToCID != nil || back.FontMatrices != nil {
			k.Fail("mismatch", "roundtrip:simple-has-cid-fields", "simple font came back with GIDToCID/FontMatrices")
		}
	}
	if isCID {
		k.Class("font:cid")
	} else {
		k.Class("font:simple")
	}
	if k.Index < 2 {
		k.Sample(fmt.Sprintf("%s: %d bytes", where, len(data)))
	}
}

func runC13(c *mon.Ctx) {
	c.Stratum("fonts", c.N(6000, 150000), func(k *mon.Case) {
		r := k.Rng
		n := 1 + r.IntN(40)
		switch r.IntN(12) {
		case 0:
			n = 1
		case 1:
			n = 2
		case 2:
			n = 200 + r.IntN(200)
		case 3:
			n = 255 + r.IntN(4)
		case 4:
			n = 600 + r.IntN(1500)
		}
		light := n > 300
		var sp *c13spec
		if r.IntN(5) < 2 {
			sp = c13cid(r, k, n, light)
		} else {
			sp = c13simple(r, k, n, light)
		}
		c13check(k, sp)
	})

	// section offsets at the operand-size boundaries: the writer re-encodes
	// the dictionaries until the offsets they contain stop moving (an offset
	// that grows from 1 to 2 or from 2 to 3 bytes moves everything behind
	// it); sweeping the length of one string byte by byte moves the offsets
	// of charset, CharStrings and Private DICT across 107/108, 1131/1132 and
	// 32767/32768
	c.Stratum("offset-sweep", c.N(1500, 30000), func(k *mon.Case) {
		r := k.Rng
		n := []int{1, 2, 4, 7, 12}[k.Index%5]
		var sp *c13spec
		if k.Index/5%4 == 0 {
			sp = c13cid(r, k, n, true)
		} else {
			sp = c13simple(r, k, n, true)
		}
		// the notice is the one string whose length is swept
		base := []int{0, 820, 31800}[k.Index/20%3]
		if base == 31800 && !k.C.Thorough() && k.Index/60%4 != 0 {
			base = 820
		}
		l := base + (k.Index/60)%420
		sp.font.FontInfo.Notice = strings.Repeat("n", l)
		sp.desc += fmt.Sprintf(" notice=%d bytes", l)
		c13check(k, sp)
		k.Class(fmt.Sprintf("offset-sweep:base=%d", base))
	})

	// dictionary reals over the whole float64 range
	c.Stratum("wide-reals", c.N(800, 20000), func(k *mon.Case) {
		r := k.Rng
		n := 1 + r.IntN(6)
		var sp *c13spec
		if r.IntN(3) == 0 {
			sp = c13cid(r, k, n, true)
		} else {
			sp = c13simple(r, k, n, true)
		}
		c13widen(r, k, sp)
		c13check(k, sp)
	})

	// subnormal reals: there is no nine-digit precision to preserve, but the
	// writer must terminate and the number in the bytes must be the source
	// value as far as a subnormal can be told from its neighbours
	c.Stratum("subnormal-reals", 8, func(k *mon.Case) {
		r := k.Rng
		x := []float64{2e-308, 1.23456789e-310, 1e-312, 1e-315, 3e-316, 1e-320, 5e-324, 1.5e-322}[k.Index%8]
		field := k.Index / 2 % 3
		f := &cff.Font{FontInfo: &type1.FontInfo{FontName: "S", FontMatrix: matrix.Matrix{0.001, 0, 0, 0.001, 0, 0}, UnderlinePosition: -100, UnderlineThickness: 50}, Outlines: &cff.Outlines{}}
		f.Glyphs = c13glyphs(r, []string{".notdef", "A", "B"}, 3, k, true)
		f.Private = []*type1.PrivateDict{{BlueScale: 0.039625, BlueShift: 7, BlueFuzz: 1}}
		f.FDSelect = func(glyph.ID) int { return 0 }
		var name string
		switch field {
		case 0:
			f.Private[0].BlueScale, name = x, "Private.BlueScale"
		case 1:
			f.UnderlinePosition, name = funit.Float64(-x), "UnderlinePosition"
			x = -x
		default:
			f.FontMatrix[1], name = x, "FontMatrix[1]"
		}
		k.Step(fmt.Sprintf("%s = %g", name, x))
		k.Distinct(name, x)
		// a writer that does not come back is the driver's business: the step
		// is journaled, the worker's watchdog stops it at the hard per-case
		// bound and the driver reports the case as a hang (no clock in here)
		type result struct {
			data  []byte
			err   error
			pv    any
			stack string
		}
		var res result
		{
			buf := &bytes.Buffer{}
			res.pv, res.stack = mon.Try(func() { res.err = f.Write(buf) })
			res.data = buf.Bytes()
		}
		k.Eval()
		if res.pv != nil {
			k.Fail("panic", "write:subnormal-real:panic:"+mon.PanicClass(res.pv), "(*cff.Font).Write panics for %s = %g: %v\n%s", name, x, res.pv, res.stack)
			return
		}
		if res.err != nil {
			k.Class("subnormal-real:write-refuses") // loud: acceptable
			return
		}
		k.Input(res.data)
		mf, perr := cffmini.Parse(res.data)
		if perr != nil {
			k.Fail("mismatch", "structure:subnormal-real", "independent reader: %v (%s = %g)", perr, name, x)
			return
		}
		var got float64
		switch field {
		case 0:
			got = mf.FDs[0].Private.Num(cffmini.OpBlueScale, 0.039625)
		case 1:
			got = mf.Top.Num(cffmini.OpUnderlinePosition, -100)
		default:
			m, _ := c13matrixOf(mf.Top, matrix.Matrix{0.001, 0, 0, 0.001, 0, 0})
			got = m[1]
		}
		// a subnormal carries 52 - (1022 + exponent) bits; nine digits where it has them, a few units of the last place otherwise
		if math.Abs(got-x) > 5e-9*math.Abs(x)+4*5e-324 && got != 0 {
			k.Fail("mismatch", "bytes:subnormal-real:wrong-value", "%s = %g is stored as %g in the bytes (neither the value nor zero)", name, x, got)
			return
		}
		if got == 0 {
			k.Class("subnormal-real:written-as-zero")
		} else {
			k.Class("subnormal-real:written-faithfully")
		}
		if _, _, panicked := cffReadGuard(k, res.data); panicked {
			return
		}
	})

	// INDEX offSize boundaries: one custom string / the font name carry exact volumes
	c.Stratum("volumes", c.N(120, 1200), func(k *mon.Case) {
		r := k.Rng
		sel := k.Index % 12
		n := 3
		names := []string{".notdef", "A", "B"}
		f := &cff.Font{FontInfo: &type1.FontInfo{FontName: "V", FontMatrix: matrix.Matrix{0.001, 0, 0, 0.001, 0, 0}, UnderlinePosition: -100, UnderlineThickness: 50}, Outlines: &cff.Outlines{}}
		f.Glyphs = c13glyphs(r, names, n, k, true)
		f.Private = []*type1.PrivateDict{{BlueScale: 0.039625, BlueShift: 7, BlueFuzz: 1}}
		f.FDSelect = func(glyph.ID) int { return 0 }
		switch sel {
		case 0, 1, 2, 3: // Name INDEX data of 253..256 bytes: last offset 254..257
			f.FontName = strings.Repeat("n", 253+sel)
		case 4, 5, 6, 7: // String INDEX with one string of 254..257 bytes
			f.Notice = strings.Repeat("s", 253+sel-4)
		case 8, 9, 10: // String INDEX with one string of 65534..65536 bytes
			f.Notice = strings.Repeat("S", 65534+sel-8)
		default: // more than 16 MiB: offSize 4 (thorough only)
			if !c.Thorough() || k.Index%120 != 11 {
				f.Copyright = strings.Repeat("C", 70000+r.IntN(1000))
			} else {
				f.Copyright = strings.Repeat("C", (16<<20)+r.IntN(1000))
				k.Class("volume:>16MiB")
			}
		}
		c13check(k, &c13spec{font: f, fdsel: make([]int, n), desc: fmt.Sprintf("volume-case-%d", sel)})
	})

	// predefined charsets are never chosen by the writer; the reader's side of that format choice is
	// observed on fonts written by the independent writer
	c.Stratum("predefined-charsets", c.N(60, 600), func(k *mon.Case) {
		r := k.Rng
		which := 1 + k.Index%3
		table := [][]int{nil, cffmini.ISOAdobeCharset, cffmini.ExpertCharset, cffmini.ExpertSubsetCharset}[which]
		n := 1 + r.IntN(len(table))
		if k.Index%4 == 0 {
			n = len(table)
		}
		w := &cffmini.WFont{FontName: "Predef", PredefCharset: which, OmitCharsetOp: r.IntN(2) == 0, FDs: []cffmini.WFD{{}}}
		for i := 0; i < n; i++ {
			w.CharStrings = append(w.CharStrings, []byte{14})
		}
		data := w.Bytes()
		k.Input(data)
		f, err, panicked := cffReadGuard(k, data)
		if panicked {
			return
		}
		k.Eval()
		if err != nil {
			k.Fail("mismatch", "predefined-charset:rejected", "cff.Read rejects a font with predefined charset %d and %d glyphs: %v", which-1, n, err)
			return
		}
		for gid, g := range f.Glyphs {
			if want := cffmini.StdStrings[table[gid]]; g.Name != want {
				k.Fail("mismatch", "predefined-charset:name", "predefined charset %d: glyph %d is %q, TN5176 Appendix C has %q", which-1, gid, g.Name, want)
				break
			}
		}
		k.Class(fmt.Sprintf("predefined-charset:%d", which-1))
	})

	// many glyphs: 65535 glyphs (the largest number there can be), simple and
	// CID-keyed; two fonts in the quick tier
	{
		c.Stratum("huge", c.N(2, 30), func(k *mon.Case) {
			r := k.Rng
			n := 65535
			if k.Index%3 == 2 {
				n = 20000 + r.IntN(40000)
			}
			var sp *c13spec
			if k.Index%2 == 0 {
				sp = c13cid(r, k, n, true)
				if n == 65535 {
					k.Class("glyphs:65535")
				}
			} else {
				// SIDs are 16-bit numbers: a simple font cannot have more than about 65 000 custom strings
				n = min(n, 60000+r.IntN(4000))
				sp = c13simple(r, k, n, true)
				k.Class("glyphs:simple>=20000")
			}
			c13check(k, sp)
		})
	}

	req := []string{"gen:cid-run-ends-at-65535", "glyphs:65535", "charset-format:0", "charset-format:1", "charset-format:2", "encoding:predefined-standard", "encoding:predefined-expert",
		"encoding:format-0", "encoding:format-1", "gen:encoding-partial-standard", "encoding:format-0+supplement", "encoding:format-1+supplement", "encoding:ranges=1", "encoding:ranges>=100",
		"fdselect-format:0", "fdselect-format:3", "index-offsize:1", "index-offsize:2", "index-offsize:3",
		"index-last-offset:255", "index-last-offset:256", "index-last-offset:257", "index-last-offset:65535", "index-last-offset:65536", "index-last-offset:65537",
		"int-form:1-byte", "int-form:2-byte-positive", "int-form:2-byte-negative", "int-form:3-byte", "int-form:5-byte",
		"real-form:negative-exponent", "real-form:positive-exponent", "real-form:leading-point", "real-form:with-point", "real-form:integer-digits", "real-form:negative",
		"width:fractional-default", "width:fractional-nominal", "font:cid", "font:simple", "fds:256", "fds:<256", "header-offsize:1", "header-offsize:2", "header-offsize:3",
		"predefined-charset:0", "predefined-charset:1", "predefined-charset:2",
		"real:exponent:+10..+99", "real:exponent:+100..+298", "real:next-to-1e300:inside", "real:above-1e300", "real:nine-digit-rounding-carries",
		"real:exponent:-10..-99", "real:exponent:-100..-298", "real:next-to-1e-300:inside", "real:below-1e-300,normal"}
	if c.Thorough() {
		req = append(req, "index-offsize:4", "glyphs:simple>=20000", "volume:>16MiB", "header-offsize:4")
	}
	c.Require(req...)
}
