package props

// C02 drivers: one entry per decoder named in the property; the per-call
// oracle (panic, logical work, allocation) and the accessor phase that runs
// after a successful decode.

import (
	"fmt"
	"golang.org/x/text/language"
	"io"
	"math/rand/v2"
	"regexp"
	"sort"
	"strings"

	"seehuhn.de/go/sfnt"
	"seehuhn.de/go/sfnt/cff"
	"seehuhn.de/go/sfnt/cmap"
	"seehuhn.de/go/sfnt/glyf"
	"seehuhn.de/go/sfnt/glyph"
	"seehuhn.de/go/sfnt/head"
	"seehuhn.de/go/sfnt/header"
	"seehuhn.de/go/sfnt/hmtx"
	"seehuhn.de/go/sfnt/kern"
	"seehuhn.de/go/sfnt/maxp"
	"seehuhn.de/go/sfnt/name"
	"seehuhn.de/go/sfnt/opentype/classdef"
	"seehuhn.de/go/sfnt/opentype/coverage"
	"seehuhn.de/go/sfnt/opentype/gdef"
	"seehuhn.de/go/sfnt/opentype/gtab"
	"seehuhn.de/go/sfnt/os2"
	"seehuhn.de/go/sfnt/parser"
	"seehuhn.de/go/sfnt/post"

	"verif/harness/internal/mon"
)

// c02dec decodes b.  Reader-based decoders pull from a counting source,
// which is returned for the work oracle (nil for []byte decoders).
type c02dec func(b []byte) (val any, src *mon.CountingSource, err error)

func c02source(b []byte) *mon.CountingSource {
	s := mon.NewCountingSource(b)
	s.Limit = mon.C02CallBound(len(b))
	return s
}

// c02sfntPlain selects the io.Reader (not io.ReaderAt) entry of sfnt.Read.
var c02sfntPlain bool

// onlyReader hides ReadAt/Seek so that io.Reader-based decoders see a plain stream.
type onlyReader struct{ s *mon.CountingSource }

func (o onlyReader) Read(p []byte) (int, error) { return o.s.Read(p) }

func nilIfNil[T any](p *T) any {
	if p == nil {
		return nil
	}
	return p
}

var c02decode = map[string]c02dec{
	dSfnt: func(b []byte) (any, *mon.CountingSource, error) {
		s := c02source(b)
		if c02sfntPlain {
			f, err := sfnt.Read(onlyReader{s})
			return nilIfNil(f), s, err
		}
		f, err := sfnt.Read(s) // s implements io.ReaderAt: the library reads tables on demand
		return nilIfNil(f), s, err
	},
	dHeader: func(b []byte) (any, *mon.CountingSource, error) {
		s := c02source(b)
		h, err := header.Read(s)
		return nilIfNil(h), s, err
	},
	dCFF: func(b []byte) (any, *mon.CountingSource, error) {
		s := c02source(b)
		f, err := cff.Read(s)
		return nilIfNil(f), s, err
	},
	dCmap: func(b []byte) (any, *mon.CountingSource, error) {
		t, err := cmap.Decode(b)
		if t == nil {
			return nil, nil, err
		}
		return t, nil, err
	},
	dGlyf: func(b []byte) (any, *mon.CountingSource, error) {
		g, err := glyf.Decode(c02unpackGlyf(b))
		if g == nil {
			return nil, nil, err
		}
		return g, nil, err
	},
	dGsub: func(b []byte) (any, *mon.CountingSource, error) {
		s := c02source(b)
		t, err := gtab.Read(s, gtab.TypeGsub)
		return nilIfNil(t), s, err
	},
	dGpos: func(b []byte) (any, *mon.CountingSource, error) {
		s := c02source(b)
		t, err := gtab.Read(s, gtab.TypeGpos)
		return nilIfNil(t), s, err
	},
	dGdef: func(b []byte) (any, *mon.CountingSource, error) {
		s := c02source(b)
		t, err := gdef.Read(s)
		return nilIfNil(t), s, err
	},
	dCoverage: func(b []byte) (any, *mon.CountingSource, error) {
		s := c02source(b)
		t, err := coverage.Read(parser.New(s), 0)
		if t == nil {
			return nil, s, err
		}
		return t, s, err
	},
	dCovSet: func(b []byte) (any, *mon.CountingSource, error) {
		s := c02source(b)
		t, err := coverage.ReadSet(parser.New(s), 0)
		if t == nil {
			return nil, s, err
		}
		return t, s, err
	},
	dClassdef: func(b []byte) (any, *mon.CountingSource, error) {
		s := c02source(b)
		t, err := classdef.Read(parser.New(s), 0)
		if t == nil {
			return nil, s, err
		}
		return t, s, err
	},
	dName: func(b []byte) (any, *mon.CountingSource, error) {
		t, err := name.Decode(b)
		return nilIfNil(t), nil, err
	},
	dHead: func(b []byte) (any, *mon.CountingSource, error) {
		s := c02source(b)
		t, err := head.Read(onlyReader{s})
		return nilIfNil(t), s, err
	},
	dHmtx: func(b []byte) (any, *mon.CountingSource, error) {
		hh, hm := c02unpackHmtx(b)
		t, err := hmtx.Decode(hh, hm)
		return nilIfNil(t), nil, err
	},
	dMaxp: func(b []byte) (any, *mon.CountingSource, error) {
		s := c02source(b)
		t, err := maxp.Read(onlyReader{s})
		return nilIfNil(t), s, err
	},
	dOS2: func(b []byte) (any, *mon.CountingSource, error) {
		s := c02source(b)
		t, err := os2.Read(onlyReader{s})
		return nilIfNil(t), s, err
	},
	dPost: func(b []byte) (any, *mon.CountingSource, error) {
		s := c02source(b)
		t, err := post.Read(s)
		return nilIfNil(t), s, err
	},
	dKern: func(b []byte) (any, *mon.CountingSource, error) {
		s := c02source(b)
		t, err := kern.Read(s)
		if t == nil {
			return nil, s, err
		}
		return t, s, err
	},
}

var c02hexRun = regexp.MustCompile(`0[xX][0-9a-fA-F]+|\b[0-9a-fA-F]*[0-9][0-9a-fA-F]*\b`)

// errClass strips the input-dependent parts of an error message.
func c02errClass(err error) string {
	s := c02hexRun.ReplaceAllString(err.Error(), "N") // hexadecimal values
	s = mon.PanicClass(s)
	s = strings.Map(func(r rune) rune {
		if r < 0x20 || r > 0x7e {
			return '?'
		}
		return r
	}, s)
	if i := strings.Index(s, "\""); i >= 0 {
		s = s[:i] // quoted input-dependent names
	}
	if len(s) > 60 {
		s = s[:60]
	}
	return s
}

type c02call struct {
	k      *mon.Case
	dec    string
	b      []byte
	origin string // where the input comes from (seed name, mutators, amplifier): detail only
	accN   int
}

// acc runs one accessor under recover; a panic is a violation whose witness
// names decoder, accessor and the first library frame.
func (x *c02call) acc(name string, fn func()) bool {
	x.accN++
	pv, stack := mon.Try(fn)
	x.k.Class("acc:" + x.dec + ">" + name)
	if pv != nil {
		fr := mon.LibFrame(stack)
		x.k.Fail("panic", "panic:"+x.dec+">"+name+":"+fr+":"+mon.PanicClass(pv),
			"accessor %s on the result of a successful %s panicked: %v\ninput: %s, %d bytes\n%s", name, x.dec, pv, x.origin, len(x.b), stack)
		x.k.Class("acc-panic:" + x.dec + ">" + name)
		return false
	}
	return true
}

// c02last holds the measurements of the most recent c02run (one goroutine).
var c02last struct {
	alloc  uint64
	calls  int64
	hasSrc bool
}

// c02run is one monitored decoder call: journal, decode under recover with
// the allocation meter and the counting source, oracles (a) (c) (d), then the
// accessor phase (e).  It reports whether the input was accepted.
func c02run(k *mon.Case, dec string, b []byte, origin string) (accepted bool) {
	d := c02decode[dec]
	k.Input(b)
	var val any
	var src *mon.CountingSource
	var err error
	a0 := mon.TotalAlloc()
	pv, stack := mon.Try(func() { val, src, err = d(b) })
	alloc := mon.TotalAlloc() - a0
	c02last.alloc, c02last.hasSrc, c02last.calls = alloc, src != nil, 0
	if src != nil {
		c02last.calls = src.Calls
	}
	k.Eval()
	k.Class("dec:" + dec + ":calls")
	if pv != nil {
		fr := mon.LibFrame(stack)
		k.Fail("panic", "panic:"+dec+":"+fr+":"+mon.PanicClass(pv), "%s panicked: %v\ninput: %s, %d bytes\n%s", dec, pv, origin, len(b), stack)
		k.Class("dec:" + dec + ":panic")
		return false
	}
	// (c) logical work
	if src != nil {
		cb, bb := mon.C02CallBound(len(b)), mon.C02ByteBound(len(b))
		k.Max("work-calls/bound:"+dec, float64(src.Calls)/float64(cb))
		k.Max("work-bytes/bound:"+dec, float64(src.Bytes)/float64(bb))
		if len(b) >= 256 {
			k.Max("work-calls-per-input-byte(len>=256):"+dec, float64(src.Calls)/float64(len(b)))
		}
		if src.Calls > cb {
			k.Fail("resource", "resource:reads:"+dec+"@"+mon.LibFrame(src.LimitStack),
				"%s made %d calls on its source (%d reads, %d bytes delivered) for an input of %d bytes; bound %d + %d*len = %d\ninput: %s\nstack at the first call beyond the bound:\n%s",
				dec, src.Calls, src.Reads, src.Bytes, len(b), mon.C02CallsConst, mon.C02CallsPerByte, cb, origin, c02trim(src.LimitStack))
		} else if src.Bytes > bb {
			k.Fail("resource", "resource:bytes:"+dec,
				"%s had %d bytes delivered by its source in %d calls for an input of %d bytes; bound %d\ninput: %s", dec, src.Bytes, src.Calls, len(b), bb, origin)
		}
	}
	// (d) allocation
	ab := mon.C02AllocBound(len(b))
	k.Max("alloc/bound:"+dec, float64(alloc)/float64(ab))
	if len(b) >= 256 {
		k.Max("alloc-bytes-per-input-byte(len>=256):"+dec, float64(alloc)/float64(len(b)))
	}
	if alloc > ab {
		site := mon.AllocSite(func() { d(b) })
		k.Fail("resource", "resource:alloc:"+dec+"@"+site,
			"%s allocated %d bytes (%.1f MiB) for an input of %d bytes; bound %d MiB + %d*len = %d; dominant allocation site %s\ninput: %s; result: err=%v",
			dec, alloc, float64(alloc)/(1<<20), len(b), mon.C02AllocConst>>20, mon.C02AllocPerByte, ab, site, origin, err)
	}
	if err != nil {
		k.Class("dec:" + dec + ":reject")
		k.Class("err:" + dec + ":" + c02errClass(err))
		return false
	}
	if val == nil {
		// (nil, nil) is neither a value nor an error
		k.Fail("mismatch", "nil-nil:"+dec, "%s returned neither a value nor an error\ninput: %s, %d bytes", dec, origin, len(b))
		return false
	}
	k.Class("dec:" + dec + ":accept")
	x := &c02call{k: k, dec: dec, b: b, origin: origin}
	c02access(x, val)
	k.ClassN("accessor-calls", x.accN)
	return true
}

func c02trim(stack string) string {
	lines := strings.Split(stack, "\n")
	var out []string
	for i, l := range lines {
		if strings.HasPrefix(l, "seehuhn.de/go/sfnt") {
			out = append(out, l)
			if i+1 < len(lines) {
				out = append(out, lines[i+1])
			}
		}
		if len(out) > 16 {
			break
		}
	}
	return strings.Join(out, "\n")
}

// ---- accessor phase ----------------------------------------------------------

func c02hasGpos5(info *gtab.Info) bool {
	if info == nil {
		return false
	}
	for _, l := range info.LookupList {
		if l == nil {
			continue
		}
		for _, s := range l.Subtables {
			if _, ok := s.(*gtab.Gpos5_1); ok {
				return true
			}
		}
	}
	return false
}

// code points for Lookup: boundaries of the planes and of the subtable's own
// range, plus a seeded sample.
func c02runes(r *rand.Rand, low, high rune) []rune {
	out := []rune{0, 1, 0x1F, 0x20, 0x41, 0x7E, 0x7F, 0x80, 0xFF, 0x100, 0xD7FF, 0xD800, 0xDFFF, 0xE000, 0xFFFD, 0xFFFE, 0xFFFF,
		0x10000, 0x10001, 0x1F600, 0xFFFFF, 0x100000, 0x10FFFE, 0x10FFFF}
	for _, c := range []rune{low - 1, low, low + 1, high - 1, high, high + 1, (low + high) / 2} {
		if c >= 0 && c <= 0x10FFFF {
			out = append(out, c)
		}
	}
	for i := 0; i < 24; i++ {
		out = append(out, rune(r.IntN(0x10000)))
	}
	for i := 0; i < 8; i++ {
		out = append(out, rune(r.IntN(0x110000)))
	}
	return out
}

func c02subtable(x *c02call, what string, sub cmap.Subtable, encode bool) {
	var low, high rune
	x.acc(what+".CodeRange", func() { low, high = sub.CodeRange() })
	x.acc(what+".Lookup", func() {
		for _, c := range c02runes(x.k.Rng, low, high) {
			sub.Lookup(c)
		}
	})
	if encode {
		x.acc(what+".Encode", func() { sub.Encode(0) })
	}
}

func c02accessCmap(x *c02call, t cmap.Table, encode bool) {
	keys := make([]cmap.Key, 0, len(t))
	for k := range t {
		keys = append(keys, k)
	}
	sort.Slice(keys, func(i, j int) bool {
		a, b := keys[i], keys[j]
		if a.PlatformID != b.PlatformID {
			return a.PlatformID < b.PlatformID
		}
		if a.EncodingID != b.EncodingID {
			return a.EncodingID < b.EncodingID
		}
		return a.Language < b.Language
	})
	if len(keys) > 64 {
		// a table with thousands of (possibly shared) subtables: every 1 of n
		step := (len(keys) + 63) / 64
		var kk []cmap.Key
		for i := 0; i < len(keys); i += step {
			kk = append(kk, keys[i])
		}
		keys = kk
		x.k.Class("cmap:keys-sampled")
	}
	// Get is the lazy half of the decoder "cmap.Decode+Get": every call is
	// held to the allocation bound of the table it came from.  Fast path: the
	// sum over all keys is within the bound, then so is every single call.
	subs := make([]cmap.Subtable, len(keys))
	bound := mon.C02AllocBound(len(x.b))
	getAll := func() bool {
		return x.acc("Table.Get", func() {
			for i, key := range keys {
				sub, err := t.Get(key)
				if err != nil || sub == nil {
					subs[i] = nil
					continue
				}
				subs[i] = sub
			}
		})
	}
	var ok bool
	total := mon.MeasureAlloc(func() { ok = getAll() })
	x.k.Max("alloc/bound:"+x.dec+">Table.Get(sum over keys)", float64(total)/float64(bound))
	if !ok {
		return
	}
	if total > bound {
		for _, key := range keys {
			one := mon.MeasureAlloc(func() { mon.Try(func() { t.Get(key) }) })
			if one > bound {
				site := mon.AllocSite(func() { t.Get(key) })
				x.k.Fail("resource", "resource:alloc:"+x.dec+">Table.Get@"+site,
					"Table.Get(%v) allocated %d bytes for a cmap table of %d bytes (subtable %d bytes); bound %d\ninput: %s", key, one, len(x.b), len(t[key]), bound, x.origin)
				break
			}
		}
	}
	seen := map[string]bool{}
	for i, key := range keys {
		sub := subs[i]
		if sub == nil {
			x.k.Class("cmap.Get:error")
			continue
		}
		x.k.Class(fmt.Sprintf("cmap.Get:ok:%T", sub))
		// identical subtables (shared bytes) are exercised once
		sig := string(t[key])
		if seen[sig] {
			continue
		}
		seen[sig] = true
		c02subtable(x, "Subtable", sub, encode)
	}
	var best cmap.Subtable
	x.acc("Table.GetBest", func() { best, _ = t.GetBest() })
	if best != nil {
		c02subtable(x, "GetBest", best, false)
	}
	x.acc("Table.GetNoLang", func() { t.GetNoLang(3, 1); t.GetNoLang(1, 0) })
	if encode {
		x.acc("Table.Encode", func() { t.Encode() })
	}
}

func c02accessGlyphs(x *c02call, gg glyf.Glyphs, encode bool) {
	// SimpleGlyph.Decode is the lazy half of "glyf.Decode+SimpleGlyph.Decode":
	// every call is held to the allocation bound of the input it came from
	// (fast path: the sum over all glyphs is within the bound).
	bound := mon.C02AllocBound(len(x.b))
	var ok bool
	total := mon.MeasureAlloc(func() {
		ok = x.acc("SimpleGlyph.Decode", func() {
			for _, g := range gg {
				if g == nil {
					continue
				}
				if sg, ok := g.Data.(glyf.SimpleGlyph); ok {
					if _, err := sg.Decode(); err != nil {
						x.k.Class("SimpleGlyph.Decode:error")
					} else {
						x.k.Class("SimpleGlyph.Decode:ok")
					}
				}
			}
		})
	})
	x.k.Max("alloc/bound:"+x.dec+">SimpleGlyph.Decode(sum over glyphs)", float64(total)/float64(bound))
	if ok && total > bound {
		for gid, g := range gg {
			if g == nil {
				continue
			}
			sg, isSimple := g.Data.(glyf.SimpleGlyph)
			if !isSimple {
				continue
			}
			one := mon.MeasureAlloc(func() { mon.Try(func() { sg.Decode() }) })
			if one > bound {
				x.k.Fail("resource", "resource:alloc:"+x.dec+">SimpleGlyph.Decode",
					"SimpleGlyph.Decode of glyph %d (%d encoded bytes) allocated %d bytes; input %d bytes; bound %d\ninput: %s", gid, len(sg.Encoded), one, len(x.b), bound, x.origin)
				break
			}
		}
	}
	x.acc("Glyph.Components", func() {
		for _, g := range gg {
			if c := g.Components(); c != nil {
				x.k.Class("Glyph.Components:composite")
			}
		}
	})
	if encode {
		x.acc("Glyphs.Encode", func() { gg.Encode() })
	}
}

func c02accessFont(x *c02call, f *sfnt.Font) {
	n := 0
	if !x.acc("NumGlyphs", func() { n = f.NumGlyphs() }) {
		return
	}
	x.acc("Widths", func() { f.Widths() })
	x.acc("WidthsPDF", func() { f.WidthsPDF() })
	x.acc("WidthsMapPDF", func() { f.WidthsMapPDF() })
	x.acc("GlyphBBoxes", func() { f.GlyphBBoxes() })
	x.acc("FontBBox", func() { f.FontBBox() })
	x.acc("FontBBoxPDF", func() { f.FontBBoxPDF() })
	x.acc("IsFixedPitch", func() { f.IsFixedPitch() })
	x.acc("GlyphName", func() {
		for g := 0; g < n; g++ {
			f.GlyphName(glyph.ID(g))
		}
	})
	x.acc("GlyphWidth", func() {
		for g := 0; g < n; g++ {
			f.GlyphWidth(glyph.ID(g))
		}
	})
	x.acc("GlyphBBox", func() {
		for g := 0; g < n; g++ {
			f.GlyphBBox(glyph.ID(g))
		}
	})
	x.acc("GlyphWidthPDF", func() {
		for g := 0; g < n; g++ {
			f.GlyphWidthPDF(glyph.ID(g))
		}
	})
	x.acc("Outlines.GlyphBBoxPDF", func() {
		for g := 0; g < n; g++ {
			f.Outlines.GlyphBBoxPDF(f.FontMatrix, glyph.ID(g))
		}
	})
	x.acc("PostScriptName/FullName/Subfamily", func() { f.PostScriptName(); f.FullName(); f.Subfamily() })
	x.acc("GetFontInfo", func() { f.GetFontInfo() })
	x.acc("BuiltinEncoding", func() { f.BuiltinEncoding() })
	if f.CMapTable != nil {
		x.k.Class("font:cmap")
		c02accessCmap(x, f.CMapTable, false)
	} else {
		x.acc("CMapTable(nil).GetBest", func() { f.CMapTable.GetBest() })
	}
	switch o := f.Outlines.(type) {
	case *glyf.Outlines:
		x.k.Class("font:glyf")
		c02accessGlyphs(x, o.Glyphs, false)
	case *cff.Outlines:
		x.k.Class("font:cff")
		if o.IsCIDKeyed() {
			x.k.Class("font:cff-cid")
		}
	}
	x.acc("MakeGlyphNames", func() { f.MakeGlyphNames() })
	if c02hasGpos5(f.Gpos) {
		// the encoder of GPOS lookup type 5 is declared unimplemented
		x.k.Skip("re-encode skipped: GPOS type 5 present")
	} else {
		x.acc("Write", func() {
			if _, err := f.Write(io.Discard); err != nil {
				x.k.Class("font.Write:error")
			} else {
				x.k.Class("font.Write:ok")
			}
		})
	}
}

func c02accessCFF(x *c02call, f *cff.Font) {
	n := len(f.Glyphs)
	x.acc("NumGlyphs", func() { n = f.NumGlyphs() })
	x.acc("Widths", func() { f.Widths() })
	x.acc("WidthsPDF", func() { f.WidthsPDF() })
	x.acc("WidthsMapPDF", func() { f.WidthsMapPDF() })
	x.acc("FontBBoxPDF", func() { f.FontBBoxPDF() })
	x.acc("GlyphWidthPDF", func() {
		for g := 0; g < n; g++ {
			f.GlyphWidthPDF(glyph.ID(g))
		}
	})
	x.acc("Glyph.Extent", func() {
		for _, g := range f.Glyphs {
			g.Extent()
		}
	})
	x.acc("BuiltinEncoding", func() { f.BuiltinEncoding() })
	if f.IsCIDKeyed() {
		x.k.Class("cff:cid-keyed")
	} else {
		x.k.Class("cff:simple")
	}
	x.acc("Write", func() {
		if err := f.Write(io.Discard); err != nil {
			x.k.Class("cff.Write:error")
		} else {
			x.k.Class("cff.Write:ok")
		}
	})
}

func c02access(x *c02call, val any) {
	switch v := val.(type) {
	case *sfnt.Font:
		c02accessFont(x, v)
	case *header.Info:
		x.acc("Has/TableReader", func() {
			v.Has("head", "glyf")
			for tag := range v.Toc {
				v.Has(tag)
			}
		})
	case *cff.Font:
		c02accessCFF(x, v)
	case cmap.Table:
		c02accessCmap(x, v, true)
	case glyf.Glyphs:
		c02accessGlyphs(x, v, true)
	case *gtab.Info:
		x.k.ClassN("gtab:lookups", len(v.LookupList))
		for _, l := range v.LookupList {
			if l == nil || l.Meta == nil {
				continue
			}
			for _, s := range l.Subtables {
				x.k.Class(fmt.Sprintf("gtab:subtable:%T", s))
			}
		}
		if c02hasGpos5(v) {
			x.k.Skip("re-encode skipped: GPOS type 5 present")
			return
		}
		x.acc("Encode", func() { v.Encode() })
	case *gdef.Table:
		x.acc("Encode", func() { v.Encode() })
	case coverage.Table:
		x.acc("Encode", func() { v.EncodeLen(); v.Encode() })
		x.acc("Glyphs/ToSet", func() { v.Glyphs(); v.ToSet() })
	case coverage.Set:
		x.acc("Glyphs/ToTable", func() { v.Glyphs(); v.ToTable() })
	case classdef.Table:
		x.acc("Append", func() { v.AppendLen(); v.Append(nil) })
		x.acc("NumClasses/Glyphs", func() { v.NumClasses(); v.Glyphs() })
	case *name.Info:
		x.acc("Encode", func() { v.Encode(1) })
		// what sfnt.Read does with the decoded tables
		x.acc("Tables.Choose", func() {
			v.Windows.Choose(language.AmericanEnglish)
			v.Mac.Choose(language.AmericanEnglish)
			v.Windows.Choose()
			v.Mac.Choose(language.German, language.Japanese)
		})
	case *head.Info:
		x.acc("Encode", func() { v.Encode() })
	case *hmtx.Info:
		x.acc("Encode", func() { v.Encode() })
	case *maxp.Info:
		x.acc("Encode", func() { v.Encode() })
	case *os2.Info:
		x.acc("Encode", func() { v.Encode() })
	case *post.Info:
		x.acc("Encode", func() { v.Encode() })
	case kern.Info:
		x.acc("Encode", func() { v.Encode() })
	default:
		x.k.Fail("mismatch", "harness:unknown-result", "no accessor set for %T", val)
	}
}
