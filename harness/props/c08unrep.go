package props

import (
	"bytes"

	"golang.org/x/text/language"
	"seehuhn.de/go/sfnt/glyph"
	"seehuhn.de/go/sfnt/opentype/classdef"
	"seehuhn.de/go/sfnt/opentype/coverage"
	"seehuhn.de/go/sfnt/opentype/gdef"
	"seehuhn.de/go/sfnt/opentype/gtab"
	"seehuhn.de/go/sfnt/parser"

	"verif/harness/internal/gen/otl"
	"verif/harness/internal/hooks"
	"verif/harness/internal/mon"
	"verif/harness/internal/ref/otlwalk"
)

// The catalogue of structures the binary format cannot represent.  For each
// the outcome must be loud (a panic of the encoder) or harmless (the bytes
// read back equal and pass the structural walk).  Bytes that are written
// without complaint and read back different, fail to read, or are structurally
// inconsistent are the refuting observation ("written corrupt").

func c08unrepJudge(k *mon.Case, entry string, tt int, info *gtab.Info) {
	o := c08pipeline(k, tt, info)
	k.Eval()
	switch {
	case o.panicked:
		k.Class("unrep:" + entry + ":refused-loudly")
	case o.readErr == nil && o.diff == "" && o.rep.OK():
		k.Class("unrep:" + entry + ":reads-back-equal")
	case o.readErr != nil && o.rep.OK() && len(o.rep.Unsupported) == 0:
		// the independent walker finds every offset in range and the
		// structures tiling the bytes without gap or overlap: nothing was
		// truncated, the structure was representable after all and was
		// written correctly - and the library cannot read its own output
		k.Fail("mismatch", "c08:wellformed-output-rejected:"+entry, "Encode wrote %d well-formed bytes (walker: no problem, no gap, no overlap) which gtab.Read rejects: %v\n%s", len(o.enc), o.readErr, c08describe(info))
	default:
		k.Fail("mismatch", "c08:unrep:"+entry+":silently-corrupt", "Encode wrote %d bytes without complaint; read error: %v; difference: %s; walker: %v\n%s", len(o.enc), o.readErr, o.diff, o.rep.Problems, c08describe(info))
	}
}

func c08unrepresentable(c *mon.Ctx) {
	combos := c08combos()

	// non-bijective coverage indices, coverage order contradicting glyph order
	c.Stratum("unrep-coverage", c.N(400, 20000), func(k *mon.Case) {
		r := k.Rng
		n := 2 + r.IntN(6)
		gids := otl.GIDs(r, n, []int{10, 0xFFFF}[r.IntN(2)])
		if r.IntN(3) == 0 && gids[0] != 0 {
			gids[0] = 0
		}
		tab := otl.TableOf(gids)
		entry := ""
		switch k.Index % 5 {
		case 0: // two glyphs share an index
			entry = "coverage-duplicate-index"
			i := r.IntN(n)
			j := (i + 1 + r.IntN(n-1)) % n
			tab[gids[j]] = tab[gids[i]]
		case 1: // index beyond n-1
			entry = "coverage-index-too-large"
			tab[gids[r.IntN(n)]] = n + r.IntN(3)
		case 2: // negative index
			entry = "coverage-index-negative"
			tab[gids[r.IntN(n)]] = -1 - r.IntN(3)
		case 3: // order contradicts glyph order
			entry = "coverage-order"
			i := r.IntN(n - 1)
			tab[gids[i]], tab[gids[i+1]] = tab[gids[i+1]], tab[gids[i]]
		default: // duplicate index while index 0 is unused (a hole looks like glyph 0)
			entry = "coverage-duplicate-index"
			if gids[0] == 0 {
				gids = gids[1:]
				n--
				if n < 2 {
					gids = append(gids, gids[len(gids)-1]+7)
					n = 2
				}
				tab = otl.TableOf(gids)
			}
			tab[gids[0]] = 1
		}
		// map iteration order matters for what the encoder sees: several attempts
		for attempt := 0; attempt < 6; attempt++ {
			var enc []byte
			pv, _ := mon.Try(func() { enc = tab.Encode() })
			k.Eval()
			if pv != nil {
				k.Class("unrep:" + entry + ":refused-loudly")
				continue
			}
			k.Input(enc)
			var back coverage.Table
			var err error
			pv, _ = mon.Try(func() { back, err = coverage.Read(parser.New(bytes.NewReader(enc)), 0) })
			if pv == nil && err == nil && c08diff(tab, back) == "" {
				k.Class("unrep:" + entry + ":reads-back-equal")
				continue
			}
			k.Fail("mismatch", "c08:unrep:"+entry+":silently-corrupt", "coverage %v was encoded without complaint as % x and reads back as %v (err %v)", tab, enc, back, err)
			return
		}
	})

	// a single subtable beyond 64 KiB
	c.Stratum("unrep-subtable", c.N(2*len(combos), 40*len(combos)), func(k *mon.Case) {
		r := k.Rng
		cb := combos[k.Index%len(combos)]
		name := otl.Name(cb.tt, cb.lt, cb.f)
		o := otl.Opts{MaxGID: 0xFFFF, Bytes: 150000 + r.IntN(100000), NumLookups: 1}
		s := otl.Subtable(r, cb.tt, cb.lt, cb.f, o)
		info := &gtab.Info{ScriptList: gtab.ScriptListInfo{}, FeatureList: gtab.FeatureListInfo{},
			LookupList: gtab.LookupList{{Meta: &gtab.LookupMetaInfo{LookupType: uint16(cb.lt)}, Subtables: []gtab.Subtable{s}}}}
		c08unrepJudge(k, "subtable-over-64k:"+name, cb.tt, info)
	})

	// counts and totals
	c.Stratum("unrep-lists", c.N(12, 120), func(k *mon.Case) {
		r := k.Rng
		tt := otl.GSUB + k.Index%2
		tiny := func() gtab.Subtable {
			return otl.Subtable(r, tt, 5+2*(tt-1), 3, otl.Opts{MaxGID: 50, Size: otl.Tiny, NumLookups: 1})
		}
		lt := uint16(5 + 2*(tt-1))
		switch (k.Index / 2) % 6 {
		case 0: // 2^14 lookups
			ll := make(gtab.LookupList, 1<<14+r.IntN(3))
			for i := range ll {
				ll[i] = &gtab.LookupTable{Meta: &gtab.LookupMetaInfo{LookupType: lt}}
			}
			c08unrepJudge(k, "2^14-lookups", tt, &gtab.Info{ScriptList: gtab.ScriptListInfo{}, FeatureList: gtab.FeatureListInfo{}, LookupList: ll})
		case 1: // 2^14 subtables in one lookup
			s := tiny()
			l := &gtab.LookupTable{Meta: &gtab.LookupMetaInfo{LookupType: lt}}
			for i := 0; i < 1<<14+r.IntN(3); i++ {
				l.Subtables = append(l.Subtables, s)
			}
			c08unrepJudge(k, "2^14-subtables", tt, &gtab.Info{ScriptList: gtab.ScriptListInfo{}, FeatureList: gtab.FeatureListInfo{}, LookupList: gtab.LookupList{l}})
		case 2: // does not fit even with extension records
			ll := make(gtab.LookupList, 4000+r.IntN(3000))
			for i := range ll {
				ll[i] = &gtab.LookupTable{Meta: &gtab.LookupMetaInfo{LookupType: lt}, Subtables: []gtab.Subtable{tiny()}}
			}
			c08unrepJudge(k, "list-too-large-for-extensions", tt, &gtab.Info{ScriptList: gtab.ScriptListInfo{}, FeatureList: gtab.FeatureListInfo{}, LookupList: ll})
		case 3: // feature list overflow
			n := 6000 + r.IntN(4000)
			fl := make(gtab.FeatureListInfo, n)
			for i := range fl {
				fl[i] = &gtab.Feature{Tag: "test", Lookups: []gtab.LookupIndex{0}}
			}
			c08unrepJudge(k, "feature-list-overflow", tt, &gtab.Info{ScriptList: gtab.ScriptListInfo{}, FeatureList: fl, LookupList: gtab.LookupList{{Meta: &gtab.LookupMetaInfo{LookupType: lt}}}})
		case 4: // more lookups+subtables than the reader accepts, but encodable: recorded, not judged
			n := 3100 + r.IntN(400)
			ll := make(gtab.LookupList, n)
			s := otl.Subtable(r, tt, 5+2*(tt-1), 3, otl.Opts{MaxGID: 50, Bytes: 8, NumLookups: 1})
			for i := range ll {
				ll[i] = &gtab.LookupTable{Meta: &gtab.LookupMetaInfo{LookupType: lt}, Subtables: []gtab.Subtable{s}}
			}
			o := c08pipeline(k, tt, &gtab.Info{ScriptList: gtab.ScriptListInfo{}, FeatureList: gtab.FeatureListInfo{}, LookupList: ll})
			k.Eval()
			switch {
			case o.panicked:
				k.Class("reader-limit-6000:refused-by-encoder")
			case o.readErr != nil && o.rep.OK():
				k.Class("reader-limit-6000:well-formed-bytes-refused-by-reader")
			case o.readErr == nil && o.diff == "":
				k.Class("reader-limit-6000:reads-back-equal")
			default:
				k.Fail("mismatch", "c08:unrep:reader-limit:silently-corrupt", "%d lookups: read error %v, diff %s, walker %v", n, o.readErr, o.diff, o.rep.Problems)
			}
		default: // an optional feature index 0xFFFF (the documented range ends at 0xFFFE)
			info := otl.Info(r, tt, otl.Opts{MaxGID: 100, NumLookups: 2, Size: otl.Tiny})
			for len(info.FeatureList) < 3 {
				info.FeatureList = append(info.FeatureList, &gtab.Feature{Tag: "test"})
			}
			var f *gtab.Features
			for _, f = range info.ScriptList {
				break
			}
			f.Optional = []gtab.FeatureIndex{1, 0xFFFF, 2}
			if r.IntN(2) == 0 {
				f.Optional = []gtab.FeatureIndex{0xFFFF}
			}
			o := c08pipeline(k, tt, info)
			k.Eval()
			switch {
			case o.panicked:
				k.Class("unrep:optional-feature-ffff:refused-loudly")
			case o.readErr != nil:
				k.Class("unrep:optional-feature-ffff:refused-by-reader")
			case o.diff == "":
				k.Class("unrep:optional-feature-ffff:reads-back-equal")
			default:
				// dropping the invalid entry is tolerable; inventing a feature is not
				var back *gtab.Info
				back, _ = gtab.Read(bytes.NewReader(o.enc), gtab.Type(tt))
				for tag, bf := range back.ScriptList {
					in := map[gtab.FeatureIndex]bool{}
					for _, x := range info.ScriptList[tag].Optional {
						in[x] = true
					}
					for _, x := range bf.Optional {
						if !in[x] {
							k.Fail("mismatch", "c08:unrep:optional-feature-ffff:phantom-feature", "optional features %v were written without complaint and read back as %v: feature %d was never requested", info.ScriptList[tag].Optional, bf.Optional, x)
							return
						}
					}
				}
				k.Class("unrep:optional-feature-ffff:dropped-by-reader")
			}
		}
	})

	// 16-bit offsets of the top-level tables
	c.Stratum("unrep-offsets", c.N(12, 120), func(k *mon.Case) {
		r := k.Rng
		switch k.Index % 4 {
		case 0: // script list beyond 64 KiB
			scripts, langs, ok := hooks.TagTables()
			if !ok {
				k.Skip("hooks-unavailable")
				return
			}
			var tags []language.Tag
			ns := 0
			for s := range scripts {
				if ns >= 3 {
					break
				}
				n0 := len(tags)
				for l := range langs {
					if t, ok := c08tagFor(k, s, l); ok {
						tags = append(tags, t)
					}
				}
				if len(tags) > n0+100 {
					ns++
				}
			}
			info := &gtab.Info{ScriptList: gtab.ScriptListInfo{}, FeatureList: otl.FeatureList(r, 50, 1), LookupList: gtab.LookupList{}}
			for _, t := range tags {
				f := &gtab.Features{Required: 0xFFFF}
				for j := 0; j < 40; j++ {
					f.Optional = append(f.Optional, gtab.FeatureIndex(r.IntN(50)))
				}
				info.ScriptList[t] = f
			}
			c08unrepJudge(k, "script-list-over-64k", otl.GSUB, info)
		case 1: // script list + feature list push the lookup list beyond 64 KiB
			info := otl.Info(r, otl.GSUB, otl.Opts{MaxGID: 100, NumLookups: 2, Size: otl.Tiny})
			n := 5000 + r.IntN(500)
			info.FeatureList = make(gtab.FeatureListInfo, n)
			for i := range info.FeatureList {
				info.FeatureList[i] = &gtab.Feature{Tag: "test", Lookups: []gtab.LookupIndex{0, 1}}
			}
			// 2 + 14 n bytes, last feature offset 2 + 6n + 8(n-1) < 64 Ki for n < 4681: choose so
			// that the list itself is fine but its end is beyond the limit
			n = 4600 + r.IntN(80)
			info.FeatureList = info.FeatureList[:n]
			for i := 0; i < 1200; i++ {
				info.FeatureList[n-1].Lookups = append(info.FeatureList[n-1].Lookups, 0)
			}
			for _, f := range info.ScriptList {
				f.Required, f.Optional = 0xFFFF, nil
			}
			c08unrepJudge(k, "lookup-list-offset-over-64k", otl.GSUB, info)
		case 2: // GDEF: first class table beyond 64 KiB, a second table after it
			t := &gdef.Table{GlyphClass: classdef.Table{}, MarkAttachClass: classdef.Table{5: 1, 9: 2}}
			s := r.IntN(1000)
			for i := 0; i < 33000+r.IntN(2000); i++ {
				t.GlyphClass[glyph.ID(s+i)] = uint16(1 + i%2)
			}
			if r.IntN(2) == 0 {
				t.MarkAttachClass = nil
				t.MarkGlyphSets = []coverage.Set{{1: true}, {2: true, 3: true}}
			}
			var enc []byte
			pv, _ := mon.Try(func() { enc = t.Encode() })
			k.Eval()
			if pv != nil {
				k.Class("unrep:gdef-offset-over-64k:refused-loudly")
				return
			}
			k.Input(enc)
			var back *gdef.Table
			var err error
			pv, _ = mon.Try(func() { back, err = gdef.Read(bytes.NewReader(enc)) })
			rep, _ := otlwalk.WalkGDEF(enc)
			if pv == nil && err == nil && c08diff(t, back) == "" && rep.OK() {
				k.Class("unrep:gdef-offset-over-64k:reads-back-equal")
				return
			}
			d := ""
			if pv == nil && err == nil {
				d = c08diff(t, back)
			}
			k.Fail("mismatch", "c08:unrep:gdef-offset-over-64k:silently-corrupt", "GDEF with a %d-glyph class table followed by another table: Encode wrote %d bytes without complaint; read: panic %v err %v diff %s; walker: %v", len(t.GlyphClass), len(enc), pv, err, d, rep.Problems)
		default: // class definition table neither format can hold
			cd := classdef.Table{}
			for i := 0; i < 0x10000; i++ {
				cd[glyph.ID(i)] = uint16(1 + i%2)
			}
			var enc []byte
			var declared int
			pv, _ := mon.Try(func() { enc = cd.Append(nil); declared = cd.AppendLen() })
			k.Eval()
			if pv != nil {
				k.Class("unrep:classdef-65536-runs:refused-loudly")
				return
			}
			k.Fail("mismatch", "c08:unrep:classdef-65536-runs:silently-corrupt", "a class table with 65536 alternating glyphs fits neither format; Append wrote %d bytes (AppendLen %d) without complaint: % x …", len(enc), declared, enc[:min(len(enc), 12)])
		}
	})
}
