package props

import (
	"bytes"
	"fmt"
	"math/rand/v2"
	"sort"
	"strings"
	"sync"

	"seehuhn.de/go/sfnt/glyph"
	"seehuhn.de/go/sfnt/opentype/anchor"
	"seehuhn.de/go/sfnt/opentype/gdef"
	"seehuhn.de/go/sfnt/opentype/gtab"
	"seehuhn.de/go/sfnt/opentype/markarray"

	"verif/harness/internal/gen/otlmini"
	"verif/harness/internal/mon"
	"verif/harness/internal/ref/shaper"
)

// C06: GSUB/GPOS lookup application follows OpenType semantics.
//
// Oracle: the output run of gtab.NewContext(ll, gdef, lookups).Apply(seq)
// (glyph id, text, x/y offset, advance per glyph) equals the output of the
// reference shaper (internal/ref/shaper) wherever the reference says the
// outcome is defined.

func init() {
	mon.RegisterCfg("C06", mon.Config{
		Rule: "calibration: the reference shaper reproduces the repository's pinned cases (testcases.Gsub sections 1,2,3,5 unflagged, section 4 flagged or reproduced, 16 GPOS and 46 lookup-flag cases re-typed); " +
			"exhaustive: each case is one generated lookup list (primary subtable type/format x flag set from the 24 x 7 grid, 1-3 top-level lookups in random order, nested targets) applied to ALL 19531 glyph sequences of length 0..6 over {base A, base B, mark M, ligature L, unclassified X}; " +
			"(every fourth list of the exhaustive part uses glyph 0 in the role of X); random: lists of up to 12 lookups over alphabets of up to 300 glyph ids (glyph 0 among them in 4 of 9 alphabets) with random GDEF (also glyph class values beyond 4, up to 120 mark glyph sets, sets with up to 2300 glyphs), 10 sequences of length <= 40 each; mark and base anchors on both sides of the baseline, mark anchors also at the origin; " +
			"every Context.Apply result is compared glyph by glyph (gid, text, x/y offset, advance) with the reference; evaluations = judged applications, distinct = distinct (list, sequence) pairs",
		Assumptions: []string{
			"the reference shaper (written from OpenType chapter 2/GSUB/GPOS and testcases/gsub.go sections 1-3) is the specification of 'straightforward'; it is calibrated against all pinned cases in every run",
			"cases the reference flags as undefined are skipped and counted: a nested lookup changed a glyph an enclosing match skipped and a later action depends on it, more than 60 nested actions, out-of-range lookup/sequence/class indices, GSUB 8 forward/backward disagreement, ambiguous attachment target, attachment on a glyph that already has an offset, unimplemented positioning data",
			"GSUB inputs carry zero offsets/advances; GPOS inputs carry a width on non-mark glyphs (one random alphabet in 6: also on every third mark glyph) and zero offsets",
			"text is compared per glyph: a multiple substitution leaves the text on the first new glyph, a ligature concatenates the text of its components; input glyphs carry one unique rune each, in a quarter of the random cases every third glyph carries no text and every third two runes",
		},
	}, runC06)
}

var c06allKinds = append(append([]shaper.Kind(nil), otlmini.GsubKinds...), otlmini.GposKinds...)

var (
	c06seqOnce [2]sync.Once
	c06seqs    [2][][]glyph.ID
)

// c06sequences returns all 19531 sequences of length 0..6 over the five input
// glyphs of the small alphabet (zero: of the variant whose unclassified
// glyph is glyph 0).
func c06sequences(zero bool) [][]glyph.ID {
	v := 0
	if zero {
		v = 1
	}
	c06seqOnce[v].Do(func() {
		alpha := otlmini.Small().In
		if zero {
			alpha = otlmini.SmallX(0).In
		}
		var rec func(prefix []glyph.ID, n int)
		rec = func(prefix []glyph.ID, n int) {
			if len(prefix) == n {
				c06seqs[v] = append(c06seqs[v], append([]glyph.ID(nil), prefix...))
				return
			}
			for _, g := range alpha {
				rec(append(prefix, g), n)
			}
		}
		for n := 0; n <= 6; n++ {
			rec(nil, n)
		}
	})
	return c06seqs[v]
}

// c06input builds the input run: a unique rune per glyph; for GPOS lists a
// width on every non-mark glyph (and on some marks, if the alphabet says so).
// With textShapes every third glyph carries no text and every third carries
// two runes (shapes that earlier lookups of a list leave behind anyway: a
// multiple substitution leaves glyphs without text, a ligature one with
// several runes).
func c06input(a *otlmini.Alphabet, gids []glyph.ID, gpos, textShapes bool) []glyph.Info {
	seq := make([]glyph.Info, len(gids))
	// in a third of the inputs the texts are pieces of one array, as a caller
	// gets them from []rune(s) (every piece has the rest in its capacity)
	var shared []rune
	if !textShapes && len(gids) > 0 && (len(gids)+int(gids[0]))%3 == 0 {
		shared = make([]rune, len(gids))
	}
	for i, gid := range gids {
		seq[i] = glyph.Info{GID: gid, Text: []rune{rune(0x100 + i)}}
		if shared != nil {
			shared[i] = rune(0x100 + i)
			seq[i].Text = shared[i : i+1]
		}
		if textShapes {
			switch i % 3 {
			case 1:
				seq[i].Text = nil
			case 2:
				seq[i].Text = []rune{rune(0x100 + i), rune(0x1100 + i)}
			}
		}
		if gpos {
			seq[i].Advance = a.Width(gid)
		}
	}
	return seq
}

func c06copy(seq []glyph.Info) []glyph.Info {
	out := make([]glyph.Info, len(seq))
	// texts that are pieces of one array (spare capacity behind them) are
	// copied as pieces of one new array: the copy has the same shape
	shared, total := false, 0
	for _, g := range seq {
		shared = shared || cap(g.Text) > len(g.Text)
		total += len(g.Text)
	}
	buf := make([]rune, 0, total)
	for i, g := range seq {
		out[i] = g
		if shared {
			start := len(buf)
			buf = append(buf, g.Text...)
			out[i].Text = buf[start:len(buf):total]
			continue
		}
		out[i].Text = append([]rune(nil), g.Text...)
	}
	return out
}

// c06diff returns the first differing aspect of two runs ("" if equal).
func c06diff(got, want []glyph.Info) string {
	if len(got) != len(want) {
		return "length"
	}
	for i := range got {
		if got[i].GID != want[i].GID {
			return "gid"
		}
	}
	for i := range got {
		if string(got[i].Text) != string(want[i].Text) {
			return "text"
		}
	}
	for i := range got {
		switch {
		case got[i].XOffset != want[i].XOffset:
			return "xoffset"
		case got[i].YOffset != want[i].YOffset:
			return "yoffset"
		case got[i].Advance != want[i].Advance:
			return "advance"
		}
	}
	return ""
}

func c06fmtRun(seq []glyph.Info) string {
	var b strings.Builder
	for i, g := range seq {
		if i > 0 {
			b.WriteByte(' ')
		}
		fmt.Fprintf(&b, "%d", g.GID)
		if len(g.Text) > 0 {
			fmt.Fprintf(&b, "%q", string(g.Text))
		}
		if g.XOffset != 0 || g.YOffset != 0 || g.Advance != 0 {
			fmt.Fprintf(&b, "(x%+d y%+d a%d)", g.XOffset, g.YOffset, g.Advance)
		}
	}
	return "[" + b.String() + "]"
}

// c06kindsOf names the subtable types/formats of a lookup.
func c06kindsOf(lt *gtab.LookupTable, gpos bool) string {
	seen := map[string]bool{}
	var names []string
	for _, s := range lt.Subtables {
		n := c06kindName(s, gpos)
		if !seen[n] {
			seen[n] = true
			names = append(names, n)
		}
	}
	sort.Strings(names)
	return strings.Join(names, "+")
}

func c06kindName(s gtab.Subtable, gpos bool) string {
	ctx := func(gs, gp string) string {
		if gpos {
			return gp
		}
		return gs
	}
	switch s.(type) {
	case *gtab.Gsub1_1:
		return "gsub1.1"
	case *gtab.Gsub1_2:
		return "gsub1.2"
	case *gtab.Gsub2_1:
		return "gsub2.1"
	case *gtab.Gsub3_1:
		return "gsub3.1"
	case *gtab.Gsub4_1:
		return "gsub4.1"
	case *gtab.Gsub8_1:
		return "gsub8.1"
	case *gtab.Gpos1_1:
		return "gpos1.1"
	case *gtab.Gpos1_2:
		return "gpos1.2"
	case gtab.Gpos2_1:
		return "gpos2.1"
	case *gtab.Gpos2_2:
		return "gpos2.2"
	case *gtab.Gpos3_1:
		return "gpos3.1"
	case *gtab.Gpos4_1:
		return "gpos4.1"
	case *gtab.Gpos5_1:
		return "gpos5.1"
	case *gtab.Gpos6_1:
		return "gpos6.1"
	case *gtab.SeqContext1:
		return ctx("gsub5.1", "gpos7.1")
	case *gtab.SeqContext2:
		return ctx("gsub5.2", "gpos7.2")
	case *gtab.SeqContext3:
		return ctx("gsub5.3", "gpos7.3")
	case *gtab.ChainedSeqContext1:
		return ctx("gsub6.1", "gpos8.1")
	case *gtab.ChainedSeqContext2:
		return ctx("gsub6.2", "gpos8.2")
	case *gtab.ChainedSeqContext3:
		return ctx("gsub6.3", "gpos8.3")
	}
	return fmt.Sprintf("%T", s)
}

// c06describe renders a lookup list for violation reports and the journal.
func c06describe(ll gtab.LookupList, lookups []gtab.LookupIndex, gd *gdef.Table) string {
	var b strings.Builder
	fmt.Fprintf(&b, "apply order %v\n", lookups)
	for i, lt := range ll {
		fmt.Fprintf(&b, "lookup %d: type %d flags %#04x set %d\n", i, lt.Meta.LookupType, uint16(lt.Meta.LookupFlags), lt.Meta.MarkFilteringSet)
		for j, s := range lt.Subtables {
			fmt.Fprintf(&b, "  subtable %d: %s\n", j, c06dump(s))
		}
	}
	if gd == nil {
		b.WriteString("gdef: none\n")
	} else {
		fmt.Fprintf(&b, "gdef: classes %v attach %v sets %v\n", gd.GlyphClass, gd.MarkAttachClass, gd.MarkGlyphSets)
	}
	return b.String()
}

func c06dump(s gtab.Subtable) string {
	deref := func(rules any) string { return strings.ReplaceAll(fmt.Sprintf("%+v", rules), "0x", "") }
	switch l := s.(type) {
	case *gtab.SeqContext1:
		var b strings.Builder
		fmt.Fprintf(&b, "SeqContext1 cov=%v", l.Cov)
		for i, rs := range l.Rules {
			for _, r := range rs {
				fmt.Fprintf(&b, " [set %d: in %v -> %v]", i, r.Input, r.Actions)
			}
		}
		return b.String()
	case *gtab.SeqContext2:
		var b strings.Builder
		fmt.Fprintf(&b, "SeqContext2 cov=%v classes=%v nsets=%d", l.Cov, l.Input, len(l.Rules))
		for i, rs := range l.Rules {
			for _, r := range rs {
				fmt.Fprintf(&b, " [class %d: in %v -> %v]", i, r.Input, r.Actions)
			}
		}
		return b.String()
	case *gtab.ChainedSeqContext1:
		var b strings.Builder
		fmt.Fprintf(&b, "ChainedSeqContext1 cov=%v", l.Cov)
		for i, rs := range l.Rules {
			for _, r := range rs {
				fmt.Fprintf(&b, " [set %d: back %v in %v ahead %v -> %v]", i, r.Backtrack, r.Input, r.Lookahead, r.Actions)
			}
		}
		return b.String()
	case *gtab.ChainedSeqContext2:
		var b strings.Builder
		fmt.Fprintf(&b, "ChainedSeqContext2 cov=%v back=%v in=%v ahead=%v nsets=%d", l.Cov, l.Backtrack, l.Input, l.Lookahead, len(l.Rules))
		for i, rs := range l.Rules {
			for _, r := range rs {
				fmt.Fprintf(&b, " [class %d: back %v in %v ahead %v -> %v]", i, r.Backtrack, r.Input, r.Lookahead, r.Actions)
			}
		}
		return b.String()
	case gtab.Gpos2_1:
		var keys []glyph.Pair
		for p := range l {
			keys = append(keys, p)
		}
		sort.Slice(keys, func(i, j int) bool {
			if keys[i].Left != keys[j].Left {
				return keys[i].Left < keys[j].Left
			}
			return keys[i].Right < keys[j].Right
		})
		var b strings.Builder
		b.WriteString("Gpos2_1")
		for _, p := range keys {
			fmt.Fprintf(&b, " [%d,%d: %v & %v]", p.Left, p.Right, l[p].First, l[p].Second)
		}
		return b.String()
	case *gtab.Gpos2_2:
		var b strings.Builder
		fmt.Fprintf(&b, "Gpos2_2 cov=%v class1=%v class2=%v", l.Cov, l.Class1, l.Class2)
		for i, row := range l.Adjust {
			for j, a := range row {
				if a == nil {
					fmt.Fprintf(&b, " [%d,%d: nil]", i, j)
				} else {
					fmt.Fprintf(&b, " [%d,%d: %v & %v]", i, j, a.First, a.Second)
				}
			}
		}
		return b.String()
	case *gtab.Gpos1_2:
		return fmt.Sprintf("Gpos1_2 cov=%v adjust=%v", l.Cov, l.Adjust)
	case *gtab.Gpos1_1:
		return fmt.Sprintf("Gpos1_1 cov=%v adjust=%v", l.Cov, l.Adjust)
	}
	return deref(s)
}

// c06stats accumulates coverage counters over the applications of one case.
type c06stats struct {
	judged    int
	undefined map[string]int
	matches   [shaper.NumKinds]int
	skippedIn int
	ligLater  int
	ligAcross int
	ligAcr2   int
	moved     int
	tainted   int
	depth     [8]int
	actions   int
	flagsSeen map[string]int
	changed   int
	panics    int

	textShapes bool // inputs with empty / two-rune texts (see c06input)

	// libLL, if set, is the lookup list as gtab.Read returns it from the
	// library's own bytes: the library applies this one, the reference the
	// structure it was written from
	libLL gtab.LookupList
}

// c06readBack sends the lookup list through Info.Encode and gtab.Read.
func c06readBack(list *otlmini.List) gtab.LookupList {
	var out gtab.LookupList
	mon.Try(func() {
		info := &gtab.Info{ScriptList: gtab.ScriptListInfo{}, FeatureList: gtab.FeatureListInfo{}, LookupList: list.LL}
		tp := gtab.Type(gtab.TypeGsub)
		if list.Gpos {
			tp = gtab.Type(gtab.TypeGpos)
		}
		back, err := gtab.Read(bytes.NewReader(info.Encode()), tp)
		if err == nil && len(back.LookupList) == len(list.LL) {
			out = back.LookupList
		}
	})
	return out
}

func (s *c06stats) add(st *shaper.Stats) {
	for i, n := range st.Matches {
		s.matches[i] += n
	}
	s.skippedIn += st.SkippedInside
	s.ligLater += st.LigLater
	s.ligAcross += st.LigLaterAcrossSkips
	s.ligAcr2 += st.LigLaterAcross2
	s.moved += st.Moved
	s.tainted += st.Tainted
	d := st.MaxDepth
	if d >= len(s.depth) {
		d = len(s.depth) - 1
	}
	s.depth[d]++
	if st.MaxActions > s.actions {
		s.actions = st.MaxActions
	}
}

func (s *c06stats) flush(k *mon.Case, prefix string) {
	k.Evals(s.judged)
	if s.judged > 0 {
		k.ClassN("apply-judged", s.judged)
	}
	for i, n := range s.matches {
		if n > 0 {
			k.ClassN("match:"+shaper.Kind(i).String(), n)
		}
		if n >= 1000 {
			k.Class(prefix + "match>=1000:" + shaper.Kind(i).String())
		}
	}
	for reason, n := range s.undefined {
		k.ClassN("undefined:"+reason, n)
		for i := 0; i < n; i++ {
			k.Skip("undefined:" + reason)
		}
	}
	for name, n := range s.flagsSeen {
		k.ClassN("flags:"+name, n)
	}
	for _, cn := range []struct {
		name string
		n    int
	}{
		{"skipped-glyphs-inside-match", s.skippedIn},
		{"ligature-later-candidate", s.ligLater},
		{"ligature-later-candidate-across-skipped", s.ligAcross},
		{"ligature-later-candidate-across-2-skipped", s.ligAcr2},
		{"ligature-moved-skipped-glyphs", s.moved},
		{"child-touched-skipped-glyph-harmless", s.tainted},
		{"output-differs-from-input", s.changed},
	} {
		if cn.n > 0 {
			k.ClassN(cn.name, cn.n)
		}
	}
	for d, n := range s.depth {
		if n > 0 {
			k.ClassN(fmt.Sprintf("nested-depth:%d", d), n)
		}
	}
	k.Max("nested-actions-per-match", float64(s.actions))
}

// c06check applies one list to one sequence with the library and with the
// reference and compares.  It returns false when the caller should stop
// (too many panics).
func c06check(k *mon.Case, st *c06stats, a *otlmini.Alphabet, list *otlmini.List, gids []glyph.ID, desc *string) bool {
	in := c06input(a, gids, list.Gpos, st.textShapes)
	ref := shaper.Apply(list.LL, a.Gdef, list.Lookups, in)
	var out []glyph.Info
	libIn := c06copy(in)
	libLL := list.LL
	if st.libLL != nil {
		libLL = st.libLL
	}
	if k.Guard("Context.Apply", func() { out = gtab.NewContext(libLL, a.Gdef, list.Lookups).Apply(libIn) }) {
		st.panics++
		return st.panics < 8
	}
	st.add(&ref.Stats)
	if ref.Undefined != "" {
		st.undefined[ref.Undefined]++
		return true
	}
	st.judged++
	if c06diff(ref.Seq, in) != "" {
		st.changed++
	}
	field := c06diff(out, ref.Seq)
	if field == "" {
		return true
	}
	// find the first lookup (in application order) after which the two
	// diverge, to name the witness class after its subtable types
	culprit := "?"
	var trace strings.Builder
	for n := 1; n <= len(list.Lookups); n++ {
		r := shaper.Apply(list.LL, a.Gdef, list.Lookups[:n], in)
		if r.Undefined != "" {
			break
		}
		var o []glyph.Info
		if pv, _ := mon.Try(func() { o = gtab.NewContext(list.LL, a.Gdef, list.Lookups[:n]).Apply(c06copy(in)) }); pv != nil {
			break
		}
		f := c06diff(o, r.Seq)
		fmt.Fprintf(&trace, "after lookups %v: library %s reference %s\n", list.Lookups[:n], c06fmtRun(o), c06fmtRun(r.Seq))
		if f != "" {
			culprit = c06kindsOf(list.LL[list.Lookups[n-1]], list.Gpos)
			field = f
			break
		}
	}
	if *desc == "" {
		*desc = c06describe(list.LL, list.Lookups, a.Gdef)
	}
	k.Fail("mismatch", "apply-differs:"+culprit+":"+field,
		"Context.Apply differs from the reference shaper (%s, first diverging lookup %s)\ninput     %s\nlibrary   %s\nreference %s\n%s%s",
		field, culprit, c06fmtRun(in), c06fmtRun(out), c06fmtRun(ref.Seq), *desc, trace.String())
	return true
}

func c06flagNames(list *otlmini.List) map[string]int {
	out := map[string]int{}
	for _, lt := range list.LL {
		fs := otlmini.ClassifyFlags(lt.Meta.LookupFlags)
		if fs >= 0 {
			out[fs.String()]++
		} else {
			out["other-combination"]++
		}
	}
	return out
}

func runC06(c *mon.Ctx) {
	c.Stratum("calibration", c06calibCount(), func(k *mon.Case) {
		c06calibrate(k, k.Index)
	})

	nKinds := len(c06allKinds)
	c.Stratum("exhaustive", c.N(1176, 30000), func(k *mon.Case) {
		r := k.Rng
		i := k.Index
		rot := int(c.Seed % 1000)
		kind := c06allKinds[(i+rot)%nKinds]
		fs := otlmini.FlagSet((i/nKinds + i%nKinds + rot) % int(otlmini.NumFlagSets))
		alpha := otlmini.Small()
		zero := (i/nKinds)%4 == 3 // the unclassified glyph is glyph 0
		if zero {
			alpha = otlmini.SmallX(0)
		}
		g := &otlmini.Gen{R: r, A: alpha}
		if r.IntN(3) == 0 {
			g.MaxSeq = 4 // longer rule inputs: room for a skipped glyph inside a three-component match
		}
		nTop := 1 + r.IntN(3)
		depth := 1 + r.IntN(2)
		list := g.GenList(kind, fs, nTop, depth, false)
		desc := c06describe(list.LL, list.Lookups, alpha.Gdef)
		k.Input([]byte(desc))
		st := &c06stats{undefined: map[string]int{}}
		seqs := c06sequences(zero)
		for _, gids := range seqs {
			if !c06check(k, st, alpha, list, gids, &desc) {
				break
			}
		}
		st.flagsSeen = map[string]int{fs.String(): st.judged}
		st.flush(k, "")
		k.DistinctCount(len(seqs))
		k.Class("list-primary:" + kind.String())
		if zero {
			k.Class("exhaustive:alphabet-with-glyph-0")
			if st.changed > 0 {
				k.Class("exhaustive:alphabet-with-glyph-0:output-differs-from-input")
			}
		}
		c06anchorClasses(k, st, list, "")
		k.Class(fmt.Sprintf("list-top-level-lookups:%d", nTop))
		if 2*st.judged >= len(seqs) {
			k.Class("list-majority-judged:" + kind.String())
		} else {
			k.Class("list-majority-undefined:" + kind.String())
		}
		k.Sample(map[string]any{"primary": kind.String(), "flags": fs.String(), "lookups": len(list.LL), "order": fmt.Sprint(list.Lookups),
			"judged": st.judged, "undefined": st.undefined, "changed": st.changed})
	})

	c06filterStratum(c)

	c.Stratum("random", c.N(15000, 350000), func(k *mon.Case) {
		r := k.Rng
		sizes := []int{6, 10, 20, 40, 100, 300}
		n := sizes[r.IntN(len(sizes))]
		maxGid := 400
		if r.IntN(3) == 0 {
			maxGid = 65535
		}
		alpha := otlmini.Random(r, n, maxGid)
		g := &otlmini.Gen{R: r, A: alpha, WildFlags: true, MaxSeq: 2 + r.IntN(4), MaxNested: 1 + r.IntN(6)}
		kind := c06allKinds[r.IntN(nKinds)]
		fs := otlmini.FlagSet(r.IntN(int(otlmini.NumFlagSets)))
		list := g.GenList(kind, fs, 1+r.IntN(6), 1+r.IntN(3), false)
		desc := c06describe(list.LL, list.Lookups, alpha.Gdef)
		k.Input([]byte(desc))
		st := &c06stats{undefined: map[string]int{}, textShapes: r.IntN(4) == 0}
		if k.Index%3 == 2 {
			// as applications get it: the lookups were read from a file
			if st.libLL = c06readBack(list); st.libLL != nil {
				k.Class("random:lookups-read-back")
			}
		}
		all := alpha.All()
		for j := 0; j < 10; j++ {
			gids := c06randomSeq(r, alpha, all)
			if !c06check(k, st, alpha, list, gids, &desc) {
				break
			}
			k.Distinct(desc, gids)
		}
		st.flagsSeen = c06flagNames(list)
		st.flush(k, "random:")
		k.Class("random-list-primary:" + kind.String())
		if alpha.Gdef == nil {
			k.Class("random-no-gdef")
		}
		c06anchorClasses(k, st, list, "random:")
		c06alphabetClasses(k, st, alpha, list)
		k.Class(fmt.Sprintf("random-list-lookups:%d", len(list.LL)))
		k.Sample(map[string]any{"primary": kind.String(), "alphabet": n, "lookups": len(list.LL), "judged": st.judged, "undefined": st.undefined})
	})

	// Class-based chaining context as files may store it: backtrack and lookahead
	// sequences classified by ONE class definition table (both offsets of the
	// subtable point at the same bytes) while the input sequence has its own.
	// The library's encoder never shares the tables, so the bytes are the
	// library's own with the lookahead offset re-pointed; the reference applies
	// the in-memory structure (Lookahead = Backtrack by content).
	c.Stratum("shared-classdefs", c.N(400, 8000), func(k *mon.Case) {
		r := k.Rng
		alpha := otlmini.Random(r, []int{6, 10, 20, 40}[r.IntN(4)], 400)
		g := &otlmini.Gen{R: r, A: alpha, WildFlags: true, MaxSeq: 2 + r.IntN(3), MaxNested: 1 + r.IntN(3)}
		kind := shaper.Gsub6_2
		if k.Index%2 == 1 {
			kind = shaper.Gpos8_2
		}
		fs := otlmini.FlagSet(r.IntN(int(otlmini.NumFlagSets)))
		list := g.GenList(kind, fs, 1+r.IntN(2), 1, false)
		shared := 0
		for _, l := range list.LL {
			for _, sub := range l.Subtables {
				if s, ok := sub.(*gtab.ChainedSeqContext2); ok {
					s.Lookahead = s.Backtrack
					shared++
				}
			}
		}
		desc := c06describe(list.LL, list.Lookups, alpha.Gdef)
		k.Input([]byte(desc))
		st := &c06stats{undefined: map[string]int{}}
		patched := 0
		mon.Try(func() {
			info := &gtab.Info{ScriptList: gtab.ScriptListInfo{}, FeatureList: gtab.FeatureListInfo{}, LookupList: list.LL}
			tp, ext, chain := gtab.Type(gtab.TypeGsub), 7, 6
			if list.Gpos {
				tp, ext, chain = gtab.Type(gtab.TypeGpos), 9, 8
			}
			enc := info.Encode()
			u16 := func(o int) int { return int(enc[o])<<8 | int(enc[o+1]) }
			lo := u16(8)
			for i, cnt := 0, u16(lo); i < cnt; i++ {
				loff := lo + u16(lo+2+2*i)
				typ := u16(loff)
				for j, ns := 0, u16(loff+4); j < ns; j++ {
					so, t := loff+u16(loff+6+2*j), typ
					if t == ext && u16(so) == 1 {
						t = u16(so + 2)
						so += u16(so+4)<<16 | u16(so+6)
					}
					if t == chain && u16(so) == 2 && u16(so+4) != 0 && u16(so+8) != 0 {
						enc[so+8], enc[so+9] = enc[so+4], enc[so+5]
						patched++
					}
				}
			}
			back, err := gtab.Read(bytes.NewReader(enc), tp)
			if err != nil {
				k.Fail("mismatch", "shared-classdefs:read-error", "gtab.Read rejects a class-based chaining context whose backtrack and lookahead offsets name one class definition table: %v", err)
				return
			}
			if len(back.LookupList) == len(list.LL) {
				st.libLL = back.LookupList
			}
		})
		if st.libLL == nil || patched == 0 || patched != shared {
			k.Skip("no shared class definition table in this list")
			return
		}
		k.Class("shared-classdefs:lookahead-and-backtrack-one-table")
		all := alpha.All()
		for j := 0; j < 12; j++ {
			gids := c06randomSeq(r, alpha, all)
			if !c06check(k, st, alpha, list, gids, &desc) {
				break
			}
			k.Distinct(desc, gids)
		}
		st.flagsSeen = c06flagNames(list)
		st.flush(k, "shared-classdefs:")
	})

	// coverage targets the generators are built to reach with a wide margin
	for _, kind := range c06allKinds {
		c.Require("match>=1000:"+kind.String(), "list-majority-judged:"+kind.String())
	}
	for fs := otlmini.FlagSet(0); fs < otlmini.NumFlagSets; fs++ {
		c.Require("flags:" + fs.String())
	}
	c.Require("random:lookups-read-back", "shared-classdefs:lookahead-and-backtrack-one-table", "skipped-glyphs-inside-match", "ligature-later-candidate-across-2-skipped",
		"calib:gsub-section1-reproduced", "calib:gsub-section2-reproduced", "calib:gsub-section3-reproduced",
		"calib:gsub-section5-reproduced", "calib:gpos-reproduced", "calib:flags-reproduced",
		"nested-depth:1", "nested-depth:2",
		"exhaustive:alphabet-with-glyph-0:output-differs-from-input",
		"random:glyph-0-in-input-alphabet:output-differs-from-input", "random:glyph-0-in-output-alphabet",
		"attach:mark-anchor-at-origin", "attach:mark-anchor-on-baseline", "attach:mark-anchor-below-baseline",
		"attach:base-anchor-on-baseline", "attach:base-anchor-below-baseline",
		"random:attach:mark-anchor-at-origin", "random:attach-with-mark-advances",
		"random:input-text-shapes:ligature-matched", "random:input-text-shapes:multiple-substitution-matched",
		"random:gdef-glyph-class>4", "random:gdef->=20-mark-glyph-sets", "random:gdef-mark-glyph-set->=300-glyphs")
}

// c06anchorClasses records attachment lookups whose mark anchors lie at the
// origin, on or below the baseline (the lists that matched at least once).
func c06anchorClasses(k *mon.Case, st *c06stats, list *otlmini.List, prefix string) {
	if st.matches[shaper.Gpos4_1]+st.matches[shaper.Gpos6_1] == 0 {
		return
	}
	for _, lt := range list.LL {
		for _, s := range lt.Subtables {
			var marks []markarray.Record
			var rows [][]anchor.Table
			switch s := s.(type) {
			case *gtab.Gpos4_1:
				marks, rows = s.MarkArray, s.BaseArray
			case *gtab.Gpos6_1:
				marks, rows = s.Mark1Array, s.Mark2Array
			default:
				continue
			}
			for _, m := range marks {
				switch {
				case m.X == 0 && m.Y == 0:
					k.Class(prefix + "attach:mark-anchor-at-origin")
				case m.Y == 0:
					k.Class(prefix + "attach:mark-anchor-on-baseline")
				case m.Y < 0:
					k.Class(prefix + "attach:mark-anchor-below-baseline")
				}
			}
			for _, row := range rows {
				for _, b := range row {
					switch {
					case b.X == 0 && b.Y == 0:
					case b.Y == 0:
						k.Class(prefix + "attach:base-anchor-on-baseline")
					case b.Y < 0:
						k.Class(prefix + "attach:base-anchor-below-baseline")
					}
				}
			}
		}
	}
}

// c06alphabetClasses records the alphabet shapes of the random part.
func c06alphabetClasses(k *mon.Case, st *c06stats, a *otlmini.Alphabet, list *otlmini.List) {
	for _, g := range a.In {
		if g == 0 {
			k.Class("random:glyph-0-in-input-alphabet")
			if st.changed > 0 {
				k.Class("random:glyph-0-in-input-alphabet:output-differs-from-input")
			}
		}
	}
	for _, g := range a.Out {
		if g == 0 {
			k.Class("random:glyph-0-in-output-alphabet")
		}
	}
	if st.textShapes && st.judged > 0 {
		k.Class("random:input-text-shapes")
		if st.matches[shaper.Gsub4_1] > 0 {
			k.Class("random:input-text-shapes:ligature-matched")
		}
		if st.matches[shaper.Gsub2_1] > 0 {
			k.Class("random:input-text-shapes:multiple-substitution-matched")
		}
	}
	if a.Gdef == nil {
		return
	}
	for _, g := range c06sortedClassKeys(a.Gdef.GlyphClass) {
		if a.Gdef.GlyphClass[g] > 4 {
			k.Class("random:gdef-glyph-class>4")
			break
		}
	}
	if len(a.Gdef.MarkGlyphSets) >= 20 {
		k.Class("random:gdef->=20-mark-glyph-sets")
	}
	for _, set := range a.Gdef.MarkGlyphSets {
		if len(set) >= 300 {
			k.Class("random:gdef-mark-glyph-set->=300-glyphs")
			break
		}
	}
	if a.MarkAdvance && list.Gpos && st.matches[shaper.Gpos4_1]+st.matches[shaper.Gpos6_1] > 0 {
		k.Class("random:attach-with-mark-advances")
	}
}

func c06sortedClassKeys(cd map[glyph.ID]uint16) []glyph.ID {
	keys := make([]glyph.ID, 0, len(cd))
	for g := range cd {
		keys = append(keys, g)
	}
	sort.Slice(keys, func(i, j int) bool { return keys[i] < keys[j] })
	return keys
}

// c06randomSeq draws a sequence of length 0..40, mostly over the input
// alphabet, with runs of repeated glyphs and a few foreign glyph ids.
func c06randomSeq(r *rand.Rand, a *otlmini.Alphabet, all []glyph.ID) []glyph.ID {
	n := r.IntN(41)
	if r.IntN(4) == 0 {
		n = r.IntN(8)
	}
	// a small working set makes rules match more often
	ws := make([]glyph.ID, 2+r.IntN(5))
	for i := range ws {
		ws[i] = a.In[r.IntN(len(a.In))]
	}
	out := make([]glyph.ID, n)
	for i := range out {
		switch x := r.IntN(20); {
		case x < 13:
			out[i] = ws[r.IntN(len(ws))]
		case x < 17:
			out[i] = a.In[r.IntN(len(a.In))]
		case x < 19:
			out[i] = all[r.IntN(len(all))]
		default:
			out[i] = glyph.ID(r.IntN(65536))
		}
	}
	return out
}
