package props

import (
	"verif/harness/internal/mon"
)

func init() {
	mon.RegisterCfg("C06", mon.Config{
		Rule: "TODO",
	}, runC06)
}

func runC06(c *mon.Ctx) {
	c.Stratum("calibration", c06calibCount(), func(k *mon.Case) {
		c06calibrate(k, k.Index)
	})
}
