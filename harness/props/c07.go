package props

import (
	"bytes"
	"encoding/binary"
	"fmt"
	"math/rand/v2"
	"sort"
	"strings"

	"golang.org/x/text/language"

	"seehuhn.de/go/postscript/funit"
	"seehuhn.de/go/sfnt/glyph"
	"seehuhn.de/go/sfnt/opentype/anchor"
	"seehuhn.de/go/sfnt/opentype/coverage"
	"seehuhn.de/go/sfnt/opentype/gdef"
	"seehuhn.de/go/sfnt/opentype/gtab"

	"verif/harness/internal/gen/otlmini"
	"verif/harness/internal/hooks"
	"verif/harness/internal/mon"
	"verif/harness/internal/ref/shaper"
)

// C07: shaping is safe, terminating, text-conserving and history-independent.
//
// Every table that is applied came out of gtab.Read / gdef.Read (after byte
// mutation or after encoding a deliberately hostile structure), or is a
// structure whose shape the reader delivered in the same case.  Per Apply
// call: panic capture, stack-empty hook, exactly-once conservation of the
// unique rune each input glyph carries, output length bound, equality with a
// fresh Context on a copy of the input.

func init() {
	mon.RegisterCfg("C07", mon.Config{
		Rule: "mutated: generated GSUB/GPOS/GDEF tables (alphabets with and without glyph 0, GDEF with glyph class values beyond 4, up to 120 mark glyph sets, sets of up to 2300 glyphs) are encoded, mutated at the byte level (0-4 mutations), re-read with gtab.Read/gdef.Read and applied to 4 sequences of length 0..200 over the full glyph id range (biased to glyphs the tables mention); " +
			"hostile: 17 named hostile shapes x 6 contextual formats built as structures, encoded, re-read (the shape must survive the round trip) and applied; the structure itself is applied as well; hostile-bytes: 9 hostile GSUB shapes (incl. aliasing (type, format) pairs and 5 subtable kinds x 8 inconsistent coverage tables) written byte by byte from the specification (no library encoder involved), read and applied; " +
			"history: one Context reused for 1..30 calls alternating benign and budget-exhausting inputs, each result compared with a fresh Context; layouter: sfnt.Layouter reused over several strings vs a fresh Layouter; " +
			"evaluations = Apply/Layout calls judged; distinct = distinct (table bytes, sequence) pairs Further: layouter histories with the same text laid out twice after the first result was edited in place; long-history (one Context over more than 2^22 and 2^23 subtable attempts, compared with new Contexts).",
		Assumptions: []string{
			"excluded as in the property: value records with YAdvance or device offsets and GPOS type 5 are removed from the decoded tables before Apply",
			"a panic of gtab.Read/gdef.Read on mutated bytes is the business of C02 and only counted here",
			"length bound: after each lookup len <= len_before*(1+64*(R-1)), R = longest replacement list of the whole lookup list",
			"input glyphs carry one unique rune each; conservation = every input rune occurs exactly once in the concatenated output text and no other rune occurs",
			"the cross-process repetition of the design is not implemented; repetitions are in-process (fresh Context, same input)",
		},
		HardSec: 60,
	}, runC07)
}

// c07tables is a set of decoded tables ready to be applied.
type c07tables struct {
	ll      gtab.LookupList
	gd      *gdef.Table
	gpos    bool
	data    []byte // the GSUB/GPOS table bytes the lookup list was read from (nil for direct structures)
	gdData  []byte
	desc    string
	viaRead bool
}

func c07info(ll gtab.LookupList) *gtab.Info {
	all := make([]gtab.LookupIndex, len(ll))
	for i := range all {
		all[i] = gtab.LookupIndex(i)
	}
	return &gtab.Info{
		ScriptList:  gtab.ScriptListInfo{language.MustParse("und-Zzzz"): {Required: 0}},
		FeatureList: gtab.FeatureListInfo{{Tag: "test", Lookups: all}},
		LookupList:  ll,
	}
}

// c07roundTrip encodes and re-reads a lookup list (optionally mutating the
// bytes in between).  A nil result means the encoder or reader refused.
func c07roundTrip(k *mon.Case, ll gtab.LookupList, gpos bool, mutate func([]byte) []byte) (gtab.LookupList, []byte, string) {
	var data []byte
	if pv, _ := mon.Try(func() { data = c07info(ll).Encode() }); pv != nil {
		return nil, nil, "encoder-panicked"
	}
	if mutate != nil {
		data = mutate(data)
	}
	tp := gtab.Type(gtab.TypeGsub)
	if gpos {
		tp = gtab.TypeGpos
	}
	k.Input(data)
	k.Step("gtab.Read")
	var info *gtab.Info
	var err error
	if pv, _ := mon.Try(func() { info, err = gtab.Read(bytes.NewReader(data), tp) }); pv != nil {
		return nil, data, "reader-panicked(C02)"
	}
	if err != nil {
		return nil, data, "reader-rejected"
	}
	if info == nil || len(info.LookupList) == 0 {
		return nil, data, "reader-empty"
	}
	return info.LookupList, data, ""
}

func c07gdefRoundTrip(k *mon.Case, gd *gdef.Table, mutate func([]byte) []byte) (*gdef.Table, []byte, string) {
	if gd == nil {
		return nil, nil, ""
	}
	var data []byte
	if pv, _ := mon.Try(func() { data = gd.Encode() }); pv != nil {
		return gd, nil, "gdef-encoder-panicked"
	}
	if mutate != nil {
		data = mutate(data)
	}
	k.Step("gdef.Read")
	var out *gdef.Table
	var err error
	if pv, _ := mon.Try(func() { out, err = gdef.Read(bytes.NewReader(data)) }); pv != nil {
		return gd, nil, "gdef-reader-panicked(C02)"
	}
	if err != nil {
		return gd, nil, "gdef-reader-rejected"
	}
	return out, data, ""
}

// ---- byte mutators ----

var c07interesting = []uint16{0, 1, 2, 3, 4, 6, 8, 0x10, 0x7F, 0xFF, 0x100, 0x7FFF, 0x8000, 0xFFFE, 0xFFFF}

func c07mutator(r *rand.Rand, n int) func([]byte) []byte {
	return func(b []byte) []byte {
		b = append([]byte(nil), b...)
		if len(b) < 12 {
			return b
		}
		// the lookup list starts at the offset stored in bytes 8..9; most
		// mutations go there
		lo := int(binary.BigEndian.Uint16(b[8:]))
		if lo <= 10 || lo >= len(b) || r.IntN(10) == 0 {
			lo = 0
		}
		for i := 0; i < n; i++ {
			span := len(b) - lo
			if span < 2 {
				break
			}
			pos := lo + r.IntN(span)
			switch r.IntN(8) {
			case 0: // bit flip
				b[pos] ^= 1 << r.IntN(8)
			case 1, 2, 3: // aligned 16-bit rewrite with an interesting value
				pos &^= 1
				if pos+2 <= len(b) {
					v := c07interesting[r.IntN(len(c07interesting))]
					switch r.IntN(4) {
					case 0:
						v = uint16(len(b))
					case 1:
						old := binary.BigEndian.Uint16(b[pos:])
						v = old + uint16(r.IntN(5)) - 2
					}
					binary.BigEndian.PutUint16(b[pos:], v)
				}
			case 4: // random byte
				b[pos] = byte(r.IntN(256))
			case 5: // copy a 2..8 byte block from elsewhere in the lookup list
				l := 2 + 2*r.IntN(4)
				src := lo + r.IntN(span)
				if pos+l <= len(b) && src+l <= len(b) {
					copy(b[pos:pos+l], append([]byte(nil), b[src:src+l]...))
				}
			case 6: // truncate
				if r.IntN(4) == 0 && pos > lo+8 {
					b = b[:pos]
				}
			case 7: // small increment/decrement of a byte
				b[pos] += byte(r.IntN(3)) - 1
			}
		}
		return b
	}
}

func c07gdefMutator(r *rand.Rand, n int) func([]byte) []byte {
	return func(b []byte) []byte {
		b = append([]byte(nil), b...)
		for i := 0; i < n && len(b) > 4; i++ {
			pos := 4 + r.IntN(len(b)-4)
			switch r.IntN(3) {
			case 0:
				b[pos] ^= 1 << r.IntN(8)
			case 1:
				pos &^= 1
				if pos+2 <= len(b) {
					binary.BigEndian.PutUint16(b[pos:], c07interesting[r.IntN(len(c07interesting))])
				}
			case 2:
				b[pos] = byte(r.IntN(256))
			}
		}
		return b
	}
}

// ---- sequences ----

func c07seq(r *rand.Rand, hot []glyph.ID, maxLen int) []glyph.ID {
	n := r.IntN(maxLen + 1)
	if r.IntN(4) == 0 {
		n = r.IntN(min(maxLen, 10) + 1)
	}
	out := make([]glyph.ID, n)
	var ws []glyph.ID
	if len(hot) > 0 {
		ws = make([]glyph.ID, 2+r.IntN(6))
		for i := range ws {
			ws[i] = hot[r.IntN(len(hot))]
		}
	}
	for i := range out {
		x := r.IntN(20)
		switch {
		case len(hot) > 0 && x < 11:
			out[i] = ws[r.IntN(len(ws))]
		case len(hot) > 0 && x < 16:
			out[i] = hot[r.IntN(len(hot))]
		case len(hot) > 0 && x < 17:
			out[i] = hot[r.IntN(len(hot))] + glyph.ID(r.IntN(3)) - 1
		case x < 18:
			out[i] = glyph.ID([]int{0, 1, 0xFFFF, 0xFFFE, 0x7FFF, 0x8000}[r.IntN(6)])
		default:
			out[i] = glyph.ID(r.IntN(65536))
		}
	}
	return out
}

// c07input: every glyph carries one unique rune; GPOS inputs carry a width.
func c07input(gids []glyph.ID, gpos bool, gd *gdef.Table) []glyph.Info {
	seq := make([]glyph.Info, len(gids))
	// in a third of the inputs the texts are pieces of one array, as a caller
	// gets them from []rune(s) (every piece has the rest in its capacity)
	var shared []rune
	if len(gids) > 0 && (len(gids)+int(gids[0]))%3 == 0 {
		shared = make([]rune, len(gids))
	}
	for i, gid := range gids {
		seq[i] = glyph.Info{GID: gid, Text: []rune{rune(0x4E00 + i)}}
		if shared != nil {
			shared[i] = rune(0x4E00 + i)
			seq[i].Text = shared[i : i+1]
		}
		if gpos && !gd.IsMark(gid) {
			seq[i].Advance = 500
		}
	}
	return seq
}

// c07bound is the length bound of the property: every outer step of a lookup
// starts at a distinct original position and can run at most 64 nested
// actions, each of which adds at most R-1 glyphs.
func c07bound(n int, ll gtab.LookupList, lookups []gtab.LookupIndex) int {
	R := c07maxRepl(ll)
	b := n
	for _, li := range lookups {
		if int(li) >= len(ll) {
			continue
		}
		b *= 1 + 64*(R-1)
		if b > 1<<40 {
			return 1 << 40
		}
	}
	return b
}

// c07maxLen picks the longest input that keeps the worst-case output small.
func c07maxLen(ll gtab.LookupList, lookups []gtab.LookupIndex) int {
	n := 200
	for n > 1 && c07bound(n, ll, lookups) > 400000 {
		n /= 2
	}
	return n
}

// ---- the oracle around one Apply call ----

type c07stats struct {
	applied   int
	changed   int
	maxExpand float64
	panics    int
}

func c07kinds(ll gtab.LookupList, lookups []gtab.LookupIndex, gpos bool) string {
	seen := map[string]bool{}
	var names []string
	for _, li := range lookups {
		if int(li) < len(ll) && ll[li] != nil {
			for _, s := range ll[li].Subtables {
				n := c06kindName(s, gpos)
				if !seen[n] {
					seen[n] = true
					names = append(names, n)
				}
			}
		}
	}
	sort.Strings(names)
	if len(names) > 3 {
		names = append(names[:3], "…")
	}
	return strings.Join(names, "+")
}

// c07try runs Apply and turns a panic into a violation whose witness names
// the library function that panicked.
func c07try(k *mon.Case, what string, fn func()) bool {
	pv, stack := mon.Try(fn)
	if pv == nil {
		return false
	}
	k.Fail("panic", "panic:"+mon.TopFrame(stack)+":"+mon.PanicClass(pv), "%s panicked: %v\n%s", what, pv, stack)
	return true
}

// c07apply applies the lookups to one input with the given (possibly reused)
// context and checks everything the property promises about a single call.
// It returns the output (nil after a panic).
func c07apply(k *mon.Case, st *c07stats, t *c07tables, lookups []gtab.LookupIndex, ctx *gtab.Context, gids []glyph.ID, what string) []glyph.Info {
	in := c07input(gids, t.gpos, t.gd)
	k.Step(fmt.Sprintf("%s Apply lookups=%v gids=%v", what, lookups, gids))
	var out []glyph.Info
	if c07try(k, "Context.Apply ("+what+")", func() { out = ctx.Apply(c06copy(in)) }) {
		st.panics++
		return nil
	}
	k.Eval()
	st.applied++
	describe := func() string {
		return fmt.Sprintf("lookups %v\ninput  %s\noutput %s\n%s", lookups, c06fmtRun(in), c06fmtRun(out), t.desc)
	}
	if n, ok := hooks.Pending(ctx); ok && n != 0 {
		k.Fail("mismatch", "context-stack-not-empty-after-apply", "%d nested frames left on the context stack after Apply returned\n%s", n, describe())
	}
	// conservation of text
	count := map[rune]int{}
	for _, g := range out {
		for _, r := range g.Text {
			count[r]++
		}
	}
	lost, dup, foreign := 0, 0, 0
	for i := range in {
		switch c := count[rune(0x4E00+i)]; {
		case c == 0:
			lost++
		case c > 1:
			dup++
		}
		delete(count, rune(0x4E00+i))
	}
	foreign = len(count)
	if lost+dup+foreign > 0 {
		var parts []string
		if lost > 0 {
			parts = append(parts, "lost")
		}
		if dup > 0 {
			parts = append(parts, "duplicated")
		}
		if foreign > 0 {
			parts = append(parts, "foreign")
		}
		k.Fail("mismatch", "text-not-conserved:"+strings.Join(parts, "+")+":"+c07kinds(t.ll, lookups, t.gpos),
			"text is not conserved: %d input runes lost, %d duplicated, %d foreign runes\n%s", lost, dup, foreign, describe())
	}
	// length bound
	if b := c07bound(len(in), t.ll, lookups); len(out) > b {
		k.Fail("mismatch", "output-longer-than-bound", "output has %d glyphs, bound is %d\n%s", len(out), b, describe())
	}
	if len(in) > 0 {
		if f := float64(len(out)) / float64(len(in)); f > st.maxExpand {
			st.maxExpand = f
		}
	}
	if c06diff(out, in) != "" {
		st.changed++
	}
	return out
}

// c07run applies the tables to the sequences.  With reuse one Context serves
// all calls; every result is compared with that of a fresh Context.
func c07run(k *mon.Case, st *c07stats, t *c07tables, lookups []gtab.LookupIndex, seqs [][]glyph.ID, reuse bool) {
	var shared *gtab.Context
	if reuse {
		shared = gtab.NewContext(t.ll, t.gd, lookups)
	}
	for i, gids := range seqs {
		ctx := shared
		if ctx == nil {
			ctx = gtab.NewContext(t.ll, t.gd, lookups)
		}
		out := c07apply(k, st, t, lookups, ctx, gids, fmt.Sprintf("call %d", i+1))
		if out == nil {
			if st.panics >= 3 {
				return
			}
			if reuse {
				// the state of a context after a panic is nobody's promise
				shared = gtab.NewContext(t.ll, t.gd, lookups)
			}
			continue
		}
		// the same input on a fresh context
		fresh := c07apply(k, st, t, lookups, gtab.NewContext(t.ll, t.gd, lookups), gids, fmt.Sprintf("fresh %d", i+1))
		if fresh == nil {
			continue
		}
		if i == 0 {
			// repetitions: the same input on two more fresh contexts
			for rep := 0; rep < 2; rep++ {
				again := c07apply(k, st, t, lookups, gtab.NewContext(t.ll, t.gd, lookups), gids, fmt.Sprintf("repeat %d", rep+1))
				if again != nil && c06diff(again, fresh) != "" {
					k.Fail("mismatch", "repeat-differs", "two fresh Contexts give different results on the same input\ninput %v\nfirst  %s\nsecond %s\nlookups %v\n%s",
						gids, c06fmtRun(fresh), c06fmtRun(again), lookups, t.desc)
				}
			}
		}
		if f := c06diff(out, fresh); f != "" {
			w := "repeat-differs"
			if reuse && i > 0 {
				w = "history:reused-context-differs-from-fresh"
			}
			k.Fail("mismatch", w, "call %d on the same input gives a different result (%s) than a fresh Context\ninput  %v\nreused %s\nfresh  %s\nlookups %v\n%s",
				i+1, f, gids, c06fmtRun(out), c06fmtRun(fresh), lookups, t.desc)
		}
	}
}

// c07alphabetClasses records alphabet and GDEF shapes of a case whose tables
// were applied: glyph 0 among the glyphs of the lookups, glyph class values
// beyond the four defined ones, many or large mark glyph sets (gd is the GDEF
// table as the reader delivered it; nil when the case runs without one).
func c07alphabetClasses(k *mon.Case, a *otlmini.Alphabet, gd *gdef.Table, prefix string) {
	for _, g := range a.In {
		if g == 0 {
			k.Class(prefix + "glyph-0-in-input-alphabet")
		}
	}
	for _, g := range a.Out {
		if g == 0 {
			k.Class(prefix + "glyph-0-in-output-alphabet")
		}
	}
	if gd == nil {
		return
	}
	for _, g := range c06sortedClassKeys(gd.GlyphClass) {
		if gd.GlyphClass[g] > 4 {
			k.Class(prefix + "gdef-glyph-class>4")
			break
		}
	}
	if len(gd.MarkGlyphSets) >= 20 {
		k.Class(prefix + "gdef->=20-mark-glyph-sets")
	}
	for _, set := range gd.MarkGlyphSets {
		if len(set) >= 300 {
			k.Class(prefix + "gdef-mark-glyph-set->=300-glyphs")
			break
		}
	}
}

func c07lookupOrder(r *rand.Rand, n int) []gtab.LookupIndex {
	var out []gtab.LookupIndex
	switch r.IntN(4) {
	case 0: // all, in order
		for i := 0; i < n; i++ {
			out = append(out, gtab.LookupIndex(i))
		}
	case 1: // random subset in order
		for i := 0; i < n; i++ {
			if r.IntN(2) == 0 {
				out = append(out, gtab.LookupIndex(i))
			}
		}
		if len(out) == 0 {
			out = append(out, gtab.LookupIndex(r.IntN(n)))
		}
	default: // up to 4 random picks, repetitions allowed
		for i, m := 0, 1+r.IntN(4); i < m; i++ {
			out = append(out, gtab.LookupIndex(r.IntN(n)))
		}
	}
	if len(out) > 6 {
		out = out[:6]
	}
	if r.IntN(10) == 0 {
		out = append(out, gtab.LookupIndex(n+r.IntN(3)))
	}
	return out
}

func c07flush(k *mon.Case, st *c07stats, prefix string) {
	if st.applied > 0 {
		k.ClassN(prefix+"apply-calls", st.applied)
	}
	if st.changed > 0 {
		k.ClassN(prefix+"output-differs-from-input", st.changed)
	}
	k.Max("expansion-factor", st.maxExpand)
}

func runC07(c *mon.Ctx) {
	if !hooks.On {
		c.Note("hooks unavailable: the stack-empty observation is lost, history independence is still compared")
	}
	allKinds := c06allKinds

	// (W1) valid tables, mutated bytes, re-read
	c.Stratum("mutated", c.N(16000, 400000), func(k *mon.Case) {
		r := k.Rng
		sizes := []int{5, 8, 20, 60}
		alpha := otlmini.Random(r, sizes[r.IntN(len(sizes))], []int{300, 65535}[r.IntN(2)])
		g := &otlmini.Gen{R: r, A: alpha, WildFlags: true, MaxSeq: 2 + r.IntN(4), MaxNested: 1 + r.IntN(4)}
		kind := allKinds[r.IntN(len(allKinds))]
		list := g.GenList(kind, otlmini.FlagSet(r.IntN(int(otlmini.NumFlagSets))), 1+r.IntN(4), 1+r.IntN(3), r.IntN(3) == 0)
		if list.Gpos && r.IntN(4) == 0 {
			// cursive attachment (GPOS 3) is outside the reference model of C06
			// but inside this property: any flag set, entry and exit anchors
			// present or not
			all := alpha.All() // (a fixed order)
			picked := map[glyph.ID]bool{}
			for i := 0; i < 2+r.IntN(5); i++ {
				picked[all[r.IntN(len(all))]] = true
			}
			var keys []glyph.ID
			for gid := range picked {
				keys = append(keys, gid)
			}
			sort.Slice(keys, func(i, j int) bool { return keys[i] < keys[j] })
			cov := coverage.Table{}
			var recs []gtab.EntryExitRecord
			anc := func() anchor.Table {
				if r.IntN(4) == 0 {
					return anchor.Table{}
				}
				return anchor.Table{X: funit.Int16(r.IntN(601) - 300), Y: funit.Int16(r.IntN(601) - 300)}
			}
			for i, gid := range keys {
				cov[gid] = i
				recs = append(recs, gtab.EntryExitRecord{Entry: anc(), Exit: anc()})
			}
			list.LL = append(list.LL, &gtab.LookupTable{Meta: g.Meta(3, otlmini.FlagSet(r.IntN(int(otlmini.NumFlagSets)))),
				Subtables: []gtab.Subtable{&gtab.Gpos3_1{Cov: cov, Records: recs}}})
			k.Class("mutated:with-cursive-attachment")
		}
		nMut := r.IntN(5)
		var mut func([]byte) []byte
		if nMut > 0 {
			mut = c07mutator(r, nMut)
		}
		ll, data, why := c07roundTrip(k, list.LL, list.Gpos, mut)
		if ll == nil {
			k.Skip(why)
			k.Class("mutated:" + why)
			return
		}
		var gmut func([]byte) []byte
		if r.IntN(3) == 0 {
			gmut = c07gdefMutator(r, 1+r.IntN(3))
		}
		gd, gdData, gwhy := c07gdefRoundTrip(k, alpha.Gdef, gmut)
		if gwhy != "" {
			k.Class("mutated:" + gwhy)
		}
		if r.IntN(10) == 0 {
			gd = nil
		}
		if n := c07sanitize(ll); n > 0 {
			k.ClassN("excluded-positioning-data-removed", n)
		}
		t := &c07tables{ll: ll, gd: gd, gpos: list.Gpos, data: data, gdData: gdData, viaRead: true}
		lookups := c07lookupOrder(r, len(ll))
		t.desc = c06describe(ll, lookups, gd)
		if len(t.desc) > 3000 {
			t.desc = t.desc[:3000] + "…"
		}
		for _, s := range c07classify(ll, gd, list.Gpos) {
			k.Class("delivered-by-reader:" + s)
		}
		k.Class(fmt.Sprintf("mutated:%d-mutations-accepted", nMut))
		hot := c07gids(ll, gd)
		maxLen := c07maxLen(ll, lookups)
		st := &c07stats{}
		var seqs [][]glyph.ID
		for i := 0; i < 4; i++ {
			seqs = append(seqs, c07seq(r, hot, maxLen))
		}
		c07run(k, st, t, lookups, seqs, r.IntN(2) == 0)
		for _, s := range seqs {
			k.Distinct(data, gdData, s)
		}
		c07flush(k, st, "mutated:")
		if st.applied > 0 {
			c07alphabetClasses(k, alpha, gd, "mutated:")
		}
		k.Sample(map[string]any{"primary": kind.String(), "mutations": nMut, "table-bytes": len(data), "lookups": len(ll), "order": fmt.Sprint(lookups), "applied": st.applied})
	})

	// (W2/W3) hostile shapes: structure -> bytes -> reader -> Apply, and the structure itself
	c.Stratum("hostile", c.N(6400, 160000), func(k *mon.Case) {
		r := k.Rng
		sh := c07buildShape(r, k.Index)
		desc := c07describeShape(sh)
		ll, data, why := c07roundTrip(k, sh.ll, sh.gpos, nil)
		if ll == nil {
			k.Class("hostile-not-delivered:" + sh.name + ":" + why)
			k.Skip("hostile-not-delivered:" + why)
			return
		}
		gd, gdData, _ := c07gdefRoundTrip(k, sh.gd, nil)
		// the reader must have delivered the hostile shape
		want := c07classify(sh.ll, sh.gd, sh.gpos)
		got := c07classify(ll, gd, sh.gpos)
		if strings.Join(want, ",") != strings.Join(got, ",") {
			k.Class("hostile-shape-changed-by-round-trip:" + sh.name)
			k.Skip("hostile-shape-changed-by-round-trip")
			return
		}
		k.Class("shape-delivered:" + sh.name)
		for _, s := range got {
			k.Class("delivered-by-reader:" + s)
		}
		st := &c07stats{}
		var seqs [][]glyph.ID
		maxLen := c07maxLen(ll, sh.lookups)
		for i := 0; i < 4; i++ {
			s := c07shapeSeq(r, sh)
			if len(s) > maxLen {
				s = s[:maxLen]
			}
			seqs = append(seqs, s)
		}
		t := &c07tables{ll: ll, gd: gd, gpos: sh.gpos, data: data, gdData: gdData, desc: desc, viaRead: true}
		c07run(k, st, t, sh.lookups, seqs, r.IntN(2) == 0)
		// the same shape as a direct structure (the reader delivered it above)
		t2 := &c07tables{ll: sh.ll, gd: sh.gd, gpos: sh.gpos, desc: desc}
		c07run(k, st, t2, sh.lookups, seqs[:2], false)
		if st.applied > 0 {
			k.Class("shape-applied:" + sh.name)
		}
		for _, s := range seqs {
			k.Distinct(data, s)
		}
		c07flush(k, st, "hostile:")
		k.Sample(map[string]any{"shape": sh.name, "table-bytes": len(data), "applied": st.applied})
	})

	// histories on one context
	c.Stratum("history", c.N(3200, 85000), func(k *mon.Case) {
		r := k.Rng
		var t *c07tables
		var lookups []gtab.LookupIndex
		var hot []glyph.ID
		var exhausting func() []glyph.ID
		if r.IntN(3) != 0 {
			// a shape that exhausts the budget or leaves frames behind
			pick := []int{1, 9, 10, 11, 12, 15, 0}[r.IntN(7)] // sequence-index-oob, self-ref, mutual, depth, many-actions, recursive-growth, lookup-index-oob
			sh := c07buildShape(r, pick)
			ll, data, why := c07roundTrip(k, sh.ll, sh.gpos, nil)
			if ll == nil {
				k.Skip("history-not-delivered:" + why)
				return
			}
			gd, _, _ := c07gdefRoundTrip(k, sh.gd, nil)
			t = &c07tables{ll: ll, gd: gd, gpos: sh.gpos, data: data, desc: c07describeShape(sh), viaRead: true}
			lookups = sh.lookups
			hot = sh.hot
			exhausting = func() []glyph.ID {
				s := c07shapeSeq(r, sh)
				if m := c07maxLen(ll, lookups); len(s) > m {
					s = s[:m]
				}
				return s
			}
			k.Class("history-shape:" + sh.name)
		} else {
			alpha := otlmini.Random(r, 6+r.IntN(20), 300)
			g := &otlmini.Gen{R: r, A: alpha, WildFlags: true, MaxNested: 4}
			list := g.GenList(allKinds[r.IntN(len(allKinds))], otlmini.FlagSet(r.IntN(int(otlmini.NumFlagSets))), 1+r.IntN(3), 1+r.IntN(3), true)
			ll, data, why := c07roundTrip(k, list.LL, list.Gpos, nil)
			if ll == nil {
				k.Skip("history-not-delivered:" + why)
				return
			}
			gd, _, _ := c07gdefRoundTrip(k, alpha.Gdef, nil)
			t = &c07tables{ll: ll, gd: gd, gpos: list.Gpos, data: data, viaRead: true}
			lookups = list.Lookups
			t.desc = c06describe(ll, lookups, gd)
			hot = c07gids(ll, gd)
			k.Class("history-shape:generated-valid")
		}
		calls := 1 + r.IntN(30)
		maxLen := c07maxLen(t.ll, lookups)
		var seqs [][]glyph.ID
		for i := 0; i < calls; i++ {
			if exhausting != nil && r.IntN(2) == 0 {
				seqs = append(seqs, exhausting())
			} else {
				seqs = append(seqs, c07seq(r, hot, min(maxLen, 30)))
			}
		}
		st := &c07stats{}
		// does any of the inputs exhaust the nested-action budget?  (asked of
		// the reference model, which counts nested actions)
		exhausted := 0
		for i, s := range seqs {
			if i >= 6 {
				break
			}
			var res *shaper.Result
			if pv, _ := mon.Try(func() { res = shaper.Apply(t.ll, t.gd, lookups, c07input(s, t.gpos, t.gd)) }); pv != nil || res == nil {
				continue // the reference is only asked for a coverage class here
			}
			if res.Undefined == shaper.UndefActionBudget || res.Undefined == shaper.UndefSeqIndex {
				exhausted++
			}
		}
		c07run(k, st, t, lookups, seqs, true)
		if exhausted > 0 && calls > 1 {
			k.Class("history-with-budget-exhaustion-followed-by-further-calls")
		}
		k.Class(fmt.Sprintf("history-calls:%s", c07bucket(calls)[1:]))
		for _, s := range seqs {
			k.Distinct(t.data, s)
		}
		c07flush(k, st, "history:")
		k.Sample(map[string]any{"calls": calls, "applied": st.applied, "exhausting-inputs-among-first-6": exhausted})
	})

	c07bytesStratum(c)
	c07layouter(c)
	c07longHistory(c)

	for _, name := range c07shapeNames {
		switch name {
		case "lookup-index-oob", "sequence-index-oob", "self-referential", "context-over-mark-with-marks-ignoring-ligature":
			for _, f := range c07ctxNames {
				c.Require("shape-applied:" + name + ":" + f)
			}
		case "rule-sets-shorter-than-classes":
			c.Require("shape-applied:"+name+":ctx2", "shape-applied:"+name+":chain2")
		case "nesting-depth", "many-actions":
			c.Require("shape-applied:"+name+":1-15", "shape-applied:"+name+":16-59", "shape-applied:"+name+":>64")
		default:
			c.Require("shape-applied:" + name)
		}
	}
	c.Require("layouter:same-text-again-after-the-result-was-edited", "layouter:substitute-beyond-the-last-glyph", "layouter:tied-language-systems", "history-with-budget-exhaustion-followed-by-further-calls",
		"delivered-by-reader:filtering-set-oob", "delivered-by-reader:empty-replacement:gsub2.1",
		"delivered-by-reader:recursive-lookups", "delivered-by-reader:nesting-depth>=64",
		"mutated:apply-calls", "mutated:1-mutations-accepted", "mutated:4-mutations-accepted", "layouter:layout-calls",
		"mutated:glyph-0-in-input-alphabet", "mutated:glyph-0-in-output-alphabet", "mutated:gdef-glyph-class>4",
		"mutated:gdef->=20-mark-glyph-sets", "mutated:gdef-mark-glyph-set->=300-glyphs")
}
