package props

import (
	"fmt"
	"math/rand/v2"
	"regexp"
	"runtime"
	"sort"
	"strconv"
	"strings"
	"sync"
	"time"

	"seehuhn.de/go/postscript/funit"
	"seehuhn.de/go/sfnt"
	"seehuhn.de/go/sfnt/cmap"
	"seehuhn.de/go/sfnt/glyf"
	"seehuhn.de/go/sfnt/glyph"
	"seehuhn.de/go/sfnt/opentype/gtab"
	"seehuhn.de/go/sfnt/opentype/gtab/builder"
	"seehuhn.de/go/sfnt/opentype/gtab/testcases"

	"verif/harness/internal/gen/otl"
	"verif/harness/internal/mon"
)

// C19: the lookup description language is a faithful, total notation.

func init() {
	mon.RegisterCfg("C19", mon.Config{
		Rule: "A: lookup lists from gen/otl restricted to what the language has syntax for (GSUB 1-6, GPOS 1-4, the 8 subsets of -marks/-ligs/-base, || alternatives where the syntax has them) are explained (ExplainGsub/ExplainGpos) and parsed back over fonts with names+cmap, names only, cmap only; each lookup alone and the whole list must come back equal (single substitutions compared as maps). B: descriptions generated from templates with every glyph notation (names, integers, quoted strings via the cmap incl. escapes, ranges, bracketed sets, classes, nested actions, flags, comments) are compared with the result of an independent mini-evaluator. C: arbitrary text (random bytes/runes, token soups, every single-token deletion/duplication/replacement of valid descriptions, unterminated strings, unmapped characters at every string position, very long lines) under GOMAXPROCS 1/2/4/16 with the race detector: Parse must return lookups or an error starting with a line number that exists in the input, must not panic in any goroutine (a panic outside the caller kills the worker and is attributed by the driver), must return before the hard bound, and must leave no goroutine with a frame in opentype/gtab/builder behind (census after every call, polling up to 2 s). distinct = distinct descriptions (hash); stratum roundtrip-font-changed: the same *sfnt.Font is described again after in-place changes (cmap permuted or removed, glyphs renamed, names removed) and the round trip must hold with the labels the font has now Stratum error-line: comments do not change the error of a broken description, and the error names the broken line.",
		Assumptions: []string{
			"expressible fragment: glyph names are lexable identifiers that are not keywords of the language; cmap characters are printable (a separate class probes non-printable ones); value records are nil or have a non-zero x/y/dx; alternates are sets; classes are contiguous and non-empty; mark classes 0..k-1 are all in use",
			"a line number is a number between 1 and the number of lines of the input (+1 for the position after a final newline)",
			"schedules are explored through GOMAXPROCS values and repetition, not enumerated",
		},
		HardSec:  60,
		Env:      []string{"GORACE=halt_on_error=0 exitcode=0 log_path={OUT}/race"},
		RaceLogs: true,
	}, runC19)
}

// ---------------------------------------------------------------------------
// fonts

const (
	c19both = iota
	c19namesOnly
	c19cmapOnly
)

var c19kindNames = []string{"names+cmap", "names-only", "cmap-only"}

type c19font struct {
	f     *sfnt.Font
	kind  int
	names []string          // "" when the font has no names
	runes map[glyph.ID]rune // one rune per mapped glyph
	lower map[rune]glyph.ID
	n     int
}

var c19namePool = func() []string {
	var out []string
	for c := 'A'; c <= 'Z'; c++ {
		out = append(out, string(c))
	}
	for c := 'a'; c <= 'z'; c++ {
		out = append(out, string(c))
	}
	out = append(out, "zero", "one", "two", "three", "space", "period", "comma", "hyphen", "f_i", "f_f_l", "a.sc", "b.sc", "one.lf",
		"uni0301", "uni20AC", "u1F600", "Aacute", "adieresis", "germandbls", "x.alt1", "_part.1", "Omega", "acutecomb", "gravecomb", "A.001", "glyph17")
	return out
}()

// printable characters, including those that need escaping inside a string
var c19runePool = []rune("ABCDEFGHIJKLMNOPQRSTUVWXYZabcdefghijklmnopqrstuvwxyz0123456789 .,;:!?-+*/=&@#|[](){}<>_'\"\\éßÄøΩжש中あ€")

func c19makeFont(r *rand.Rand, n, kind int, nonPrintable bool) *c19font {
	ft := &c19font{kind: kind, n: n, runes: map[glyph.ID]rune{}, lower: map[rune]glyph.ID{}}
	o := &glyf.Outlines{Glyphs: make(glyf.Glyphs, n), Widths: make([]funit.Int16, n)}
	if kind != c19cmapOnly {
		names := make([]string, n)
		names[0] = ".notdef"
		perm := r.Perm(len(c19namePool))
		for i := 1; i < n; i++ {
			if i-1 < len(perm) {
				names[i] = c19namePool[perm[i-1]]
			} else {
				names[i] = fmt.Sprintf("g%d", i)
			}
		}
		o.Names = names
		ft.names = names
	}
	f := &sfnt.Font{FamilyName: "Test", UnitsPerEm: 1000, Outlines: o}
	if kind != c19namesOnly {
		m := cmap.Format4{}
		perm := r.Perm(len(c19runePool))
		pi := 0
		for g := 1; g < n; g++ {
			if r.IntN(5) == 0 && kind == c19both {
				continue // unmapped glyph
			}
			var c rune
			if ft.names != nil && len([]rune(ft.names[g])) == 1 && r.IntN(2) == 0 {
				c = []rune(ft.names[g])[0] // name and character coincide
				if _, used := ft.lower[c]; used {
					continue
				}
			} else {
				for pi < len(perm) {
					c = c19runePool[perm[pi]]
					pi++
					if _, used := ft.lower[c]; !used {
						break
					}
					c = 0
				}
				if c == 0 {
					continue
				}
			}
			m[uint16(c)] = glyph.ID(g)
			ft.lower[c] = glyph.ID(g)
			ft.runes[glyph.ID(g)] = c
		}
		if nonPrintable && n > 2 {
			// e.g. the no-break space next to the space, as real fonts have
			// it; and glyphs that are mapped from control characters only
			// (".null" from U+0000 and U+0008, "nonmarkingreturn" from U+000D)
			pool := []rune{0x00A0, 0x00AD, 0x007F, 0x2028, 0x0000, 0x0001, 0x0007, 0x0008, 0x0009, 0x000A, 0x000B, 0x000C, 0x000D, 0x001B, 0x001D,
				0x0080, 0x0085, 0x009F, 0x200B, 0x200E, 0x2029, 0xD800, 0xDFFF, 0xE000, 0xFEFF, 0xFFFE, 0xFFFF}
			for rep := 0; rep < 1+r.IntN(3); rep++ {
				g := glyph.ID(1 + r.IntN(n-1))
				if old, ok := ft.runes[g]; ok && r.IntN(2) == 0 && strconv.IsPrint(old) {
					// no printable character leads to this glyph
					delete(m, uint16(old))
					delete(ft.lower, old)
					delete(ft.runes, g)
				}
				for j := 0; j < 1+r.IntN(2); j++ {
					c := pool[r.IntN(len(pool))]
					if rep == 0 && j == 0 {
						c = pool[r.IntN(4)]
					}
					if _, used := ft.lower[c]; used {
						continue
					}
					m[uint16(c)] = g
					ft.lower[c] = g
					if old, ok := ft.runes[g]; !ok || c > old {
						ft.runes[g] = c
					}
				}
			}
		}
		f.CMapTable = cmap.Table{{PlatformID: 3, EncodingID: 1}: m.Encode(0)}
	}
	ft.f = f
	return ft
}

var (
	c19stdOnce sync.Once
	c19std     *sfnt.Font // the font of the repository's own GSUB test cases: A..Z with names and cmap
)

func c19stdFont() *sfnt.Font {
	c19stdOnce.Do(func() {
		g, err := testcases.NewFontGen()
		if err == nil {
			c19std, err = g.GsubTestFont(0)
		}
		if err != nil {
			panic("cannot build the test font: " + err.Error())
		}
		c19std.Gsub, c19std.Gpos = nil, nil
	})
	c := *c19std
	return &c
}

// ---------------------------------------------------------------------------
// goroutine census

var (
	c19leakCount int
	c19leaked    = map[string]bool{} // ids of goroutines already reported
	c19goHeader  = regexp.MustCompile(`^goroutine (\d+) \[([^\]]*)\]`)
	c19frame     = regexp.MustCompile(`(?m)^seehuhn\.de/go/sfnt/opentype/gtab/builder\.([^\s(]+)`)
)

// c19builderGoroutines returns the goroutines (other than the caller) that
// have a frame in the builder package: id -> innermost builder function.
func c19builderGoroutines() map[string]string {
	buf := make([]byte, 1<<20)
	for {
		n := runtime.Stack(buf, true)
		if n < len(buf) {
			buf = buf[:n]
			break
		}
		buf = make([]byte, 2*len(buf))
	}
	out := map[string]string{}
	for i, g := range strings.Split(string(buf), "\n\n") {
		if i == 0 {
			continue // the calling goroutine comes first
		}
		h := c19goHeader.FindStringSubmatch(g)
		if h == nil {
			continue
		}
		if m := c19frame.FindStringSubmatch(g); m != nil {
			out[h[1]] = m[1] + " [" + strings.SplitN(h[2], ",", 2)[0] + "]"
		}
	}
	return out
}

// c19census is called after Parse has returned; before is runtime.NumGoroutine()
// from before the call.
func c19census(k *mon.Case, before int, what string) {
	k.Class("census")
	if runtime.NumGoroutine() <= before {
		return
	}
	if c19leakCount >= 4 {
		// The verdict of this worker is settled; waiting 2 s for every
		// further leak would only exhaust the time budget.
		k.Class("census:not-awaited-after-repeated-leaks")
		return
	}
	// A goroutine counts as left behind when it is still there after 2 s of
	// polling (and at least 200 polls, in case this process was not scheduled
	// for a while).  One that is still running or runnable at that point is
	// given 20 s more: only a goroutine that stays blocked, or never finishes,
	// is a leak.
	start := time.Now()
	for polls := 0; ; polls++ {
		runtime.Gosched()
		if runtime.NumGoroutine() <= before {
			k.Class("census:goroutines-finished-after-return")
			return
		}
		fresh := map[string]string{}
		busy := false
		for id, fn := range c19builderGoroutines() {
			if !c19leaked[id] {
				fresh[id] = fn
				if strings.Contains(fn, "[running]") || strings.Contains(fn, "[runnable]") {
					busy = true
				}
			}
		}
		if len(fresh) == 0 {
			return // the extra goroutines are not the library's
		}
		el := time.Since(start)
		if polls >= 200 && ((el > 2*time.Second && !busy) || el > 22*time.Second) {
			fn := ""
			for id, f := range fresh {
				c19leaked[id] = true
				if fn == "" || f < fn {
					fn = f
				}
			}
			c19leakCount++
			k.Fail("leak", "c19:goroutine-leak:"+what+":"+fn, "%d goroutine(s) of the builder package are still alive %.1f s after Parse returned: %v", len(fresh), el.Seconds(), fresh)
			return
		}
		time.Sleep(time.Millisecond)
	}
}

// c19parse runs builder.Parse under the monitors shared by all strata: input
// journalled first, panic capture in the calling goroutine, goroutine census.
func c19parse(k *mon.Case, f *sfnt.Font, text, what string) (ll gtab.LookupList, err error, ok bool) {
	k.Input([]byte(text))
	before := runtime.NumGoroutine()
	if k.Guard("builder.Parse", func() { ll, err = builder.Parse(f, text) }) {
		c19census(k, before, what)
		return nil, nil, false
	}
	k.Eval()
	c19census(k, before, what)
	return ll, err, true
}

var c19lineRe = regexp.MustCompile(`^(\d+):`)

// c19errorLine checks that a parse error carries a line number of the input.
func c19errorLine(k *mon.Case, text string, err error, what string) {
	m := c19lineRe.FindStringSubmatch(err.Error())
	if m == nil {
		k.Fail("mismatch", "c19:error-without-line-number:"+what, "Parse returned an error that does not start with a line number: %q", err.Error())
		return
	}
	line, _ := strconv.Atoi(m[1])
	lines := 1 + strings.Count(text, "\n")
	if line < 1 || line > lines {
		k.Fail("mismatch", "c19:error-line-not-in-input:"+what, "Parse reports line %d, the input has lines 1..%d: %q", line, lines, err.Error())
	}
}

func c19errClass(err error) string {
	s := err.Error()
	if i := strings.Index(s, ": "); i >= 0 {
		s = s[i+2:] // drop "line:token"
	}
	for _, cut := range []string{`"`, `'`, "[", "U+", ":", ","} {
		if i := strings.Index(s, cut); i >= 0 {
			s = s[:i]
		}
	}
	s = mon.PanicClass(strings.TrimSpace(s))
	if len(s) > 40 {
		s = s[:40]
	}
	return s
}

// ---------------------------------------------------------------------------
// canonical form for comparison

type c19lookup struct {
	Type  uint16
	Flags gtab.LookupFlags
	Set   uint16
	Subs  []any
}

// c19canon replaces single-substitution subtables by glyph maps (the language
// does not express the choice between formats 1 and 2).
func c19canon(ll gtab.LookupList, gsub bool) []c19lookup {
	out := make([]c19lookup, len(ll))
	for i, l := range ll {
		c := c19lookup{Type: l.Meta.LookupType, Flags: l.Meta.LookupFlags, Set: l.Meta.MarkFilteringSet}
		for _, s := range l.Subtables {
			switch t := s.(type) {
			case *gtab.Gsub1_1:
				m := map[glyph.ID]glyph.ID{}
				for g := range t.Cov {
					m[g] = g + t.Delta
				}
				c.Subs = append(c.Subs, m)
			case *gtab.Gsub1_2:
				m := map[glyph.ID]glyph.ID{}
				for g, idx := range t.Cov {
					if idx >= 0 && idx < len(t.SubstituteGlyphIDs) {
						m[g] = t.SubstituteGlyphIDs[idx]
					}
				}
				c.Subs = append(c.Subs, m)
			default:
				c.Subs = append(c.Subs, s)
			}
		}
		out[i] = c
	}
	return out
}

func c19explain(f *sfnt.Font, tt int, ll gtab.LookupList) string {
	if tt == otl.GSUB {
		f.Gsub, f.Gpos = &gtab.Info{LookupList: ll}, nil
		return builder.ExplainGsub(f)
	}
	f.Gsub, f.Gpos = nil, &gtab.Info{LookupList: ll}
	return strings.Join(builder.ExplainGpos(f), "\n")
}

func c19flagName(f gtab.LookupFlags) string {
	s := ""
	if f&gtab.IgnoreMarks != 0 {
		s += "m"
	}
	if f&gtab.IgnoreLigatures != 0 {
		s += "l"
	}
	if f&gtab.IgnoreBaseGlyphs != 0 {
		s += "b"
	}
	if s == "" {
		return "none"
	}
	return s
}

var c19flagSets = func() []gtab.LookupFlags {
	var out []gtab.LookupFlags
	for m := 0; m < 8; m++ {
		var f gtab.LookupFlags
		if m&1 != 0 {
			f |= gtab.IgnoreMarks
		}
		if m&2 != 0 {
			f |= gtab.IgnoreLigatures
		}
		if m&4 != 0 {
			f |= gtab.IgnoreBaseGlyphs
		}
		out = append(out, f)
	}
	return out
}()

type c19typ struct{ tt, lt int }

var c19types = []c19typ{{otl.GSUB, 1}, {otl.GSUB, 2}, {otl.GSUB, 3}, {otl.GSUB, 4}, {otl.GSUB, 5}, {otl.GSUB, 6}, {otl.GPOS, 1}, {otl.GPOS, 2}, {otl.GPOS, 3}, {otl.GPOS, 4}}

func c19typeName(t c19typ) string { return fmt.Sprintf("%s%d", c08typeName(t.tt), t.lt) }

// c19roundTrip explains and re-parses ll; scen names the lookup type for the
// witness class.  It returns the description.
func c19roundTrip(k *mon.Case, ft *c19font, tt int, ll gtab.LookupList, scen string) (string, bool) {
	var text string
	k.Step("Explain " + scen)
	if k.Guard("builder.Explain", func() { text = c19explain(ft.f, tt, ll) }) {
		return "", false
	}
	back, err, ok := c19parse(k, ft.f, text, "roundtrip")
	if !ok {
		return text, false
	}
	w := "c19:roundtrip:" + scen + ":" + c19kindNames[ft.kind]
	if err != nil {
		k.Fail("mismatch", w+":parse-error:"+c19errClass(err), "Parse(Explain(L)) fails: %v\n--- description ---\n%s", err, text)
		return text, false
	}
	if d := c08diff(c19canon(ll, tt == otl.GSUB), c19canon(back, tt == otl.GSUB)); d != "" {
		k.Fail("mismatch", w+":differs", "Parse(Explain(L)) != L at %s\n--- description ---\n%s\n--- L ---\n%s\n--- parsed ---\n%s", d, text, c19dump(ll), c19dump(back))
		return text, false
	}
	return text, true
}

func c19dump(ll gtab.LookupList) string {
	var b strings.Builder
	for i, l := range ll {
		fmt.Fprintf(&b, "%d: type %d flags %#x:", i, l.Meta.LookupType, l.Meta.LookupFlags)
		for _, s := range l.Subtables {
			v := fmt.Sprintf(" %s%+v", c08subName(s), s)
			if len(v) > 600 {
				v = v[:600] + "…"
			}
			b.WriteString(v)
		}
		b.WriteString("\n")
	}
	return b.String()
}

// ---------------------------------------------------------------------------

func uniqueSorted(a []glyph.ID) []glyph.ID {
	sort.Slice(a, func(i, j int) bool { return a[i] < a[j] })
	var out []glyph.ID
	for i, g := range a {
		if i == 0 || g != a[i-1] {
			out = append(out, g)
		}
	}
	return out
}

func runC19(c *mon.Ctx) {
	// --- A: Parse(Explain(L)) == L --------------------------------------------
	c.Stratum("roundtrip", c.N(2400, 100000), func(k *mon.Case) {
		r := k.Rng
		i := k.Index
		tp := c19types[i%len(c19types)]
		i /= len(c19types)
		flags := c19flagSets[i%8]
		i /= 8
		kind := i % 3
		n := 6 + r.IntN(40)
		if r.IntN(4) == 0 {
			n = 3 + r.IntN(4)
		}
		ft := c19makeFont(r, n, kind, false)
		if go_ := ft.f.Outlines.(*glyf.Outlines); go_.Names != nil && r.IntN(5) == 0 {
			// names for the first glyphs only (a names list may be shorter than
			// the glyph list): the rest is written by character or by number
			go_.Names = go_.Names[:1+r.IntN(n-1)]
			k.Class("font:short-names-list")
		}
		nl := 1 + r.IntN(4)
		o := otl.Opts{DSL: true, MaxGID: n - 1, NumLookups: nl, Size: otl.Tiny}
		if r.IntN(3) == 0 {
			o.Size = otl.Small
		}
		o.Types = nil
		ll := otl.LookupList(r, tp.tt, o)
		ll[0] = otl.Lookup(r, tp.tt, tp.lt, o)
		ll[0].Meta.LookupFlags = flags
		if tp.tt == otl.GSUB && tp.lt == 4 && r.IntN(3) == 0 && n >= 8 {
			// ligatures over runs of consecutive glyphs, some of them with a
			// single component: the shapes Explain abbreviates as ranges
			start := r.IntN(n - 6)
			run := 3 + r.IntN(4)
			delta := r.IntN(n - (start + run) + 1)
			if r.IntN(2) == 0 {
				delta = -r.IntN(start + 1)
			}
			var gids []glyph.ID
			repl := make([][]gtab.Ligature, run)
			for j := 0; j < run; j++ {
				g := glyph.ID(start + j)
				gids = append(gids, g)
				repl[j] = []gtab.Ligature{{Out: glyph.ID(int(g) + delta)}}
				if r.IntN(6) == 0 {
					repl[j][0].In = []glyph.ID{glyph.ID(r.IntN(n))}
				}
				if r.IntN(8) == 0 {
					repl[j] = append(repl[j], gtab.Ligature{In: []glyph.ID{glyph.ID(r.IntN(n))}, Out: glyph.ID(r.IntN(n))})
				}
			}
			ll[0].Subtables = []gtab.Subtable{&gtab.Gsub4_1{Cov: otl.TableOf(gids), Repl: repl}}
			k.Class("gsub4-runs")
		}
		allOK := true
		// each lookup alone, then the list
		for j, l := range ll {
			name := fmt.Sprintf("%s%d", c08typeName(tp.tt), l.Meta.LookupType)
			if len(l.Subtables) > 0 {
				name += fmt.Sprintf(".%d", c08format(l.Subtables[0]))
			}
			if len(l.Subtables) > 1 {
				name += "+alternatives"
			}
			if _, ok := c19roundTrip(k, ft, tp.tt, gtab.LookupList{l}, name); !ok {
				allOK = false
				if j == 0 {
					break
				}
				continue
			}
			k.Class("explained:" + name)
			if j == 0 {
				k.Class("matrix:" + c19typeName(tp) + ":" + c19flagName(flags))
				k.Class("font:" + c19kindNames[kind])
			}
		}
		if !allOK || k.Failed() {
			return
		}
		text, ok := c19roundTrip(k, ft, tp.tt, ll, "list")
		if !ok {
			return
		}
		k.DistinctBytes([]byte(text))
		// is the description a fixed point?  (recorded, not judged)
		if back, err, ok := c19parse(k, ft.f, text, "roundtrip"); ok && err == nil {
			if c19explain(ft.f, tp.tt, back) == text {
				k.Class("explain-fixed-point")
			} else {
				k.Class("explain-not-a-fixed-point")
			}
		}
		k.Sample(text)
	})

	// large subtables: more than a dozen rules, many of them sharing a first
	// glyph (the order of ligatures with a common first glyph is their priority)
	c.Stratum("roundtrip-large", c.N(300, 20000), func(k *mon.Case) {
		r := k.Rng
		n := 30 + r.IntN(40)
		ft := c19makeFont(r, n, k.Index%3, false)
		nFirst := 2 + r.IntN(5)
		firsts := map[glyph.ID]bool{}
		for len(firsts) < nFirst {
			firsts[glyph.ID(1+r.IntN(n-1))] = true
		}
		var gids []glyph.ID
		for g := range firsts {
			gids = append(gids, g)
		}
		sort.Slice(gids, func(i, j int) bool { return gids[i] < gids[j] })
		var lookup *gtab.LookupTable
		total := 0
		switch k.Index / 3 % 3 {
		case 0: // ligatures, with prefix-related component lists
			repl := make([][]gtab.Ligature, len(gids))
			for i := range gids {
				seen := map[string]bool{}
				for m := 4 + r.IntN(12); m > 0; m-- {
					var in []glyph.ID
					if len(repl[i]) > 0 && r.IntN(2) == 0 {
						// a proper prefix of an earlier rule comes later, or an extension comes later
						prev := repl[i][r.IntN(len(repl[i]))].In
						if len(prev) > 1 && r.IntN(2) == 0 {
							in = append(in, prev[:len(prev)-1]...)
						} else {
							in = append(append(in, prev...), glyph.ID(1+r.IntN(n-1)))
						}
					} else {
						for q := 1 + r.IntN(3); q > 0; q-- {
							in = append(in, glyph.ID(1+r.IntN(n-1)))
						}
					}
					if len(in) == 0 || len(in) > 5 || seen[fmt.Sprint(in)] {
						continue
					}
					seen[fmt.Sprint(in)] = true
					repl[i] = append(repl[i], gtab.Ligature{In: in, Out: glyph.ID(1 + r.IntN(n-1))})
				}
				if len(repl[i]) == 0 {
					repl[i] = []gtab.Ligature{{In: []glyph.ID{1}, Out: 2}}
				}
				total += len(repl[i])
			}
			lookup = &gtab.LookupTable{Meta: &gtab.LookupMetaInfo{LookupType: 4}, Subtables: []gtab.Subtable{&gtab.Gsub4_1{Cov: otl.TableOf(gids), Repl: repl}}}
			k.Class("large:gsub4")
		case 1: // multiple substitution with many entries
			var all []glyph.ID
			for g := 1; g < n; g++ {
				if r.IntN(2) == 0 {
					all = append(all, glyph.ID(g))
				}
			}
			if len(all) < 13 {
				for g := 1; g <= 14 && g < n; g++ {
					all = append(all, glyph.ID(g))
				}
				all = uniqueSorted(all)
			}
			repl := make([][]glyph.ID, len(all))
			for i := range repl {
				for q := 1 + r.IntN(3); q > 0; q-- {
					repl[i] = append(repl[i], glyph.ID(1+r.IntN(n-1)))
				}
			}
			total = len(all)
			lookup = &gtab.LookupTable{Meta: &gtab.LookupMetaInfo{LookupType: 2}, Subtables: []gtab.Subtable{&gtab.Gsub2_1{Cov: otl.TableOf(all), Repl: repl}}}
			k.Class("large:gsub2")
		default: // single substitution with many scattered entries
			var all []glyph.ID
			for g := 1; g < n; g++ {
				if r.IntN(3) != 0 {
					all = append(all, glyph.ID(g))
				}
			}
			sub := make([]glyph.ID, len(all))
			for i := range sub {
				sub[i] = glyph.ID(1 + r.IntN(n-1))
			}
			total = len(all)
			lookup = &gtab.LookupTable{Meta: &gtab.LookupMetaInfo{LookupType: 1}, Subtables: []gtab.Subtable{&gtab.Gsub1_2{Cov: otl.TableOf(all), SubstituteGlyphIDs: sub}}}
			k.Class("large:gsub1")
		}
		if total > 12 {
			k.Class("large:more-than-12-rules")
		}
		// Explain ranges over maps: repeat, so that several iteration orders are seen
		for rep := 0; rep < 6; rep++ {
			text, ok := c19roundTrip(k, ft, otl.GSUB, gtab.LookupList{lookup}, fmt.Sprintf("large-GSUB%d", lookup.Meta.LookupType))
			if !ok {
				return
			}
			if rep == 0 {
				k.DistinctBytes([]byte(text))
			}
		}
	})

	// cmaps with non-printable characters (no-break space etc.), as real fonts have them
	c.Stratum("roundtrip-nonprintable", c.N(300, 10000), func(k *mon.Case) {
		r := k.Rng
		tp := c19types[k.Index%len(c19types)]
		n := 4 + r.IntN(8)
		ft := c19makeFont(r, n, []int{c19both, c19cmapOnly}[k.Index/len(c19types)%2], true)
		o := otl.Opts{DSL: true, MaxGID: n - 1, NumLookups: 1, Size: otl.Tiny}
		ll := gtab.LookupList{otl.Lookup(r, tp.tt, tp.lt, o)}
		if _, ok := c19roundTrip(k, ft, tp.tt, ll, "nonprintable-cmap"); ok {
			k.Class("nonprintable-cmap:equal")
		}
	})

	// the same *sfnt.Font value described again after it was changed in
	// place (a new character map installed, the map removed, glyphs renamed):
	// every description must be written in the labels the font has now
	c.Stratum("roundtrip-font-changed", c.N(400, 12000), func(k *mon.Case) {
		r := k.Rng
		tp := c19types[k.Index%len(c19types)]
		n := 6 + r.IntN(30)
		ft := c19makeFont(r, n, c19both, false)
		o := otl.Opts{DSL: true, MaxGID: n - 1, NumLookups: 1, Size: otl.Tiny}
		ll := gtab.LookupList{otl.Lookup(r, tp.tt, tp.lt, o)}
		if _, ok := c19roundTrip(k, ft, tp.tt, ll, "font-changed:before"); !ok {
			return
		}
		for round := 0; round < 3; round++ {
			f := ft.f
			change := []string{"cmap-permuted", "cmap-removed", "glyphs-renamed", "names-removed"}[r.IntN(4)]
			ol := f.Outlines.(*glyf.Outlines)
			switch change {
			case "cmap-permuted", "cmap-removed":
				if f.CMapTable == nil || change == "cmap-removed" && ol.Names == nil {
					// restore a map instead (a font needs names or a map)
					change = "cmap-permuted"
				}
				if change == "cmap-removed" {
					f.CMapTable = nil
					break
				}
				m := cmap.Format4{}
				perm := r.Perm(len(c19runePool))
				for g := 1; g < n && g-1 < len(perm); g++ {
					if r.IntN(6) > 0 {
						m[uint16(c19runePool[perm[g-1]])] = glyph.ID(g)
					}
				}
				if r.IntN(2) == 0 {
					f.InstallCMap(m)
				} else {
					f.CMapTable = cmap.Table{{PlatformID: 3, EncodingID: 1}: m.Encode(0)}
				}
			case "glyphs-renamed", "names-removed":
				if change == "names-removed" && f.CMapTable == nil {
					change = "glyphs-renamed"
				}
				if change == "names-removed" {
					ol.Names = nil
					break
				}
				names := make([]string, n)
				names[0] = ".notdef"
				perm := r.Perm(len(c19namePool))
				for i := 1; i < n; i++ {
					if i-1 < len(perm) {
						names[i] = c19namePool[perm[i-1]]
					} else {
						names[i] = fmt.Sprintf("g%d", i)
					}
				}
				if ol.Names != nil && r.IntN(2) == 0 {
					copy(ol.Names, names) // the same slice, new content
				} else {
					ol.Names = names
				}
			}
			ft.kind = c19both
			switch {
			case f.CMapTable == nil:
				ft.kind = c19namesOnly
			case ol.Names == nil:
				ft.kind = c19cmapOnly
			}
			if _, ok := c19roundTrip(k, ft, tp.tt, ll, "font-changed:"+change); !ok {
				return
			}
			k.Class("font-changed:" + change)
		}
	})

	c19meaning(c)
	c19totality(c)

	var req []string
	for _, t := range c19types {
		for _, f := range c19flagSets {
			req = append(req, "matrix:"+c19typeName(t)+":"+c19flagName(f))
		}
	}
	req = append(req, "font:names+cmap", "font:names-only", "font:cmap-only", "census",
		"gomaxprocs:1", "gomaxprocs:2", "gomaxprocs:4", "gomaxprocs:16", "outcome:error", "outcome:lookups")
	c.Require(req...)
	c.Require("large:gsub4", "large:gsub2", "large:gsub1", "large:more-than-12-rules")
	c.Require("font:short-names-list", "font-changed:cmap-permuted", "font-changed:cmap-removed", "font-changed:glyphs-renamed", "font-changed:names-removed")
}
