package props

import (
	"encoding/binary"
	"fmt"
	"math/rand/v2"
	"sort"

	"seehuhn.de/go/sfnt/cmap"
)

// Character map subtables in formats the library does not decode (it keeps
// their bytes when it reads a font): trimmed array (10), many-to-one ranges
// (13), variation sequences (14) and a byte encoding table for a Macintosh
// script other than Roman.  A subset may leave such a subtable out; if it
// has one, the glyph indices in it must be those of the subset.

type c10exotic struct {
	kind string
	key  cmap.Key
	data []byte
}

// c10exoticDecode returns code -> glyph (0 entries left out); for format 14
// the code is selector<<24 | base.
func c10exoticDecode(kind string, b []byte) (map[uint64]uint32, bool) {
	be := binary.BigEndian
	m := map[uint64]uint32{}
	switch kind {
	case "format13":
		if len(b) < 16 || be.Uint16(b) != 13 {
			return nil, false
		}
		n := int(be.Uint32(b[12:]))
		if len(b) < 16+12*n {
			return nil, false
		}
		for i := 0; i < n; i++ {
			s, e, g := be.Uint32(b[16+12*i:]), be.Uint32(b[20+12*i:]), be.Uint32(b[24+12*i:])
			if e < s || e-s > 100000 {
				return nil, false
			}
			for c := s; c <= e; c++ {
				if g != 0 {
					m[uint64(c)] = g
				}
			}
		}
	case "format10":
		if len(b) < 20 || be.Uint16(b) != 10 {
			return nil, false
		}
		s, n := be.Uint32(b[12:]), int(be.Uint32(b[16:]))
		if len(b) < 20+2*n {
			return nil, false
		}
		for i := 0; i < n; i++ {
			if g := be.Uint16(b[20+2*i:]); g != 0 {
				m[uint64(s)+uint64(i)] = uint32(g)
			}
		}
	case "format14":
		if len(b) < 10 || be.Uint16(b) != 14 {
			return nil, false
		}
		n := int(be.Uint32(b[6:]))
		if len(b) < 10+11*n {
			return nil, false
		}
		for i := 0; i < n; i++ {
			rec := b[10+11*i:]
			sel := uint64(rec[0])<<16 | uint64(rec[1])<<8 | uint64(rec[2])
			off := int(be.Uint32(rec[7:]))
			if off == 0 {
				continue
			}
			if off+4 > len(b) {
				return nil, false
			}
			cnt := int(be.Uint32(b[off:]))
			if off+4+5*cnt > len(b) {
				return nil, false
			}
			for j := 0; j < cnt; j++ {
				e := b[off+4+5*j:]
				base := uint64(e[0])<<16 | uint64(e[1])<<8 | uint64(e[2])
				if g := be.Uint16(e[3:]); g != 0 {
					m[sel<<24|base] = uint32(g)
				}
			}
		}
	case "format0-mac-japanese":
		if len(b) != 262 || be.Uint16(b) != 0 {
			return nil, false
		}
		for c := 0; c < 256; c++ {
			if b[6+c] != 0 {
				m[uint64(c)] = uint32(b[6+c])
			}
		}
	default:
		return nil, false
	}
	return m, true
}

// c10exoticMake builds one such subtable over glyphs 1..n-1.
func c10exoticMake(r *rand.Rand, n int) c10exotic {
	be := binary.BigEndian
	gid := func(limit int) int { return 1 + r.IntN(min(n, limit)-1) }
	switch r.IntN(4) {
	case 0:
		ng := 1 + r.IntN(4)
		b := make([]byte, 16+12*ng)
		be.PutUint16(b, 13)
		be.PutUint32(b[4:], uint32(len(b)))
		be.PutUint32(b[12:], uint32(ng))
		start := uint32(0x20 + r.IntN(0x100))
		for i := 0; i < ng; i++ {
			end := start + uint32(r.IntN(40))
			be.PutUint32(b[16+12*i:], start)
			be.PutUint32(b[20+12*i:], end)
			be.PutUint32(b[24+12*i:], uint32(gid(0x10000)))
			start = end + 1 + uint32(r.IntN(0x3000))
		}
		return c10exotic{"format13", cmap.Key{PlatformID: 0, EncodingID: 6}, b}
	case 1:
		cnt := 1 + r.IntN(30)
		b := make([]byte, 20+2*cnt)
		be.PutUint16(b, 10)
		be.PutUint32(b[4:], uint32(len(b)))
		be.PutUint32(b[12:], uint32(0x1F600+r.IntN(100)))
		be.PutUint32(b[16:], uint32(cnt))
		for i := 0; i < cnt; i++ {
			if r.IntN(4) != 0 {
				be.PutUint16(b[20+2*i:], uint16(gid(0x10000)))
			}
		}
		return c10exotic{"format10", cmap.Key{PlatformID: 0, EncodingID: 6}, b}
	case 2:
		nsel := 1 + r.IntN(2)
		var tail []byte
		b := make([]byte, 10+11*nsel)
		be.PutUint16(b, 14)
		be.PutUint32(b[6:], uint32(nsel))
		for i := 0; i < nsel; i++ {
			sel := 0xFE00 + i
			rec := b[10+11*i:]
			rec[0], rec[1], rec[2] = byte(sel>>16), byte(sel>>8), byte(sel)
			be.PutUint32(rec[7:], uint32(len(b)+len(tail)))
			cnt := 1 + r.IntN(5)
			t := make([]byte, 4+5*cnt)
			be.PutUint32(t, uint32(cnt))
			bases := map[int]bool{}
			for len(bases) < cnt {
				bases[0x41+r.IntN(60)] = true
			}
			var sorted []int
			for c := range bases {
				sorted = append(sorted, c)
			}
			sort.Ints(sorted)
			for j, base := range sorted {
				e := t[4+5*j:]
				e[0], e[1], e[2] = byte(base>>16), byte(base>>8), byte(base)
				be.PutUint16(e[3:], uint16(gid(0x10000)))
			}
			tail = append(tail, t...)
		}
		b = append(b, tail...)
		be.PutUint32(b[2:], uint32(len(b)))
		return c10exotic{"format14", cmap.Key{PlatformID: 0, EncodingID: 5}, b}
	default:
		b := make([]byte, 262)
		be.PutUint16(b[2:], 262)
		for i := 0; i < 10+r.IntN(60); i++ {
			b[6+0x20+r.IntN(0xE0)] = byte(gid(256))
		}
		return c10exotic{"format0-mac-japanese", cmap.Key{PlatformID: 1, EncodingID: 1}, b}
	}
}

func (x c10exotic) String() string { return fmt.Sprintf("%s under key %v", x.kind, x.key) }
