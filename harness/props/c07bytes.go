package props

import (
	"bytes"
	"fmt"
	"math/rand/v2"
	"strings"

	"seehuhn.de/go/sfnt/glyph"
	"seehuhn.de/go/sfnt/opentype/gdef"
	"seehuhn.de/go/sfnt/opentype/gtab"

	ob "verif/harness/internal/gen/otlbytes"
	"verif/harness/internal/mon"
)

// Hostile GSUB tables written byte by byte from the specification
// (internal/gen/otlbytes), independent of the library's encoders.

type c07byteShape struct {
	name   string
	expect string // shape the classifier must find in what the reader delivers
	table  []byte
	gdef   []byte
	detail string     // variant, for the coverage classes
	hot    []glyph.ID // glyphs for the input sequences (default: the usual six)
}

var c07byteShapeNames = []string{"bytes:multiple-empty-sequence", "bytes:alternate-empty-set", "bytes:context2-short-rule-sets",
	"bytes:filtering-set-oob", "bytes:context3-bad-indices", "bytes:chain3-deep-and-recursive", "bytes:context3-many-actions",
	"bytes:subtable-format-alias", "bytes:coverage-inconsistent"}

func c07buildBytes(r *rand.Rand, which int) *c07byteShape {
	x, y, a, m := int(hX), int(hY), int(hA), int(hM)
	single := ob.Lookup(1, 0, -1, ob.Single2([]int{x, y}, []int{y, x}))
	classes := make([]int, 21) // glyphs 10..30
	classes[a-x] = 1
	classes[m-x] = 3
	sh := &c07byteShape{name: c07byteShapeNames[which%len(c07byteShapeNames)], gdef: ob.Gdef(x, classes, 1, m)}
	switch sh.name {
	case "bytes:multiple-empty-sequence":
		sh.expect = "empty-replacement:gsub2.1"
		sh.table = ob.Table(ob.Lookup(2, 0, -1, ob.Multiple([]int{x, y}, [][]int{{}, {x, x}})))
	case "bytes:alternate-empty-set":
		sh.expect = "empty-alternates:gsub3.1"
		sh.table = ob.Table(ob.Lookup(3, 0, -1, ob.Alternate([]int{x, y}, [][]int{{}, {x, y}})))
	case "bytes:context2-short-rule-sets":
		sh.expect = "rule-sets-shorter-than-classes:gsub5.2"
		hi := 2 + r.IntN(5)
		ctx := ob.Context2([]int{x, y}, ob.ClassDef(x, 1, hi), [][]ob.ClassRule{nil, {{Actions: []ob.SeqLookup{{SequenceIndex: 0, LookupListIndex: 1}}}}})
		sh.table = ob.Table(ob.Lookup(5, 0, -1, ctx), single)
	case "bytes:filtering-set-oob":
		sh.expect = "filtering-set-oob"
		nSets := r.IntN(3)
		sh.gdef = ob.Gdef(x, classes, nSets, m)
		lig := ob.Ligature([]int{x}, [][]ob.Lig{{{Rest: []int{x}, Out: x}, {Rest: []int{m}, Out: y}}})
		sh.table = ob.Table(ob.Lookup(4, 0x10, nSets+r.IntN(4), lig))
	case "bytes:context3-bad-indices":
		sh.expect = "lookup-index-oob:gsub5.3"
		acts := []ob.SeqLookup{{SequenceIndex: 1 + r.IntN(9), LookupListIndex: 1}, {SequenceIndex: 0, LookupListIndex: 2 + r.IntN(9)}, {SequenceIndex: 0, LookupListIndex: 1}}
		r.Shuffle(len(acts), func(i, j int) { acts[i], acts[j] = acts[j], acts[i] })
		sh.table = ob.Table(ob.Lookup(5, 0, -1, ob.Context3([][]int{{x}}, acts)), single)
	case "bytes:chain3-deep-and-recursive":
		sh.expect = "recursive-lookups"
		d := 1 + r.IntN(80)
		var lookups [][]byte
		for i := 0; i < d; i++ {
			lookups = append(lookups, ob.Lookup(6, 0, -1, ob.Chain3(nil, [][]int{{x}}, nil, []ob.SeqLookup{{SequenceIndex: 0, LookupListIndex: i + 1}})))
		}
		// the last one grows the run and calls the first again
		lookups = append(lookups, ob.Lookup(6, 0, -1, ob.Chain3(nil, [][]int{{x}}, nil, []ob.SeqLookup{{SequenceIndex: 0, LookupListIndex: d + 1}, {SequenceIndex: 0, LookupListIndex: 0}})))
		lookups = append(lookups, ob.Lookup(2, 0, -1, ob.Multiple([]int{x}, [][]int{{x, y}})))
		sh.table = ob.Table(lookups...)
	case "bytes:subtable-format-alias":
		// (lookup type, subtable format) pairs outside the defined ones whose
		// "10*type+format" coincides with a defined pair: format 11 in a type 6
		// lookup (= 7.1, extension), format 11 in a type 1 lookup (= 2.1), type
		// 6560 format 7 (= 7.1 modulo 2^16).  Whatever the reader makes of them
		// must be safe to apply.
		sh.expect = ""
		ext := append([]byte{0, 11, 0, 1, 0, 0, 0, 8}, ob.Single2([]int{x, y}, []int{y, x})...)
		switch r.IntN(4) {
		case 0:
			sh.table = ob.Table(ob.Lookup(6, 0, -1, ob.Chain3(nil, [][]int{{y}}, nil, []ob.SeqLookup{{SequenceIndex: 0, LookupListIndex: 1}}), ext), single)
		case 1:
			sh.table = ob.Table(ob.Lookup(6, 0, -1, ext), single)
		case 2:
			mult := ob.Multiple([]int{x, y}, [][]int{{y}, {x, x}})
			mult[0], mult[1] = 0, 11
			sh.table = ob.Table(ob.Lookup(1, 0, -1, mult))
		default:
			e7 := append([]byte{0, 7, 0, 7, 0, 0, 0, 8}, append([]byte{0, 1, 0, 1, 0, 0, 0, 8}, ob.Single2([]int{x, y}, []int{y, x})...)...)
			sh.table = ob.Table(ob.Lookup(6560, 0, -1, e7))
		}
	case "bytes:coverage-inconsistent":
		// A subtable with n per-coverage-index records whose coverage table
		// is not the bijection glyphs -> 0..n-1 the specification asks for:
		// ranges sharing a glyph, overlapping ranges, gaps and repeats in the
		// start coverage indices, more glyphs than records, unsorted or
		// duplicated glyph lists.  A reader may refuse it; whatever it
		// delivers must be safe to apply to the glyphs at the tail.
		sh.expect = ""
		n := 2 + r.IntN(5)
		g0 := x
		seq := func(n int) []int { // placeholder coverage g0..g0+n-1
			out := make([]int, n)
			for i := range out {
				out[i] = g0 + i
			}
			return out
		}
		var sub []byte
		lt := 1
		switch r.IntN(5) {
		case 0:
			sub = ob.Single2(seq(n), seq(n))
		case 1:
			lt = 2
			seqs := make([][]int, n)
			for i := range seqs {
				seqs[i] = []int{y, x}[:1+i%2]
			}
			sub = ob.Multiple(seq(n), seqs)
		case 2:
			sets := make([][]int, n)
			for i := range sets {
				sets[i] = []int{x, y}
			}
			sub, lt = ob.Alternate(seq(n), sets), 3
		case 3:
			lt = 4
			sets := make([][]ob.Lig, n)
			for i := range sets {
				sets[i] = []ob.Lig{{Rest: []int{x}, Out: y}, {Rest: nil, Out: x}}
			}
			sub = ob.Ligature(seq(n), sets)
		default:
			lt = 5
			sets := make([][]ob.ClassRule, 2)
			sets[1] = []ob.ClassRule{{Actions: []ob.SeqLookup{{SequenceIndex: 0, LookupListIndex: 1}}}}
			sub = ob.Context2(seq(n), ob.ClassDef(x, 1, 1, 1, 1, 1, 1, 1, 1), sets)
		}
		var cov []byte
		a := 1 + r.IntN(n-1) // glyphs in the first range
		variant := r.IntN(8)
		sh.detail = fmt.Sprintf("gsub%d:%s", lt, []string{"ranges-share-glyph", "ranges-overlap", "index-gap", "index-repeats", "more-glyphs-than-records",
			"all-glyphs", "duplicate-glyph", "descending"}[variant])
		switch variant {
		case 0: // the second range starts with the glyph the first one ends with
			cov = ob.CoverageRanges([3]int{g0, g0 + a - 1, 0}, [3]int{g0 + a - 1, g0 + n - 1, a})
		case 1: // overlapping ranges
			cov = ob.CoverageRanges([3]int{g0, g0 + n - 1, 0}, [3]int{g0 + 1, g0 + n, n})
		case 2: // gap in the start coverage indices
			cov = ob.CoverageRanges([3]int{g0, g0 + a - 1, 0}, [3]int{g0 + a, g0 + n - 1, a + 1 + r.IntN(3)})
		case 3: // start coverage index repeats
			cov = ob.CoverageRanges([3]int{g0, g0 + a - 1, 0}, [3]int{g0 + a, g0 + n - 1, 0})
		case 4: // more glyphs than records
			cov = ob.Coverage(seq(n + 1 + r.IntN(20))...)
		case 5: // one range over (almost) all glyphs
			cov = ob.CoverageRanges([3]int{r.IntN(3), 0xFFFF - r.IntN(2), 0})
		case 6: // duplicated glyphs in a list
			l := seq(n)
			l = append(l[:a], l[a-1:]...)
			cov = ob.Coverage(l...)
		default: // descending list, or a range which ends before it starts
			if r.IntN(2) == 0 {
				l := seq(n)
				for i, j := 0, len(l)-1; i < j; i, j = i+1, j-1 {
					l[i], l[j] = l[j], l[i]
				}
				cov = ob.Coverage(l...)
			} else {
				cov = ob.CoverageRanges([3]int{g0, g0 + a - 1, 0}, [3]int{g0 + n - 1, g0 + a, a})
			}
		}
		sh.table = ob.Table(ob.Lookup(lt, 0, -1, ob.ReplaceCoverage(sub, cov)), single)
		for i := 0; i <= n+1; i++ {
			sh.hot = append(sh.hot, glyph.ID(g0+i), glyph.ID(g0+n-1), glyph.ID(g0+n))
		}
	case "bytes:context3-many-actions":
		sh.expect = "actions-over-budget:gsub5.3"
		var acts []ob.SeqLookup
		for i, n := 0, 64+r.IntN(140); i < n; i++ {
			acts = append(acts, ob.SeqLookup{SequenceIndex: r.IntN(2), LookupListIndex: 1 + r.IntN(2)})
		}
		sh.table = ob.Table(ob.Lookup(5, 0, -1, ob.Context3([][]int{{x}, {x}}, acts)), single,
			ob.Lookup(2, 0, -1, ob.Multiple([]int{x}, [][]int{{x, y}})))
	}
	return sh
}

func c07bytesStratum(c *mon.Ctx) {
	c.Stratum("hostile-bytes", c.N(1400, 35000), func(k *mon.Case) {
		r := k.Rng
		sh := c07buildBytes(r, k.Index+k.Index/16)
		k.Input(sh.table)
		k.Step("gtab.Read")
		var info *gtab.Info
		var err error
		if pv, _ := mon.Try(func() { info, err = gtab.Read(bytes.NewReader(sh.table), gtab.TypeGsub) }); pv != nil {
			k.Class("bytes-not-delivered:" + sh.name + ":reader-panicked(C02)")
			k.Skip("bytes-not-delivered:reader-panicked(C02)")
			return
		}
		if err != nil || info == nil || len(info.LookupList) == 0 {
			k.Class("bytes-not-delivered:" + sh.name)
			k.Class("bytes-not-delivered-or-applied:" + sh.name)
			if sh.detail != "" {
				k.Class("refused:" + sh.detail)
			}
			k.Skip(fmt.Sprintf("bytes-not-delivered:%v", err))
			return
		}
		var gd *gdef.Table
		if pv, _ := mon.Try(func() { gd, err = gdef.Read(bytes.NewReader(sh.gdef)) }); pv != nil || err != nil {
			k.Class("bytes-gdef-not-delivered:" + sh.name)
			gd = nil
		}
		got := c07classify(info.LookupList, gd, false)
		if sh.expect != "" && !strings.Contains(","+strings.Join(got, ",")+",", ","+sh.expect+",") {
			k.Class("bytes-shape-not-found-after-read:" + sh.name)
			k.Skip("bytes-shape-not-found-after-read")
			return
		}
		k.Class("shape-delivered:" + sh.name)
		for _, s := range got {
			k.Class("delivered-by-reader:" + s)
		}
		var lookups []gtab.LookupIndex
		if r.IntN(2) == 0 {
			lookups = []gtab.LookupIndex{0}
		} else {
			lookups = c07lookupOrder(r, len(info.LookupList))
		}
		t := &c07tables{ll: info.LookupList, gd: gd, data: sh.table, viaRead: true}
		t.desc = "shape " + sh.name + "\n" + c06describe(t.ll, lookups, gd)
		if len(t.desc) > 3000 {
			t.desc = t.desc[:3000] + "…"
		}
		hot := &c07shape{hot: []glyph.ID{hX, hX, hX, hY, hM, hA}}
		if sh.hot != nil {
			hot.hot = sh.hot
		}
		maxLen := c07maxLen(t.ll, lookups)
		var seqs [][]glyph.ID
		for i := 0; i < 4; i++ {
			s := c07shapeSeq(r, hot)
			if len(s) > maxLen {
				s = s[:maxLen]
			}
			seqs = append(seqs, s)
		}
		st := &c07stats{}
		c07run(k, st, t, lookups, seqs, r.IntN(2) == 0)
		if st.applied > 0 {
			k.Class("shape-applied:" + sh.name)
			if sh.detail != "" {
				k.Class("applied:" + sh.detail)
			}
			k.Class("bytes-not-delivered-or-applied:" + sh.name)
		}
		for _, s := range seqs {
			k.Distinct(sh.table, s)
		}
		c07flush(k, st, "hostile-bytes:")
		k.Sample(map[string]any{"shape": sh.name, "table-bytes": len(sh.table), "applied": st.applied})
	})
	for _, n := range c07byteShapeNames {
		if n == "bytes:subtable-format-alias" || n == "bytes:coverage-inconsistent" {
			// a reader that refuses these tables is right; the shape is only
			// applied if the reader delivers something
			c.Require("bytes-not-delivered-or-applied:" + n)
			continue
		}
		c.Require("shape-applied:" + n)
	}
}
