package props

import (
	"bytes"
	"crypto/sha256"
	"fmt"
	"reflect"
	"slices"
	"sort"
	"strings"

	"golang.org/x/text/language"
	"seehuhn.de/go/postscript/cid"
	"seehuhn.de/go/postscript/funit"
	"seehuhn.de/go/sfnt"
	"seehuhn.de/go/sfnt/cff"
	"seehuhn.de/go/sfnt/cmap"
	"seehuhn.de/go/sfnt/glyf"
	"seehuhn.de/go/sfnt/glyph"
	"seehuhn.de/go/sfnt/opentype/gtab"

	"verif/harness/internal/gen/fontgen"
	"verif/harness/internal/mon"
	"verif/harness/internal/ref/cffmini"
	"verif/harness/internal/ref/cmapref"
	"verif/harness/internal/ref/sfntwalk"
)

// C10: subsetting keeps every selected glyph intact and consistently re-indexed.

func init() {
	mon.RegisterCfg("C10", mon.Config{
		Rule: "generated fonts (TrueType with nested/shared composites, simple CFF with built-in encodings, CID-keyed CFF with several font dictionaries; GSUB 1.1/4.1 and GPOS 2.1 only, no GDEF) x duplicate-free glyph lists starting with 0 (every size class, random order, cutting through composites, ligature components and kerning pairs); glyphs are identified by a content signature (recursive outline, box, width, name, CID, private dictionary, font matrix) so that the new->old map is recovered without trusting the subsetter; every cmap key and every code point, every encoding slot, every kerning pair and every substitution rule are compared through that map; the subset is written and read back. distinct = distinct (font, list) pairs (hash) The glyph list is reused by the caller after Subset; undecoded character map subtables (formats 10, 13, 14, Macintosh non-Roman) must be left out or right; fully used built-in encodings.",
		Assumptions: []string{
			"glyphs whose content signature is not unique in the original font are excluded from the clauses that need the inverse index map (counted as skipped)",
			"layout data restricted to what the subsetter declares supported (GSUB 1.1/4.1, GPOS 2.1, no GDEF)",
		},
	}, runC10)
}

type sigger struct {
	f     *sfnt.Font
	cache map[int]string
}

func hashStr(parts ...any) string {
	h := sha256.New()
	fmt.Fprint(h, parts...)
	return fmt.Sprintf("%x", h.Sum(nil)[:10])
}

// outlineSig is the recursive outline signature of TrueType glyph gid.
func (s *sigger) outlineSig(o *glyf.Outlines, gid int, depth int) string {
	if depth > 16 || gid >= len(o.Glyphs) {
		return "bad-ref"
	}
	g := o.Glyphs[gid]
	if g == nil {
		return "nil"
	}
	switch d := g.Data.(type) {
	case glyf.SimpleGlyph:
		return hashStr("simple", g.Rect16, d.NumContours, d.Encoded)
	case glyf.CompositeGlyph:
		parts := []any{"composite", g.Rect16, d.Instructions == nil, d.Instructions}
		for _, c := range d.Components {
			parts = append(parts, uint16(c.Flags), c.Data, s.outlineSig(o, int(c.GlyphIndex), depth+1))
		}
		return hashStr(parts...)
	}
	return "?"
}

// sig is the full content signature of glyph gid.
func (s *sigger) sig(gid int) string {
	if v, ok := s.cache[gid]; ok {
		return v
	}
	var v string
	switch o := s.f.Outlines.(type) {
	case *glyf.Outlines:
		// a names list may be shorter than the glyph list (the remaining glyphs
		// have no name), and a font read from a file without hmtx has no widths
		name := ""
		if gid < len(o.Names) {
			name = o.Names[gid]
		}
		var w funit.Int16
		if gid < len(o.Widths) {
			w = o.Widths[gid]
		}
		v = hashStr(s.outlineSig(o, gid, 0), w, name)
	case *cff.Outlines:
		g := o.Glyphs[gid]
		parts := []any{g.Name, g.Width, g.HStem, g.VStem}
		for _, c := range g.Cmds {
			parts = append(parts, c.Op, c.Args)
		}
		fd := o.FDSelect(glyph.ID(gid))
		parts = append(parts, fmt.Sprintf("%+v", *o.Private[fd]))
		if o.IsCIDKeyed() {
			parts = append(parts, "cid", o.GIDToCID[gid], o.FontMatrices[fd])
		}
		v = hashStr(parts...)
	}
	s.cache[gid] = v
	return v
}

type gsubRule struct {
	lookup int
	in     string
	out    string
}

// gsubRules flattens GSUB 1.x/4.1 lookups into (lookup, input glyphs, output glyph) through name().
func gsubRules(info *gtab.Info, name func(glyph.ID) string) ([]string, bool) {
	var rules []string
	if info == nil {
		return nil, true
	}
	for _, l := range info.LookupList {
		// within one lookup the first subtable that covers a glyph decides;
		// rules of later subtables for the same glyph are shadowed
		decided := map[glyph.ID]bool{}
		for _, st := range l.Subtables {
			switch s := st.(type) {
			case *gtab.Gsub1_1:
				var here []glyph.ID
				for g := range s.Cov {
					if decided[g] {
						continue
					}
					here = append(here, g)
					rules = append(rules, fmt.Sprintf("%s -> %s", name(g), name(g+s.Delta)))
				}
				for _, g := range here {
					decided[g] = true
				}
			case *gtab.Gsub1_2:
				var here []glyph.ID
				for g, idx := range s.Cov {
					if idx >= len(s.SubstituteGlyphIDs) {
						return nil, false
					}
					if decided[g] {
						continue
					}
					here = append(here, g)
					rules = append(rules, fmt.Sprintf("%s -> %s", name(g), name(s.SubstituteGlyphIDs[idx])))
				}
				for _, g := range here {
					decided[g] = true
				}
			case *gtab.Gsub4_1:
				for g, idx := range s.Cov {
					if idx >= len(s.Repl) {
						return nil, false
					}
					for _, lig := range s.Repl[idx] {
						in := name(g)
						for _, x := range lig.In {
							in += " " + name(x)
						}
						rules = append(rules, fmt.Sprintf("%s -> %s", in, name(lig.Out)))
					}
				}
			default:
				return nil, false
			}
		}
	}
	sort.Strings(rules)
	return rules, true
}

func c10list(k *mon.Case, f *sfnt.Font, n int, info *fontgen.Info) []glyph.ID {
	r := k.Rng
	var list []glyph.ID
	list = append(list, 0)
	if len(info.ChainInputs) > 0 && r.IntN(2) == 0 {
		// the components of a ligature chain without the ligature glyphs: the
		// subsetter has to add those over several rounds
		avoid := map[glyph.ID]bool{}
		for _, g := range info.ChainOutputs {
			avoid[g] = true
		}
		in := append([]glyph.ID{}, info.ChainInputs...)
		for _, i := range r.Perm(n - 1)[:r.IntN(min(n-1, 6))] {
			if g := glyph.ID(i + 1); !avoid[g] {
				in = append(in, g)
			}
		}
		in = uniqueSorted(in)
		r.Shuffle(len(in), func(i, j int) { in[i], in[j] = in[j], in[i] })
		k.Class("list:ligature-chain-components-only")
		return append(list, in...)
	}
	if co, ok := f.Outlines.(*cff.Outlines); ok && co.Encoding != nil && r.IntN(2) == 0 {
		// a simple CFF font with (nearly) all 256 codes in use: every glyph is
		// kept, neighbours stay together and the pairs are shuffled - about
		// 128 runs of codes, which the format can still express
		encoded := 0
		for _, g := range co.Encoding {
			if g != 0 {
				encoded++
			}
		}
		if encoded >= 250 {
			// the encoded glyphs first (the format wants them at the front),
			// the others behind them
			isEnc := make([]bool, n)
			for _, g := range co.Encoding {
				if int(g) < n {
					isEnc[g] = true
				}
			}
			var pairs [][]glyph.ID
			var rest []glyph.ID
			for i := 1; i < n; i++ {
				switch {
				case !isEnc[i]:
					rest = append(rest, glyph.ID(i))
				case len(pairs) > 0 && len(pairs[len(pairs)-1]) == 1 && pairs[len(pairs)-1][0] == glyph.ID(i-1):
					pairs[len(pairs)-1] = append(pairs[len(pairs)-1], glyph.ID(i))
				default:
					pairs = append(pairs, []glyph.ID{glyph.ID(i)})
				}
			}
			r.Shuffle(len(pairs), func(i, j int) { pairs[i], pairs[j] = pairs[j], pairs[i] })
			for _, p := range pairs {
				list = append(list, p...)
			}
			list = append(list, rest...)
			k.Class("list:all-codes-in-use,pairs-shuffled")
			return list
		}
	}
	if n > 262 && r.IntN(3) == 0 {
		// just below 256 listed glyphs, so that the glyphs the subsetter
		// appends (components, ligatures) get ids from 256 on (one-byte glyph
		// ids in format 0 character maps and CFF encodings end there)
		m := 244 + r.IntN(13)
		for _, i := range r.Perm(n - 1)[:m-1] {
			list = append(list, glyph.ID(i+1))
		}
		k.Class("list:just-below-256")
		return list
	}
	switch r.IntN(6) {
	case 0: // only .notdef
	case 1: // everything, in order
		for i := 1; i < n; i++ {
			list = append(list, glyph.ID(i))
		}
	case 2: // everything, shuffled
		for _, i := range r.Perm(n - 1) {
			list = append(list, glyph.ID(i+1))
		}
	default:
		m := r.IntN(n)
		perm := r.Perm(n - 1)
		for _, i := range perm[:m] {
			list = append(list, glyph.ID(i+1))
		}
		if r.IntN(2) == 0 {
			sort.Slice(list, func(i, j int) bool { return list[i] < list[j] })
		}
	}
	return list
}

func runC10(c *mon.Ctx) {
	c.Stratum("fonts", c.N(1500, 60000), func(k *mon.Case) {
		r := k.Rng
		o := fontgen.Opts{Kind: []string{"glyf", "cff", "cid"}[k.Index%3], MinGlyphs: 2, MaxGlyphs: 30, Plain: true}
		if r.IntN(3) != 0 {
			o.Layout = "subset"
		}
		if k.Index/3%7 == 0 {
			o.MinGlyphs, o.MaxGlyphs = 100, 300
			if k.Index/21%2 == 0 {
				o.MinGlyphs = 270 // more than 256 glyphs for certain
			}
		}
		f, info := fontgen.Font(r, o)
		if f.CreationTime.IsZero() && f.ModificationTime.IsZero() {
			f.ModificationTime = f.ModificationTime.AddDate(2001, 0, 0)
		}
		if k.Index%4 == 3 {
			// as applications get it: the font is read from a file first
			f = readBack(k, f)
		}
		if co, ok := f.Outlines.(*cff.Outlines); ok && !co.IsCIDKeyed() && f.NumGlyphs() > 256 && r.IntN(2) == 0 {
			// every one of the 256 codes (or all but one or two) is in use
			enc := make([]glyph.ID, 256)
			start := r.IntN(256)
			for g := 1; g <= 256-(k.Index/21)%3; g++ {
				enc[(start+g-1)%256] = glyph.ID(g)
			}
			co.Encoding = enc
			k.Class(fmt.Sprintf("cff:encoding-%d-codes", 256-(k.Index/21)%3))
		}
		if f.CMapTable != nil && f.NumGlyphs() >= 3 && k.Index%8 == 5 {
			// a byte encoding table (format 0) on the Windows platform, as
			// symbol fonts have it: the library decodes it as it stands
			var gids [256]byte
			for i := 0; i < 20+r.IntN(60); i++ {
				gids[0x20+r.IntN(0xE0)] = byte(1 + r.IntN(min(f.NumGlyphs(), 256)-1))
			}
			key := cmap.Key{PlatformID: 3, EncodingID: 0}
			if _, taken := f.CMapTable[key]; !taken {
				f.CMapTable[key] = cmapref.EncodeFormat0(0, &gids)
				k.Class("cmap:format0-on-windows-platform")
			}
		}
		// now and then a character map subtable in a format the library keeps
		// but does not decode
		var exotic *c10exotic
		if f.CMapTable != nil && f.NumGlyphs() >= 3 && r.IntN(5) == 0 {
			x := c10exoticMake(r, f.NumGlyphs())
			if _, taken := f.CMapTable[x.key]; !taken {
				f.CMapTable[x.key] = x.data
				exotic = &x
			}
		}
		if go_, ok := f.Outlines.(*glyf.Outlines); ok {
			switch r.IntN(16) {
			case 0:
				if len(go_.Names) > 1 {
					// names for the first glyphs only
					go_.Names = go_.Names[:1+r.IntN(len(go_.Names)-1)]
					k.Class("glyf:short-names-list")
				}
			case 1:
				go_.Widths = nil // what the reader returns for a file without hmtx
				k.Class("glyf:no-widths")
			}
		}
		n := f.NumGlyphs()
		list := c10list(k, f, n, info)
		desc := fmt.Sprintf("kind=%s glyphs=%d cmap=%s layout=%v list=%v", info.Kind, n, info.CMap, info.Classes, list)
		if len(desc) > 700 {
			desc = desc[:700] + "…"
		}
		k.Distinct(k.Index, fmt.Sprint(list))
		k.Class("kind=" + info.Kind)

		// the font that is subset is the caller's: neither Subset nor anything
		// done with the subset afterwards (which shares glyphs and tables with
		// it) may change it
		origBytes := func() []byte {
			buf := &bytes.Buffer{}
			if pv, _ := mon.Try(func() { f.Write(buf) }); pv != nil {
				return nil
			}
			return buf.Bytes()
		}
		pre := origBytes()
		receiverUnchanged := func(after string) bool {
			if pre == nil {
				return true
			}
			k.Eval()
			if post := origBytes(); !bytes.Equal(pre, post) {
				k.Fail("mismatch", "original-font-changed:"+after, "the font that was subset writes different bytes after %s (first difference at byte %d of %d/%d) (%s)", after, firstDiff(pre, post), len(pre), len(post), desc)
				return false
			}
			return true
		}
		var sub *sfnt.Font
		// the glyph list is the caller's too: it is handed over in a slice of
		// its own (with or without spare capacity) and, in three cases of
		// four, reused for something else as soon as Subset has returned
		arg := make([]glyph.ID, len(list), len(list)+(k.Index/4%2)*8)
		copy(arg, list)
		if k.Guard("Subset", func() { sub = f.Subset(arg) }) {
			return
		}
		k.Eval()
		if !receiverUnchanged("Subset") {
			return
		}
		if !reflect.DeepEqual([]glyph.ID(arg), []glyph.ID(list)) {
			k.Fail("mismatch", "callers-list-changed", "Subset changed the glyph list it was given: %v -> %v (%s)", list, arg, desc)
			return
		}
		if reuse := k.Index % 4; reuse != 0 {
			subBytes := func() []byte {
				buf := &bytes.Buffer{}
				if pv, _ := mon.Try(func() { sub.Write(buf) }); pv != nil {
					return nil
				}
				return buf.Bytes()
			}
			b1 := subBytes()
			switch reuse {
			case 1:
				clear(arg)
			case 2:
				slices.Reverse(arg)
			default:
				for i := range arg {
					arg[i] = glyph.ID(n - 1)
				}
			}
			k.Eval()
			if b2 := subBytes(); b1 != nil && !bytes.Equal(b1, b2) {
				k.Fail("mismatch", "subset-follows-callers-list", "the subset is written differently (%d vs %d bytes, first difference at byte %d) after the caller reused the slice that held the glyph list (%s)", len(b1), len(b2), firstDiff(b1, b2), desc)
				return
			}
			k.Class("callers-list-reused")
		}
		m := sub.NumGlyphs()
		if m < len(list) {
			k.Fail("mismatch", "glyph-count", "subset has %d glyphs for a list of %d (%s)", m, len(list), desc)
			return
		}
		so := &sigger{f: f, cache: map[int]string{}}
		sn := &sigger{f: sub, cache: map[int]string{}}
		var sigPanic bool
		oldSig := make([]string, n)
		newSig := make([]string, m)
		if k.Guard("subset-inspection", func() {
			for j := 0; j < n; j++ {
				oldSig[j] = so.sig(j)
			}
			for i := 0; i < m; i++ {
				newSig[i] = sn.sig(i)
			}
		}) {
			sigPanic = true
		}
		if sigPanic {
			return
		}
		count := map[string]int{}
		bySig := map[string]int{}
		for j, s := range oldSig {
			count[s]++
			bySig[s] = j
		}
		// (a) listed glyphs
		for i, old := range list {
			k.Eval()
			if newSig[i] != oldSig[old] {
				what := "glyph"
				if g, ok := f.Outlines.(*glyf.Outlines); ok {
					if _, isC := g.Glyphs[old].Data.(glyf.CompositeGlyph); g.Glyphs[old] != nil && isC {
						what = "composite"
					}
				}
				k.Fail("mismatch", "listed-"+what+"-differs", "new glyph %d is not the original glyph %d (outline through component references, box, width, name, CID, private dict, font matrix) (%s)", i, old, desc)
				return
			}
		}
		// (b) extras must be original glyphs; recover phi
		phi := make([]int, m) // new -> old, -1 unknown (ambiguous signature)
		inv := map[int]int{}  // old -> new
		for i := range phi {
			if i < len(list) {
				phi[i] = int(list[i])
				inv[phi[i]] = i
				continue
			}
			if count[newSig[i]] == 0 {
				k.Fail("mismatch", "extra-glyph-unknown", "appended glyph %d matches no glyph of the original font (%s)", i, desc)
				return
			}
			if count[newSig[i]] == 1 {
				phi[i] = bySig[newSig[i]]
				if _, dup := inv[phi[i]]; dup {
					k.Fail("mismatch", "extra-glyph-duplicate", "original glyph %d appears twice in the subset (%s)", phi[i], desc)
					return
				}
				inv[phi[i]] = i
			} else {
				phi[i] = -1
			}
		}
		if m > len(list) {
			k.Class("extras-appended:" + info.Kind)
		}
		unique := func(old glyph.ID) bool { return int(old) < n && count[oldSig[old]] == 1 }
		ambiguous := false
		for _, p := range phi {
			if p < 0 {
				ambiguous = true
			}
		}
		// (c) character maps
		for key := range f.CMapTable {
			oldSub, err := f.CMapTable.Get(key)
			if err != nil {
				continue
			}
			var newSub cmap.Subtable
			var nerr error
			if sub.CMapTable == nil {
				k.Fail("mismatch", "cmap-dropped", "subset has no cmap table (%s)", desc)
				return
			}
			if k.Guard("subset cmap.Get", func() { newSub, nerr = sub.CMapTable.Get(key) }) {
				return
			}
			if nerr != nil {
				k.Fail("mismatch", "cmap-key-lost", "cmap key %v is missing from the subset: %v (%s)", key, nerr, desc)
				return
			}
			codes := map[rune]bool{}
			for cde := range info.CodeToGID {
				codes[cde] = true
			}
			for _, cde := range []rune{0, 0x20, 0x41, 0xffff, 0x10000, 0xf041} {
				codes[cde] = true
			}
			for cde := rune(0); cde < 256; cde++ { // byte encoding tables
				codes[cde] = true
			}
			if m4, ok := newSub.(cmap.Format4); ok {
				for cde := range m4 {
					codes[rune(cde)] = true
				}
			}
			if m12, ok := newSub.(cmap.Format12); ok {
				for cde := range m12 {
					codes[rune(cde)] = true
				}
			}
			for cde := range codes {
				og := oldSub.Lookup(cde)
				ng := newSub.Lookup(cde)
				k.Eval()
				if og == 0 {
					if ng != 0 {
						k.Fail("mismatch", "cmap-spurious", "U+%04X was unmapped, subset maps it to %d (key %v, %s)", cde, ng, key, desc)
						return
					}
					continue
				}
				if want, ok := inv[int(og)]; ok {
					if int(ng) != want {
						k.Fail("mismatch", "cmap-wrong-index", "U+%04X mapped to glyph %d which is retained as %d, subset maps it to %d (key %v, %s)", cde, og, want, ng, key, desc)
						return
					}
				} else if !unique(og) || ambiguous {
					k.Skip("cmap:ambiguous-signature")
				} else if ng != 0 {
					k.Fail("mismatch", "cmap-maps-dropped-glyph", "U+%04X mapped to glyph %d which is not retained, subset maps it to %d (key %v, %s)", cde, og, ng, key, desc)
					return
				}
			}
			k.Class("cmap-compared")
		}
		// (c') a subtable the library does not decode: left out, or right
		// under the new numbering
		if exotic != nil {
			data, kept := sub.CMapTable[exotic.key]
			if !kept {
				k.Class("cmap-undecoded-subtable:left-out")
			} else {
				oldM, _ := c10exoticDecode(exotic.kind, exotic.data)
				newM, ok := c10exoticDecode(exotic.kind, data)
				k.Eval()
				if !ok {
					k.Fail("mismatch", "cmap-undecoded-subtable:damaged", "the subset carries the %s, but not in a form that can be decoded (%d bytes) (%s)", exotic, len(data), desc)
					return
				}
				codes := make([]uint64, 0, len(newM))
				for cde := range newM {
					codes = append(codes, cde)
				}
				sort.Slice(codes, func(i, j int) bool { return codes[i] < codes[j] })
				for _, cde := range codes {
					ng, og := newM[cde], oldM[cde]
					want, retained := inv[int(og)]
					switch {
					case og == 0:
						k.Fail("mismatch", "cmap-undecoded-subtable:spurious", "the %s of the subset maps code %#x to glyph %d, the original does not map it (%s)", exotic, cde, ng, desc)
						return
					case int(ng) >= m:
						k.Fail("mismatch", "cmap-undecoded-subtable:stale-glyph-index", "the %s of the subset maps code %#x to glyph %d of %d (original: glyph %d) (%s)", exotic, cde, ng, m, og, desc)
						return
					case retained && int(ng) != want:
						k.Fail("mismatch", "cmap-undecoded-subtable:stale-glyph-index", "the %s of the subset maps code %#x to glyph %d; the original maps it to glyph %d, which is glyph %d of the subset (%s)", exotic, cde, ng, og, want, desc)
						return
					case !retained && unique(glyph.ID(og)) && !ambiguous:
						k.Fail("mismatch", "cmap-undecoded-subtable:maps-dropped-glyph", "the %s of the subset maps code %#x to glyph %d; the original maps it to glyph %d, which is not retained (%s)", exotic, cde, ng, og, desc)
						return
					}
				}
				k.Class("cmap-undecoded-subtable:kept-and-right")
			}
			k.Class("cmap-undecoded-subtable:" + exotic.kind)
		}
		// (d) built-in encoding
		if oo, ok := f.Outlines.(*cff.Outlines); ok && oo.Encoding != nil {
			no := sub.Outlines.(*cff.Outlines)
			if len(no.Encoding) != 256 {
				k.Fail("mismatch", "encoding-lost", "subset encoding has length %d (%s)", len(no.Encoding), desc)
				return
			}
			for code := 0; code < 256; code++ {
				og, ng := oo.Encoding[code], no.Encoding[code]
				k.Eval()
				want, ok := inv[int(og)]
				switch {
				case og == 0 || (!ok && unique(og) && !ambiguous):
					if ng != 0 {
						k.Fail("mismatch", "encoding-spurious", "code %d: original glyph %d not retained but subset encodes %d (%s)", code, og, ng, desc)
						return
					}
				case ok:
					if int(ng) != want {
						k.Fail("mismatch", "encoding-wrong-index", "code %d: original glyph %d retained as %d, subset encodes %d (%s)", code, og, want, ng, desc)
						return
					}
				}
			}
			k.Class("encoding-compared")
		}
		// (e) kerning pairs
		if f.Gpos != nil {
			if sub.Gpos == nil {
				k.Fail("mismatch", "gpos-dropped", "subset has no GPOS (%s)", desc)
				return
			}
			// the meaning of the table for a pair: in every lookup the first
			// subtable that lists the pair decides (also with an empty
			// adjustment), the lookups apply one after the other
			pairs := func(info *gtab.Info) map[glyph.Pair]string {
				vr := func(v *gtab.GposValueRecord) string {
					if v == nil {
						v = &gtab.GposValueRecord{}
					}
					return fmt.Sprintf("%+v", *v)
				}
				zero := fmt.Sprintf("[%s/%s]", vr(nil), vr(nil))
				res := map[glyph.Pair]string{}
				for _, l := range info.LookupList {
					decided := map[glyph.Pair]bool{}
					for _, st := range l.Subtables {
						if p, ok := st.(gtab.Gpos2_1); ok {
							for pr, adj := range p {
								if decided[pr] {
									continue
								}
								decided[pr] = true
								if adj == nil {
									adj = &gtab.PairAdjust{}
								}
								// (an all-zero adjustment moves nothing: the same
								// meaning as a pair that is not listed at all)
								if e := fmt.Sprintf("[%s/%s]", vr(adj.First), vr(adj.Second)); e != zero {
									res[pr] += e
								}
							}
						}
					}
				}
				return res
			}
			op, np := pairs(f.Gpos), pairs(sub.Gpos)
			if !ambiguous {
				for a := 0; a < m; a++ {
					for b := 0; b < m; b++ {
						k.Eval()
						want := op[glyph.Pair{Left: glyph.ID(phi[a]), Right: glyph.ID(phi[b])}]
						got := np[glyph.Pair{Left: glyph.ID(a), Right: glyph.ID(b)}]
						if want != got {
							k.Fail("mismatch", "kerning-pair", "kerning of new pair (%d,%d) = original (%d,%d): got %q want %q (%s)", a, b, phi[a], phi[b], got, want, desc)
							return
						}
					}
				}
				for pr := range np {
					if int(pr.Left) >= m || int(pr.Right) >= m {
						k.Fail("mismatch", "kerning-pair-out-of-range", "subset kerning pair %v refers to a glyph beyond the %d subset glyphs (%s)", pr, m, desc)
						return
					}
				}
				k.Class("kerning-compared")
			}
			// feature -> lookup references must stay in range
			for _, ft := range sub.Gpos.FeatureList {
				for _, li := range ft.Lookups {
					if int(li) >= len(sub.Gpos.LookupList) {
						k.Fail("mismatch", "dangling-lookup-index", "subset GPOS feature %q refers to lookup %d of %d (%s)", ft.Tag, li, len(sub.Gpos.LookupList), desc)
						return
					}
				}
			}
		}
		// (f) substitution rules
		if f.Gsub != nil {
			if sub.Gsub == nil {
				k.Fail("mismatch", "gsub-dropped", "subset has no GSUB (%s)", desc)
				return
			}
			if !ambiguous {
				retained := func(g glyph.ID) bool { _, ok := inv[int(g)]; return ok }
				oldName := func(g glyph.ID) string {
					if !retained(g) {
						return "DROPPED"
					}
					return fmt.Sprint(int(g))
				}
				newName := func(g glyph.ID) string {
					if int(g) >= m {
						return fmt.Sprintf("OUT-OF-RANGE(%d)", g)
					}
					return fmt.Sprint(phi[g])
				}
				orules, ok1 := gsubRules(f.Gsub, oldName)
				nrules, ok2 := gsubRules(sub.Gsub, newName)
				if !ok2 {
					k.Fail("mismatch", "gsub-malformed", "subset GSUB is malformed or has an unexpected subtable type (%s)", desc)
					return
				}
				if ok1 {
					// rules whose inputs are all retained keep their meaning
					var want []string
					for _, ru := range orules {
						lhs := ru[:bytes.Index([]byte(ru), []byte(" -> "))]
						if !bytes.Contains([]byte(lhs), []byte("DROPPED")) {
							want = append(want, ru)
						}
					}
					want = dedup(want)
					nrules = dedup(nrules)
					k.Eval()
					if fmt.Sprint(want) != fmt.Sprint(nrules) {
						// a narrower class: the subset's rules are all right, and every
						// missing rule has an input glyph that is not in the caller's
						// list but was appended later (as a composite component)
						witness := "gsub-rules"
						listed := map[string]bool{}
						for _, g := range list {
							listed[fmt.Sprint(int(g))] = true
						}
						// glyphs the rules themselves produce from the listed ones
						// (over any number of rounds) count as listed here: the
						// narrower class is about glyphs that entered the subset
						// only as components of composite glyphs
						if raw, ok := gsubRules(f.Gsub, func(g glyph.ID) string { return fmt.Sprint(int(g)) }); ok {
							for changed := true; changed; {
								changed = false
								for _, ru := range raw {
									i := strings.Index(ru, " -> ")
									all := true
									for _, g := range strings.Fields(ru[:i]) {
										all = all && listed[g]
									}
									if !all {
										continue
									}
									for _, g := range strings.Fields(ru[i+4:]) {
										if !listed[g] {
											listed[g] = true
											changed = true
										}
									}
								}
							}
						}
						gotSet := map[string]bool{}
						for _, ru := range nrules {
							gotSet[ru] = true
						}
						wantSet := map[string]bool{}
						onlyAppended := true
						for _, ru := range want {
							wantSet[ru] = true
							if gotSet[ru] {
								continue
							}
							lhs := strings.Fields(ru[:strings.Index(ru, " -> ")])
							hasAppended := false
							for _, g := range lhs {
								if !listed[g] {
									hasAppended = true
								}
							}
							onlyAppended = onlyAppended && hasAppended
						}
						for _, ru := range nrules {
							if !wantSet[ru] {
								onlyAppended = false
							}
						}
						if onlyAppended {
							witness = "gsub-rules:rule-over-glyph-appended-after-gsub-conversion"
						}
						k.Fail("mismatch", witness, "substitution rules among retained glyphs (old numbering):\n got %v\nwant %v (%s)", nrules, want, desc)
						return
					}
					if len(want) > 0 {
						k.Class("gsub-rules-compared")
					}
				}
				// the rules must be reachable through the default features
				lang := language.MustParse("und-Zzzz-x-dflt")
				var ol, nl []gtab.LookupIndex
				if k.Guard("FindLookups", func() {
					ol = f.Gsub.FindLookups(lang, gtab.GsubDefaultFeatures)
					nl = sub.Gsub.FindLookups(lang, gtab.GsubDefaultFeatures)
				}) {
					return
				}
				for _, li := range nl {
					if int(li) >= len(sub.Gsub.LookupList) {
						k.Fail("mismatch", "dangling-lookup-index", "subset GSUB feature refers to lookup %d of %d (%s)", li, len(sub.Gsub.LookupList), desc)
						return
					}
				}
				// same observable substitutions through the selected lookups
				if len(ol) > 0 {
					c10applyCompare(k, f, sub, ol, nl, phi, inv, m, desc)
				}
			}
		}
		if k.Failed() {
			return
		}
		// small subsets of CFF fonts: one string is tuned so that the data of the
		// String INDEX of the written subset is exactly 254, 255 or 256 bytes
		// long (the sizes at which the offsets of an INDEX need another byte)
		if _, isCFF := sub.Outlines.(*cff.Outlines); isCFF && k.Index%5 == 1 {
			sub.Trademark = ""
			probe := &bytes.Buffer{}
			if pv, _ := mon.Try(func() { sub.Write(probe) }); pv == nil {
				if pw, _ := sfntwalk.Walk(probe.Bytes()); pw != nil && pw.Get("CFF ") != nil {
					if mf, err := cffmini.Parse(pw.Get("CFF ").Data); err == nil && mf.Strings != nil {
						have := 0
						for _, d := range mf.Strings.Data {
							have += len(d)
						}
						target := 254 + k.Index/15%3
						if pad := target - have; pad >= 2 {
							sub.Trademark = "TM" + strings.Repeat("x", pad-2)
							k.Class(fmt.Sprintf("subset:cff-string-index-data=%d", target))
						}
					}
				}
			}
		}
		// (g) the subset can be written and read back
		var out []byte
		{
			buf := &bytes.Buffer{}
			var werr error
			if k.Guard("Write(subset)", func() { _, werr = sub.Write(buf) }) {
				return
			}
			if werr != nil {
				witness := "subset-unwritable"
				if strings.Contains(werr.Error(), "encoded glyphs not contiguous") {
					witness = "subset-unwritable:cff-encoding-not-contiguous"
				}
				k.Fail("mismatch", witness, "the subset cannot be written: %v (%s)", werr, desc)
				return
			}
			out = buf.Bytes()
		}
		g, ok := readFont(k, out, "Read(Write(subset))")
		if !ok {
			return
		}
		k.Eval()
		want := normalForm(sub)
		if sub.Gsub == nil {
			want.Gsub = g.Gsub
		}
		if d := diffFonts(want, g); d != "" {
			k.Fail("mismatch", "subset-roundtrip:"+firstDiffField(d), "Read(Write(subset)) differs from the subset (%s) (-want +got):\n%s", desc, d)
			return
		}
		k.Class("written-and-read-back")
		if receiverUnchanged("the subset was written") && pre != nil {
			k.Class("original-font-unchanged")
		}
		if k.Index < 3 {
			k.Sample(desc)
		}
	})

	// cff.Outlines.Subset
	c.Stratum("cff-outlines", c.N(600, 20000), func(k *mon.Case) {
		r := k.Rng
		f, info := fontgen.Font(r, fontgen.Opts{Kind: []string{"cff", "cid"}[k.Index%2], MinGlyphs: 2, MaxGlyphs: 40, Plain: true})
		o := f.Outlines.(*cff.Outlines)
		n := len(o.Glyphs)
		list := c10list(k, f, n, info)
		var so *cff.Outlines
		// the caller's slice is reused for something else once Subset has returned
		arg := make([]glyph.ID, len(list), len(list)+(k.Index/4%2)*8)
		copy(arg, list)
		if k.Guard("cff.Outlines.Subset", func() { so = o.Subset(arg) }) {
			return
		}
		if !reflect.DeepEqual([]glyph.ID(arg), []glyph.ID(list)) {
			k.Fail("mismatch", "callers-list-changed", "cff.Outlines.Subset changed the glyph list it was given: %v -> %v", list, arg)
			return
		}
		switch k.Index % 4 {
		case 1:
			clear(arg)
		case 2:
			slices.Reverse(arg)
		case 3:
			for i := range arg {
				arg[i] = glyph.ID(n - 1)
			}
		}
		k.Eval()
		k.Distinct("cffsub", k.Index)
		if len(so.Glyphs) != len(list) {
			k.Fail("mismatch", "cff-subset:count", "cff subset has %d glyphs for a list of %d", len(so.Glyphs), len(list))
			return
		}
		a := &sigger{f: &sfnt.Font{Outlines: o}, cache: map[int]string{}}
		b := &sigger{f: &sfnt.Font{Outlines: so}, cache: map[int]string{}}
		bad := false
		if k.Guard("cff-subset-inspection", func() {
			for i, old := range list {
				if a.sig(int(old)) != b.sig(i) {
					bad = true
				}
			}
		}) {
			return
		}
		if bad {
			k.Fail("mismatch", "cff-subset:glyph-differs", "cff.Outlines.Subset: a glyph differs from the listed original (kind=%s list=%v)", info.Kind, list)
			return
		}
		if o.Encoding != nil {
			inv := map[glyph.ID]int{}
			for i, old := range list {
				inv[old] = i
			}
			for code := 0; code < 256; code++ {
				want := 0
				if i, ok := inv[o.Encoding[code]]; ok && o.Encoding[code] != 0 {
					want = i
				}
				if len(so.Encoding) != 256 || int(so.Encoding[code]) != want {
					k.Fail("mismatch", "cff-subset:encoding", "cff.Outlines.Subset: code %d encodes %v, want %d", code, so.Encoding, want)
					return
				}
			}
		}
		k.Class("cff-outlines-subset:" + info.Kind)
	})
	// CID-keyed subsets whose new glyph order holds a run of exactly 255, 256,
	// 257 or 512 consecutive CIDs between isolated ones (the range formats of the
	// charset hold at most 256 glyphs per format 1 range): written, read back,
	// compared with the subset, and every CID compared with the original's
	c.Stratum("cid-runs", c.N(16, 160), func(k *mon.Case) {
		r := k.Rng
		f, _ := fontgen.Font(r, fontgen.Opts{Kind: "cid", MinGlyphs: 560, MaxGlyphs: 700, Plain: true})
		o, ok := f.Outlines.(*cff.Outlines)
		if !ok || len(o.GIDToCID) != len(o.Glyphs) {
			k.Skip("not a CID-keyed font")
			return
		}
		n := len(o.Glyphs)
		step := k.Index / 4 % 2 // 0: CID = GID, 1: CID = GID + 1000
		for i := 1; i < n; i++ {
			o.GIDToCID[i] = cid.CID(i + 1000*step)
		}
		run := []int{255, 256, 257, 512}[k.Index%4]
		a := 3 + r.IntN(n-run-30)
		list := []glyph.ID{0, glyph.ID(n - 5)}
		for i := 0; i < run; i++ {
			list = append(list, glyph.ID(a+i))
		}
		list = append(list, glyph.ID(n-20))
		desc := fmt.Sprintf("cid font of %d glyphs, list 0, %d, %d..%d, %d", n, n-5, a, a+run-1, n-20)
		var sub *sfnt.Font
		if k.Guard("Subset", func() { sub = f.Subset(append([]glyph.ID(nil), list...)) }) {
			return
		}
		so, ok := sub.Outlines.(*cff.Outlines)
		if !ok || len(so.Glyphs) != len(list) || len(so.GIDToCID) != len(list) {
			k.Fail("mismatch", "cid-runs:subset-shape", "the subset does not have one CID-keyed glyph per list entry (%s)", desc)
			return
		}
		buf := &bytes.Buffer{}
		var werr error
		if k.Guard("Write(subset)", func() { _, werr = sub.Write(buf) }) {
			return
		}
		if werr != nil {
			k.Fail("mismatch", "cid-runs:subset-unwritable", "%v (%s)", werr, desc)
			return
		}
		g, ok := readFont(k, buf.Bytes(), "Read(Write(subset))")
		if !ok {
			return
		}
		k.Eval()
		go_, ok := g.Outlines.(*cff.Outlines)
		if !ok || len(go_.GIDToCID) != len(list) {
			k.Fail("mismatch", "cid-runs:read-back-shape", "the subset read back has no CID per glyph (%s)", desc)
			return
		}
		for i, old := range list {
			if go_.GIDToCID[i] != o.GIDToCID[old] || g.GlyphWidth(glyph.ID(i)) != f.GlyphWidth(old) {
				k.Fail("mismatch", "cid-runs:cid-or-width-differs", "glyph %d of the subset read back has CID %d width %v; it is glyph %d of the original with CID %d width %v (%s)",
					i, go_.GIDToCID[i], g.GlyphWidth(glyph.ID(i)), old, o.GIDToCID[old], f.GlyphWidth(old), desc)
				return
			}
		}
		want := normalForm(sub)
		if sub.Gsub == nil {
			want.Gsub = g.Gsub
		}
		if d := diffFonts(want, g); d != "" {
			k.Fail("mismatch", "cid-runs:subset-roundtrip:"+firstDiffField(d), "Read(Write(subset)) differs from the subset (%s) (-want +got):\n%s", desc, d)
			return
		}
		k.Class(fmt.Sprintf("cid-runs:run=%d", run))
	})
	c.Require("subset:cff-string-index-data=255", "cmap:format0-on-windows-platform", "list:all-codes-in-use,pairs-shuffled", "cff:encoding-256-codes", "cff:encoding-255-codes", "cmap-undecoded-subtable:format13", "cmap-undecoded-subtable:format10", "cmap-undecoded-subtable:format14", "cmap-undecoded-subtable:format0-mac-japanese", "callers-list-reused", "list:just-below-256", "list:ligature-chain-components-only", "kind=glyf", "kind=cff", "kind=cid", "cmap-compared", "encoding-compared", "kerning-compared", "gsub-rules-compared",
		"written-and-read-back", "original-font-unchanged", "extras-appended:glyf", "cff-outlines-subset:cff", "cff-outlines-subset:cid", "cid-runs:run=256", "cid-runs:run=512")
}

func dedup(a []string) []string {
	sort.Strings(a)
	var out []string
	for i, s := range a {
		if i == 0 || s != a[i-1] {
			out = append(out, s)
		}
	}
	return out
}

// c10applyCompare applies the original and the subset GSUB (through the
// lookups selected by the default features) to sequences of retained glyphs
// and compares the results through phi.
func c10applyCompare(k *mon.Case, f, sub *sfnt.Font, ol, nl []gtab.LookupIndex, phi []int, inv map[int]int, m int, desc string) {
	r := k.Rng
	// glyphs that occur in rules, in new numbering
	var pool []glyph.ID
	seen := map[glyph.ID]bool{}
	add := func(g glyph.ID) {
		if int(g) < m && !seen[g] {
			seen[g] = true
			pool = append(pool, g)
		}
	}
	for _, l := range sub.Gsub.LookupList {
		for _, st := range l.Subtables {
			switch s := st.(type) {
			case *gtab.Gsub1_2:
				for g := range s.Cov {
					add(g)
				}
			case *gtab.Gsub4_1:
				for g, idx := range s.Cov {
					add(g)
					if idx < len(s.Repl) {
						for _, lig := range s.Repl[idx] {
							for _, x := range lig.In {
								add(x)
							}
						}
					}
				}
			}
		}
	}
	for i := 0; i < m && len(pool) < 8; i++ {
		add(glyph.ID(i))
	}
	sort.Slice(pool, func(i, j int) bool { return pool[i] < pool[j] })
	if len(pool) > 8 {
		pool = pool[:8]
	}
	var seqs [][]glyph.ID
	for _, a := range pool {
		seqs = append(seqs, []glyph.ID{a})
		for _, b := range pool {
			seqs = append(seqs, []glyph.ID{a, b})
			if len(pool) <= 5 {
				for _, cc := range pool {
					seqs = append(seqs, []glyph.ID{a, b, cc})
				}
			}
		}
	}
	for i := 0; i < 20; i++ {
		s := make([]glyph.ID, 3+r.IntN(6))
		for j := range s {
			s[j] = pool[r.IntN(len(pool))]
		}
		seqs = append(seqs, s)
	}
	octx := gtab.NewContext(f.Gsub.LookupList, nil, ol)
	nctx := gtab.NewContext(sub.Gsub.LookupList, nil, nl)
	for _, s := range seqs {
		var oin, nin []glyph.Info
		for _, g := range s {
			nin = append(nin, glyph.Info{GID: g, Text: []rune{'x'}})
			oin = append(oin, glyph.Info{GID: glyph.ID(phi[g]), Text: []rune{'x'}})
		}
		var oout, nout []glyph.Info
		if k.Guard("Apply(original GSUB)", func() { oout = octx.Apply(oin) }) {
			return
		}
		if k.Guard("Apply(subset GSUB)", func() { nout = nctx.Apply(nin) }) {
			return
		}
		k.Eval()
		ok := len(oout) == len(nout)
		for i := 0; ok && i < len(oout); i++ {
			if int(nout[i].GID) >= m || phi[nout[i].GID] != int(oout[i].GID) {
				ok = false
			}
		}
		if !ok {
			k.Fail("mismatch", "gsub-apply-differs", "applying GSUB to %v (new numbering): subset gives %v, original gives %v on the corresponding glyphs (%s)", s, gids(nout), gids(oout), desc)
			return
		}
	}
	k.Class("gsub-apply-compared")
}

func gids(seq []glyph.Info) []glyph.ID {
	out := make([]glyph.ID, len(seq))
	for i, g := range seq {
		out[i] = g.GID
	}
	return out
}
