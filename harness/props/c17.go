package props

import (
	"bytes"
	"errors"
	"fmt"
	"io"

	"seehuhn.de/go/sfnt/parser"

	"verif/harness/internal/hooks"
	"verif/harness/internal/mon"
)

// C17: parser.Parser is observationally a random-access byte view.
// Reference model: a byte slice and a cursor.

func init() {
	mon.RegisterCfg("C17", mon.Config{
		Rule: "every sequence of <=3 (quick) / <=4 (thorough) operations from a boundary-offset alphabet, for 14 input lengths x 5 source-reader behaviours, plus random 200-step sequences; after every step value, error class, Pos, Size and the cache-window invariant are compared with a slice model; distinct = distinct (config, operation sequence) of the exhaustive part plus random sequences Further: far seeks (2^31 ... 2^62 plus small distances), lists returned by ReadUint16Slice kept and appended to by the caller.",
		Assumptions: []string{
			"the source reader obeys the io.Reader/io.Seeker contracts (never returns (0,nil) forever, Seek to p>=0 succeeds)",
			"after a failed ReadUint16Slice the cursor is unspecified; the monitor re-seeks",
			"ReadBytes(n>1024) and negative Discard panic by contract and are not generated",
		},
	}, runC17)
}

// c17src is a source with selectable read behaviour.
type c17src struct {
	data  []byte
	off   int64
	mode  int // 0 full reads, 1 one byte per call, 2 up to 7 bytes, 3 data+EOF on last chunk, 4 up to 100 bytes
	reads int
}

func (s *c17src) Read(p []byte) (int, error) {
	s.reads++
	if len(p) == 0 {
		return 0, nil
	}
	if s.off >= int64(len(s.data)) {
		return 0, io.EOF
	}
	avail := s.data[s.off:]
	n := len(p)
	switch s.mode {
	case 1:
		n = 1
	case 2:
		n = min(n, 7)
	case 4:
		n = min(n, 100)
	}
	n = min(n, len(avail))
	copy(p, avail[:n])
	s.off += int64(n)
	if s.mode == 3 && s.off == int64(len(s.data)) {
		return n, io.EOF
	}
	return n, nil
}

func (s *c17src) Seek(offset int64, whence int) (int64, error) {
	var abs int64
	switch whence {
	case io.SeekStart:
		abs = offset
	case io.SeekCurrent:
		abs = s.off + offset
	case io.SeekEnd:
		abs = int64(len(s.data)) + offset
	}
	if abs < 0 {
		return 0, errors.New("negative position")
	}
	s.off = abs
	return abs, nil
}

func (s *c17src) Size() int64 { return int64(len(s.data)) }

// sectionSrc wraps an io.SectionReader (stdlib implementation).
type sectionSrc struct{ *io.SectionReader }

type c17op struct {
	kind int // 0 SeekPos 1 Discard 2 U8 3 U16 4 I16 5 U32 6 U16Slice 7 ReadBytes 8 Read 9 Pos 10 Size
	arg  int64
}

func (o c17op) String() string {
	names := []string{"SeekPos", "Discard", "ReadUint8", "ReadUint16", "ReadInt16", "ReadUint32", "ReadUint16Slice", "ReadBytes", "Read", "Pos", "Size"}
	if o.kind <= 1 || o.kind == 7 || o.kind == 8 {
		return fmt.Sprintf("%s(%d)", names[o.kind], o.arg)
	}
	return names[o.kind]
}

func c17data(n int) []byte {
	b := make([]byte, n)
	for i := range b {
		// position dependent, with 16-bit words that make ReadUint16Slice
		// counts both small and large
		b[i] = byte((i*131 + i/256*17 + 7) ^ (i >> 3))
		if i%64 == 0 {
			b[i] = 0
		}
		if i%64 == 1 {
			b[i] = byte(i / 64 % 5)
		}
	}
	return b
}

type c17sim struct {
	k      *mon.Case
	data   []byte
	cur    int64
	p      *parser.Parser
	seeker io.Seeker
	src    *c17src
	desc   func() string
	buf    []byte
	slices [][]uint16 // results of ReadUint16Slice the caller has kept
}

func (s *c17sim) fail(w string, format string, a ...any) {
	s.k.Fail("mismatch", w, "%s\n  after: %s", fmt.Sprintf(format, a...), s.desc())
}

func classOfs(n int, p int64) string {
	switch {
	case p == 0:
		return "0"
	case p == int64(n):
		return "eof"
	case p > int64(n):
		return "beyond"
	case p%1024 == 0:
		return "1024k"
	case p%1024 == 1023:
		return "1024k-1"
	case p%1024 == 1:
		return "1024k+1"
	}
	return "mid"
}

// step executes one operation on parser and model and compares.
func (s *c17sim) step(o c17op) bool {
	n := int64(len(s.data))
	p := s.p
	k := s.k
	k.Eval()
	eofErr := func(err error) bool { return errors.Is(err, io.ErrUnexpectedEOF) }
	fixed := func(size int64, got uint64, err error, name string) bool {
		if s.cur+size > n {
			if err == nil {
				s.fail("read-past-end-succeeds:"+name, "%s at %d of %d returned %d without error", name, s.cur, n, got)
				return false
			}
			if !eofErr(err) {
				s.fail("wrong-error-class:"+name, "%s at %d of %d: error %v, want unexpected EOF", name, s.cur, n, err)
				return false
			}
			k.Class("fail:" + name)
			return true
		}
		if err != nil {
			s.fail("spurious-error:"+name, "%s at %d of %d: unexpected error %v", name, s.cur, n, err)
			return false
		}
		var want uint64
		for i := int64(0); i < size; i++ {
			want = want<<8 | uint64(s.data[s.cur+i])
		}
		if got != want {
			s.fail("wrong-value:"+name, "%s at %d: got %#x want %#x", name, s.cur, got, want)
			return false
		}
		k.Class("ok:" + name + "@" + classOfs(len(s.data), s.cur))
		s.cur += size
		return true
	}
	ok := true
	switch o.kind {
	case 0:
		err := p.SeekPos(o.arg)
		if err != nil {
			s.fail("seek-error", "SeekPos(%d) error %v", o.arg, err)
			return false
		}
		s.cur = o.arg
		k.Class("seek@" + classOfs(len(s.data), o.arg))
	case 1:
		err := p.Discard(int(o.arg))
		if err != nil {
			s.fail("discard-error", "Discard(%d) error %v", o.arg, err)
			return false
		}
		s.cur += o.arg
		k.Class("discard")
	case 2:
		v, err := p.ReadUint8()
		ok = fixed(1, uint64(v), err, "ReadUint8")
	case 3:
		v, err := p.ReadUint16()
		ok = fixed(2, uint64(v), err, "ReadUint16")
	case 4:
		v, err := p.ReadInt16()
		ok = fixed(2, uint64(uint16(v)), err, "ReadInt16")
	case 5:
		v, err := p.ReadUint32()
		ok = fixed(4, uint64(v), err, "ReadUint32")
	case 6:
		v, err := p.ReadUint16Slice()
		var cnt int64 = -1
		if s.cur+2 <= n {
			cnt = int64(s.data[s.cur])<<8 | int64(s.data[s.cur+1])
		}
		if cnt < 0 || s.cur+2+2*cnt > n {
			if err == nil {
				s.fail("read-past-end-succeeds:ReadUint16Slice", "ReadUint16Slice at %d of %d (count %d) succeeded with %d values", s.cur, n, cnt, len(v))
				return false
			}
			if !eofErr(err) {
				s.fail("wrong-error-class:ReadUint16Slice", "ReadUint16Slice: error %v", err)
				return false
			}
			if v != nil {
				s.fail("partial-data-with-error:ReadUint16Slice", "ReadUint16Slice returned %d values with error", len(v))
				return false
			}
			// cursor unspecified after a failed composite read
			if err := p.SeekPos(s.cur); err != nil {
				s.fail("seek-error", "re-seek error %v", err)
				return false
			}
			k.Class("fail:ReadUint16Slice")
		} else {
			if err != nil {
				s.fail("spurious-error:ReadUint16Slice", "ReadUint16Slice at %d count %d: %v", s.cur, cnt, err)
				return false
			}
			if int64(len(v)) != cnt {
				s.fail("wrong-value:ReadUint16Slice", "ReadUint16Slice at %d: %d values, want %d", s.cur, len(v), cnt)
				return false
			}
			// the lists returned earlier are the caller's: it appends to
			// them (here: fills whatever spare capacity they came with),
			// which must not reach into the list returned now
			for _, old := range s.slices {
				ext := old[:cap(old)]
				for i := len(old); i < len(ext); i++ {
					ext[i] = 0xAAAA
				}
			}
			for i, x := range v {
				q := s.cur + 2 + 2*int64(i)
				if want := uint16(s.data[q])<<8 | uint16(s.data[q+1]); x != want {
					s.fail("uint16-lists-share-memory", "ReadUint16Slice at %d: value %d of the list just returned reads %#x after the caller appended to a list returned earlier (the input has %#x)", s.cur, i, x, want)
					return false
				}
			}
			if len(s.slices) < 8 {
				s.slices = append(s.slices, v)
				if len(s.slices) >= 2 {
					k.Class("uint16-lists:several-kept")
				}
			}
			for i, x := range v {
				q := s.cur + 2 + 2*int64(i)
				if want := uint16(s.data[q])<<8 | uint16(s.data[q+1]); x != want {
					s.fail("wrong-value:ReadUint16Slice", "ReadUint16Slice at %d: value %d is %#x want %#x", s.cur, i, x, want)
					return false
				}
			}
			if 2+2*cnt > 1024 {
				k.Class("ok:ReadUint16Slice>buffer")
			} else {
				k.Class("ok:ReadUint16Slice")
			}
			s.cur += 2 + 2*cnt
		}
	case 7:
		b, err := p.ReadBytes(int(o.arg))
		if o.arg > 0 && s.cur+o.arg > n {
			if err == nil {
				s.fail("read-past-end-succeeds:ReadBytes", "ReadBytes(%d) at %d of %d succeeded", o.arg, s.cur, n)
				return false
			}
			if !eofErr(err) {
				s.fail("wrong-error-class:ReadBytes", "ReadBytes: error %v", err)
				return false
			}
			if len(b) != 0 {
				s.fail("partial-data-with-error:ReadBytes", "ReadBytes returned %d bytes with error", len(b))
				return false
			}
			k.Class("fail:ReadBytes")
		} else {
			if err != nil {
				s.fail("spurious-error:ReadBytes", "ReadBytes(%d) at %d of %d: %v", o.arg, s.cur, n, err)
				return false
			}
			if o.arg > 0 && !bytes.Equal(b, s.data[s.cur:s.cur+o.arg]) {
				s.fail("wrong-value:ReadBytes", "ReadBytes(%d) at %d: wrong bytes", o.arg, s.cur)
				return false
			}
			k.Class("ok:ReadBytes@" + classOfs(len(s.data), s.cur))
			s.cur += o.arg
		}
	case 8:
		if int64(cap(s.buf)) < o.arg {
			s.buf = make([]byte, o.arg)
		}
		buf := s.buf[:o.arg]
		for i := range buf {
			buf[i] = 0xAA
		}
		got, err := p.Read(buf)
		avail := max(n-s.cur, 0)
		if got < 0 || int64(got) > o.arg || int64(got) > avail {
			s.fail("wrong-count:Read", "Read(%d) at %d of %d returned count %d", o.arg, s.cur, n, got)
			return false
		}
		if o.arg > 0 && s.cur+o.arg > n {
			if err == nil {
				s.fail("read-past-end-succeeds:Read", "Read(%d) at %d of %d: n=%d err=nil", o.arg, s.cur, n, got)
				return false
			}
			if !eofErr(err) {
				s.fail("wrong-error-class:Read", "Read: error %v", err)
				return false
			}
			k.Class("fail:Read")
		} else {
			if err != nil {
				s.fail("spurious-error:Read", "Read(%d) at %d of %d: %v", o.arg, s.cur, n, err)
				return false
			}
			if int64(got) != o.arg {
				s.fail("short-read-as-success:Read", "Read(%d) at %d of %d returned n=%d, err=nil", o.arg, s.cur, n, got)
				return false
			}
			if o.arg > 1024 {
				k.Class("ok:Read>buffer")
			} else {
				k.Class("ok:Read")
			}
		}
		if got > 0 && !bytes.Equal(buf[:got], s.data[s.cur:s.cur+int64(got)]) {
			s.fail("wrong-value:Read", "Read(%d) at %d: wrong bytes in the first %d", o.arg, s.cur, got)
			return false
		}
		s.cur += int64(got)
	case 9:
		k.Class("pos")
	case 10:
		if p.Size() != n {
			s.fail("wrong-size", "Size() = %d want %d", p.Size(), n)
			return false
		}
		k.Class("size")
	}
	if !ok {
		return false
	}
	if got := p.Pos(); got != s.cur {
		s.fail("wrong-pos:"+[]string{"SeekPos", "Discard", "ReadUint8", "ReadUint16", "ReadInt16", "ReadUint32", "ReadUint16Slice", "ReadBytes", "Read", "Pos", "Size"}[o.kind],
			"Pos() = %d, model cursor %d", got, s.cur)
		return false
	}
	if from, pos, used, hok := hooks.ParserState(p); hok {
		if pos < 0 || pos > used || used > 1024 || from+int64(pos) != s.cur {
			s.fail("window-invariant", "window from=%d pos=%d used=%d, cursor %d", from, pos, used, s.cur)
			return false
		}
		so, _ := s.seeker.Seek(0, io.SeekCurrent)
		if so != from+int64(used) {
			s.fail("window-source-position", "source at %d but window ends at %d (from=%d used=%d)", so, from+int64(used), from, used)
			return false
		}
	}
	return true
}

var c17lengths = []int{0, 1, 2, 3, 4, 1023, 1024, 1025, 2047, 2048, 2049, 3071, 3072, 5000}

func c17alphabet(n int) []c17op {
	var ops []c17op
	seen := map[int64]bool{}
	for _, p := range []int64{0, 1, int64(n) - 1, int64(n), int64(n) + 1, 1023, 1024, 1025, 2047, 2048, 2049, int64(n) + 5000} {
		if p < 0 || seen[p] {
			continue
		}
		seen[p] = true
		ops = append(ops, c17op{0, p})
	}
	for _, d := range []int64{0, 1, 1023, 1024, 1025} {
		ops = append(ops, c17op{1, d})
	}
	ops = append(ops, c17op{2, 0}, c17op{3, 0}, c17op{4, 0}, c17op{5, 0}, c17op{6, 0})
	for _, d := range []int64{0, 1, 2, 1023, 1024} {
		ops = append(ops, c17op{7, d})
	}
	for _, d := range []int64{0, 1, 1024, 1025, 3000} {
		ops = append(ops, c17op{8, d})
	}
	ops = append(ops, c17op{9, 0}, c17op{10, 0})
	return ops
}

func c17new(k *mon.Case, data []byte, mode int) *c17sim {
	s := &c17sim{k: k, data: data}
	if mode == 5 {
		sr := sectionSrc{io.NewSectionReader(bytes.NewReader(data), 0, int64(len(data)))}
		s.p = parser.New(sr)
		s.seeker = sr
	} else {
		src := &c17src{data: data, mode: mode}
		s.src = src
		s.p = parser.New(src)
		s.seeker = src
	}
	return s
}

func runC17(c *mon.Ctx) {
	c.SetHooks(hooks.On)
	modes := []int{0, 1, 2, 3, 5}
	depth := c.N(3, 4)
	type cfg struct{ n, mode int }
	var cfgs []cfg
	for _, n := range c17lengths {
		for _, m := range modes {
			cfgs = append(cfgs, cfg{n, m})
		}
	}
	datas := map[int][]byte{}
	for _, n := range c17lengths {
		datas[n] = c17data(n)
	}
	// exhaustive part: one case per (config, first operation)
	const maxAlpha = 40
	c.Stratum("exhaustive", len(cfgs)*maxAlpha, func(k *mon.Case) {
		cf := cfgs[k.Index/maxAlpha]
		alpha := c17alphabet(cf.n)
		first := k.Index % maxAlpha
		if first >= len(alpha) {
			return
		}
		data := datas[cf.n]
		seq := make([]c17op, 0, depth)
		var rec func(d int)
		run := func() {
			s := c17new(k, data, cf.mode)
			cur := seq
			s.desc = func() string { return fmt.Sprintf("len=%d source-mode=%d ops=%v", cf.n, cf.mode, cur) }
			for _, o := range cur {
				if !s.step(o) {
					return
				}
			}
			if s.src != nil && s.src.reads > 0 {
				k.Class("refill")
			}
		}
		rec = func(d int) {
			// every prefix is itself a sequence; running only maximal
			// sequences covers all prefixes step by step
			if d == depth {
				run()
				k.DistinctCount(1)
				return
			}
			for _, o := range alpha {
				seq = append(seq, o)
				rec(d + 1)
				seq = seq[:len(seq)-1]
				if k.Failed() && d > 0 {
					return
				}
			}
		}
		seq = append(seq, alpha[first])
		rec(1)
		if k.Index%97 == 0 {
			k.Sample(fmt.Sprintf("len=%d mode=%d all sequences of %d ops starting with %v", cf.n, cf.mode, depth, alpha[first]))
		}
		k.Class(fmt.Sprintf("source-mode-%d", cf.mode))
	})

	// positions far beyond the end of the input: every distance from the
	// window start that is special in 31, 32 or 33 bits, after a window
	// was filled at a boundary offset
	farBases := []int64{1<<31 - 1, 1 << 31, 1<<32 - 1, 1 << 32, 1 << 33, 3 << 32, 1 << 40, 1 << 62}
	farDeltas := []int64{0, 1, 2, 16, 1023, 1024, 1025}
	warm := []int64{0, 1, 1023, 1024, 2048}
	c.Stratum("far-seeks", len(cfgs)*len(warm), func(k *mon.Case) {
		cf := cfgs[k.Index/len(warm)]
		w := warm[k.Index%len(warm)]
		data := datas[cf.n]
		for _, base := range farBases {
			for _, d := range farDeltas {
				for _, rel := range []bool{false, true} {
					for _, after := range []c17op{{2, 0}, {3, 0}, {5, 0}, {6, 0}, {7, 1}, {7, 1024}, {8, 1}, {8, 3000}, {1, 5}} {
						s := c17new(k, data, cf.mode)
						target := base + d
						if rel {
							target += w // the same distance measured from the window start
						}
						seq := []c17op{{0, w}, {2, 0}, {0, target}, {9, 0}, after, {9, 0}, {0, w}, {2, 0}}
						s.desc = func() string { return fmt.Sprintf("len=%d source-mode=%d ops=%v", cf.n, cf.mode, seq) }
						for _, o := range seq {
							if !s.step(o) {
								return
							}
						}
						k.DistinctCount(1)
					}
				}
			}
		}
		k.Class("far-seek")
	})
	c.Require("far-seek")

	// random part
	c.Stratum("random", c.N(4000, 200000), func(k *mon.Case) {
		r := k.Rng
		n := r.IntN(5001)
		if r.IntN(4) == 0 {
			n = c17lengths[r.IntN(len(c17lengths))]
		}
		data := make([]byte, n)
		for i := range data {
			data[i] = byte(r.Uint32())
			if r.IntN(8) == 0 {
				data[i] = 0
			}
		}
		mode := []int{0, 1, 2, 3, 4, 5}[r.IntN(6)]
		s := c17new(k, data, mode)
		var log []c17op
		s.desc = func() string {
			l := log
			if len(l) > 12 {
				l = l[len(l)-12:]
			}
			return fmt.Sprintf("len=%d source-mode=%d last ops=%v (of %d)", n, mode, l, len(log))
		}
		for i := 0; i < 200; i++ {
			var o c17op
			switch r.IntN(12) {
			case 0:
				o = c17op{0, int64(r.IntN(n + 2000))}
			case 1:
				o = c17op{0, max(0, s.cur+int64(r.IntN(2100))-1050)}
				if r.IntN(10) == 0 {
					// the same position seen through 31..34 bit arithmetic
					o.arg = min(s.cur, 1<<31) + int64(r.IntN(1100)) + int64(1+r.IntN(4))<<uint(31+r.IntN(3))
				}
			case 2:
				o = c17op{1, int64(r.IntN(1500))}
			case 3:
				o = c17op{2, 0}
			case 4:
				o = c17op{3, 0}
			case 5:
				o = c17op{4, 0}
			case 6:
				o = c17op{5, 0}
			case 7:
				o = c17op{6, 0}
			case 8:
				o = c17op{7, int64(r.IntN(1025))}
			case 9:
				o = c17op{8, int64(r.IntN(3500))}
			case 10:
				o = c17op{9, 0}
			case 11:
				o = c17op{10, 0}
			}
			log = append(log, o)
			if !s.step(o) {
				return
			}
		}
		k.Distinct("rnd", k.Index)
		k.Class(fmt.Sprintf("source-mode-%d", mode))
		if k.Index < 2 {
			k.Sample(fmt.Sprintf("len=%d mode=%d ops=%v…", n, mode, log[:10]))
		}
	})
	c.Require("refill", "fail:Read", "fail:ReadBytes", "fail:ReadUint16Slice", "fail:ReadUint32", "ok:Read>buffer", "ok:ReadUint16Slice>buffer",
		"source-mode-0", "source-mode-1", "source-mode-2", "source-mode-3", "source-mode-5", "seek@beyond", "seek@eof", "uint16-lists:several-kept")
}
