package props

import (
	"fmt"
	"math/rand/v2"
	"sort"
	"strings"

	"seehuhn.de/go/postscript/funit"
	"seehuhn.de/go/sfnt/glyph"
	"seehuhn.de/go/sfnt/opentype/anchor"
	"seehuhn.de/go/sfnt/opentype/classdef"
	"seehuhn.de/go/sfnt/opentype/coverage"
	"seehuhn.de/go/sfnt/opentype/gtab"
	"seehuhn.de/go/sfnt/opentype/markarray"

	"verif/harness/internal/gen/otl"
	"verif/harness/internal/mon"
)

// Part B of C19: the meaning of descriptions.  Descriptions are generated
// from the glyph ids outwards: the generator first decides which glyphs a
// list denotes and then picks a notation for it, so the expected structure is
// known without parsing anything.  The notations are those of the examples
// in the repository (testcases.Gsub, parser_test.go): glyph names, decimal
// glyph ids, quoted strings looked up through the cmap (with \" and \\
// escapes), ranges first-last over names or one-character strings (ascending
// and descending), bracketed sets (sorted, duplicates removed), ::-delimited
// class names, lookup@position actions.

type c19gen struct {
	r     *rand.Rand
	ft    *c19font
	forms map[string]bool
}

func (g *c19gen) use(form string) { g.forms[form] = true }

func c19quote(rs []rune) string {
	var b strings.Builder
	b.WriteByte('"')
	for _, c := range rs {
		if c == '"' || c == '\\' {
			b.WriteByte('\\')
		}
		b.WriteRune(c)
	}
	b.WriteByte('"')
	return b.String()
}

// atom writes one glyph.
func (g *c19gen) atom(gid glyph.ID) string {
	var opts []string
	if g.ft.names != nil {
		opts = append(opts, "name", "name")
	}
	if c, ok := g.ft.runes[gid]; ok && c >= 0x20 {
		opts = append(opts, "string", "string")
	}
	opts = append(opts, "int")
	switch f := opts[g.r.IntN(len(opts))]; f {
	case "name":
		g.use("name")
		return g.ft.names[gid]
	case "string":
		g.use("string")
		c := g.ft.runes[gid]
		if c == '"' || c == '\\' {
			g.use("string-escape")
		}
		return c19quote([]rune{c})
	default:
		g.use("integer")
		return fmt.Sprint(int(gid))
	}
}

// rangeEnd writes a glyph as the end point of a range (name or string).
func (g *c19gen) rangeEnd(gid glyph.ID) (string, bool) {
	if g.ft.names != nil && g.r.IntN(2) == 0 {
		return g.ft.names[gid], true
	}
	if c, ok := g.ft.runes[gid]; ok && c >= 0x20 {
		return c19quote([]rune{c}), true
	}
	if g.ft.names != nil {
		return g.ft.names[gid], true
	}
	return "", false
}

// list writes the glyph sequence gids, choosing notations at random.
func (g *c19gen) list(gids []glyph.ID) string {
	var parts []string
	for i := 0; i < len(gids); {
		// a range?
		j := i
		for j+1 < len(gids) && gids[j+1] == gids[j]+1 {
			j++
		}
		if j == i {
			for j+1 < len(gids) && gids[j+1]+1 == gids[j] {
				j++
			}
		}
		if j > i && g.r.IntN(2) == 0 {
			a, ok1 := g.rangeEnd(gids[i])
			b, ok2 := g.rangeEnd(gids[j])
			if ok1 && ok2 {
				sep := "-"
				if g.r.IntN(3) == 0 {
					sep = " - "
				}
				parts = append(parts, a+sep+b)
				if gids[j] > gids[i] {
					g.use("range-ascending")
				} else {
					g.use("range-descending")
				}
				i = j + 1
				continue
			}
		}
		// a multi-character string?
		j = i
		var rs []rune
		for j < len(gids) {
			c, ok := g.ft.runes[gids[j]]
			if !ok || c < 0x20 {
				break
			}
			rs = append(rs, c)
			j++
		}
		if len(rs) >= 2 && g.r.IntN(2) == 0 {
			m := 2 + g.r.IntN(len(rs)-1)
			parts = append(parts, c19quote(rs[:m]))
			g.use("string-multi")
			i += m
			continue
		}
		parts = append(parts, g.atom(gids[i]))
		i++
	}
	return strings.Join(parts, " ")
}

func (g *c19gen) gid() glyph.ID { return glyph.ID(g.r.IntN(g.ft.n)) }

// seq returns n glyph ids, with runs so that ranges occur.
func (g *c19gen) seq(n int) []glyph.ID {
	var out []glyph.ID
	for len(out) < n {
		s := g.gid()
		switch g.r.IntN(4) {
		case 0: // ascending run
			for l := 1 + g.r.IntN(4); l > 0 && len(out) < n && int(s) < g.ft.n; l-- {
				out = append(out, s)
				s++
			}
		case 1: // descending run
			for l := 1 + g.r.IntN(4); l > 0 && len(out) < n; l-- {
				out = append(out, s)
				if s == 0 {
					break
				}
				s--
			}
		default:
			out = append(out, s)
		}
	}
	return out
}

// set writes a bracketed set and returns the sorted distinct glyphs it denotes.
func (g *c19gen) set(n int) (string, []glyph.ID) {
	gids := g.seq(n)
	text := "[" + g.list(gids) + "]"
	g.use("set")
	sorted := append([]glyph.ID{}, gids...)
	sort.Slice(sorted, func(i, j int) bool { return sorted[i] < sorted[j] })
	var uniq []glyph.ID
	for i, x := range sorted {
		if i == 0 || x != sorted[i-1] {
			uniq = append(uniq, x)
		} else {
			g.use("set-duplicate")
		}
	}
	return text, uniq
}

func (g *c19gen) distinct(n int) []glyph.ID {
	if n > g.ft.n {
		n = g.ft.n
	}
	p := g.r.Perm(g.ft.n)[:n]
	out := make([]glyph.ID, n)
	for i, x := range p {
		out[i] = glyph.ID(x)
	}
	return out
}

func (g *c19gen) actions() (string, []gtab.SeqLookup) {
	n := g.r.IntN(4)
	var parts []string
	var out []gtab.SeqLookup
	for i := 0; i < n; i++ {
		a := gtab.SeqLookup{SequenceIndex: uint16(g.r.IntN(4)), LookupListIndex: gtab.LookupIndex(g.r.IntN(9))}
		if g.r.IntN(10) == 0 {
			a.LookupListIndex = 65535
		}
		parts = append(parts, fmt.Sprintf("%d@%d", a.LookupListIndex, a.SequenceIndex))
		out = append(out, a)
	}
	if n > 0 {
		g.use("nested-actions")
	}
	return strings.Join(parts, " "), out
}

func (g *c19gen) flags() (string, gtab.LookupFlags) {
	var f gtab.LookupFlags
	var parts []string
	names := []string{"marks", "ligs", "base"}
	bits := []gtab.LookupFlags{gtab.IgnoreMarks, gtab.IgnoreLigatures, gtab.IgnoreBaseGlyphs}
	for _, i := range g.r.Perm(3) {
		if g.r.IntN(3) == 0 {
			parts = append(parts, "-"+names[i])
			f |= bits[i]
			g.use("flag-" + names[i])
		}
	}
	s := strings.Join(parts, " ")
	if s != "" {
		s = " " + s
	}
	return s, f
}

func (g *c19gen) sepComma() string {
	switch g.r.IntN(4) {
	case 0:
		g.use("newline-after-comma")
		return ",\n\t"
	case 1:
		return ","
	}
	return ", "
}

func (g *c19gen) arrow() string { return []string{" -> ", "->", " ->", "-> "}[g.r.IntN(4)] }

func (g *c19gen) value() (string, *gtab.GposValueRecord) {
	if g.r.IntN(4) == 0 {
		return "_", nil
	}
	v := &gtab.GposValueRecord{}
	var parts []string
	for _, i := range g.r.Perm(3) {
		if g.r.IntN(2) == 0 {
			continue
		}
		x := funit.Int16(g.r.IntN(4001) - 2000)
		if x == 0 {
			x = 7
		}
		switch i {
		case 0:
			v.XPlacement = x
			parts = append(parts, fmt.Sprintf("x%+d", x))
		case 1:
			v.YPlacement = x
			parts = append(parts, fmt.Sprintf("y%+d", x))
		default:
			v.XAdvance = x
			parts = append(parts, fmt.Sprintf("dx%+d", x))
		}
	}
	if len(parts) == 0 {
		return "_", nil
	}
	g.use("value-record")
	return strings.Join(parts, " "), v
}

func c19cov(gids []glyph.ID) coverage.Table {
	s := append([]glyph.ID{}, gids...)
	sort.Slice(s, func(i, j int) bool { return s[i] < s[j] })
	return otl.TableOf(s)
}

// lookup produces one description and the lookup it denotes.
func (g *c19gen) lookup(kind int) (string, *gtab.LookupTable) {
	ftext, flags := g.flags()
	colon := ":"
	if g.r.IntN(8) == 0 {
		colon = ""
	}
	meta := func(tp uint16) *gtab.LookupMetaInfo { return &gtab.LookupMetaInfo{LookupType: tp, LookupFlags: flags} }
	switch kind {
	case 0: // GSUB1, several mappings, lists of equal length map element-wise
		m := map[glyph.ID]glyph.ID{}
		var parts []string
		from := g.distinct(1 + g.r.IntN(6))
		for len(from) > 0 {
			n := 1 + g.r.IntN(len(from))
			if g.r.IntN(2) == 0 {
				n = 1
			}
			chunk := from[:n]
			from = from[n:]
			if g.r.IntN(2) == 0 { // make it a run so that range notation can be used on both sides
				s := chunk[0]
				ok := int(s)+n <= g.ft.n
				for i := 1; i < n && ok; i++ {
					if _, dup := m[s+glyph.ID(i)]; dup {
						ok = false
					}
					for _, rest := range from {
						if rest == s+glyph.ID(i) {
							ok = false
						}
					}
				}
				if ok {
					for i := range chunk {
						chunk[i] = s + glyph.ID(i)
					}
				}
			}
			dup := false
			for _, x := range chunk {
				if _, d := m[x]; d {
					dup = true
				}
			}
			if dup {
				continue
			}
			to := g.seq(n)[:n]
			for i, x := range chunk {
				m[x] = to[i]
			}
			parts = append(parts, g.list(chunk)+g.arrow()+g.list(to))
		}
		if len(m) == 0 {
			a, b := g.gid(), g.gid()
			m[a] = b
			parts = append(parts, g.atom(a)+g.arrow()+g.atom(b))
		}
		// expected: a single-substitution map (format is not part of the meaning)
		var keys []glyph.ID
		for x := range m {
			keys = append(keys, x)
		}
		cov := c19cov(keys)
		sub := make([]glyph.ID, len(cov))
		for x, i := range cov {
			sub[i] = m[x]
		}
		return "GSUB1" + colon + ftext + " " + strings.Join(parts, g.sepComma()),
			&gtab.LookupTable{Meta: meta(1), Subtables: []gtab.Subtable{&gtab.Gsub1_2{Cov: cov, SubstituteGlyphIDs: sub}}}
	case 1: // GSUB2
		keys := g.distinct(1 + g.r.IntN(4))
		cov := c19cov(keys)
		repl := make([][]glyph.ID, len(cov))
		var parts []string
		for _, x := range keys {
			to := g.seq(1 + g.r.IntN(4))
			repl[cov[x]] = to
			parts = append(parts, g.atom(x)+g.arrow()+g.list(to))
		}
		return "GSUB2" + colon + ftext + " " + strings.Join(parts, g.sepComma()),
			&gtab.LookupTable{Meta: meta(2), Subtables: []gtab.Subtable{&gtab.Gsub2_1{Cov: cov, Repl: repl}}}
	case 2: // GSUB3
		keys := g.distinct(1 + g.r.IntN(4))
		cov := c19cov(keys)
		alt := make([][]glyph.ID, len(cov))
		var parts []string
		for _, x := range keys {
			t, set := g.set(g.r.IntN(5))
			alt[cov[x]] = set
			parts = append(parts, g.atom(x)+g.arrow()+t)
		}
		return "GSUB3" + colon + ftext + " " + strings.Join(parts, g.sepComma()),
			&gtab.LookupTable{Meta: meta(3), Subtables: []gtab.Subtable{&gtab.Gsub3_1{Cov: cov, Alternates: alt}}}
	case 3: // GSUB4: ligatures grouped by first glyph, in the order given
		byFirst := map[glyph.ID][]gtab.Ligature{}
		var parts []string
		for i, n := 0, 1+g.r.IntN(5); i < n; i++ {
			in := g.seq(1 + g.r.IntN(4))
			out := g.gid()
			byFirst[in[0]] = append(byFirst[in[0]], gtab.Ligature{In: in[1:], Out: out})
			parts = append(parts, g.list(in)+g.arrow()+g.atom(out))
		}
		var keys []glyph.ID
		for x := range byFirst {
			keys = append(keys, x)
		}
		cov := c19cov(keys)
		repl := make([][]gtab.Ligature, len(cov))
		for x, i := range cov {
			repl[i] = byFirst[x]
		}
		return "GSUB4" + colon + ftext + " " + strings.Join(parts, g.sepComma()),
			&gtab.LookupTable{Meta: meta(4), Subtables: []gtab.Subtable{&gtab.Gsub4_1{Cov: cov, Repl: repl}}}
	case 4, 5: // GSUB5 / GSUB6 with all three formats as alternatives
		chained := kind == 5
		var subs []gtab.Subtable
		var texts []string
		for _, f := range g.r.Perm(3)[:1+g.r.IntN(3)] {
			t, s := g.context(f+1, chained)
			subs = append(subs, s)
			texts = append(texts, t)
		}
		if len(subs) > 1 {
			g.use("alternatives")
		}
		name, tp := "GSUB5", uint16(5)
		if chained {
			name, tp = "GSUB6", 6
		}
		return name + colon + ftext + "\n\t" + strings.Join(texts, " ||\n\t"), &gtab.LookupTable{Meta: meta(tp), Subtables: subs}
	case 6: // GPOS1: format 1 (set) and format 2 (single glyphs) alternatives
		var subs []gtab.Subtable
		var texts []string
		for i, n := 0, 1+g.r.IntN(3); i < n; i++ {
			if g.r.IntN(2) == 0 {
				t, set := g.set(g.r.IntN(5))
				vt, v := g.value()
				texts = append(texts, t+g.arrow()+vt)
				subs = append(subs, &gtab.Gpos1_1{Cov: c19cov(set), Adjust: v})
			} else {
				keys := g.distinct(1 + g.r.IntN(4))
				cov := c19cov(keys)
				adj := make([]*gtab.GposValueRecord, len(cov))
				var parts []string
				for _, x := range keys {
					vt, v := g.value()
					adj[cov[x]] = v
					parts = append(parts, g.atom(x)+g.arrow()+vt)
				}
				texts = append(texts, strings.Join(parts, g.sepComma()))
				subs = append(subs, &gtab.Gpos1_2{Cov: cov, Adjust: adj})
			}
		}
		if len(subs) > 1 {
			g.use("alternatives")
		}
		return "GPOS1" + colon + ftext + " " + strings.Join(texts, " ||\n\t"), &gtab.LookupTable{Meta: meta(1), Subtables: subs}
	case 7: // GPOS2 format 1: pairs
		sub := gtab.Gpos2_1{}
		var parts []string
		for i, n := 0, 1+g.r.IntN(4); i < n; i++ {
			p := glyph.Pair{Left: g.gid(), Right: g.gid()}
			if _, dup := sub[p]; dup {
				continue
			}
			t1, v1 := g.value()
			pa := &gtab.PairAdjust{First: v1}
			text := g.list([]glyph.ID{p.Left, p.Right}) + g.arrow() + t1
			if g.r.IntN(2) == 0 {
				t2, v2 := g.value()
				pa.Second = v2
				text += " & " + t2
				g.use("pair-second")
			}
			sub[p] = pa
			parts = append(parts, text)
		}
		return "GPOS2" + colon + ftext + " " + strings.Join(parts, g.sepComma()), &gtab.LookupTable{Meta: meta(2), Subtables: []gtab.Subtable{sub}}
	case 8: // GPOS3
		keys := g.distinct(1 + g.r.IntN(4))
		cov := c19cov(keys)
		recs := make([]gtab.EntryExitRecord, len(cov))
		var parts []string
		for _, x := range keys {
			v := [4]funit.Int16{}
			for i := range v {
				v[i] = funit.Int16(g.r.IntN(3001) - 1500)
			}
			recs[cov[x]] = gtab.EntryExitRecord{Entry: anchor.Table{X: v[0], Y: v[1]}, Exit: anchor.Table{X: v[2], Y: v[3]}}
			parts = append(parts, fmt.Sprintf("%s: %d,%d to %d,%d", g.atom(x), v[0], v[1], v[2], v[3]))
		}
		return "GPOS3" + colon + ftext + "\n\t" + strings.Join(parts, ";\n\t"), &gtab.LookupTable{Meta: meta(3), Subtables: []gtab.Subtable{&gtab.Gpos3_1{Cov: cov, Records: recs}}}
	default: // GPOS4
		k := 1 + g.r.IntN(3)
		marks := g.distinct(k + g.r.IntN(3))
		sort.Slice(marks, func(i, j int) bool { return marks[i] < marks[j] })
		if len(marks) < k {
			k = len(marks)
		}
		s := &gtab.Gpos4_1{MarkCov: otl.TableOf(marks)}
		var lines []string
		for i, x := range marks {
			cls := uint16(g.r.IntN(k))
			if i < k {
				cls = uint16(i)
			}
			a := anchor.Table{X: funit.Int16(g.r.IntN(2001) - 1000), Y: funit.Int16(g.r.IntN(2001) - 1000)}
			s.MarkArray = append(s.MarkArray, markarray.Record{Class: cls, Table: a})
			lines = append(lines, fmt.Sprintf("mark %s: %d @ %d,%d;", g.atom(x), cls, a.X, a.Y))
		}
		bases := g.distinct(g.r.IntN(4))
		sort.Slice(bases, func(i, j int) bool { return bases[i] < bases[j] })
		s.BaseCov = otl.TableOf(bases)
		for _, x := range bases {
			row := make([]anchor.Table, k)
			line := fmt.Sprintf("base %s:", g.atom(x))
			for j := range row {
				row[j] = anchor.Table{X: funit.Int16(g.r.IntN(2001) - 1000), Y: funit.Int16(g.r.IntN(2001) - 1000)}
				line += fmt.Sprintf(" @%d,%d", row[j].X, row[j].Y)
			}
			s.BaseArray = append(s.BaseArray, row)
			lines = append(lines, line+";")
		}
		return "GPOS4" + colon + ftext + "\n\t" + strings.Join(lines, "\n\t"), &gtab.LookupTable{Meta: meta(4), Subtables: []gtab.Subtable{s}}
	}
}

func c19rev[T any](s []T) []T {
	out := make([]T, len(s))
	for i, x := range s {
		out[len(s)-1-i] = x
	}
	return out
}

// context produces one (chained) context subtable of the given format.
// Backtrack sequences are written in logical order (closest glyph last) and
// stored closest glyph first, as the OpenType format has them.
func (g *c19gen) context(format int, chained bool) (string, gtab.Subtable) {
	g.use(fmt.Sprintf("context-format-%d", format))
	switch format {
	case 1:
		type rule struct {
			bt, in, la []glyph.ID
			act        []gtab.SeqLookup
		}
		byFirst := map[glyph.ID][]rule{}
		var parts []string
		for i, n := 0, 1+g.r.IntN(4); i < n; i++ {
			ru := rule{in: g.seq(1 + g.r.IntN(3))}
			at, act := g.actions()
			ru.act = act
			text := g.list(ru.in)
			if chained {
				ru.bt, ru.la = g.seq(g.r.IntN(3)), g.seq(g.r.IntN(3))
				text = g.list(ru.bt) + " | " + text + " | " + g.list(ru.la)
			}
			byFirst[ru.in[0]] = append(byFirst[ru.in[0]], ru)
			parts = append(parts, text+g.arrow()+at)
		}
		var keys []glyph.ID
		for x := range byFirst {
			keys = append(keys, x)
		}
		cov := c19cov(keys)
		text := strings.Join(parts, g.sepComma())
		if chained {
			rules := make([][]*gtab.ChainedSeqRule, len(cov))
			for x, i := range cov {
				for _, ru := range byFirst[x] {
					rules[i] = append(rules[i], &gtab.ChainedSeqRule{Backtrack: c19rev(ru.bt), Input: ru.in[1:], Lookahead: ru.la, Actions: ru.act})
				}
			}
			return text, &gtab.ChainedSeqContext1{Cov: cov, Rules: rules}
		}
		rules := make([][]*gtab.SeqRule, len(cov))
		for x, i := range cov {
			for _, ru := range byFirst[x] {
				rules[i] = append(rules[i], &gtab.SeqRule{Input: ru.in[1:], Actions: ru.act})
			}
		}
		return text, &gtab.SeqContext1{Cov: cov, Rules: rules}
	case 2:
		g.use("classes")
		// class definitions: disjoint glyph sets with names
		mkClasses := func(keyword string, prefix string) (string, classdef.Table, []string) {
			cd := classdef.Table{}
			var names []string
			var text string
			pool := g.distinct(g.ft.n)
			for c, n := 1, g.r.IntN(4); c <= n && len(pool) > 0; c++ {
				m := 1 + g.r.IntN(min(3, len(pool)))
				members := pool[:m]
				pool = pool[m:]
				name := fmt.Sprintf("%s%d", prefix, c)
				if g.r.IntN(3) == 0 {
					name = []string{"alpha", "digits", "ABC", "x_1", "k.2"}[g.r.IntN(5)] + fmt.Sprint(c)
				}
				names = append(names, name)
				for _, x := range members {
					cd[x] = uint16(c)
				}
				eq := " = "
				if g.r.IntN(4) == 0 {
					eq = " "
				}
				text += fmt.Sprintf("%s :%s:%s[%s]\n\t", keyword, name, eq, g.list(members))
			}
			return text, cd, names
		}
		classSeq := func(n int, names []string) (string, []uint16) {
			var parts []string
			var out []uint16
			for i := 0; i < n; i++ {
				c := g.r.IntN(len(names) + 1)
				out = append(out, uint16(c))
				if c == 0 {
					parts = append(parts, "::")
					g.use("class-0")
				} else {
					parts = append(parts, ":"+names[c-1]+":")
				}
			}
			return strings.Join(parts, " "), out
		}
		covGids := g.distinct(1 + g.r.IntN(4))
		covText := func() string {
			if g.r.IntN(3) != 0 {
				return g.list(covGids)
			}
			// the same set written in increasing order with glyphs named twice
			// (overlapping ranges like A-C C-E): a coverage list is a set
			txt := append([]glyph.ID{}, covGids...)
			sort.Slice(txt, func(i, j int) bool { return txt[i] < txt[j] })
			var out []glyph.ID
			for _, x := range txt {
				out = append(out, x)
				if g.r.IntN(2) == 0 {
					out = append(out, x)
				}
			}
			out = append(out, txt[len(txt)-1])
			g.use("coverage-list-sorted-with-duplicates")
			return g.list(out)
		}
		if !chained {
			defs, cd, names := mkClasses("class", "c")
			rules := make([][]*gtab.ClassSeqRule, len(names)+1)
			var parts []string
			for i, n := 0, 1+g.r.IntN(4); i < n; i++ {
				t, in := classSeq(1+g.r.IntN(3), names)
				at, act := g.actions()
				rules[in[0]] = append(rules[in[0]], &gtab.ClassSeqRule{Input: in[1:], Actions: act})
				parts = append(parts, t+g.arrow()+at)
			}
			return defs + "/" + covText() + "/ " + strings.Join(parts, g.sepComma()),
				&gtab.SeqContext2{Cov: c19cov(covGids), Input: cd, Rules: rules}
		}
		d1, cb, nb := mkClasses("backtrackclass", "b")
		d2, ci, ni := mkClasses("inputclass", "i")
		d3, cl, nl := mkClasses("lookaheadclass", "l")
		defs := []string{d1, d2, d3}
		g.r.Shuffle(3, func(i, j int) { defs[i], defs[j] = defs[j], defs[i] })
		rules := make([][]*gtab.ChainedClassSeqRule, len(ni)+1)
		var parts []string
		for i, n := 0, 1+g.r.IntN(4); i < n; i++ {
			tb, bt := classSeq(g.r.IntN(3), nb)
			ti, in := classSeq(1+g.r.IntN(3), ni)
			tl, la := classSeq(g.r.IntN(3), nl)
			at, act := g.actions()
			rules[in[0]] = append(rules[in[0]], &gtab.ChainedClassSeqRule{Backtrack: c19rev(bt), Input: in[1:], Lookahead: la, Actions: act})
			parts = append(parts, tb+" | "+ti+" | "+tl+g.arrow()+at)
		}
		return strings.Join(defs, "") + "/" + covText() + "/ " + strings.Join(parts, g.sepComma()),
			&gtab.ChainedSeqContext2{Cov: c19cov(covGids), Backtrack: cb, Input: ci, Lookahead: cl, Rules: rules}
	default:
		sets := func(n int) (string, []coverage.Set) {
			var parts []string
			var out []coverage.Set
			for i := 0; i < n; i++ {
				t, s := g.set(g.r.IntN(4))
				parts = append(parts, t)
				out = append(out, otl.SetOf(s))
			}
			return strings.Join(parts, " "), out
		}
		ti, in := sets(1 + g.r.IntN(3))
		at, act := g.actions()
		if !chained {
			return ti + g.arrow() + at, &gtab.SeqContext3{Input: in, Actions: act}
		}
		tb, bt := sets(g.r.IntN(3))
		tl, la := sets(g.r.IntN(3))
		return tb + " | " + ti + " | " + tl + g.arrow() + at, &gtab.ChainedSeqContext3{Backtrack: c19rev(bt), Input: in, Lookahead: la, Actions: act}
	}
}

func c19meaning(c *mon.Ctx) {
	c.Stratum("meaning", c.N(3000, 120000), func(k *mon.Case) {
		r := k.Rng
		kind := (k.Index / 10) % 3
		n := 5 + r.IntN(30)
		ft := c19makeFont(r, n, kind, false)
		g := &c19gen{r: r, ft: ft, forms: map[string]bool{}}
		var texts []string
		var want gtab.LookupList
		gpos := k.Index%10 >= 6
		nl := 1 + r.IntN(3)
		for i := 0; i < nl; i++ {
			lk := k.Index % 10
			if i > 0 {
				if gpos {
					lk = 6 + r.IntN(4)
				} else {
					lk = r.IntN(6)
				}
			}
			t, l := g.lookup(lk)
			if r.IntN(5) == 0 {
				t += " # " + []string{"comment", "GSUB1: A -> B", "\"unterminated", "-> || [ ]"}[r.IntN(4)]
				g.use("comment")
			}
			texts = append(texts, t)
			want = append(want, l)
		}
		sep := "\n"
		if r.IntN(4) == 0 {
			sep = "\n\n"
		}
		text := strings.Join(texts, sep)
		if r.IntN(2) == 0 {
			text = "\n" + text + "\n"
		}
		got, err, ok := c19parse(k, ft.f, text, "meaning")
		if !ok {
			return
		}
		first := c19typeName(c19types[k.Index%10])
		w := "c19:meaning:" + first + ":" + c19kindNames[kind]
		if err != nil {
			k.Fail("mismatch", w+":parse-error:"+c19errClass(err), "a description in the documented syntax is rejected: %v\n--- description ---\n%s", err, text)
			return
		}
		if d := c08diff(c19canon(want, !gpos), c19canon(got, !gpos)); d != "" {
			k.Fail("mismatch", w+":differs", "the parse differs from the documented meaning at %s\n--- description ---\n%s\n--- expected ---\n%s\n--- parsed ---\n%s", d, text, c19dump(want), c19dump(got))
			return
		}
		k.Class("meaning:" + first)
		k.Class("meaning-font:" + c19kindNames[kind])
		for f := range g.forms {
			k.Class("notation:" + f)
		}
		k.DistinctBytes([]byte(text))
		k.Sample(text)
	})

	// comments and line numbers: a description with comment lines and
	// trailing comments, followed by a line with an error.  The error names
	// that line, and it is the same error as for the text in which every
	// comment was replaced by nothing
	c.Stratum("error-line", c.N(400, 12000), func(k *mon.Case) {
		r := k.Rng
		n := 6 + r.IntN(30)
		ft := c19makeFont(r, n, c19both, false)
		g := &c19gen{r: r, ft: ft, forms: map[string]bool{}}
		comment := func() string {
			return "#" + []string{" note", "", " GSUB1: A -> B", " -> , ; [ ] /", "# double", " dx+5 y-3", "\tafter a tab"}[r.IntN(7)]
		}
		var lines []string
		gpos := k.Index%2 == 1
		for i := 0; i < 1+r.IntN(4); i++ {
			if r.IntN(3) == 0 {
				lines = append(lines, comment())
			}
			lk := r.IntN(6)
			if gpos {
				lk = 6 + r.IntN(4)
			}
			t, _ := g.lookup(lk)
			for _, ln := range strings.Split(t, "\n") {
				if r.IntN(3) == 0 && !strings.Contains(ln, "\"") {
					ln += " " + comment()
				}
				lines = append(lines, ln)
			}
			if r.IntN(4) == 0 {
				lines = append(lines, "")
			}
		}
		if r.IntN(2) == 0 {
			lines = append(lines, comment())
		}
		broken := "GSUB1: " + g.atom(glyph.ID(1+r.IntN(n-1))) + " ->"
		if gpos {
			broken = "GPOS1: " + g.atom(glyph.ID(1+r.IntN(n-1))) + " -> dx"
		}
		lines = append(lines, broken)
		want := len(lines)
		if r.IntN(2) == 0 {
			lines = append(lines, comment(), "")
		}
		text := strings.Join(lines, "\n") + "\n"
		plainLines := make([]string, len(lines))
		for i, ln := range lines {
			if j := strings.Index(ln, "#"); j >= 0 && !strings.Contains(ln[:j], "\"") {
				ln = ln[:j]
			}
			plainLines[i] = ln
		}
		plain := strings.Join(plainLines, "\n") + "\n"
		_, err, ok := c19parse(k, ft.f, text, "error-line")
		if !ok {
			return
		}
		_, errPlain, ok := c19parse(k, ft.f, plain, "error-line")
		if !ok {
			return
		}
		k.Eval()
		switch {
		case err == nil || errPlain == nil:
			k.Fail("mismatch", "c19:error-line:no-error", "a description whose line %d breaks off after the arrow is accepted (with comments: %v, without: %v)\n--- description ---\n%s", want, err, errPlain, text)
		case err.Error() != errPlain.Error():
			k.Fail("mismatch", "c19:error-line:comments-change-the-error", "comments change the error: %q with comments, %q with every comment removed\n--- description ---\n%s", err, errPlain, text)
		case !strings.HasPrefix(err.Error(), fmt.Sprintf("%d:", want)) && !strings.HasPrefix(err.Error(), fmt.Sprintf("%d:", want+1)):
			// (the end of a line is reported with the number of the line it begins)
			k.Fail("mismatch", "c19:error-line:wrong-line", "the error is on line %d, reported: %q\n--- description ---\n%s", want, err, text)
		default:
			k.Class("error-line:checked")
		}
		k.DistinctBytes([]byte(text))
	})
	c.Require("error-line:checked")
}
