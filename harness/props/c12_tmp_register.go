package props

import "verif/harness/internal/mon"

// TEMPORARY: registers only the table-level strata of C12 so that they can be
// run on their own.  Delete this file when the owner of C12 registers the
// property (and calls c12tables from there).
func init() {
	mon.RegisterCfg("C12", mon.Config{
		Rule: "table-level strata only (temporary registration): hmtx/hhea, head, maxp, OS/2 and post values go through Encode -> Decode and are compared field by field; tabread reads the same values from the bytes",
	}, func(c *mon.Ctx) { c12tables(c) })
}
