package props

import (
	"bytes"
	"fmt"
	"sort"

	"seehuhn.de/go/sfnt/header"

	"verif/harness/internal/mon"
	"verif/harness/internal/ref/sfntwalk"
)

// C03: written files are well-formed sfnt containers.

func init() {
	mon.RegisterCfg("C03", mon.Config{
		Rule: "stratum maps: header.Write on random tag->bytes maps (1..280 entries with emphasis on 2^k-1, 2^k, 2^k+1; all length residues mod 4; nil values and keys of length != 4; three scaler types; with/without head), judged by the independent container validator sfntwalk and by header.Read; stratum fonts: complete generated fonts written with Write/WriteTrueTypePDF/WriteOpenTypeCFFPDF, judged by sfntwalk and compared with golang.org/x/image/font/sfnt. distinct = distinct output files (hash)",
		Assumptions: []string{
			"a map with no written table gives a 12-byte container whose header is checked; header.Read refuses such a file on purpose ('no tables'), so the read-back clause is not judged for it",
			"a 'head' entry shorter than 12 bytes cannot hold the checksum adjustment: it must be copied as it is and nothing may be patched (neither in it nor behind it)",
			"sfntwalk (own code, written from the OpenType spec) and x/image are correct where they agree",
		},
	}, runC03)
}

func c03tag(k *mon.Case) string {
	r := k.Rng
	common := []string{"cmap", "glyf", "loca", "hhea", "hmtx", "maxp", "name", "post", "OS/2", "CFF ", "GSUB", "GPOS", "GDEF", "kern", "cvt ", "fpgm", "prep", "gasp", "DSIG", "LTSH", "VDMX", "hdmx"}
	if r.IntN(3) == 0 {
		return common[r.IntN(len(common))]
	}
	b := make([]byte, 4)
	for i := range b {
		b[i] = byte(0x20 + r.IntN(0x7f-0x20))
	}
	return string(b)
}

func runC03(c *mon.Ctx) {
	counts := []int{1, 2, 3, 4, 5, 7, 8, 9, 15, 16, 17, 31, 32, 33, 63, 64, 65, 127, 128, 129, 255, 256, 257, 280}
	c.Stratum("maps", c.N(6000, 300000), func(k *mon.Case) {
		r := k.Rng
		var n int
		switch r.IntN(3) {
		case 0:
			n = counts[r.IntN(len(counts))]
		case 1:
			n = 1 + r.IntN(30)
		default:
			n = 1 + r.IntN(60)
		}
		if !c.Thorough() && n > 130 && r.IntN(4) != 0 {
			n = 1 + r.IntN(60)
		}
		hasHead := r.IntN(2) == 0
		if hasHead {
			n-- // the reader accepts at most 280 tables; head counts
		}
		if r.IntN(40) == 0 {
			// nothing to write at all (possibly next to a short head table)
			n = 0
		}
		tables := map[string][]byte{}
		for len(tables) < n {
			tag := c03tag(k)
			if tag == "head" {
				continue
			}
			l := r.IntN(40)
			switch r.IntN(6) {
			case 0:
				l = 0
			case 1:
				l = r.IntN(5001)
			case 2:
				l = r.IntN(300)
			}
			b := make([]byte, l)
			for i := range b {
				b[i] = byte(r.Uint32())
			}
			tables[tag] = b
		}
		if hasHead {
			l := 54
			switch r.IntN(5) {
			case 0:
				l = 12 + r.IntN(100)
			case 1:
				l = 54 + r.IntN(4)
			case 2:
				// too short to hold the checksum adjustment (bytes 8..11): "any
				// lengths including 0" - the table is copied, nothing is patched
				l = r.IntN(12)
				k.Class("head-shorter-than-12")
			}
			b := make([]byte, l)
			for i := range b {
				b[i] = byte(r.Uint32())
			}
			tables["head"] = b
			k.Class("with-head")
		} else {
			k.Class("without-head")
			if r.IntN(20) == 0 {
				// documented: "tables where the data is nil are not written"
				tables["head"] = nil
				k.Class("nil-head")
			}
		}
		// entries that must not be written
		nNil, nBad := 0, 0
		if r.IntN(4) == 0 {
			nNil = 1 + r.IntN(3)
			for i := 0; i < nNil; i++ {
				tag := c03tag(k)
				if _, ok := tables[tag]; ok || tag == "head" {
					nNil--
					continue
				}
				tables[tag] = nil
			}
		}
		if r.IntN(4) == 0 {
			for _, key := range []string{"", "abc", "abcde", "x"}[:1+r.IntN(4)] {
				tables[key] = []byte{1, 2, 3, 4, 5}
				nBad++
			}
		}
		scaler := []uint32{header.ScalerTypeTrueType, header.ScalerTypeCFF, header.ScalerTypeApple}[r.IntN(3)]

		// expected written set (copy, because Write patches head in place)
		want := map[string][]byte{}
		for tag, b := range tables {
			if b != nil && len(tag) == 4 {
				want[tag] = append([]byte{}, b...)
			}
		}
		if r.IntN(4) == 0 {
			// the caller cut all tables from one buffer (e.g. a file read into
			// memory, or one arena): back to back, every slice with the
			// following tables in its spare capacity
			var tags []string
			total := 0
			for tag, b := range tables {
				if b != nil {
					tags = append(tags, tag)
					total += len(b)
				}
			}
			sort.Strings(tags)
			r.Shuffle(len(tags), func(i, j int) { tags[i], tags[j] = tags[j], tags[i] })
			arena := make([]byte, total+16)
			for i := range arena {
				arena[i] = 0xA5
			}
			off := 0
			for _, tag := range tags {
				n := copy(arena[off:], tables[tag])
				tables[tag] = arena[off : off+n]
				off += n
			}
			k.Class("tables-share-one-buffer")
		}
		desc := func() string {
			var keys []string
			for tag, b := range tables {
				if b == nil {
					keys = append(keys, fmt.Sprintf("%q:nil", tag))
				} else {
					keys = append(keys, fmt.Sprintf("%q:%d", tag, len(b)))
				}
			}
			sort.Strings(keys)
			if len(keys) > 24 {
				keys = append(keys[:24], "…")
			}
			return fmt.Sprintf("scaler=%#x tables=%v", scaler, keys)
		}
		buf := &bytes.Buffer{}
		var nw int64
		var err error
		if k.Guard("header.Write", func() { nw, err = header.Write(buf, scaler, tables) }) {
			return
		}
		k.Eval()
		if err != nil {
			k.Fail("mismatch", "write-error", "header.Write failed: %v\n%s", err, desc())
			return
		}
		out := buf.Bytes()
		k.DistinctBytes(out)
		if nw != int64(len(out)) {
			k.Fail("mismatch", "wrong-count", "header.Write returned %d, wrote %d bytes", nw, len(out))
		}
		checkContainer(k, out, scaler, want, desc)
		// the caller's tables are the caller's: only the checksum adjustment
		// of head (bytes 8..11) is documented to be patched in place
		for tag, b := range want {
			got := tables[tag]
			if tag == "head" && len(b) >= 12 && len(got) == len(b) {
				got = append(append(append([]byte{}, got[:8]...), b[8:12]...), got[12:]...)
			}
			if !bytes.Equal(got, b) {
				k.Fail("mismatch", "write-modifies-callers-tables", "header.Write changed the caller's table %q at byte %d\n%s", tag, firstDiff(got, b), desc())
				break
			}
		}
		k.Class(fmt.Sprintf("ntables=%d", len(want)))
		if nNil > 0 {
			k.Class("nil-entries")
		}
		if nBad > 0 {
			k.Class("bad-length-keys")
		}
		for _, b := range want {
			k.Class(fmt.Sprintf("len-mod4=%d", len(b)%4))
		}
		if k.Index < 2 {
			k.Sample(desc())
		}
	})
	c03fonts(c)
	c.Require("head-shorter-than-12", "ntables=0", "tables-share-one-buffer", "with-head", "without-head", "nil-entries", "bad-length-keys", "len-mod4=0", "len-mod4=1", "len-mod4=2", "len-mod4=3",
		"ntables=1", "ntables=7", "ntables=8", "ntables=9", "ntables=16", "ntables=17", "ntables=31", "ntables=32", "ntables=33")
}

// checkContainer applies all container clauses of C03 to out.
func checkContainer(k *mon.Case, out []byte, scaler uint32, want map[string][]byte, desc func() string) bool {
	ok := true
	f, probs := sfntwalk.Walk(out)
	for _, p := range probs {
		k.Fail("mismatch", "container:"+p.Rule, "%s\n%s", p, desc())
		ok = false
	}
	if f == nil {
		return false
	}
	if f.Scaler != scaler {
		k.Fail("mismatch", "container:scaler", "scaler %#x want %#x", f.Scaler, scaler)
		ok = false
	}
	if len(f.Tables) != len(want) {
		k.Fail("mismatch", "container:numTables", "directory has %d records, %d tables were to be written\n%s", len(f.Tables), len(want), desc())
		ok = false
	}
	seen := map[string]bool{}
	for _, t := range f.Tables {
		w, exists := want[t.Tag]
		if !exists {
			k.Fail("mismatch", "container:extra-table", "directory lists %q (len %d) which was not to be written\n%s", t.Tag, t.Length, desc())
			ok = false
			continue
		}
		seen[t.Tag] = true
		if t.Data == nil && t.Length > 0 {
			continue
		}
		if !equalModHead(t.Tag, t.Data, w) {
			k.Fail("mismatch", "container:table-bytes", "table %q differs from the input bytes\n%s", t.Tag, desc())
			ok = false
		}
	}
	for tag := range want {
		if !seen[tag] {
			k.Fail("mismatch", "container:missing-table", "table %q missing from the directory\n%s", tag, desc())
			ok = false
		}
	}
	// the library's own reader must return exactly the written set
	var info *header.Info
	var err error
	rd := bytes.NewReader(out)
	if k.Guard("header.Read", func() { info, err = header.Read(rd) }) {
		return false
	}
	if err != nil && len(want) == 0 {
		// a container without any table is written (12 bytes, checked above);
		// the reader refuses it on purpose ("no tables"): there is nothing
		// whose return could be judged
		k.Class("ntables=0:reader-refuses")
		return ok
	}
	if err != nil {
		k.Fail("mismatch", "header.Read-rejects-own-output", "header.Read: %v\n%s", err, desc())
		return false
	}
	if info.ScalerType != scaler {
		k.Fail("mismatch", "readback:scaler", "header.Read scaler %#x want %#x", info.ScalerType, scaler)
		ok = false
	}
	if len(info.Toc) != len(want) {
		k.Fail("mismatch", "readback:table-set", "header.Read lists %d tables, wrote %d\n%s", len(info.Toc), len(want), desc())
		ok = false
	}
	for tag, w := range want {
		if _, exists := info.Toc[tag]; !exists {
			k.Fail("mismatch", "readback:table-set", "header.Read does not list %q\n%s", tag, desc())
			ok = false
			continue
		}
		got, err := info.ReadTableBytes(rd, tag)
		if err != nil || !equalModHead(tag, got, w) {
			k.Fail("mismatch", "readback:table-bytes", "ReadTableBytes(%q): err=%v, equal=%v\n%s", tag, err, err == nil && equalModHead(tag, got, w), desc())
			ok = false
		}
	}
	return ok
}

func equalModHead(tag string, got, want []byte) bool {
	if tag != "head" || len(want) < 12 {
		return bytes.Equal(got, want)
	}
	if len(got) != len(want) {
		return false
	}
	return bytes.Equal(got[:8], want[:8]) && bytes.Equal(got[12:], want[12:])
}
