package props

import (
	"bytes"
	"encoding/binary"
	"fmt"
	"sort"

	"golang.org/x/text/language"
	"seehuhn.de/go/postscript/funit"
	"seehuhn.de/go/sfnt"
	"seehuhn.de/go/sfnt/glyph"
	"seehuhn.de/go/sfnt/opentype/classdef"
	"seehuhn.de/go/sfnt/opentype/gdef"
	"seehuhn.de/go/sfnt/opentype/gtab"

	"verif/harness/internal/gen/fontgen"
	"verif/harness/internal/mon"
	"verif/harness/internal/ref/cmapref"
)

// C15: end-to-end layout: cmap, feature selection, widths and kerning compose right.

func init() {
	mon.RegisterCfg("C15", mon.Config{
		Rule: "stratum layout: generated fonts with GSUB/GPOS, strings over mapped/unmapped characters, languages that are keys of the script list / unrelated / und, feature maps nil / empty / each feature on or off; Layout is compared with the composition best-cmap -> Apply(GSUB lookups selected) -> widths -> Apply(GPOS lookups selected). stratum select: script lists with 1..20 language systems; FindLookups must be ascending, in range, duplicate-free, equal to required+enabled optional lookups of ONE language system of the list (the literally requested one if present), and identical over 200 calls. stratum kern: harness-assembled files with a legacy kern table (1..4 format-0 subtables, horizontal/minimum/override combinations, 0..3000 pairs) read with sfnt.Read; every pair and sampled non-pairs are laid out. stratum ligatures: all 32 subsets of U+FB00..FB04 in proportional and fixed-pitch fonts without GSUB. distinct = distinct (font, string/language/features | script list | kern table | ligature subset) inputs (hash)",
		Assumptions: []string{
			"how x/text/language ranks near-miss languages is not part of the property; only exact matches and the consistency of the choice are judged",
			"the lookup engine itself (Apply) is judged by C06/C07; here it is the middle stage of the composition",
			"kern 'minimum' subtables raise the accumulated value to at least the given value (on the first subtable: against the implicit 0 every pair starts with); cross-stream / vertical / non-format-0 subtables are ignored",
			"a pair whose accumulated value leaves the FWORD range (and is not replaced by a later override subtable) has no value the kern specification or the property defines: such pairs are laid out (no panic) but their value is not judged (skip class kern:accumulated-value-outside-int16)",
			"feature / lookup indices beyond the lists (stratum select) are what gtab.Read delivers for files with dangling indices: they select nothing, the in-range part of the selection is unaffected",
		},
	}, runC15)
}

var c15langs = []language.Tag{language.English, language.German, language.French, language.Greek, language.Russian, language.Arabic,
	language.Turkish, language.Dutch, language.Polish, language.Swedish, language.Italian, language.Spanish, language.Hebrew,
	language.Hindi, language.Thai, language.Serbian, language.Romanian, language.Hungarian,
	language.MustParse("und-Latn"), language.MustParse("und-Zzzz"), language.MustParse("und-Cyrl"), language.MustParse("und-Grek"), language.MustParse("und-Arab")}

// canonicalTags sends tags through the library's own script list encoding to
// obtain the canonical form the reader returns.
func canonicalTags(tags []language.Tag) []language.Tag {
	info := &gtab.Info{ScriptList: gtab.ScriptListInfo{}, FeatureList: gtab.FeatureListInfo{{Tag: "test"}},
		LookupList: gtab.LookupList{{Meta: &gtab.LookupMetaInfo{LookupType: 1}, Subtables: []gtab.Subtable{&gtab.Gsub1_1{Cov: map[glyph.ID]bool{1: true}, Delta: 1}}}}}
	for _, t := range tags {
		info.ScriptList[t] = &gtab.Features{Required: 0xFFFF}
	}
	var out []language.Tag
	pv, _ := mon.Try(func() {
		back, err := gtab.Read(bytes.NewReader(info.Encode()), gtab.TypeGsub)
		if err != nil {
			return
		}
		for t := range back.ScriptList {
			out = append(out, t)
		}
	})
	if pv != nil {
		return nil
	}
	sort.Slice(out, func(i, j int) bool { return out[i].String() < out[j].String() })
	return out
}

func lookupsOf(info *gtab.Info, ls *gtab.Features, on map[string]bool) []gtab.LookupIndex {
	set := map[gtab.LookupIndex]bool{}
	add := func(fi gtab.FeatureIndex) {
		if int(fi) < len(info.FeatureList) {
			for _, l := range info.FeatureList[fi].Lookups {
				if int(l) < len(info.LookupList) {
					set[l] = true
				}
			}
		}
	}
	add(ls.Required)
	for _, fi := range ls.Optional {
		if int(fi) < len(info.FeatureList) && on[info.FeatureList[fi].Tag] {
			add(fi)
		}
	}
	var out []gtab.LookupIndex
	for l := range set {
		out = append(out, l)
	}
	sort.Slice(out, func(i, j int) bool { return out[i] < out[j] })
	return out
}

// checkSelection applies the selection oracle to one FindLookups query.
func checkSelection(k *mon.Case, info *gtab.Info, lang language.Tag, on map[string]bool, desc string) []gtab.LookupIndex {
	return checkSelectionOf(k, info, info, lang, on, desc)
}

// checkSelectionOf queries one structure and takes the oracle from another:
// queried is what the library read from the bytes it wrote for info.
func checkSelectionOf(k *mon.Case, queried, info *gtab.Info, lang language.Tag, on map[string]bool, desc string) []gtab.LookupIndex {
	var got []gtab.LookupIndex
	if k.Guard("FindLookups", func() { got = queried.FindLookups(lang, on) }) {
		return nil
	}
	k.Eval()
	for i, l := range got {
		if int(l) >= len(info.LookupList) {
			k.Fail("mismatch", "select:out-of-range", "FindLookups returned lookup %d of %d (%s)", l, len(info.LookupList), desc)
			return got
		}
		if i > 0 && got[i-1] >= l {
			k.Fail("mismatch", "select:not-ascending", "FindLookups result %v is not strictly ascending (%s)", got, desc)
			return got
		}
	}
	// which language system explains the answer?
	explained := false
	if ls, ok := info.ScriptList[lang]; ok && ls != nil {
		want := lookupsOf(info, ls, on)
		if fmt.Sprint(want) != fmt.Sprint(got) {
			k.Fail("mismatch", "select:exact-language-ignored", "language %v is a key of the script list; FindLookups=%v, required+enabled lookups of that language system=%v (%s)", lang, got, want, desc)
			return got
		}
		explained = true
		k.Class("select:exact-language")
	} else {
		for _, ls := range info.ScriptList {
			if ls != nil && fmt.Sprint(lookupsOf(info, ls, on)) == fmt.Sprint(got) {
				explained = true
			}
		}
		if len(info.ScriptList) >= 2 {
			k.Class("select:non-matching-language,>=2-systems")
		}
	}
	if !explained && len(info.ScriptList) > 0 {
		k.Fail("mismatch", "select:no-language-system-explains", "FindLookups(%v)=%v equals required+enabled lookups of no language system (%s)", lang, got, desc)
		return got
	}
	// the same on every call
	for rep := 0; rep < 200; rep++ {
		var again []gtab.LookupIndex
		if k.Guard("FindLookups", func() { again = queried.FindLookups(lang, on) }) {
			return got
		}
		if fmt.Sprint(again) != fmt.Sprint(got) {
			k.Fail("mismatch", "select:unstable", "FindLookups(%v) returned %v and then %v (%s)", lang, got, again, desc)
			return got
		}
	}
	k.Evals(200)
	return got
}

// c15arrayFormat4 writes a format 4 subtable in which every segment reads the
// glyph index array and adds a non-zero idDelta; codes without a glyph inside
// a segment have the array entry 0.
func c15arrayFormat4(m map[uint16]uint16) ([]byte, bool) {
	var codes []int
	used := map[uint16]bool{}
	for c, g := range m {
		if g != 0 && c != 0xFFFF {
			codes = append(codes, int(c))
			used[g] = true
		}
	}
	if len(codes) == 0 {
		return nil, false
	}
	sort.Ints(codes)
	delta := uint16(0x4001)
	for used[delta] { // an entry of 0 means "no glyph": no glyph id may equal the delta
		delta += 7
	}
	f := &cmapref.Format4{}
	for i := 0; i < len(codes); {
		j := i + 1
		for j < len(codes) && codes[j]-codes[j-1] <= 4 {
			j++
		}
		sg := cmapref.Seg4{Start: uint16(codes[i]), End: uint16(codes[j-1]), Delta: delta, Slot: len(f.Glyphs)}
		for c := codes[i]; c <= codes[j-1]; c++ {
			if g := m[uint16(c)]; g != 0 {
				f.Glyphs = append(f.Glyphs, g-delta)
			} else {
				f.Glyphs = append(f.Glyphs, 0)
			}
		}
		f.Segs = append(f.Segs, sg)
		i = j
	}
	f.Segs = append(f.Segs, cmapref.Seg4{Start: 0xFFFF, End: 0xFFFF, Delta: 1, Slot: -1})
	data, err := f.Encode()
	return data, err == nil
}

func copySeq(s []glyph.Info) []glyph.Info {
	out := make([]glyph.Info, len(s))
	for i, g := range s {
		out[i] = g
		out[i].Text = append([]rune{}, g.Text...)
	}
	return out
}

func seqString(s []glyph.Info) string {
	var b bytes.Buffer
	for _, g := range s {
		fmt.Fprintf(&b, "[%d %q adv=%d off=(%d,%d)]", g.GID, string(g.Text), g.Advance, g.XOffset, g.YOffset)
	}
	return b.String()
}

func sameSeq(a, b []glyph.Info) bool {
	if len(a) != len(b) {
		return false
	}
	for i := range a {
		if a[i].GID != b[i].GID || string(a[i].Text) != string(b[i].Text) || a[i].Advance != b[i].Advance || a[i].XOffset != b[i].XOffset || a[i].YOffset != b[i].YOffset {
			return false
		}
	}
	return true
}

// c15kernValue draws one kerning value: mostly small, sometimes at or near the
// limits of the FWORD range.
func c15kernValue(k *mon.Case, cls map[string]bool) int16 {
	r := k.Rng
	switch r.IntN(12) {
	case 0:
		cls["kern-value:int16-extreme"] = true
		return []int16{32767, -32768, 32766, -32767, 0x4000, -0x4000, 0x7F00, -0x7F00, 255, 256, -256, -255}[r.IntN(12)]
	case 1:
		cls["kern-value:large"] = true
		return int16(r.IntN(65536) - 32768)
	}
	return int16(r.IntN(601) - 300)
}

// c15kernTable assembles a kern table (version 0) and returns the reference
// values.  open lists the pairs whose accumulated value leaves the FWORD range
// at some point (and is not replaced by an override subtable later): the kern
// specification does not say what the value of such a pair is.
func c15kernTable(k *mon.Case, n int, huge bool) (out []byte, ref map[glyph.Pair]int, open map[glyph.Pair]bool) {
	r := k.Rng
	ref = map[glyph.Pair]int{}
	open = map[glyph.Pair]bool{}
	cls := map[string]bool{}
	var refKeys []glyph.Pair // keys of ref in the order of first appearance (fixed order for the PRNG)
	nsub := 1 + r.IntN(4)
	out = binary.BigEndian.AppendUint16(out, 0)
	out = binary.BigEndian.AppendUint16(out, uint16(nsub))
	for s := 0; s < nsub; s++ {
		np := r.IntN(12)
		switch r.IntN(10) {
		case 0:
			np = 0
		case 1:
			np = 200 + r.IntN(2800)
		}
		if huge && s == nsub-1 {
			// more pairs than the 16-bit subtable length can describe (> 10920);
			// real fonts and the library's own encoder write the length modulo 65536
			np = 10900 + r.IntN(3000)
			for (14+6*np)&0xffff < 14 {
				np++ // a wrapped length below the subtable header size is rejected by the reader (not generated)
			}
			k.Class("kern-subtable:>10920-pairs")
		}
		flags := byte(1) // horizontal
		kind := "accumulate"
		// the first subtable may carry the minimum / override flags as well: the
		// value accumulated so far is 0 for every pair
		if s > 0 || r.IntN(3) == 0 {
			switch r.IntN(4) {
			case 0:
				flags |= 2
				kind = "minimum"
			case 1:
				flags |= 8
				kind = "override"
			case 2:
				flags |= 2 | 8
				kind = "minimum" // the library tests minimum first
			}
		}
		if s > 0 && r.IntN(8) == 0 {
			flags = 0 // vertical: ignored
			kind = "ignored"
		}
		if r.IntN(10) == 0 {
			flags |= 4 // cross-stream: ignored
			kind = "ignored"
		}
		k.Class("kern-subtable:" + kind)
		if s == 0 {
			k.Class("kern-first-subtable:" + kind)
		}
		pairs := map[glyph.Pair]int16{}
		for len(pairs) < np && len(pairs) < n*n {
			p := glyph.Pair{Left: glyph.ID(r.IntN(n)), Right: glyph.ID(r.IntN(n))}
			if s > 0 && r.IntN(2) == 0 && len(refKeys) > 0 && !(huge && s == nsub-1) {
				p = refKeys[r.IntN(len(refKeys))] // hit an existing pair
				if r.IntN(4) == 0 {
					// exactly zero: an override resets the pair, a minimum
					// raises a negative value to 0, an accumulating subtable
					// leaves it alone
					pairs[p] = 0
					if ref[p] != 0 && kind != "ignored" {
						k.Class("kern:zero-for-a-pair-with-a-value:" + kind)
					}
					continue
				}
				if r.IntN(3) == 0 {
					// push the accumulated value towards (and beyond) the end of the FWORD range
					if ref[p] >= 0 {
						pairs[p] = int16(32767 - r.IntN(200))
					} else {
						pairs[p] = int16(-32768 + r.IntN(200))
					}
					continue
				}
			}
			pairs[p] = c15kernValue(k, cls)
		}
		var keys []glyph.Pair
		for p := range pairs {
			keys = append(keys, p)
		}
		sort.Slice(keys, func(i, j int) bool {
			if keys[i].Left != keys[j].Left {
				return keys[i].Left < keys[j].Left
			}
			return keys[i].Right < keys[j].Right
		})
		np = len(keys)
		length := (14 + 6*np) & 0xffff
		out = binary.BigEndian.AppendUint16(out, 0)
		out = binary.BigEndian.AppendUint16(out, uint16(length))
		out = append(out, 0, flags)
		out = binary.BigEndian.AppendUint16(out, uint16(np))
		es := 0
		for 1<<(es+1) <= np {
			es++
		}
		sr := 0
		if np > 0 {
			sr = 6 << es
		}
		out = binary.BigEndian.AppendUint16(out, uint16(sr))
		out = binary.BigEndian.AppendUint16(out, uint16(es))
		out = binary.BigEndian.AppendUint16(out, uint16(6*np-sr))
		for _, p := range keys {
			out = binary.BigEndian.AppendUint16(out, uint16(p.Left))
			out = binary.BigEndian.AppendUint16(out, uint16(p.Right))
			out = binary.BigEndian.AppendUint16(out, uint16(pairs[p]))
			v := int(pairs[p])
			if _, seen := ref[p]; !seen && kind != "ignored" {
				refKeys = append(refKeys, p)
				ref[p] = 0
			}
			switch kind {
			case "accumulate":
				ref[p] += v
				if ref[p] > 32767 || ref[p] < -32768 {
					open[p] = true
					cls["kern:accumulation-leaves-int16"] = true
				}
			case "minimum":
				if ref[p] < v {
					ref[p] = v
				}
				if s == 0 {
					if v > 0 {
						cls["kern-first-subtable:minimum-raises-implicit-0"] = true
					} else if v < 0 {
						cls["kern-first-subtable:minimum-below-implicit-0"] = true
					}
				}
			case "override":
				ref[p] = v
				delete(open, p)
			}
		}
	}
	var names []string
	for c := range cls {
		names = append(names, c)
	}
	sort.Strings(names)
	for _, c := range names {
		k.Class(c)
	}
	return out, ref, open
}

func runC15(c *mon.Ctx) {
	canon := canonicalTags(c15langs)
	dflt := language.MustParse("und-Zzzz-x-dflt")

	// ---- feature selection ----
	c.Stratum("select", c.N(1500, 60000), func(k *mon.Case) {
		r := k.Rng
		if len(canon) < 10 {
			k.Fail("mismatch", "harness:canonical-tags", "only %d canonical tags could be derived", len(canon))
			return
		}
		nls := 1 + r.IntN(20)
		nf := 1 + r.IntN(8)
		nl := 1 + r.IntN(10)
		info := &gtab.Info{ScriptList: gtab.ScriptListInfo{}}
		tags := []string{"liga", "kern", "smcp", "calt", "ccmp", "mark", "dlig", "onum", "test"}
		// out-of-range indices (what gtab.Read delivers for files with dangling
		// indices): about a quarter of the cases carry some; the property promises
		// in-range results, and the in-range part must be unaffected
		wild := r.IntN(4) == 0
		oorLookup, oorFeature, oorRequired := false, false, false
		lookupIndex := func() gtab.LookupIndex {
			if wild && r.IntN(4) == 0 {
				oorLookup = true
				switch r.IntN(4) {
				case 0:
					return gtab.LookupIndex(nl) // first index behind the list
				case 1:
					return 0xFFFF
				case 2:
					return gtab.LookupIndex(nl + 256*(1+r.IntN(255))) // low byte in range
				}
				return gtab.LookupIndex(nl + r.IntN(0x10000-nl))
			}
			return gtab.LookupIndex(r.IntN(nl))
		}
		featureIndex := func(required bool) gtab.FeatureIndex {
			if wild && r.IntN(4) == 0 {
				if required {
					oorRequired = true
				} else {
					oorFeature = true
				}
				switch r.IntN(4) {
				case 0:
					return gtab.FeatureIndex(nf)
				case 1:
					if required {
						return 0xFFFE // 0xFFFF means "no required feature"
					}
					return 0xFFFF
				case 2:
					return gtab.FeatureIndex(nf + 256*(1+r.IntN(255)))
				}
				return gtab.FeatureIndex(nf + r.IntN(0xFFFF-nf))
			}
			return gtab.FeatureIndex(r.IntN(nf))
		}
		for i := 0; i < nf; i++ {
			ft := &gtab.Feature{Tag: tags[r.IntN(len(tags))]}
			for j := r.IntN(4); j > 0; j-- {
				ft.Lookups = append(ft.Lookups, lookupIndex())
			}
			info.FeatureList = append(info.FeatureList, ft)
		}
		for i := 0; i < nl; i++ {
			info.LookupList = append(info.LookupList, &gtab.LookupTable{Meta: &gtab.LookupMetaInfo{LookupType: 1},
				Subtables: []gtab.Subtable{&gtab.Gsub1_1{Cov: map[glyph.ID]bool{glyph.ID(1 + i): true}, Delta: 1}}})
		}
		perm := r.Perm(len(canon))
		for i := 0; i < nls && i < len(canon); i++ {
			ls := &gtab.Features{Required: 0xFFFF}
			if r.IntN(2) == 0 {
				ls.Required = featureIndex(true)
			}
			for j := r.IntN(5); j > 0; j-- {
				ls.Optional = append(ls.Optional, featureIndex(false))
			}
			info.ScriptList[canon[perm[i]]] = ls
		}
		on := map[string]bool{}
		for _, t := range tags {
			if r.IntN(2) == 0 {
				on[t] = true
			}
		}
		if r.IntN(5) == 0 {
			on = map[string]bool{}
		}
		var lang language.Tag
		switch r.IntN(4) {
		case 0, 1: // exactly a key
			lang = canon[perm[r.IntN(min(nls, len(canon)))]]
		case 2:
			lang = canon[r.IntN(len(canon))]
		default:
			lang = []language.Tag{language.Japanese, language.Korean, language.Und, language.MustParse("fi"), language.MustParse("vi")}[r.IntN(5)]
		}
		desc := fmt.Sprintf("lang=%v features-on=%v script-list=%v", lang, on, scriptListString(info))
		k.Distinct(desc)
		checkSelection(k, info, lang, on, desc)
		if !wild && !k.Failed() && k.Index%2 == 0 {
			// the same structure as the library reads it from its own bytes:
			// the selection must be the one the original structure defines
			var back *gtab.Info
			var err error
			if k.Guard("Encode+Read", func() { back, err = gtab.Read(bytes.NewReader(info.Encode()), gtab.TypeGsub) }) {
				return
			}
			if err != nil {
				k.Fail("mismatch", "select:read-back-error", "gtab.Read rejects the bytes written for the structure: %v (%s)", err, desc)
				return
			}
			checkSelectionOf(k, back, info, lang, on, "read back; "+desc)
			if !k.Failed() {
				k.Class("select:read-back")
				if len(info.ScriptList) >= 2 {
					k.Class("select:read-back,>=2-systems")
				}
			}
		}
		k.Class(fmt.Sprintf("language-systems=%d", min(len(info.ScriptList), 5)))
		if !k.Failed() {
			if oorLookup {
				k.Class("select:lookup-index-out-of-range")
			}
			if oorFeature {
				k.Class("select:optional-feature-index-out-of-range")
			}
			if oorRequired {
				k.Class("select:required-feature-index-out-of-range")
			}
		}
		if k.Index < 2 {
			k.Sample(desc)
		}
	})

	// ---- the layout pipeline ----
	c.Stratum("layout", c.N(1500, 60000), func(k *mon.Case) {
		r := k.Rng
		f, info := fontgen.Font(r, fontgen.Opts{MinGlyphs: 4, MaxGlyphs: 30, Layout: "subset", Plain: true, CMap: []string{"4", "12", "both", "mac"}[r.IntN(4)]})
		k.Class("layout:cmap=" + info.CMap)
		if info.CMap == "4" && k.Index/4%2 == 1 && f.CMapTable != nil {
			// the same mapping as other font tools write it: segments that
			// go through the glyph index array with a non-zero idDelta,
			// neighbouring runs joined by entries of 0 ("no glyph")
			m := map[uint16]uint16{}
			inBMP := true
			for cde, g := range info.CodeToGID {
				if cde > 0xFFFF {
					inBMP = false
				}
				m[uint16(cde)] = uint16(g)
			}
			if data, ok := c15arrayFormat4(m); ok && inBMP {
				for key := range f.CMapTable {
					f.CMapTable[key] = data
				}
				k.Class("layout:cmap=4-glyph-array-with-delta")
			}
		}
		if k.Index%4 == 3 {
			f = readBack(k, f)
		}
		if len(info.CodeToGID) == 0 {
			return
		}
		var mapped []rune
		for cde := range info.CodeToGID {
			mapped = append(mapped, cde)
		}
		sort.Slice(mapped, func(i, j int) bool { return mapped[i] < mapped[j] })
		// build strings that have a chance to trigger rules
		byGID := map[glyph.ID]rune{}
		for _, cde := range mapped {
			byGID[info.CodeToGID[cde]] = cde
		}
		var markChars []rune
		// some fonts classify glyphs as marks: marks do not get an advance width
		if r.IntN(3) == 0 {
			gc := classdef.Table{}
			for g := 1; g < info.NGlyphs; g++ {
				switch r.IntN(4) {
				case 0:
					gc[glyph.ID(g)] = gdef.GlyphClassMark
				case 1:
					gc[glyph.ID(g)] = gdef.GlyphClassBase
				}
			}
			f.Gdef = &gdef.Table{GlyphClass: gc}
			k.Class("layout:gdef-marks")
			for g, cde := range byGID {
				if gc[g] == gdef.GlyphClassMark {
					markChars = append(markChars, cde)
				}
			}
			sort.Slice(markChars, func(i, j int) bool { return markChars[i] < markChars[j] })
			// ligatures that skip marks: the skipped glyph stays in the sequence
			// (with its own text) behind the ligature
			if f.Gsub != nil && r.IntN(2) == 0 {
				for _, l := range f.Gsub.LookupList {
					if l.Meta.LookupType == 4 {
						l.Meta.LookupFlags |= gtab.IgnoreMarks
						if len(markChars) > 0 {
							k.Class("layout:ligature-ignores-marks")
						}
					}
				}
			}
		}
		var s []rune
		for n := r.IntN(12); n > 0; n-- {
			switch r.IntN(5) {
			case 0:
				s = append(s, rune(0x2460+r.IntN(20))) // most likely unmapped
				if r.IntN(2) == 0 {
					// an unmapped neighbour of a mapped character (inside or
					// next to a segment of the character map)
					c := mapped[r.IntN(len(mapped))] + rune(1+r.IntN(2))
					if _, isMapped := info.CodeToGID[c]; !isMapped && c <= 0xFFFF {
						s[len(s)-1] = c
						k.Class("layout:unmapped-neighbour-of-a-mapped-character")
					}
				}
			default:
				s = append(s, mapped[r.IntN(len(mapped))])
			}
		}
		if f.Gsub != nil && r.IntN(2) == 0 {
			for _, l := range f.Gsub.LookupList {
				for _, st := range l.Subtables {
					if s4, ok := st.(*gtab.Gsub4_1); ok {
						// the covered glyph with the smallest id (fixed order)
						first, idx := glyph.ID(0), -1
						for g, i := range s4.Cov {
							if idx < 0 || g < first {
								first, idx = g, i
							}
						}
						if idx < 0 || idx >= len(s4.Repl) || len(s4.Repl[idx]) == 0 {
							continue
						}
						lig := s4.Repl[idx][0]
						if c0, ok := byGID[first]; ok {
							s = append(s, c0)
							for _, g := range lig.In {
								if len(markChars) > 0 && r.IntN(2) == 0 {
									s = append(s, markChars[r.IntN(len(markChars))])
								}
								if cc, ok := byGID[g]; ok {
									s = append(s, cc)
								}
							}
						}
					}
				}
			}
		}
		var gsubOn, gposOn map[string]bool
		switch r.IntN(4) {
		case 0:
			gsubOn, gposOn = map[string]bool{}, map[string]bool{}
			k.Class("features:all-off")
		case 1:
			gsubOn, gposOn = map[string]bool{"liga": true}, map[string]bool{"kern": r.IntN(2) == 0}
			k.Class("features:explicit")
		default:
			k.Class("features:nil-defaults")
		}
		lang := []language.Tag{dflt, language.English, language.Und, language.German}[r.IntN(4)]
		desc := fmt.Sprintf("kind=%s glyphs=%d cmap=%s string=%q lang=%v gsub=%v gpos=%v", info.Kind, info.NGlyphs, info.CMap, string(s), lang, gsubOn, gposOn)
		k.Distinct(k.Index, desc)

		var lay *sfnt.Layouter
		var err error
		gsubBefore, gposBefore := fmt.Sprint(gsubOn), fmt.Sprint(gposOn)
		defGsub, defGpos := fmt.Sprint(gtab.GsubDefaultFeatures), fmt.Sprint(gtab.GposDefaultFeatures)
		if k.Guard("NewLayouter", func() { lay, err = f.NewLayouter(lang, gsubOn, gposOn) }) {
			return
		}
		if err != nil {
			k.Fail("mismatch", "layout:newlayouter-error", "NewLayouter: %v (%s)", err, desc)
			return
		}
		// the feature switches are the caller's, the defaults everybody's
		k.Eval()
		if a, b := fmt.Sprint(gsubOn), fmt.Sprint(gposOn); a != gsubBefore || b != gposBefore {
			k.Fail("mismatch", "layout:callers-feature-map-changed", "NewLayouter changed the feature maps it was given: gsub %s -> %s, gpos %s -> %s (%s)", gsubBefore, a, gposBefore, b, desc)
			return
		}
		if a, b := fmt.Sprint(gtab.GsubDefaultFeatures), fmt.Sprint(gtab.GposDefaultFeatures); a != defGsub || b != defGpos {
			k.Fail("mismatch", "layout:default-features-changed", "NewLayouter changed the package's default features: gsub %s -> %s, gpos %s -> %s (%s)", defGsub, a, defGpos, b, desc)
			return
		}
		var got []glyph.Info
		if k.Guard("Layout", func() { got = copySeq(lay.Layout(string(s))) }) {
			return
		}
		k.Eval()
		// the composition
		best, _ := f.CMapTable.GetBest()
		var seq []glyph.Info
		for _, ch := range s {
			seq = append(seq, glyph.Info{GID: glyph.ID(info.CodeToGID[ch]), Text: []rune{ch}})
			if lib := best.Lookup(ch); lib != info.CodeToGID[ch] {
				k.Fail("mismatch", "layout:cmap-stage", "best cmap subtable maps %q to %d, generated map says %d (%s)", ch, lib, info.CodeToGID[ch], desc)
				return
			}
		}
		base := copySeq(seq)
		subOn, posOn := gsubOn, gposOn
		if subOn == nil {
			subOn = gtab.GsubDefaultFeatures
		}
		if posOn == nil {
			posOn = gtab.GposDefaultFeatures
		}
		gsubEffect, gposEffect := false, false
		if f.Gsub != nil {
			ll := checkSelection(k, f.Gsub, lang, subOn, desc)
			before := seqString(seq)
			if k.Guard("Apply(GSUB)", func() { seq = gtab.NewContext(f.Gsub.LookupList, f.Gdef, ll).Apply(seq) }) {
				return
			}
			gsubEffect = before != seqString(seq)
		}
		for i := range seq {
			if f.Gdef != nil && f.Gdef.GlyphClass[seq[i].GID] == gdef.GlyphClassMark {
				continue // "gives each non-mark glyph its advance width"
			}
			seq[i].Advance = funit.Int16(f.GlyphWidth(seq[i].GID))
		}
		if f.Gpos != nil {
			ll := checkSelection(k, f.Gpos, lang, posOn, desc)
			before := seqString(seq)
			if k.Guard("Apply(GPOS)", func() { seq = gtab.NewContext(f.Gpos.LookupList, f.Gdef, ll).Apply(seq) }) {
				return
			}
			gposEffect = before != seqString(seq)
		}
		if !sameSeq(got, seq) {
			k.Fail("mismatch", "layout:composition", "Layout differs from cmap -> GSUB -> widths -> GPOS:\n got %s\nwant %s (%s)", seqString(got), seqString(seq), desc)
			return
		}
		switch {
		case gsubEffect:
			k.Class("layout:gsub-effect")
		case gposEffect:
			k.Class("layout:gpos-effect")
		default:
			k.Class("layout:no-rule-applies")
			// exactly one glyph per character with that character and the advance width
			if len(got) != len(base) {
				k.Fail("mismatch", "layout:plain-length", "no rule applies but %d glyphs for %d characters (%s)", len(got), len(base), desc)
				return
			}
			for i := range got {
				wantAdv := f.GlyphWidth(base[i].GID)
				if f.Gdef != nil && f.Gdef.GlyphClass[base[i].GID] == gdef.GlyphClassMark {
					wantAdv = 0
				}
				if got[i].GID != base[i].GID || string(got[i].Text) != string(base[i].Text) || float64(got[i].Advance) != wantAdv || got[i].XOffset != 0 || got[i].YOffset != 0 {
					k.Fail("mismatch", "layout:plain-glyph", "no rule applies but glyph %d is %s (%s)", i, seqString(got[i:i+1]), desc)
					return
				}
			}
		}
		// the switches of a *second* layouter on the same font are honoured too:
		// same feature tags, flipped values (the composition does not involve
		// NewLayouter, so remembered selections would show here)
		if gsubOn != nil {
			flip := func(m map[string]bool) map[string]bool {
				out := map[string]bool{"liga": true, "kern": true}
				for t, v := range m {
					out[t] = !v
				}
				return out
			}
			for round := 0; round < 2; round++ {
				fs, fp := gsubOn, gposOn
				if round == 0 {
					fs, fp = flip(gsubOn), flip(gposOn)
					// make sure both maps have the same key sets in both rounds
					gsubOn, gposOn = flip(fs), flip(fp)
				}
				var lay2 *sfnt.Layouter
				var got2 []glyph.Info
				if k.Guard("NewLayouter+Layout (second layouter)", func() {
					var err error
					lay2, err = f.NewLayouter(lang, fs, fp)
					if err == nil {
						got2 = copySeq(lay2.Layout(string(s)))
					}
				}) {
					return
				}
				if lay2 == nil {
					break
				}
				want2 := copySeq(base)
				if f.Gsub != nil {
					ll := f.Gsub.FindLookups(lang, fs)
					want2 = gtab.NewContext(f.Gsub.LookupList, f.Gdef, ll).Apply(want2)
				}
				for i := range want2 {
					if f.Gdef != nil && f.Gdef.GlyphClass[want2[i].GID] == gdef.GlyphClassMark {
						continue
					}
					want2[i].Advance = funit.Int16(f.GlyphWidth(want2[i].GID))
				}
				if f.Gpos != nil {
					ll := f.Gpos.FindLookups(lang, fp)
					want2 = gtab.NewContext(f.Gpos.LookupList, f.Gdef, ll).Apply(want2)
				}
				k.Eval()
				if !sameSeq(got2, want2) {
					k.Fail("mismatch", "layout:feature-switches-of-later-layouter-ignored", "a further NewLayouter on the same font with gsub=%v gpos=%v lays out\n got %s\nwant %s (%s)", fs, fp, seqString(got2), seqString(want2), desc)
					return
				}
			}
			k.Class("layout:second-layouter-flipped-switches")
		}
		// history: further calls on the same layouter give what a fresh one gives
		for h := 0; h < 4; h++ {
			var t []rune
			for n := r.IntN(10); n > 0; n-- {
				t = append(t, mapped[r.IntN(len(mapped))])
			}
			if h == 3 {
				t = s
			}
			var used, fresh []glyph.Info
			if h == 2 {
				// the same text twice in a row; the first result is the
				// caller's and was changed in place in between
				if k.Guard("Layout (re-used layouter)", func() {
					first := lay.Layout(string(t))
					for j := range first {
						first[j].GID = 0xFFFF
						first[j].Advance += 500
					}
				}) {
					return
				}
			}
			if k.Guard("Layout (re-used layouter)", func() { used = copySeq(lay.Layout(string(t))) }) {
				return
			}
			if k.Guard("Layout (fresh layouter)", func() {
				l2, err := f.NewLayouter(lang, gsubOn, gposOn)
				if err == nil {
					fresh = copySeq(l2.Layout(string(t)))
				}
			}) {
				return
			}
			k.Eval()
			if !sameSeq(used, fresh) {
				k.Fail("mismatch", "layout:history-dependent", "call %d on a re-used Layouter differs from a fresh Layouter for %q:\n re-used %s\n fresh   %s (%s)", h+2, string(t), seqString(used), seqString(fresh), desc)
				return
			}
		}
		k.Class("layout:history-compared")
		if k.Index < 2 {
			k.Sample(desc + " -> " + seqString(got))
		}
	})

	// ---- legacy kern tables ----
	c.Stratum("kern", c.N(400, 30000), func(k *mon.Case) {
		r := k.Rng
		huge := k.Index%8 == 3
		ko := fontgen.Opts{Kind: []string{"glyf", "cff"}[k.Index%2], MinGlyphs: 3, MaxGlyphs: 40, Plain: true, CMap: "4", NoComposite: true}
		if huge {
			ko.MinGlyphs, ko.MaxGlyphs = 130, 160
		}
		f, info := fontgen.Font(r, ko)
		if f.CreationTime.IsZero() && f.ModificationTime.IsZero() {
			f.ModificationTime = f.ModificationTime.AddDate(2001, 0, 0)
		}
		n := f.NumGlyphs()
		// no ligature characters in the cmap: otherwise the reader adds the
		// standard ligatures (as a required feature) and pairs turn into ligatures
		m4 := map[uint16]glyph.ID{}
		for cde, gid := range info.CodeToGID {
			if cde >= 0xFB00 && cde <= 0xFB04 {
				delete(info.CodeToGID, cde)
				continue
			}
			m4[uint16(cde)] = gid
		}
		f.InstallCMap(cmapFormat4(m4))
		if k.Index%3 == 2 {
			// a GDEF table that classifies some glyphs as marks: the kern table
			// knows nothing about glyph classes, every pair applies (marks
			// start from an advance of zero)
			gc := classdef.Table{}
			for gid := 1; gid < n; gid++ {
				switch r.IntN(3) {
				case 0:
					gc[glyph.ID(gid)] = gdef.GlyphClassMark
				case 1:
					gc[glyph.ID(gid)] = gdef.GlyphClassBase
				}
			}
			f.Gdef = &gdef.Table{GlyphClass: gc}
			k.Class("kern:gdef-marks")
		}
		wb, ok := writeFont(k, f, "Write(F)")
		if !ok {
			return
		}
		kt, ref, open := c15kernTable(k, n, huge)
		b := addTable(wb, "kern", kt)
		k.Input(b)
		k.DistinctBytes(kt)
		g, ok := readFont(k, b, "Read(file with kern table)")
		if !ok {
			return
		}
		byGID := map[glyph.ID]rune{}
		for cde, gid := range info.CodeToGID {
			byGID[gid] = cde
		}
		lay, err := g.NewLayouter(language.English, map[string]bool{}, nil) // synthetic ligatures off: this stratum is about kerning
		if err != nil {
			k.Fail("mismatch", "kern:newlayouter-error", "NewLayouter: %v", err)
			return
		}
		check := func(p glyph.Pair) {
			ca, okA := byGID[p.Left]
			cb, okB := byGID[p.Right]
			if !okA || !okB || p.Left == 0 || p.Right == 0 {
				return
			}
			var out []glyph.Info
			if k.Guard("Layout", func() { out = copySeq(lay.Layout(string([]rune{ca, cb}))) }) {
				return
			}
			k.Eval()
			if open[p] {
				// the accumulated value is not a FWORD: neither the kern specification
				// nor the property says what the pair's value is (only: no panic)
				k.Skip("kern:accumulated-value-outside-int16")
				return
			}
			base := func(gid glyph.ID) float64 {
				if g.Gdef != nil && g.Gdef.GlyphClass[gid] == gdef.GlyphClassMark {
					return 0
				}
				return g.GlyphWidth(gid)
			}
			want := int(base(p.Left)) + ref[p]
			if want > 32767 || want < -32768 {
				k.Skip("kern:advance-outside-int16")
				return
			}
			if len(out) != 2 || out[0].GID != p.Left || out[1].GID != p.Right || int(out[0].Advance) != want || float64(out[1].Advance) != base(p.Right) {
				k.Fail("mismatch", "kern:pair-value", "pair (%d,%d): kern table gives %d, width %v; layout %s (kind=%s, %d subtables)", p.Left, p.Right, ref[p], g.GlyphWidth(p.Left), seqString(out), info.Kind, binary.BigEndian.Uint16(kt[2:]))
			}
		}
		cnt := 0
		var refPairs []glyph.Pair
		for p := range ref {
			refPairs = append(refPairs, p)
		}
		sort.Slice(refPairs, func(i, j int) bool {
			if refPairs[i].Left != refPairs[j].Left {
				return refPairs[i].Left < refPairs[j].Left
			}
			return refPairs[i].Right < refPairs[j].Right
		})
		if len(refPairs) > 400 {
			r.Shuffle(len(refPairs), func(i, j int) { refPairs[i], refPairs[j] = refPairs[j], refPairs[i] })
		}
		for _, p := range refPairs {
			check(p)
			if k.Failed() {
				return
			}
			if cnt++; cnt > 400 && !huge || cnt > 3000 {
				break
			}
		}
		for i := 0; i < 30; i++ {
			check(glyph.Pair{Left: glyph.ID(1 + r.IntN(n-1)), Right: glyph.ID(1 + r.IntN(n-1))})
		}
		k.Class("kern:" + info.Kind)
		if k.Index < 2 {
			k.Sample(fmt.Sprintf("kind=%s glyphs=%d kern table %d bytes, %d pairs", info.Kind, n, len(kt), len(ref)))
		}
	})

	encodeAliasing(c, "kern", c.N(200, 10000), kernAliasEncoders)

	// ---- standard ligatures ----
	c.Stratum("ligatures", c.N(256, 4096), func(k *mon.Case) {
		r := k.Rng
		subset := k.Index % 32
		fixed := k.Index/32%2 == 1
		kind := []string{"glyf", "cff"}[k.Index/64%2]
		o := fontgen.Opts{Kind: kind, MinGlyphs: 12, MaxGlyphs: 20, Plain: true, CMap: "none", NoComposite: true, FixedPitch: 1}
		if fixed {
			o.FixedPitch = 2
		}
		f, _ := fontgen.Font(r, o)
		if f.CreationTime.IsZero() && f.ModificationTime.IsZero() {
			f.ModificationTime = f.ModificationTime.AddDate(2001, 0, 0)
		}
		// cmap: f, i, l always; the chosen subset of ligature characters
		codes := map[rune]glyph.ID{'f': 1, 'i': 2, 'l': 3, 'x': 4}
		if r.IntN(6) == 0 {
			delete(codes, 'l') // then fl and ffl cannot be formed
		}
		for j := 0; j < 5; j++ {
			if subset&(1<<j) != 0 {
				codes[rune(0xFB00+j)] = glyph.ID(5 + j)
			}
		}
		f.CMapTable = nil
		m4 := map[uint16]glyph.ID{}
		for cde, g := range codes {
			m4[uint16(cde)] = g
		}
		f.InstallCMap(cmapFormat4(m4))
		wb, ok := writeFont(k, f, "Write(F)")
		if !ok {
			return
		}
		g, ok := readFont(k, wb, "Read(Write(F))")
		if !ok {
			return
		}
		k.Distinct(subset, fixed, kind, len(codes))
		lay, err := g.NewLayouter(language.English, nil, nil)
		if err != nil {
			k.Fail("mismatch", "ligatures:newlayouter-error", "NewLayouter: %v", err)
			return
		}
		isFixed := g.IsFixedPitch()
		for _, str := range []string{"ff", "fi", "fl", "ffi", "ffl", "fffi", "xffix", "fif", "ffl ffi", "if"} {
			var out []glyph.Info
			if k.Guard("Layout", func() { out = copySeq(lay.Layout(str)) }) {
				return
			}
			k.Eval()
			// reference: greedy longest listed ligature, only those whose character and components are mapped
			var want []glyph.ID
			rs := []rune(str)
			for i := 0; i < len(rs); {
				matched := false
				if !isFixed {
					for _, cand := range []struct {
						lig  rune
						comp string
					}{{0xFB03, "ffi"}, {0xFB04, "ffl"}, {0xFB00, "ff"}, {0xFB01, "fi"}, {0xFB02, "fl"}} {
						cr := []rune(cand.comp)
						if codes[cand.lig] == 0 || i+len(cr) > len(rs) {
							continue
						}
						okc := true
						for j, ch := range cr {
							if rs[i+j] != ch || codes[ch] == 0 {
								okc = false
							}
						}
						if okc {
							want = append(want, codes[cand.lig])
							i += len(cr)
							matched = true
							break
						}
					}
				}
				if !matched {
					want = append(want, codes[rs[i]])
					i++
				}
			}
			if fmt.Sprint(gids(out)) != fmt.Sprint(want) {
				k.Fail("mismatch", "ligatures:layout", "layout of %q gives glyphs %v, standard-ligature rule gives %v (ligature characters mapped: subset %05b, fixed pitch %v, cmap %v)", str, gids(out), want, subset, isFixed, codes)
				return
			}
		}
		k.Class(fmt.Sprintf("ligature-subset=%d", subset))
		k.Class(fmt.Sprintf("fixed-pitch=%v", isFixed))
	})
	req := []string{"select:exact-language", "select:non-matching-language,>=2-systems", "layout:gsub-effect", "layout:gpos-effect", "layout:no-rule-applies",
		"kern:glyf", "kern:cff", "kern-subtable:accumulate", "kern-subtable:minimum", "kern-subtable:override", "kern-subtable:ignored", "kern-subtable:>10920-pairs",
		"kern-first-subtable:minimum", "kern-first-subtable:override", "kern-first-subtable:minimum-raises-implicit-0", "kern-first-subtable:minimum-below-implicit-0",
		"kern-value:int16-extreme", "kern-value:large", "kern:accumulation-leaves-int16", "kern:gdef-marks", "kern:zero-for-a-pair-with-a-value:override", "kern:zero-for-a-pair-with-a-value:minimum",
		"select:lookup-index-out-of-range", "select:optional-feature-index-out-of-range", "select:required-feature-index-out-of-range", "layout:gdef-marks", "layout:history-compared", "layout:second-layouter-flipped-switches", "fixed-pitch=true", "fixed-pitch=false",
		"features:all-off", "features:explicit", "features:nil-defaults", "layout:cmap=mac", "layout:cmap=12", "layout:cmap=4-glyph-array-with-delta", "layout:unmapped-neighbour-of-a-mapped-character", "layout:ligature-ignores-marks", "select:read-back,>=2-systems"}
	for s := 0; s < 32; s++ {
		req = append(req, fmt.Sprintf("ligature-subset=%d", s))
	}
	c.Require(req...)
}

func scriptListString(info *gtab.Info) string {
	var keys []string
	for t, ls := range info.ScriptList {
		keys = append(keys, fmt.Sprintf("%v:{req=%d opt=%v}", t, ls.Required, ls.Optional))
	}
	sort.Strings(keys)
	var fl []string
	for _, f := range info.FeatureList {
		fl = append(fl, fmt.Sprintf("%s%v", f.Tag, f.Lookups))
	}
	s := fmt.Sprintf("%v features=%v lookups=%d", keys, fl, len(info.LookupList))
	if len(s) > 600 {
		s = s[:600] + "…"
	}
	return s
}
