package props

import (
	"fmt"
	"math/rand/v2"
	"sort"

	"seehuhn.de/go/sfnt/glyph"
	"seehuhn.de/go/sfnt/opentype/anchor"
	"seehuhn.de/go/sfnt/opentype/classdef"
	"seehuhn.de/go/sfnt/opentype/coverage"
	"seehuhn.de/go/sfnt/opentype/gdef"
	"seehuhn.de/go/sfnt/opentype/gtab"
	"seehuhn.de/go/sfnt/opentype/markarray"
)

// ---- walking decoded tables ----

// c07rule is the common view of a contextual rule.
type c07rule struct {
	kind     string // gsub5.1 ... gpos8.3 style name without table prefix: ctx1 ctx2 ctx3 chain1 chain2 chain3
	inputLen int
	actions  []gtab.SeqLookup
}

func c07rules(s gtab.Subtable) []c07rule {
	var out []c07rule
	switch l := s.(type) {
	case *gtab.SeqContext1:
		for _, rs := range l.Rules {
			for _, r := range rs {
				if r != nil {
					out = append(out, c07rule{"ctx1", len(r.Input) + 1, r.Actions})
				}
			}
		}
	case *gtab.SeqContext2:
		for _, rs := range l.Rules {
			for _, r := range rs {
				if r != nil {
					out = append(out, c07rule{"ctx2", len(r.Input) + 1, r.Actions})
				}
			}
		}
	case *gtab.SeqContext3:
		out = append(out, c07rule{"ctx3", len(l.Input), l.Actions})
	case *gtab.ChainedSeqContext1:
		for _, rs := range l.Rules {
			for _, r := range rs {
				if r != nil {
					out = append(out, c07rule{"chain1", len(r.Input) + 1, r.Actions})
				}
			}
		}
	case *gtab.ChainedSeqContext2:
		for _, rs := range l.Rules {
			for _, r := range rs {
				if r != nil {
					out = append(out, c07rule{"chain2", len(r.Input) + 1, r.Actions})
				}
			}
		}
	case *gtab.ChainedSeqContext3:
		out = append(out, c07rule{"chain3", len(l.Input), l.Actions})
	}
	return out
}

// c07gids collects glyph ids that occur in the tables (coverage, rules,
// classes, replacements), so that sequences can be biased towards them.
func c07gids(ll gtab.LookupList, gd *gdef.Table) []glyph.ID {
	set := map[glyph.ID]bool{}
	cap := func() bool { return len(set) > 4000 }
	addCov := func(t coverage.Table) {
		for g := range t {
			if cap() {
				return
			}
			set[g] = true
		}
	}
	addSet := func(t coverage.Set) {
		for g := range t {
			if cap() {
				return
			}
			set[g] = true
		}
	}
	addCls := func(t classdef.Table) {
		for g := range t {
			if cap() {
				return
			}
			set[g] = true
		}
	}
	addG := func(gs []glyph.ID) {
		for _, g := range gs {
			if cap() {
				return
			}
			set[g] = true
		}
	}
	for _, lt := range ll {
		if lt == nil {
			continue
		}
		for _, s := range lt.Subtables {
			switch l := s.(type) {
			case *gtab.Gsub1_1:
				addSet(l.Cov)
				for g := range l.Cov {
					set[g+l.Delta] = true
				}
			case *gtab.Gsub1_2:
				addCov(l.Cov)
				addG(l.SubstituteGlyphIDs)
			case *gtab.Gsub2_1:
				addCov(l.Cov)
				for _, r := range l.Repl {
					addG(r)
				}
			case *gtab.Gsub3_1:
				addCov(l.Cov)
				for _, r := range l.Alternates {
					addG(r)
				}
			case *gtab.Gsub4_1:
				addCov(l.Cov)
				for _, rs := range l.Repl {
					for _, lig := range rs {
						addG(lig.In)
						set[lig.Out] = true
					}
				}
			case *gtab.Gsub8_1:
				addCov(l.Input)
				for _, c := range l.Backtrack {
					addCov(c)
				}
				for _, c := range l.Lookahead {
					addCov(c)
				}
				addG(l.SubstituteGlyphIDs)
			case *gtab.Gpos1_1:
				addCov(l.Cov)
			case *gtab.Gpos1_2:
				addCov(l.Cov)
			case gtab.Gpos2_1:
				for p := range l {
					set[p.Left] = true
					set[p.Right] = true
				}
			case *gtab.Gpos2_2:
				addSet(l.Cov)
				addCls(l.Class1)
				addCls(l.Class2)
			case *gtab.Gpos3_1:
				addCov(l.Cov)
			case *gtab.Gpos4_1:
				addCov(l.MarkCov)
				addCov(l.BaseCov)
			case *gtab.Gpos5_1:
				addCov(l.MarkCov)
				addCov(l.LigCov)
			case *gtab.Gpos6_1:
				addCov(l.Mark1Cov)
				addCov(l.Mark2Cov)
			case *gtab.SeqContext1:
				addCov(l.Cov)
				for _, rs := range l.Rules {
					for _, r := range rs {
						if r != nil {
							addG(r.Input)
						}
					}
				}
			case *gtab.SeqContext2:
				addCov(l.Cov)
				addCls(l.Input)
			case *gtab.SeqContext3:
				for _, c := range l.Input {
					addSet(c)
				}
			case *gtab.ChainedSeqContext1:
				addCov(l.Cov)
				for _, rs := range l.Rules {
					for _, r := range rs {
						if r != nil {
							addG(r.Input)
							addG(r.Backtrack)
							addG(r.Lookahead)
						}
					}
				}
			case *gtab.ChainedSeqContext2:
				addCov(l.Cov)
				addCls(l.Input)
				addCls(l.Backtrack)
				addCls(l.Lookahead)
			case *gtab.ChainedSeqContext3:
				for _, c := range l.Input {
					addSet(c)
				}
				for _, c := range l.Backtrack {
					addSet(c)
				}
				for _, c := range l.Lookahead {
					addSet(c)
				}
			}
		}
	}
	if gd != nil {
		n := 0
		for g := range gd.GlyphClass {
			if n++; n > 500 {
				break
			}
			set[g] = true
		}
	}
	out := make([]glyph.ID, 0, len(set))
	for g := range set {
		out = append(out, g)
	}
	sort.Slice(out, func(i, j int) bool { return out[i] < out[j] })
	return out
}

// c07maxRepl returns the length of the longest replacement list of a
// multiple substitution in the list (at least 1).
func c07maxRepl(ll gtab.LookupList) int {
	R := 1
	for _, lt := range ll {
		if lt == nil {
			continue
		}
		for _, s := range lt.Subtables {
			if l, ok := s.(*gtab.Gsub2_1); ok {
				for _, r := range l.Repl {
					if len(r) > R {
						R = len(r)
					}
				}
			}
		}
	}
	return R
}

// c07sanitize removes what the property excludes: GPOS type 5 subtables and
// the unimplemented fields of value records (vertical advance, device
// offsets).  It reports how many things it removed.
func c07sanitize(ll gtab.LookupList) (removed int) {
	fix := func(v *gtab.GposValueRecord) {
		if v == nil {
			return
		}
		if v.YAdvance != 0 || v.XPlacementDevOffs != 0 || v.YPlacementDevOffs != 0 || v.XAdvanceDevOffs != 0 || v.YAdvanceDevOffs != 0 {
			removed++
			v.YAdvance, v.XPlacementDevOffs, v.YPlacementDevOffs, v.XAdvanceDevOffs, v.YAdvanceDevOffs = 0, 0, 0, 0, 0
		}
	}
	for _, lt := range ll {
		if lt == nil {
			continue
		}
		kept := lt.Subtables[:0:0]
		for _, s := range lt.Subtables {
			switch l := s.(type) {
			case *gtab.Gpos5_1:
				removed++
				continue
			case *gtab.Gpos1_1:
				fix(l.Adjust)
			case *gtab.Gpos1_2:
				for _, v := range l.Adjust {
					fix(v)
				}
			case gtab.Gpos2_1:
				for _, pa := range l {
					if pa != nil {
						fix(pa.First)
						fix(pa.Second)
					}
				}
			case *gtab.Gpos2_2:
				for _, row := range l.Adjust {
					for _, pa := range row {
						if pa != nil {
							fix(pa.First)
							fix(pa.Second)
						}
					}
				}
			}
			kept = append(kept, s)
		}
		lt.Subtables = kept
	}
	return removed
}

// c07classify names the hostile shapes present in decoded tables.
func c07classify(ll gtab.LookupList, gd *gdef.Table, gpos bool) []string {
	seen := map[string]bool{}
	var out []string
	add := func(s string) {
		if !seen[s] {
			seen[s] = true
			out = append(out, s)
		}
	}
	nSets := 0
	if gd != nil {
		nSets = len(gd.MarkGlyphSets)
	}
	// lookup graph for cycles and depth
	n := len(ll)
	edges := make([][]int, n)
	for i, lt := range ll {
		if lt == nil || lt.Meta == nil {
			continue
		}
		if lt.Meta.LookupFlags&gtab.UseMarkFilteringSet != 0 && int(lt.Meta.MarkFilteringSet) >= nSets {
			add("filtering-set-oob")
		}
		if len(lt.Subtables) == 0 {
			add("lookup-without-subtables")
		}
		for _, s := range lt.Subtables {
			name := c06kindName(s, gpos)
			for _, r := range c07rules(s) {
				if len(r.actions) > 63 {
					add("actions-over-budget:" + name)
				}
				for _, a := range r.actions {
					if int(a.LookupListIndex) >= n {
						add("lookup-index-oob:" + name)
					} else {
						edges[i] = append(edges[i], int(a.LookupListIndex))
					}
					if int(a.SequenceIndex) >= r.inputLen {
						add("sequence-index-oob:" + name)
					}
				}
			}
			switch l := s.(type) {
			case *gtab.Gsub2_1:
				for _, r := range l.Repl {
					if len(r) == 0 {
						add("empty-replacement:gsub2.1")
					}
				}
			case *gtab.Gsub3_1:
				for _, r := range l.Alternates {
					if len(r) == 0 {
						add("empty-alternates:gsub3.1")
					}
				}
			case *gtab.Gsub4_1:
				for _, rs := range l.Repl {
					if len(rs) == 0 {
						add("empty-ligature-set:gsub4.1")
					}
					for _, lig := range rs {
						if len(lig.In) == 0 {
							add("one-component-ligature:gsub4.1")
						}
					}
				}
			case *gtab.SeqContext2:
				if l.Input.NumClasses() > len(l.Rules) {
					add("rule-sets-shorter-than-classes:" + name)
				}
			case *gtab.ChainedSeqContext2:
				if l.Input.NumClasses() > len(l.Rules) {
					add("rule-sets-shorter-than-classes:" + name)
				}
			case *gtab.Gpos2_2:
				if l.Class1.NumClasses() > len(l.Adjust) {
					add("class-oob:gpos2.2")
				} else {
					nc2 := l.Class2.NumClasses()
					for _, row := range l.Adjust {
						if nc2 > len(row) {
							add("class-oob:gpos2.2")
							break
						}
					}
				}
			case *gtab.Gpos4_1:
				for _, rec := range l.MarkArray {
					for _, row := range l.BaseArray {
						if int(rec.Class) >= len(row) {
							add("mark-class-oob:gpos4.1")
						}
					}
				}
			case *gtab.Gpos6_1:
				for _, rec := range l.Mark1Array {
					for _, row := range l.Mark2Array {
						if int(rec.Class) >= len(row) {
							add("mark-class-oob:gpos6.1")
						}
					}
				}
			}
		}
	}
	// cycles / depth of the nesting graph
	state := make([]int, n) // 0 new, 1 on stack, 2 done
	depth := make([]int, n)
	cyclic := false
	var visit func(i int) int
	visit = func(i int) int {
		if state[i] == 1 {
			cyclic = true
			return 0
		}
		if state[i] == 2 {
			return depth[i]
		}
		state[i] = 1
		d := 0
		for _, j := range edges[i] {
			if j == i {
				add("self-referential-lookup")
				cyclic = true
				continue
			}
			if dj := visit(j) + 1; dj > d {
				d = dj
			}
		}
		state[i] = 2
		depth[i] = d
		return d
	}
	maxd := 0
	for i := 0; i < n; i++ {
		if d := visit(i); d > maxd {
			maxd = d
		}
	}
	if cyclic {
		add("recursive-lookups")
	}
	switch {
	case maxd >= 64:
		add("nesting-depth>=64")
	case maxd >= 16:
		add("nesting-depth>=16")
	case maxd >= 4:
		add("nesting-depth>=4")
	case maxd >= 1:
		add("nesting-depth>=1")
	}
	sort.Strings(out)
	return out
}

// ---- hostile shapes built as structures ----

// c07shape is a hostile table set with glyph sequences that reach the
// hostile spot.
type c07shape struct {
	name    string
	ll      gtab.LookupList
	gd      *gdef.Table
	lookups []gtab.LookupIndex
	gpos    bool
	// alphabet of glyphs that make the rules match
	hot []glyph.ID
}

const (
	hX glyph.ID = 10 // unclassified
	hY glyph.ID = 11 // unclassified
	hA glyph.ID = 20 // base
	hM glyph.ID = 30 // mark
	hN glyph.ID = 31 // mark
	hL glyph.ID = 40 // ligature
)

func c07gdef(nSets int) *gdef.Table {
	gd := &gdef.Table{
		GlyphClass:      classdef.Table{hA: gdef.GlyphClassBase, hM: gdef.GlyphClassMark, hN: gdef.GlyphClassMark, hL: gdef.GlyphClassLigature},
		MarkAttachClass: classdef.Table{hM: 1, hN: 2},
	}
	for i := 0; i < nSets; i++ {
		gd.MarkGlyphSets = append(gd.MarkGlyphSets, coverage.Set{hM: true})
	}
	return gd
}

func c07meta(tp uint16) *gtab.LookupMetaInfo { return &gtab.LookupMetaInfo{LookupType: tp} }

// c07ctx builds a contextual subtable in one of six formats that matches
// the glyph sequence "X" (n=1) or "X X" (n=2) and carries the given actions.
func c07ctx(format int, n int, actions []gtab.SeqLookup) gtab.Subtable {
	rest := make([]glyph.ID, n-1)
	restCls := make([]uint16, n-1)
	covs := make([]coverage.Set, n)
	for i := range rest {
		rest[i] = hX
		restCls[i] = 1
	}
	for i := range covs {
		covs[i] = coverage.Set{hX: true}
	}
	switch format {
	case 0:
		return &gtab.SeqContext1{Cov: coverage.Table{hX: 0}, Rules: [][]*gtab.SeqRule{{{Input: rest, Actions: actions}}}}
	case 1:
		return &gtab.SeqContext2{Cov: coverage.Table{hX: 0}, Input: classdef.Table{hX: 1},
			Rules: [][]*gtab.ClassSeqRule{nil, {{Input: restCls, Actions: actions}}}}
	case 2:
		return &gtab.SeqContext3{Input: covs, Actions: actions}
	case 3:
		return &gtab.ChainedSeqContext1{Cov: coverage.Table{hX: 0}, Rules: [][]*gtab.ChainedSeqRule{{{Input: rest, Actions: actions}}}}
	case 4:
		return &gtab.ChainedSeqContext2{Cov: coverage.Table{hX: 0}, Input: classdef.Table{hX: 1},
			Rules: [][]*gtab.ChainedClassSeqRule{nil, {{Input: restCls, Actions: actions}}}}
	default:
		return &gtab.ChainedSeqContext3{Input: covs, Actions: actions}
	}
}

func c07ctxType(format int, gpos bool) uint16 {
	if gpos {
		if format < 3 {
			return 7
		}
		return 8
	}
	if format < 3 {
		return 5
	}
	return 6
}

var c07ctxNames = []string{"ctx1", "ctx2", "ctx3", "chain1", "chain2", "chain3"}

// simple lookups used as nested targets
func c07grow(k int) *gtab.LookupTable { // X -> X Y^(k-1)
	repl := []glyph.ID{hX}
	for i := 1; i < k; i++ {
		repl = append(repl, hY)
	}
	return &gtab.LookupTable{Meta: c07meta(2), Subtables: []gtab.Subtable{&gtab.Gsub2_1{Cov: coverage.Table{hX: 0}, Repl: [][]glyph.ID{repl}}}}
}

func c07single() *gtab.LookupTable { // X -> Y, Y -> X
	return &gtab.LookupTable{Meta: c07meta(1), Subtables: []gtab.Subtable{&gtab.Gsub1_2{Cov: coverage.Table{hX: 0, hY: 1}, SubstituteGlyphIDs: []glyph.ID{hY, hX}}}}
}

func c07lig() *gtab.LookupTable { // X X -> X ; X M -> Y
	return &gtab.LookupTable{Meta: c07meta(4), Subtables: []gtab.Subtable{&gtab.Gsub4_1{Cov: coverage.Table{hX: 0},
		Repl: [][]gtab.Ligature{{{In: []glyph.ID{hX}, Out: hX}, {In: []glyph.ID{hM}, Out: hY}}}}}}
}

func c07posSingle() *gtab.LookupTable {
	return &gtab.LookupTable{Meta: c07meta(1), Subtables: []gtab.Subtable{&gtab.Gpos1_1{Cov: coverage.Table{hX: 0, hY: 1}, Adjust: &gtab.GposValueRecord{XPlacement: 3, XAdvance: 1}}}}
}

// c07shapeNames lists the hostile shapes; c07buildShape builds number i.
var c07shapeNames = []string{
	"lookup-index-oob", "sequence-index-oob", "rule-sets-shorter-than-classes", "class-oob-gpos2.2",
	"mark-class-oob-gpos4.1", "mark-class-oob-gpos6.1", "filtering-set-oob", "empty-replacement", "empty-alternates",
	"self-referential", "mutually-recursive", "nesting-depth", "many-actions", "lookup-order-oob", "one-component-ligature",
	"recursive-growth", "context-over-mark-with-marks-ignoring-ligature",
}

func c07buildShape(r *rand.Rand, which int) *c07shape {
	name := c07shapeNames[which%len(c07shapeNames)]
	sh := &c07shape{name: name, gd: c07gdef(1), hot: []glyph.ID{hX, hX, hX, hY, hM, hA}}
	format := r.IntN(6)
	n := 1 + r.IntN(2)
	switch name {
	case "lookup-index-oob":
		sh.gpos = r.IntN(3) == 0
		target := c07single()
		if sh.gpos {
			target = c07posSingle()
		}
		bad := []uint16{2, 3, 100, 0x7FFF, 0xFFFF}[r.IntN(5)]
		acts := []gtab.SeqLookup{{SequenceIndex: 0, LookupListIndex: gtab.LookupIndex(bad)}, {SequenceIndex: 0, LookupListIndex: 1}}
		if r.IntN(2) == 0 {
			acts[0], acts[1] = acts[1], acts[0]
		}
		sh.ll = gtab.LookupList{{Meta: c07meta(c07ctxType(format, sh.gpos)), Subtables: []gtab.Subtable{c07ctx(format, n, acts)}}, target}
		sh.lookups = []gtab.LookupIndex{0}
		sh.name += ":" + c07ctxNames[format]

	case "sequence-index-oob":
		sh.gpos = r.IntN(3) == 0
		target := c07single()
		if sh.gpos {
			target = c07posSingle()
		}
		bad := []uint16{uint16(n), uint16(n + 1), 100, 0xFFFF}[r.IntN(4)]
		acts := []gtab.SeqLookup{{SequenceIndex: bad, LookupListIndex: 1}, {SequenceIndex: 0, LookupListIndex: 1}}
		if r.IntN(2) == 0 {
			acts[0], acts[1] = acts[1], acts[0]
		}
		sh.ll = gtab.LookupList{{Meta: c07meta(c07ctxType(format, sh.gpos)), Subtables: []gtab.Subtable{c07ctx(format, n, acts)}}, target}
		sh.lookups = []gtab.LookupIndex{0}
		sh.name += ":" + c07ctxNames[format]

	case "rule-sets-shorter-than-classes":
		acts := []gtab.SeqLookup{{SequenceIndex: 0, LookupListIndex: 1}}
		cls := classdef.Table{hX: 1, hY: uint16(2 + r.IntN(3))}
		var st gtab.Subtable
		if r.IntN(2) == 0 {
			st = &gtab.SeqContext2{Cov: coverage.Table{hX: 0, hY: 1}, Input: cls, Rules: [][]*gtab.ClassSeqRule{nil, {{Actions: acts}}}}
			sh.name += ":ctx2"
			format = 1
		} else {
			st = &gtab.ChainedSeqContext2{Cov: coverage.Table{hX: 0, hY: 1}, Input: cls, Rules: [][]*gtab.ChainedClassSeqRule{nil, {{Actions: acts}}}}
			sh.name += ":chain2"
			format = 4
		}
		sh.ll = gtab.LookupList{{Meta: c07meta(c07ctxType(format, false)), Subtables: []gtab.Subtable{st}}, c07single()}
		sh.lookups = []gtab.LookupIndex{0}

	case "class-oob-gpos2.2":
		sh.gpos = true
		vr := &gtab.GposValueRecord{XAdvance: 5}
		st := &gtab.Gpos2_2{Cov: coverage.Set{hX: true, hY: true},
			Class1: classdef.Table{hY: uint16(1 + r.IntN(3))}, Class2: classdef.Table{hY: uint16(1 + r.IntN(3)), hM: 1},
			Adjust: [][]*gtab.PairAdjust{{{First: vr, Second: vr}}}}
		sh.ll = gtab.LookupList{{Meta: c07meta(2), Subtables: []gtab.Subtable{st}}}
		sh.lookups = []gtab.LookupIndex{0}

	case "mark-class-oob-gpos4.1":
		sh.gpos = true
		st := &gtab.Gpos4_1{MarkCov: coverage.Table{hM: 0, hN: 1}, BaseCov: coverage.Table{hX: 0, hA: 1},
			MarkArray: []markarray.Record{{Class: 0, Table: anchor.Table{X: 5, Y: 6}}, {Class: uint16(1 + r.IntN(4)), Table: anchor.Table{X: 7, Y: 8}}},
			BaseArray: [][]anchor.Table{{{X: 10, Y: 20}}, {{X: 30, Y: 40}}}}
		sh.ll = gtab.LookupList{{Meta: c07meta(4), Subtables: []gtab.Subtable{st}}}
		sh.lookups = []gtab.LookupIndex{0}
		sh.hot = []glyph.ID{hX, hA, hM, hN, hN}

	case "mark-class-oob-gpos6.1":
		sh.gpos = true
		st := &gtab.Gpos6_1{Mark1Cov: coverage.Table{hM: 0, hN: 1}, Mark2Cov: coverage.Table{hM: 0, hN: 1},
			Mark1Array: []markarray.Record{{Class: 0, Table: anchor.Table{X: 5, Y: 6}}, {Class: uint16(1 + r.IntN(4)), Table: anchor.Table{X: 7, Y: 8}}},
			Mark2Array: [][]anchor.Table{{{X: 10, Y: 20}}, {{X: 30, Y: 40}}}}
		sh.ll = gtab.LookupList{{Meta: c07meta(6), Subtables: []gtab.Subtable{st}}}
		sh.lookups = []gtab.LookupIndex{0}
		sh.hot = []glyph.ID{hX, hA, hM, hN, hN}

	case "filtering-set-oob":
		nSets := r.IntN(3)
		sh.gd = c07gdef(nSets)
		lt := c07lig()
		lt.Meta.LookupFlags = gtab.UseMarkFilteringSet
		if r.IntN(3) == 0 {
			lt.Meta.LookupFlags |= gtab.IgnoreBaseGlyphs
		}
		lt.Meta.MarkFilteringSet = uint16(nSets + r.IntN(3))
		if r.IntN(4) == 0 {
			lt.Meta.MarkFilteringSet = 0xFFFF
		}
		sh.ll = gtab.LookupList{lt}
		sh.lookups = []gtab.LookupIndex{0}
		sh.hot = []glyph.ID{hX, hX, hM, hN, hA}

	case "empty-replacement":
		st := &gtab.Gsub2_1{Cov: coverage.Table{hX: 0, hY: 1}, Repl: [][]glyph.ID{{}, {hX, hX}}}
		if r.IntN(2) == 0 {
			// reached through a contextual lookup
			sh.ll = gtab.LookupList{{Meta: c07meta(c07ctxType(format, false)), Subtables: []gtab.Subtable{c07ctx(format, n, []gtab.SeqLookup{{SequenceIndex: 0, LookupListIndex: 1}})}},
				{Meta: c07meta(2), Subtables: []gtab.Subtable{st}}}
		} else {
			sh.ll = gtab.LookupList{{Meta: c07meta(2), Subtables: []gtab.Subtable{st}}}
		}
		sh.lookups = []gtab.LookupIndex{0}

	case "empty-alternates":
		st := &gtab.Gsub3_1{Cov: coverage.Table{hX: 0, hY: 1}, Alternates: [][]glyph.ID{{}, {hX, hY}}}
		sh.ll = gtab.LookupList{{Meta: c07meta(3), Subtables: []gtab.Subtable{st}}}
		sh.lookups = []gtab.LookupIndex{0}

	case "self-referential":
		acts := []gtab.SeqLookup{{SequenceIndex: 0, LookupListIndex: 0}}
		if r.IntN(2) == 0 {
			acts = append(acts, gtab.SeqLookup{SequenceIndex: 0, LookupListIndex: 1})
		}
		sh.ll = gtab.LookupList{{Meta: c07meta(c07ctxType(format, false)), Subtables: []gtab.Subtable{c07ctx(format, n, acts)}}, c07single()}
		sh.lookups = []gtab.LookupIndex{0}
		sh.name += ":" + c07ctxNames[format]

	case "mutually-recursive":
		f2 := r.IntN(6)
		sh.ll = gtab.LookupList{
			{Meta: c07meta(c07ctxType(format, false)), Subtables: []gtab.Subtable{c07ctx(format, n, []gtab.SeqLookup{{SequenceIndex: 0, LookupListIndex: 1}})}},
			{Meta: c07meta(c07ctxType(f2, false)), Subtables: []gtab.Subtable{c07ctx(f2, 1, []gtab.SeqLookup{{SequenceIndex: 0, LookupListIndex: 2}, {SequenceIndex: 0, LookupListIndex: 0}})}},
			c07grow(1 + r.IntN(3)),
		}
		sh.lookups = []gtab.LookupIndex{0}
		if r.IntN(2) == 0 {
			sh.lookups = []gtab.LookupIndex{1, 0}
		}

	case "recursive-growth":
		// like documented test case 4_43: the lookup calls a growing lookup and then itself
		k := 2 + r.IntN(2)
		sh.ll = gtab.LookupList{
			{Meta: c07meta(c07ctxType(format, false)), Subtables: []gtab.Subtable{c07ctx(format, 1, []gtab.SeqLookup{{SequenceIndex: 0, LookupListIndex: 1}, {SequenceIndex: 0, LookupListIndex: 0}})}},
			c07grow(k),
		}
		sh.lookups = []gtab.LookupIndex{0}

	case "nesting-depth":
		d := 1 + r.IntN(80)
		for i := 0; i < d; i++ {
			f := r.IntN(6)
			sh.ll = append(sh.ll, &gtab.LookupTable{Meta: c07meta(c07ctxType(f, false)),
				Subtables: []gtab.Subtable{c07ctx(f, 1, []gtab.SeqLookup{{SequenceIndex: 0, LookupListIndex: gtab.LookupIndex(i + 1)}})}})
		}
		switch r.IntN(3) {
		case 0:
			sh.ll = append(sh.ll, c07grow(2))
		case 1:
			sh.ll = append(sh.ll, c07single())
		default:
			sh.ll = append(sh.ll, c07lig())
		}
		sh.lookups = []gtab.LookupIndex{0}
		sh.name += c07bucket(d)

	case "many-actions":
		na := 1 + r.IntN(200)
		var acts []gtab.SeqLookup
		for i := 0; i < na; i++ {
			acts = append(acts, gtab.SeqLookup{SequenceIndex: uint16(r.IntN(n)), LookupListIndex: gtab.LookupIndex(1 + r.IntN(3))})
		}
		sh.ll = gtab.LookupList{{Meta: c07meta(c07ctxType(format, false)), Subtables: []gtab.Subtable{c07ctx(format, n, acts)}},
			c07single(), c07grow(2), c07lig()}
		sh.lookups = []gtab.LookupIndex{0}
		sh.name += c07bucket(na)

	case "lookup-order-oob":
		sh.ll = gtab.LookupList{c07single(), c07lig()}
		sh.lookups = []gtab.LookupIndex{0, gtab.LookupIndex(2 + r.IntN(5)), 1, 0xFFFF}

	case "context-over-mark-with-marks-ignoring-ligature":
		// The enclosing context does not ignore marks and has a mark among its
		// input glyphs; its first action is a ligature lookup that ignores
		// marks (so the mark is skipped inside the ligature and moves behind
		// it); further actions address later positions of the context.
		nComp := 2 + r.IntN(3) // ligature components (all X)
		markAfter := 1 + r.IntN(nComp-1)
		var input []glyph.ID // input of the context: X.. M X..
		for i := 0; i < nComp; i++ {
			if i == markAfter {
				input = append(input, hM)
				if r.IntN(3) == 0 {
					input = append(input, hM)
				}
			}
			input = append(input, hX)
		}
		ligIn := make([]glyph.ID, nComp-1)
		for i := range ligIn {
			ligIn[i] = hX
		}
		lig := &gtab.LookupTable{Meta: &gtab.LookupMetaInfo{LookupType: 4, LookupFlags: gtab.IgnoreMarks},
			Subtables: []gtab.Subtable{&gtab.Gsub4_1{Cov: coverage.Table{hX: 0}, Repl: [][]gtab.Ligature{{{In: ligIn, Out: hL}}}}}}
		markSubst := &gtab.LookupTable{Meta: c07meta(1), Subtables: []gtab.Subtable{&gtab.Gsub1_2{Cov: coverage.Table{hX: 0, hM: 1, hL: 2}, SubstituteGlyphIDs: []glyph.ID{hY, hN, hA}}}}
		acts := []gtab.SeqLookup{{SequenceIndex: 0, LookupListIndex: 1}}
		for i, na := 0, 1+r.IntN(3); i < na; i++ {
			acts = append(acts, gtab.SeqLookup{SequenceIndex: uint16(r.IntN(len(input))), LookupListIndex: 2})
		}
		if r.IntN(4) == 0 {
			acts[0], acts[len(acts)-1] = acts[len(acts)-1], acts[0]
		}
		rest := input[1:]
		restCls := make([]uint16, len(rest))
		covs := make([]coverage.Set, len(input))
		for i, g := range input {
			covs[i] = coverage.Set{g: true}
			if i > 0 {
				restCls[i-1] = map[glyph.ID]uint16{hX: 1, hM: 2}[g]
			}
		}
		var st gtab.Subtable
		switch format {
		case 0:
			st = &gtab.SeqContext1{Cov: coverage.Table{hX: 0}, Rules: [][]*gtab.SeqRule{{{Input: rest, Actions: acts}}}}
		case 1:
			st = &gtab.SeqContext2{Cov: coverage.Table{hX: 0}, Input: classdef.Table{hX: 1, hM: 2},
				Rules: [][]*gtab.ClassSeqRule{nil, {{Input: restCls, Actions: acts}}}}
		case 2:
			st = &gtab.SeqContext3{Input: covs, Actions: acts}
		case 3:
			st = &gtab.ChainedSeqContext1{Cov: coverage.Table{hX: 0}, Rules: [][]*gtab.ChainedSeqRule{{{Input: rest, Actions: acts}}}}
		case 4:
			st = &gtab.ChainedSeqContext2{Cov: coverage.Table{hX: 0}, Input: classdef.Table{hX: 1, hM: 2},
				Rules: [][]*gtab.ChainedClassSeqRule{nil, {{Input: restCls, Actions: acts}}}}
		default:
			st = &gtab.ChainedSeqContext3{Input: covs, Actions: acts}
		}
		sh.ll = gtab.LookupList{{Meta: c07meta(c07ctxType(format, false)), Subtables: []gtab.Subtable{st}}, lig, markSubst}
		sh.lookups = []gtab.LookupIndex{0}
		sh.hot = []glyph.ID{hX, hX, hX, hM, hM, hY}
		sh.name += ":" + c07ctxNames[format]

	case "one-component-ligature":
		st := &gtab.Gsub4_1{Cov: coverage.Table{hX: 0, hY: 1}, Repl: [][]gtab.Ligature{{{In: []glyph.ID{}, Out: hY}}, {}}}
		sh.ll = gtab.LookupList{{Meta: c07meta(4), Subtables: []gtab.Subtable{st}}}
		sh.lookups = []gtab.LookupIndex{0}
	}
	return sh
}

func c07bucket(n int) string {
	switch {
	case n > 64:
		return ":>64"
	case n >= 60:
		return ":60-64"
	case n >= 16:
		return ":16-59"
	}
	return ":1-15"
}

func c07shapeSeq(r *rand.Rand, sh *c07shape) []glyph.ID {
	n := r.IntN(201)
	if r.IntN(3) == 0 {
		n = r.IntN(12)
	}
	out := make([]glyph.ID, n)
	for i := range out {
		if r.IntN(12) == 0 {
			out[i] = glyph.ID(r.IntN(65536))
		} else {
			out[i] = sh.hot[r.IntN(len(sh.hot))]
		}
	}
	return out
}

func c07describeShape(sh *c07shape) string {
	return fmt.Sprintf("shape %s\n%s", sh.name, c06describe(sh.ll, sh.lookups, sh.gd))
}
