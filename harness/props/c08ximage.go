package props

import (
	"fmt"
	"math/rand/v2"
	"sort"

	"golang.org/x/text/language"

	"seehuhn.de/go/postscript/funit"
	"seehuhn.de/go/sfnt/glyph"
	"seehuhn.de/go/sfnt/opentype/classdef"
	"seehuhn.de/go/sfnt/opentype/coverage"
	"seehuhn.de/go/sfnt/opentype/gtab"

	"verif/harness/internal/gen/fontgen"
	"verif/harness/internal/mon"
	"verif/harness/internal/ref/ximg"
)

// Third opinion on the emitted GPOS bytes: golang.org/x/image/font/sfnt has
// its own reader for script list, feature list, lookup list, extension
// records, coverage tables (both formats), class definitions (both formats)
// and pair adjustment subtables (both formats), restricted to value format
// (XAdvance, none).  A font is written whose kern feature consists of such
// subtables; the kerning x/image finds for a glyph pair must be the value
// the structure holds.

type c08kernFont struct {
	subs  []gtab.Subtable // the subtables x/image is expected to consult, in order
	hot1  []glyph.ID      // glyphs worth asking about (first / second position)
	hot2  []glyph.ID
	large bool
	lim   int // largest magnitude of a value
}

// c08expectKern follows x/image's rule: the first subtable that has an entry
// for the pair decides (a class subtable has an entry for every pair whose
// first glyph it covers).  Within one lookup this is the OpenType rule too.
func c08expectKern(subs []gtab.Subtable, a, b glyph.ID) (int, bool) {
	for _, st := range subs {
		switch st := st.(type) {
		case gtab.Gpos2_1:
			if adj, ok := st[glyph.Pair{Left: a, Right: b}]; ok {
				if adj == nil || adj.First == nil {
					return 0, true
				}
				return int(adj.First.XAdvance), true
			}
		case *gtab.Gpos2_2:
			if !st.Cov[a] {
				continue
			}
			adj := st.Adjust[st.Class1[a]][st.Class2[b]]
			if adj == nil || adj.First == nil {
				return 0, true
			}
			return int(adj.First.XAdvance), true
		}
	}
	return 0, false
}

// c08kernValue draws an advance adjustment of magnitude <= lim (x/image
// computes value * ppem in 32 bits; lim keeps that product in range).
func c08kernValue(r *rand.Rand, lim int) *gtab.GposValueRecord {
	switch r.IntN(8) {
	case 0:
		return &gtab.GposValueRecord{XAdvance: 0}
	case 1:
		return &gtab.GposValueRecord{XAdvance: []funit.Int16{funit.Int16(-lim), funit.Int16(lim), -1, 1}[r.IntN(4)]}
	}
	return &gtab.GposValueRecord{XAdvance: funit.Int16(r.IntN(2*lim+1) - lim)}
}

// c08glyphRuns draws about n glyphs below max as a mixture of runs (coverage
// and class definition format 2 pay off) and singles (format 1).
func c08glyphRuns(r *rand.Rand, n, max int) []glyph.ID {
	seen := map[glyph.ID]bool{}
	var out []glyph.ID
	for len(out) < n {
		start, l := 1+r.IntN(max-1), 1
		if r.IntN(3) == 0 {
			l = 2 + r.IntN(12)
		}
		for i := 0; i < l && start+i < max && len(out) < n; i++ {
			if g := glyph.ID(start + i); !seen[g] {
				seen[g] = true
				out = append(out, g)
			}
		}
	}
	// the two ends of the glyph range: glyph 0 and the last glyph of the font
	if g := glyph.ID(0); r.IntN(4) == 0 && !seen[g] {
		out = append(out, g)
	}
	if g := glyph.ID(max - 1); r.IntN(4) == 0 && !seen[g] {
		out = append(out, g)
	}
	sort.Slice(out, func(i, j int) bool { return out[i] < out[j] })
	return out
}

// c08classRuns returns runs of consecutive glyphs below max with one non-zero
// class (< nc, nc >= 3) per run, for a class definition table of a forced
// format: dense = one block of glyphs whose classes change from glyph to
// glyph (format 1 is smaller), otherwise a few long runs far apart (format 2
// is smaller).  Blocks and runs touch glyph 0 and the last glyph now and then.
func c08classRuns(r *rand.Rand, dense, large bool, nc, max int) (gids []glyph.ID, class map[glyph.ID]uint16) {
	class = map[glyph.ID]uint16{}
	place := func(l int) int { // start of a run of l glyphs
		switch r.IntN(4) {
		case 0:
			return 0
		case 1:
			return max - l
		}
		return r.IntN(max - l + 1)
	}
	if dense {
		l := min(4+r.IntN(30), max)
		if large { // every class in use: the class pair matrix is as large as in the free mode
			l = min(nc-1+r.IntN(30), max)
		}
		s := place(l)
		for i := 0; i < l; i++ {
			g := glyph.ID(s + i)
			gids = append(gids, g)
			class[g] = uint16(1 + i%(nc-1))
		}
		return
	}
	for j := 1 + r.IntN(2); j > 0; j-- {
		l := min(8+r.IntN(12), max/3)
		s := place(l)
		cls := uint16(1 + r.IntN(nc-1))
		if large && j == 1 {
			cls = uint16(nc - 1)
		}
		for i := 0; i < l; i++ {
			g := glyph.ID(s + i)
			if _, dup := class[g]; !dup {
				gids = append(gids, g)
			}
			class[g] = cls
		}
	}
	sort.Slice(gids, func(i, j int) bool { return gids[i] < gids[j] })
	return
}

func c08kernSubtable(r *rand.Rand, nGlyphs int, large bool, kf *c08kernFont) gtab.Subtable {
	if r.IntN(2) == 0 {
		nFirst, nSecond := 1+r.IntN(12), 1+r.IntN(8)
		if large {
			nFirst, nSecond = 40+r.IntN(30), 80+r.IntN(40)
		}
		firsts := c08glyphRuns(r, min(nFirst, nGlyphs/2), nGlyphs)
		st := gtab.Gpos2_1{}
		nonzero := false
		for _, a := range firsts {
			for _, b := range c08glyphRuns(r, min(1+r.IntN(nSecond), nGlyphs/2), nGlyphs) {
				v := c08kernValue(r, kf.lim)
				nonzero = nonzero || v.XAdvance != 0
				st[glyph.Pair{Left: a, Right: b}] = &gtab.PairAdjust{First: v}
				kf.hot2 = append(kf.hot2, b)
			}
		}
		if !nonzero { // the value format must name XAdvance
			st[glyph.Pair{Left: firsts[0], Right: 1}] = &gtab.PairAdjust{First: &gtab.GposValueRecord{XAdvance: 7}}
		}
		kf.hot1 = append(kf.hot1, firsts...)
		return st
	}
	n1, n2 := 1+r.IntN(5), 1+r.IntN(5)
	if large {
		n1, n2 = 60+r.IntN(40), 80+r.IntN(40)
	}
	st := &gtab.Gpos2_2{Cov: coverage.Set{}, Class1: classdef.Table{}, Class2: classdef.Table{}}
	max1, max2 := 0, 0
	var covered []glyph.ID
	// class definition tables: free (mode 0), or of a forced format
	if mode := r.IntN(3); mode == 0 {
		covered = c08glyphRuns(r, min(2+r.IntN(20), nGlyphs/2), nGlyphs)
		for _, g := range covered { // (a slice: the PRNG is consumed in a fixed order)
			st.Cov[g] = true
			if r.IntN(4) > 0 { // covered glyphs of class 0 are legitimate
				c := r.IntN(n1)
				if c > 0 {
					st.Class1[g] = uint16(c)
					max1 = max(max1, c)
				}
			}
		}
		for _, g := range c08glyphRuns(r, min(2+r.IntN(30), nGlyphs/2), nGlyphs) {
			if c := r.IntN(n2); c > 0 {
				st.Class2[g] = uint16(c)
				max2 = max(max2, c)
				kf.hot2 = append(kf.hot2, g)
			}
		}
	} else {
		n1, n2 = max(n1, 3), max(n2, 3)
		var cls map[glyph.ID]uint16
		covered, cls = c08classRuns(r, mode == 1, large, n1, nGlyphs)
		for _, g := range covered {
			st.Cov[g] = true
			st.Class1[g] = cls[g]
			max1 = max(max1, int(cls[g]))
		}
		if r.IntN(3) == 0 { // a covered glyph of class 0 next to the classified ones
			g := glyph.ID(r.IntN(nGlyphs))
			if _, classified := st.Class1[g]; !classified {
				st.Cov[g] = true
				covered = append(covered, g)
			}
		}
		seconds, cls2 := c08classRuns(r, mode == 1, large, n2, nGlyphs)
		for _, g := range seconds {
			st.Class2[g] = cls2[g]
			max2 = max(max2, int(cls2[g]))
			kf.hot2 = append(kf.hot2, g)
		}
	}
	st.Adjust = make([][]*gtab.PairAdjust, max1+1)
	for i := range st.Adjust {
		st.Adjust[i] = make([]*gtab.PairAdjust, max2+1)
		for j := range st.Adjust[i] {
			st.Adjust[i][j] = &gtab.PairAdjust{First: c08kernValue(r, kf.lim)}
		}
	}
	st.Adjust[max1][max2].First = &gtab.GposValueRecord{XAdvance: 9}
	kf.hot1 = append(kf.hot1, covered...)
	return st
}

func c08ximageStratum(c *mon.Ctx) {
	c.Stratum("ximage-kern", c.N(240, 8000), func(k *mon.Case) {
		r := k.Rng
		large := k.Index%8 == 5
		o := fontgen.Opts{Kind: "glyf", MinGlyphs: 12, MaxGlyphs: 120, Plain: true, NoComposite: true, CMap: "4"}
		if large {
			o.MinGlyphs, o.MaxGlyphs = 500, 700
		}
		f, info := fontgen.Font(r, o)
		n := f.NumGlyphs()
		kf := &c08kernFont{large: large, lim: min(32767, (1<<25)/int(f.UnitsPerEm)-1)}
		if r.IntN(3) > 0 {
			kf.lim = min(kf.lim, 1000)
		}

		var ll gtab.LookupList
		decoy := func() *gtab.LookupTable {
			if r.IntN(2) == 0 {
				return &gtab.LookupTable{Meta: &gtab.LookupMetaInfo{LookupType: 1}, Subtables: []gtab.Subtable{
					&gtab.Gpos1_1{Cov: coverage.Table{glyph.ID(1 + r.IntN(n-1)): 0}, Adjust: &gtab.GposValueRecord{XAdvance: 500}}}}
			}
			return &gtab.LookupTable{Meta: &gtab.LookupMetaInfo{LookupType: 2}, Subtables: []gtab.Subtable{
				gtab.Gpos2_1{{Left: glyph.ID(1 + r.IntN(n-1)), Right: glyph.ID(1 + r.IntN(n-1))}: &gtab.PairAdjust{First: &gtab.GposValueRecord{XAdvance: 444}}}}}
		}
		var kernLookups []gtab.LookupIndex
		nKern := 1
		if r.IntN(4) == 0 {
			nKern = 2
		}
		for i := 0; i < nKern; i++ {
			for j := r.IntN(3); j > 0; j-- {
				ll = append(ll, decoy())
			}
			lt := &gtab.LookupTable{Meta: &gtab.LookupMetaInfo{LookupType: 2, LookupFlags: []gtab.LookupFlags{0, gtab.IgnoreMarks, gtab.IgnoreLigatures, gtab.RightToLeft}[r.IntN(4)]}}
			nSub := 1 + r.IntN(4)
			if large {
				nSub = 2 + r.IntN(3)
			}
			for j := 0; j < nSub; j++ {
				st := c08kernSubtable(r, n, large, kf)
				lt.Subtables = append(lt.Subtables, st)
				kf.subs = append(kf.subs, st)
			}
			kernLookups = append(kernLookups, gtab.LookupIndex(len(ll)))
			ll = append(ll, lt)
		}
		for j := r.IntN(3); j > 0; j-- {
			ll = append(ll, decoy())
		}
		var decoys []gtab.LookupIndex
		for i := range ll {
			isKern := false
			for _, ki := range kernLookups {
				isKern = isKern || int(ki) == i
			}
			if !isKern {
				decoys = append(decoys, gtab.LookupIndex(i))
			}
		}
		// features: kern at a random place among others; the decoys belong to other features
		var fl gtab.FeatureListInfo
		kernAt := r.IntN(3)
		for i := 0; i < 3; i++ {
			if i == kernAt {
				fl = append(fl, &gtab.Feature{Tag: "kern", Lookups: kernLookups})
			} else {
				fl = append(fl, &gtab.Feature{Tag: []string{"mark", "dist", "cpsp"}[i], Lookups: decoys})
			}
		}
		feats := &gtab.Features{Required: 0xFFFF, Optional: []gtab.FeatureIndex{0, 1, 2}}
		others := &gtab.Features{Required: 0xFFFF, Optional: []gtab.FeatureIndex{gtab.FeatureIndex((kernAt + 1) % 3)}}
		sl := gtab.ScriptListInfo{}
		script := []string{"und-Latn-x-latn", "und-Zzzz-x-DFLT"}[r.IntN(2)]
		sl[language.MustParse(script)] = feats
		if r.IntN(2) == 0 {
			sl[language.MustParse("und-Cyrl-x-cyrl")] = others
		}
		if r.IntN(2) == 0 && script == "und-Latn-x-latn" {
			sl[language.MustParse("de-Latn-x-latn-deu")] = others
		}
		if r.IntN(3) == 0 && script == "und-Latn-x-latn" {
			sl[language.MustParse("und-Zzzz-x-DFLT")] = others // latn has precedence
		}
		f.Gpos = &gtab.Info{ScriptList: sl, FeatureList: fl, LookupList: ll}
		f.Gsub, f.Gdef = nil, nil
		desc := fmt.Sprintf("glyphs=%d script=%s kern feature %d, kern lookups %v of %d, %d subtables, large=%v", info.NGlyphs, script, kernAt, kernLookups, len(ll), len(kf.subs), large)

		out, ok := writeFont(k, f, "Write(F)")
		if !ok {
			return
		}
		k.Input(out)
		xf, err := ximg.Parse(out)
		if err != nil {
			k.Fail("mismatch", "c08:ximage-kern:parse", "x/image rejects the written font: %v (%s)", err, desc)
			return
		}
		// glyph pairs: everything the subtables mention plus strangers
		firsts, seconds := uniqueSorted(kf.hot1), uniqueSorted(kf.hot2)
		for i := 0; i < 6; i++ {
			firsts = append(firsts, glyph.ID(r.IntN(n)))
			seconds = append(seconds, glyph.ID(r.IntN(n)))
		}
		if len(firsts) > 60 {
			r.Shuffle(len(firsts), func(i, j int) { firsts[i], firsts[j] = firsts[j], firsts[i] })
			firsts = firsts[:60]
		}
		if len(seconds) > 80 {
			r.Shuffle(len(seconds), func(i, j int) { seconds[i], seconds[j] = seconds[j], seconds[i] })
			seconds = seconds[:80]
		}
		// both ends of the glyph range are always asked about
		firsts = uniqueSorted(append(firsts, 0, glyph.ID(n-1)))
		seconds = uniqueSorted(append(seconds, 0, glyph.ID(n-1)))
		found, notFound, later := 0, 0, 0
		found0, foundLast := 0, 0
		for _, a := range firsts {
			for _, b := range seconds {
				want, wantFound := c08expectKern(kf.subs, a, b)
				got, gotFound, err := xf.Kern(int(a), int(b))
				k.Eval()
				if err != nil {
					k.Fail("mismatch", "c08:ximage-kern:error", "x/image fails on the pair (%d,%d): %v (%s)", a, b, err, desc)
					return
				}
				if gotFound != wantFound || got != want {
					k.Fail("mismatch", "c08:ximage-kern:value", "pair (%d,%d): x/image reads kerning %d (found=%v) from the written GPOS table, the structure holds %d (found=%v) (%s)", a, b, got, gotFound, want, wantFound, desc)
					return
				}
				if wantFound {
					found++
					if a == 0 || b == 0 {
						found0++
					}
					if int(a) == n-1 || int(b) == n-1 {
						foundLast++
					}
					if _, first := c08expectKern(kf.subs[:1], a, b); !first {
						later++
					}
				} else {
					notFound++
				}
			}
		}
		k.ClassN("ximage-kern:pairs-found", found)
		k.ClassN("ximage-kern:pairs-not-found", notFound)
		k.ClassN("ximage-kern:decided-by-later-subtable", later)
		k.ClassN("ximage-kern:pairs-found-with-glyph-0", found0)
		k.ClassN("ximage-kern:pairs-found-with-last-glyph", foundLast)
		for _, st := range kf.subs {
			k.Class("ximage-kern:" + c06kindName(st, true))
			switch st := st.(type) {
			case gtab.Gpos2_1:
				for p := range st {
					if p.Left == 0 || p.Right == 0 {
						k.Class("ximage-kern:gpos2.1-with-glyph-0")
					}
					if int(p.Left) == n-1 || int(p.Right) == n-1 {
						k.Class("ximage-kern:gpos2.1-with-last-glyph")
					}
				}
			case *gtab.Gpos2_2:
				// which format did the class definition tables get?  (byte 1 of the encoded table)
				for i, cd := range []classdef.Table{st.Class1, st.Class2} {
					if len(cd) > 0 {
						k.Class(fmt.Sprintf("ximage-kern:classdef%d-format%d", i+1, cd.Append(nil)[1]))
					}
					if _, ok := cd[0]; ok {
						k.Class("ximage-kern:gpos2.2-class-of-glyph-0")
					}
					if _, ok := cd[glyph.ID(n-1)]; ok {
						k.Class("ximage-kern:gpos2.2-class-of-last-glyph")
					}
				}
				if st.Cov[0] {
					k.Class("ximage-kern:gpos2.2-covers-glyph-0")
				}
				if st.Cov[glyph.ID(n-1)] {
					k.Class("ximage-kern:gpos2.2-covers-last-glyph")
				}
			}
		}
		if large {
			k.Class("ximage-kern:large")
			if len(out) > 0 {
				// was the extension mechanism used?  (lookup type 9 in the written table)
				if g, ok := readFont(k, out, "Read(Write(F))"); ok && g.Gpos != nil {
					if enc := g.Gpos.Encode(); len(enc) > 0xFFFF {
						k.Class("ximage-kern:beyond-64k")
					}
				}
			}
		}
		k.Class("ximage-kern:script=" + script)
		k.Distinct(out)
		if k.Index < 3 {
			k.Sample(desc)
		}
	})
	c.Require("ximage-kern:gpos2.1", "ximage-kern:gpos2.2", "ximage-kern:large", "ximage-kern:beyond-64k",
		"ximage-kern:script=und-Latn-x-latn", "ximage-kern:script=und-Zzzz-x-DFLT",
		"ximage-kern:pairs-found", "ximage-kern:pairs-not-found", "ximage-kern:decided-by-later-subtable",
		"ximage-kern:pairs-found-with-glyph-0", "ximage-kern:pairs-found-with-last-glyph",
		"ximage-kern:gpos2.1-with-glyph-0", "ximage-kern:gpos2.1-with-last-glyph",
		"ximage-kern:gpos2.2-covers-glyph-0", "ximage-kern:gpos2.2-covers-last-glyph",
		"ximage-kern:gpos2.2-class-of-glyph-0", "ximage-kern:gpos2.2-class-of-last-glyph",
		"ximage-kern:classdef1-format1", "ximage-kern:classdef1-format2", "ximage-kern:classdef2-format1", "ximage-kern:classdef2-format2")
}
