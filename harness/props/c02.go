package props

// C02: decoders are total on untrusted bytes — value or error, never panic or
// hang, work and allocation linear in the input; results of a successful
// decode can be handed to the library's lazy decoders, accessors and
// re-encoders without a panic.

import (
	"encoding/binary"
	"fmt"
	"os"
	"sort"
	"strconv"
	"strings"
	"time"

	"seehuhn.de/go/sfnt/cmap"
	"seehuhn.de/go/sfnt/glyph"

	"verif/harness/internal/gen/bytesmut"
	"verif/harness/internal/mon"
)

func init() {
	hard := 330
	if v, err := strconv.Atoi(os.Getenv("C02_HARDSEC")); err == nil && v > 0 {
		hard = v // only for self-validation of the hang monitor with a seeded non-termination
	}
	mon.RegisterCfg("C02", mon.Config{
		Rule: "every one of the 16 decoders of the property (sfnt.Read, header.Read, cff.Read, cmap.Decode(+Get on every key), glyf.Decode(+SimpleGlyph.Decode on every simple glyph), gtab.Read for GSUB and GPOS, gdef.Read, coverage.Read/ReadSet, classdef.Read, name.Decode, head.Read, hmtx.Decode, maxp.Read, os2.Read, post.Read, kern.Read) is called on: valid seeds (tables cut from corpus fonts by an independent container walker, the repository's fuzz corpora, output of the library's encoders for generated values, spec-written GPOS5/cmap6/CFF), every truncation of small seeds, field-aware and blind mutants (bit flips, 16/32-bit field rewrites with boundary values, block duplication/deletion/splice, offset re-pointing), random bytes behind a valid version prefix, hand-built amplifiers at three sizes each, and whole font files with one table replaced by a mutant. Per call: recover (panic = violation), driver watchdog (hang), counting source (calls <= 4096+2*len, bytes <= 1024*that), runtime.MemStats.TotalAlloc delta (<= 64 MiB + 512*len); after success the accessors and re-encoders run under recover. evaluations = monitored decoder calls; distinct = distinct input byte strings (hash)",
		Assumptions: []string{
			"inputs up to 256 KiB (quick) / 4 MiB (thorough); sources honour the io.Reader contract",
			"non-termination is decided as: no return within 330 s when the case runs alone (120 s + 50 us/byte at 4 MiB); time is not otherwise judged",
			"re-encoding is skipped when the decoded tables contain GPOS lookup type 5, whose encoder is declared unimplemented",
			"Lookup is called with code points 0..0x10FFFF only",
			"allocation is the delta of runtime.MemStats.TotalAlloc around the call in a worker that runs one case at a time",
		},
		HardSec: hard,
		SoftSec: 30,
	}, runC02)
}

func c02maxLen(c *mon.Ctx) int {
	if c.Thorough() {
		return 4 << 20
	}
	return 256 << 10
}

// magic/version prefixes behind which random bytes are placed
var c02prefixes = map[string][][]byte{
	dSfnt:     {{0, 1, 0, 0, 0, 3}, {'O', 'T', 'T', 'O', 0, 2}, {'t', 'r', 'u', 'e', 0, 1}},
	dHeader:   {{0, 1, 0, 0, 0, 2}, {'O', 'T', 'T', 'O', 0, 1}, {0, 1, 0, 0, 1, 0x18}},
	dCFF:      {{1, 0, 4, 1}, {1, 0, 4, 2, 0, 1, 1, 1, 2, 'A'}, {1, 0, 5, 4, 0}},
	dCmap:     {{0, 0, 0, 1}, {0, 0, 0, 2, 0, 3, 0, 1, 0, 0, 0, 20, 0, 3, 0, 10, 0, 0, 0, 20}, {0, 0, 0, 1, 0, 3, 0, 1, 0, 0, 0, 12, 0, 4}, {0, 0, 0, 1, 0, 3, 0, 10, 0, 0, 0, 12, 0, 12, 0, 0}},
	dGlyf:     {{0, 0, 0, 0, 0, 8}, {0, 1, 0, 0, 0, 12}, {0, 0, 0, 0, 0, 4, 0, 0, 0, 6}},
	dGsub:     {{0, 1, 0, 0, 0, 10, 0, 12, 0, 14}, {0, 1, 0, 0}, {0, 1, 0, 1}},
	dGpos:     {{0, 1, 0, 0, 0, 10, 0, 12, 0, 14}, {0, 1, 0, 0}, {0, 1, 0, 1}},
	dGdef:     {{0, 1, 0, 0}, {0, 1, 0, 2}, {0, 1, 0, 3}, {0, 1, 0, 2, 0, 14, 0, 0, 0, 0, 0, 14, 0, 14}},
	dCoverage: {{0, 1}, {0, 2}},
	dCovSet:   {{0, 1}, {0, 2}},
	dClassdef: {{0, 1}, {0, 2}},
	dName:     {{0, 0}, {0, 1}, {0, 0, 0, 2, 0, 30}},
	dHead:     {{0, 1, 0, 0}, {0, 1, 0, 0, 0, 1, 0, 0, 0, 0, 0, 0, 0x5F, 0x0F, 0x3C, 0xF5}},
	dHmtx:     {{0, 1, 0, 0}},
	dMaxp:     {{0, 0, 0x50, 0}, {0, 1, 0, 0}},
	dOS2:      {{0, 0}, {0, 1}, {0, 2}, {0, 4}, {0, 5}},
	dPost:     {{0, 1, 0, 0}, {0, 2, 0, 0}, {0, 3, 0, 0}, {0, 2, 0, 0, 0, 0, 0, 0, 0, 0, 0, 0, 0, 0, 0, 0, 0, 0, 0, 0, 0, 0, 0, 0, 0, 0, 0, 0, 0, 0, 0, 0}},
	dKern:     {{0, 0, 0, 1}, {0, 0, 0, 3, 0, 0, 0, 14, 0, 1}},
}

func runC02(c *mon.Ctx) {
	if err := mon.SetAddressSpaceLimit(mon.C02AddressSpace); err != nil {
		c.Note("RLIMIT_AS could not be set: %v", err)
	}
	c.Note("bounds (internal/mon/bounds.go): source calls <= %d + %d*len(b); bytes delivered <= %d * that; TotalAlloc delta <= %d MiB + %d*len(b); RLIMIT_AS %d GiB per worker; hard per-case bound 330 s in isolation",
		mon.C02CallsConst, mon.C02CallsPerByte, mon.C02BytesPerCall, mon.C02AllocConst>>20, mon.C02AllocPerByte, mon.C02AddressSpace>>30)
	t0 := time.Now()
	S := c02seeds()
	timing := os.Getenv("C02_TIMING") != ""
	lap := func(what string) {
		if timing {
			fmt.Fprintf(os.Stderr, "C02 shard %d: %-12s %6.2fs\n", c.Shard, what, time.Since(t0).Seconds())
			t0 = time.Now()
		}
	}
	lap("seed set")
	for _, n := range S.notes {
		c.Note("%s", n)
	}
	maxLen := c02maxLen(c)
	var perDec []string
	for _, d := range c02decoders {
		perDec = append(perDec, fmt.Sprintf("%s=%d", d, len(S.byDec[d])))
	}
	c.Note("seeds per decoder: %s; whole fonts: %d", strings.Join(perDec, " "), len(S.fonts))

	// (1) valid seeds, unmodified.  Doubles as the calibration run: the ratios
	// of the seeds that are accepted are recorded under "calib:…".
	c.Stratum("seeds", len(S.all), func(k *mon.Case) {
		sd := S.all[k.Index]
		if len(sd.data) > maxLen {
			k.Skip("seed larger than the tier's input limit")
			return
		}
		ok := c02run(k, sd.dec, sd.data, sd.origin)
		k.DistinctBytes(sd.data)
		k.Class("seed-origin:" + strings.SplitN(sd.origin, ":", 2)[0])
		if ok {
			k.Class("seed-accepted:" + sd.dec)
			// calibration record: ratios of the accepted (valid) seeds only
			n := len(sd.data)
			al, calls := c02last.alloc, c02last.calls
			k.Max("calib:valid-seeds:alloc/bound", float64(al)/float64(mon.C02AllocBound(n)))
			k.Max("calib:valid-seeds:alloc-bytes(absolute)", float64(al))
			if c02last.hasSrc {
				k.Max("calib:valid-seeds:calls/bound", float64(calls)/float64(mon.C02CallBound(n)))
				k.Max("calib:valid-seeds:calls(absolute)", float64(calls))
			}
			if n >= 16<<10 {
				k.Max("calib:valid-seeds(len>=16KiB):alloc-bytes-per-input-byte", float64(al)/float64(n))
				if c02last.hasSrc {
					k.Max("calib:valid-seeds(len>=16KiB):calls-per-input-byte", float64(calls)/float64(n))
				}
			}
			if strings.HasPrefix(sd.origin, "corpus:") {
				k.Max("calib:corpus:alloc/bound", float64(al)/float64(mon.C02AllocBound(n)))
				if c02last.hasSrc {
					k.Max("calib:corpus:calls/bound", float64(calls)/float64(mon.C02CallBound(n)))
				}
			}
		}
		k.Sample(map[string]any{"decoder": sd.dec, "seed": sd.origin, "bytes": len(sd.data), "accepted": ok})
	})
	lap("seeds")

	// (2) truncation at every length (seeds < 2 KiB), sampled otherwise
	c.Stratum("truncate", len(S.all), func(k *mon.Case) {
		sd := S.all[k.Index]
		n := len(sd.data)
		if n > maxLen {
			n = maxLen
		}
		var lens []int
		if n < 2048 {
			for l := 0; l < n; l++ {
				lens = append(lens, l)
			}
			k.Class("truncate:exhaustive")
		} else {
			cnt := c.N(24, 96)
			for i := 0; i < cnt; i++ {
				switch i % 3 {
				case 0:
					lens = append(lens, k.Rng.IntN(n))
				case 1:
					lens = append(lens, k.Rng.IntN(2048)) // headers
				default:
					lens = append(lens, n-1-k.Rng.IntN(64)) // just short of complete
				}
			}
			k.Class("truncate:sampled")
		}
		acc := 0
		for _, l := range lens {
			if c02run(k, sd.dec, bytesmut.Truncate(sd.data, l), fmt.Sprintf("%s truncated to %d of %d bytes", sd.origin, l, len(sd.data))) {
				acc++
			}
		}
		k.DistinctCount(len(lens))
		k.Sample(map[string]any{"decoder": sd.dec, "seed": sd.origin, "truncations": len(lens), "still accepted": acc})
	})
	lap("truncate")

	// (3) exhaustive 16-bit field sweep over the small seeds: every aligned
	// field x every interesting value
	c.Stratum("fieldsweep", len(S.all), func(k *mon.Case) {
		sd := S.all[k.Index]
		limit := c.N(160, 1024)
		if len(sd.data) > limit || len(sd.data) < 2 {
			k.Skip("field sweep only for small seeds")
			return
		}
		nv := len(bytesmut.Interesting(0, 0))
		cnt := 0
		for p := 0; p+2 <= len(sd.data); p += 2 {
			old := binary.BigEndian.Uint16(sd.data[p:])
			seen := map[uint16]bool{old: true}
			for vi := 0; vi < nv; vi++ {
				m := bytesmut.FieldAt(sd.data, p, vi)
				v := binary.BigEndian.Uint16(m[p:])
				if seen[v] {
					continue
				}
				seen[v] = true
				c02run(k, sd.dec, m, fmt.Sprintf("%s with 16-bit field at %d: %#x -> %#x", sd.origin, p, old, v))
				cnt++
			}
		}
		k.DistinctCount(cnt)
		k.Class("fieldsweep:seeds")
	})
	lap("fieldsweep")

	// (4) random mutants
	c.Stratum("mutants", c.N(160000, 12000000), func(k *mon.Case) {
		r := k.Rng
		dec := c02decoders[k.Index%len(c02decoders)]
		idx := S.byDec[dec]
		if len(idx) == 0 {
			k.Skip("no seed for " + dec)
			return
		}
		// prefer small seeds (cheap, most structure per byte); large ones are
		// exercised too, with probability 1/8
		var sd c02seed
		for try := 0; try < 8; try++ {
			sd = S.all[idx[r.IntN(len(idx))]]
			if len(sd.data) <= 16<<10 || r.IntN(8) == 0 {
				break
			}
		}
		if len(sd.data) > maxLen {
			k.Skip("seed larger than the tier's input limit")
			return
		}
		var others [][]byte
		for i := 0; i < 3; i++ {
			o := S.all[idx[r.IntN(len(idx))]]
			if len(o.data) <= 64<<10 {
				others = append(others, o.data)
			}
		}
		m, used := bytesmut.Mutate(r, sd.data, others, maxLen)
		for _, u := range used {
			k.Class("mutator:" + u)
		}
		ok := c02run(k, dec, m, sd.origin+" mutated by "+strings.Join(used, "+"))
		k.DistinctBytes(m)
		if ok {
			k.Class("mutant-accepted:" + dec)
		}
	})
	lap("mutants")

	// (5) random bytes behind a valid magic / version prefix
	c.Stratum("magic", c.N(32000, 2000000), func(k *mon.Case) {
		r := k.Rng
		dec := c02decoders[k.Index%len(c02decoders)]
		pp := c02prefixes[dec]
		p := pp[r.IntN(len(pp))]
		n := r.IntN(64)
		switch r.IntN(6) {
		case 0:
			n = r.IntN(600)
		case 1:
			n = r.IntN(5000)
		}
		b := bytesmut.RandomTail(r, p, n)
		c02run(k, dec, b, fmt.Sprintf("%d random bytes behind prefix % x", n, p))
		k.DistinctBytes(b)
	})
	lap("magic")

	// (6) amplifiers, three sizes each
	c.Stratum("amplifiers", 3*len(c02amps), func(k *mon.Case) {
		a := c02amps[k.Index/3]
		size := k.Index % 3
		ta := time.Now()
		b := a.build(size, c.Thorough())
		if len(b) > maxLen {
			k.Skip("amplifier larger than the tier's input limit")
			return
		}
		origin := fmt.Sprintf("amplifier %s size %d", a.name, size)
		ok := c02run(k, a.dec, b, origin)
		// growth record: input size, allocation and source calls per size
		al := c02last.alloc
		tag := fmt.Sprintf("amp:%s:size%d:", a.name, size)
		k.Max(tag+"input-bytes", float64(len(b)))
		k.Max(tag+"alloc-bytes", float64(al))
		if c02last.hasSrc {
			k.Max(tag+"source-calls", float64(c02last.calls))
		}
		k.DistinctBytes(b)
		k.Class("amplifier:" + a.name)
		if timing {
			fmt.Fprintf(os.Stderr, "C02 amp %s size %d: %.2fs\n", a.name, size, time.Since(ta).Seconds())
		}
		k.Sample(map[string]any{"amplifier": a.name, "size": size, "bytes": len(b), "alloc": al, "accepted": ok})
	})
	lap("amplifiers")

	// (6b) Type 2 charstrings as token soup: a small valid CFF font (written
	// from the specification) whose glyph program, local and global subroutine
	// are arbitrary sequences of operands and operators - operators on an empty
	// or short stack, storage operators in any order (get before put, indices
	// around 0..31), index/roll with hostile counts, calls without operand or
	// out of range, masks without stems or without their bytes, reserved codes,
	// truncated numbers
	c.Stratum("charstrings", c.N(24000, 2000000), func(k *mon.Case) {
		r := k.Rng
		var prog func(n int) []byte
		num := func() []byte {
			switch r.IntN(8) {
			case 0:
				return []byte{139} // 0
			case 1:
				v := []int{-1, 1, 31, 32, 33, -32, 47, 48, 49, 107, -107}[r.IntN(11)]
				return []byte{byte(v + 139)}
			case 2:
				v := 108 + r.IntN(1024)
				return []byte{byte((v-108)>>8 + 247), byte(v - 108)}
			case 3:
				v := 108 + r.IntN(1024)
				return []byte{byte((v-108)>>8 + 251), byte(v - 108)}
			case 4:
				v := r.IntN(65536)
				return []byte{28, byte(v >> 8), byte(v)}
			case 5:
				return []byte{255, byte(r.IntN(256)), byte(r.IntN(256)), byte(r.IntN(256)), byte(r.IntN(256))}
			default:
				return []byte{byte(139 + r.IntN(40) - 8)}
			}
		}
		ops := [][]byte{{1}, {3}, {4}, {5}, {6}, {7}, {8}, {10}, {11}, {14}, {18}, {19}, {20}, {21}, {22}, {23}, {24}, {25}, {26}, {27}, {29}, {30}, {31},
			{12, 3}, {12, 4}, {12, 5}, {12, 9}, {12, 10}, {12, 11}, {12, 12}, {12, 14}, {12, 15}, {12, 18}, {12, 20}, {12, 21}, {12, 22}, {12, 23}, {12, 24},
			{12, 26}, {12, 27}, {12, 28}, {12, 29}, {12, 30}, {12, 34}, {12, 35}, {12, 36}, {12, 37},
			{0}, {2}, {9}, {13}, {15}, {16}, {17}, {12, 0}, {12, 1}, {12, 2}, {12, 6}, {12, 7}, {12, 8}, {12, 13}, {12, 16}, {12, 17}, {12, 19}, {12, 25}, {12, 38}, {12, 255}}
		storage := [][]byte{{12, 20}, {12, 21}, {12, 29}, {12, 30}, {12, 18}, {12, 27}, {12, 28}} // put get index roll drop dup exch
		prog = func(n int) []byte {
			var out []byte
			for i := 0; i < n; i++ {
				switch q := r.IntN(10); {
				case q < 5:
					out = append(out, num()...)
				case q < 7:
					out = append(out, storage[r.IntN(len(storage))]...)
				case q == 9 && r.IntN(3) == 0:
					// a call of subroutine 0 or 1 (bias 107), local or global
					out = append(out, byte(32+r.IntN(2)), []byte{10, 29}[r.IntN(2)])
				default:
					op := ops[r.IntN(len(ops))]
					out = append(out, op...)
					if (op[0] == 19 || op[0] == 20) && r.IntN(3) != 0 {
						for j := r.IntN(3); j > 0; j-- {
							out = append(out, byte(r.IntN(256))) // mask bytes (or too few of them)
						}
					}
				}
			}
			switch r.IntN(4) {
			case 0:
			case 1:
				out = append(out, 11) // return
			default:
				out = append(out, 14) // endchar
			}
			if r.IntN(12) == 0 && len(out) > 1 {
				out = out[:len(out)-1-r.IntN(min(3, len(out)-1))] // truncated number / operator
			}
			return out
		}
		catalog := [][]byte{
			{139, 12, 21, 12, 18, 14},                        // 0 get drop endchar: get before any put
			{170, 12, 21, 14},                                // 31 get
			{171, 12, 21, 14},                                // 32 get
			{138, 12, 21, 14},                                // -1 get
			{140, 171, 12, 20, 14},                           // 1 32 put
			{140, 138, 12, 20, 14},                           // 1 -1 put
			{140, 139, 12, 20, 140, 12, 21, 14},              // put 0, get 1
			{138, 12, 29, 14},                                // -1 index on an empty stack
			{140, 141, 142, 28, 0x7f, 0xff, 139, 12, 30, 14}, // roll with a huge count
			{12, 12, 14}, {139, 139, 12, 12, 14},             // div on an empty stack, 0 / 0
			{138, 12, 26, 14},  // sqrt of -1
			{10, 14}, {29, 14}, // calls without operand
			{28, 0x7f, 0xff, 10, 14}, {28, 0x80, 0x00, 29, 14}, // calls far out of range
			{19, 14}, {20}, // masks without stems / without bytes
			{255, 1, 2}, // truncated 16.16 number
		}
		cs := prog(r.IntN(24))
		if k.Index < len(catalog) {
			cs = catalog[k.Index]
			k.Class("charstrings:catalog")
		}
		spec := &cffSpec{charstrings: [][]byte{cs}}
		if r.IntN(2) == 0 {
			spec.subrs = [][]byte{prog(r.IntN(10)), prog(r.IntN(6))}
		}
		if r.IntN(3) == 0 {
			spec.gsubrs = [][]byte{prog(r.IntN(10))}
		}
		// call graphs with cycles: subroutines that call themselves or each
		// other, the call being the last thing in the subroutine (no
		// return), followed by return, or followed by more code
		if j := k.Index - len(catalog); j >= 0 && j < 24 {
			tail := [][]byte{{}, {11}, {139, 14}, {14}}[j%4]
			call := func(idx int, global bool) []byte {
				op := byte(10)
				if global {
					op = 29
				}
				return append([]byte{byte(32 + idx), op}, tail...)
			}
			switch j / 4 {
			case 0: // a global subroutine calls itself
				spec.gsubrs = [][]byte{call(0, true)}
				spec.subrs = nil
				spec.charstrings = [][]byte{{32, 29, 14}}
			case 1: // a local subroutine calls itself
				spec.subrs = [][]byte{call(0, false)}
				spec.gsubrs = nil
				spec.charstrings = [][]byte{{32, 10, 14}}
			case 2: // local and global call each other
				spec.subrs = [][]byte{call(0, true)}
				spec.gsubrs = [][]byte{call(0, false)}
				spec.charstrings = [][]byte{{32, 10, 14}}
			case 3: // a cycle of two global subroutines
				spec.gsubrs = [][]byte{call(1, true), call(0, true)}
				spec.subrs = nil
				spec.charstrings = [][]byte{{139, 139, 21, 32, 29, 14}}
			case 4: // a cycle of three, entered after some drawing
				spec.subrs = [][]byte{call(1, false), append([]byte{140, 140, 5}, call(0, true)...)}
				spec.gsubrs = [][]byte{call(0, false)}
				spec.charstrings = [][]byte{{139, 139, 21, 33, 10, 14}}
			default: // the glyph itself ends in the call
				spec.gsubrs = [][]byte{call(0, true)}
				spec.subrs = nil
				spec.charstrings = [][]byte{{32, 29}}
			}
			k.Class("charstrings:call-cycle")
		}
		b := c02cff(spec)
		if c02run(k, dCFF, b, "token soup charstring") {
			k.Class("charstrings:accepted")
		} else {
			k.Class("charstrings:rejected")
		}
		k.DistinctBytes(b)
	})
	lap("charstrings")

	// (7) whole files: one table of a font replaced by a mutant (or dropped,
	// duplicated under another tag, truncated); CFF-in-sfnt mutants
	c.Stratum("fonts", c.N(9600, 480000), func(k *mon.Case) {
		r := k.Rng
		if len(S.fonts) == 0 {
			k.Skip("no fonts")
			return
		}
		// small generated fonts are cheap: 3 of 4 cases; corpus fonts 1 of 4
		var fn c02font
		for try := 0; try < 16; try++ {
			fn = S.fonts[r.IntN(len(S.fonts))]
			if len(fn.data) <= 32<<10 || r.IntN(4) == 0 {
				break
			}
		}
		if len(fn.data) > maxLen {
			k.Skip("font larger than the tier's input limit")
			return
		}
		tabs := map[string][]byte{}
		var tags []string
		for _, t := range fn.file.Tables {
			if t.Data != nil {
				tabs[t.Tag] = t.Data
				tags = append(tags, t.Tag)
			}
		}
		sort.Strings(tags)
		if len(tags) == 0 {
			k.Skip("font without readable tables")
			return
		}
		tag := tags[r.IntN(len(tags))]
		op := r.IntN(12)
		desc := ""
		switch {
		case op >= 10 && r.IntN(3) == 0:
			// the tables that say how many glyphs there are disagree or are
			// missing: maxp removed or its count off by one, hmtx longer or
			// shorter than the glyph count, numberOfHMetrics changed
			desc = "glyph counts:"
			if r.IntN(2) == 0 {
				delete(tabs, "maxp")
				desc += " maxp removed"
			} else if mp := tabs["maxp"]; len(mp) >= 6 {
				mp = append([]byte(nil), mp...)
				n := int(mp[4])<<8 | int(mp[5])
				n += []int{1, -1, 2, 255}[r.IntN(4)]
				mp[4], mp[5] = byte(n>>8), byte(n)
				tabs["maxp"] = mp
				desc += " maxp.numGlyphs changed"
			}
			if hm := tabs["hmtx"]; hm != nil {
				switch r.IntN(3) {
				case 0:
					tabs["hmtx"] = append(append([]byte(nil), hm...), make([]byte, 2*(1+r.IntN(32)))...)
					desc += ", hmtx padded"
				case 1:
					if len(hm) > 4 {
						tabs["hmtx"] = hm[:len(hm)-2*(1+r.IntN(min(len(hm)/2-1, 8)))]
						desc += ", hmtx shortened"
					}
				}
			}
			if hh := tabs["hhea"]; len(hh) >= 36 && r.IntN(3) == 0 {
				hh = append([]byte(nil), hh...)
				n := int(hh[34])<<8 | int(hh[35])
				n += []int{1, -1, 100}[r.IntN(3)]
				hh[34], hh[35] = byte(n>>8), byte(n)
				tabs["hhea"] = hh
				desc += ", hhea.numberOfHMetrics changed"
			}
			k.Class("fonts:cross-table:glyph-counts")
		case op >= 10:
			// every table valid on its own, but inconsistent with the others at
			// an exact boundary: a character map whose glyph ids are the number
			// of glyphs (one past the last glyph), the last glyph, or 0xFFFF for
			// the characters the reader looks up itself ('H' and 'x' for the
			// heights, f/i/l and U+FB00..FB04 for the standard ligatures);
			// with the heights in OS/2 unset or the table missing
			n := 0
			if mp := tabs["maxp"]; len(mp) >= 6 {
				n = int(mp[4])<<8 | int(mp[5])
			}
			m4 := cmap.Format4{}
			for _, ch := range []rune{'H', 'x', 'f', 'i', 'l', ' ', 'A', 0xFB00, 0xFB01, 0xFB02, 0xFB03, 0xFB04, 0xA0} {
				switch r.IntN(5) {
				case 0:
					m4[uint16(ch)] = glyph.ID(n)
				case 1:
					m4[uint16(ch)] = glyph.ID(max(n-1, 0))
				case 2:
					m4[uint16(ch)] = glyph.ID(n + 1 + r.IntN(3))
				case 3:
					m4[uint16(ch)] = 0xFFFF
				}
			}
			enc := m4.Encode(0)
			key := []cmap.Key{{PlatformID: 3, EncodingID: 1}, {PlatformID: 0, EncodingID: 3}, {PlatformID: 0, EncodingID: 4}, {PlatformID: 3, EncodingID: 10}}[r.IntN(4)]
			tabs["cmap"] = cmap.Table{key: enc}.Encode()
			desc = fmt.Sprintf("cmap replaced: the reader's own characters map to glyph ids around numGlyphs=%d", n)
			switch o2 := tabs["OS/2"]; {
			case r.IntN(3) == 0:
				delete(tabs, "OS/2")
				desc += ", OS/2 removed"
			case len(o2) >= 90 && r.IntN(2) == 0:
				o2 = append([]byte(nil), o2...)
				copy(o2[86:90], []byte{0, 0, 0, 0})
				tabs["OS/2"] = o2
				desc += ", OS/2 heights zero"
			case len(o2) >= 86:
				o2 = append([]byte(nil), o2[:86]...)
				o2[0], o2[1] = 0, 1
				tabs["OS/2"] = o2
				desc += ", OS/2 version 1"
			}
			if r.IntN(3) == 0 {
				delete(tabs, "GSUB")
				desc += ", GSUB removed"
			}
			k.Class("fonts:cross-table:cmap-vs-glyph-count")
		case op <= 5:
			var others [][]byte
			for _, o := range S.fonts {
				if t := o.file.Get(tag); t != nil && t.Data != nil && len(t.Data) < 64<<10 {
					others = append(others, t.Data)
					if len(others) >= 3 {
						break
					}
				}
			}
			m, used := bytesmut.Mutate(r, tabs[tag], others, maxLen/2)
			tabs[tag] = m
			desc = "table " + tag + " mutated by " + strings.Join(used, "+")
			k.Class("fonts:mutated-table:" + tag)
		case op == 6:
			delete(tabs, tag)
			desc = "table " + tag + " removed"
			k.Class("fonts:removed-table:" + tag)
		case op == 7:
			if len(tabs[tag]) > 0 {
				tabs[tag] = bytesmut.Truncate(tabs[tag], r.IntN(len(tabs[tag])))
			}
			desc = "table " + tag + " truncated"
			k.Class("fonts:truncated-table:" + tag)
		case op == 8:
			// table of another font under this tag
			o := S.fonts[r.IntN(len(S.fonts))]
			if t := o.file.Get(tag); t != nil && t.Data != nil && len(t.Data) < maxLen/2 {
				tabs[tag] = t.Data
			}
			desc = "table " + tag + " taken from " + o.name
			k.Class("fonts:foreign-table")
			// or one of the stand-alone seed tables of that kind (hand-built
			// ones included): decoded in the context of a whole font
			dec := map[string]string{"cmap": dCmap, "name": dName, "post": dPost, "OS/2": dOS2, "head": dHead, "maxp": dMaxp, "kern": dKern,
				"GSUB": dGsub, "GPOS": dGpos, "GDEF": dGdef}[tag]
			if idx := S.byDec[dec]; dec != "" && len(idx) > 0 && r.IntN(2) == 0 {
				sd := S.all[idx[r.IntN(len(idx))]]
				if len(sd.data) < maxLen/2 {
					tabs[tag] = sd.data
					desc = "table " + tag + " replaced by the seed " + sd.origin
					k.Class("fonts:seed-table")
				}
			}
		default:
			tabs[tag] = nil
			tabs[tag] = []byte{}
			desc = "table " + tag + " emptied"
			k.Class("fonts:empty-table")
		}
		scaler := fn.file.Scaler
		if r.IntN(12) == 0 {
			// the version tags an sfnt file can start with (TrueType, OpenType/CFF,
			// Apple's 'true' and 'typ1', a collection, WOFF) and two that mean nothing
			scaler = []uint32{0x00010000, 0x4F54544F, 0x74727565, 0x74797031, 0x74746366, 0x774F4646, 0x00020000, 0}[r.IntN(8)]
			desc += ", scaler type changed"
		}
		b := c02sfnt(scaler, tabs)
		if r.IntN(10) == 0 {
			// damage the container itself
			hdr := 12 + 16*len(tabs)
			m, used := bytesmut.Mutate(r, b[:hdr], nil, hdr)
			b = append(append([]byte(nil), m...), b[len(m):]...)
			desc += ", directory mutated by " + strings.Join(used, "+")
			k.Class("fonts:directory-mutated")
		}
		if len(b) > maxLen {
			b = b[:maxLen]
		}
		origin := fn.name + ": " + desc
		if r.IntN(8) == 0 {
			// sfnt.Read also accepts a plain io.Reader (the file is then read into memory first)
			c02sfntPlain = true
			origin += " (plain io.Reader)"
			k.Class("fonts:plain-reader")
		}
		ok := c02run(k, dSfnt, b, origin)
		c02sfntPlain = false
		if fn.file.Scaler == 0x4F54544F {
			k.Class("fonts:cff-in-sfnt")
			if ok {
				k.Class("fonts:cff-in-sfnt:accepted")
			}
		}
		if ok {
			k.Class("fonts:accepted")
		} else {
			k.Class("fonts:rejected")
		}
		if r.IntN(4) == 0 {
			c02run(k, dHeader, b, origin)
		}
		k.DistinctBytes(b)
		k.Sample(map[string]any{"font": fn.name, "change": desc, "bytes": len(b), "accepted": ok})
	})
	lap("fonts")

	for _, d := range c02decoders {
		c.Require("dec:"+d+":accept", "dec:"+d+":reject")
	}
	c.Require("acc:sfnt.Read>Write", "acc:sfnt.Read>MakeGlyphNames", "acc:sfnt.Read>SimpleGlyph.Decode", "acc:sfnt.Read>Table.GetBest",
		"acc:cmap.Decode>Table.Get", "acc:cmap.Decode>Subtable.Lookup", "acc:cmap.Decode>Table.Encode",
		"acc:glyf.Decode>SimpleGlyph.Decode", "acc:glyf.Decode>Glyphs.Encode",
		"acc:gtab.Read(GSUB)>Encode", "acc:gtab.Read(GPOS)>Encode", "acc:gdef.Read>Encode", "acc:cff.Read>Write",
		"fonts:cff-in-sfnt:accepted", "font:glyf", "font:cff", "font:cff-cid", "cff:cid-keyed", "cff:simple",
		"truncate:exhaustive", "truncate:sampled", "fieldsweep:seeds", "fonts:cross-table:cmap-vs-glyph-count", "fonts:cross-table:glyph-counts", "fonts:seed-table", "charstrings:catalog", "charstrings:call-cycle", "charstrings:accepted", "charstrings:rejected")
	for _, a := range c02amps {
		c.Require("amplifier:" + a.name)
	}
	for _, m := range bytesmut.Names {
		c.Require("mutator:" + m)
	}
}
