package props

import (
	"fmt"
	"sort"

	"golang.org/x/text/language"

	"seehuhn.de/go/sfnt"
	"seehuhn.de/go/sfnt/glyph"
	"seehuhn.de/go/sfnt/opentype/classdef"
	"seehuhn.de/go/sfnt/opentype/gdef"
	"seehuhn.de/go/sfnt/opentype/gtab"

	"verif/harness/internal/gen/otlmini"
	"verif/harness/internal/mon"
)

// c07layouter: histories of sfnt.Layouter.Layout on one Layouter, compared
// with a fresh Layouter per string.  The font is the repository's simple test
// font (testcases.FontGen) with generated GSUB/GPOS/GDEF tables over its
// glyph range (Layout looks up glyph widths, so all glyph ids must exist).
func c07layouter(c *mon.Ctx) {
	c.Stratum("layouter", c.N(2000, 50000), func(k *mon.Case) {
		env := c06calibGet()
		if env.err != nil {
			k.Fail("mismatch", "harness:layouter-setup", "cannot build the test font: %v", env.err)
			return
		}
		r := k.Rng
		// glyphs that have a character
		var gids []glyph.ID
		for gid := range env.gen.Rev {
			if int(gid) < env.font.NumGlyphs() {
				gids = append(gids, gid)
			}
		}
		sort.Slice(gids, func(i, j int) bool { return gids[i] < gids[j] })
		if len(gids) < 12 {
			k.Skip("layouter-font-too-small")
			return
		}
		r.Shuffle(len(gids), func(i, j int) { gids[i], gids[j] = gids[j], gids[i] })
		nIn := 4 + r.IntN(8)
		alpha := &otlmini.Alphabet{In: append([]glyph.ID(nil), gids[:nIn]...), Out: append([]glyph.ID(nil), gids[nIn:nIn+4]...)}
		if r.IntN(6) == 0 {
			// a substitution may produce any glyph id: the tables do not know
			// how many glyphs the font has (the reader delivers such tables)
			ng := env.font.NumGlyphs()
			alpha.Out[r.IntN(len(alpha.Out))] = glyph.ID([]int{ng, ng + 1 + r.IntN(100), 0xFFFF}[r.IntN(3)])
			k.Class("layouter:substitute-beyond-the-last-glyph")
		}
		gd := &gdef.Table{GlyphClass: classdef.Table{}, MarkAttachClass: classdef.Table{}}
		for _, g := range alpha.All() {
			if cl := []uint16{0, 1, 1, 2, 3, 3}[r.IntN(6)]; cl != 0 {
				gd.GlyphClass[g] = cl
				if cl == 3 {
					gd.MarkAttachClass[g] = uint16(1 + r.IntN(2))
				}
			}
		}
		alpha.Gdef = gd

		font := new(sfnt.Font)
		*font = *env.font
		font.Gdef = gd
		g := &otlmini.Gen{R: r, A: alpha, MaxNested: 3, NoDelta: true}
		sub := g.GenList(otlmini.GsubKinds[r.IntN(len(otlmini.GsubKinds))], otlmini.FlagSet(r.IntN(int(otlmini.NumFlagSets))), 1+r.IntN(3), 1+r.IntN(2), true)
		font.Gsub = c07info(sub.LL)
		font.Gsub.FeatureList[0].Lookups = sub.Lookups
		if r.IntN(4) == 0 && len(sub.Lookups) > 0 {
			// several language systems with equally many features that use
			// different lookups; the language asked for (en-US) is none of
			// them: which one the layouter falls back to must not vary from
			// one NewLayouter call to the next
			part := sub.Lookups[:1+r.IntN(len(sub.Lookups))]
			font.Gsub.FeatureList = append(font.Gsub.FeatureList,
				&gtab.Feature{Tag: "test", Lookups: append([]gtab.LookupIndex{}, part...)},
				&gtab.Feature{Tag: "test", Lookups: nil})
			sl := gtab.ScriptListInfo{}
			tags := []string{"de-Latn-x-latn-deu", "tr-Latn-x-latn-trk", "nl-Latn-x-latn-nld", "und-Cyrl-x-cyrl"}
			for i, tag := range tags[:2+r.IntN(3)] {
				sl[language.MustParse(tag)] = &gtab.Features{Required: gtab.FeatureIndex(i % 3)}
			}
			font.Gsub.ScriptList = sl
			k.Class("layouter:tied-language-systems")
		}
		font.Gpos = nil
		if r.IntN(2) == 0 {
			pos := g.GenList(otlmini.GposKinds[r.IntN(len(otlmini.GposKinds))], otlmini.FlagSet(r.IntN(int(otlmini.NumFlagSets))), 1+r.IntN(3), 1+r.IntN(2), true)
			font.Gpos = c07info(pos.LL)
			font.Gpos.FeatureList[0].Lookups = pos.Lookups
		}
		desc := "GSUB " + c06describe(sub.LL, sub.Lookups, gd)
		if font.Gpos != nil {
			desc += "GPOS " + c06describe(font.Gpos.LookupList, font.Gpos.FeatureList[0].Lookups, gd)
		}
		k.Input([]byte(desc))

		mk := func() *sfnt.Layouter {
			var l *sfnt.Layouter
			var err error
			if c07try(k, "Font.NewLayouter", func() { l, err = font.NewLayouter(language.AmericanEnglish, nil, nil) }) || err != nil {
				return nil
			}
			return l
		}
		reused := mk()
		if reused == nil {
			k.Skip("layouter-not-created")
			return
		}
		calls := 1 + r.IntN(12)
		n := 0
		for i := 0; i < calls; i++ {
			ln := r.IntN(30)
			rs := make([]rune, ln)
			ws := alpha.In[:2+r.IntN(len(alpha.In)-1)]
			for j := range rs {
				rs[j] = env.gen.Rev[ws[r.IntN(len(ws))]]
			}
			s := string(rs)
			k.Step(fmt.Sprintf("Layout %q", s))
			var a, b []glyph.Info
			if i%3 == 1 {
				// the same text twice in a row ("measure, then draw"); the
				// first result is the caller's, who spaces it out in place
				if c07try(k, "Layouter.Layout", func() {
					first := reused.Layout(s)
					for j := range first {
						first[j].GID = 0xFFFF
						first[j].Advance += 1000
						first[j].XOffset -= 77
						first[j].Text = append(first[j].Text, 'x')
					}
				}) {
					return
				}
				k.Class("layouter:same-text-again-after-the-result-was-edited")
			}
			if c07try(k, "Layouter.Layout", func() { a = c06copy(reused.Layout(s)) }) {
				return
			}
			fresh := mk()
			if fresh == nil {
				return
			}
			if c07try(k, "Layouter.Layout", func() { b = c06copy(fresh.Layout(s)) }) {
				return
			}
			k.Eval()
			n++
			if f := c06diff(a, b); f != "" {
				k.Fail("mismatch", "history:reused-layouter-differs-from-fresh", "Layout call %d (%q) differs (%s) between the reused and a fresh Layouter\nreused %s\nfresh  %s\n%s",
					i+1, s, f, c06fmtRun(a), c06fmtRun(b), desc)
			}
			// conservation as a multiset (a string may repeat characters)
			cnt := map[rune]int{}
			for _, r := range rs {
				cnt[r]++
			}
			for _, gi := range a {
				for _, r := range gi.Text {
					cnt[r]--
				}
			}
			for r, d := range cnt {
				if d != 0 {
					k.Fail("mismatch", "text-not-conserved:layouter", "Layout(%q): rune %q occurs %+d times too %s in the output text\noutput %s\n%s",
						s, r, -d, map[bool]string{true: "few", false: "often"}[d > 0], c06fmtRun(a), desc)
					break
				}
			}
			k.Distinct(desc, s)
		}
		k.ClassN("layouter:layout-calls", n)
		if font.Gpos != nil {
			k.Class("layouter:with-gpos")
		}
	})
}
