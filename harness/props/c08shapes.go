package props

import (
	"bytes"
	"fmt"

	"golang.org/x/text/language"
	"seehuhn.de/go/sfnt/opentype/gdef"
	"seehuhn.de/go/sfnt/opentype/gtab"

	"verif/harness/internal/gen/otl"
	"verif/harness/internal/mon"
	"verif/harness/internal/ref/otlwalk"
)

// Shapes the size-driven generators do not reach: single records with large
// 16-bit counts, rule sets near 64 KiB, many mark classes, value records that
// consist of rarely used fields only, large script lists, large GDEF tables.

// c08vrClasses records which value-record shapes a lookup list contains.
func c08vrClasses(k *mon.Case, ll gtab.LookupList) {
	recClass := func(v *gtab.GposValueRecord) (yOnly, devOnly, all bool) {
		if v == nil {
			return
		}
		common := v.XPlacement != 0 || v.YPlacement != 0 || v.XAdvance != 0
		dev := v.XPlacementDevOffs != 0 || v.YPlacementDevOffs != 0 || v.XAdvanceDevOffs != 0 || v.YAdvanceDevOffs != 0
		yOnly = !common && !dev && v.YAdvance != 0
		devOnly = !common && dev && v.YAdvance == 0
		all = v.XPlacement != 0 && v.YPlacement != 0 && v.XAdvance != 0 && v.YAdvance != 0 &&
			v.XPlacementDevOffs != 0 && v.YPlacementDevOffs != 0 && v.XAdvanceDevOffs != 0 && v.YAdvanceDevOffs != 0
		return
	}
	for _, l := range ll {
		for _, s := range l.Subtables {
			var recs []*gtab.GposValueRecord
			switch s := s.(type) {
			case *gtab.Gpos1_1:
				recs = append(recs, s.Adjust)
			case *gtab.Gpos1_2:
				recs = s.Adjust
			case gtab.Gpos2_1:
				for _, pa := range s {
					recs = append(recs, pa.First, pa.Second)
				}
			case *gtab.Gpos2_2:
				for _, row := range s.Adjust {
					for _, pa := range row {
						recs = append(recs, pa.First, pa.Second)
					}
				}
			default:
				continue
			}
			n, ny, nd := 0, 0, 0
			for _, v := range recs {
				if v == nil {
					continue
				}
				n++
				y, d, a := recClass(v)
				if y {
					ny++
					k.Class("vr:record-yadvance-only")
				}
				if d {
					nd++
					k.Class("vr:record-device-offsets-only")
				}
				if a {
					k.Class("vr:record-all-eight-fields")
				}
			}
			name := c06kindName(s, true)
			if n > 0 && ny == n {
				k.Class("vr:subtable-format-yadvance-only")
				k.Class("vr:subtable-format-yadvance-only:" + name)
			}
			if n > 0 && nd == n {
				k.Class("vr:subtable-format-device-offsets-only")
				k.Class("vr:subtable-format-device-offsets-only:" + name)
			}
		}
	}
}

type c08countCombo struct {
	tt int
	sh otl.CountShape
}

func c08countCombos() []c08countCombo {
	var out []c08countCombo
	for _, sh := range otl.CountShapes {
		if sh.Type != 0 {
			out = append(out, c08countCombo{otl.GSUB, sh})
		}
		if sh.GPOS != 0 {
			out = append(out, c08countCombo{otl.GPOS, sh})
		}
	}
	return out
}

func (cb c08countCombo) name() string {
	lt := cb.sh.Type
	if cb.tt == otl.GPOS {
		lt = cb.sh.GPOS
	}
	i := 0
	for cb.sh.Name[i] != '.' {
		i++
	}
	return fmt.Sprintf("%s%d%s", c08typeName(cb.tt), lt, cb.sh.Name[i:])
}

// c08fits reports whether the subtable, as the library lays it out, is at
// most 64 KiB long: then every offset inside it is representable and the
// subtable has to round-trip.  Larger subtables may or may not be
// representable (it depends on where the long record sits); for those the
// catalogue rule applies: refused loudly or read back equal.
func c08fits(s gtab.Subtable) (int, bool) {
	var enc []byte
	if pv, _ := mon.Try(func() { enc = c08encode(s) }); pv != nil {
		return 0, false
	}
	return len(enc), len(enc) <= 0x10000
}

func c08shapeStrata(c *mon.Ctx, scriptTags, langTags []string) {
	// --- single records with large counts --------------------------------------
	combos := c08countCombos()
	c.Stratum("counts", c.N(4*len(combos), 120*len(combos)), func(k *mon.Case) {
		r := k.Rng
		cb := combos[k.Index%len(combos)]
		name := cb.name()
		tier := (k.Index / len(combos)) % 4 // 0,1: 256 … ; 2: just beyond 255 / 256; 3: beyond 32767
		var n int
		marks := cb.sh.Bytes == 0
		switch {
		case marks && tier == 3:
			n = 300 + r.IntN(1500)
		case marks:
			n = 13 + r.IntN(288)
		case tier == 3:
			n = 32768 + r.IntN(400)
			if r.IntN(3) == 0 {
				n = 65535 - r.IntN(3)
			}
		case tier == 2:
			n = 256 + r.IntN(3)
		default:
			n = 256 + r.IntN(min(1800, 40000/cb.sh.Bytes))
		}
		o := otl.Opts{MaxGID: c08maxGIDs[1+r.IntN(4)], NumLookups: 1 + r.IntN(4)}
		lt, s := otl.BigCount(r, cb.tt, cb.sh, n, o)
		info := c08wrap(r, cb.tt, lt, s)
		size, fits := c08fits(s)
		bucket := ">255"
		switch {
		case marks:
			bucket = ">12"
		case n > 32767:
			bucket = ">32767"
		}
		if fits {
			c08hook(k, "counts-"+name, info.LookupList)
			if _, ok := c08judge(k, "counts-"+name, cb.tt, info); ok {
				k.Class("counts:" + name + ":" + bucket)
				k.Class("counts:" + bucket + ":round-trip")
			}
		} else {
			c08unrepJudge(k, "subtable-over-64k:"+name+":count"+bucket, cb.tt, info)
			k.Class("counts:" + bucket + ":subtable-over-64k")
		}
		k.Max("counts-subtable-bytes", float64(size))
		if k.Index < len(combos) {
			k.Sample(fmt.Sprintf("%s n=%d -> subtable of %d bytes", name, n, size))
		}
	})
	for _, cb := range combos {
		b := ">255"
		if cb.sh.Bytes == 0 {
			b = ">12"
		}
		c.Require("counts:" + cb.name() + ":" + b)
	}

	// --- one rule set near 64 KiB --------------------------------------------------
	c.Stratum("rule-set", c.N(144, 6000), func(k *mon.Case) {
		r := k.Rng
		i := k.Index
		tt := otl.GSUB + i%2
		chained := (i/2)%2 == 1
		format := 1 + (i/4)%2
		// offset of the last rule inside its rule set
		at := 0xFF00 - 2*r.IntN(1500) // the whole subtable stays below 64 KiB
		switch (i / 8) % 3 {
		case 1:
			at = 0xFFFE - 2*r.IntN(128)
		case 2:
			at = 0x10000 + 2*r.IntN(12)
		}
		s, setSize := otl.RuleSet(r, chained, format, at, 40+r.IntN(4000), otl.Opts{MaxGID: c08maxGIDs[1+r.IntN(4)], NumLookups: 2})
		lt := 5
		if chained {
			lt = 6
		}
		if tt == otl.GPOS {
			lt += 2
		}
		name := otl.Name(tt, lt, format)
		info := c08wrap(r, tt, lt, s)
		size, fits := c08fits(s)
		if fits {
			c08hook(k, "rule-set-"+name, info.LookupList)
			if _, ok := c08judge(k, "rule-set-"+name, tt, info); ok {
				k.Class("rule-set:" + name + ":round-trip")
				if at >= 0xFC00 {
					k.Class("rule-set:last-rule-offset>=0xFC00:round-trip")
				}
			}
		} else {
			c08unrepJudge(k, "subtable-over-64k:"+name+":rule-set", tt, info)
			k.Class("rule-set:subtable-over-64k")
		}
		k.Max("rule-set-bytes", float64(setSize))
		k.Max("rule-set-subtable-bytes", float64(size))
	})
	for _, tt := range []int{otl.GSUB, otl.GPOS} {
		for _, lt := range []int{5, 6} {
			for _, f := range []int{1, 2} {
				c.Require("rule-set:" + otl.Name(tt, lt+2*(tt-1), f) + ":round-trip")
			}
		}
	}
	c.Require("rule-set:last-rule-offset>=0xFC00:round-trip")

	// --- the last piece of a subtable straddles 64 KiB ------------------------------
	// Three pieces; the first two are sized so that the subtable as a whole
	// has 0x10000+d bytes, for every even d from just below zero to just
	// beyond the size of the last piece: wherever the layout puts the last
	// piece, some d puts its start at the last representable offset and its
	// end beyond 64 KiB.  Whether the offsets did fit is decided by the
	// independent walker (no gap, no overlap, no offset out of range).
	type straddle struct {
		tt, lt int
		kind   string
		per    int
	}
	var straddles []straddle
	for _, pk := range otl.PieceKinds {
		if pk.Type != 0 {
			straddles = append(straddles, straddle{otl.GSUB, pk.Type, pk.Name, pk.Per})
		}
		if pk.GPOS != 0 {
			straddles = append(straddles, straddle{otl.GPOS, pk.GPOS, pk.Name, pk.Per})
		}
	}
	const lastPiece = 60 // payload entries of the last piece
	steps := (2*lastPiece*2 + 64) / 2
	c.Stratum("straddle-64k", len(straddles)*steps, func(k *mon.Case) {
		r := k.Rng
		st := straddles[k.Index%len(straddles)]
		d := -16 + 2*(k.Index/len(straddles))
		target := 0x10000 + d
		counts := []int{7000, 7000, lastPiece}
		if st.per == 4 {
			counts = []int{7000, 7000, lastPiece / 2}
		}
		s := otl.Pieces(st.kind, counts)
		// the encoded size, or -1 when the encoder refuses the subtable
		sizeOf := func(s gtab.Subtable) int {
			n := -1
			mon.Try(func() { n = len(c08encode(s)) })
			return n
		}
		for try := 0; try < 3; try++ {
			size := sizeOf(s)
			if size == target || (st.per == 4 && target-size == 2) {
				break
			}
			delta := (target - size) / st.per
			counts[0] += delta / 2
			counts[1] += delta - delta/2
			s = otl.Pieces(st.kind, counts)
		}
		size := sizeOf(s)
		name := otl.Name(st.tt, st.lt, map[string]int{"5.2": 2, "6.2": 2}[st.kind]+0)
		if name[len(name)-1] == '0' {
			name = name[:len(name)-1] + "1"
		}
		info := c08wrap(r, st.tt, st.lt, s)
		o := c08pipeline(k, st.tt, info)
		k.Eval()
		switch {
		case o.panicked:
			k.Class("straddle:refused-loudly")
		case o.rep.OK() && len(o.rep.Unsupported) == 0:
			// representable and written correctly: the round trip is due
			if o.readErr != nil {
				k.Fail("mismatch", "c08:straddle:"+name+":wellformed-output-rejected", "subtable of %d bytes (pieces %v): Encode wrote %d well-formed bytes which gtab.Read rejects: %v", size, counts, len(o.enc), o.readErr)
			} else if o.diff != "" {
				k.Fail("mismatch", "c08:straddle:"+name+":roundtrip", "subtable of %d bytes (pieces %v): Read(Encode(x)) != x at %s", size, counts, o.diff)
			} else {
				k.Class("straddle:" + name + ":round-trip")
				if size > 0x10000 {
					k.Class("straddle:" + name + ":round-trip-beyond-64k")
					k.Class("straddle:round-trip-beyond-64k")
				}
			}
		default:
			k.Fail("mismatch", "c08:unrep:subtable-over-64k:"+name+":straddle:silently-corrupt", "subtable of %d bytes (pieces %v): Encode wrote %d bytes without complaint; read error: %v; difference: %s; walker: %v", size, counts, len(o.enc), o.readErr, o.diff, o.rep.Problems)
		}
		k.DistinctBytes(o.enc)
		if k.Index < len(straddles) {
			k.Sample(fmt.Sprintf("%s pieces %v -> subtable of %d bytes", name, counts, size))
		}
	})
	c.Require("straddle:round-trip-beyond-64k")

	// --- GDEF shapes ------------------------------------------------------------------
	c.Stratum("gdef-shapes", c.N(90, 4500), func(k *mon.Case) {
		r := k.Rng
		shape := otl.GdefShapes[k.Index%len(otl.GdefShapes)]
		d := 2*((k.Index/len(otl.GdefShapes))%9) - 8 // -8 … +8
		t := otl.GdefShape(r, shape, d)
		// offsets as any encoder has to lay the three tables out in this order
		hdr := 12
		if t.MarkGlyphSets != nil {
			hdr = 14
		}
		offs, maxOff := hdr, 0
		sizeOf := func(m map[uint16]uint16) int {
			f1, f2 := otlwalk.ClassDefSizes(m)
			if f2 < 0 || (f1 >= 0 && f1 < f2) {
				return f1
			}
			return f2
		}
		if t.GlyphClass != nil {
			maxOff = offs
			offs += sizeOf(c08cd16(t.GlyphClass))
		}
		if t.MarkAttachClass != nil {
			maxOff = offs
			offs += sizeOf(c08cd16(t.MarkAttachClass))
		}
		if t.MarkGlyphSets != nil {
			maxOff = offs
		}
		if maxOff <= 0xFFFF {
			enc, ok := c08gdefJudge(k, t)
			if ok && !k.Failed() {
				k.Class("gdef-shape:" + shape)
				if maxOff >= 0xFFF0 {
					k.Class("gdef-shape:" + shape + ":last-offset>=0xFFF0")
				}
				if len(t.MarkGlyphSets) >= 100 {
					k.Class("gdef-shape:>=100-mark-glyph-sets")
				}
				if len(enc) > 0x10000+14 && shape == "large-sets" {
					k.Class("gdef-shape:set-offsets-beyond-64k")
				}
			}
			k.DistinctBytes(enc)
			k.Max("gdef-bytes", float64(len(enc)))
			return
		}
		// not representable with this table order: loud refusal or equality
		var enc []byte
		pv, _ := mon.Try(func() { enc = t.Encode() })
		k.Eval()
		if pv != nil {
			k.Class("unrep:gdef-offset-over-64k:refused-loudly")
			k.Class("gdef-shape:" + shape + ":offset-over-64k")
			return
		}
		k.Input(enc)
		var back *gdef.Table
		var err error
		pv, _ = mon.Try(func() { back, err = gdef.Read(bytes.NewReader(enc)) })
		rep, _ := otlwalk.WalkGDEF(enc)
		if pv == nil && err == nil && c08diff(t, back) == "" && rep.OK() {
			k.Class("unrep:gdef-offset-over-64k:reads-back-equal")
			k.Class("gdef-shape:" + shape + ":offset-over-64k")
			return
		}
		k.Fail("mismatch", "c08:unrep:gdef-offset-over-64k:silently-corrupt", "GDEF (%s) whose last sub-table would start at offset %d: Encode wrote %d bytes without complaint; read: panic %v err %v; walker: %v", shape, maxOff, len(enc), pv, err, rep.Problems)
	})
	for _, s := range otl.GdefShapes {
		c.Require("gdef-shape:" + s)
	}
	c.Require("gdef-shape:>=100-mark-glyph-sets", "gdef-shape:set-offsets-beyond-64k",
		"gdef-shape:sets-offset-near-limit:last-offset>=0xFFF0", "gdef-shape:attach-offset-near-limit:last-offset>=0xFFF0",
		"gdef-shape:sets-offset-near-limit:offset-over-64k", "gdef-shape:attach-offset-near-limit:offset-over-64k")

	// --- large script lists -----------------------------------------------------------
	c.Stratum("scripts", c.N(48, 2400), func(k *mon.Case) {
		r := k.Rng
		mode := k.Index % 3
		d := 2*((k.Index/3)%8) - 6 // -6 … +8: the lookup list (the last of the three header offsets) starts at 0x10000+d (modes 1 and 2)
		type pair struct{ script, lang string }
		sl := gtab.ScriptListInfo{}
		var tags []language.Tag // insertion order (the PRNG is never consumed in map order)
		owner := map[language.Tag]pair{}
		nf := 1 + r.IntN(40)
		add := func(script, lang string) bool {
			tag, ok := c08tagFor(k, script, lang)
			if !ok {
				return false
			}
			if _, dup := owner[tag]; dup {
				return false
			}
			owner[tag] = pair{script, lang}
			sl[tag] = otl.Features(r, nf)
			tags = append(tags, tag)
			return true
		}
		nScripts, noDefault := 0, 0
		switch mode {
		case 0, 2: // more than 100 scripts
			want := 101 + r.IntN(max(1, len(scriptTags)-100))
			for _, si := range r.Perm(len(scriptTags)) {
				if nScripts >= want {
					break
				}
				s := scriptTags[si]
				got := false
				withDefault := r.IntN(4) != 0
				if withDefault {
					got = add(s, "")
				}
				nl := 0
				if !withDefault || r.IntN(4) == 0 {
					nl = 1 + r.IntN(3)
				}
				some := false
				for j := 0; j < 8 && nl > 0; j++ {
					if add(s, langTags[r.IntN(len(langTags))]) {
						nl--
						some = true
					}
				}
				if some && !withDefault {
					noDefault++
				}
				if got || some {
					nScripts++
				}
			}
		default: // one script with (nearly) all language systems
			for _, si := range r.Perm(len(scriptTags))[:min(4, len(scriptTags))] {
				s := scriptTags[si]
				n0 := len(tags)
				if r.IntN(3) != 0 {
					add(s, "")
				}
				for _, l := range langTags {
					add(s, l)
				}
				if len(tags) > n0 {
					nScripts++
				}
				if len(tags) >= 400 {
					break
				}
			}
		}
		if len(tags) == 0 {
			k.Skip("no-representable-tags")
			return
		}
		info := &gtab.Info{ScriptList: sl, FeatureList: otl.FeatureList(r, nf, 2), LookupList: otl.LookupList(r, otl.GSUB, otl.Opts{MaxGID: 100, NumLookups: 2, Size: otl.Tiny})}
		measure := func() int {
			n := -1
			mon.Try(func() { n = len((&gtab.Info{ScriptList: sl, FeatureList: info.FeatureList}).Encode()) })
			return n
		}
		flOffs := measure()
		if mode != 0 && flOffs > 0 {
			// pad the language systems until script list and feature list end at 0x10000+d
			// (every optional feature index adds two bytes)
			room := (0x10000 + d - flOffs) / 2
			for room > 0 {
				f := sl[tags[r.IntN(len(tags))]]
				n := min(room, 1+r.IntN(120))
				for j := 0; j < n; j++ {
					f.Optional = append(f.Optional, gtab.FeatureIndex(r.IntN(nf)))
				}
				room -= n
			}
			if room == 0 && flOffs <= 0x10000+d {
				flOffs = 0x10000 + d
			} else {
				flOffs = measure() // the base list was already too long
			}
		}
		scen := []string{"many-scripts", "one-script-near-limit", "many-scripts-near-limit"}[mode]
		if flOffs > 0 && flOffs <= 0xFFFF {
			out, ok := c08judge(k, "scripts-"+scen, otl.GSUB, info)
			if ok && out.rep != nil {
				// the independent walker must find every language system with its features
				seen := map[pair]otlwalk.LangSys{}
				for _, ls := range out.rep.Scripts {
					seen[pair{ls.Script, ls.Lang}] = ls
				}
				for _, tag := range tags {
					p := owner[tag]
					ls, found := seen[p]
					f := sl[tag]
					same := found && ls.Required == uint16(f.Required) && len(ls.Features) == len(f.Optional)
					for j := 0; same && j < len(ls.Features); j++ {
						same = ls.Features[j] == uint16(f.Optional[j])
					}
					if !same {
						k.Fail("mismatch", "c08:scripts:langsys-content", "script %q language %q (tag %v): found in the bytes: %v; bytes say required %d with %d features, encoded required %d with %d features", p.script, p.lang, tag, found, ls.Required, len(ls.Features), f.Required, len(f.Optional))
						return
					}
				}
				k.Class("scripts:" + scen)
				if nScripts > 100 {
					k.Class("scripts:>100-scripts")
				}
				if noDefault >= 10 {
					k.Class("scripts:>=10-scripts-without-default-langsys")
				}
				if len(tags) >= 300 && nScripts <= 4 {
					k.Class("scripts:>=300-language-systems-per-script")
				}
				if flOffs >= 0xFFF0 {
					k.Class("scripts:" + scen + ":lookup-list-offset>=0xFFF0")
				}
			}
			k.Max("script-and-feature-list-bytes", float64(flOffs-10))
		} else {
			c08unrepJudge(k, "script-list-over-64k", otl.GSUB, info)
			k.Class("scripts:" + scen + ":over-64k")
		}
		if k.Index < 3 {
			k.Sample(fmt.Sprintf("%s: %d scripts, %d language systems, lookup list at %d", scen, nScripts, len(tags), flOffs))
		}
	})
	if len(scriptTags) > 100 {
		c.Require("scripts:many-scripts", "scripts:>100-scripts", "scripts:>=10-scripts-without-default-langsys",
			"scripts:one-script-near-limit:lookup-list-offset>=0xFFF0", "scripts:many-scripts-near-limit:lookup-list-offset>=0xFFF0",
			"scripts:>=300-language-systems-per-script",
			"scripts:one-script-near-limit:over-64k", "scripts:many-scripts-near-limit:over-64k")
	}
}
