package props

import (
	"bytes"
	"fmt"
	"math/rand/v2"
	"regexp"
	"seehuhn.de/go/sfnt/post"
	"sort"
	"strings"
	"verif/harness/internal/ref/sfntwalk"
	"verif/harness/internal/ref/tabread"

	"golang.org/x/text/language"
	"seehuhn.de/go/postscript/type1/names"
	"seehuhn.de/go/sfnt"
	"seehuhn.de/go/sfnt/cff"
	"seehuhn.de/go/sfnt/glyf"
	"seehuhn.de/go/sfnt/glyph"
	"seehuhn.de/go/sfnt/opentype/coverage"
	"seehuhn.de/go/sfnt/opentype/gtab"
	"seehuhn.de/go/sfnt/os2"

	"verif/harness/internal/gen/fontgen"
	"verif/harness/internal/mon"
)

// C20: generated glyph names are complete, unique, stable and PostScript-safe.

func init() {
	mon.RegisterCfg("C20", mon.Config{
		Rule: "generated fonts (TrueType with full / short / no name list, simple CFF, CID-keyed CFF) x name patterns (complete, none, holes, duplicates, names equal to future placeholders or future derived names, invalid names) x cmaps (none/some/all glyphs mapped, several code points per glyph) x GSUB 1.1/1.2/3.1/4.1 lookups over existing glyphs (glyph 0 included) with one or several subtables per lookup, several rules reaching one target, one-glyph ligatures and lookups of types 2/5/6/8 in between; one font in 97 has 1001..1300 mostly unnamed glyphs; postconditions of MakeGlyphNames are checked and the call is repeated 12 times (identical?), then EnsureGlyphNames/GlyphName and cff MakeSimple; PostScriptName over family names drawn from all of Unicode incl. every ASCII delimiter. distinct = distinct (name list pattern, cmap, GSUB) inputs (hash) Stratum names-from-files: fonts as sfnt.Read returns them (post versions 1, 2, 3), with a canary on the standard Macintosh names later fonts are given.",
		Assumptions: []string{
			"'Adobe glyph-list name of a code point' is what seehuhn.de/go/postscript/type1/names.FromUnicode returns (external module, not under test)",
			"lookups of other types than 1, 3, 4 (2.1, 5.1, 6.3, 8.1 are mixed in) are no source of names the property demands; a name given to one of their output glyphs is recorded, not judged",
			"a TrueType names list whose length differs from the glyph count (shorter or longer) counts as 'no names' (the library's documented reading)",
			"a derived name is only demanded when its source glyphs were named before the GSUB pass (given or cmap-derived); names derived from names derived in the same pass are accepted, not demanded",
		},
	}, runC20)
}

var ornRe = regexp.MustCompile(`^orn\d+$`)

type c20rule struct {
	in  []glyph.ID
	out glyph.ID
}

// c20shape records which of the rarer GSUB shapes a generated table has.
type c20shape struct {
	glyph0In, glyph0Out bool // glyph 0 as input / as output of a rule
	multiSubtable       bool // a lookup with several subtables
	otherTypes          bool // lookups of types 2, 5, 6, 8 mixed in (not name sources)
	emptyLigIn          bool // a ligature with no further components
	unlisted            bool // a lookup that no feature lists
	otherOut            map[glyph.ID]bool
}

// c20gsub builds random GSUB 1.1/1.2/3.1/4.1 lookups (one or several subtables
// per lookup, glyph 0 among the inputs and outputs, lookups of other types in
// between) and returns the rules of the type 1/3/4 subtables.
func c20gsub(r *rand.Rand, n int) (*gtab.Info, []c20rule, *c20shape) {
	if n < 3 {
		return nil, nil, nil
	}
	var rules []c20rule
	sh := &c20shape{otherOut: map[glyph.ID]bool{}}
	info := &gtab.Info{
		ScriptList: gtab.ScriptListInfo{language.MustParse("und-Zzzz-x-dflt"): {Required: 0xFFFF, Optional: []gtab.FeatureIndex{0}}},
	}
	withZero := r.IntN(4) == 0
	gid := func() glyph.ID {
		if withZero && r.IntN(6) == 0 {
			return 0
		}
		return glyph.ID(1 + r.IntN(n-1))
	}
	rule := func(in []glyph.ID, out glyph.ID) {
		rules = append(rules, c20rule{in, out})
		for _, g := range in {
			if g == 0 {
				sh.glyph0In = true
			}
		}
		if out == 0 {
			sh.glyph0Out = true
		}
	}
	sortedKeys := func(m map[glyph.ID]bool) []glyph.ID {
		var keys []glyph.ID
		for g := range m {
			keys = append(keys, g)
		}
		sort.Slice(keys, func(i, j int) bool { return keys[i] < keys[j] })
		return keys
	}
	nl := 1 + r.IntN(3)
	popular := gid() // a target several rules reach
	sub11 := func() gtab.Subtable {
		cov := map[glyph.ID]bool{}
		var mx glyph.ID
		mn := glyph.ID(n)
		for k := 1 + r.IntN(3); k > 0; k-- {
			g := gid()
			cov[g] = true
			mx = max(mx, g)
			mn = min(mn, g)
		}
		delta := glyph.ID(r.IntN(n - int(mx)))
		if mn > 1 && r.IntN(2) == 0 {
			// substitutes with lower glyph ids: the delta is negative, stored
			// modulo 65536 (-3 = 0xFFFD)
			delta = -glyph.ID(1 + r.IntN(int(mn)-1))
		} else if mn >= 1 && withZero && r.IntN(4) == 0 {
			delta = -mn // the lowest covered glyph is replaced by glyph 0
		}
		for _, g := range sortedKeys(cov) {
			rule([]glyph.ID{g}, g+delta)
		}
		return &gtab.Gsub1_1{Cov: cov, Delta: delta}
	}
	sub12 := func() gtab.Subtable {
		srcs := map[glyph.ID]bool{}
		for k := 1 + r.IntN(4); k > 0; k-- {
			srcs[gid()] = true
		}
		st := &gtab.Gsub1_2{Cov: map[glyph.ID]int{}}
		for i, g := range sortedKeys(srcs) {
			to := gid()
			if r.IntN(2) == 0 {
				to = popular
			}
			st.Cov[g] = i
			st.SubstituteGlyphIDs = append(st.SubstituteGlyphIDs, to)
			rule([]glyph.ID{g}, to)
		}
		return st
	}
	sub31 := func() gtab.Subtable {
		srcs := map[glyph.ID]bool{}
		for k := 1 + r.IntN(3); k > 0; k-- {
			srcs[gid()] = true
		}
		st := &gtab.Gsub3_1{Cov: map[glyph.ID]int{}}
		for i, g := range sortedKeys(srcs) {
			st.Cov[g] = i
			var alts []glyph.ID
			for k := 1 + r.IntN(3); k > 0; k-- {
				to := gid()
				if r.IntN(3) == 0 {
					to = popular
				}
				alts = append(alts, to)
				rule([]glyph.ID{g}, to)
			}
			st.Alternates = append(st.Alternates, alts)
		}
		return st
	}
	sub41 := func() gtab.Subtable {
		first := map[glyph.ID][]gtab.Ligature{}
		firstSet := map[glyph.ID]bool{}
		family := r.IntN(3) == 0 // several ligatures with the same first glyph, longer ones first
		var prevA glyph.ID
		for k, k0 := 1+r.IntN(4), true; k > 0; k, k0 = k-1, false {
			a := gid()
			if family && !k0 {
				a = prevA
			}
			prevA = a
			lig := gtab.Ligature{Out: gid()}
			if r.IntN(3) == 0 {
				lig.Out = popular
			}
			m := 1 + r.IntN(2)
			if family {
				m = max(1, 3-r.IntN(3)) // 3, 2 or 1 further components
			}
			if r.IntN(8) == 0 {
				m = 0 // a "ligature" of one glyph
			}
			for ; m > 0; m-- {
				lig.In = append(lig.In, gid())
			}
			dup := false
			for _, e := range first[a] {
				dup = dup || fmt.Sprint(e.In) == fmt.Sprint(lig.In)
			}
			if !dup {
				first[a] = append(first[a], lig)
				firstSet[a] = true
				rule(append([]glyph.ID{a}, lig.In...), lig.Out)
				if len(lig.In) == 0 {
					sh.emptyLigIn = true
				}
			}
		}
		st := &gtab.Gsub4_1{Cov: map[glyph.ID]int{}}
		for i, g := range sortedKeys(firstSet) {
			st.Cov[g] = i
			st.Repl = append(st.Repl, first[g])
		}
		return st
	}
	// lookups of the other types: no source of names
	other := func() *gtab.LookupTable {
		sh.otherTypes = true
		out := func() glyph.ID {
			g := gid()
			sh.otherOut[g] = true
			return g
		}
		switch r.IntN(4) {
		case 0: // 2.1 multiple substitution
			st := &gtab.Gsub2_1{Cov: map[glyph.ID]int{}}
			srcs := map[glyph.ID]bool{}
			for k := 1 + r.IntN(3); k > 0; k-- {
				srcs[gid()] = true
			}
			for i, g := range sortedKeys(srcs) {
				st.Cov[g] = i
				var repl []glyph.ID
				for k := 1 + r.IntN(3); k > 0; k-- {
					repl = append(repl, out())
				}
				st.Repl = append(st.Repl, repl)
			}
			return &gtab.LookupTable{Meta: &gtab.LookupMetaInfo{LookupType: 2}, Subtables: []gtab.Subtable{st}}
		case 1: // 5.1 contextual
			a := gid()
			st := &gtab.SeqContext1{Cov: map[glyph.ID]int{a: 0}, Rules: [][]*gtab.SeqRule{{{Input: []glyph.ID{gid()}, Actions: []gtab.SeqLookup{{SequenceIndex: 0, LookupListIndex: 0}}}}}}
			return &gtab.LookupTable{Meta: &gtab.LookupMetaInfo{LookupType: 5}, Subtables: []gtab.Subtable{st}}
		case 2: // 6.3 chained contextual
			st := &gtab.ChainedSeqContext3{Backtrack: []coverage.Set{{gid(): true}}, Input: []coverage.Set{{gid(): true, gid(): true}}, Lookahead: []coverage.Set{{gid(): true}},
				Actions: []gtab.SeqLookup{{SequenceIndex: 0, LookupListIndex: 0}}}
			return &gtab.LookupTable{Meta: &gtab.LookupMetaInfo{LookupType: 6}, Subtables: []gtab.Subtable{st}}
		default: // 8.1 reverse chaining
			st := &gtab.Gsub8_1{Input: coverage.Table{}, Lookahead: []coverage.Table{{gid(): 0}}}
			srcs := map[glyph.ID]bool{}
			for k := 1 + r.IntN(3); k > 0; k-- {
				srcs[gid()] = true
			}
			for i, g := range sortedKeys(srcs) {
				st.Input[g] = i
				st.SubstituteGlyphIDs = append(st.SubstituteGlyphIDs, out())
			}
			return &gtab.LookupTable{Meta: &gtab.LookupMetaInfo{LookupType: 8}, Subtables: []gtab.Subtable{st}}
		}
	}
	mixOthers := r.IntN(5) == 0
	for l := 0; l < nl; l++ {
		if mixOthers && r.IntN(2) == 0 {
			info.LookupList = append(info.LookupList, other())
		}
		lt := &gtab.LookupTable{Meta: &gtab.LookupMetaInfo{}}
		nsub := 1
		if r.IntN(4) == 0 {
			nsub = 2 + r.IntN(2)
			sh.multiSubtable = true
		}
		kind := r.IntN(4)
		for s := 0; s < nsub; s++ {
			switch kind {
			case 0, 1: // type 1: both formats may share a lookup
				lt.Meta.LookupType = 1
				which := kind
				if nsub > 1 {
					which = r.IntN(2)
				}
				if which == 0 {
					lt.Subtables = append(lt.Subtables, sub11())
				} else {
					lt.Subtables = append(lt.Subtables, sub12())
				}
			case 2:
				lt.Meta.LookupType = 3
				lt.Subtables = append(lt.Subtables, sub31())
			default:
				lt.Meta.LookupType = 4
				lt.Subtables = append(lt.Subtables, sub41())
			}
		}
		info.LookupList = append(info.LookupList, lt)
	}
	if mixOthers && r.IntN(2) == 0 {
		info.LookupList = append(info.LookupList, other())
	}
	feat := &gtab.Feature{Tag: "liga"}
	// a third of the tables: some lookups are listed by no feature (they are
	// reached as nested actions only, or not at all) - the rules they hold are
	// rules of the font all the same; one table in nine has no feature at all
	drop := r.IntN(3) == 0
	for i := range info.LookupList {
		if drop && r.IntN(2) == 0 {
			sh.unlisted = true
			continue
		}
		feat.Lookups = append(feat.Lookups, gtab.LookupIndex(i))
	}
	info.FeatureList = gtab.FeatureListInfo{feat}
	if drop && r.IntN(3) == 0 {
		info.FeatureList = nil
		info.ScriptList = gtab.ScriptListInfo{}
		sh.unlisted = true
	}
	return info, rules, sh
}

// c20names overwrites the glyph names of f according to a pattern and
// returns the given names (as the library is documented to see them).
func c20names(r *rand.Rand, f *sfnt.Font, n int, cidKeyed bool) (given []string, pattern string) {
	given = make([]string, n)
	pattern = []string{"complete", "none", "holes", "duplicates", "placeholder-clash", "derived-clash", "invalid"}[r.IntN(7)]
	base := make([]string, n)
	for i := range base {
		base[i] = fmt.Sprintf("g%03d", i)
		if r.IntN(3) == 0 {
			base[i] = []string{"a", "b", "f", "i", "l", "A", "space", "fi", "f_i", "a.1", "uni0041"}[r.IntN(11)] + fmt.Sprint(i)
		}
	}
	base[0] = ".notdef"
	switch pattern {
	case "complete":
		copy(given, base)
	case "none":
	case "holes":
		for i := range given {
			if r.IntN(2) == 0 {
				given[i] = base[i]
			}
		}
	case "duplicates":
		for i := range given {
			given[i] = base[r.IntN(n)]
			if given[i] == ".notdef" && i != 0 && r.IntN(2) == 0 {
				given[i] = base[i]
			}
		}
	case "placeholder-clash":
		for i := range given {
			switch r.IntN(3) {
			case 0:
				given[i] = fmt.Sprintf("orn%03d", 1+r.IntN(n))
			case 1:
				given[i] = base[i]
			}
		}
	case "derived-clash":
		for i := range given {
			switch r.IntN(4) {
			case 0:
				given[i] = []string{"a", "f", "i", "f_i", "a.1", "f.1", "A", "space", "f_f_i", "a_b"}[r.IntN(10)]
			case 1:
				given[i] = base[i]
			}
		}
	case "invalid":
		for i := range given {
			switch r.IntN(3) {
			case 0:
				given[i] = []string{"1abc", "a b", "a/b", "(x)", "ä", strings.Repeat("x", 70), "a%b"}[r.IntN(7)]
			case 1:
				given[i] = base[i]
			}
		}
	}
	switch o := f.Outlines.(type) {
	case *cff.Outlines:
		if cidKeyed {
			for i := range given {
				given[i] = ""
			}
			pattern = "cid-keyed"
		}
		for i, g := range o.Glyphs {
			g.Name = given[i]
		}
	case *glyf.Outlines:
		switch {
		case pattern == "none":
			o.Names = nil
		case r.IntN(6) == 0 && n > 1:
			// a names list of the wrong length is ignored by the library
			o.Names = append([]string{}, given[:n-1]...)
			for i := range given {
				given[i] = ""
			}
			pattern = "short-list"
		case r.IntN(8) == 0:
			// ... also one that is longer than the glyph list
			o.Names = append([]string{}, given...)
			for i := 1 + r.IntN(3); i > 0; i-- {
				o.Names = append(o.Names, fmt.Sprintf("extra%d", i))
			}
			for i := range given {
				given[i] = ""
			}
			pattern = "long-list"
		default:
			o.Names = append([]string{}, given...)
		}
	}
	return given, pattern
}

func runC20(c *mon.Ctx) {
	c.Stratum("fonts", c.N(4000, 300000), func(k *mon.Case) {
		r := k.Rng
		kind := []string{"glyf", "cff", "cid"}[k.Index%3]
		o := fontgen.Opts{Kind: kind, MinGlyphs: 1, MaxGlyphs: 24, Plain: true, NoComposite: true, CMap: []string{"none", "4", "12", "4", "mac"}[r.IntN(5)]}
		// more than 999 glyphs: the numbered placeholders outgrow their three digits
		many := k.Index%97 == 5
		if many {
			o.MinGlyphs, o.MaxGlyphs = 1001, 1300
			if k.Index/97%2 == 0 {
				o.CMap = "none" // nothing but rules and placeholders
			}
		}
		var shape *c20shape
		build := func(rr *rand.Rand) (*sfnt.Font, *fontgen.Info, []string, string, []c20rule) {
			f, info := fontgen.Font(rr, o)
			n := f.NumGlyphs()
			given, pattern := c20names(rr, f, n, kind == "cid")
			if many && pattern != "cid-keyed" && pattern != "short-list" && pattern != "long-list" && pattern != "none" {
				// leave most glyphs unnamed
				for i := 1; i < n; i++ {
					if rr.IntN(50) != 0 {
						given[i] = ""
					}
				}
				switch oo := f.Outlines.(type) {
				case *cff.Outlines:
					for i, g := range oo.Glyphs {
						g.Name = given[i]
					}
				case *glyf.Outlines:
					oo.Names = append([]string{}, given...)
				}
			}
			var rules []c20rule
			if rr.IntN(4) != 0 {
				f.Gsub, rules, shape = c20gsub(rr, n)
			}
			return f, info, given, pattern, rules
		}
		seedA, seedB := r.Uint64(), r.Uint64()
		f, info, given, pattern, rules := build(rand.New(rand.NewPCG(seedA, seedB)))
		if shape == nil {
			shape = &c20shape{}
		}
		n := f.NumGlyphs()
		desc := fmt.Sprintf("kind=%s glyphs=%d cmap=%s pattern=%s given=%q rules=%v", kind, n, info.CMap, pattern, given, rules)
		if len(desc) > 900 {
			desc = desc[:900] + "…"
		}
		k.Distinct(kind, info.CMap, fmt.Sprint(given), fmt.Sprint(rules), fmt.Sprint(info.CodeToGID))
		k.Class("pattern=" + pattern)

		var list []string
		if k.Guard("MakeGlyphNames", func() { list = f.MakeGlyphNames() }) {
			return
		}
		k.Eval()
		if len(list) != n {
			k.Fail("mismatch", "length", "MakeGlyphNames returned %d names for %d glyphs (%s)", len(list), n, desc)
			return
		}
		seen := map[string]int{}
		for i, s := range list {
			if s == "" {
				k.Fail("mismatch", "empty-name", "glyph %d has an empty name; list=%q (%s)", i, list, desc)
				return
			}
			if j, dup := seen[s]; dup {
				k.Fail("mismatch", "duplicate-name", "glyphs %d and %d are both named %q; list=%q (%s)", j, i, s, list, desc)
				return
			}
			seen[s] = i
		}
		if list[0] != ".notdef" {
			k.Fail("mismatch", "notdef", "glyph 0 is named %q (%s)", list[0], desc)
			return
		}
		// existing unique names are kept
		cnt := map[string]int{}
		for _, s := range given {
			if s != "" {
				cnt[s]++
			}
		}
		keptGiven := make([]bool, n)
		for i, s := range given {
			if i == 0 {
				keptGiven[0] = true
				continue
			}
			if s != "" && cnt[s] == 1 && s != ".notdef" {
				keptGiven[i] = true
				if list[i] != s {
					k.Fail("mismatch", "unique-name-replaced", "glyph %d had the unique name %q, now %q; list=%q (%s)", i, s, list[i], list, desc)
					return
				}
				k.Class("source:given")
			}
		}
		// cmap-derivable names
		cand := make([]map[string]bool, n)
		for cde, g := range info.CodeToGID {
			if int(g) >= n {
				continue
			}
			if info.CMap == "4" && cde > 0xffff {
				continue
			}
			if cand[g] == nil {
				cand[g] = map[string]bool{}
			}
			cand[g][names.FromUnicode(string(cde))] = true
		}
		fromCmap := make([]bool, n)
		for i := 1; i < n; i++ {
			if given[i] != "" && list[i] == given[i] {
				continue // kept (first of duplicates, or unique)
			}
			if cand[i][list[i]] {
				fromCmap[i] = true
				k.Class("source:cmap")
				continue
			}
			for cname := range cand[i] {
				if _, taken := seen[cname]; !taken {
					k.Fail("mismatch", "cmap-name-skipped", "glyph %d is mapped from a code point whose glyph-list name %q is free, but got %q; list=%q (%s)", i, cname, list[i], list, desc)
					return
				}
			}
		}
		// substitution-derived names
		for i := 1; i < n; i++ {
			if (given[i] != "" && list[i] == given[i]) || fromCmap[i] {
				continue
			}
			namedEarly := func(g glyph.ID) bool { return keptGiven[g] || fromCmap[g] || (given[g] != "" && list[g] == given[g]) }
			var justified, demanded bool
			for _, ru := range rules {
				if int(ru.out) != i {
					continue
				}
				parts := make([]string, len(ru.in))
				early := true
				for j, g := range ru.in {
					parts[j] = list[g]
					early = early && namedEarly(g)
				}
				base := strings.Join(parts, "_")
				if list[i] == base || (strings.HasPrefix(list[i], base+".") && isDigits(list[i][len(base)+1:])) {
					justified = true
				}
				if early {
					demanded = true
				}
			}
			switch {
			case justified:
				if len(rules) > 0 {
					k.Class("source:substitution")
				}
			case ornRe.MatchString(list[i]):
				if demanded {
					k.Fail("mismatch", "gsub-name-skipped", "glyph %d is the target of a substitution from glyphs that were already named, but got the placeholder %q; list=%q (%s)", i, list[i], list, desc)
					return
				}
				k.Class("source:placeholder")
			default:
				// a name derived through a chain within the GSUB pass, or from a source
				// that was named during the pass: accept if it has the derived shape
				ok := false
				for _, ru := range rules {
					if int(ru.out) == i {
						ok = true
					}
				}
				if !ok && shape.otherOut[glyph.ID(i)] {
					// produced by a lookup of another type (2, 8): the property names variant and
					// ligature names only; a name derived there is recorded, not judged
					k.Class("source:other-lookup-type")
					continue
				}
				if !ok {
					k.Fail("mismatch", "unexplained-name", "glyph %d got the name %q which is neither given, nor a glyph-list name of a mapped code point, nor derived from a rule, nor a placeholder; list=%q (%s)", i, list[i], list, desc)
					return
				}
				// names never change once they are assigned, so whichever rule named
				// this glyph saw the final names of its inputs: the name must be
				// those names joined by "_" (ligature) or the input's name (variant),
				// with an optional ".<n>" to make it unique
				k.Fail("mismatch", "derived-name-matches-no-rule", "glyph %d got the name %q; no rule that produces it has inputs whose names give that name; list=%q (%s)", i, list[i], list, desc)
				return
			}
		}
		if shape.glyph0In {
			k.Class("gsub:glyph-0-as-input")
			for _, s := range list {
				if strings.HasPrefix(s, ".notdef.") || strings.HasPrefix(s, ".notdef_") || strings.Contains(s, "_.notdef") {
					k.Class("gsub:name-derived-from-.notdef")
					break
				}
			}
		}
		if shape.glyph0Out {
			k.Class("gsub:glyph-0-as-output")
		}
		if shape.multiSubtable {
			k.Class("gsub:several-subtables-per-lookup")
		}
		if shape.otherTypes {
			k.Class("gsub:other-lookup-types-mixed-in")
		}
		if shape.emptyLigIn {
			k.Class("gsub:ligature-of-one-glyph")
		}
		if shape.unlisted {
			k.Class("gsub:lookup-listed-by-no-feature")
		}
		if n > 1000 {
			k.Class("glyphs>1000")
			for _, s := range list {
				if ornRe.MatchString(s) && len(s) >= 7 {
					k.Class("placeholder:four-digits")
					break
				}
			}
		}
		targets := map[glyph.ID]int{}
		for _, ru := range rules {
			targets[ru.out]++
		}
		for _, cnt := range targets {
			if cnt > 1 {
				k.Class("two-rules-one-target")
				break
			}
		}
		// stability
		for rep := 0; rep < 12; rep++ {
			var again []string
			if k.Guard("MakeGlyphNames", func() { again = f.MakeGlyphNames() }) {
				return
			}
			k.Eval()
			if fmt.Sprint(again) != fmt.Sprint(list) {
				k.Fail("mismatch", "unstable-names", "two calls of MakeGlyphNames differ:\n %q\n %q (%s)", list, again, desc)
				return
			}
		}
		// installing
		f2, _, _, _, _ := build(rand.New(rand.NewPCG(seedA, seedB)))
		var installed []string
		if k.Guard("EnsureGlyphNames", func() {
			f2.EnsureGlyphNames()
			for i := 0; i < n; i++ {
				installed = append(installed, f2.GlyphName(glyph.ID(i)))
			}
		}) {
			return
		}
		k.Eval()
		if fmt.Sprint(installed) != fmt.Sprint(list) {
			k.Fail("mismatch", "ensure-differs", "after EnsureGlyphNames, GlyphName gives %q, MakeGlyphNames gave %q (%s)", installed, list, desc)
			return
		}
		// MakeSimple for CID-keyed fonts
		if kind == "cid" {
			f3, _, _, _, _ := build(rand.New(rand.NewPCG(seedA, seedB)))
			o3 := f3.Outlines.(*cff.Outlines)
			text := map[glyph.ID]string{}
			for cde, g := range info.CodeToGID {
				if r.IntN(2) == 0 {
					text[g] = string(cde)
				}
			}
			if r.IntN(3) == 0 {
				text = nil
			}
			if text != nil && n > 4 && r.IntN(3) == 0 {
				// several glyphs with the same text, whose derived name is
				// valid but close to the 31 characters a glyph name may have:
				// a suffix that tells the glyphs apart no longer fits
				long := []string{"\u4e00\u4e01\u4e02\u4e03\u4e04", "\U0001F600\U0001F601\U0001F602\U0001F603", "\u4e00\u4e01\u4e02\u4e03\U0001F600"}[r.IntN(3)]
				for j := 2 + r.IntN(3); j > 0; j-- {
					text[glyph.ID(1+r.IntN(n-1))] = long
				}
				k.Class("makesimple:long-text-shared-by-several-glyphs")
			}
			// some pre-existing names, valid and invalid
			pre := make([]string, n)
			for i := 1; i < n; i++ {
				switch r.IntN(6) {
				case 0:
					pre[i] = fmt.Sprintf("nm%d", r.IntN(n))
				case 1:
					pre[i] = "bad name"
				case 2:
					pre[i] = []string{".notdef", "orn001", "orn002", "space"}[r.IntN(4)]
				}
				o3.Glyphs[i].Name = pre[i]
			}
			if k.Guard("MakeSimple", func() { o3.MakeSimple(text) }) {
				return
			}
			k.Eval()
			seen := map[string]bool{}
			pc := map[string]int{}
			for _, s := range pre {
				pc[s]++
			}
			for i, g := range o3.Glyphs {
				switch {
				case g.Name == "" || !names.IsValid(g.Name):
					k.Fail("mismatch", "makesimple:invalid-name", "MakeSimple: glyph %d has the invalid name %q", i, g.Name)
					return
				case seen[g.Name]:
					k.Fail("mismatch", "makesimple:duplicate-name", "MakeSimple: name %q used twice", g.Name)
					return
				case i == 0 && g.Name != ".notdef":
					k.Fail("mismatch", "makesimple:notdef", "MakeSimple: glyph 0 is %q", g.Name)
					return
				case i > 0 && pre[i] != "" && names.IsValid(pre[i]) && pc[pre[i]] == 1 && pre[i] != ".notdef" && g.Name != pre[i]:
					k.Fail("mismatch", "makesimple:unique-name-replaced", "MakeSimple: glyph %d had the valid unique name %q, now %q", i, pre[i], g.Name)
					return
				}
				seen[g.Name] = true
			}
			if o3.ROS != nil || o3.GIDToCID != nil || len(o3.Encoding) != 256 {
				k.Fail("mismatch", "makesimple:still-cid-keyed", "MakeSimple left ROS=%v GIDToCID=%v len(Encoding)=%d", o3.ROS, o3.GIDToCID, len(o3.Encoding))
				return
			}
			k.Class("makesimple")
		}
		if k.Index < 3 {
			k.Sample(desc + fmt.Sprintf(" -> %q", list))
		}
	})

	// TrueType fonts as sfnt.Read returns them (the name list comes from the
	// post table: version 2, version 1 - the standard Macintosh list, whatever
	// the number of glyphs - or version 3 without names): the postconditions
	// hold, the names can be installed, and the standard names that other
	// fonts are given afterwards are still the standard names
	c.Stratum("names-from-files", c.N(360, 15000), func(k *mon.Case) {
		r := k.Rng
		o := fontgen.Opts{Kind: "glyf", MinGlyphs: 1, MaxGlyphs: 24, Plain: true, NoComposite: true, CMap: []string{"none", "4", "12", "4", "mac"}[r.IntN(5)]}
		switch k.Index / 3 % 8 {
		case 0:
			o.MinGlyphs, o.MaxGlyphs = 258, 258
		case 1:
			o.MinGlyphs, o.MaxGlyphs = 259, 300
		}
		f, info := fontgen.Font(r, o)
		n := f.NumGlyphs()
		_, pattern := c20names(r, f, n, false)
		if f.CreationTime.IsZero() && f.ModificationTime.IsZero() {
			f.ModificationTime = f.ModificationTime.AddDate(2001, 0, 0)
		}
		buf := &bytes.Buffer{}
		var werr error
		if k.Guard("Write", func() { _, werr = f.Write(buf) }) {
			return
		}
		if werr != nil {
			k.Skip("font cannot be written: " + werr.Error())
			return
		}
		data := buf.Bytes()
		version := []string{"2", "1", "3"}[k.Index%3]
		if version != "2" {
			wf, _ := sfntwalk.Walk(data)
			if wf == nil || wf.Get("post") == nil || len(wf.Get("post").Data) < 32 {
				k.Fail("mismatch", "harness:no-post-table", "the written font has no post table")
				return
			}
			tabs := map[string][]byte{}
			for _, t := range wf.Tables {
				if t.Data != nil {
					tabs[t.Tag] = t.Data
				}
			}
			pt := append([]byte(nil), wf.Get("post").Data[:32]...)
			copy(pt[0:4], map[string][]byte{"1": {0, 1, 0, 0}, "3": {0, 3, 0, 0}}[version])
			tabs["post"] = pt
			data = c02sfnt(wf.Scaler, tabs)
		}
		k.Input(data)
		var g *sfnt.Font
		var rerr error
		if k.Guard("sfnt.Read", func() { g, rerr = sfnt.Read(bytes.NewReader(data)) }) {
			return
		}
		if rerr != nil {
			k.Fail("mismatch", "names-from-files:read-error", "sfnt.Read rejects the font (post version %s): %v", version, rerr)
			return
		}
		desc := fmt.Sprintf("glyphs=%d cmap=%s pattern=%s post-version=%s", n, info.CMap, pattern, version)
		var list, installed []string
		if k.Guard("MakeGlyphNames+EnsureGlyphNames", func() {
			list = g.MakeGlyphNames()
			list = append([]string(nil), list...)
			g.EnsureGlyphNames()
			for i := 0; i < n; i++ {
				installed = append(installed, g.GlyphName(glyph.ID(i)))
			}
		}) {
			return
		}
		k.Eval()
		seen := map[string]bool{}
		for i, nm := range list {
			switch {
			case nm == "":
				k.Fail("mismatch", "empty-name", "glyph %d has an empty name (%s)", i, desc)
				return
			case seen[nm]:
				k.Fail("mismatch", "duplicate-name", "name %q used twice (%s)", nm, desc)
				return
			case i == 0 && nm != ".notdef":
				k.Fail("mismatch", "notdef", "glyph 0 is named %q (%s)", nm, desc)
				return
			}
			seen[nm] = true
		}
		if len(list) != n {
			k.Fail("mismatch", "length", "MakeGlyphNames returned %d names for %d glyphs (%s)", len(list), n, desc)
			return
		}
		if fmt.Sprint(installed) != fmt.Sprint(list) {
			k.Fail("mismatch", "ensure-differs", "after EnsureGlyphNames, GlyphName gives %q, MakeGlyphNames gave %q (%s)", installed, list, desc)
			return
		}
		// what the next fonts are given
		v1 := make([]byte, 32)
		v1[1] = 1
		v2 := &bw{}
		v2.u32(0x00020000, 0, 0, 0, 0, 0, 0, 0).u16(258)
		for i := 0; i < 258; i++ {
			v2.u16(i)
		}
		for name, tab := range map[string][]byte{"version 1": v1, "version 2": v2.b} {
			var pi *post.Info
			var perr error
			if k.Guard("post.Read", func() { pi, perr = post.Read(bytes.NewReader(tab)) }) {
				return
			}
			k.Eval()
			if perr != nil || len(pi.Names) != 258 {
				k.Fail("mismatch", "harness:standard-post-table", "post.Read of a %s table with the 258 standard names: %v", name, perr)
				return
			}
			for i, nm := range pi.Names {
				if nm != tabread.MacGlyphNames[i] {
					k.Fail("mismatch", "names-from-files:standard-names-changed", "after MakeGlyphNames/EnsureGlyphNames on a font read from a file (%s), a %s post table read next names standard glyph %d %q instead of %q", desc, name, i, nm, tabread.MacGlyphNames[i])
					return
				}
			}
		}
		k.Class("names-from-files:post-version-" + version)
		if n >= 258 {
			k.Class("names-from-files:>=258-glyphs")
		}
		k.Distinct("nff", k.Index)
	})
	c.Require("makesimple:long-text-shared-by-several-glyphs", "names-from-files:post-version-1", "names-from-files:post-version-2", "names-from-files:post-version-3", "names-from-files:>=258-glyphs")

	// PostScript names
	delims := []string{"(", ")", "<", ">", "[", "]", "{", "}", "/", "%", " ", "\t", "\n", "\x00", "\x7f"}
	c.Stratum("psname", c.N(20000, 2000000), func(k *mon.Case) {
		r := k.Rng
		var b []rune
		for n := r.IntN(12); n > 0; n-- {
			switch r.IntN(6) {
			case 0:
				b = append(b, []rune(delims[r.IntN(len(delims))])...)
			case 1:
				b = append(b, rune(r.IntN(0x80)))
			case 2:
				b = append(b, rune(r.IntN(0x3000)))
			case 3:
				b = append(b, rune(0x10000+r.IntN(0x10000)))
			default:
				b = append(b, rune('A'+r.IntN(26)))
			}
		}
		for i, ch := range b {
			if ch >= 0xd800 && ch < 0xe000 {
				b[i] = 'x'
			}
		}
		f := &sfnt.Font{FamilyName: string(b)}
		f.Width = os2.Width(r.IntN(11))
		f.Weight = os2.Weight(r.IntN(1100))
		if r.IntN(2) == 0 {
			f.Weight = os2.Weight(100 * r.IntN(11))
		}
		f.IsBold, f.IsItalic, f.IsOblique, f.IsRegular = r.IntN(2) == 0, r.IntN(2) == 0, r.IntN(2) == 0, r.IntN(2) == 0
		var ps string
		k.Distinct(f.FamilyName, f.Width, f.Weight, f.IsBold, f.IsItalic, f.IsOblique)
		if k.Guard("PostScriptName", func() { ps = f.PostScriptName() }) {
			return
		}
		k.Eval()
		for i := 0; i < len(ps); i++ {
			ch := ps[i]
			if ch < 33 || ch > 126 || strings.IndexByte("[](){}<>/%", ch) >= 0 {
				k.Fail("mismatch", "psname-forbidden-character", "PostScriptName() = %q contains the forbidden byte %#x (family %q, width %d, weight %d)", ps, ch, f.FamilyName, f.Width, f.Weight)
				return
			}
		}
		k.Class("psname")
		if k.Index < 2 {
			k.Sample(fmt.Sprintf("family %q -> %q", f.FamilyName, ps))
		}
	})
	c.Require("gsub:lookup-listed-by-no-feature", "pattern=complete", "pattern=none", "pattern=holes", "pattern=duplicates", "pattern=placeholder-clash", "pattern=derived-clash", "pattern=invalid", "pattern=cid-keyed", "pattern=short-list", "pattern=long-list",
		"gsub:glyph-0-as-input", "gsub:glyph-0-as-output", "gsub:name-derived-from-.notdef", "gsub:several-subtables-per-lookup", "gsub:other-lookup-types-mixed-in", "gsub:ligature-of-one-glyph",
		"glyphs>1000", "placeholder:four-digits",
		"source:given", "source:cmap", "source:substitution", "source:placeholder", "two-rules-one-target", "makesimple", "psname")
}

func isDigits(s string) bool {
	if s == "" {
		return false
	}
	for _, ch := range s {
		if ch < '0' || ch > '9' {
			return false
		}
	}
	return true
}
