package props

import (
	"bytes"
	"encoding/binary"
	"fmt"
	"math"
	"seehuhn.de/go/sfnt/hmtx"
	"seehuhn.de/go/sfnt/post"
	"sync"
	"time"

	"seehuhn.de/go/geom/rect"
	"seehuhn.de/go/postscript/funit"
	"seehuhn.de/go/sfnt/cff"
	"seehuhn.de/go/sfnt/glyf"
	"seehuhn.de/go/sfnt/glyph"

	"verif/harness/internal/gen/fontgen"
	"verif/harness/internal/mon"
	"verif/harness/internal/ref/glyfref"
	"verif/harness/internal/ref/sfntwalk"
)

// C12: metrics/header tables round-trip exactly; derived fields match their
// definitions; metric queries are consistent with outlines and each other.

func init() {
	mon.RegisterCfg("C12", mon.Config{
		Rule: "table strata: hmtx/hhea (all (n, constant-tail) with n<=40, random n, extremes), caret slopes, head, maxp, OS/2, post Info values through Encode/Decode with an independent reader as second opinion; font strata: generated fonts are written and the derived fields of hhea/head/OS2 in the written bytes are recomputed from their definitions by plain offset readers; the font's metric queries are compared with the outlines and with each other. distinct = distinct table values / written files (hash) Stratum tables-concurrent: eight goroutines encode tables of their own at the same time and get what they get alone.",
		Assumptions: []string{
			"TrueType glyph boxes are the stored glyph headers (the generator stores the true bounds of all points)",
			"OS/2 average width may use any rounding (within 1 of the exact mean)",
			"numberOfHMetrics may be any legal compression, not necessarily the shortest",
			"table level: advances of 0x8000..0xFFFF are unsigned numbers in the file format (uFWORD) and negative ones in the library's data model (hmtx.Info.Widths is []funit.Int16); they must survive the round trip bit for bit, but which 'maximum advance' hhea gets for such a vector is a limit of that data model and is recorded (hmtx:advance>=0x8000:...), not judged. The derived hhea fields are judged for all advances 0..32767, where both readings agree; a smallest right side bearing outside int16 cannot be stored and is not judged",
		},
	}, runC12)
}

func rdI16(b []byte, off int) int { return int(int16(binary.BigEndian.Uint16(b[off:]))) }
func rdU16(b []byte, off int) int { return int(binary.BigEndian.Uint16(b[off:])) }

// c12concurrent: encoders working on values of their own at the same time
// produce what they produce alone (tables are encoded by whoever writes a
// font; nothing in the values is shared).
func c12concurrent(c *mon.Ctx) {
	c.Stratum("tables-concurrent", c.N(24, 600), func(k *mon.Case) {
		r := k.Rng
		const G = 8
		type job struct {
			hm *hmtx.Info
			po *post.Info
		}
		jobs := make([][]job, G)
		for g := range jobs {
			for j := 0; j < 80; j++ {
				n := 1 + r.IntN(8)
				hm := &hmtx.Info{Widths: make([]funit.Int16, n), LSB: make([]funit.Int16, n),
					Ascent: funit.Int16(600 + r.IntN(400)), Descent: -funit.Int16(100 + r.IntN(300)), LineGap: funit.Int16(r.IntN(200)),
					CaretAngle: (r.Float64() - 0.5) * 1.2, CaretOffset: funit.Int16(r.IntN(50))}
				if r.IntN(6) == 0 {
					hm.CaretAngle = 0
				}
				for i := range hm.Widths {
					hm.Widths[i] = funit.Int16(r.IntN(2000))
					hm.LSB[i] = funit.Int16(r.IntN(200) - 100)
				}
				po := &post.Info{ItalicAngle: float64(r.IntN(4000)-2000) / 64, UnderlinePosition: -funit.Int16(r.IntN(200)), UnderlineThickness: funit.Int16(1 + r.IntN(100))}
				jobs[g] = append(jobs[g], job{hm, po})
			}
		}
		type res struct{ hhea, hmtx, post []byte }
		results := make([][]res, G)
		panics := make([]any, G)
		var wg sync.WaitGroup
		gate := make(chan struct{})
		for g := 0; g < G; g++ {
			wg.Add(1)
			go func(g int) {
				defer wg.Done()
				<-gate
				panics[g], _ = mon.Try(func() {
					for _, jb := range jobs[g] {
						hh, hm := jb.hm.Encode()
						results[g] = append(results[g], res{hh, hm, jb.po.Encode()})
					}
				})
			}(g)
		}
		close(gate)
		wg.Wait()
		for g := range jobs {
			if panics[g] != nil {
				k.Fail("panic", "concurrent:encode-panic:"+mon.PanicClass(panics[g]), "an encoder panicked while %d goroutines encoded tables of their own: %v", G, panics[g])
				return
			}
			for j, jb := range jobs[g] {
				hh, hm := jb.hm.Encode()
				po := jb.po.Encode()
				k.Eval()
				if j >= len(results[g]) || !bytes.Equal(hh, results[g][j].hhea) || !bytes.Equal(hm, results[g][j].hmtx) || !bytes.Equal(po, results[g][j].post) {
					k.Fail("mismatch", "concurrent:encode-result-differs", "goroutine %d, value %d: the tables encoded while %d goroutines were encoding differ from the tables encoded alone (caret angle %v, italic angle %v)", g, j, G, jb.hm.CaretAngle, jb.po.ItalicAngle)
					return
				}
			}
		}
		k.Class("tables-concurrent:compared")
		k.Distinct("tables-concurrent", k.Index)
	})
	c.Require("tables-concurrent:compared")
}

func runC12(c *mon.Ctx) {
	c12tables(c)
	c12concurrent(c)
	encodeAliasing(c, "tables", c.N(300, 20000), tableAliasEncoders)
	c.Stratum("fonts", c.N(900, 20000), func(k *mon.Case) {
		r := k.Rng
		o := fontgen.Opts{Kind: []string{"glyf", "cff", "cid"}[k.Index%3]}
		switch k.Index / 3 % 5 {
		case 0:
			o.MaxGlyphs = 3
		case 1:
			o.MinGlyphs, o.MaxGlyphs = 200, 300
		}
		if r.IntN(4) == 0 {
			o.FixedPitch = 2
		}
		f, info := fontgen.Font(r, o)
		if f.CreationTime.IsZero() && f.ModificationTime.IsZero() {
			f.ModificationTime = f.ModificationTime.AddDate(2001, 0, 0)
		}
		desc := fmt.Sprintf("kind=%s glyphs=%d cmap=%s", info.Kind, info.NGlyphs, info.CMap)
		n := f.NumGlyphs()
		if n > 2 && r.IntN(6) == 0 {
			// signed extremes: a glyph that lies entirely left of the origin and has
			// the widest possible advance (advance - xMax does not fit 16 bits),
			// and one far to the right with a zero advance
			switch o := f.Outlines.(type) {
			case *cff.Outlines:
				g := cff.NewGlyph(o.Glyphs[1].Name, 32767)
				g.MoveTo(-900, -20)
				g.LineTo(-150, 300)
				g.LineTo(-700, 500)
				o.Glyphs[1] = g
				g2 := cff.NewGlyph(o.Glyphs[2].Name, 0)
				g2.MoveTo(20000, 0)
				g2.LineTo(32000, 100)
				g2.LineTo(25000, 32000)
				o.Glyphs[2] = g2
			case *glyf.Outlines:
				sg := &glyfref.Simple{Contours: [][]glyfref.Point{{{X: -900, Y: -20, OnCurve: true}, {X: -150, Y: 300, OnCurve: true}, {X: -700, Y: 500, OnCurve: true}}}, Instructions: []byte{}}
				o.Glyphs[1] = &glyf.Glyph{Rect16: funit.Rect16{LLx: -900, LLy: -20, URx: -150, URy: 500}, Data: glyf.SimpleGlyph{NumContours: 1, Encoded: glyfref.Encode(sg, nil, nil)}}
				o.Widths[1] = 32767
				sg2 := &glyfref.Simple{Contours: [][]glyfref.Point{{{X: 20000, Y: 0, OnCurve: true}, {X: 32000, Y: 100, OnCurve: true}, {X: 25000, Y: 32000, OnCurve: true}}}, Instructions: []byte{}}
				o.Glyphs[2] = &glyf.Glyph{Rect16: funit.Rect16{LLx: 20000, LLy: 0, URx: 32000, URy: 32000}, Data: glyf.SimpleGlyph{NumContours: 1, Encoded: glyfref.Encode(sg2, nil, nil)}}
				o.Widths[2] = 0
			}
			k.Class("extreme-side-bearings")
		}

		if co, ok := f.Outlines.(*cff.Outlines); ok && r.IntN(4) == 0 {
			// pen moves that draw nothing are legal in a charstring and are
			// points of the glyph like any other for both kinds of boxes: a
			// trailing moveto beyond the drawn part, two movetos in a row,
			// a glyph that is a single moveto
			for i, g := range co.Glyphs {
				if i == 0 || r.IntN(3) != 0 {
					continue
				}
				// extremes of the drawn part; glyphs near the limits of the
				// coordinate range are left alone
				lo, hi := 0.0, 0.0
				for _, cmd := range g.Cmds {
					if cmd.Op == cff.OpMoveTo || cmd.Op == cff.OpLineTo || cmd.Op == cff.OpCurveTo {
						for _, a := range cmd.Args {
							lo, hi = math.Min(lo, a), math.Max(hi, a)
						}
					}
				}
				if lo < -8000 || hi > 8000 {
					continue
				}
				switch r.IntN(3) {
				case 0:
					g.Cmds = append(g.Cmds, cff.GlyphOp{Op: cff.OpMoveTo, Args: []float64{hi + float64(50+r.IntN(500)), lo - float64(50+r.IntN(300))}})
				case 1:
					g.Cmds = append([]cff.GlyphOp{{Op: cff.OpMoveTo, Args: []float64{lo - float64(50+r.IntN(300)), hi + float64(50+r.IntN(300))}}}, g.Cmds...)
				default:
					g.Cmds = []cff.GlyphOp{{Op: cff.OpMoveTo, Args: []float64{float64(r.IntN(900) - 300), float64(r.IntN(900) - 300)}}}
				}
				k.Class("cff:pen-move-without-segment")
			}
		}

		if co, ok := f.Outlines.(*cff.Outlines); ok && k.Index/3%4 == 1 && o.FixedPitch == 0 {
			// fonts constructed in memory can have fractional advance widths
			// (not in fonts whose widths are within two units of each other:
			// whether those are fixed-pitch is decided at the half unit)
			lo, hi := math.Inf(1), math.Inf(-1)
			for _, g := range co.Glyphs {
				if g.Width != 0 {
					lo, hi = math.Min(lo, g.Width), math.Max(hi, g.Width)
				}
			}
			for i, g := range co.Glyphs {
				if g.Width < 1 || g.Width >= 32000 || hi-lo < 2 {
					continue
				}
				switch k.Index / 12 % 3 {
				case 0: // every second glyph, mixed fractions
					if i%2 == 1 {
						g.Width += []float64{0.25, 0.5, 0.75}[i/2%3]
					}
				case 1: // all glyphs half a unit wider
					g.Width += 0.5
				default:
					g.Width += 0.75
				}
			}
		}

		// ---- queries against outlines and each other ----
		var boxes []funit.Rect16
		var widths, widthsPDF []float64
		var fbox funit.Rect16
		var fboxPDF rect.Rect
		var fixed bool
		if k.Guard("metric queries", func() {
			boxes = f.GlyphBBoxes()
			widths = f.Widths()
			widthsPDF = f.WidthsPDF()
			fbox = f.FontBBox()
			fboxPDF = f.FontBBoxPDF()
			fixed = f.IsFixedPitch()
		}) {
			return
		}
		k.Eval()
		if len(boxes) != n || len(widths) != n || len(widthsPDF) != n {
			k.Fail("mismatch", "query:length", "GlyphBBoxes/Widths/WidthsPDF have lengths %d/%d/%d for %d glyphs", len(boxes), len(widths), len(widthsPDF), n)
			return
		}
		var union funit.Rect16
		var unionPDF rect.Rect
		firstU, firstP := true, true
		minW, maxW := math.Inf(1), math.Inf(-1)
		for i := 0; i < n; i++ {
			gid := glyph.ID(i)
			if b := f.GlyphBBox(gid); b != boxes[i] {
				k.Fail("mismatch", "query:GlyphBBoxes-vs-GlyphBBox", "glyph %d: GlyphBBoxes()[i]=%v GlyphBBox(i)=%v (%s)", i, boxes[i], b, desc)
				return
			}
			if w := f.GlyphWidth(gid); w != widths[i] {
				k.Fail("mismatch", "query:Widths-vs-GlyphWidth", "glyph %d: Widths()[i]=%v GlyphWidth(i)=%v (%s)", i, widths[i], w, desc)
				return
			}
			if !boxes[i].IsZero() {
				if firstU {
					union, firstU = boxes[i], false
				} else {
					union.Extend(boxes[i])
				}
			}
			pb := f.Outlines.GlyphBBoxPDF(f.FontMatrix, gid)
			if !pb.IsZero() {
				if firstP {
					unionPDF, firstP = pb, false
				} else {
					unionPDF.Extend(pb)
				}
			}
			if widths[i] != 0 {
				minW, maxW = math.Min(minW, widths[i]), math.Max(maxW, widths[i])
			}
			// design units -> PDF units
			q := f.FontMatrix[0]
			if _, isGlyf := f.Outlines.(*glyf.Outlines); isGlyf {
				q = 1 / float64(f.UnitsPerEm)
			}
			if math.Abs(widthsPDF[i]-widths[i]*q) > 1e-9*math.Max(1, math.Abs(widths[i]*q)) {
				k.Fail("mismatch", "query:WidthsPDF", "glyph %d: WidthsPDF=%v but Widths*%v=%v (%s)", i, widthsPDF[i], q, widths[i]*q, desc)
				return
			}
			// GlyphWidthPDF is in glyph space units (1000 x text space); for
			// CID-keyed fonts it includes the font dictionary's matrix
			wantGW := widths[i] * q * 1000
			if co, ok := f.Outlines.(*cff.Outlines); ok && co.IsCIDKeyed() {
				wantGW *= co.FontMatrices[co.FDSelect(gid)][0]
			}
			if gw := f.GlyphWidthPDF(gid); math.Abs(gw-wantGW) > 1e-6*math.Max(1, math.Abs(wantGW)) {
				k.Fail("mismatch", "query:GlyphWidthPDF", "glyph %d: GlyphWidthPDF=%v, expected %v (%s)", i, gw, wantGW, desc)
				return
			}
		}
		if fbox != union {
			k.Fail("mismatch", "query:FontBBox", "FontBBox=%v, union of non-empty glyph boxes=%v (%s)", fbox, union, desc)
		}
		if fboxPDF != unionPDF {
			k.Fail("mismatch", "query:FontBBoxPDF", "FontBBoxPDF=%v, union of GlyphBBoxPDF=%v (%s)", fboxPDF, unionPDF, desc)
		}
		wantFixed := n > 0 && (math.IsInf(minW, 1) || maxW-minW < 0.5)
		if fixed != wantFixed {
			k.Fail("mismatch", "query:IsFixedPitch", "IsFixedPitch=%v but non-zero widths range over [%v,%v] (%s)", fixed, minW, maxW, desc)
		}
		k.Class(fmt.Sprintf("fixed-pitch=%v", fixed))
		// outline points vs boxes
		switch o := f.Outlines.(type) {
		case *cff.Outlines:
			for i, g := range o.Glyphs {
				var xs, ys []float64
				for _, cmd := range g.Cmds {
					switch cmd.Op {
					case cff.OpMoveTo, cff.OpLineTo:
						xs, ys = append(xs, cmd.Args[0]), append(ys, cmd.Args[1])
					case cff.OpCurveTo:
						xs, ys = append(xs, cmd.Args[4]), append(ys, cmd.Args[5])
					}
				}
				b := boxes[i]
				if len(xs) == 0 {
					if !b.IsZero() {
						k.Fail("mismatch", "query:bbox-of-blank-glyph", "blank glyph %d has box %v", i, b)
					}
					continue
				}
				mnx, mxx, mny, mxy := xs[0], xs[0], ys[0], ys[0]
				for j := range xs {
					mnx, mxx = math.Min(mnx, xs[j]), math.Max(mxx, xs[j])
					mny, mxy = math.Min(mny, ys[j]), math.Max(mxy, ys[j])
				}
				k.Eval()
				if float64(b.LLx) > mnx || float64(b.URx) < mxx || float64(b.LLy) > mny || float64(b.URy) < mxy {
					k.Fail("mismatch", "query:point-outside-bbox", "glyph %d: box %v does not contain end points [%v,%v]x[%v,%v] (%s)", i, b, mnx, mxx, mny, mxy, desc)
					return
				}
				// the same points in PDF glyph space (simple fonts with an
				// axis-parallel font matrix)
				if fm := f.FontMatrix; !o.IsCIDKeyed() && fm[1] == 0 && fm[2] == 0 && fm[0] > 0 && fm[3] > 0 {
					pb := o.GlyphBBoxPDF(fm, glyph.ID(i))
					tx, ty := fm[4]*1000, fm[5]*1000
					want := rect.Rect{LLx: mnx*fm[0]*1000 + tx, LLy: mny*fm[3]*1000 + ty, URx: mxx*fm[0]*1000 + tx, URy: mxy*fm[3]*1000 + ty}
					tol := 1e-6 * (1 + math.Abs(want.LLx) + math.Abs(want.URx) + math.Abs(want.LLy) + math.Abs(want.URy))
					if math.Abs(pb.LLx-want.LLx) > tol || math.Abs(pb.LLy-want.LLy) > tol || math.Abs(pb.URx-want.URx) > tol || math.Abs(pb.URy-want.URy) > tol {
						k.Fail("mismatch", "query:GlyphBBoxPDF-vs-points", "glyph %d: GlyphBBoxPDF=%v, the end points under the font matrix %v span %v (%s)", i, pb, fm, want, desc)
						return
					}
					k.Class("bbox-pdf-vs-points:cff")
				}
				if mnx-float64(b.LLx) >= 1 || float64(b.URx)-mxx >= 1 || mny-float64(b.LLy) >= 1 || float64(b.URy)-mxy >= 1 {
					k.Fail("mismatch", "query:bbox-not-tight", "glyph %d: box %v is more than one unit away from the extreme end points [%v,%v]x[%v,%v] (%s)", i, b, mnx, mxx, mny, mxy, desc)
					return
				}
			}
			k.Class("bbox-vs-points:cff")
		case *glyf.Outlines:
			for i, g := range o.Glyphs {
				if g == nil {
					continue
				}
				sg, ok := g.Data.(glyf.SimpleGlyph)
				if !ok {
					continue
				}
				ref, _, err := glyfref.Decode(int(sg.NumContours), sg.Encoded)
				if err != nil {
					continue
				}
				k.Eval()
				for _, cc := range ref.Contours {
					for _, p := range cc {
						if p.OnCurve && (int(p.X) < int(boxes[i].LLx) || int(p.X) > int(boxes[i].URx) || int(p.Y) < int(boxes[i].LLy) || int(p.Y) > int(boxes[i].URy)) {
							k.Fail("mismatch", "query:point-outside-bbox", "glyph %d: on-curve point (%d,%d) outside box %v (%s)", i, p.X, p.Y, boxes[i], desc)
							return
						}
					}
				}
			}
			k.Class("bbox-vs-points:glyf")
		}

		// ---- derived fields in the written file ----
		out, ok := writeFont(k, f, "Write(F)")
		if !ok {
			return
		}
		k.DistinctBytes(out)
		wf, _ := sfntwalk.Walk(out)
		if wf == nil {
			return
		}
		hhea, hmtx, headT, os2T := wf.Get("hhea"), wf.Get("hmtx"), wf.Get("head"), wf.Get("OS/2")
		if hhea == nil || hmtx == nil || headT == nil || os2T == nil || len(hhea.Data) < 36 || len(headT.Data) < 54 || len(os2T.Data) < 78 {
			k.Fail("mismatch", "derived:table-missing", "written file lacks hhea/hmtx/head/OS/2 (%s)", desc)
			return
		}
		k.Eval()
		iw := make([]int, n)
		for i, w := range widths {
			iw[i] = int(int16(w))
		}
		// hmtx as the spec reads it
		numH := rdU16(hhea.Data, 34)
		if numH < 1 || numH > n || len(hmtx.Data) != 4*numH+2*(n-numH) {
			k.Fail("mismatch", "derived:numberOfHMetrics", "numberOfHMetrics=%d, %d glyphs, hmtx has %d bytes (%s)", numH, n, len(hmtx.Data), desc)
			return
		}
		for i := 0; i < n; i++ {
			var adv, lsb int
			if i < numH {
				adv, lsb = rdU16(hmtx.Data, 4*i), rdI16(hmtx.Data, 4*i+2)
			} else {
				adv, lsb = rdU16(hmtx.Data, 4*(numH-1)), rdI16(hmtx.Data, 4*numH+2*(i-numH))
			}
			if widths[i] != math.Trunc(widths[i]) {
				// a fractional width (fonts constructed in memory): hmtx holds
				// one of the two neighbouring integers; the derived fields
				// below are judged against what hmtx says
				if math.Abs(float64(adv)-widths[i]) >= 1 {
					k.Fail("mismatch", "derived:hmtx-advance", "glyph %d: hmtx advance %d, font width %v (numberOfHMetrics=%d, %s)", i, adv, widths[i], numH, desc)
					return
				}
				iw[i] = adv
				k.Class("hmtx:fractional-width")
			} else if adv != iw[i] {
				k.Fail("mismatch", "derived:hmtx-advance", "glyph %d: hmtx advance %d, font width %d (numberOfHMetrics=%d, %s)", i, adv, iw[i], numH, desc)
				return
			}
			if lsb != int(boxes[i].LLx) {
				k.Fail("mismatch", "derived:hmtx-lsb", "glyph %d: hmtx lsb %d, glyph xMin %d (%s)", i, lsb, boxes[i].LLx, desc)
				return
			}
		}
		k.Class(fmt.Sprintf("hmtx-tail=%d", min(n-numH, 3)))
		maxAdv, minLsb, minRsb, maxExt := 0, 0, 0, 0
		first := true
		for i := 0; i < n; i++ {
			maxAdv = max(maxAdv, iw[i])
			if boxes[i].IsZero() {
				continue
			}
			l, rr, e := int(boxes[i].LLx), iw[i]-int(boxes[i].URx), int(boxes[i].URx)
			rr = max(-32768, min(32767, rr)) // the field is 16 bits wide
			if first {
				minLsb, minRsb, maxExt, first = l, rr, e, false
			} else {
				minLsb, minRsb, maxExt = min(minLsb, l), min(minRsb, rr), max(maxExt, e)
			}
		}
		for _, chk := range []struct {
			name      string
			got, want int
		}{
			{"advanceWidthMax", rdU16(hhea.Data, 10), maxAdv},
			{"minLeftSideBearing", rdI16(hhea.Data, 12), minLsb},
			{"minRightSideBearing", rdI16(hhea.Data, 14), minRsb},
			{"xMaxExtent", rdI16(hhea.Data, 16), maxExt},
			{"head.xMin", rdI16(headT.Data, 36), int(union.LLx)},
			{"head.yMin", rdI16(headT.Data, 38), int(union.LLy)},
			{"head.xMax", rdI16(headT.Data, 40), int(union.URx)},
			{"head.yMax", rdI16(headT.Data, 42), int(union.URy)},
			{"head.unitsPerEm", rdU16(headT.Data, 18), int(f.UnitsPerEm)},
		} {
			if chk.got != chk.want {
				k.Fail("mismatch", "derived:"+chk.name, "%s in the written file is %d, definition gives %d (%s)", chk.name, chk.got, chk.want, desc)
			}
		}
		// timestamps: seconds since the start of 1904, zero for "not recorded"
		for _, ts := range []struct {
			name string
			off  int
			t    time.Time
		}{{"head.created", 20, f.CreationTime}, {"head.modified", 28, f.ModificationTime}} {
			want := int64(0)
			if !ts.t.IsZero() {
				want = ts.t.Unix() + 2082844800
			}
			if got := int64(binary.BigEndian.Uint64(headT.Data[ts.off:])); got != want {
				k.Fail("mismatch", "derived:"+ts.name, "%s in the written file is %d, the font's timestamp %v is %d seconds after 1904-01-01 (%s)", ts.name, got, ts.t, want, desc)
			}
			k.Class(fmt.Sprintf("%s-unset=%v", ts.name, ts.t.IsZero()))
		}
		// average width
		sum, cnt := 0, 0
		for _, w := range iw {
			if w > 0 {
				sum += w
				cnt++
			}
		}
		if cnt > 0 {
			avg := rdI16(os2T.Data, 2)
			// the average of the non-zero advance widths in the file, as an
			// integer: rounded either way, it is less than one unit away
			if math.Abs(float64(avg)-float64(sum)/float64(cnt)) >= 1 {
				k.Fail("mismatch", "derived:xAvgCharWidth", "xAvgCharWidth=%d, mean of non-zero widths %.3f (%s)", avg, float64(sum)/float64(cnt), desc)
			}
		}
		// first / last character
		if len(info.CodeToGID) > 0 && info.CMap != "legacy" && f.CMapTable != nil {
			lo, hi := rune(0x7fffffff), rune(-1)
			for cde := range info.CodeToGID {
				lo, hi = min(lo, cde), max(hi, cde)
			}
			wl, wh := min(int(lo), 0xffff), min(int(hi), 0xffff)
			if gl, gh := rdU16(os2T.Data, 64), rdU16(os2T.Data, 66); gl != wl || gh != wh {
				k.Fail("mismatch", "derived:first-last-char", "usFirstCharIndex/usLastCharIndex = %#x/%#x, mapped code range is %#x..%#x (%s)", gl, gh, lo, hi, desc)
			}
			k.Class("first-last-char-checked")
		}
		k.Class("derived-fields:" + info.Kind)
		if k.Index < 3 {
			k.Sample(desc + fmt.Sprintf(" advanceWidthMax=%d numberOfHMetrics=%d", maxAdv, numH))
		}
	})
	c.Require("derived-fields:glyf", "derived-fields:cff", "derived-fields:cid", "fixed-pitch=true", "fixed-pitch=false", "first-last-char-checked", "bbox-vs-points:cff", "bbox-vs-points:glyf", "hmtx-tail=0", "hmtx-tail=3", "extreme-side-bearings", "head.modified-unset=true", "head.created-unset=true", "cff:pen-move-without-segment", "bbox-pdf-vs-points:cff", "hmtx:fractional-width")
}
