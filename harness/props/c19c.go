package props

import (
	"fmt"
	"math/rand/v2"
	"regexp"
	"runtime"
	"strings"

	"seehuhn.de/go/sfnt"
	"seehuhn.de/go/sfnt/opentype/gtab/testcases"

	"verif/harness/internal/mon"
)

// Part C of C19: Parse is total.

var c19tokenRe = regexp.MustCompile(`"(?:[^"\\\n]|\\.)*"|->|\|\||[A-Za-z._][A-Za-z0-9._]*|[-+]?[0-9]+|\n|[^\s]`)

// c19tokens splits a description into lexer-like tokens, keeping the
// whitespace that follows each token.
func c19tokens(s string) []string {
	locs := c19tokenRe.FindAllStringIndex(s, -1)
	var out []string
	for i, l := range locs {
		end := len(s)
		if i+1 < len(locs) {
			end = locs[i+1][0]
		}
		out = append(out, s[l[0]:end])
	}
	if len(locs) > 0 && locs[0][0] > 0 && len(out) > 0 {
		out[0] = s[:locs[0][0]] + out[0]
	}
	return out
}

var c19soup = []string{"GSUB1", "GSUB2", "GSUB3", "GSUB4", "GSUB5", "GSUB6", "GPOS1", "GPOS2", "GPOS3", "GPOS4", "GSUB7", "GPOS9",
	":", ":", "::", "-marks", "-ligs", "-base", "-lig", "-", "->", "->", ",", ";", "|", "||", "[", "]", "/", "@", "&", "=", "_",
	"A", "B", "C", "M", "N", "X", "Z", ".notdef", "nosuchglyph", "0", "1", "2", "17", "65535", "65536", "-1", "+5", "99999999999999999999",
	`"A"`, `"ABC"`, `"A\"B"`, `"\\"`, `""`, `"é"`, `"`, `"AB`, "class", "inputclass", "backtrackclass", "lookaheadclass", "first", "second", "to", "mark", "base",
	"x", "y", "dx", "dy", "x+1", "y-2", "dx+3", "# c", "\n", "\n", "\t", " ", "1@0", "2@1", ":a:", ":b:", "A-C", "C-A", "\x00", "é", "€", "\\", "'", "(", "{", "!", "~"}

// c19validDescriptions: the repository's own GSUB test descriptions plus
// examples of every GPOS form (font: A..Z with names and cmap).
var c19valid = func() []string {
	var out []string
	for _, c := range testcases.Gsub {
		out = append(out, c.Desc)
	}
	out = append(out,
		"GPOS1: [A B C] -> x+10 y-5 dx+3",
		"GPOS1: A -> x+1, B -> _, \"C\" -> dx-7 ||\n\t[D-F] -> y+2",
		"GPOS2: A B -> dx-30, \"AV\" -> dx-50 & x+5, A C -> _ & y+1",
		"GPOS2: -marks\n\t/A B C/\n\tfirst A, B C;\n\tsecond \"XY\", Z;\n\t_, dx-1, dx-2;\n\tdx-3, _ & x+1, dx-5;\n\tdx-6, dx-7, dx-8;",
		"GPOS3:\n\tA: 10,20 to 30,40;\n\tB: -1,-2 to 0,0",
		"GPOS4: -ligs\n\tmark M: 0 @ 10,20;\n\tmark N: 1 @ -5,0;\n\tbase A: @100,200 @300,400;\n\tbase B: @1,2 @3,4;",
		"GSUB5:\n\t\"AAA\" -> 1@0 2@1 1@0, \"AAB\" -> 1@0 1@1 2@0 ||\n\tclass :alpha: = [A-K]\n\tclass :digits: = [L-Z]\n\t/A B C/ :alpha: :digits: -> 2@1, :alpha: :: :digits: -> 2@2 ||\n\t[A B C] [A C] [A D] -> 3@0",
		"GSUB6:\n\tA B | C D | E F -> 1@0 2@1, B | C D E | F -> 1@2 ||\n\tinputclass :ABC: = [\"ABC\"]\n\tbacktrackclass :DEF: = [\"DEF\"]\n\tlookaheadclass :DEF: = [\"DEF\"]\n\t/A B C/ :DEF: :: | :ABC: | :: :DEF: -> 1@0 ||\n\t[A] [A B C] | [A B] [A C] [B C] | [A B C] [A B C] -> 1@0 1@1 1@2",
		"GSUB1: A-C -> B-D, M->N, N->O # comment\nGSUB2: A -> \"AA\", B -> \"AA\", C -> \"ABAAC\"\nGSUB3: A -> [ \"BCD\" ]\nGSUB4: -marks A A A -> B, A -> D, A A -> C",
	)
	return out
}()

func c19randomText(r *rand.Rand, mode int) (string, string) {
	pick := func() string { return c19valid[r.IntN(len(c19valid))] }
	switch mode {
	case 0: // random bytes
		b := make([]byte, r.IntN(200))
		for i := range b {
			b[i] = byte(r.IntN(256))
		}
		return string(b), "random-bytes"
	case 1: // random runes from the lexer's alphabet and beyond
		alpha := []rune("GSUBPOS123456:->,;|[]/@&=_\"\\# \n\tABCMNXabcxyd+-0789.é€\x00  ")
		rs := make([]rune, r.IntN(120))
		for i := range rs {
			rs[i] = alpha[r.IntN(len(alpha))]
		}
		return string(rs), "random-runes"
	case 2: // token soup
		var b strings.Builder
		for i, n := 0, r.IntN(60); i < n; i++ {
			b.WriteString(c19soup[r.IntN(len(c19soup))])
			if r.IntN(4) != 0 {
				b.WriteByte(' ')
			}
		}
		return b.String(), "token-soup"
	case 3: // lookup keyword followed by a soup: gets deep into the parser
		var b strings.Builder
		b.WriteString(c19soup[r.IntN(10)] + ": ")
		for i, n := 0, r.IntN(25); i < n; i++ {
			b.WriteString(c19soup[12+r.IntN(len(c19soup)-12)] + " ")
		}
		return b.String(), "keyword-soup"
	case 4: // unterminated string at every kind of place
		s := pick()
		cut := r.IntN(len(s) + 1)
		return s[:cut] + `"AB` + []string{"", "\n", "\\", "\\\"", " C"}[r.IntN(5)], "unterminated-string"
	case 5: // a string with an unmapped character at some position
		n := 1 + r.IntN(6)
		rs := []rune(strings.Repeat("A", n))
		rs[r.IntN(n)] = []rune{'é', '1', ' ', 'a', '€', '\\'}[r.IntN(6)]
		lit := c19quote(rs)
		tmpl := []string{"GSUB1: %s -> B", "GSUB2: A -> %s", "GSUB3: A -> [%s]", "GSUB4: %s -> B", "GSUB5: %s -> 1@0", "GSUB5: [%s] -> 1@0",
			"GSUB6: %s | A | B -> 1@0", "GSUB6: A | B | %s -> 1@0", "GSUB5:\n\tclass :a: = [%s]\n\t/A/ :a: -> 1@0", "GPOS1: [%s] -> x+1", "GPOS1: %s -> x+1",
			"GPOS2: %s -> dx+1", "GPOS2:\n\t/%s/\n\tfirst A;\n\tsecond B;\n\t_, _;\n\t_, _;", "GPOS3: %s: 1,2 to 3,4", "GPOS4: mark %s: 0 @ 1,2;", "GSUB1: A-%s -> B"}
		return fmt.Sprintf(tmpl[r.IntN(len(tmpl))], lit), "unmapped-character"
	case 6: // truncation of a valid description at an arbitrary byte
		s := pick()
		return s[:r.IntN(len(s)+1)], "truncated"
	case 7: // very long input
		switch r.IntN(4) {
		case 0:
			return "GSUB2: A -> " + strings.Repeat("B ", 20000+r.IntN(20000)), "very-long-line"
		case 1:
			return "GSUB1: A -> " + strings.Repeat("\"BCD\" ", 5000) + "\"B€\"", "very-long-line"
		case 2:
			return strings.Repeat("GSUB1: A -> B\n", 3000) + "GSUB1: A ->", "very-long-line"
		default:
			return "GSUB5: " + strings.Repeat("[A B C] ", 3000) + "-> " + strings.Repeat("1@0 ", 3000) + "x", "very-long-line"
		}
	default: // a valid description
		return pick(), "valid"
	}
}

// c19mutation i of description d: single-token deletion, duplication or replacement.
func c19mutations(d string) int { return 3 * len(c19tokens(d)) }

func c19mutate(r *rand.Rand, d string, i int) string {
	toks := c19tokens(d)
	pos, op := i/3, i%3
	out := append([]string{}, toks[:pos]...)
	switch op {
	case 0: // delete
	case 1: // duplicate
		out = append(out, toks[pos], toks[pos])
	default: // replace
		out = append(out, c19soup[r.IntN(len(c19soup))]+" ")
	}
	out = append(out, toks[pos+1:]...)
	return strings.Join(out, "")
}

func c19totality(c *mon.Ctx) {
	procs := []int{1, 2, 4, 16}
	fonts := func(k *mon.Case) (*sfnt.Font, string) {
		switch k.Rng.IntN(6) {
		case 0:
			ft := c19makeFont(k.Rng, 30, c19cmapOnly, false)
			return ft.f, "cmap-only"
		case 1:
			ft := c19makeFont(k.Rng, 30, c19namesOnly, false)
			return ft.f, "names-only"
		}
		return c19stdFont(), "std"
	}
	judge := func(k *mon.Case, f *sfnt.Font, text, class string) {
		p := procs[k.Index%4]
		old := runtime.GOMAXPROCS(p)
		defer runtime.GOMAXPROCS(old)
		ll, err, ok := c19parse(k, f, text, class)
		if !ok {
			return
		}
		k.Class(fmt.Sprintf("gomaxprocs:%d", p))
		k.Class("text:" + class)
		if err != nil {
			c19errorLine(k, text, err, class)
			k.Class("outcome:error")
			k.Class("error:" + c19errClass(err))
		} else {
			k.Class("outcome:lookups")
			for _, l := range ll {
				if l == nil || l.Meta == nil {
					k.Fail("mismatch", "c19:nil-lookup-returned", "Parse returned a nil lookup without an error")
					break
				}
			}
		}
		if len(text) < 4096 {
			k.DistinctBytes([]byte(text))
		}
	}

	c.Stratum("totality", c.N(16000, 720000), func(k *mon.Case) {
		f, _ := fonts(k)
		text, class := c19randomText(k.Rng, (k.Index/4)%9)
		judge(k, f, text, class)
	})

	// every single-token mutation of every valid description
	total := 0
	var starts []int
	for _, d := range c19valid {
		starts = append(starts, total)
		total += c19mutations(d)
	}
	c.Note("single-token mutations of %d valid descriptions: %d", len(c19valid), total)
	reps := c.N(1, 8)
	c.Stratum("mutations", total*reps, func(k *mon.Case) {
		i := k.Index % total
		d := 0
		for d+1 < len(starts) && starts[d+1] <= i {
			d++
		}
		text := c19mutate(k.Rng, c19valid[d], i-starts[d])
		f := c19stdFont()
		if k.Index >= total && k.Rng.IntN(3) == 0 {
			f, _ = fonts(k)
		}
		judge(k, f, text, []string{"mutation-delete", "mutation-duplicate", "mutation-replace"}[(i-starts[d])%3])
	})
}
