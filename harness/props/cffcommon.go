package props

import (
	"bytes"
	"fmt"
	"math"
	"strings"

	"golang.org/x/image/font/sfnt"
	"golang.org/x/image/math/fixed"

	"seehuhn.de/go/sfnt/cff"

	"verif/harness/internal/mon"
	"verif/harness/internal/ref/cffmini"
	"verif/harness/internal/ref/t2interp"
)

// helpers shared by the CFF monitors C04, C05 and C13

const cffTol16 = 1.0 / 65536

// cffOpsString renders library glyph commands.
func cffOpsString(cmds []cff.GlyphOp, limit int) string {
	var b strings.Builder
	for i, c := range cmds {
		if i >= limit {
			fmt.Fprintf(&b, " …(%d more)", len(cmds)-i)
			break
		}
		fmt.Fprintf(&b, " %v%v", c.Op, c.Args)
	}
	return b.String()
}

func cffInterpString(ops []t2interp.PathOp, limit int) string {
	var b strings.Builder
	for i, c := range ops {
		if i >= limit {
			fmt.Fprintf(&b, " …(%d more)", len(ops)-i)
			break
		}
		b.WriteString(" " + c.String())
	}
	return b.String()
}

// cffCompareOps compares library-side commands (absolute float64
// coordinates) with interpreted commands.  It returns "" if they agree: same
// operation sequence, every coordinate within tol, masks equal.
func cffCompareOps(src []cff.GlyphOp, got []t2interp.PathOp, tol float64) string {
	if len(src) != len(got) {
		return fmt.Sprintf("%d commands vs %d", len(src), len(got))
	}
	for i, s := range src {
		g := got[i]
		var kind t2interp.Kind
		nPts := 0
		switch s.Op {
		case cff.OpMoveTo:
			kind, nPts = t2interp.MoveTo, 1
		case cff.OpLineTo:
			kind, nPts = t2interp.LineTo, 1
		case cff.OpCurveTo:
			kind, nPts = t2interp.CurveTo, 3
		case cff.OpHintMask:
			kind = t2interp.HintMask
		case cff.OpCntrMask:
			kind = t2interp.CntrMask
		default:
			return fmt.Sprintf("command %d: unknown op %v", i, s.Op)
		}
		if kind != g.Kind {
			return fmt.Sprintf("command %d: %v vs %v", i, s.Op, g.Kind)
		}
		if nPts > 0 {
			if len(s.Args) != 2*nPts {
				return fmt.Sprintf("command %d: %v with %d arguments", i, s.Op, len(s.Args))
			}
			for j := 0; j < nPts; j++ {
				dx := math.Abs(s.Args[2*j] - g.X[j].Float())
				dy := math.Abs(s.Args[2*j+1] - g.Y[j].Float())
				if !(dx <= tol) || !(dy <= tol) {
					return fmt.Sprintf("command %d (%v) point %d: (%v,%v) vs (%v,%v), off by (%.3g,%.3g)", i, s.Op, j,
						s.Args[2*j], s.Args[2*j+1], g.X[j].Float(), g.Y[j].Float(), dx, dy)
				}
			}
		} else {
			if len(s.Args) != len(g.Mask) {
				return fmt.Sprintf("command %d (%v): mask of %d bytes vs %d", i, s.Op, len(s.Args), len(g.Mask))
			}
			for j, a := range s.Args {
				if a != float64(g.Mask[j]) {
					return fmt.Sprintf("command %d (%v): mask byte %d is %v vs %#x", i, s.Op, j, a, g.Mask[j])
				}
			}
		}
	}
	return ""
}

// cffCompareStems compares stem edge lists.
func cffCompareStems(src []float64, got []t2interp.Fix, tol float64) string {
	if len(src) != len(got) {
		return fmt.Sprintf("%d edges vs %d", len(src), len(got))
	}
	for i := range src {
		if !(math.Abs(src[i]-got[i].Float()) <= tol) {
			return fmt.Sprintf("edge %d: %v vs %v", i, src[i], got[i].Float())
		}
	}
	return ""
}

func cffCompareFloats(a, b []float64, tol float64) string {
	if len(a) != len(b) {
		return fmt.Sprintf("%d values vs %d", len(a), len(b))
	}
	for i := range a {
		if !(math.Abs(a[i]-b[i]) <= tol) {
			return fmt.Sprintf("value %d: %v vs %v", i, a[i], b[i])
		}
	}
	return ""
}

// cffCompareGlyphs compares two library glyphs (ops, stems, width).
func cffCompareLibGlyphs(a, b *cff.Glyph, tol float64) string {
	if len(a.Cmds) != len(b.Cmds) {
		return fmt.Sprintf("%d commands vs %d", len(a.Cmds), len(b.Cmds))
	}
	for i := range a.Cmds {
		if a.Cmds[i].Op != b.Cmds[i].Op {
			return fmt.Sprintf("command %d: %v vs %v", i, a.Cmds[i].Op, b.Cmds[i].Op)
		}
		if d := cffCompareFloats(a.Cmds[i].Args, b.Cmds[i].Args, tol); d != "" {
			return fmt.Sprintf("command %d (%v): %s", i, a.Cmds[i].Op, d)
		}
	}
	if d := cffCompareFloats(a.HStem, b.HStem, tol); d != "" {
		return "hstem: " + d
	}
	if d := cffCompareFloats(a.VStem, b.VStem, tol); d != "" {
		return "vstem: " + d
	}
	if !(math.Abs(a.Width-b.Width) <= tol) {
		return fmt.Sprintf("width %v vs %v", a.Width, b.Width)
	}
	return ""
}

// cffReadGuard calls cff.Read under the panic guard.
func cffReadGuard(k *mon.Case, data []byte) (f *cff.Font, err error, panicked bool) {
	panicked = k.Guard("cff.Read", func() { f, err = cff.Read(bytes.NewReader(data)) })
	return
}

// ximageSegs loads glyph gid with golang.org/x/image at scale 1 and returns
// the segments in font units (y up).  unsupported=true means x/image
// declines the font or glyph (never a disagreement).
type xiSeg struct {
	Op   int // 0 move, 1 line, 3 cube
	X, Y [3]int
}

func ximageParse(cffData []byte, nGlyphs int) (*sfnt.Font, error) {
	return sfnt.Parse(cffmini.WrapOTF(cffData, nGlyphs, 1000))
}

func ximageSegs(f *sfnt.Font, buf *sfnt.Buffer, gid int) ([]xiSeg, error) {
	segs, err := f.LoadGlyph(buf, sfnt.GlyphIndex(gid), fixed.Int26_6(1000), nil)
	if err != nil {
		return nil, err
	}
	out := make([]xiSeg, len(segs))
	for i, s := range segs {
		switch s.Op {
		case sfnt.SegmentOpMoveTo:
			out[i].Op = 0
		case sfnt.SegmentOpLineTo:
			out[i].Op = 1
		case sfnt.SegmentOpCubeTo:
			out[i].Op = 3
		default:
			out[i].Op = -1
		}
		for j := 0; j < 3; j++ {
			out[i].X[j] = int(s.Args[j].X)
			out[i].Y[j] = -int(s.Args[j].Y)
		}
	}
	return out, nil
}

// xiExpected converts interpreted path ops (integer coordinates) into the
// segment list x/image produces: masks dropped, open subpaths closed with a
// line back to their start.  ok=false if a coordinate is not an integer.
func xiExpected(ops []t2interp.PathOp) (out []xiSeg, ok bool) {
	var cx, cy, sx, sy int
	open := false
	toInt := func(v t2interp.Fix) (int, bool) { return int(v >> 16), v%t2interp.One == 0 }
	closePath := func() {
		if open && (cx != sx || cy != sy) {
			out = append(out, xiSeg{Op: 1, X: [3]int{sx}, Y: [3]int{sy}})
		}
	}
	for _, op := range ops {
		var s xiSeg
		n := 0
		switch op.Kind {
		case t2interp.MoveTo:
			closePath()
			s.Op, n = 0, 1
		case t2interp.LineTo:
			s.Op, n = 1, 1
		case t2interp.CurveTo:
			s.Op, n = 3, 3
		default:
			continue
		}
		for j := 0; j < n; j++ {
			var okx, oky bool
			s.X[j], okx = toInt(op.X[j])
			s.Y[j], oky = toInt(op.Y[j])
			if !okx || !oky {
				return nil, false
			}
		}
		cx, cy = s.X[n-1], s.Y[n-1]
		if op.Kind == t2interp.MoveTo {
			sx, sy = cx, cy
			open = true
		}
		out = append(out, s)
	}
	closePath()
	return out, true
}

func xiEqual(a, b []xiSeg) bool {
	if len(a) != len(b) {
		return false
	}
	for i := range a {
		if a[i] != b[i] {
			return false
		}
	}
	return true
}

func isUnsupportedXimage(err error) bool {
	return err != nil && strings.Contains(err.Error(), "unsupported")
}
