package props

import (
	"fmt"

	"seehuhn.de/go/sfnt/glyph"
	"seehuhn.de/go/sfnt/opentype/coverage"
	"seehuhn.de/go/sfnt/opentype/gtab"

	"verif/harness/internal/mon"
)

// c07longHistory: one Context (and one Layouter-like use: thousands of lines)
// shapes line after line; every result is what a new Context gives.  The
// number of subtable attempts summed over the history passes 2^22 and 2^23,
// so that a budget or counter of that size which is kept across calls shows.
func c07longHistory(c *mon.Ctx) {
	c.Stratum("long-history", c.N(4, 16), func(k *mon.Case) {
		r := k.Rng
		nsub := 8 + 8*(k.Index%2)
		single := &gtab.LookupTable{Meta: &gtab.LookupMetaInfo{LookupType: 1}}
		for i := 0; i < nsub; i++ {
			cov := coverage.Set{glyph.ID(1000 + i): true}
			if i == nsub-1 {
				cov = coverage.Set{5: true, 6: true}
			}
			single.Subtables = append(single.Subtables, &gtab.Gsub1_1{Cov: cov, Delta: 20})
		}
		lig := &gtab.LookupTable{Meta: &gtab.LookupMetaInfo{LookupType: 4}, Subtables: []gtab.Subtable{
			&gtab.Gsub4_1{Cov: coverage.Table{7: 0}, Repl: [][]gtab.Ligature{{{In: []glyph.ID{8}, Out: 9}}}},
		}}
		ll := gtab.LookupList{single, lig}
		lookups := []gtab.LookupIndex{0, 1}
		lineLen := 100 + r.IntN(100)
		mkLine := func(i int) []glyph.Info {
			seq := make([]glyph.Info, lineLen)
			for j := range seq {
				g := glyph.ID(10 + (i+j)%7)
				switch (i*31 + j) % 11 {
				case 0:
					g = 5
				case 1:
					g = 7
				case 2:
					g = 8
				}
				seq[j] = glyph.Info{GID: g, Text: []rune{rune('a' + j%26)}}
			}
			return seq
		}
		var ctx *gtab.Context
		if k.Guard("NewContext", func() { ctx = gtab.NewContext(ll, nil, lookups) }) {
			return
		}
		attempts := 0
		target := (3 + 2*(k.Index%2)) << 21 // 1.5 x 2^22 and 2.5 x 2^22
		compared := 0
		for i := 0; attempts < target; i++ {
			in := mkLine(i)
			var out []glyph.Info
			if k.Guard("Context.Apply", func() { out = c06copy(ctx.Apply(c06copy(in))) }) {
				return
			}
			attempts += lineLen * (nsub + 1)
			// compare at the powers of two and now and then in between
			if i%257 == 0 || attempts&(attempts-1) < lineLen*(nsub+1) || attempts >= target {
				var fresh []glyph.Info
				if k.Guard("Context.Apply (new context)", func() { fresh = c06copy(gtab.NewContext(ll, nil, lookups).Apply(c06copy(in))) }) {
					return
				}
				k.Eval()
				compared++
				if f := c06diff(out, fresh); f != "" {
					k.Fail("mismatch", "history:long-lived-context-differs-from-fresh", "line %d (after about %d subtable attempts on this context) differs (%s) from what a new context gives\nre-used %s\nnew     %s",
						i+1, attempts, f, c06fmtRun(out[:min(len(out), 24)]), c06fmtRun(fresh[:min(len(fresh), 24)]))
					return
				}
			}
		}
		k.Max("long-history:subtable-attempts-on-one-context", float64(attempts))
		k.Class(fmt.Sprintf("long-history:%d-x-2^21-subtable-attempts", 3+2*(k.Index%2)))
		k.Distinct("long-history", k.Index)
		_ = compared
	})
	c.Require("long-history:3-x-2^21-subtable-attempts", "long-history:5-x-2^21-subtable-attempts")
}
