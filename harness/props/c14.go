package props

import (
	"bytes"
	"encoding/binary"
	"fmt"
	"math/rand/v2"
	"sort"
	"strings"
	"unicode/utf16"
	"unicode/utf8"

	ximage "golang.org/x/image/font/sfnt"
	"golang.org/x/text/language"

	"seehuhn.de/go/postscript/funit"
	"seehuhn.de/go/sfnt/mac"
	"seehuhn.de/go/sfnt/name"
	"seehuhn.de/go/sfnt/opentype/gtab"
	"seehuhn.de/go/sfnt/post"

	"verif/harness/internal/hooks"
	"verif/harness/internal/mon"
	"verif/harness/internal/ref/tabread"
)

// C14: names, glyph names and language tags survive their encodings.

func init() {
	mon.RegisterCfg("C14", mon.Config{
		Rule: "name.Info values (subsets of the library's Macintosh and Windows language tables, every language reached; the 25 named ids, id 15, extra ids up to 65535; strings empty/ASCII/BMP/astral/long, Mac strings over the Mac OS Roman repertoire) are encoded, parsed by the spec-derived reader tabread (record order, offsets, UTF-16BE by the standard library, own Mac OS Roman table) and by x/image, and decoded again; mac.Encode/Decode are checked for inversion on all bytes, random byte strings and random repertoire strings; for every script of the library's OpenType tag tables a spec-side GSUB table holding that script with every language tag (and the default language system) is read, the BCP 47 tags obtained are encoded again and the bytes parsed independently; post tables with nil / standard / permuted / subset / custom / duplicate name lists of 1..65535 glyphs are encoded, read back, parsed by tabread and by x/image. distinct = distinct encoded tables (hash)",
		Assumptions: []string{
			"empty strings are 'absent' on both sides; at most 5000 name records; total string storage <= 65535 bytes in the main cases, two long strings (storage up to 128 KiB, every offset below 65536) in the large-storage cases; tables in which a string would start beyond offset 65535 cannot be expressed by the format: there a refusal is accepted and a table that decodes to other strings is not",
			"the Mac OS Roman repertoire is the one of Apple's ROMAN.TXT (own table, cross-checked against golang.org/x/text)",
			"Windows strings are valid Unicode (no lone surrogates); windowsEncodingID is 1 (the only one name.Decode understands)",
			"glyph names are 0..255 bytes (one list in six uses the empty string as a custom name: a Pascal string of length 0); at most 65277 non-standard entries (glyphNameIndex is 16 bit)",
			"a name.Table.Extra entry for an id that has a field of its own is a second home for one name id; the property does not say which one counts. Stratum name-extra-clash records what is written (classes name-extra-clash:field-set/field-empty:...) and judges only panics and the strings of all other ids",
			"x/image: Name() does not decode surrogate pairs and GlyphName() rejects indices above 32767; such witnesses skip the x/image comparison",
		},
	}, runC14)
}

// the name ids with a field of their own, by the specification's meaning
func c14named(t *name.Table) map[uint16]*string {
	return map[uint16]*string{
		0: &t.Copyright, 1: &t.Family, 2: &t.Subfamily, 3: &t.Identifier, 4: &t.FullName,
		5: &t.Version, 6: &t.PostScriptName, 7: &t.Trademark, 8: &t.Manufacturer, 9: &t.Designer,
		10: &t.Description, 11: &t.VendorURL, 12: &t.DesignerURL, 13: &t.License, 14: &t.LicenseURL,
		16: &t.TypographicFamily, 17: &t.TypographicSubfamily, 18: &t.MacFullName, 19: &t.SampleText,
		20: &t.CIDFontName, 21: &t.WWSFamily, 22: &t.WWSSubfamily, 23: &t.LightBackgroundPalette,
		24: &t.DarkBackgroundPalette, 25: &t.VariationsPostScriptName,
	}
}

// c14flatten lists the non-empty strings of a table by name id.
func c14flatten(t *name.Table) map[uint16]string {
	out := map[uint16]string{}
	if t == nil {
		return out
	}
	for id, p := range c14named(t) {
		if *p != "" {
			out[id] = *p
		}
	}
	for id, s := range t.Extra {
		if s != "" {
			out[uint16(id)] = s
		}
	}
	return out
}

type c14langs struct {
	ids  []uint16            // sorted
	tag  map[uint16]string   // id -> tag
	back map[string][]uint16 // tag -> ids
	tags []string            // sorted distinct tags
}

func c14langTable(m map[uint16]string) *c14langs {
	l := &c14langs{tag: m, back: map[string][]uint16{}}
	for id := range m {
		l.ids = append(l.ids, id)
	}
	sort.Slice(l.ids, func(i, j int) bool { return l.ids[i] < l.ids[j] })
	for _, id := range l.ids {
		if _, ok := l.back[m[id]]; !ok {
			l.tags = append(l.tags, m[id])
		}
		l.back[m[id]] = append(l.back[m[id]], id)
	}
	sort.Strings(l.tags)
	return l
}

var c14macRepertoire = func() []rune {
	out := make([]rune, 256)
	for i := range out {
		out[i] = tabread.MacRomanRune(byte(i))
	}
	return out
}()

// c14string generates a string of at most maxUnits code units (bytes for the
// Macintosh platform, UTF-16 units for Windows).
func c14string(r *rand.Rand, macPlatform bool, maxUnits int) (s string, class string) {
	if maxUnits <= 0 {
		return "", "empty"
	}
	n := 1 + r.IntN(24)
	kind := r.IntN(10)
	if kind == 9 && r.IntN(4) == 0 {
		n = 200 + r.IntN(3000)
	}
	if n > maxUnits {
		n = maxUnits
	}
	var b strings.Builder
	if macPlatform {
		switch {
		case kind == 0:
			return "", "empty"
		case kind < 4:
			for i := 0; i < n; i++ {
				b.WriteByte(byte(0x20 + r.IntN(0x5F)))
			}
			return b.String(), "ascii"
		default:
			for i := 0; i < n; i++ {
				b.WriteRune(c14macRepertoire[r.IntN(256)])
			}
			return b.String(), "mac-repertoire"
		}
	}
	units := 0
	put := func(c rune) bool {
		w := 1
		if c >= 0x10000 {
			w = 2
		}
		if units+w > n {
			return false
		}
		units += w
		b.WriteRune(c)
		return true
	}
	bmp := func() rune {
		for {
			c := rune(r.IntN(0x10000))
			switch r.IntN(8) {
			case 0:
				c = []rune{1, 0x7F, 0x80, 0xFF, 0x100, 0xD7FF, 0xE000, 0xFFFD, 0xFFFE, 0xFFFF, 0xFEFF, 0}[r.IntN(12)]
			case 1:
				c = rune(0x20 + r.IntN(0x5F))
			}
			if c < 0xD800 || c > 0xDFFF {
				return c
			}
		}
	}
	switch {
	case kind == 0:
		return "", "empty"
	case kind < 3:
		for put(rune(0x20 + r.IntN(0x5F))) {
		}
		return b.String(), "ascii"
	case kind < 7:
		for put(bmp()) {
		}
		return b.String(), "bmp"
	default:
		class = "bmp"
		for {
			c := bmp()
			if r.IntN(3) == 0 {
				c = rune(0x10000 + r.IntN(0x100000))
				if r.IntN(4) == 0 {
					c = []rune{0x10000, 0x10FFFF, 0x1F600, 0xFFFFF, 0x100000}[r.IntN(5)]
				}
			}
			if !put(c) {
				if c >= 0x10000 && put(bmp()) {
					continue
				}
				break
			}
			if c >= 0x10000 {
				class = "astral"
			}
		}
		return b.String(), class
	}
}

func c14units(s string, macPlatform bool) int {
	if macPlatform {
		return utf8.RuneCountInString(s)
	}
	return len(utf16.Encode([]rune(s)))
}

var c14namedIDs = []uint16{0, 1, 2, 3, 4, 5, 6, 7, 8, 9, 10, 11, 12, 13, 14, 16, 17, 18, 19, 20, 21, 22, 23, 24, 25}

func c14set(t *name.Table, id uint16, s string) {
	if p, ok := c14named(t)[id]; ok {
		*p = s
		return
	}
	if t.Extra == nil {
		t.Extra = map[name.ID]string{}
	}
	t.Extra[name.ID(id)] = s
}

type c14rec struct {
	platform, lang, id uint16
}

func runC14(c *mon.Ctx) {
	macM, winM, hooked := hooks.Languages()
	if !hooked {
		c.Note("hooks unavailable: language tables reduced to en / en-US")
		macM = map[uint16]string{0: "en"}
		winM = map[uint16]string{0x0409: "en-US"}
	}
	macL, winL := c14langTable(macM), c14langTable(winM)
	encodeAliasing(c, "name", c.N(300, 20000), nameAliasEncoders)
	c.Require("name:encode-aliasing-checked")

	// ------------------------------------------------------------------
	c.Stratum("name", c.N(2500, 250000), func(k *mon.Case) {
		r := k.Rng
		info := &name.Info{Mac: name.Tables{}, Windows: name.Tables{}}
		budgetBytes := 65535
		budgetRecs := 5000
		expected := map[c14rec]string{}
		classes := map[string]bool{}
		huge := r.IntN(40) == 0 // one string of (almost) maximal length
		overflow := false
		hugeWin := huge && r.IntN(2) == 0
		// now and then a Macintosh string and a Windows string whose stored
		// bytes are the same (storage is shared by content): an ASCII string
		// of even length and the string its bytes spell in UTF-16BE
		twinMac, twinWin := "", ""
		if r.IntN(5) == 0 {
			twinMac = []string{"Aria", "Test", "  ", "AB", "Bold Italic ", "Regular!", "No. 5 (Book)"}[r.IntN(7)]
			for i := 0; i+1 < len(twinMac); i += 2 {
				twinWin += string(rune(twinMac[i])<<8 | rune(twinMac[i+1]))
			}
		}
		fill := func(macPlatform bool, L *c14langs, forced int) {
			var tags []string
			tags = append(tags, L.tag[L.ids[forced%len(L.ids)]])
			extra := 0
			switch r.IntN(6) {
			case 0:
				extra = 0
			case 1, 2:
				extra = r.IntN(3)
			case 3:
				extra = r.IntN(12)
			case 4:
				extra = r.IntN(len(L.tags) + 1)
			case 5:
				return // platform absent
			}
			for i := 0; i < extra; i++ {
				tags = append(tags, L.tags[r.IntN(len(L.tags))])
			}
			dst := info.Windows
			platform := uint16(3)
			if macPlatform {
				dst = info.Mac
				platform = 1
			}
			var shared string // the same string in several places (storage is shared by content)
			for _, tag := range tags {
				if dst[tag] != nil {
					continue
				}
				t := &name.Table{}
				dst[tag] = t
				nrec := len(L.back[tag])
				var ids []uint16
				switch r.IntN(5) {
				case 0:
					ids = append(ids, c14namedIDs...)
				case 1:
					ids = append(ids, 1, 2, 4, 6)
				default:
					for i := r.IntN(6); i > 0; i-- {
						ids = append(ids, c14namedIDs[r.IntN(len(c14namedIDs))])
					}
				}
				if r.IntN(4) == 0 {
					ids = append(ids, 15)
				}
				for i := r.IntN(4) * r.IntN(2); i > 0; i-- {
					switch r.IntN(5) {
					case 0:
						ids = append(ids, uint16(26+r.IntN(230)))
					case 1:
						ids = append(ids, uint16(256+r.IntN(32512)))
					case 2:
						ids = append(ids, uint16(32768+r.IntN(32768)))
					case 3:
						ids = append(ids, 65535)
					case 4:
						ids = append(ids, 26)
					}
				}
				for _, id := range ids {
					if _, dup := expected[c14rec{platform, L.back[tag][0], id}]; dup {
						continue
					}
					if budgetRecs < nrec {
						break
					}
					unit := 2
					if macPlatform {
						unit = 1
					}
					var s, cls string
					switch {
					case hugeWin && !macPlatform && budgetBytes >= 65534:
						s, cls = c14string(r, false, 1)
						for c14units(s, false) != 1 {
							s, _ = c14string(r, false, 1)
						}
						s = strings.Repeat(s, 32767)
						cls = "32767-units"
						if r.IntN(3) == 0 {
							s = strings.Repeat(s[:len(s)/32767], 16000+r.IntN(16000))
							cls = "long"
						}
					case huge && budgetBytes > 4000 && r.IntN(3) == 0:
						s, _ = c14string(r, macPlatform, 40)
						if s != "" {
							s = strings.Repeat(s, 1+r.IntN(budgetBytes/unit/c14units(s, macPlatform)))
						}
						cls = "long"
					case twinMac != "" && r.IntN(4) == 0:
						s, cls = twinWin, "same-bytes-as-a-string-of-the-other-platform"
						if macPlatform {
							s = twinMac
						}
					case shared != "" && r.IntN(4) == 0:
						s, cls = shared, "shared"
					default:
						s, cls = c14string(r, macPlatform, budgetBytes/unit)
					}
					if n := c14units(s, macPlatform) * unit; n > budgetBytes {
						continue
					} else {
						budgetBytes -= n
					}
					if s != "" && r.IntN(3) == 0 {
						shared = s
					}
					c14set(t, id, s)
					classes["string:"+cls] = true
					if s == "" {
						continue
					}
					budgetRecs -= nrec
					for _, lang := range L.back[tag] {
						expected[c14rec{platform, lang, id}] = s
					}
					switch {
					case id == 15:
						classes["id:15"] = true
					case id > 25 && id < 256:
						classes["id:26-255"] = true
					case id >= 256 && id < 32768:
						classes["id:256-32767"] = true
					case id == 65535:
						classes["id:65535"] = true
					case id >= 32768:
						classes["id:32768-65534"] = true
					default:
						classes["id:named"] = true
					}
				}
			}
		}
		if twoLong := !huge && r.IntN(40) == 1; twoLong {
			// string storage beyond 64 KiB with every offset and length still
			// in 16 bits: exactly two distinct long strings (whichever comes
			// first in the storage area, the other one starts below 65536),
			// used by several records
			long := func() string {
				s, _ := c14string(r, false, 1)
				for c14units(s, false) != 1 {
					s, _ = c14string(r, false, 1)
				}
				return strings.Repeat(s, 16384+r.IntN(16384))
			}
			a, b := long(), long()
			for a == b {
				b = long()
			}
			n := 0
			for _, tag := range []string{winL.tag[winL.ids[k.Index%len(winL.ids)]], winL.tags[r.IntN(len(winL.tags))], winL.tags[r.IntN(len(winL.tags))]} {
				if info.Windows[tag] != nil {
					continue
				}
				t := &name.Table{}
				info.Windows[tag] = t
				for _, id := range []uint16{13, 10, 4, uint16(256 + r.IntN(100))}[:1+r.IntN(4)] {
					s := []string{a, b}[n%2]
					n++
					c14set(t, id, s)
					for _, lang := range winL.back[tag] {
						expected[c14rec{3, lang, id}] = s
					}
				}
			}
			if n >= 2 {
				classes["storage:beyond-64k"] = true
			}
			if r.IntN(2) == 0 && n >= 2 {
				// a third long string: now some string must start beyond offset
				// 65535, which the format cannot express.  The encoder has no
				// error return: a refusal (panic) is accepted here, a table that
				// decodes to other strings is not.
				var tag string
				for tg := range info.Windows {
					if tag == "" || tg < tag {
						tag = tg
					}
				}
				third := long()
				for third == a || third == b {
					third = long()
				}
				c14set(info.Windows[tag], 7, third)
				for _, lang := range winL.back[tag] {
					expected[c14rec{3, lang, 7}] = third
				}
				overflow = true
				delete(classes, "storage:beyond-64k")
				classes["storage:offset-beyond-16-bits"] = true
			}
		} else {
			if !hugeWin {
				fill(true, macL, k.Index)
			}
			fill(false, winL, k.Index)
		}

		var enc []byte
		if overflow {
			k.Class("storage:offset-beyond-16-bits")
			if pv, _ := mon.Try(func() { enc = info.Encode(1) }); pv != nil {
				k.Class("storage:offset-beyond-16-bits:refused")
				return
			}
			k.Eval()
			dec, err := name.Decode(enc)
			same := err == nil
			if same {
				for tag, t := range info.Windows {
					if dec.Windows[tag] == nil || fmt.Sprint(c14flatten(t)) != fmt.Sprint(c14flatten(dec.Windows[tag])) {
						same = false
					}
				}
			}
			if !same {
				k.Fail("mismatch", "name:storage-offset-overflow-silent", "three strings of %d+ bytes in one table: Encode returns %d bytes without complaint, but the table does not decode to the strings (err=%v): a string that starts beyond offset 65535 of the storage area is written with its offset reduced modulo 65536", 32768, len(enc), err)
			}
			return
		}
		if k.Guard("name.Info.Encode", func() { enc = info.Encode(1) }) {
			return
		}
		k.Input(enc)

		// independent parse
		tr, err := tabread.ReadName(enc)
		k.Eval()
		if err != nil {
			k.Fail("mismatch", "name:independent-reader-rejects", "%v", err)
			return
		}
		if len(tr.Problems) > 0 || tr.Version != 0 {
			k.Fail("mismatch", "name:table-structure", "version %d, problems %v", tr.Version, tr.Problems)
		}
		seen := map[c14rec]bool{}
		for _, rec := range tr.Records {
			key := c14rec{rec.PlatformID, rec.LanguageID, rec.NameID}
			want, ok := expected[key]
			if !ok {
				k.Fail("mismatch", "name:spurious-record", "record %+v (%d bytes) has no counterpart in the source", key, rec.Length)
				continue
			}
			seen[key] = true
			wantEnc := uint16(1)
			if rec.PlatformID == 1 {
				wantEnc = 0
			}
			got, okd := rec.String()
			if rec.EncodingID != wantEnc || !okd {
				k.Fail("mismatch", "name:record-encoding", "record %+v: encoding id %d, decodable %v", key, rec.EncodingID, okd)
			} else if got != want {
				w := "name:windows-string-in-bytes"
				if rec.PlatformID == 1 {
					w = "name:mac-string-in-bytes"
				}
				k.Fail("mismatch", w, "record %+v: the bytes hold %.60q, the source says %.60q", key, got, want)
			}
		}
		if len(seen) != len(expected) {
			var keys []c14rec
			for key := range expected {
				keys = append(keys, key)
			}
			sort.Slice(keys, func(i, j int) bool {
				a, b := keys[i], keys[j]
				if a.platform != b.platform {
					return a.platform < b.platform
				}
				if a.lang != b.lang {
					return a.lang < b.lang
				}
				return a.id < b.id
			})
			for _, key := range keys {
				if !seen[key] {
					w := "name:record-missing"
					if key.id == 15 {
						w = "name:record-missing-id15"
					} else if key.id > 25 {
						w = "name:record-missing-extra-id"
					}
					k.Fail("mismatch", w, "no record for %+v (%.40q) in the emitted table", key, expected[key])
					break
				}
			}
		}

		// library decode
		var dec *name.Info
		if k.Guard("name.Decode", func() { dec, err = name.Decode(enc) }) {
			return
		}
		k.Eval()
		if err != nil {
			k.Fail("mismatch", "name:decode-rejects-own-output", "%v", err)
			return
		}
		cmp := func(platform string, src, got name.Tables, L *c14langs) {
			var srcTags []string
			for tag := range src {
				srcTags = append(srcTags, tag)
			}
			sort.Strings(srcTags)
			for _, tag := range srcTags {
				t := src[tag]
				want := c14flatten(t)
				have := c14flatten(got[tag])
				var ids []int
				for id := range want {
					ids = append(ids, int(id))
				}
				sort.Ints(ids)
				for _, idi := range ids {
					id := uint16(idi)
					s := want[id]
					if have[id] != s {
						w := "name:roundtrip-" + platform
						if id == 15 {
							w += "-id15"
						} else if id > 25 {
							w += "-extra-id"
						}
						k.Fail("mismatch", w, "%s %q id %d: %.60q came back as %.60q", platform, tag, id, s, have[id])
						return
					}
				}
				for id, s := range have {
					if want[id] == "" {
						k.Fail("mismatch", "name:roundtrip-spurious", "%s %q id %d: %.60q appeared", platform, tag, id, s)
						return
					}
				}
				if len(want) > 0 {
					for _, id := range L.back[tag] {
						k.Class(fmt.Sprintf("lang:%s:%d", platform, id))
					}
				}
			}
			for tag, t := range got {
				if src[tag] == nil && len(c14flatten(t)) > 0 {
					k.Fail("mismatch", "name:roundtrip-spurious-language", "%s table %q appeared", platform, tag)
				}
			}
		}
		cmp("mac", info.Mac, dec.Mac, macL)
		cmp("win", info.Windows, dec.Windows, winL)
		for cls := range classes {
			k.Class(cls)
		}
		k.Max("name:records", float64(len(tr.Records)))
		k.Max("name:bytes", float64(len(enc)))
		k.DistinctBytes(enc)

		// Tables.Choose on a single-language set returns that language
		for _, tt := range []name.Tables{dec.Mac, dec.Windows} {
			if len(tt) != 1 {
				continue
			}
			for tag, t := range tt {
				var got *name.Table
				if k.Guard("name.Tables.Choose", func() { got, _ = tt.Choose(language.English) }) {
					break
				}
				if got != t {
					k.Fail("mismatch", "name:choose-single", "Choose on the single table %q does not return it", tag)
				}
				k.Eval()
			}
		}

		// x/image
		if k.Index%3 == 0 && len(tr.Records) > 0 {
			f, _, err := ximgFont(1, map[string][]byte{"name": enc})
			if err != nil {
				k.Skip("ximage:" + err.Error())
				return
			}
			var buf ximage.Buffer
			first := map[uint16]string{}
			var order []uint16
			for _, rec := range tr.Records {
				if _, ok := first[rec.NameID]; !ok {
					first[rec.NameID] = expected[c14rec{rec.PlatformID, rec.LanguageID, rec.NameID}]
					order = append(order, rec.NameID)
				}
			}
			n := 0
			for _, id := range order {
				want := first[id]
				astral := false
				for _, ch := range want {
					astral = astral || ch >= 0x10000
				}
				if astral || n >= 40 {
					continue
				}
				n++
				got, err := f.Name(&buf, ximage.NameID(id))
				if err != nil {
					k.Fail("mismatch", "name:ximage-error", "x/image Name(%d): %v", id, err)
					break
				}
				if got != want {
					k.Fail("mismatch", "name:ximage-disagrees", "x/image Name(%d) = %.60q, source %.60q", id, got, want)
					break
				}
			}
			if n > 0 {
				k.Eval()
				k.Class("ximage:name-agrees")
			}
		}
	})
	if hooked {
		for _, id := range macL.ids {
			c.Require(fmt.Sprintf("lang:mac:%d", id))
		}
		for _, id := range winL.ids {
			c.Require(fmt.Sprintf("lang:win:%d", id))
		}
	}
	c.Require("string:same-bytes-as-a-string-of-the-other-platform", "storage:beyond-64k", "storage:offset-beyond-16-bits", "id:named", "id:15", "id:26-255", "id:256-32767", "id:32768-65534", "id:65535",
		"string:empty", "string:ascii", "string:bmp", "string:astral", "string:long", "string:32767-units", "string:mac-repertoire", "string:shared",
		"ximage:name-agrees")

	// ------------------------------------------------------------------
	// name.Table.Extra entries for ids that have a field of their own (borderline:
	// a second home for the same name id).  What becomes of such an entry is
	// recorded; judged are panics and the strings of all other ids, which must
	// survive as if the entry were not there.
	c.Stratum("name-extra-clash", c.N(300, 20000), func(k *mon.Case) {
		r := k.Rng
		macPlatform := r.IntN(3) == 0
		L, platform := winL, uint16(3)
		if macPlatform {
			L, platform = macL, 1
		}
		tag := L.tags[r.IntN(len(L.tags))]
		t := &name.Table{}
		regular := map[uint16]string{}
		var ids []uint16
		for i := 1 + r.IntN(8); i > 0; i-- {
			ids = append(ids, c14namedIDs[r.IntN(len(c14namedIDs))])
		}
		for i := r.IntN(4); i > 0; i-- {
			ids = append(ids, []uint16{15, 26, uint16(26 + r.IntN(230)), uint16(256 + r.IntN(65280)), 65535}[r.IntN(5)])
		}
		str := func() string {
			for {
				if s, _ := c14string(r, macPlatform, 40); s != "" {
					return s
				}
			}
		}
		for _, id := range ids {
			s := str()
			c14set(t, id, s)
			regular[id] = s
		}
		// the clashing entries
		clash := map[uint16]string{}
		var clashIDs []uint16
		for i := 1 + r.IntN(3); i > 0; i-- {
			id := c14namedIDs[r.IntN(len(c14namedIDs))]
			if r.IntN(2) == 0 && len(ids) > 0 && ids[0] <= 25 && ids[0] != 15 {
				id = ids[0] // a field that is set
			}
			if _, dup := clash[id]; dup {
				continue
			}
			s := str()
			for s == regular[id] {
				s = str()
			}
			clash[id] = s
			clashIDs = append(clashIDs, id)
			if t.Extra == nil {
				t.Extra = map[name.ID]string{}
			}
			t.Extra[name.ID(id)] = s
		}
		info := &name.Info{Mac: name.Tables{}, Windows: name.Tables{}}
		if macPlatform {
			info.Mac[tag] = t
		} else {
			info.Windows[tag] = t
		}
		k.Step(fmt.Sprintf("platform %d language %q regular ids %v, Extra entries for the named ids %v", platform, tag, ids, clashIDs))
		var enc []byte
		if k.Guard("name.Info.Encode", func() { enc = info.Encode(1) }) {
			return
		}
		k.Input(enc)
		k.DistinctBytes(enc)
		tr, err := tabread.ReadName(enc)
		k.Eval()
		if err != nil {
			k.Fail("mismatch", "name-extra-clash:independent-reader-rejects", "%v", err)
			return
		}
		lang0 := L.back[tag][0]
		inBytes := map[uint16][]string{}
		for _, rec := range tr.Records {
			if rec.PlatformID != platform || rec.LanguageID != lang0 {
				continue
			}
			got, _ := rec.String()
			inBytes[rec.NameID] = append(inBytes[rec.NameID], got)
		}
		var dec *name.Info
		if k.Guard("name.Decode", func() { dec, err = name.Decode(enc) }) {
			return
		}
		k.Eval()
		if err != nil {
			k.Fail("mismatch", "name-extra-clash:decode-rejects-own-output", "%v", err)
			return
		}
		back := dec.Windows[tag]
		if macPlatform {
			back = dec.Mac[tag]
		}
		have := c14flatten(back)
		for _, id := range ids {
			if _, isClash := clash[id]; isClash {
				continue
			}
			if len(inBytes[id]) != 1 || inBytes[id][0] != regular[id] {
				k.Fail("mismatch", "name-extra-clash:other-id-in-bytes", "id %d (%.40q) is %.40q in the emitted table, which also has Extra entries for the named ids %v", id, regular[id], inBytes[id], clashIDs)
				return
			}
			if have[id] != regular[id] {
				k.Fail("mismatch", "name-extra-clash:other-id-roundtrip", "id %d: %.40q came back as %.40q from a table with Extra entries for the named ids %v", id, regular[id], have[id], clashIDs)
				return
			}
		}
		for id := range have {
			if _, ok := regular[id]; !ok && clash[id] == "" {
				k.Fail("mismatch", "name-extra-clash:spurious-id", "id %d appeared (%.40q)", id, have[id])
				return
			}
		}
		for _, id := range clashIDs {
			state := "field-empty"
			if regular[id] != "" {
				state = "field-set"
			}
			switch {
			case len(inBytes[id]) > 1:
				k.Class("name-extra-clash:" + state + ":two-records-for-one-id")
			case len(inBytes[id]) == 0:
				k.Class("name-extra-clash:" + state + ":nothing-written")
			case inBytes[id][0] == clash[id]:
				k.Class("name-extra-clash:" + state + ":extra-entry-written")
			case inBytes[id][0] == regular[id]:
				k.Class("name-extra-clash:" + state + ":field-written,extra-entry-ignored")
			default:
				k.Fail("mismatch", "name-extra-clash:third-string", "id %d: field %.40q, Extra entry %.40q, the bytes hold %.40q", id, regular[id], clash[id], inBytes[id][0])
				return
			}
		}
		k.Class("name-extra-clash:other-ids-intact")
	})
	c.Require("name-extra-clash:other-ids-intact")

	// ------------------------------------------------------------------
	// platform language ids: well-known ids (OpenType name chapter, Macintosh
	// language ids and Windows LCIDs) must map to a tag of the right
	// language; only the primary language subtag is compared
	if hooked {
		c.Stratum("langids", 1, func(k *mon.Case) {
			check := func(platform string, m map[uint16]string, known map[uint16]string) {
				ids := make([]int, 0, len(known))
				for id := range known {
					ids = append(ids, int(id))
				}
				sort.Ints(ids)
				for _, idi := range ids {
					id := uint16(idi)
					want := known[id]
					tag, ok := m[id]
					if !ok {
						k.Class("langids:" + platform + "-not-supported")
						continue
					}
					t, err := language.Parse(tag)
					if err != nil {
						k.Fail("mismatch", "langids:unparsable-tag", "%s language id %#x has the tag %q: %v", platform, id, tag, err)
						continue
					}
					base, _ := t.Base()
					wb, _ := language.MustParse(want).Base()
					norm := func(s string) string {
						if s == "nb" { // Norwegian (macrolanguage) and Norwegian Bokmål are one entry in the id tables
							return "no"
						}
						return s
					}
					if norm(base.String()) != norm(wb.String()) {
						k.Fail("mismatch", "langids:wrong-language", "%s language id %#x is %s, the library maps it to %q", platform, id, want, tag)
					}
					k.Eval()
				}
				k.Class("langids:" + platform)
			}
			check("mac", macM, map[uint16]string{0: "en", 1: "fr", 2: "de", 3: "it", 4: "nl", 5: "sv", 6: "es", 7: "da", 8: "pt", 9: "no",
				10: "he", 11: "ja", 12: "ar", 13: "fi", 14: "el", 15: "is", 17: "tr", 19: "zh", 21: "hi", 22: "th", 23: "ko", 25: "pl", 26: "hu",
				32: "ru", 33: "zh", 37: "ro", 38: "cs", 45: "uk"})
			check("win", winM, map[uint16]string{0x0409: "en", 0x0809: "en", 0x0407: "de", 0x040C: "fr", 0x0410: "it", 0x0C0A: "es",
				0x0411: "ja", 0x0412: "ko", 0x0804: "zh", 0x0404: "zh", 0x0419: "ru", 0x0413: "nl", 0x041D: "sv", 0x0416: "pt", 0x0816: "pt",
				0x0405: "cs", 0x0415: "pl", 0x040E: "hu", 0x0408: "el", 0x041F: "tr", 0x040D: "he", 0x0401: "ar", 0x041E: "th", 0x0406: "da",
				0x040B: "fi", 0x0414: "no", 0x0422: "uk", 0x0418: "ro", 0x0439: "hi", 0x040F: "is"})
		})
		c.Require("langids:mac", "langids:win")
	}

	// ------------------------------------------------------------------
	c.Stratum("codec", c.N(400, 40000), func(k *mon.Case) {
		r := k.Rng
		if k.Index == 0 {
			for b := 0; b < 256; b++ {
				var s string
				var back []byte
				var one rune
				if k.Guard("mac.Decode/Encode", func() {
					s = mac.Decode([]byte{byte(b)})
					back = mac.Encode(s)
					one = mac.DecodeOne(byte(b))
				}) {
					return
				}
				if len(back) != 1 || back[0] != byte(b) {
					k.Fail("mismatch", "codec:encode-decode-byte", "byte %#x decodes to %q which encodes to %x", b, s, back)
				}
				if string(one) != s {
					k.Fail("mismatch", "codec:decodeone", "byte %#x: DecodeOne %q, Decode %q", b, string(one), s)
				}
				if s != string(tabread.MacRomanRune(byte(b))) {
					k.Fail("mismatch", "codec:not-mac-roman", "byte %#x decodes to %q, Mac OS Roman has %q", b, s, string(tabread.MacRomanRune(byte(b))))
				}
				k.Class(fmt.Sprintf("codec:byte-%02x", b))
			}
			k.Evals(256)
			return
		}
		n := r.IntN(64)
		if r.IntN(8) == 0 {
			n = r.IntN(5000)
		}
		if k.Index%2 == 0 {
			b := make([]byte, n)
			for i := range b {
				b[i] = byte(r.Uint32())
				if r.IntN(3) == 0 {
					b[i] |= 0x80
				}
			}
			k.Input(b)
			var back []byte
			if k.Guard("mac.Decode/Encode", func() { back = mac.Encode(mac.Decode(b)) }) {
				return
			}
			k.Eval()
			if !bytes.Equal(back, b) {
				k.Fail("mismatch", "codec:encode-decode", "Encode(Decode(% x)) = % x", b, back)
			}
			k.Class("codec:bytes")
			k.DistinctBytes(b)
		} else {
			var sb strings.Builder
			for i := 0; i < n; i++ {
				sb.WriteRune(c14macRepertoire[r.IntN(256)])
			}
			s := sb.String()
			k.Input([]byte(s))
			var back string
			if k.Guard("mac.Encode/Decode", func() { back = mac.Decode(mac.Encode(s)) }) {
				return
			}
			k.Eval()
			if back != s {
				k.Fail("mismatch", "codec:decode-encode", "Decode(Encode(%q)) = %q", s, back)
			}
			k.Class("codec:repertoire-string")
			k.DistinctBytes([]byte(s))
		}
	})
	for b := 0; b < 256; b++ {
		c.Require(fmt.Sprintf("codec:byte-%02x", b))
	}

	// ------------------------------------------------------------------
	scriptsM, langsM, tagsHooked := hooks.TagTables()
	if !tagsHooked {
		c.Note("hooks unavailable: tag tables reduced to DFLT/latn x dflt/DEU/ENG")
		scriptsM = map[string]string{"DFLT": "Zzzz", "latn": "Latn"}
		langsM = map[string]string{"DEU ": "de", "ENG ": "en"}
	}
	var scripts, langs []string
	for s := range scriptsM {
		scripts = append(scripts, s)
	}
	for l := range langsM {
		langs = append(langs, l)
	}
	sort.Strings(scripts)
	sort.Strings(langs)
	c.Stratum("tags", c.N(len(scripts)+200, len(scripts)+20000), func(k *mon.Case) {
		c14tags(k, scripts, langs)
	})
	c.Require("tags:all-languages-of-a-script", "tags:default-langsys", "tags:several-scripts")
	for _, s := range scripts {
		c.Require("tags:script-complete:" + s)
	}

	// ------------------------------------------------------------------
	c.Stratum("post", c.N(1500, 150000), func(k *mon.Case) { c14post(k, c.Thorough()) })
	// the standard glyph order as the library knows it: names read from
	// spec-side tables (format 1; format 2 with standard indices only) are
	// written again and must be seen unchanged by the independent reader
	c.Stratum("post-std", c.N(40, 2000), func(k *mon.Case) {
		r := k.Rng
		var data []byte
		hdr := make([]byte, 32)
		if k.Index%2 == 0 {
			hdr[1] = 1
			data = hdr
		} else {
			hdr[1] = 2
			n := 258
			if k.Index%4 == 3 {
				n = 1 + r.IntN(600)
			}
			data = binary.BigEndian.AppendUint16(hdr, uint16(n))
			perm := r.Perm(258)
			for i := 0; i < n; i++ {
				data = binary.BigEndian.AppendUint16(data, uint16(perm[i%258]))
			}
		}
		k.Input(data)
		ref, err := tabread.ReadPost(data)
		if err != nil {
			k.Fail("mismatch", "harness:post-std-generator", "%v", err)
			return
		}
		var info *post.Info
		if k.Guard("post.Read", func() { info, err = post.Read(bytes.NewReader(data)) }) {
			return
		}
		k.Eval()
		if err != nil {
			k.Fail("mismatch", "post:read-rejects-well-formed", "%v", err)
			return
		}
		var enc []byte
		if k.Guard("post.Info.Encode", func() { enc = info.Encode() }) {
			return
		}
		back, err := tabread.ReadPost(enc)
		k.Eval()
		if err != nil {
			k.Fail("mismatch", "post:independent-reader-rejects", "%v", err)
			return
		}
		if len(back.Names) != len(info.Names) || len(info.Names) != len(ref.Names) {
			k.Fail("mismatch", "post:standard-names-count", "%d names in the table, %d read, %d seen after writing them", len(ref.Names), len(info.Names), len(back.Names))
			return
		}
		for i, s := range info.Names {
			if back.Names[i] != s {
				k.Fail("mismatch", "post:standard-name-written-differently", "glyph %d: the library writes %q, the independent reader sees %q", i, s, back.Names[i])
				break
			}
			if ref.Names[i] != s {
				k.Fail("mismatch", "post:standard-name-read-differently", "glyph %d: the table says %q, the library reads %q", i, ref.Names[i], s)
				break
			}
		}
		k.Class("post:standard-order-spec-side")
	})
	c.Require("post:standard-order-spec-side")
	c.Require("post:format-1", "post:format-2", "post:format-3", "post:permutation", "post:subset", "post:custom-names",
		"post:custom-255-bytes", "post:custom-empty-name", "post:duplicates", "post:1-glyph", "post:65535-glyphs", "ximage:glyphname-agrees")
}

// ---- script / language tags ----

type c14pair struct{ script, lang string } // lang "" = default language system

type c14langsys struct {
	required uint16
	optional []uint16
}

// c14gsub writes a GSUB table with the given script list, nFeat features
// (each referring to the single lookup) and one single-substitution lookup.
func c14gsub(pairs map[c14pair]c14langsys, nFeat int) []byte {
	be := binary.BigEndian
	u16 := func(b []byte, v int) []byte { return be.AppendUint16(b, uint16(v)) }
	byScript := map[string][]string{}
	for p := range pairs {
		byScript[p.script] = append(byScript[p.script], p.lang)
	}
	var scripts []string
	for s := range byScript {
		scripts = append(scripts, s)
		sort.Strings(byScript[s])
	}
	sort.Strings(scripts)
	langSys := func(ls c14langsys) []byte {
		b := u16(nil, 0) // lookupOrderOffset
		b = u16(b, int(ls.required))
		b = u16(b, len(ls.optional))
		for _, f := range ls.optional {
			b = u16(b, int(f))
		}
		return b
	}
	var scriptTables [][]byte
	for _, s := range scripts {
		ll := byScript[s]
		hasDefault := len(ll) > 0 && ll[0] == ""
		if hasDefault {
			ll = ll[1:]
		}
		head := 4 + 6*len(ll)
		var body []byte
		st := make([]byte, 0, head)
		if hasDefault {
			st = u16(st, head)
			body = append(body, langSys(pairs[c14pair{s, ""}])...)
		} else {
			st = u16(st, 0)
		}
		st = u16(st, len(ll))
		for _, l := range ll {
			st = append(st, l...)
			st = u16(st, head+len(body))
			body = append(body, langSys(pairs[c14pair{s, l}])...)
		}
		scriptTables = append(scriptTables, append(st, body...))
	}
	sl := u16(nil, len(scripts))
	off := 2 + 6*len(scripts)
	for i, s := range scripts {
		sl = append(sl, s...)
		sl = u16(sl, off)
		off += len(scriptTables[i])
	}
	for _, st := range scriptTables {
		sl = append(sl, st...)
	}
	fl := u16(nil, nFeat)
	for i := 0; i < nFeat; i++ {
		fl = append(fl, fmt.Sprintf("f%03d", i%1000)...)
		fl = u16(fl, 2+6*nFeat+6*i)
	}
	for i := 0; i < nFeat; i++ {
		fl = u16(fl, 0) // featureParams
		fl = u16(fl, 1) // lookupIndexCount
		fl = u16(fl, 0) // lookup 0
	}
	ll := []byte{
		0, 1, 0, 4, // lookupCount, offset
		0, 1, 0, 0, 0, 1, 0, 8, // type 1, flags, subtable count, offset
		0, 1, 0, 6, 0, 1, // single substitution format 1, coverage offset, delta
		0, 1, 0, 1, 0, 5, // coverage format 1, one glyph
	}
	out := []byte{0, 1, 0, 0}
	out = u16(out, 10)
	out = u16(out, 10+len(sl))
	out = u16(out, 10+len(sl)+len(fl))
	out = append(out, sl...)
	out = append(out, fl...)
	return append(out, ll...)
}

// c14parseScriptList reads the script list of a GSUB/GPOS table.
func c14parseScriptList(data []byte) (map[c14pair]c14langsys, error) {
	be := binary.BigEndian
	fail := fmt.Errorf("script list does not fit")
	if len(data) < 10 {
		return nil, fail
	}
	base := int(be.Uint16(data[4:]))
	if base == 0 || base+2 > len(data) {
		return nil, fmt.Errorf("no script list")
	}
	sl := data[base:]
	n := int(be.Uint16(sl))
	if 2+6*n > len(sl) {
		return nil, fail
	}
	out := map[c14pair]c14langsys{}
	readLS := func(b []byte) (c14langsys, error) {
		if len(b) < 6 {
			return c14langsys{}, fail
		}
		ls := c14langsys{required: be.Uint16(b[2:])}
		cnt := int(be.Uint16(b[4:]))
		if 6+2*cnt > len(b) {
			return ls, fail
		}
		for i := 0; i < cnt; i++ {
			ls.optional = append(ls.optional, be.Uint16(b[6+2*i:]))
		}
		return ls, nil
	}
	prev := ""
	for i := 0; i < n; i++ {
		tag := string(sl[2+6*i : 6+6*i])
		if i > 0 && tag <= prev {
			return nil, fmt.Errorf("script records not sorted: %q after %q", tag, prev)
		}
		prev = tag
		so := int(be.Uint16(sl[6+6*i:]))
		if so+4 > len(sl) {
			return nil, fail
		}
		st := sl[so:]
		def := int(be.Uint16(st))
		cnt := int(be.Uint16(st[2:]))
		if 4+6*cnt > len(st) {
			return nil, fail
		}
		if def != 0 {
			if def > len(st) {
				return nil, fail
			}
			ls, err := readLS(st[def:])
			if err != nil {
				return nil, err
			}
			out[c14pair{tag, ""}] = ls
		}
		prevL := ""
		for j := 0; j < cnt; j++ {
			lt := string(st[4+6*j : 8+6*j])
			if j > 0 && lt <= prevL {
				return nil, fmt.Errorf("language records of %q not sorted: %q after %q", tag, lt, prevL)
			}
			prevL = lt
			lo := int(be.Uint16(st[8+6*j:]))
			if lo > len(st) {
				return nil, fail
			}
			ls, err := readLS(st[lo:])
			if err != nil {
				return nil, err
			}
			if _, dup := out[c14pair{tag, lt}]; dup {
				return nil, fmt.Errorf("duplicate language record %q/%q", tag, lt)
			}
			out[c14pair{tag, lt}] = ls
		}
	}
	return out, nil
}

func c14tags(k *mon.Case, scripts, langs []string) {
	r := k.Rng
	pairs := map[c14pair]c14langsys{}
	var order []c14pair
	add := func(p c14pair) {
		if _, dup := pairs[p]; dup {
			return
		}
		// the required feature index identifies the pair
		ls := c14langsys{required: uint16(len(order))}
		for i := r.IntN(3); i > 0; i-- {
			ls.optional = append(ls.optional, uint16(r.IntN(len(order)+1)))
		}
		pairs[p] = ls
		order = append(order, p)
	}
	if k.Index < len(scripts) {
		s := scripts[k.Index]
		add(c14pair{s, ""})
		for _, l := range langs {
			add(c14pair{s, l})
		}
		k.Class("tags:all-languages-of-a-script")
		defer func() {
			if !k.Failed() {
				k.Class("tags:script-complete:" + s)
			}
		}()
	} else {
		ns := 1 + r.IntN(6)
		if r.IntN(6) == 0 {
			ns = 1 + r.IntN(len(scripts))
		}
		for i := 0; i < ns; i++ {
			s := scripts[r.IntN(len(scripts))]
			if r.IntN(3) != 0 {
				add(c14pair{s, ""})
			}
			for j := r.IntN(8); j > 0; j-- {
				add(c14pair{s, langs[r.IntN(len(langs))]})
			}
		}
	}
	nscr := map[string]bool{}
	hasDefault := false
	for p := range pairs {
		nscr[p.script] = true
		hasDefault = hasDefault || p.lang == ""
	}
	if len(pairs) == 0 {
		k.Skip("tags:empty")
		return
	}
	nFeat := len(order)
	data := c14gsub(pairs, nFeat)
	if len(data) > 0xFFFF {
		k.Skip("tags:too-big")
		return
	}
	k.Input(data)
	if chk, err := c14parseScriptList(data); err != nil || len(chk) != len(pairs) {
		k.Fail("mismatch", "harness:tags-generator", "own writer and parser disagree: %v (%d of %d pairs)", err, len(chk), len(pairs))
		return
	}
	var info *gtab.Info
	var err error
	if k.Guard("gtab.Read", func() { info, err = gtab.Read(bytes.NewReader(data), gtab.TypeGsub) }) {
		return
	}
	k.Eval()
	if err != nil {
		k.Fail("mismatch", "tags:read-rejects-well-formed", "gtab.Read: %v", err)
		return
	}
	// which tag did each pair become?
	tagOf := map[c14pair]language.Tag{}
	byReq := map[uint16]language.Tag{}
	for tag, f := range info.ScriptList {
		if _, dup := byReq[uint16(f.Required)]; dup {
			k.Fail("mismatch", "harness:tags-identification", "two tags with required feature %d", f.Required)
			return
		}
		byReq[uint16(f.Required)] = tag
	}
	for i, p := range order {
		tag, ok := byReq[uint16(i)]
		if !ok {
			w := "tags:pair-lost-on-read"
			if strings.HasSuffix(p.script, " ") {
				w = "tags:pair-lost-on-read-short-script-tag"
			}
			k.Fail("mismatch", w, "script %q language %q: no BCP 47 tag after gtab.Read (%d of %d pairs survive)", p.script, p.lang, len(info.ScriptList), len(pairs))
			return
		}
		tagOf[p] = tag
		f := info.ScriptList[tag]
		want := pairs[p]
		same := len(f.Optional) == len(want.optional)
		for j := 0; same && j < len(want.optional); j++ {
			same = uint16(f.Optional[j]) == want.optional[j]
		}
		if !same {
			k.Fail("mismatch", "tags:features-on-read", "script %q language %q: optional features %v, written %v", p.script, p.lang, f.Optional, want.optional)
			return
		}
	}
	k.Evals(len(order))

	// and back
	var enc []byte
	if k.Guard("gtab.Info.Encode", func() { enc = info.Encode() }) {
		return
	}
	back, err := c14parseScriptList(enc)
	k.Eval()
	if err != nil {
		k.Fail("mismatch", "tags:encoded-script-list-malformed", "%v", err)
		return
	}
	for _, p := range order {
		got, ok := back[p]
		if !ok {
			w := "tags:pair-changed-by-encode"
			if strings.HasSuffix(p.script, " ") {
				w = "tags:pair-changed-by-encode-short-script-tag"
			}
			var have []string
			for q := range back {
				if q.script == p.script || q.lang == p.lang {
					have = append(have, fmt.Sprintf("%q/%q", q.script, q.lang))
				}
				if len(have) > 6 {
					break
				}
			}
			sort.Strings(have)
			k.Fail("mismatch", w, "script %q language %q (BCP 47 %q) is not in the encoded script list; similar: %v", p.script, p.lang, tagOf[p], have)
			return
		}
		want := pairs[p]
		same := got.required == want.required && len(got.optional) == len(want.optional)
		for j := 0; same && j < len(want.optional); j++ {
			same = got.optional[j] == want.optional[j]
		}
		if !same {
			k.Fail("mismatch", "tags:features-changed-by-encode", "script %q language %q: %v, written %v", p.script, p.lang, got, want)
			return
		}
	}
	if len(back) != len(pairs) {
		k.Fail("mismatch", "tags:spurious-pairs-after-encode", "%d pairs in the encoded script list, %d written", len(back), len(pairs))
	}
	var info2 *gtab.Info
	if k.Guard("gtab.Read", func() { info2, err = gtab.Read(bytes.NewReader(enc), gtab.TypeGsub) }) {
		return
	}
	k.Eval()
	if err != nil {
		k.Fail("mismatch", "tags:read-rejects-own-output", "%v", err)
		return
	}
	if len(info2.ScriptList) != len(info.ScriptList) {
		k.Fail("mismatch", "tags:roundtrip-count", "%d tags, then %d", len(info.ScriptList), len(info2.ScriptList))
	}
	for tag, f := range info.ScriptList {
		g, ok := info2.ScriptList[tag]
		if !ok {
			k.Fail("mismatch", "tags:roundtrip-tag-lost", "tag %q lost", tag)
			break
		}
		same := g.Required == f.Required && len(g.Optional) == len(f.Optional)
		for j := 0; same && j < len(f.Optional); j++ {
			same = g.Optional[j] == f.Optional[j]
		}
		if !same {
			k.Fail("mismatch", "tags:roundtrip-features", "tag %q: %v then %v", tag, f, g)
			break
		}
	}
	if hasDefault {
		k.Class("tags:default-langsys")
	}
	if len(nscr) > 1 {
		k.Class("tags:several-scripts")
	}
	k.ClassN("tags:pairs", len(pairs))
	k.DistinctBytes(data)
	if k.Index < 2 {
		k.Sample(map[string]any{"pairs": len(pairs), "first_tag": fmt.Sprint(tagOf[order[0]]), "last_tag": fmt.Sprint(tagOf[order[len(order)-1]])})
	}
}

// ---- post ----

func c14customName(r *rand.Rand, n int) string {
	b := make([]byte, n)
	mode := r.IntN(4)
	for i := range b {
		switch mode {
		case 0: // any byte
			b[i] = byte(r.Uint32())
		default:
			b[i] = "abcdefghijklmnopqrstuvwxyzABCDEFGHIJKLMNOPQRSTUVWXYZ0123456789._"[r.IntN(64)]
		}
	}
	return string(b)
}

func c14post(k *mon.Case, thorough bool) {
	r := k.Rng
	info := &post.Info{
		UnderlinePosition:  funit.Int16(r.IntN(0x10000) - 0x8000),
		UnderlineThickness: funit.Int16(r.IntN(0x10000) - 0x8000),
		IsFixedPitch:       r.IntN(2) == 0,
	}
	if r.IntN(2) == 0 {
		info.ItalicAngle = float64(r.IntN(361*65536)-180*65536) / 65536
	}
	classes := map[string]bool{}
	std := tabread.MacGlyphNames[:]
	isStd := map[string]bool{}
	for _, s := range std {
		isStd[s] = true
	}
	count := func() int {
		switch r.IntN(12) {
		case 0:
			return 1
		case 1:
			return 2
		case 2:
			return 257 + r.IntN(3)
		case 3:
			return 1000 + r.IntN(1000)
		case 4:
			if r.IntN(4) == 0 {
				return 10000 + r.IntN(5000)
			}
		}
		return 1 + r.IntN(300)
	}
	emptyNames := r.IntN(6) == 0 // lists with the empty string as a custom name (a Pascal string of length 0)
	custom := func() string {
		for {
			n := 1 + r.IntN(20)
			switch r.IntN(16) {
			case 0:
				n = 255
				classes["post:custom-255-bytes"] = true
			case 1:
				n = 1 + r.IntN(255)
			case 2, 3:
				if emptyNames {
					classes["post:custom-empty-name"] = true
					return ""
				}
			}
			if s := c14customName(r, n); !isStd[s] {
				return s
			}
		}
	}
	kind := r.IntN(10)
	big := (k.Index%100 == 7) || (thorough && k.Index%500 == 11)
	switch {
	case big: // 65535 glyphs, mostly standard names so that the custom indices fit
		n := 65535
		info.Names = make([]string, n)
		pool := []string{custom(), custom(), custom()}
		nCustom := 0
		for i := range info.Names {
			switch {
			case i%12 != 0 && nCustom < 60000:
				nCustom++
				info.Names[i] = fmt.Sprintf("g%05d", i)
			case i%7 == 0:
				info.Names[i] = pool[i%len(pool)]
			default:
				info.Names[i] = std[(i*31)%258]
			}
		}
		classes["post:custom-names"] = true
		classes["post:duplicates"] = true
	case kind == 0:
		info.Names = nil
	case kind == 1:
		info.Names = append([]string(nil), std...)
	case kind == 2: // permutation of the standard order
		info.Names = append([]string(nil), std...)
		if r.IntN(2) == 0 {
			i, j := r.IntN(258), r.IntN(258)
			info.Names[i], info.Names[j] = info.Names[j], info.Names[i]
		} else {
			r.Shuffle(258, func(i, j int) { info.Names[i], info.Names[j] = info.Names[j], info.Names[i] })
		}
		classes["post:permutation"] = true
	case kind == 3: // subset / prefix / extension of the standard order
		switch r.IntN(3) {
		case 0:
			info.Names = append([]string(nil), std[:1+r.IntN(257)]...)
		case 1:
			for _, s := range std {
				if r.IntN(3) != 0 {
					info.Names = append(info.Names, s)
				}
			}
			if len(info.Names) == 0 {
				info.Names = []string{".notdef"}
			}
		default:
			info.Names = append(append([]string(nil), std...), std[r.IntN(258)])
			classes["post:duplicates"] = true
		}
		classes["post:subset"] = true
	default:
		n := count()
		info.Names = make([]string, n)
		pStd := r.IntN(4) // 0: no standard names
		pDup := r.IntN(3)
		for i := range info.Names {
			switch {
			case pStd > 0 && r.IntN(4) < pStd:
				info.Names[i] = std[r.IntN(258)]
			case pDup > 0 && i > 0 && r.IntN(6) == 0:
				info.Names[i] = info.Names[r.IntN(i)]
				classes["post:duplicates"] = true
			default:
				info.Names[i] = custom()
				classes["post:custom-names"] = true
			}
		}
	}
	var enc []byte
	if k.Guard("post.Info.Encode", func() { enc = info.Encode() }) {
		return
	}
	k.Input(enc)

	// independent parse
	tr, err := tabread.ReadPost(enc)
	k.Eval()
	if err != nil {
		k.Fail("mismatch", "post:independent-reader-rejects", "%v", err)
		return
	}
	namesEqual := func(a, b []string) (int, bool) {
		if (a == nil) != (b == nil) || len(a) != len(b) {
			return -1, false
		}
		for i := range a {
			if a[i] != b[i] {
				return i, false
			}
		}
		return 0, true
	}
	if i, ok := namesEqual(tr.Names, info.Names); !ok {
		if i < 0 {
			k.Fail("mismatch", "post:names-in-bytes-count", "independent reader sees %d names (nil=%v), source has %d (nil=%v)", len(tr.Names), tr.Names == nil, len(info.Names), info.Names == nil)
		} else {
			k.Fail("mismatch", "post:names-in-bytes", "glyph %d: independent reader sees %.40q, source %.40q", i, tr.Names[i], info.Names[i])
		}
	}
	fixed := uint32(0)
	if info.IsFixedPitch {
		fixed = 1
	}
	if tr.UnderlinePosition != int16(info.UnderlinePosition) || tr.UnderlineThickness != int16(info.UnderlineThickness) || (tr.IsFixedPitch != 0) != (fixed != 0) {
		k.Fail("mismatch", "post:header-in-bytes", "underline %d/%d fixed %d in the bytes, source %d/%d %v", tr.UnderlinePosition, tr.UnderlineThickness, tr.IsFixedPitch, info.UnderlinePosition, info.UnderlineThickness, info.IsFixedPitch)
	}
	if tr.Angle() != info.ItalicAngle {
		k.Fail("mismatch", "post:angle-in-bytes", "angle %v in the bytes, source %v", tr.Angle(), info.ItalicAngle)
	}
	switch tr.Version {
	case 0x00010000:
		k.Class("post:format-1")
	case 0x00020000:
		k.Class("post:format-2")
		if tr.Trailing != 0 {
			k.Class("post:format-2-trailing-bytes")
		}
	case 0x00030000:
		k.Class("post:format-3")
	}

	// library read
	var dec *post.Info
	if k.Guard("post.Read", func() { dec, err = post.Read(bytes.NewReader(enc)) }) {
		return
	}
	k.Eval()
	if err != nil {
		k.Fail("mismatch", "post:read-rejects-own-output", "%v", err)
		return
	}
	if i, ok := namesEqual(dec.Names, info.Names); !ok {
		if i < 0 {
			k.Fail("mismatch", "post:roundtrip-count", "%d names read (nil=%v), %d written (nil=%v)", len(dec.Names), dec.Names == nil, len(info.Names), info.Names == nil)
		} else {
			k.Fail("mismatch", "post:roundtrip-name", "glyph %d: %.40q read, %.40q written", i, dec.Names[i], info.Names[i])
		}
	}
	// a later Encode call (of another table) must not disturb this result
	var ag aliasGuard
	ag.Keep("post.Info.Encode", enc)
	var later []byte
	if k.Guard("post.Info.Encode", func() {
		later = (&post.Info{Names: []string{".notdef", "second", "table"}, UnderlineThickness: 77}).Encode()
	}) {
		return
	}
	ag.Keep("post.Info.Encode (second call)", later)
	if k.Guard("post.Info.Encode", func() { info.Encode() }) {
		return
	}
	if ag.Check(k, "post:encode-result-overwritten-by-later-call") {
		if d2, err := post.Read(bytes.NewReader(enc)); err != nil || len(d2.Names) != len(info.Names) {
			k.Fail("mismatch", "post:encode-result-overwritten-by-later-call", "the first table no longer reads back after further Encode calls: %v", err)
		}
	}
	k.Eval()
	// read-modify-write: one glyph renamed in place (same backing array, same
	// length), encoded again right after an Encode of the same list - the
	// bytes must carry the new name (no PRNG use: the cases stay as they were)
	if n := len(info.Names); n > 0 {
		i := k.Index % n
		old := info.Names[i]
		renamed := old + ".r"
		if len(renamed) > 200 || isStd[renamed] {
			renamed = fmt.Sprintf("renamed.%d", i)
		}
		info.Names[i] = renamed
		var enc2 []byte
		if k.Guard("post.Info.Encode", func() { enc2 = info.Encode() }) {
			return
		}
		k.Eval()
		tr2, err := tabread.ReadPost(enc2)
		switch {
		case err != nil:
			k.Fail("mismatch", "post:rename-then-encode:independent-reader-rejects", "%v", err)
		case len(tr2.Names) != n:
			k.Fail("mismatch", "post:rename-then-encode:count", "%d names in the bytes after renaming glyph %d, %d in the list", len(tr2.Names), i, n)
		default:
			for j := range tr2.Names {
				if tr2.Names[j] != info.Names[j] {
					k.Fail("mismatch", "post:rename-then-encode:stale-name", "glyph %d renamed in place from %.40q to %.40q and encoded again: the bytes carry %.40q for glyph %d (list has %.40q)", i, old, renamed, tr2.Names[j], j, info.Names[j])
					break
				}
			}
		}
		k.Class("post:rename-then-encode")
		info.Names[i] = old
		if k.Guard("post.Info.Encode", func() { info.Encode() }) {
			return
		}
	}
	if dec.UnderlinePosition != info.UnderlinePosition || dec.UnderlineThickness != info.UnderlineThickness || dec.IsFixedPitch != info.IsFixedPitch || dec.ItalicAngle != info.ItalicAngle {
		k.Fail("mismatch", "post:roundtrip-header", "read %v %d %d %v, written %v %d %d %v", dec.ItalicAngle, dec.UnderlinePosition, dec.UnderlineThickness, dec.IsFixedPitch,
			info.ItalicAngle, info.UnderlinePosition, info.UnderlineThickness, info.IsFixedPitch)
	}
	for cls := range classes {
		k.Class(cls)
	}
	switch len(info.Names) {
	case 1:
		k.Class("post:1-glyph")
	case 65535:
		k.Class("post:65535-glyphs")
	}
	k.DistinctBytes(enc)

	// x/image
	if (k.Index%4 == 0 || big) && info.Names != nil {
		f, _, err := ximgFont(len(info.Names), map[string][]byte{"post": enc})
		if err != nil {
			k.Skip("ximage:" + err.Error())
			return
		}
		var buf ximage.Buffer
		n := len(info.Names)
		asked := 0
		for j := 0; j < 60; j++ {
			i := r.IntN(n)
			switch j {
			case 0:
				i = 0
			case 1:
				i = n - 1
			}
			if tr.Version == 0x00020000 && (tr.NameIndex[i] > 32767 || int(tr.NameIndex[i]) > 258+4000) {
				continue // x/image: unsupported above 32767; linear scan, keep it cheap
			}
			got, err := f.GlyphName(&buf, ximage.GlyphIndex(i))
			if err != nil {
				k.Fail("mismatch", "post:ximage-error", "x/image GlyphName(%d): %v", i, err)
				return
			}
			if got != info.Names[i] {
				k.Fail("mismatch", "post:ximage-disagrees", "x/image GlyphName(%d) = %.40q, written %.40q", i, got, info.Names[i])
				return
			}
			asked++
		}
		if asked > 0 {
			k.Eval()
			k.Class("ximage:glyphname-agrees")
		}
	}
}
