package props

import (
	"os"
	"time"

	"verif/harness/internal/mon"
)

// SELFTEST exercises the driver's crash and hang diagnosis.  It is only
// registered when VERIF_SELFTEST=1 and is not a property check.
func init() {
	if os.Getenv("VERIF_SELFTEST") != "1" {
		return
	}
	mon.RegisterCfg("SELFTEST", mon.Config{Rule: "driver self test", Shards: 4, HardSec: 3, SoftSec: 1}, func(c *mon.Ctx) {
		c.Stratum("cases", 40, func(k *mon.Case) {
			k.Input([]byte{byte(k.Index)})
			switch k.Index {
			case 7:
				done := make(chan bool)
				go func() { panic("boom in a goroutine") }()
				<-done
			case 13:
				for {
					time.Sleep(time.Millisecond)
				}
			case 21:
				k.Fail("mismatch", "ordinary", "an ordinary violation")
			}
			k.Eval()
			k.Distinct(k.Index)
			k.Class("ran")
		})
	})
}
