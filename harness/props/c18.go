package props

import (
	"bytes"
	"errors"
	"fmt"
	"io"
	"sort"

	"seehuhn.de/go/sfnt"
	"seehuhn.de/go/sfnt/cff"
	"seehuhn.de/go/sfnt/glyf"

	"verif/harness/internal/gen/fontgen"
	"verif/harness/internal/mon"
	"verif/harness/internal/ref/sfntwalk"
)

// C18: I/O faults and truncation surface as errors with accurate byte counts.

func init() {
	mon.RegisterCfg("C18", mon.Config{
		Level: "fault_enumeration",
		Rule:  "for each font of a corpus (generated TrueType/CFF/CID-keyed fonts with and without layout tables, x/image test fonts; thorough adds Go fonts) and each writer API (Write, WriteTrueTypePDF, WriteOpenTypeCFFPDF, cff.Font.Write): EVERY fault offset k in 0..len(output) for a destination that fails at byte k, in two variants (refuse the crossing call / accept a short prefix); for the reader: EVERY truncation length k through a ReaderAt and through a plain io.Reader, and EVERY k for a ReaderAt that returns a non-EOF error for accesses touching offsets >= k, decided against the set of offsets a fault-free read touches (large files: all offsets within 64 bytes of a table boundary plus a stride of 7). distinct = distinct (font, API/variant, k) fault points, pairwise different by construction",
		Assumptions: []string{
			"Write(F) is deterministic (checked by C01), so the fault-free output is the reference for prefix checks",
			"truncation inside the zero padding after the last table is not 'inside table data' and may be accepted",
		},
	}, runC18)
}

var errSentinel = errors.New("injected fault")

// faultyWriter accepts exactly limit bytes.
type faultyWriter struct {
	buf     bytes.Buffer
	limit   int
	partial bool // accept the part of the crossing call that fits
	calls   int
	failed  bool
}

func (w *faultyWriter) Write(p []byte) (int, error) {
	w.calls++
	room := w.limit - w.buf.Len()
	if len(p) <= room {
		w.buf.Write(p)
		return len(p), nil
	}
	w.failed = true
	if w.partial && room > 0 {
		w.buf.Write(p[:room])
		return room, errSentinel
	}
	return 0, errSentinel
}

type c18font struct {
	name   string
	f      *sfnt.Font
	sparse bool   // large file explored at buffer-size boundaries only (quick tier)
	raw    []byte // readers only: these bytes instead of the font's Write output
}

type writerAPI struct {
	name  string
	count bool // returns a byte count
	call  func(f *sfnt.Font, w io.Writer) (int64, error)
	ok    func(f *sfnt.Font) bool
}

var c18apis = []writerAPI{
	{"Write", true, func(f *sfnt.Font, w io.Writer) (int64, error) { return f.Write(w) }, func(f *sfnt.Font) bool { return true }},
	{"WriteTrueTypePDF", true, func(f *sfnt.Font, w io.Writer) (int64, error) { return f.WriteTrueTypePDF(w) }, func(f *sfnt.Font) bool { return f.IsGlyf() }},
	{"WriteOpenTypeCFFPDF", false, func(f *sfnt.Font, w io.Writer) (int64, error) { return -1, f.WriteOpenTypeCFFPDF(w) }, func(f *sfnt.Font) bool { return f.IsCFF() }},
	{"cff.Font.Write", false, func(f *sfnt.Font, w io.Writer) (int64, error) { return -1, f.AsCFF().Write(w) }, func(f *sfnt.Font) bool { return f.IsCFF() }},
}

func c18corpus(c *mon.Ctx) []c18font {
	var fonts []c18font
	// generated fonts: fixed list determined by the seed
	kinds := []fontgen.Opts{
		{Kind: "glyf", MinGlyphs: 4, MaxGlyphs: 8, Layout: "subset", CMap: "4"},
		{Kind: "glyf", MinGlyphs: 12, MaxGlyphs: 20, CMap: "both"},
		{Kind: "cff", MinGlyphs: 4, MaxGlyphs: 8, Layout: "subset", CMap: "4"},
		{Kind: "cff", MinGlyphs: 10, MaxGlyphs: 16, CMap: "12"},
		{Kind: "cid", MinGlyphs: 5, MaxGlyphs: 10, Layout: "subset", CMap: "4"},
		{Kind: "cid", MinGlyphs: 10, MaxGlyphs: 16, CMap: "none"},
	}
	for i, o := range kinds {
		f, _ := fontgen.Font(c.Rand("corpus", i), o)
		if f.CreationTime.IsZero() && f.ModificationTime.IsZero() {
			f.ModificationTime = f.ModificationTime.AddDate(2001, 0, 0)
		}
		if go_, ok := f.Outlines.(*glyf.Outlines); ok && f.Gsub == nil && f.Gpos == nil {
			// make sure that the file ends with a table that is copied raw,
			// so that a lost final byte cannot be noticed by a table decoder
			if go_.Tables == nil {
				go_.Tables = map[string][]byte{}
			}
			go_.Tables["gasp"] = []byte{0, 1, 0, 2, 0, 8, 0, 2, 0xff, 0xff, 0, 3}
		}
		fonts = append(fonts, c18font{fmt.Sprintf("generated-%d-%s", i, o.Kind), f, false, nil})
	}
	if !c.Thorough() {
		// tables beyond 64 KiB in the quick tier as well: one large font per
		// outline kind, explored at buffer-size boundaries
		for i, o := range []fontgen.Opts{
			{Kind: "glyf", MinGlyphs: 1500, MaxGlyphs: 1500, CMap: "4", Plain: true, NoComposite: true},
			{Kind: "cff", MinGlyphs: 1500, MaxGlyphs: 1500, CMap: "4", Plain: true},
		} {
			f, _ := fontgen.Font(c.Rand("corpus-large", i), o)
			if f.CreationTime.IsZero() && f.ModificationTime.IsZero() {
				f.ModificationTime = f.ModificationTime.AddDate(2001, 0, 0)
			}
			fonts = append(fonts, c18font{fmt.Sprintf("generated-large-%d-%s", i, o.Kind), f, true, nil})
		}
	}
	// a file whose physically last table is one the reader never asks for (a
	// signature, vendor data): cutting it short anywhere is a truncation too
	if len(fonts) > 1 {
		buf := &bytes.Buffer{}
		if pv, _ := mon.Try(func() { fonts[1].f.Write(buf) }); pv == nil {
			tail := make([]byte, 41)
			for i := range tail {
				tail[i] = byte(0xA0 + i)
			}
			// under an unknown tag, and under tags of real tables the reader
			// has no use for (the digital signature is the usual last table
			// of signed fonts)
			for _, tag := range []string{"zzzz", "DSIG", "meta", "PCLT", "prop"} {
				raw := addTable(buf.Bytes(), tag, tail)
				if tag == "prop" {
					// as Apple's tools write it: scaler type 'true', the last
					// table a multiple of four bytes long
					raw = withScaler(addTable(buf.Bytes(), tag, tail[:40]), 0x74727565)
				}
				if wf, _ := sfntwalk.Walk(raw); wf != nil {
					last := wf.Tables[0]
					for _, t := range wf.Tables {
						if t.Offset > last.Offset {
							last = t
						}
					}
					if last.Tag == tag {
						name := "generated-1-glyf+trailing-unread-table"
						if tag != "zzzz" {
							name += ":" + tag
						}
						fonts = append(fonts, c18font{name, fonts[1].f, false, raw})
					}
				}
			}
			// an empty table right in front of the unread last table: both
			// are listed with the same offset
			rawE := addTable(addTable(buf.Bytes(), "gasp", []byte{}), "DSIG", tail)
			if wf, _ := sfntwalk.Walk(rawE); wf != nil {
				var last, empty *sfntwalk.Table
				for i := range wf.Tables {
					t := &wf.Tables[i]
					if t.Length > 0 && (last == nil || t.Offset > last.Offset) {
						last = t
					}
					if t.Tag == "gasp" {
						empty = t
					}
				}
				if last != nil && empty != nil && last.Tag == "DSIG" && empty.Length == 0 && empty.Offset == last.Offset {
					fonts = append(fonts, c18font{"generated-1-glyf+empty-table-before-the-unread-last-table", fonts[1].f, false, rawE})
				}
			}
			// the same with an empty table listed at the very end of the file
			// (it occupies no byte): the data before it - a table that is
			// copied raw - can still be cut short
			raw0 := addTable(buf.Bytes(), "zzzz", []byte{})
			if wf, _ := sfntwalk.Walk(raw0); wf != nil {
				var last, lastData *sfntwalk.Table
				for i := range wf.Tables {
					t := &wf.Tables[i]
					if last == nil || t.Offset > last.Offset || t.Offset == last.Offset && t.Length == 0 {
						last = t
					}
					if t.Length > 0 && (lastData == nil || t.Offset > lastData.Offset) {
						lastData = t
					}
				}
				if last != nil && last.Tag == "zzzz" && last.Length == 0 && lastData != nil && lastData.Tag == "gasp" {
					fonts = append(fonts, c18font{"generated-1-glyf+trailing-empty-table", fonts[1].f, false, raw0})
				}
			}
		}
	}
	for _, cf := range corpusFiles(c) {
		small := len(cf.data) < 20000
		if !small && !c.Thorough() {
			continue // the twelve Go fonts (150-180 KB each) are thorough-tier only
		}
		f, err := sfnt.Read(bytes.NewReader(cf.data))
		if err != nil {
			continue
		}
		fonts = append(fonts, c18font{cf.name, f, false, nil})
	}
	return fonts
}

// faultPoints lists the k values explored for an output of length L.
func faultPoints(out []byte, exhaustiveBelow int, sparse bool) []int {
	L := len(out)
	if L <= exhaustiveBelow {
		ks := make([]int, L+3)
		for i := range ks {
			ks[i] = i
		}
		return ks
	}
	set := map[int]bool{}
	if sparse {
		// a large file in the quick tier: offsets around the multiples of
		// 4 KiB counted from the start of the file and from the start of
		// every table (where buffered or chunked writers switch), a coarse
		// stride, and (below) the table boundaries
		mark := func(b int) {
			for d := -2; d <= 2; d++ {
				if k := b + d; k >= 0 && k <= L+2 {
					set[k] = true
				}
			}
		}
		for k := 0; k <= L+2; k += 4096 {
			mark(k)
		}
		for k := 0; k <= L+2; k += 997 {
			set[k] = true
		}
		if wf, _ := sfntwalk.Walk(out); wf != nil {
			for _, t := range wf.Tables {
				for off := 0; off <= int(t.Length); off += 4096 {
					mark(int(t.Offset) + off)
				}
				for d := -8; d <= 8; d++ {
					for _, b := range []int{int(t.Offset), int(t.Offset + t.Length)} {
						if k := b + d; k >= 0 && k <= L+2 {
							set[k] = true
						}
					}
				}
			}
		}
		var ks []int
		for k := range set {
			ks = append(ks, k)
		}
		sort.Ints(ks)
		return ks
	}
	for k := 0; k <= L+2; k += 7 {
		set[k] = true
	}
	if wf, _ := sfntwalk.Walk(out); wf != nil {
		bounds := []int{0, 12, 12 + 16*len(wf.Tables), L}
		for _, t := range wf.Tables {
			bounds = append(bounds, int(t.Offset), int(t.Offset+t.Length))
		}
		for _, b := range bounds {
			for d := -64; d <= 64; d++ {
				if k := b + d; k >= 0 && k <= L+2 {
					set[k] = true
				}
			}
		}
	}
	var ks []int
	for k := range set {
		ks = append(ks, k)
	}
	sort.Ints(ks)
	return ks
}

// recordingReaderAt records the largest offset touched.
type recordingReaderAt struct {
	data    []byte
	touched []bool
}

func (r *recordingReaderAt) ReadAt(p []byte, off int64) (int, error) {
	if off < 0 {
		return 0, errors.New("negative offset")
	}
	if off >= int64(len(r.data)) {
		return 0, io.EOF
	}
	n := copy(p, r.data[off:])
	for i := off; i < off+int64(n); i++ {
		r.touched[i] = true
	}
	if n < len(p) {
		return n, io.EOF
	}
	return n, nil
}

// failingReaderAt fails (not EOF) for any access touching an offset >= k.
type failingReaderAt struct {
	data []byte
	k    int
}

func (r *failingReaderAt) ReadAt(p []byte, off int64) (int, error) {
	if off < 0 {
		return 0, errors.New("negative offset")
	}
	if off >= int64(len(r.data)) {
		if int(off) >= r.k || len(p) > 0 {
			// an access at or beyond EOF touches no stored byte; the fault
			// applies to offsets >= k that exist
		}
		return 0, io.EOF
	}
	end := off + int64(len(p))
	if end > int64(len(r.data)) {
		end = int64(len(r.data))
	}
	if int(end) > r.k {
		// deliver the healthy prefix, then fail
		n := 0
		if int(off) < r.k {
			n = copy(p, r.data[off:r.k])
		}
		return n, errSentinel
	}
	n := copy(p, r.data[off:end])
	if n < len(p) {
		return n, io.EOF
	}
	return n, nil
}

// plainReader hides ReadAt.
type plainReader struct{ r io.Reader }

func (p plainReader) Read(b []byte) (int, error) { return p.r.Read(b) }

// failingReader streams data and fails (not EOF) once offset k is reached.
type failingReader struct {
	data []byte
	k    int
	pos  int
}

func (r *failingReader) Read(p []byte) (int, error) {
	if r.pos >= len(r.data) {
		return 0, io.EOF
	}
	end := min(r.pos+len(p), len(r.data))
	if end > r.k {
		n := 0
		if r.pos < r.k {
			n = copy(p, r.data[r.pos:r.k])
			r.pos += n
		}
		return n, errSentinel
	}
	n := copy(p, r.data[r.pos:end])
	r.pos += n
	return n, nil
}

func runC18(c *mon.Ctx) {
	fonts := c18corpus(c)
	const block = 128
	type unit struct {
		font    int
		api     int // index into c18apis, or -1 for readers
		variant int
		ks      []int
		ref     []byte
	}
	// Precompute the fault-free outputs (cheap: a dozen small fonts).
	var units []unit
	for fi, cf := range fonts {
		for ai, api := range c18apis {
			if !api.ok(cf.f) || cf.raw != nil {
				continue
			}
			buf := &bytes.Buffer{}
			if pv, _ := mon.Try(func() { api.call(cf.f, buf) }); pv != nil {
				continue
			}
			ref := buf.Bytes()
			ks := faultPoints(ref, 24000, cf.sparse)
			for v := 0; v < 2; v++ {
				for i := 0; i < len(ks); i += block {
					units = append(units, unit{fi, ai, v, ks[i:min(i+block, len(ks))], ref})
				}
			}
		}
		// readers work on the Write output
		buf := &bytes.Buffer{}
		if pv, _ := mon.Try(func() { cf.f.Write(buf) }); pv != nil {
			continue
		}
		ref := buf.Bytes()
		if cf.raw != nil {
			ref = cf.raw
		}
		ks := faultPoints(ref, 24000, cf.sparse)
		for v := 0; v < 4; v++ {
			for i := 0; i < len(ks); i += block {
				units = append(units, unit{fi, -1, v, ks[i:min(i+block, len(ks))], ref})
			}
		}
	}
	readerVariant := []string{"truncated/ReaderAt", "truncated/Reader", "failing/ReaderAt", "failing/Reader"}

	c.Stratum("faults", len(units), func(k *mon.Case) {
		u := units[k.Index]
		cf := fonts[u.font]
		L := len(u.ref)
		if u.api >= 0 {
			api := c18apis[u.api]
			for _, kk := range u.ks {
				w := &faultyWriter{limit: kk, partial: u.variant == 1}
				var n int64
				var err error
				k.Step(fmt.Sprintf("%s %s variant=%d k=%d", cf.name, api.name, u.variant, kk))
				if k.Guard(api.name+" with failing destination", func() { n, err = api.call(cf.f, w) }) {
					return
				}
				k.Eval()
				k.DistinctCount(1)
				got := w.buf.Bytes()
				where := fmt.Sprintf("%s on %s, destination accepts %d of %d bytes, variant %s", api.name, cf.name, kk, L, []string{"refuse-crossing-call", "short-write"}[u.variant])
				if kk < L {
					if err == nil {
						k.Fail("mismatch", "write-fault-swallowed:"+api.name, "%s: returned nil error", where)
						return
					}
					if errors.Is(err, errSentinel) {
						k.Class("error-wraps-cause")
					} else {
						k.Class("error-does-not-wrap-cause")
					}
				} else {
					if err != nil {
						k.Fail("mismatch", "spurious-write-error:"+api.name, "%s: error %v although everything fits", where, err)
						return
					}
					if api.count && n != int64(L) {
						k.Fail("mismatch", "wrong-count-on-success:"+api.name, "%s: returned count %d, file length %d", where, n, L)
						return
					}
					k.Class("write-success:" + api.name)
				}
				if api.count && n != int64(len(got)) {
					k.Fail("mismatch", "wrong-count:"+api.name, "%s: returned count %d, destination accepted %d bytes", where, n, len(got))
					return
				}
				if !bytes.Equal(got, u.ref[:min(len(got), L)]) || len(got) > L {
					k.Fail("mismatch", "not-a-prefix:"+api.name, "%s: destination content is not a prefix of the fault-free output (differs at %d)", where, firstDiff(got, u.ref))
					return
				}
				if kk < L {
					k.Class(fmt.Sprintf("write-fault:%s:%s", api.name, []string{"refuse", "short"}[u.variant]))
					k.Class(fmt.Sprintf("failing-call-number=%d", min(w.calls, 40)))
				}
			}
			if k.Index%97 == 0 {
				k.Sample(fmt.Sprintf("%s on %s (%d bytes), variant %d, k=%d..%d", api.name, cf.name, L, u.variant, u.ks[0], u.ks[len(u.ks)-1]))
			}
			return
		}

		// ---- readers ----
		wf, _ := sfntwalk.Walk(u.ref)
		endOfData := 0
		if wf != nil {
			for _, t := range wf.Tables {
				endOfData = max(endOfData, int(t.Offset+t.Length))
			}
		}
		// reference font and touched offsets (fault-free run)
		rec := &recordingReaderAt{data: u.ref, touched: make([]bool, L)}
		ref, rerr := sfnt.Read(rec)
		if rerr != nil {
			k.Fail("mismatch", "harness:reference-read-failed", "fault-free read of %s failed: %v", cf.name, rerr)
			return
		}
		maxTouched := -1
		for i, t := range rec.touched {
			if t {
				maxTouched = i
			}
		}
		for _, kk := range u.ks {
			if kk > L {
				continue
			}
			var g *sfnt.Font
			var err error
			where := fmt.Sprintf("%s on %s (%d bytes, table data ends at %d), k=%d", readerVariant[u.variant], cf.name, L, endOfData, kk)
			k.Step(where)
			var src io.Reader
			mustFail := false
			switch u.variant {
			case 0:
				src = bytes.NewReader(u.ref[:kk])
				mustFail = kk < endOfData
			case 1:
				src = plainReader{bytes.NewReader(u.ref[:kk])}
				mustFail = kk < endOfData
			case 2:
				src = &failingReaderAt{data: u.ref, k: kk}
				mustFail = kk <= maxTouched
			case 3:
				src = &failingReader{data: u.ref, k: kk}
				mustFail = kk < L // a streaming reader has to consume the whole file
			}
			if k.Guard("sfnt.Read "+readerVariant[u.variant], func() { g, err = sfnt.Read(src) }) {
				return
			}
			k.Eval()
			k.DistinctCount(1)
			if mustFail {
				if err == nil {
					k.Fail("mismatch", "read-fault-swallowed:"+readerVariant[u.variant], "%s: Read succeeded", where)
					return
				}
				k.Class("read-fault:" + readerVariant[u.variant])
				if cf.raw != nil {
					k.Class("read-fault:" + cf.name)
				}
			} else if err == nil {
				if u.variant >= 2 || kk == L {
					if d := diffFonts(ref, g); d != "" {
						k.Fail("mismatch", "read-differs-without-fault:"+readerVariant[u.variant], "%s: no needed byte was affected but the font differs:\n%s", where, d)
						return
					}
				}
				k.Class("read-success:" + readerVariant[u.variant])
			} else if u.variant >= 2 {
				// the fault lies beyond everything the fault-free read touches
				k.Fail("mismatch", "spurious-read-error:"+readerVariant[u.variant], "%s: error %v although no offset >= k is needed (largest touched offset %d)", where, err, maxTouched)
				return
			}
		}
	})
	c.Require("write-fault:Write:refuse", "write-fault:Write:short", "write-fault:WriteTrueTypePDF:short", "write-fault:WriteOpenTypeCFFPDF:short", "write-fault:cff.Font.Write:refuse",
		"write-success:Write", "read-fault:truncated/ReaderAt", "read-fault:truncated/Reader", "read-fault:failing/ReaderAt", "read-fault:failing/Reader", "read-success:failing/ReaderAt",
		"read-fault:generated-1-glyf+trailing-unread-table", "read-fault:generated-1-glyf+trailing-empty-table", "read-fault:generated-1-glyf+trailing-unread-table:DSIG", "read-fault:generated-1-glyf+trailing-unread-table:prop", "read-fault:generated-1-glyf+empty-table-before-the-unread-last-table")
	_ = cff.OpMoveTo
}

// sfnt.Read takes an io.Reader and uses ReadAt when available; sequential
// reads on the ReaderAt sources are not expected.
func (r *recordingReaderAt) Read(p []byte) (int, error) {
	return 0, errors.New("unexpected sequential read on a ReaderAt source")
}

func (r *failingReaderAt) Read(p []byte) (int, error) {
	return 0, errors.New("unexpected sequential read on a ReaderAt source")
}
