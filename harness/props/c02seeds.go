package props

// C02 seeds: valid inputs for every decoder.
//   (1) tables cut out of the corpus fonts by the independent container walker,
//   (2) the repository's own fuzz corpora (read at run time from VERIF_REPO),
//   (3) tables produced by the library's encoders from simple generated values.

import (
	"bytes"
	"encoding/binary"
	"fmt"
	"math/rand/v2"
	"os"
	"path/filepath"
	"sort"
	"strconv"
	"strings"
	"sync"
	"time"
	"unicode/utf16"

	"golang.org/x/text/language"
	"seehuhn.de/go/geom/matrix"
	"seehuhn.de/go/postscript/cid"
	"seehuhn.de/go/postscript/funit"
	"seehuhn.de/go/postscript/type1"

	"seehuhn.de/go/sfnt"
	"seehuhn.de/go/sfnt/cff"
	"seehuhn.de/go/sfnt/cmap"
	"seehuhn.de/go/sfnt/glyf"
	"seehuhn.de/go/sfnt/glyph"
	"seehuhn.de/go/sfnt/head"
	"seehuhn.de/go/sfnt/hmtx"
	"seehuhn.de/go/sfnt/kern"
	"seehuhn.de/go/sfnt/maxp"
	"seehuhn.de/go/sfnt/name"
	"seehuhn.de/go/sfnt/opentype/anchor"
	"seehuhn.de/go/sfnt/opentype/classdef"
	"seehuhn.de/go/sfnt/opentype/coverage"
	"seehuhn.de/go/sfnt/opentype/gdef"
	"seehuhn.de/go/sfnt/opentype/gtab"
	"seehuhn.de/go/sfnt/opentype/markarray"
	"seehuhn.de/go/sfnt/os2"
	"seehuhn.de/go/sfnt/post"

	"verif/harness/internal/ref/glyfref"
	"verif/harness/internal/ref/sfntwalk"
)

// decoder names (also used as coverage-class and witness prefixes)
const (
	dSfnt     = "sfnt.Read"
	dHeader   = "header.Read"
	dCFF      = "cff.Read"
	dCmap     = "cmap.Decode"
	dGlyf     = "glyf.Decode"
	dGsub     = "gtab.Read(GSUB)"
	dGpos     = "gtab.Read(GPOS)"
	dGdef     = "gdef.Read"
	dCoverage = "coverage.Read"
	dCovSet   = "coverage.ReadSet"
	dClassdef = "classdef.Read"
	dName     = "name.Decode"
	dHead     = "head.Read"
	dHmtx     = "hmtx.Decode"
	dMaxp     = "maxp.Read"
	dOS2      = "os2.Read"
	dPost     = "post.Read"
	dKern     = "kern.Read"
)

var c02decoders = []string{dSfnt, dHeader, dCFF, dCmap, dGlyf, dGsub, dGpos, dGdef, dCoverage, dCovSet,
	dClassdef, dName, dHead, dHmtx, dMaxp, dOS2, dPost, dKern}

type c02seed struct {
	dec    string
	origin string // corpus:<file>/<tag> | fuzz:<target> | gen:<what>
	data   []byte
}

type c02seedSet struct {
	all   []c02seed
	byDec map[string][]int // indices into all
	fonts []c02font        // whole files, parsed by sfntwalk
	notes []string
}

type c02font struct {
	name string
	data []byte
	file *sfntwalk.File
}

// ---- packing of multi-part inputs -------------------------------------

// glyf.Decode takes (glyf, loca, locaFormat): packed as
// [locaFormat int16][uint32 len(loca)][loca][glyf]
func c02packGlyf(glyfData, locaData []byte, locaFormat int16) []byte {
	out := make([]byte, 6, 6+len(glyfData)+len(locaData))
	binary.BigEndian.PutUint16(out, uint16(locaFormat))
	binary.BigEndian.PutUint32(out[2:], uint32(len(locaData)))
	out = append(out, locaData...)
	out = append(out, glyfData...)
	return out
}

func c02unpackGlyf(b []byte) *glyf.Encoded {
	if len(b) < 6 {
		return &glyf.Encoded{GlyfData: nil, LocaData: b, LocaFormat: 0}
	}
	f := int16(binary.BigEndian.Uint16(b))
	n := int(binary.BigEndian.Uint32(b[2:]))
	rest := b[6:]
	if n < 0 || n > len(rest) {
		n = len(rest)
	}
	// both tables in memory of their own, without spare capacity behind
	// them (as when each table is read from the file into its own buffer):
	// a slice expression that reaches past the end of the table fails
	loca := append([]byte(nil), rest[:n]...)
	gl := append([]byte(nil), rest[n:]...)
	return &glyf.Encoded{LocaFormat: f, LocaData: loca[:len(loca):len(loca)], GlyfData: gl[:len(gl):len(gl)]}
}

// hmtx.Decode takes (hhea, hmtx): packed as hhea (36 bytes) followed by hmtx.
func c02packHmtx(hhea, hmtxData []byte) []byte {
	out := append([]byte(nil), hhea...)
	for len(out) < 36 {
		out = append(out, 0)
	}
	return append(out[:36:36], hmtxData...)
}

func c02unpackHmtx(b []byte) (hhea, hmtxData []byte) {
	if len(b) <= 36 {
		return b, nil
	}
	return b[:36], b[36:]
}

// ---- small big-endian writer -------------------------------------------

type bw struct{ b []byte }

func (w *bw) u8(v ...int) *bw {
	for _, x := range v {
		w.b = append(w.b, byte(x))
	}
	return w
}
func (w *bw) u16(v ...int) *bw {
	for _, x := range v {
		w.b = append(w.b, byte(x>>8), byte(x))
	}
	return w
}
func (w *bw) u32(v ...int) *bw {
	for _, x := range v {
		w.b = append(w.b, byte(x>>24), byte(x>>16), byte(x>>8), byte(x))
	}
	return w
}
func (w *bw) raw(b ...byte) *bw { w.b = append(w.b, b...); return w }
func (w *bw) str(s string) *bw  { w.b = append(w.b, s...); return w }
func (w *bw) len() int          { return len(w.b) }
func (w *bw) put16(at, v int)   { w.b[at] = byte(v >> 8); w.b[at+1] = byte(v) }
func (w *bw) put32(at, v int) {
	w.b[at] = byte(v >> 24)
	w.b[at+1] = byte(v >> 16)
	w.b[at+2] = byte(v >> 8)
	w.b[at+3] = byte(v)
}
func (w *bw) pad4() *bw {
	for len(w.b)%4 != 0 {
		w.b = append(w.b, 0)
	}
	return w
}

// c02sfnt assembles a container from tables (own writer, independent of
// header.Write: sorted directory, 4-byte alignment, checksums, search fields).
func c02sfnt(scaler uint32, tables map[string][]byte) []byte {
	tags := make([]string, 0, len(tables))
	for t := range tables {
		tags = append(tags, t)
	}
	sort.Strings(tags)
	n := len(tags)
	w := &bw{}
	p2, lg := 1, 0
	for p2*2 <= n {
		p2 *= 2
		lg++
	}
	w.u32(int(scaler)).u16(n, 16*p2, lg, 16*n-16*p2)
	off := 12 + 16*n
	for _, t := range tags {
		d := tables[t]
		w.str(t).u32(int(sfntwalk.Sum(d)), off, len(d))
		off += (len(d) + 3) &^ 3
	}
	for _, t := range tags {
		w.raw(tables[t]...).pad4()
	}
	return w.b
}

// c02gtabWrap builds a complete GSUB/GPOS table around one lookup whose
// subtables are given as raw bytes (used for the repository's per-subtable
// fuzz corpora and for hand-built subtables).
func c02gtabWrap(lookupType, flags int, subtables ...[]byte) []byte {
	w := &bw{}
	w.u16(1, 0, 10, 30, 44)
	// script list at 10: one script DFLT with default LangSys
	w.u16(1).str("DFLT").u16(8) // scriptCount, tag, offset
	w.u16(4, 0)                 // defaultLangSys offset, langSysCount
	w.u16(0, 0xFFFF, 1, 0)      // lookupOrder, required, featureIndexCount, featureIndex 0
	// feature list at 30
	for w.len() < 30 {
		w.u8(0)
	}
	w.u16(1).str("test").u16(8) // featureCount, tag, offset
	w.u16(0, 1, 0)              // featureParams, lookupIndexCount, lookup 0
	// lookup list at 44
	for w.len() < 44 {
		w.u8(0)
	}
	w.u16(1, 4) // lookupCount, offset of lookup 0
	lookupPos := w.len()
	w.u16(lookupType, flags, len(subtables))
	offPos := w.len()
	for range subtables {
		w.u16(0)
	}
	if flags&0x10 != 0 {
		w.u16(0)
	}
	for i, s := range subtables {
		w.put16(offPos+2*i, w.len()-lookupPos)
		w.raw(s...)
	}
	return w.b
}

// c02cmapWrap builds a cmap table with one subtable under the given key.
func c02cmapWrap(platform, encoding int, sub []byte) []byte {
	w := &bw{}
	w.u16(0, 1, platform, encoding).u32(12).raw(sub...)
	return w.b
}

// ---- fuzz corpus files ---------------------------------------------------

// c02parseFuzzFile parses a "go test fuzz v1" corpus file and returns its
// []byte / string arguments and integer arguments in order.
func c02parseFuzzFile(b []byte) (blobs [][]byte, ints []int64, ok bool) {
	lines := strings.Split(string(b), "\n")
	if len(lines) == 0 || strings.TrimSpace(lines[0]) != "go test fuzz v1" {
		return nil, nil, false
	}
	for _, l := range lines[1:] {
		l = strings.TrimSpace(l)
		if l == "" {
			continue
		}
		i := strings.Index(l, "(")
		if i < 0 || !strings.HasSuffix(l, ")") {
			return nil, nil, false
		}
		typ, arg := l[:i], l[i+1:len(l)-1]
		switch typ {
		case "[]byte", "string":
			s, err := strconv.Unquote(arg)
			if err != nil {
				return nil, nil, false
			}
			blobs = append(blobs, []byte(s))
		case "int", "int8", "int16", "int32", "int64", "uint", "uint8", "uint16", "uint32", "uint64", "byte":
			v, err := strconv.ParseInt(arg, 0, 64)
			if err != nil {
				u, err2 := strconv.ParseUint(arg, 0, 64)
				if err2 != nil {
					return nil, nil, false
				}
				v = int64(u)
			}
			ints = append(ints, v)
		case "rune":
			// rune('x') or a number: not used by any byte-level target
			ints = append(ints, 0)
		case "bool", "float32", "float64":
		default:
			return nil, nil, false
		}
	}
	return blobs, ints, true
}

func c02repoDir() string {
	if d := os.Getenv("VERIF_REPO"); d != "" {
		return d
	}
	return "/repo"
}

func c02corpusDir() string {
	if exe, err := os.Executable(); err == nil {
		d := filepath.Join(filepath.Dir(exe), "..", "corpus")
		if st, err := os.Stat(d); err == nil && st.IsDir() {
			return d
		}
	}
	return "/verif/corpus"
}

// fuzz target directory (relative to the repository) -> how its []byte
// arguments map to decoder inputs
func (s *c02seedSet) loadFuzz() {
	repo := c02repoDir()
	add := func(dec, target string, data []byte) {
		s.add(dec, "fuzz:"+target, data)
	}
	type target struct {
		dir string
		use func(target string, blobs [][]byte, ints []int64)
	}
	one := func(dec string) func(string, [][]byte, []int64) {
		return func(t string, bl [][]byte, _ []int64) {
			if len(bl) >= 1 {
				add(dec, t, bl[0])
			}
		}
	}
	gsubSub := func(lookupType int) func(string, [][]byte, []int64) {
		return func(t string, bl [][]byte, _ []int64) {
			if len(bl) >= 1 {
				add(dGsub, t, c02gtabWrap(lookupType, 0, bl[0]))
			}
		}
	}
	targets := []target{
		{"testdata/fuzz/FuzzFont", func(t string, bl [][]byte, _ []int64) {
			if len(bl) >= 1 {
				add(dSfnt, t, bl[0])
				add(dHeader, t, bl[0])
			}
		}},
		{"post/testdata/fuzz/FuzzPost", one(dPost)},
		{"name/testdata/fuzz/FuzzNames", one(dName)},
		{"head/testdata/fuzz/FuzzHead", one(dHead)},
		{"os2/testdata/fuzz/FuzzOS2", one(dOS2)},
		{"cff/testdata/fuzz/FuzzFont", one(dCFF)},
		{"glyf/testdata/fuzz/FuzzGlyf", func(t string, bl [][]byte, in []int64) {
			if len(bl) >= 2 {
				f := int16(0)
				if len(in) >= 1 {
					f = int16(in[0])
				}
				add(dGlyf, t, c02packGlyf(bl[0], bl[1], f))
			}
		}},
		{"hmtx/testdata/fuzz/FuzzHmtx", func(t string, bl [][]byte, _ []int64) {
			if len(bl) >= 2 && len(bl[0]) == 36 {
				add(dHmtx, t, c02packHmtx(bl[0], bl[1]))
			} else if len(bl) >= 1 {
				add(dHmtx, t, bl[0])
			}
		}},
		{"opentype/gdef/testdata/fuzz/FuzzGdef", one(dGdef)},
		{"opentype/coverage/testdata/fuzz/FuzzCoverageTable", func(t string, bl [][]byte, _ []int64) {
			if len(bl) >= 1 {
				add(dCoverage, t, bl[0])
				add(dCovSet, t, bl[0])
			}
		}},
		{"opentype/classdef/testdata/fuzz/FuzzClassDef", one(dClassdef)},
		{"cmap/testdata/fuzz/FuzzCmapHeader", one(dCmap)},
		{"cmap/testdata/fuzz/FuzzFormat4", func(t string, bl [][]byte, _ []int64) {
			if len(bl) >= 1 {
				add(dCmap, t, c02cmapWrap(3, 1, bl[0]))
			}
		}},
		{"opentype/gtab/testdata/fuzz/FuzzGsub1_2", gsubSub(1)},
		{"opentype/gtab/testdata/fuzz/FuzzGsub3_1", gsubSub(3)},
		{"opentype/gtab/testdata/fuzz/FuzzGsub4_1", gsubSub(4)},
		{"opentype/gtab/testdata/fuzz/FuzzSeqContext1", gsubSub(5)},
		{"opentype/gtab/testdata/fuzz/FuzzSeqContext2", gsubSub(5)},
		{"opentype/gtab/testdata/fuzz/FuzzSeqContext3", gsubSub(5)},
		{"opentype/gtab/testdata/fuzz/FuzzChainedSeqContext1", gsubSub(6)},
		{"opentype/gtab/testdata/fuzz/FuzzChainedSeqContext2", gsubSub(6)},
		{"opentype/gtab/testdata/fuzz/FuzzGpos1_1", func(t string, bl [][]byte, _ []int64) {
			if len(bl) >= 1 {
				add(dGpos, t, c02gtabWrap(1, 0, bl[0]))
			}
		}},
		{"opentype/gtab/testdata/fuzz/FuzzLookupList", func(t string, bl [][]byte, _ []int64) {
			if len(bl) >= 1 {
				// a lookup list: put it behind a header with minimal script and feature lists
				for _, dec := range []string{dGsub, dGpos} {
					w := &bw{}
					w.u16(1, 0, 10, 30, 44)
					w.u16(1).str("DFLT").u16(8).u16(4, 0).u16(0, 0xFFFF, 1, 0)
					for w.len() < 30 {
						w.u8(0)
					}
					w.u16(1).str("test").u16(8).u16(0, 1, 0)
					for w.len() < 44 {
						w.u8(0)
					}
					w.raw(bl[0]...)
					add(dec, t, w.b)
				}
			}
		}},
		{"opentype/gtab/testdata/fuzz/FuzzScriptList", func(t string, bl [][]byte, _ []int64) {
			if len(bl) >= 1 {
				w := &bw{}
				w.u16(1, 0, 24, 10, 22)     // scriptList at 24, featureList at 10, lookupList at 22
				w.u16(1).str("test").u16(8) // feature list 10..18
				w.u16(0, 0)                 // feature table 18..22: no params, no lookups
				w.u16(0)                    // lookup list 22..24: zero lookups
				w.raw(bl[0]...)
				add(dGsub, t, w.b)
			}
		}},
		{"opentype/gtab/testdata/fuzz/FuzzFeatureList", func(t string, bl [][]byte, _ []int64) {
			if len(bl) >= 1 {
				w := &bw{}
				w.u16(1, 0, 10, 30, 28)
				w.u16(1).str("DFLT").u16(8) // script list 10..18
				w.u16(4, 0)                 // script table 18..22
				w.u16(0, 0xFFFF, 0)         // default LangSys 22..28
				w.u16(0)                    // lookup list 28..30
				w.raw(bl[0]...)
				add(dGsub, t, w.b)
			}
		}},
	}
	nFiles := 0
	for _, tg := range targets {
		dir := filepath.Join(repo, tg.dir)
		ents, err := os.ReadDir(dir)
		if err != nil {
			continue
		}
		names := make([]string, 0, len(ents))
		for _, e := range ents {
			if !e.IsDir() {
				names = append(names, e.Name())
			}
		}
		sort.Strings(names)
		for _, n := range names {
			b, err := os.ReadFile(filepath.Join(dir, n))
			if err != nil {
				continue
			}
			bl, in, ok := c02parseFuzzFile(b)
			if !ok {
				continue
			}
			nFiles++
			tg.use(filepath.Base(tg.dir), bl, in)
		}
	}
	s.notes = append(s.notes, "fuzz corpus files used as seeds: "+strconv.Itoa(nFiles)+" (from "+repo+")")
}

func (s *c02seedSet) add(dec, origin string, data []byte) {
	// drop exact duplicates per decoder
	for _, i := range s.byDec[dec] {
		if bytes.Equal(s.all[i].data, data) {
			return
		}
	}
	s.byDec[dec] = append(s.byDec[dec], len(s.all))
	s.all = append(s.all, c02seed{dec: dec, origin: origin, data: data})
}

// addFontTables cuts a font file into per-decoder seeds.
func (s *c02seedSet) addFontTables(origin string, data []byte, whole bool) {
	f, _ := sfntwalk.Walk(data)
	if f == nil {
		return
	}
	if whole {
		s.add(dSfnt, origin, data)
		s.add(dHeader, origin, data)
		s.fonts = append(s.fonts, c02font{name: origin, data: data, file: f})
	}
	get := func(tag string) []byte {
		if t := f.Get(tag); t != nil && t.Data != nil {
			return t.Data
		}
		return nil
	}
	for tag, dec := range map[string]string{"cmap": dCmap, "name": dName, "post": dPost, "OS/2": dOS2, "head": dHead,
		"maxp": dMaxp, "kern": dKern, "GSUB": dGsub, "GPOS": dGpos, "GDEF": dGdef, "CFF ": dCFF} {
		if d := get(tag); d != nil {
			s.add(dec, origin+"/"+tag, d)
		}
	}
	if g, l, h := get("glyf"), get("loca"), get("head"); g != nil && l != nil && len(h) >= 54 {
		s.add(dGlyf, origin+"/glyf", c02packGlyf(g, l, int16(binary.BigEndian.Uint16(h[50:]))))
	}
	if hh, hm := get("hhea"), get("hmtx"); len(hh) == 36 && hm != nil {
		s.add(dHmtx, origin+"/hmtx", c02packHmtx(hh, hm))
	}
}

func (s *c02seedSet) loadCorpus() {
	dir := c02corpusDir()
	ents, _ := os.ReadDir(dir)
	var names []string
	for _, e := range ents {
		if !e.IsDir() {
			names = append(names, e.Name())
		}
	}
	sort.Strings(names)
	for _, n := range names {
		b, err := os.ReadFile(filepath.Join(dir, n))
		if err != nil {
			continue
		}
		s.addFontTables("corpus:"+n, b, true)
	}
	s.notes = append(s.notes, "corpus fonts: "+strconv.Itoa(len(names))+" (from "+dir+")")
}

// ---- generated values, encoded by the library ---------------------------

func c02cov(gids ...int) coverage.Table {
	t := coverage.Table{}
	for i, g := range gids {
		t[glyph.ID(g)] = i
	}
	return t
}

func c02set(gids ...int) coverage.Set {
	t := coverage.Set{}
	for _, g := range gids {
		t[glyph.ID(g)] = true
	}
	return t
}

func c02gids(g ...int) []glyph.ID {
	out := make([]glyph.ID, len(g))
	for i, x := range g {
		out[i] = glyph.ID(x)
	}
	return out
}

func c02gsubInfo() *gtab.Info {
	lk := func(tp uint16, fl gtab.LookupFlags, st ...gtab.Subtable) *gtab.LookupTable {
		return &gtab.LookupTable{Meta: &gtab.LookupMetaInfo{LookupType: tp, LookupFlags: fl}, Subtables: st}
	}
	act := []gtab.SeqLookup{{SequenceIndex: 0, LookupListIndex: 0}, {SequenceIndex: 1, LookupListIndex: 1}}
	ll := gtab.LookupList{
		lk(1, 0, &gtab.Gsub1_1{Cov: c02set(1, 2, 3), Delta: 3}),
		lk(1, gtab.IgnoreMarks, &gtab.Gsub1_2{Cov: c02cov(2, 4, 7), SubstituteGlyphIDs: c02gids(5, 6, 1)}),
		lk(2, 0, &gtab.Gsub2_1{Cov: c02cov(1, 3), Repl: [][]glyph.ID{c02gids(4, 5), c02gids(6, 7, 8)}}),
		lk(3, 0, &gtab.Gsub3_1{Cov: c02cov(2, 5), Alternates: [][]glyph.ID{c02gids(3, 4), c02gids(6)}}),
		lk(4, gtab.IgnoreMarks, &gtab.Gsub4_1{Cov: c02cov(1, 2), Repl: [][]gtab.Ligature{
			{{In: c02gids(2, 3), Out: 9}, {In: c02gids(2), Out: 10}},
			{{In: c02gids(1), Out: 11}},
		}}),
		lk(5, 0, &gtab.SeqContext1{Cov: c02cov(1, 2), Rules: [][]*gtab.SeqRule{
			{{Input: c02gids(2, 3), Actions: act}},
			{{Input: c02gids(4), Actions: act[:1]}, {Input: nil, Actions: act[:1]}},
		}}),
		lk(5, 0, &gtab.SeqContext2{Cov: c02cov(1, 2, 3), Input: classdef.Table{1: 1, 2: 1, 3: 2, 4: 2},
			Rules: [][]*gtab.ClassSeqRule{nil, {{Input: []uint16{2, 1}, Actions: act}}, {{Input: []uint16{1}, Actions: act[:1]}}}}),
		lk(5, 0, &gtab.SeqContext3{Input: []coverage.Set{c02set(1, 2), c02set(3), c02set(4, 5, 6)}, Actions: act}),
		lk(6, 0, &gtab.ChainedSeqContext1{Cov: c02cov(1, 2), Rules: [][]*gtab.ChainedSeqRule{
			{{Backtrack: c02gids(5), Input: c02gids(2), Lookahead: c02gids(6, 7), Actions: act}},
			{{Input: c02gids(3), Actions: act[:1]}},
		}}),
		lk(6, 0, &gtab.ChainedSeqContext2{Cov: c02cov(1, 2), Backtrack: classdef.Table{5: 1}, Input: classdef.Table{1: 1, 2: 2, 3: 1},
			Lookahead: classdef.Table{6: 1, 7: 2},
			Rules: [][]*gtab.ChainedClassSeqRule{nil, {{Backtrack: []uint16{1}, Input: []uint16{1}, Lookahead: []uint16{1, 2}, Actions: act}},
				{{Input: []uint16{1}, Actions: act[:1]}}}}),
		lk(6, gtab.IgnoreLigatures, &gtab.ChainedSeqContext3{Backtrack: []coverage.Set{c02set(5)}, Input: []coverage.Set{c02set(1, 2), c02set(3)},
			Lookahead: []coverage.Set{c02set(6), c02set(7, 8)}, Actions: act}),
		lk(8, 0, &gtab.Gsub8_1{Input: c02cov(1, 4), Backtrack: []coverage.Table{c02cov(1, 2, 4)},
			Lookahead: []coverage.Table{c02cov(2, 3, 10), c02cov(3)}, SubstituteGlyphIDs: c02gids(2, 5)}),
		lk(1, 0, &gtab.Gsub1_1{Cov: c02set(1), Delta: 1}, &gtab.Gsub1_2{Cov: c02cov(2), SubstituteGlyphIDs: c02gids(7)}),
	}
	var lookups []gtab.LookupIndex
	for i := range ll {
		lookups = append(lookups, gtab.LookupIndex(i))
	}
	return &gtab.Info{
		ScriptList: gtab.ScriptListInfo{
			language.MustParse("und-Zzzz"): {Required: 0xFFFF, Optional: []gtab.FeatureIndex{0, 1}},
			language.MustParse("und-Latn"): {Required: 1, Optional: []gtab.FeatureIndex{0}},
			language.MustParse("de-Latn"):  {Required: 0xFFFF, Optional: []gtab.FeatureIndex{1}},
		},
		FeatureList: gtab.FeatureListInfo{{Tag: "liga", Lookups: lookups}, {Tag: "calt", Lookups: lookups[:3]}},
		LookupList:  ll,
	}
}

func c02gposInfo() *gtab.Info {
	lk := func(tp uint16, fl gtab.LookupFlags, st ...gtab.Subtable) *gtab.LookupTable {
		return &gtab.LookupTable{Meta: &gtab.LookupMetaInfo{LookupType: tp, LookupFlags: fl}, Subtables: st}
	}
	v := func(x, a int) *gtab.GposValueRecord {
		return &gtab.GposValueRecord{XPlacement: funit.Int16(x), XAdvance: funit.Int16(a)}
	}
	an := func(x, y int) anchor.Table { return anchor.Table{X: funit.Int16(x), Y: funit.Int16(y)} }
	act := []gtab.SeqLookup{{SequenceIndex: 0, LookupListIndex: 0}}
	ll := gtab.LookupList{
		lk(1, 0, &gtab.Gpos1_1{Cov: c02cov(1, 2, 3), Adjust: v(10, -20)}),
		lk(1, 0, &gtab.Gpos1_2{Cov: c02cov(2, 4), Adjust: []*gtab.GposValueRecord{v(1, 2), v(3, 4)}}),
		lk(2, 0, gtab.Gpos2_1{
			{Left: 1, Right: 2}: {First: v(0, -30)},
			{Left: 1, Right: 3}: {First: v(0, -10)},
			{Left: 4, Right: 2}: {First: v(0, 15)},
		}),
		lk(2, 0, &gtab.Gpos2_2{Cov: c02set(1, 2, 3), Class1: classdef.Table{1: 1, 2: 1}, Class2: classdef.Table{4: 1, 5: 2},
			Adjust: [][]*gtab.PairAdjust{
				{{First: v(0, 0)}, {First: v(0, -5)}, {First: v(0, -7)}},
				{{First: v(0, 0)}, {First: v(0, -9)}, {First: v(0, 11)}},
			}}),
		lk(3, gtab.RightToLeft, &gtab.Gpos3_1{Cov: c02cov(3, 4), Records: []gtab.EntryExitRecord{
			{Entry: an(1, 2), Exit: an(3, 4)}, {Exit: an(5, 6)}}}),
		lk(4, 0, &gtab.Gpos4_1{MarkCov: c02cov(8, 9), BaseCov: c02cov(1, 2),
			MarkArray: []markarray.Record{{Class: 0, Table: an(1, 1)}, {Class: 1, Table: an(2, 2)}},
			BaseArray: [][]anchor.Table{{an(10, 10), an(20, 20)}, {an(30, 30), an(40, 40)}}}),
		lk(6, 0, &gtab.Gpos6_1{Mark1Cov: c02cov(8), Mark2Cov: c02cov(9),
			Mark1Array: []markarray.Record{{Class: 0, Table: an(1, 1)}},
			Mark2Array: [][]anchor.Table{{an(5, 5)}}}),
		lk(7, 0, &gtab.SeqContext1{Cov: c02cov(1), Rules: [][]*gtab.SeqRule{{{Input: c02gids(2), Actions: act}}}}),
		lk(8, 0, &gtab.ChainedSeqContext3{Backtrack: []coverage.Set{c02set(5)}, Input: []coverage.Set{c02set(1, 2)},
			Lookahead: []coverage.Set{c02set(6)}, Actions: act}),
	}
	var lookups []gtab.LookupIndex
	for i := range ll {
		lookups = append(lookups, gtab.LookupIndex(i))
	}
	return &gtab.Info{
		ScriptList: gtab.ScriptListInfo{
			language.MustParse("und-Zzzz"): {Required: 0xFFFF, Optional: []gtab.FeatureIndex{0, 1}},
		},
		FeatureList: gtab.FeatureListInfo{{Tag: "kern", Lookups: lookups[:4]}, {Tag: "mark", Lookups: lookups[4:]}},
		LookupList:  ll,
	}
}

func c02gdefTable() *gdef.Table {
	return &gdef.Table{
		GlyphClass:      classdef.Table{1: gdef.GlyphClassBase, 2: gdef.GlyphClassBase, 8: gdef.GlyphClassMark, 9: gdef.GlyphClassMark, 10: gdef.GlyphClassLigature},
		MarkAttachClass: classdef.Table{8: 1, 9: 2},
		MarkGlyphSets:   []coverage.Set{c02set(8), c02set(8, 9)},
	}
}

// c02gpos5 is a well-formed GPOS type 5 (MarkToLigature) subtable written
// from the OpenType specification (the library has no encoder for it):
// marks {8,9} of classes {0,1}, nLig ligatures with 2 components each.
func c02gpos5(nLig int) []byte {
	w := &bw{}
	// header: format, markCoverageOffset, ligatureCoverageOffset, markClassCount, markArrayOffset, ligatureArrayOffset
	w.u16(1, 0, 0, 2, 0, 0)
	w.put16(2, w.len())
	w.u16(1, 2, 8, 9) // mark coverage
	w.put16(4, w.len())
	w.u16(1, nLig) // ligature coverage
	for i := 0; i < nLig; i++ {
		w.u16(20 + i)
	}
	w.put16(8, w.len())
	ma := w.len()
	w.u16(2, 0, 0, 1, 0) // markCount, (class, anchorOffset) x 2
	w.put16(ma+4, w.len()-ma)
	w.u16(1, 10, 20)
	w.put16(ma+8, w.len()-ma)
	w.u16(1, 30, 40)
	w.put16(10, w.len())
	la := w.len()
	w.u16(nLig)
	for i := 0; i < nLig; i++ {
		w.u16(0)
	}
	for i := 0; i < nLig; i++ {
		w.put16(la+2+2*i, w.len()-la)
		at := w.len()
		w.u16(2)          // componentCount
		w.u16(0, 0, 0, 0) // 2 components x 2 classes anchor offsets
		for c := 0; c < 4; c++ {
			if c == 3 {
				continue // a NULL offset
			}
			w.put16(at+2+2*c, w.len()-at)
			w.u16(1, 100+c, 200+i)
		}
	}
	return w.b
}

func c02name() *name.Info {
	t := &name.Table{Copyright: "(c) test", Family: "Verif Sans", Subfamily: "Regular", FullName: "Verif Sans Regular",
		Version: "Version 1.5", PostScriptName: "VerifSans-Regular", Description: "späße — 試験", SampleText: "Hamburgefons"}
	return &name.Info{
		Mac:     name.Tables{"en": t},
		Windows: name.Tables{"en-US": t, "de-DE": {Family: "Verif Sans", Subfamily: "Standard", Copyright: "(c) Test"}},
	}
}

// c02ttGlyphs makes a small TrueType glyph set: empty glyph, simple glyphs in
// various flag forms, a composite of two of them.
func c02ttGlyphs(r *rand.Rand, n int) glyf.Glyphs {
	gg := make(glyf.Glyphs, n)
	for i := 1; i < n; i++ {
		if i == 2 {
			continue // empty glyph
		}
		if i == n-1 && n > 4 {
			cs := []glyfref.Component{
				{Flags: 0x0001 | 0x0002 | 0x0020, Gid: 1, Args: []byte{0, 10, 0, 20}},
				{Flags: 0x0002 | 0x0008, Gid: 3, Args: []byte{5, 250, 0x40, 0}},
			}
			cg := glyf.CompositeGlyph{}
			for _, c := range cs {
				cg.Components = append(cg.Components, glyf.GlyphComponent{Flags: glyf.ComponentFlag(c.Flags), GlyphIndex: glyph.ID(c.Gid), Data: c.Args})
			}
			gg[i] = &glyf.Glyph{Rect16: funit.Rect16{LLx: 0, LLy: 0, URx: 500, URy: 700}, Data: cg}
			continue
		}
		s := &glyfref.Simple{}
		nc := 1 + r.IntN(3)
		x, y := int16(0), int16(0)
		for c := 0; c < nc; c++ {
			np := 3 + r.IntN(6)
			var pts []glyfref.Point
			for j := 0; j < np; j++ {
				x += int16(r.IntN(400) - 150)
				y += int16(r.IntN(400) - 150)
				pts = append(pts, glyfref.Point{X: x, Y: y, OnCurve: r.IntN(3) != 0})
			}
			s.Contours = append(s.Contours, pts)
		}
		if r.IntN(2) == 0 {
			s.Instructions = []byte{0xB0, 0x01, 0x2F}
		}
		body := glyfref.Encode(s, r, glyfref.Forms{})
		llx, lly, urx, ury, _ := s.Bounds()
		gg[i] = &glyf.Glyph{
			Rect16: funit.Rect16{LLx: funit.Int16(llx), LLy: funit.Int16(lly), URx: funit.Int16(urx), URy: funit.Int16(ury)},
			Data:   glyf.SimpleGlyph{NumContours: int16(nc), Encoded: body},
		}
	}
	return gg
}

func c02baseFont() *sfnt.Font {
	return &sfnt.Font{
		FamilyName: "Verif", Width: os2.WidthNormal, Weight: os2.WeightNormal, IsRegular: true,
		Version:      head.Version(0x00018000),
		CreationTime: time.Unix(1700000000, 0), ModificationTime: time.Unix(1700000100, 0),
		Copyright: "(c) verif", UnitsPerEm: 1000,
		FontMatrix: matrix.Matrix{0.001, 0, 0, 0.001, 0, 0},
		Ascent:     800, Descent: -200, LineGap: 100, CapHeight: 700, XHeight: 500,
		UnderlinePosition: -100, UnderlineThickness: 50,
	}
}

func c02ttFont(r *rand.Rand, n int, layout bool) *sfnt.Font {
	f := c02baseFont()
	gg := c02ttGlyphs(r, n)
	widths := make([]funit.Int16, n)
	names := make([]string, n)
	for i := range widths {
		widths[i] = funit.Int16(400 + 10*(i%7))
		names[i] = "g" + strconv.Itoa(i)
	}
	names[0] = ".notdef"
	f.Outlines = &glyf.Outlines{Glyphs: gg, Widths: widths, Names: names,
		Tables: map[string][]byte{"cvt ": {0, 1, 0, 2}, "prep": {0xB0, 0x00}},
		Maxp:   &maxp.TTFInfo{MaxPoints: 30, MaxContours: 4, MaxZones: 2, MaxStackElements: 16, MaxComponentElements: 2, MaxComponentDepth: 1}}
	c4 := cmap.Format4{}
	c12 := cmap.Format12{}
	for i := 1; i < n && i < 60; i++ {
		c4[uint16(0x40+i)] = glyph.ID(i)
		c12[uint32(0x40+i)] = glyph.ID(i)
	}
	c12[0x1F600] = 1
	c12[0x1F601] = 2
	f.CMapTable = cmap.Table{
		{PlatformID: 3, EncodingID: 1}:  c4.Encode(0),
		{PlatformID: 0, EncodingID: 3}:  c4.Encode(0),
		{PlatformID: 3, EncodingID: 10}: c12.Encode(0),
	}
	if layout {
		f.Gsub = c02gsubInfo()
		f.Gpos = c02gposInfo()
		f.Gdef = c02gdefTable()
	}
	return f
}

func c02cffGlyphs(r *rand.Rand, n int, named bool) []*cff.Glyph {
	var out []*cff.Glyph
	for i := 0; i < n; i++ {
		nm := ""
		if named {
			nm = "g" + strconv.Itoa(i)
			if i == 0 {
				nm = ".notdef"
			}
		}
		g := cff.NewGlyph(nm, float64(400+10*(i%5)))
		if i != 2 {
			x, y := float64(r.IntN(100)), float64(r.IntN(100))
			g.MoveTo(x, y)
			for j := 0; j < 2+r.IntN(5); j++ {
				if r.IntN(2) == 0 {
					g.LineTo(float64(r.IntN(600)), float64(r.IntN(700)))
				} else {
					g.CurveTo(float64(r.IntN(600)), float64(r.IntN(700)), float64(r.IntN(600)), float64(r.IntN(700)), float64(r.IntN(600)), float64(r.IntN(700)))
				}
			}
			if i%3 == 0 {
				g.HStem = []float64{0, 20, 680, 700}
				g.VStem = []float64{50, 90}
			}
		}
		out = append(out, g)
	}
	return out
}

func c02private() *type1.PrivateDict {
	return &type1.PrivateDict{BlueValues: []funit.Int16{-10, 0, 700, 710}, BlueScale: 0.039625, BlueShift: 7, BlueFuzz: 1, StdHW: 40, StdVW: 60}
}

func c02cffFont(r *rand.Rand, n int, cidKeyed bool) *sfnt.Font {
	f := c02baseFont()
	o := &cff.Outlines{Glyphs: c02cffGlyphs(r, n, !cidKeyed)}
	if cidKeyed {
		o.Private = []*type1.PrivateDict{c02private(), c02private()}
		o.FDSelect = func(g glyph.ID) int { return int(g) % 2 }
		o.ROS = &cid.SystemInfo{Registry: "Adobe", Ordering: "Identity", Supplement: 0}
		o.GIDToCID = make([]cid.CID, n)
		for i := range o.GIDToCID {
			o.GIDToCID[i] = cid.CID(2 * i)
		}
		o.FontMatrices = []matrix.Matrix{matrix.Identity, matrix.Identity}
	} else {
		o.Private = []*type1.PrivateDict{c02private()}
		o.FDSelect = func(glyph.ID) int { return 0 }
		o.Encoding = make([]glyph.ID, 256)
		for i := 1; i < n && i < 100; i++ {
			o.Encoding[0x40+i] = glyph.ID(i)
		}
	}
	f.Outlines = o
	c4 := cmap.Format4{}
	for i := 1; i < n && i < 60; i++ {
		c4[uint16(0x40+i)] = glyph.ID(i)
	}
	f.CMapTable = cmap.Table{{PlatformID: 3, EncodingID: 1}: c4.Encode(0)}
	return f
}

func c02try(fn func()) (ok bool) {
	defer func() {
		if recover() != nil {
			ok = false
		}
	}()
	fn()
	return true
}

func (s *c02seedSet) loadGenerated() {
	r := rand.New(rand.NewPCG(0xC02, 0x5EED))
	nGen := 0
	gen := func(dec, what string, fn func() []byte) {
		var b []byte
		if c02try(func() { b = fn() }) && b != nil {
			s.add(dec, "gen:"+what, b)
			nGen++
		} else {
			s.notes = append(s.notes, "generator failed: "+what)
		}
	}
	// whole fonts written by the library; their tables become seeds of the table decoders
	fonts := []struct {
		name string
		f    func() *sfnt.Font
	}{
		{"tt-12-layout", func() *sfnt.Font { return c02ttFont(r, 12, true) }},
		{"tt-5", func() *sfnt.Font { return c02ttFont(r, 5, false) }},
		{"tt-300", func() *sfnt.Font { return c02ttFont(r, 300, false) }},
		{"cff-simple-10", func() *sfnt.Font { return c02cffFont(r, 10, false) }},
		{"cff-cid-9", func() *sfnt.Font { return c02cffFont(r, 9, true) }},
		{"cff-simple-260", func() *sfnt.Font { return c02cffFont(r, 260, false) }},
	}
	for _, fd := range fonts {
		var data []byte
		ok := c02try(func() {
			var buf bytes.Buffer
			if _, err := fd.f().Write(&buf); err == nil {
				data = buf.Bytes()
			}
		})
		if !ok || data == nil {
			s.notes = append(s.notes, "generator failed: font "+fd.name)
			continue
		}
		nGen++
		s.addFontTables("gen:font-"+fd.name, data, true)
	}
	// a TrueType font with a kern table and no GPOS, a font without hmtx/hhea,
	// a font with post format 1 (assembled by the harness container writer)
	if len(s.fonts) > 0 {
		for _, fn := range s.fonts {
			if fn.name != "gen:font-tt-5" {
				continue
			}
			tabs := map[string][]byte{}
			for _, t := range fn.file.Tables {
				tabs[t.Tag] = t.Data
			}
			k := kern.Info{{Left: 1, Right: 3}: -40, {Left: 3, Right: 4}: 25}
			tabs["kern"] = k.Encode()
			s.addFontTables("gen:font-tt-5-kern", c02sfnt(0x00010000, tabs), true)
			delete(tabs, "kern")
			delete(tabs, "hmtx")
			delete(tabs, "hhea")
			s.addFontTables("gen:font-tt-5-nohmtx", c02sfnt(0x00010000, tabs), true)
		}
	}

	gen(dCmap, "cmap-4", func() []byte {
		c := cmap.Format4{}
		for i := 0; i < 40; i++ {
			c[uint16(0x20+3*i)] = glyph.ID(1 + (i*7)%50)
		}
		return cmap.Table{{PlatformID: 3, EncodingID: 1}: c.Encode(0)}.Encode()
	})
	gen(dCmap, "cmap-12", func() []byte {
		c := cmap.Format12{}
		for i := 0; i < 40; i++ {
			c[uint32(0x1F600+2*i)] = glyph.ID(1 + i)
			c[uint32(0x41+i)] = glyph.ID(100 + i)
		}
		return cmap.Table{{PlatformID: 3, EncodingID: 10}: c.Encode(0), {PlatformID: 0, EncodingID: 4}: c.Encode(0)}.Encode()
	})
	gen(dCmap, "cmap-0-6-mac", func() []byte {
		f0 := &cmap.Format0{}
		for i := range f0.Data {
			f0.Data[i] = byte(i / 2)
		}
		// format 6: firstCode 0x20, 8 entries (hand-written: the library has no format 6 encoder)
		w := &bw{}
		w.u16(6, 10+16, 0, 0x20, 8, 1, 2, 3, 4, 5, 6, 7, 8)
		return cmap.Table{{PlatformID: 1, EncodingID: 0}: f0.Encode(0), {PlatformID: 1, EncodingID: 0, Language: 5}: w.b,
			{PlatformID: 3, EncodingID: 0}: w.b}.Encode()
	})
	gen(dGsub, "gsub-all-types", func() []byte { return c02gsubInfo().Encode() })
	gen(dGpos, "gpos-types-1-4-6-7-8", func() []byte { return c02gposInfo().Encode() })
	// one table per lookup, so that mutants of small inputs reach every subtable reader
	single := func(dec string, info *gtab.Info) {
		for i, l := range info.LookupList {
			l := l
			gen(dec, fmt.Sprintf("lookup-%d-type-%d-%T", i, l.Meta.LookupType, l.Subtables[0]), func() []byte {
				one := &gtab.Info{
					ScriptList:  gtab.ScriptListInfo{language.MustParse("und-Zzzz"): {Required: 0xFFFF, Optional: []gtab.FeatureIndex{0}}},
					FeatureList: gtab.FeatureListInfo{{Tag: "test", Lookups: []gtab.LookupIndex{0}}},
					LookupList:  gtab.LookupList{l},
				}
				return one.Encode()
			})
		}
	}
	single(dGsub, c02gsubInfo())
	single(dGpos, c02gposInfo())
	gen(dGpos, "gpos5-1lig(spec writer)", func() []byte { return c02gtabWrap(5, 0, c02gpos5(1)) })
	gen(dGpos, "gpos5-2lig(spec writer)", func() []byte { return c02gtabWrap(5, 0, c02gpos5(2)) })
	gen(dGpos, "gpos5-3lig(spec writer)", func() []byte { return c02gtabWrap(5, 0, c02gpos5(3)) })
	// subtables whose LAST part (a class definition or coverage table of about
	// 66 KB, glyphs in alternating classes) begins at a small offset: every
	// offset in the file fits 16 bits; whether the same holds for the
	// library's own layout when the table is written again is the
	// encoders' business
	bigClassDef := func() []byte {
		w := &bw{}
		w.u16(1, 1, 33000)
		for i := 0; i < 33000; i++ {
			w.u16(1 + i%2)
		}
		return w.b
	}
	bigCoverage := func() []byte {
		w := &bw{}
		w.u16(1, 33000)
		for i := 0; i < 33000; i++ {
			w.u16(1 + i)
		}
		return w.b
	}
	for _, tt := range []struct {
		dec  string
		base int
	}{{dGsub, 5}, {dGpos, 7}} {
		tt := tt
		gen(tt.dec, fmt.Sprintf("type%d.2-class-definition-66KB-last", tt.base), func() []byte {
			w := &bw{}
			w.u16(2, 24, 30, 3, 0, 14, 0) // format, coverage, classDef, 3 rule sets: only class 1 has rules
			w.u16(1, 4)                   // rule set: one rule
			w.u16(2, 0, 2)                // rule: two glyphs, no actions, second glyph of class 2
			w.u16(1, 1, 5)                // coverage: glyph 5
			w.raw(bigClassDef()...)
			return c02gtabWrap(tt.base, 0, w.b)
		})
		gen(tt.dec, fmt.Sprintf("type%d.1-coverage-66KB-last", tt.base), func() []byte {
			w := &bw{}
			w.u16(1, 6, 0) // format, coverage, no rule sets listed
			w.raw(bigCoverage()...)
			return c02gtabWrap(tt.base, 0, w.b)
		})
		gen(tt.dec, fmt.Sprintf("type%d.2-lookahead-class-definition-66KB-last", tt.base+1), func() []byte {
			w := &bw{}
			// format, coverage, backtrack/input/lookahead classDef, 2 rule sets (class 1 has rules)
			w.u16(2, 30, 36, 44, 52, 2, 0, 16)
			w.u16(1, 4)             // rule set at 16: one rule
			w.u16(0, 1, 1, 1, 0)    // rule: no backtrack, one input glyph, one lookahead glyph of class 1, no actions
			w.u16(1, 1, 5)          // coverage at 30: glyph 5
			w.u16(2, 1, 7, 9, 1)    // backtrack classes at 36: format 2, one range
			w.u16(2, 1, 5, 5, 1)    // input classes at 44: glyph 5 is class 1
			w.raw(bigClassDef()...) // lookahead classes at 52
			return c02gtabWrap(tt.base+1, 0, w.b)
		})
	}
	gen(dGpos, "type2.2-second-class-definition-66KB-last", func() []byte {
		w := &bw{}
		// format, coverage, valueFormat1 (xAdvance), valueFormat2, classDef1, classDef2, class1Count, class2Count
		w.u16(2, 28, 4, 0, 34, 42, 2, 3)
		w.u16(0, 0, 0, 10, -20&0xFFFF, 0) // 2 x 3 records of one value
		w.u16(1, 1, 5)                    // coverage at 28
		w.u16(2, 1, 5, 5, 1)              // first classes at 34
		w.raw(bigClassDef()...)           // second classes at 42
		return c02gtabWrap(2, 0, w.b)
	})
	gen(dGpos, "gpos9-extension", func() []byte {
		// one extension lookup (type 9) wrapping a single-adjustment format 1 subtable
		sub := (&gtab.Gpos1_1{Cov: c02cov(1, 2), Adjust: &gtab.GposValueRecord{XAdvance: 10}})
		info := &gtab.Info{ScriptList: gtab.ScriptListInfo{language.MustParse("und-Zzzz"): {Required: 0xFFFF, Optional: []gtab.FeatureIndex{0}}},
			FeatureList: gtab.FeatureListInfo{{Tag: "kern", Lookups: []gtab.LookupIndex{0}}},
			LookupList:  gtab.LookupList{{Meta: &gtab.LookupMetaInfo{LookupType: 1}, Subtables: []gtab.Subtable{sub}}}}
		plain := info.Encode()
		// locate the subtable: it is the tail of the table after the lookup header
		ll := int(binary.BigEndian.Uint16(plain[8:]))
		lo := ll + int(binary.BigEndian.Uint16(plain[ll+2:]))
		so := lo + int(binary.BigEndian.Uint16(plain[lo+6:]))
		w := &bw{}
		w.u16(1, 1).u32(8).raw(plain[so:]...)
		return c02gtabWrap(9, 0, w.b)
	})
	gen(dGdef, "gdef-1.2", func() []byte { return c02gdefTable().Encode() })
	gen(dGdef, "gdef-1.0", func() []byte {
		return (&gdef.Table{GlyphClass: classdef.Table{1: 1, 2: 3, 3: 3, 4: 3, 5: 3, 6: 3, 7: 2}}).Encode()
	})
	gen(dCoverage, "coverage-1", func() []byte { return c02cov(1, 5, 9, 200).Encode() })
	gen(dCoverage, "coverage-2", func() []byte { return c02cov(10, 11, 12, 13, 14, 15, 16, 17, 40, 41, 42, 43).Encode() })
	gen(dCovSet, "coverage-1", func() []byte { return c02cov(1, 5, 9, 200).Encode() })
	gen(dCovSet, "coverage-2", func() []byte { return c02cov(10, 11, 12, 13, 14, 15, 16, 17, 40, 41, 42, 43).Encode() })
	gen(dClassdef, "classdef-1", func() []byte { return classdef.Table{3: 1, 4: 2, 5: 1, 6: 7}.Append(nil) })
	gen(dClassdef, "classdef-2", func() []byte {
		t := classdef.Table{}
		for i := 10; i < 40; i++ {
			t[glyph.ID(i)] = 1
		}
		for i := 100; i < 180; i++ {
			t[glyph.ID(i)] = 2
		}
		return t.Append(nil)
	})
	gen(dName, "name", func() []byte { return c02name().Encode(1) })
	gen(dName, "name-v1(hand)", func() []byte {
		// version 1 name table with one language-tag record
		w := &bw{}
		w.u16(1, 1, 0)
		w.u16(3, 1, 0x0409, 1, 8, 0) // record: windows, BMP, en-US, family, len 8, offset 0
		w.u16(1, 4, 8)               // langTagCount, (length, offset)
		w.put16(4, w.len())
		w.raw(0, 'T', 0, 'e', 0, 's', 0, 't', 0, 'e', 0, 'n')
		return w.b
	})
	// version 1 name tables whose records refer to the language-tag records
	// (language id 0x8000+i), with well-formed and ill-formed tags
	for _, tags := range [][]string{{"de-AT"}, {"x"}, {"Not A Language Tag!", "en-US"}, {""}, {"en", "en"}, {"zh-Hant-HK-x-private-use-and-much-longer-than-any-tag-should-be"}, {"\u00e9\u00e9"}} {
		tags := tags
		gen(dName, fmt.Sprintf("name-v1(tags %q)", tags), func() []byte {
			w := &bw{}
			var storage []byte
			str := func(s string) (length, offset int) {
				offset = len(storage)
				for _, c := range utf16.Encode([]rune(s)) {
					storage = append(storage, byte(c>>8), byte(c))
				}
				return len(storage) - offset, offset
			}
			type rec struct{ pid, eid, lang, nid, length, offset int }
			var recs []rec
			for i := range tags {
				l, o := str(fmt.Sprintf("Family %d", i))
				recs = append(recs, rec{3, 1, 0x8000 + i, 1, l, o})
			}
			recs = append(recs, rec{1, 0, 0x8000, 1, 4, len(storage)})
			storage = append(storage, "Test"...)
			l, o := str("Regular")
			recs = append(recs, rec{3, 1, 0x0409, 2, l, o}, rec{3, 1, 0x8000 + len(tags), 2, l, o})
			type tg struct{ length, offset int }
			var tgs []tg
			for _, t := range tags {
				l, o := str(t)
				tgs = append(tgs, tg{l, o})
			}
			w.u16(1, len(recs), 6+12*len(recs)+2+4*len(tgs))
			for _, r := range recs {
				w.u16(r.pid, r.eid, r.lang, r.nid, r.length, r.offset)
			}
			w.u16(len(tgs))
			for _, t := range tgs {
				w.u16(t.length, t.offset)
			}
			w.raw(storage...)
			return w.b
		})
	}
	gen(dPost, "post-2", func() []byte {
		return (&post.Info{ItalicAngle: -12.5, UnderlinePosition: -100, UnderlineThickness: 50, Names: []string{".notdef", "A", "B", "custom.one", "custom.two", "A.alt"}}).Encode()
	})
	gen(dPost, "post-3", func() []byte {
		return (&post.Info{UnderlinePosition: -75, UnderlineThickness: 20, IsFixedPitch: true}).Encode()
	})
	gen(dPost, "post-1(hand)", func() []byte {
		w := &bw{}
		w.u32(0x00010000, 0).u16(0xFF9C, 50).u32(0, 0, 0, 0, 0)
		return w.b
	})
	gen(dOS2, "os2", func() []byte {
		return (&os2.Info{WeightClass: 400, WidthClass: 5, IsRegular: true, Ascent: 800, Descent: -200, WinAscent: 900, WinDescent: 250, LineGap: 90,
			CapHeight: 700, XHeight: 500, AvgGlyphWidth: 512, Vendor: "VRIF", FirstCharIndex: 0x20, LastCharIndex: 0xFFFF}).Encode()
	})
	gen(dOS2, "os2-v0(hand)", func() []byte {
		full := (&os2.Info{WeightClass: 700, WidthClass: 3, IsBold: true}).Encode()
		b := append([]byte(nil), full[:78]...)
		b[0], b[1] = 0, 0
		return b
	})
	gen(dHead, "head", func() []byte {
		return (&head.Info{FontRevision: 0x00010000, UnitsPerEm: 2048, Created: time.Unix(1600000000, 0), Modified: time.Unix(1600000001, 0),
			FontBBox: funit.Rect16{LLx: -100, LLy: -200, URx: 1000, URy: 900}, IsBold: true, LowestRecPPEM: 8, LocaFormat: 1}).Encode()
	})
	gen(dHmtx, "hmtx", func() []byte {
		i := &hmtx.Info{Widths: []funit.Int16{500, 600, 600, 700, 700, 700}, LSB: []funit.Int16{0, 10, 20, 30, 40, 50},
			Ascent: 800, Descent: -200, LineGap: 90, CaretAngle: 0.2}
		hh, hm := i.Encode()
		return c02packHmtx(hh, hm)
	})
	gen(dMaxp, "maxp-0.5", func() []byte { return (&maxp.Info{NumGlyphs: 17}).Encode() })
	gen(dMaxp, "maxp-1.0", func() []byte {
		return (&maxp.Info{NumGlyphs: 300, TTF: &maxp.TTFInfo{MaxPoints: 100, MaxContours: 10, MaxZones: 2}}).Encode()
	})
	gen(dKern, "kern-3-pairs", func() []byte {
		return kern.Info{{Left: 1, Right: 2}: -50, {Left: 1, Right: 3}: -20, {Left: 7, Right: 2}: 30}.Encode()
	})
	gen(dKern, "kern-400-pairs", func() []byte {
		k := kern.Info{}
		for i := 0; i < 400; i++ {
			k[glyph.Pair{Left: glyph.ID(i % 37), Right: glyph.ID(i / 37)}] = funit.Int16(i - 200)
		}
		return k.Encode()
	})
	gen(dKern, "kern-2-subtables(hand)", func() []byte {
		w := &bw{}
		w.u16(0, 2)
		for t := 0; t < 2; t++ {
			// version, length, coverage (format 0, horizontal [| override]), nPairs, searchRange, entrySelector, rangeShift
			w.u16(0, 14+6*2).u8(0, 1+8*t).u16(2, 12, 1, 0)
			w.u16(1, 2, 0xFFCE, 3, 4, 20+t)
		}
		return w.b
	})
	gen(dGlyf, "glyf-short-loca", func() []byte {
		e := c02ttGlyphs(r, 9).Encode()
		return c02packGlyf(e.GlyfData, e.LocaData, e.LocaFormat)
	})
	// a composite glyph as the last glyph of the table, with instructions whose
	// declared length is right, too large by a little, as large as the glyph,
	// or huge
	for _, declared := range []int{4, 5, 8, 12, 13, 21, 22, 23, 0xFFFF} {
		declared := declared
		gen(dGlyf, fmt.Sprintf("glyf-composite-last(instruction length %d of 4)", declared), func() []byte {
			w := &bw{}
			w.u16(0xFFFF, 0, 0, 100, 100) // composite, bounding box
			w.u16(0x0102, 0).u8(5, 7)     // one component: instructions follow, x/y offsets in bytes, glyph 0
			w.u16(declared).u8(0xB0, 0x01, 0x2F, 0x4D)
			loca := &bw{}
			loca.u16(0, 0, w.len()/2)
			return c02packGlyf(w.b, loca.b, 0)
		})
	}
	gen(dGlyf, "glyf-long-loca", func() []byte {
		// many glyphs so that the total exceeds 0xFFFF*2... use format 1 explicitly by re-encoding loca
		e := c02ttGlyphs(r, 40).Encode()
		n := len(e.LocaData) / 2
		w := &bw{}
		for i := 0; i < n; i++ {
			w.u32(2 * int(binary.BigEndian.Uint16(e.LocaData[2*i:])))
		}
		return c02packGlyf(e.GlyfData, w.b, 1)
	})
	gen(dCFF, "cff-simple", func() []byte {
		var buf bytes.Buffer
		f := c02cffFont(r, 7, false).AsCFF()
		if err := f.Write(&buf); err != nil {
			return nil
		}
		return buf.Bytes()
	})
	gen(dCFF, "cff-cid", func() []byte {
		var buf bytes.Buffer
		f := c02cffFont(r, 6, true).AsCFF()
		if err := f.Write(&buf); err != nil {
			return nil
		}
		return buf.Bytes()
	})
	s.notes = append(s.notes, "generated seeds (library encoders / spec writers): "+strconv.Itoa(nGen))
}

var (
	c02seedOnce sync.Once
	c02seedVal  *c02seedSet
)

// c02seeds builds the seed set once per worker process.  It is the same in
// every worker (fixed PRNG, sorted directory listings).
func c02seeds() *c02seedSet {
	c02seedOnce.Do(func() {
		s := &c02seedSet{byDec: map[string][]int{}}
		s.loadCorpus()
		s.loadGenerated()
		s.loadFuzz()
		c02seedVal = s
	})
	return c02seedVal
}
