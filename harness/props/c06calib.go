package props

import (
	"fmt"
	"math"
	"strings"
	"sync"

	"seehuhn.de/go/postscript/funit"

	"seehuhn.de/go/sfnt"
	"seehuhn.de/go/sfnt/cmap"
	"seehuhn.de/go/sfnt/glyph"
	"seehuhn.de/go/sfnt/opentype/classdef"
	"seehuhn.de/go/sfnt/opentype/coverage"
	"seehuhn.de/go/sfnt/opentype/gdef"
	"seehuhn.de/go/sfnt/opentype/gtab"
	"seehuhn.de/go/sfnt/opentype/gtab/builder"
	"seehuhn.de/go/sfnt/opentype/gtab/testcases"

	"verif/harness/internal/mon"
	"verif/harness/internal/ref/shaper"
)

// Calibration of the reference shaper against the outcomes the repository
// pins and documents.  A failure here is an error of the harness, never a
// finding about the library: it is reported with witness prefix "harness:".
//
//   - testcases.Gsub sections 1, 2, 3, 5: must be reproduced and must not be
//     flagged as undefined,
//   - section 4: flagged as undefined, or reproduced,
//   - the 16 GPOS cases of opentype/gtab/gposext_test.go (re-typed),
//   - the 46 lookup-flag cases of opentype/gtab/lookup_test.go (re-typed).

type c06calibEnv struct {
	gen  *testcases.FontGen
	font *sfnt.Font
	cm   cmap.Subtable
	gdef *gdef.Table
	err  error
}

var (
	c06calibOnce sync.Once
	c06calibVal  c06calibEnv
)

func c06calibGet() *c06calibEnv {
	c06calibOnce.Do(func() {
		e := &c06calibVal
		e.gen, e.err = testcases.NewFontGen()
		if e.err != nil {
			return
		}
		e.font, e.err = e.gen.GsubTestFont(0)
		if e.err != nil {
			return
		}
		e.cm = e.gen.CMap
		e.gdef = e.font.Gdef
	})
	return &c06calibVal
}

type c06gposCheck struct {
	idx   int
	which int // 0 X, 1 Y, 2 DX, 3 DXRel
	val   funit.Int16
}

type c06gposCase struct {
	desc  string
	in    string
	check []c06gposCheck
	// mayFlag: the case uses positioning the reference does not model
	mayFlag bool
}

const (
	c06X = iota
	c06Y
	c06DX
	c06DXRel
)

// re-typed from opentype/gtab/gposext_test.go (gposTestCases)
var c06gposCases = []c06gposCase{
	{desc: "GPOS1: [A] -> y+500", in: "ABC", check: []c06gposCheck{{0, c06X, 0}, {0, c06Y, 500}}},
	{desc: "GPOS1: B -> x+10 y-20 dx+30", in: "ABC", check: []c06gposCheck{{1, c06X, 10}, {1, c06Y, -20}, {1, c06DXRel, 30}}},
	{desc: "GPOS1: [A D] -> y+100 || B -> y+200, E -> y+300", in: "ABCDE",
		check: []c06gposCheck{{0, c06Y, 100}, {1, c06Y, 200}, {2, c06Y, 0}, {3, c06Y, 100}, {4, c06Y, 300}}},
	{desc: `GPOS1: "<" -> Δ`, in: ">ABC<"},
	{desc: "GPOS1: [M] -> y+500", in: "AMA", check: []c06gposCheck{{1, c06DX, 0}, {1, c06Y, 500}}},
	{desc: "GPOS1: -marks [M] -> y+500", in: "AMA", check: []c06gposCheck{{1, c06DX, 0}, {1, c06Y, 0}}},
	{desc: "GPOS1: M -> y+500", in: "AMA", check: []c06gposCheck{{1, c06DX, 0}, {1, c06Y, 500}}},
	{desc: "GPOS1: -marks M -> y+500", in: "AMA", check: []c06gposCheck{{1, c06DX, 0}, {1, c06Y, 0}}},
	{desc: "GPOS1: [] -> x+0", in: "AMA", check: []c06gposCheck{{1, c06DX, 0}, {1, c06Y, 0}}},
	{desc: "GPOS2: A V -> dx-200", in: "AV", check: []c06gposCheck{{0, c06DXRel, -200}}},
	{desc: "GPOS2: A V -> dx-300 & y+200", in: "AV", check: []c06gposCheck{{0, c06DXRel, -300}, {1, c06Y, 200}}},
	{desc: "GPOS2: A A -> y+200", in: "AAAAAA",
		check: []c06gposCheck{{0, c06Y, 200}, {1, c06Y, 200}, {2, c06Y, 200}, {3, c06Y, 200}, {4, c06Y, 200}}},
	{desc: "GPOS2: A A -> & y+200", in: "AAAAAA", check: []c06gposCheck{{1, c06Y, 200}, {3, c06Y, 200}, {5, c06Y, 200}}},
	{desc: `GPOS2:
			/A/
			first A;
			second A;
			_, _;
			_, y+500`, in: "AAAAAA",
		check: []c06gposCheck{{0, c06Y, 500}, {1, c06Y, 500}, {2, c06Y, 500}, {3, c06Y, 500}, {4, c06Y, 500}}},
	{desc: `GPOS3:
			A: 0,0 to 100,100;
			B: 10,10 to 100,-100`, in: "AB",
		check:   []c06gposCheck{{0, c06X, 0}, {0, c06Y, 0}, {0, c06DX, 90}, {1, c06Y, 90}},
		mayFlag: true}, // cursive attachment is outside the property (types 1,2,4,6,7,8)
	{desc: `GPOS4:
			mark M: 0@400,0
			base A: @400,1000`, in: "AM",
		check: []c06gposCheck{{0, c06X, 0}, {0, c06Y, 0}, {1, c06X, -1366}, {1, c06Y, 1000}}},
}

type c06flagCase struct {
	in          []glyph.ID
	flags       gtab.LookupFlags
	set         uint16
	shouldMerge bool
}

// re-typed from opentype/gtab/lookup_test.go (TestLookupFlags)
const (
	c06fRepl glyph.ID = iota + 1
	c06fA
	c06fB
	c06fC
	c06fMark1
	c06fMark2
	c06fMark3
	c06fMark4
	c06fLig1
	c06fLig2
)

var c06flagGdef = &gdef.Table{
	GlyphClass: classdef.Table{
		c06fA: gdef.GlyphClassBase, c06fB: gdef.GlyphClassBase, c06fC: gdef.GlyphClassBase,
		c06fMark1: gdef.GlyphClassMark, c06fMark2: gdef.GlyphClassMark, c06fMark3: gdef.GlyphClassMark, c06fMark4: gdef.GlyphClassMark,
		c06fLig1: gdef.GlyphClassLigature, c06fLig2: gdef.GlyphClassLigature,
	},
	MarkAttachClass: classdef.Table{c06fMark1: 1, c06fMark2: 2, c06fMark3: 2, c06fMark4: 1},
	MarkGlyphSets: []coverage.Set{
		{c06fMark1: true, c06fMark2: true},
		{c06fMark1: true, c06fMark3: true},
	},
}

var c06flagCases = func() []c06flagCase {
	const (
		A, B, C                    = c06fA, c06fB, c06fC
		mark1, mark2, mark3, mark4 = c06fMark1, c06fMark2, c06fMark3, c06fMark4
		lig1, lig2                 = c06fLig1, c06fLig2
		repl                       = c06fRepl
		IgnoreBaseGlyphs           = gtab.IgnoreBaseGlyphs
		IgnoreLigatures            = gtab.IgnoreLigatures
		IgnoreMarks                = gtab.IgnoreMarks
		UseMarkFilteringSet        = gtab.UseMarkFilteringSet
	)
	type testCase = c06flagCase
	return []testCase{
		{in: []glyph.ID{A, B}, flags: 0, shouldMerge: true},
		{in: []glyph.ID{A, A, B}, flags: 0, shouldMerge: false},
		{in: []glyph.ID{A, mark1, B}, flags: 0, shouldMerge: false},
		{in: []glyph.ID{A, repl, B}, flags: 0, shouldMerge: false},

		{in: []glyph.ID{mark1, mark2}, flags: IgnoreBaseGlyphs, shouldMerge: true},
		{in: []glyph.ID{mark1, A, B, mark2}, flags: IgnoreBaseGlyphs, shouldMerge: true},
		{in: []glyph.ID{mark1, lig1, mark1}, flags: IgnoreBaseGlyphs, shouldMerge: false},
		{in: []glyph.ID{mark1, lig1, mark2}, flags: IgnoreBaseGlyphs, shouldMerge: false},
		{in: []glyph.ID{A, B}, flags: IgnoreBaseGlyphs, shouldMerge: false},
		{in: []glyph.ID{A, B, C}, flags: IgnoreBaseGlyphs, shouldMerge: false},

		{in: []glyph.ID{mark1, mark2}, flags: IgnoreLigatures, shouldMerge: true},
		{in: []glyph.ID{mark1, lig1, lig2, mark2}, flags: IgnoreLigatures, shouldMerge: true},
		{in: []glyph.ID{lig1, lig2}, flags: IgnoreLigatures, shouldMerge: false},

		{in: []glyph.ID{A, B}, flags: IgnoreMarks, shouldMerge: true},
		{in: []glyph.ID{A, mark1, mark2, B}, flags: IgnoreMarks, shouldMerge: true},
		{in: []glyph.ID{mark1, mark2}, flags: IgnoreMarks, shouldMerge: false},

		{in: []glyph.ID{mark1, mark2}, flags: UseMarkFilteringSet, set: 0, shouldMerge: true},
		{in: []glyph.ID{mark1, mark3, mark2}, flags: UseMarkFilteringSet, set: 0, shouldMerge: true},
		{in: []glyph.ID{mark1, mark3, mark3, mark1}, flags: UseMarkFilteringSet, set: 0, shouldMerge: true},
		{in: []glyph.ID{mark1, mark3, mark2, mark3, mark1}, flags: UseMarkFilteringSet, set: 0, shouldMerge: false},

		{in: []glyph.ID{mark1, mark3}, flags: UseMarkFilteringSet, set: 1, shouldMerge: true},
		{in: []glyph.ID{mark1, mark2, mark3}, flags: UseMarkFilteringSet, set: 1, shouldMerge: true},
		{in: []glyph.ID{mark1, mark2, mark2, mark1}, flags: UseMarkFilteringSet, set: 1, shouldMerge: true},
		{in: []glyph.ID{mark1, mark2, mark3, mark2, mark1}, flags: UseMarkFilteringSet, set: 1, shouldMerge: false},

		{in: []glyph.ID{mark1, mark1}, flags: 1 << 8, shouldMerge: true},
		{in: []glyph.ID{mark1, mark2, mark1}, flags: 1 << 8, shouldMerge: true},
		{in: []glyph.ID{mark1, mark4, mark1}, flags: 1 << 8, shouldMerge: false},
		{in: []glyph.ID{mark1, A, mark1}, flags: 1 << 8, shouldMerge: false},

		{in: []glyph.ID{mark2, mark3}, flags: 2 << 8, shouldMerge: true},
		{in: []glyph.ID{mark2, mark1, mark4, mark3}, flags: 2 << 8, shouldMerge: true},
		{in: []glyph.ID{mark2, mark3, mark2}, flags: 2 << 8, shouldMerge: false},
		{in: []glyph.ID{mark2, A, mark2}, flags: 2 << 8, shouldMerge: false},

		{in: []glyph.ID{A, B}, flags: IgnoreMarks | IgnoreLigatures, shouldMerge: true},
		{in: []glyph.ID{A, mark1, lig2, B}, flags: IgnoreMarks | IgnoreLigatures, shouldMerge: true},
		{in: []glyph.ID{A, B, C}, flags: IgnoreMarks | IgnoreLigatures, shouldMerge: false},
		{in: []glyph.ID{mark1, A, mark2, B, mark3}, flags: IgnoreBaseGlyphs | UseMarkFilteringSet, set: 1, shouldMerge: true},
		{in: []glyph.ID{mark1, A, mark3, B, mark1}, flags: IgnoreBaseGlyphs | UseMarkFilteringSet, set: 1, shouldMerge: false},
		{in: []glyph.ID{mark2, mark3}, flags: IgnoreBaseGlyphs | (2 << 8), shouldMerge: true},
		{in: []glyph.ID{mark2, A, mark3}, flags: IgnoreBaseGlyphs | (2 << 8), shouldMerge: true},
		{in: []glyph.ID{mark2, mark1, mark3}, flags: IgnoreBaseGlyphs | (2 << 8), shouldMerge: true},
		{in: []glyph.ID{mark2, A, B, C, mark1, mark4, mark3}, flags: IgnoreBaseGlyphs | (2 << 8), shouldMerge: true},
		{in: []glyph.ID{mark2, A, mark4, mark3}, flags: IgnoreBaseGlyphs | (2 << 8), shouldMerge: true},
		{in: []glyph.ID{mark2, mark2}, flags: IgnoreBaseGlyphs | (2 << 8), shouldMerge: true},
		{in: []glyph.ID{mark2, lig1, mark2}, flags: IgnoreBaseGlyphs | (2 << 8), shouldMerge: false},
		{in: []glyph.ID{mark2, mark3, mark2}, flags: IgnoreBaseGlyphs | (2 << 8), shouldMerge: false},
		{in: []glyph.ID{mark2, repl, mark2}, flags: IgnoreBaseGlyphs | (2 << 8), shouldMerge: false},
	}
}()

// a few more pinned expectations from _test.go files of opentype/gtab
// (apply_test.go TestLigature; nested_test.go does not pin outcomes of the
// public engine).
func c06calibExtra() (string, bool) {
	ll := gtab.LookupList{{
		Meta:      &gtab.LookupMetaInfo{LookupType: 4},
		Subtables: []gtab.Subtable{&gtab.Gsub4_1{Cov: coverage.Table{1: 0}, Repl: [][]gtab.Ligature{{{In: []glyph.ID{2}, Out: 4}}}}},
	}}
	in := []glyph.Info{{GID: 1, Text: []rune("a")}, {GID: 2, Text: []rune("b")}, {GID: 3, Text: []rune("c")}}
	r := shaper.Apply(ll, nil, []gtab.LookupIndex{0}, in)
	if r.Undefined != "" {
		return "flagged " + r.Undefined, false
	}
	if len(r.Seq) != 2 || r.Seq[0].GID != 4 || string(r.Seq[0].Text) != "ab" || r.Seq[1].GID != 3 || string(r.Seq[1].Text) != "c" {
		return fmt.Sprintf("got %v", r.Seq), false
	}
	return "", true
}

func c06calibCount() int {
	return len(testcases.Gsub) + len(c06gposCases) + len(c06flagCases) + 1
}

// c06calibrate runs calibration case i.
func c06calibrate(k *mon.Case, i int) {
	env := c06calibGet()
	if env.err != nil {
		k.Fail("mismatch", "harness:calibration-setup", "cannot build the test font: %v", env.err)
		return
	}
	k.Eval()
	nG := len(testcases.Gsub)
	switch {
	case i < nG:
		tc := testcases.Gsub[i]
		section := strings.SplitN(tc.Name, "_", 2)[0]
		font, err := env.gen.GsubTestFont(i)
		if err != nil {
			k.Fail("mismatch", "harness:calibration-setup", "GsubTestFont(%d): %v", i, err)
			return
		}
		var seq []glyph.Info
		for _, r := range tc.In {
			seq = append(seq, glyph.Info{GID: env.cm.Lookup(r), Text: []rune{r}})
		}
		res := shaper.Apply(font.Gsub.LookupList, font.Gdef, []gtab.LookupIndex{0}, seq)
		if res.Undefined != "" {
			if section == "4" {
				k.Class("calib:gsub-section4-flagged")
				k.Class("calib:section4-flagged:" + res.Undefined)
				return
			}
			k.Fail("mismatch", "harness:calibration-flagged", "reference flags pinned case %s (%q on %q) as undefined: %s", tc.Name, tc.Desc, tc.In, res.Undefined)
			return
		}
		var out, text []rune
		for _, g := range res.Seq {
			out = append(out, env.gen.Rev[g.GID])
			text = append(text, g.Text...)
		}
		wantText := tc.Text
		if wantText == "" {
			wantText = tc.In
		}
		if string(out) != tc.Out || string(text) != wantText {
			k.Fail("mismatch", "harness:calibration-gsub", "reference disagrees with pinned case %s (%q on %q): got %q text %q, pinned %q text %q",
				tc.Name, tc.Desc, tc.In, string(out), string(text), tc.Out, wantText)
			return
		}
		k.Class("calib:gsub-section" + section + "-reproduced")

	case i < nG+len(c06gposCases):
		tc := c06gposCases[i-nG]
		font := env.font
		desc := tc.desc
		if strings.Contains(desc, "Δ") {
			ax, bx, pos := 0, 0, 0
			for _, r := range tc.in {
				gid := env.cm.Lookup(r)
				if r == '>' {
					ax = pos
				} else if r == '<' {
					bx = pos
				}
				pos += int(font.GlyphWidth(gid))
			}
			desc = strings.Replace(desc, "Δ", fmt.Sprintf("x%+d", ax-bx), 1)
		}
		ll, err := builder.Parse(font, desc)
		if err != nil {
			k.Fail("mismatch", "harness:calibration-setup", "builder.Parse(%q): %v", desc, err)
			return
		}
		var seq []glyph.Info
		for _, r := range tc.in {
			gid := env.cm.Lookup(r)
			gi := glyph.Info{GID: gid, Text: []rune{r}}
			if env.gdef.GlyphClass[gid] != gdef.GlyphClassMark {
				gi.Advance = funit.Int16(font.GlyphWidth(gid))
			}
			seq = append(seq, gi)
		}
		res := shaper.Apply(ll, env.gdef, []gtab.LookupIndex{0}, seq)
		if res.Undefined != "" {
			if tc.mayFlag {
				k.Class("calib:gpos-outside-model")
				return
			}
			k.Fail("mismatch", "harness:calibration-flagged", "reference flags pinned GPOS case %q on %q as undefined: %s", tc.desc, tc.in, res.Undefined)
			return
		}
		for _, ch := range tc.check {
			var got, want funit.Int16
			want = ch.val
			switch ch.which {
			case c06X:
				got = res.Seq[ch.idx].XOffset
			case c06Y:
				got = res.Seq[ch.idx].YOffset
			case c06DX:
				got = res.Seq[ch.idx].Advance
			case c06DXRel:
				got = res.Seq[ch.idx].Advance
				want = ch.val + funit.Int16(math.Round(font.GlyphWidth(res.Seq[ch.idx].GID)))
			}
			if got != want {
				k.Fail("mismatch", "harness:calibration-gpos", "reference disagrees with pinned GPOS case %q on %q: glyph %d field %d: got %d, pinned %d",
					tc.desc, tc.in, ch.idx, ch.which, got, want)
				return
			}
		}
		k.Class("calib:gpos-reproduced")

	case i < nG+len(c06gposCases)+len(c06flagCases):
		tc := c06flagCases[i-nG-len(c06gposCases)]
		ll := gtab.LookupList{{
			Meta: &gtab.LookupMetaInfo{LookupType: 4, LookupFlags: tc.flags, MarkFilteringSet: tc.set},
			Subtables: []gtab.Subtable{&gtab.Gsub4_1{
				Cov:  coverage.Table{tc.in[0]: 0},
				Repl: [][]gtab.Ligature{{{In: []glyph.ID{tc.in[len(tc.in)-1]}, Out: c06fRepl}}},
			}},
		}}
		seq := make([]glyph.Info, len(tc.in))
		for j, g := range tc.in {
			seq[j].GID = g
		}
		res := shaper.Apply(ll, c06flagGdef, []gtab.LookupIndex{0}, seq)
		if res.Undefined != "" {
			k.Fail("mismatch", "harness:calibration-flagged", "reference flags pinned lookup-flag case %v/%#x as undefined: %s", tc.in, tc.flags, res.Undefined)
			return
		}
		if merged := res.Seq[0].GID == c06fRepl; merged != tc.shouldMerge {
			k.Fail("mismatch", "harness:calibration-flags", "reference disagrees with pinned lookup-flag case %v flags %#x set %d: merged=%v, pinned %v",
				tc.in, tc.flags, tc.set, merged, tc.shouldMerge)
			return
		}
		k.Class("calib:flags-reproduced")

	default:
		if msg, ok := c06calibExtra(); !ok {
			k.Fail("mismatch", "harness:calibration-extra", "TestLigature expectation: %s", msg)
			return
		}
		k.Class("calib:extra-reproduced")
	}
}
