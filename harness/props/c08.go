package props

import (
	"bytes"
	"fmt"
	"math/rand/v2"
	"reflect"
	"sort"
	"strings"

	"golang.org/x/text/language"
	"seehuhn.de/go/sfnt/glyph"
	"seehuhn.de/go/sfnt/opentype/classdef"
	"seehuhn.de/go/sfnt/opentype/coverage"
	"seehuhn.de/go/sfnt/opentype/gdef"
	"seehuhn.de/go/sfnt/opentype/gtab"
	"seehuhn.de/go/sfnt/parser"

	"verif/harness/internal/gen/otl"
	"verif/harness/internal/hooks"
	"verif/harness/internal/mon"
	"verif/harness/internal/ref/otlwalk"
)

// C08: GSUB/GPOS/GDEF binary encoding round-trips with consistent offsets
// and sizes.

func init() {
	mon.RegisterCfg("C08", mon.Config{
		Rule: "generated gtab.Info / gdef.Table / coverage / classdef values (gen/otl: every encodable lookup type and format, alphabets of 5 … 65536 glyphs, subtables of a few bytes … 58 KiB, lookup lists of 0 … 300 lookups and up to several 100 KiB with the largest lookup first / in the middle / last, totals swept +-8 bytes around the 16-bit offset limits, script lists over every script x language tag of the library's tables, feature lists up to the 16-bit limit) are encoded by the library, decoded again and compared (nil = empty); the emitted bytes are walked by the independent structural walker otlwalk (offsets inside the table, extents as implied by counts, ranges tile the table without gap or partial overlap, extension records consistent, coverage sorted with indices 0..n-1, no smaller alternative format); every subtable's declared size is compared with its emitted size (hook); coverage/classdef are additionally decoded by otlwalk and their sizes recomputed independently; a catalogue of unrepresentable structures must be refused with a panic or read back equal; further strata: counts (one record - replacement sequence, alternate set, ligature component list, ligature set, rule input / backtrack / lookahead sequence, action list, rule set, coverage array - with 256 … 2000 entries, and with more than 32767 entries under the catalogue rule; 13 … 1800 mark classes), rule-set (one rule set whose last rule starts at 62 KiB … 64 KiB + 24), value records that consist of YAdvance or of device offsets alone or have all eight fields set (also as the only record shape of a subtable), classdef tables whose glyph span is 0xFFFD … 0x10000 and tables with explicit class-0 entries (the emitted format must be the one that holds the mapping in fewer bytes), gdef-shapes (glyph class values beyond 4, 100 … 1500 mark glyph sets, sets of up to 65536 glyphs with set offsets beyond 64 KiB, sub-table offsets swept +-8 around 64 KiB), scripts (more than 100 scripts, scripts without a default language system, one script with hundreds of language systems, script list + feature list ending +-8 around 64 KiB). distinct = distinct emitted tables (hash); stratum ximage-kern: a whole font is written whose kern feature consists of pair adjustment subtables of both formats (plus decoy lookups/features/scripts, lists beyond 64 KiB through extension records) and golang.org/x/image/font/sfnt - an independent reader of script list, feature list, lookup list, extension records, coverage and class definition tables - must find, for every sampled glyph pair (glyph 0 and the last glyph of the font always among them), the kerning the structure holds; the class definition tables of a third of the class subtables are dense blocks (format 1), of another third long runs (format 2) Further stratum straddle-64k: three-piece subtables of eight kinds whose size sweeps across 64 KiB; output the independent walker finds well formed must be read back equal.",
		Assumptions: []string{
			"well-formed content = what the binary format can express (uniform nil-ness of value records per subtable position, one array entry per covered glyph, rule-set arrays not longer than the class count, mark classes below the class count, MarkFilteringSet 0 unless flagged, anchors (0,0) = absent); GPOS type 5 has no encoder and is excluded",
			"value-record device offsets are opaque 16-bit fields for the library; otlwalk does not follow them",
			"lookup lists with more than 6000 lookups+subtables are refused by gtab.Read by design and are not generated outside the catalogue",
			"otlwalk (own code written from the OpenType specification) is correct where it agrees with the library's reader",
		},
		HardSec: 180,
	}, runC08)
}

// ---------------------------------------------------------------------------
// comparison with nil == empty

// c08diff returns "" when a and b are equal up to nil-vs-empty slices and
// maps, or a path to the first difference.
func c08diff(a, b any) string {
	return c08diffV(reflect.ValueOf(a), reflect.ValueOf(b), "")
}

func c08diffV(a, b reflect.Value, path string) string {
	if !a.IsValid() || !b.IsValid() {
		if a.IsValid() == b.IsValid() {
			return ""
		}
		return path + ": one side is missing"
	}
	if a.Type() != b.Type() {
		return fmt.Sprintf("%s: type %s vs %s", path, a.Type(), b.Type())
	}
	if a.Kind() == reflect.Map && a.CanInterface() && b.CanInterface() {
		// fast paths for the large glyph maps
		switch x := a.Interface().(type) {
		case coverage.Table:
			y := b.Interface().(coverage.Table)
			if len(x) != len(y) {
				return fmt.Sprintf("%s: map size %d vs %d", path, len(x), len(y))
			}
			for g, i := range x {
				if j, ok := y[g]; !ok || i != j {
					return fmt.Sprintf("%s[%d]: %d vs %d (present: %v)", path, g, i, j, ok)
				}
			}
			return ""
		case coverage.Set:
			y := b.Interface().(coverage.Set)
			if len(x) != len(y) {
				return fmt.Sprintf("%s: map size %d vs %d", path, len(x), len(y))
			}
			for g, i := range x {
				if j, ok := y[g]; !ok || i != j {
					return fmt.Sprintf("%s[%d]: %v vs %v (present: %v)", path, g, i, j, ok)
				}
			}
			return ""
		case classdef.Table:
			y := b.Interface().(classdef.Table)
			if len(x) != len(y) {
				return fmt.Sprintf("%s: map size %d vs %d", path, len(x), len(y))
			}
			for g, i := range x {
				if j, ok := y[g]; !ok || i != j {
					return fmt.Sprintf("%s[%d]: class %d vs %d (present: %v)", path, g, i, j, ok)
				}
			}
			return ""
		}
	}
	switch a.Kind() {
	case reflect.Ptr, reflect.Interface:
		if a.IsNil() || b.IsNil() {
			if a.IsNil() == b.IsNil() {
				return ""
			}
			return fmt.Sprintf("%s: nil vs non-nil (%s)", path, a.Type())
		}
		return c08diffV(a.Elem(), b.Elem(), path)
	case reflect.Slice, reflect.Array:
		if a.Len() != b.Len() {
			return fmt.Sprintf("%s: length %d vs %d", path, a.Len(), b.Len())
		}
		for i := 0; i < a.Len(); i++ {
			if d := c08diffV(a.Index(i), b.Index(i), fmt.Sprintf("%s[%d]", path, i)); d != "" {
				return d
			}
		}
		return ""
	case reflect.Map:
		if a.Len() != b.Len() {
			return fmt.Sprintf("%s: map size %d vs %d", path, a.Len(), b.Len())
		}
		it := a.MapRange()
		for it.Next() {
			bv := b.MapIndex(it.Key())
			if !bv.IsValid() {
				return fmt.Sprintf("%s: key %v missing", path, it.Key())
			}
			if d := c08diffV(it.Value(), bv, fmt.Sprintf("%s[%v]", path, it.Key())); d != "" {
				return d
			}
		}
		return ""
	case reflect.Struct:
		for i := 0; i < a.NumField(); i++ {
			if d := c08diffV(a.Field(i), b.Field(i), path+"."+a.Type().Field(i).Name); d != "" {
				return d
			}
		}
		return ""
	case reflect.Bool:
		if a.Bool() != b.Bool() {
			return fmt.Sprintf("%s: %v vs %v", path, a.Bool(), b.Bool())
		}
	case reflect.Int, reflect.Int8, reflect.Int16, reflect.Int32, reflect.Int64:
		if a.Int() != b.Int() {
			return fmt.Sprintf("%s: %d vs %d", path, a.Int(), b.Int())
		}
	case reflect.Uint, reflect.Uint8, reflect.Uint16, reflect.Uint32, reflect.Uint64, reflect.Uintptr:
		if a.Uint() != b.Uint() {
			return fmt.Sprintf("%s: %d vs %d", path, a.Uint(), b.Uint())
		}
	case reflect.String:
		if a.String() != b.String() {
			return fmt.Sprintf("%s: %q vs %q", path, a.String(), b.String())
		}
	case reflect.Float32, reflect.Float64:
		if a.Float() != b.Float() {
			return fmt.Sprintf("%s: %v vs %v", path, a.Float(), b.Float())
		}
	default:
		return fmt.Sprintf("%s: cannot compare kind %s", path, a.Kind())
	}
	return ""
}

// ---------------------------------------------------------------------------
// helpers

func c08subName(s gtab.Subtable) string {
	n := fmt.Sprintf("%T", s)
	n = strings.TrimPrefix(n, "*")
	return strings.TrimPrefix(n, "gtab.")
}

func c08typeName(tt int) string {
	if tt == otl.GPOS {
		return "GPOS"
	}
	return "GSUB"
}

// c08outcome is the result of the encode / read / walk pipeline.
type c08outcome struct {
	enc      []byte
	rep      *otlwalk.Report
	panicked bool
	pv       any
	readErr  error
	diff     string
}

// c08pipeline encodes info, reads it back, compares and walks the bytes.  It
// records nothing itself.
func c08pipeline(k *mon.Case, tt int, info *gtab.Info) c08outcome {
	var o c08outcome
	k.Step("Encode")
	o.pv, _ = mon.Try(func() { o.enc = info.Encode() })
	if o.pv != nil {
		o.panicked = true
		return o
	}
	k.Input(o.enc)
	if tt == otl.GPOS {
		o.rep = otlwalk.WalkGPOS(o.enc)
	} else {
		o.rep = otlwalk.WalkGSUB(o.enc)
	}
	k.Step("Read")
	var back *gtab.Info
	pv, stack := mon.Try(func() { back, o.readErr = gtab.Read(bytes.NewReader(o.enc), gtab.Type(tt)) })
	if pv != nil {
		o.readErr = fmt.Errorf("gtab.Read panicked: %v\n%s", pv, stack)
		return o
	}
	if o.readErr == nil {
		o.diff = c08diff(info, back)
	}
	return o
}

// c08judge applies the oracles for a representable structure.  scen is the
// input-independent scenario name used in witness classes.
func c08judge(k *mon.Case, scen string, tt int, info *gtab.Info) (c08outcome, bool) {
	o := c08pipeline(k, tt, info)
	k.Eval()
	ok := true
	switch {
	case o.panicked:
		k.Fail("panic", "c08:"+scen+":encode-panic:"+mon.PanicClass(o.pv), "Info.Encode panicked on a representable structure: %v\n%s", o.pv, c08describe(info))
		return o, false
	case o.readErr != nil:
		k.Fail("mismatch", "c08:"+scen+":read-error", "gtab.Read rejects the bytes written by Info.Encode (%d bytes): %v\n%s\nwalker: %v", len(o.enc), o.readErr, c08describe(info), o.rep.Problems)
		ok = false
	case o.diff != "":
		k.Fail("mismatch", "c08:"+scen+":roundtrip", "Read(Encode(x)) != x at %s\n%s", o.diff, c08describe(info))
		ok = false
	}
	if o.rep != nil {
		if !c08walkJudge(k, scen, o.rep) {
			ok = false
		}
		if ok {
			c08walkAgainst(k, scen, info, o.rep)
		}
	}
	k.DistinctBytes(o.enc)
	return o, ok && !k.Failed()
}

func c08walkJudge(k *mon.Case, scen string, rep *otlwalk.Report) bool {
	ok := true
	if len(rep.Problems) > 0 {
		var all []string
		for _, p := range rep.Problems {
			all = append(all, p.String())
		}
		k.Fail("mismatch", "c08:"+scen+":walk:"+rep.Problems[0].Class, "structural walk of the emitted bytes (%d bytes): %s", rep.Len, strings.Join(all, "; "))
		ok = false
	}
	if len(rep.NotSmallest) > 0 {
		k.Fail("mismatch", "c08:"+scen+":format-not-smallest", "%s", strings.Join(rep.NotSmallest, "; "))
		ok = false
	}
	if len(rep.Unsupported) > 0 {
		k.Skip("walk-unsupported:" + rep.Unsupported[0])
	}
	for name, n := range rep.Classes {
		k.ClassN("walk:"+name, n)
	}
	return ok
}

// c08walkAgainst compares what the independent walker found in the bytes with
// the structure that was encoded (lookup types, flags, formats, script and
// feature records).
func c08walkAgainst(k *mon.Case, scen string, info *gtab.Info, rep *otlwalk.Report) {
	if info.LookupList != nil && len(rep.Lookups) != len(info.LookupList) {
		k.Fail("mismatch", "c08:"+scen+":walk-lookup-count", "walker sees %d lookups, %d were encoded", len(rep.Lookups), len(info.LookupList))
		return
	}
	for i, l := range info.LookupList {
		w := rep.Lookups[i]
		if w.Type != int(l.Meta.LookupType) || w.Flags != uint16(l.Meta.LookupFlags) || len(w.Subtables) != len(l.Subtables) ||
			(l.Meta.LookupFlags&gtab.UseMarkFilteringSet != 0 && w.MarkFilteringSet != l.Meta.MarkFilteringSet) {
			k.Fail("mismatch", "c08:"+scen+":walk-lookup-header", "lookup %d: walker sees type %d flags %#x set %d with %d subtables; encoded type %d flags %#x set %d with %d subtables",
				i, w.Type, w.Flags, w.MarkFilteringSet, len(w.Subtables), l.Meta.LookupType, l.Meta.LookupFlags, l.Meta.MarkFilteringSet, len(l.Subtables))
			return
		}
		for j, s := range l.Subtables {
			if f := c08format(s); f != w.Subtables[j].Format {
				k.Fail("mismatch", "c08:"+scen+":walk-subtable-format", "lookup %d subtable %d: %s written as format %d", i, j, c08subName(s), w.Subtables[j].Format)
				return
			}
		}
	}
	if info.FeatureList != nil {
		if len(rep.Features) != len(info.FeatureList) {
			k.Fail("mismatch", "c08:"+scen+":walk-feature-count", "walker sees %d features, %d were encoded", len(rep.Features), len(info.FeatureList))
			return
		}
		for i, f := range info.FeatureList {
			w := rep.Features[i]
			same := w.Tag == f.Tag && len(w.Lookups) == len(f.Lookups)
			for j := 0; same && j < len(w.Lookups); j++ {
				same = w.Lookups[j] == uint16(f.Lookups[j])
			}
			if !same {
				k.Fail("mismatch", "c08:"+scen+":walk-feature", "feature %d: walker sees %q %v, encoded %q %v", i, w.Tag, w.Lookups, f.Tag, f.Lookups)
				return
			}
		}
	}
	if info.ScriptList != nil && len(rep.Scripts) != len(info.ScriptList) {
		k.Fail("mismatch", "c08:"+scen+":walk-langsys-count", "walker sees %d language systems, the script list has %d entries", len(rep.Scripts), len(info.ScriptList))
	}
}

func c08format(s gtab.Subtable) int {
	switch s.(type) {
	case *gtab.Gsub1_2, *gtab.Gpos1_2, *gtab.Gpos2_2, *gtab.SeqContext2, *gtab.ChainedSeqContext2:
		return 2
	case *gtab.SeqContext3, *gtab.ChainedSeqContext3:
		return 3
	}
	return 1
}

func c08describe(info *gtab.Info) string {
	var b strings.Builder
	fmt.Fprintf(&b, "script list: %d entries, feature list: %d, lookups: %d\n", len(info.ScriptList), len(info.FeatureList), len(info.LookupList))
	for i, l := range info.LookupList {
		if i >= 12 {
			fmt.Fprintf(&b, "  …\n")
			break
		}
		fmt.Fprintf(&b, "  lookup %d: type %d flags %#x set %d:", i, l.Meta.LookupType, l.Meta.LookupFlags, l.Meta.MarkFilteringSet)
		for j, s := range l.Subtables {
			if j >= 8 {
				b.WriteString(" …")
				break
			}
			var d int
			var ok bool
			if pv, _ := mon.Try(func() { d, _, ok = hooks.SubtableSizes(s) }); pv != nil {
				ok = false
			}
			if ok {
				fmt.Fprintf(&b, " %s(%d B)", c08subName(s), d)
			} else {
				fmt.Fprintf(&b, " %s", c08subName(s))
			}
		}
		b.WriteString("\n")
	}
	s := b.String()
	if len(info.LookupList) == 1 && len(info.LookupList[0].Subtables) == 1 {
		v := fmt.Sprintf("%+v", info.LookupList[0].Subtables[0])
		if len(v) > 1500 {
			v = v[:1500] + "…"
		}
		s += v
	}
	return s
}

// c08hook compares declared and emitted size of every subtable of info.
func c08hook(k *mon.Case, scen string, ll gtab.LookupList) {
	for _, l := range ll {
		for _, s := range l.Subtables {
			var d, e int
			var ok bool
			pv, _ := mon.Try(func() { d, e, ok = hooks.SubtableSizes(s) })
			if pv != nil || !ok {
				continue // a panic is reported by the pipeline
			}
			k.Eval()
			if d != e {
				k.Fail("mismatch", "c08:"+scen+":declared-size:"+c08subName(s), "%s: encodeLen() = %d, len(encode()) = %d", c08subName(s), d, e)
			}
		}
	}
}

func c08wrap(r *rand.Rand, tt, lt int, subs ...gtab.Subtable) *gtab.Info {
	flags, set := otl.Flags(r, otl.Opts{})
	return &gtab.Info{
		ScriptList:  otl.ScriptList(r, otl.DefaultTags, 3),
		FeatureList: otl.FeatureList(r, 3, 1),
		LookupList: gtab.LookupList{{
			Meta:      &gtab.LookupMetaInfo{LookupType: uint16(lt), LookupFlags: flags, MarkFilteringSet: set},
			Subtables: subs,
		}},
	}
}

var c08maxGIDs = []int{4, 40, 300, 5000, 0xFFFF}
var c08sizes = []otl.Size{otl.Tiny, otl.Small, otl.Small, otl.Medium, otl.Medium, otl.Large, otl.Any, otl.Huge}
var c08sizeNames = map[otl.Size]string{otl.Any: "any", otl.Tiny: "tiny", otl.Small: "small", otl.Medium: "medium", otl.Large: "large", otl.Huge: "huge"}

type c08combo struct{ tt, lt, f int }

func c08combos() []c08combo {
	var out []c08combo
	for _, tt := range []int{otl.GSUB, otl.GPOS} {
		for _, lt := range otl.LookupTypes(tt, otl.Opts{}) {
			for _, f := range otl.Formats(tt, lt) {
				out = append(out, c08combo{tt, lt, f})
			}
		}
	}
	return out
}

func c08glyphs16(g []glyph.ID) []uint16 {
	out := make([]uint16, len(g))
	for i, x := range g {
		out[i] = uint16(x)
	}
	return out
}

// ---------------------------------------------------------------------------

func runC08(c *mon.Ctx) {
	combos := c08combos()

	// --- single subtables of every type and format -------------------------
	c.Stratum("subtable", c.N(3200, 300000), func(k *mon.Case) {
		r := k.Rng
		cb := combos[k.Index%len(combos)]
		sz := c08sizes[(k.Index/len(combos))%len(c08sizes)]
		if !c.Thorough() && sz == otl.Huge && r.IntN(2) == 0 {
			sz = otl.Large
		}
		o := otl.Opts{MaxGID: c08maxGIDs[r.IntN(len(c08maxGIDs))], Size: sz, NumLookups: 1 + r.IntN(4), DevOffs: r.IntN(8) == 0, RichVR: true}
		if cb.tt == otl.GPOS && cb.lt <= 2 {
			o.DevOffs = r.IntN(3) == 0
		}
		name := otl.Name(cb.tt, cb.lt, cb.f)
		s := otl.Subtable(r, cb.tt, cb.lt, cb.f, o)
		info := c08wrap(r, cb.tt, cb.lt, s)
		c08hook(k, name, info.LookupList)
		out, ok := c08judge(k, name, cb.tt, info)
		if ok {
			k.Class("sub:" + name)
			k.Class("size:" + c08sizeNames[sz])
			k.Class(fmt.Sprintf("maxgid:%d", o.MaxGID))
			k.Max("subtable-bytes", float64(len(out.enc)))
			c08vrClasses(k, info.LookupList)
		}
		k.Sample(fmt.Sprintf("%s size=%s maxGID=%d -> %d bytes", name, c08sizeNames[sz], o.MaxGID, len(out.enc)))
	})

	// --- whole tables -------------------------------------------------------
	c.Stratum("lists", c.N(700, 70000), func(k *mon.Case) {
		r := k.Rng
		tt := otl.GSUB + k.Index%2
		n := 0
		switch x := r.IntN(20); {
		case x == 0:
			n = 0
		case x < 12:
			n = 1 + r.IntN(12)
		case x < 18:
			n = 13 + r.IntN(88)
		default:
			n = 101 + r.IntN(200) // … 300
		}
		o := otl.Opts{MaxGID: c08maxGIDs[1+r.IntN(4)], NumLookups: n, Size: otl.Any, MaxSubs: 4, RichVR: true, DevOffs: r.IntN(4) == 0}
		if n > 12 {
			o.Size = otl.Small
			if r.IntN(4) == 0 {
				o.Size = otl.Tiny
			}
		}
		if n > 100 {
			o.MaxSubs = 2
		}
		var info *gtab.Info
		if n == 0 {
			info = otl.Info(r, tt, otl.Opts{MaxGID: 300, NumLookups: 1})
			info.LookupList = gtab.LookupList{}
			for _, f := range info.FeatureList {
				f.Lookups = nil
			}
		} else {
			info = otl.Info(r, tt, o)
		}
		c08hook(k, "list", info.LookupList)
		out, ok := c08judge(k, "list", tt, info)
		if ok {
			switch {
			case n == 0:
				k.Class("list:0-lookups")
			case n <= 12:
				k.Class("list:1-12-lookups")
			case n <= 100:
				k.Class("list:13-100-lookups")
			default:
				k.Class("list:101-300-lookups")
			}
			if out.rep.Classes["ext"] > 0 {
				k.Class("list:extension-path")
			}
			k.Max("list-bytes", float64(len(out.enc)))
		}
		k.Sample(fmt.Sprintf("%s with %d lookups -> %d bytes", c08typeName(tt), n, len(out.enc)))
	})

	// --- nil components of the header --------------------------------------
	c.Stratum("parts", c.N(64, 640), func(k *mon.Case) {
		r := k.Rng
		tt := otl.GSUB + k.Index%2
		mask := (k.Index / 2) % 8
		info := otl.Info(r, tt, otl.Opts{MaxGID: 300, NumLookups: 1 + r.IntN(3)})
		if mask&1 == 0 {
			info.ScriptList = nil
		}
		if mask&2 == 0 {
			info.FeatureList = nil
			for _, f := range info.ScriptList {
				f.Required, f.Optional = 0xFFFF, nil
			}
		}
		if mask&4 == 0 {
			info.LookupList = nil
			for _, f := range info.FeatureList {
				f.Lookups = nil
			}
		}
		scen := fmt.Sprintf("parts-%03b", mask)
		if mask == 0 || mask == 7 {
			// everything absent (header only) and everything present must round-trip
			if _, ok := c08judge(k, scen, tt, info); ok {
				k.Class("parts:" + scen + ":equal")
			}
			return
		}
		// Tables with some parts nil are degenerate (nothing is reachable
		// without a script list, a feature list and a lookup list); what
		// happens to them is recorded, not judged.
		o := c08pipeline(k, tt, info)
		k.Eval()
		switch {
		case o.panicked:
			k.Class("parts:" + scen + ":refused-loudly")
		case o.readErr != nil:
			k.Class("parts:" + scen + ":reader-refuses")
		case o.diff != "":
			k.Class("parts:" + scen + ":reader-drops-content")
		default:
			k.Class("parts:" + scen + ":equal")
		}
		if o.rep != nil {
			c08walkJudge(k, scen, o.rep)
		}
	})

	// --- lookup lists beyond 64 KiB (extension subtables) -------------------
	c.Stratum("ext", c.N(56, 2400), func(k *mon.Case) {
		r := k.Rng
		tt := otl.GSUB + k.Index%2
		mode := (k.Index / 2) % 7
		types := otl.LookupTypes(tt, otl.Opts{})
		mk := func(sz otl.Size, nsub int) *gtab.LookupTable {
			lt := types[r.IntN(len(types))]
			ff := otl.Formats(tt, lt)
			l := &gtab.LookupTable{Meta: &gtab.LookupMetaInfo{LookupType: uint16(lt)}}
			l.Meta.LookupFlags, l.Meta.MarkFilteringSet = otl.Flags(r, otl.Opts{})
			for i := 0; i < nsub; i++ {
				l.Subtables = append(l.Subtables, otl.Subtable(r, tt, lt, ff[r.IntN(len(ff))], otl.Opts{MaxGID: 0xFFFF, Size: sz, NumLookups: 3}))
			}
			return l
		}
		var ll gtab.LookupList
		scen := ""
		cache := map[*gtab.LookupTable]int{}
		size := func(l *gtab.LookupTable) int {
			if n, ok := cache[l]; ok {
				return n
			}
			n := c08lookupSize(l)
			cache[l] = n
			return n
		}
		// rest = size of the lookup list without its largest lookup: when this
		// exceeds 64 KiB, moving the largest lookup to the end is not enough
		rest := func() int {
			n, big := 2+2*len(ll), 0
			for _, l := range ll {
				n += size(l)
				big = max(big, size(l))
			}
			return n - big
		}
		const enough = 0x10400
		switch mode {
		case 0, 1, 2: // one lookup clearly the largest, at a chosen position
			big := mk(otl.Huge, 1)
			for size(big) < 36000 {
				big = mk(otl.Huge, 1)
			}
			for len(ll) < 2 || rest() < enough {
				if l := mk(otl.Large, 1); size(l) < 30000 {
					ll = append(ll, l)
				}
			}
			cache[big] = size(big)
			pos := 0
			switch mode {
			case 0:
				scen, pos = "largest-first", 0
			case 1:
				scen, pos = "largest-middle", 1+r.IntN(len(ll)-1)
			default:
				scen, pos = "largest-last", len(ll)
			}
			ll = append(ll[:pos], append(gtab.LookupList{big}, ll[pos:]...)...)
		case 3: // several equally large lookups
			scen = "equal-sized"
			shared := mk(otl.Large, 1)
			for len(ll) < 3 || rest() < enough {
				cp := *shared
				ll = append(ll, &cp)
				if r.IntN(2) == 0 {
					ll = append(ll, mk(otl.Small, 1+r.IntN(3)))
				}
			}
		case 4: // many medium lookups with several subtables each
			scen = "many-medium"
			for len(ll) < 30 || rest() < enough {
				ll = append(ll, mk(otl.Medium, 1+r.IntN(3)))
			}
		case 5: // one lookup whose subtables together exceed 64 KiB
			scen = "one-lookup-over-64k"
			l := mk(otl.Large, 3)
			lt := int(l.Meta.LookupType)
			inline := c08lookupSize(l)
			for {
				s := otl.Subtable(r, tt, lt, otl.Formats(tt, lt)[0], otl.Opts{MaxGID: 0xFFFF, Size: otl.Large, NumLookups: 3})
				l.Subtables = append(l.Subtables, s)
				if inline+2 > enough { // offset of the subtable just added
					break
				}
				inline += 2 + len(c08encode(s))
			}
			ll = gtab.LookupList{mk(otl.Small, 1), l, mk(otl.Small, 1)}
		default: // only contextual lookups (the subtable types shared by GSUB and GPOS)
			scen = "contexts-only"
			types = []int{5, 6}
			if tt == otl.GPOS {
				types = []int{7, 8}
			}
			for len(ll) < 3 || rest() < enough {
				ll = append(ll, mk(otl.Large, 1))
			}
		}
		info := &gtab.Info{ScriptList: otl.ScriptList(r, otl.DefaultTags, 2), FeatureList: otl.FeatureList(r, 2, len(ll)), LookupList: ll}
		c08hook(k, "ext-"+scen, ll)
		out, ok := c08judge(k, "ext-"+scen, tt, info)
		nExt := 0
		if out.rep != nil {
			nExt = out.rep.Classes["ext"]
			k.Max("ext-bytes", float64(len(out.enc)))
			if nExt > 0 && ok {
				k.Class("ext:extension-path")
				k.Class("ext:" + scen)
				// where is the largest lookup (measured)?
				best, at, unique := -1, 0, true
				for i, l := range ll {
					switch n := size(l); {
					case n > best:
						best, at, unique = n, i, true
					case n == best:
						unique = false
					}
				}
				switch {
				case !unique:
					k.Class("ext:largest-not-unique")
				case at == 0:
					k.Class("ext:measured-largest-first")
				case at == len(ll)-1:
					k.Class("ext:measured-largest-last")
				default:
					k.Class("ext:measured-largest-middle")
				}
			} else if ok {
				k.Class("ext:no-extension-needed:" + scen)
			}
		}
		k.Sample(fmt.Sprintf("%s %s: %d lookups -> %d bytes, %d extension records", c08typeName(tt), scen, len(ll), len(out.enc), nExt))
	})

	// --- lookup lists beyond 64 KiB made of a single subtable type ------------
	c.Stratum("ext-uniform", c.N(2*len(combos), 40*len(combos)), func(k *mon.Case) {
		r := k.Rng
		cb := combos[k.Index%len(combos)]
		name := otl.Name(cb.tt, cb.lt, cb.f)
		var ll gtab.LookupList
		total, big := 2, 0
		for len(ll) < 3 || total-big < 0x10400 {
			l := &gtab.LookupTable{Meta: &gtab.LookupMetaInfo{LookupType: uint16(cb.lt)}}
			l.Meta.LookupFlags, l.Meta.MarkFilteringSet = otl.Flags(r, otl.Opts{})
			for i, n := 0, 1+r.IntN(3); i < n; i++ {
				l.Subtables = append(l.Subtables, otl.Subtable(r, cb.tt, cb.lt, cb.f, otl.Opts{MaxGID: 0xFFFF, Size: otl.Large, NumLookups: 3}))
			}
			ll = append(ll, l)
			n := c08lookupSize(l)
			total += 2 + n
			big = max(big, n)
		}
		info := &gtab.Info{ScriptList: otl.ScriptList(r, otl.DefaultTags, 2), FeatureList: otl.FeatureList(r, 2, len(ll)), LookupList: ll}
		out, ok := c08judge(k, "ext-uniform-"+name, cb.tt, info)
		if ok && out.rep.Classes["ext"] > 0 {
			k.Class("ext-uniform:" + name)
		}
	})

	// --- sweep around the 16-bit limits -------------------------------------
	c.Stratum("limit", c.N(4*17*2*2, 4*17*2*40), func(k *mon.Case) {
		r := k.Rng
		i := k.Index
		tt := otl.GSUB + i%2
		i /= 2
		d := 2*(i%17) - 16 // -16 … +16, even
		i /= 17
		mode := i % 4
		// every second repetition: the large lookups carry a mark filtering
		// set (two more bytes in their header, also when their subtables are
		// replaced by extension records)
		withSet := (i/4)%2 == 1
		if withSet && mode == 1 {
			// the largest lookup then needs 18 or 20 bytes as a table of
			// extension records: sweep the rest across 0x10000 minus that
			d -= 18
		}
		filler := func(n int) *gtab.LookupTable {
			if !withSet || n-2 < 22 {
				return otl.Filler(tt, n)
			}
			l := otl.Filler(tt, n-2)
			l.Meta.LookupFlags |= gtab.UseMarkFilteringSet
			l.Meta.MarkFilteringSet = uint16(r.IntN(4))
			return l
		}
		small := func() *gtab.LookupTable {
			types := otl.LookupTypes(tt, otl.Opts{})
			return otl.Lookup(r, tt, types[r.IntN(len(types))], otl.Opts{MaxGID: 500, Size: otl.Small, NumLookups: 2, MaxSubs: 2})
		}
		size := func(ll gtab.LookupList) int { // encoded size of the lookups without the list header
			n := 0
			for _, l := range ll {
				n += c08lookupSize(l)
			}
			return n
		}
		var ll gtab.LookupList
		scen := ""
		switch mode {
		case 0:
			// offset of the last lookup table = 0x10000 + d without any reordering
			scen = "last-lookup-offset"
			for j := 0; j < 1+r.IntN(4); j++ {
				ll = append(ll, small())
			}
			last := small()
			hdr := 2 + 2*(len(ll)+2)
			f := 0x10000 + d - hdr - size(ll)
			ll = append(ll, filler(f), last)
		case 1:
			// total minus the largest lookup = 0x10000 + d: decides whether
			// moving the largest lookup to the end suffices
			scen = "all-but-largest"
			for j := 0; j < 1+r.IntN(4); j++ {
				ll = append(ll, small())
			}
			big := filler(40000 + 2*r.IntN(5000))
			hdr := 2 + 2*(len(ll)+2)
			f := 0x10000 + d - hdr - size(ll)
			if f >= 39000 {
				big = filler(62000)
			}
			parts := gtab.LookupList{filler(f), big}
			if r.IntN(2) == 0 {
				parts[0], parts[1] = parts[1], parts[0]
			}
			at := r.IntN(len(ll) + 1)
			ll = append(ll[:at], append(parts, ll[at:]...)...)
		case 3:
			// the largest lookup goes to the end; the second largest (with a
			// mark filtering set) becomes a table of one extension record of
			// 18 bytes; the others are sized so that the largest then starts
			// at 0x10000 + d: for d >= 0 a further lookup has to give way
			scen = "after-one-replacement"
			second := otl.Filler(tt, 30000-2)
			second.Meta.LookupFlags |= gtab.UseMarkFilteringSet
			second.Meta.MarkFilteringSet = uint16(r.IntN(4))
			big := otl.Filler(tt, 40000+2*r.IntN(5000))
			hdr := 2 + 2*5
			rest := 0x10000 + d - 18 - hdr
			a := 20000 + 2*r.IntN(1000)
			b := 20000 + 2*r.IntN(1000)
			ll = gtab.LookupList{otl.Filler(tt, a), otl.Filler(tt, b), otl.Filler(tt, rest-a-b), second, big}
			r.Shuffle(len(ll), func(i, j int) { ll[i], ll[j] = ll[j], ll[i] })
		default:
			// offset of the last subtable inside one lookup = 0x10000 + d
			scen = "subtable-offset"
			f := filler(0x10000 + d - 10 + 8) // subtable of size 0x10000+d-10
			tail := filler(22 + 2*r.IntN(40))
			l := &gtab.LookupTable{Meta: f.Meta, Subtables: []gtab.Subtable{f.Subtables[0], tail.Subtables[0]}}
			ll = gtab.LookupList{small(), l, small()}
		}
		info := &gtab.Info{ScriptList: otl.ScriptList(r, otl.DefaultTags, 1), FeatureList: otl.FeatureList(r, 1, len(ll)), LookupList: ll}
		scen = "limit-" + scen
		if withSet {
			k.Class("limit:large-lookups-with-mark-filtering-set")
		}
		out, ok := c08judge(k, scen, tt, info)
		if ok {
			k.Class(fmt.Sprintf("%s:%+d", scen, d))
			if out.rep.Classes["ext"] > 0 {
				k.Class(scen + ":extension-path")
			} else {
				k.Class(scen + ":plain")
			}
		}
	})

	// --- coverage tables ----------------------------------------------------
	c.Stratum("coverage", c.N(2400, 120000), func(k *mon.Case) {
		r := k.Rng
		gids := c08coverageGlyphs(r, k.Index+k.Index/16) // (shards take every 16th index: keep the shapes mixed in each)
		tab := otl.TableOf(gids)
		want := c08glyphs16(gids)
		k.Step(fmt.Sprintf("coverage %d glyphs", len(gids)))
		var enc []byte
		var declared int
		if k.Guard("coverage.Table.Encode", func() { enc = tab.Encode(); declared = tab.EncodeLen() }) {
			return
		}
		k.Input(enc)
		k.Eval()
		c08coverageChecks(k, "coverage", want, enc, declared)
		var back coverage.Table
		var err error
		if k.Guard("coverage.Read", func() { back, err = coverage.Read(parser.New(bytes.NewReader(enc)), 0) }) {
			return
		}
		if err != nil {
			k.Fail("mismatch", "c08:coverage:read-error", "coverage.Read: %v (%d glyphs)", err, len(gids))
		} else if d := c08diff(tab, back); d != "" {
			k.Fail("mismatch", "c08:coverage:roundtrip", "coverage.Read(Encode(t)) != t at %s", d)
		}
		// the Set flavour
		set := otl.SetOf(gids)
		var enc2 []byte
		var bset coverage.Set
		if k.Guard("coverage.Set", func() {
			enc2 = set.ToTable().Encode()
			bset, err = coverage.ReadSet(parser.New(bytes.NewReader(enc2)), 0)
		}) {
			return
		}
		if !bytes.Equal(enc, enc2) {
			k.Fail("mismatch", "c08:coverage:set-bytes", "Set.ToTable().Encode() differs from Table.Encode() for the same glyphs")
		}
		if err != nil {
			k.Fail("mismatch", "c08:coverage:readset-error", "coverage.ReadSet: %v", err)
		} else if d := c08diff(set, bset); d != "" {
			k.Fail("mismatch", "c08:coverage:set-roundtrip", "ReadSet(Encode(s)) != s at %s", d)
		}
		k.DistinctBytes(enc)
		if len(gids) > 0 {
			if gids[0] == 0 {
				k.Class("cov:has-gid-0")
			}
			if gids[len(gids)-1] == 0xFFFF {
				k.Class("cov:has-gid-ffff")
			}
		} else {
			k.Class("cov:empty")
		}
		if len(gids) == 65536 {
			k.Class("cov:full-range")
		}
	})

	// --- class definition tables --------------------------------------------
	c.Stratum("classdef", c.N(2400, 120000), func(k *mon.Case) {
		r := k.Rng
		cd := c08classDef(r, k.Index+k.Index/16)
		f1, f2 := otlwalk.ClassDefSizes(c08cd16(cd))
		nZeros := 0
		for _, cls := range cd {
			if cls == 0 {
				nZeros++
			}
		}
		zeros := nZeros > 0
		k.Step(fmt.Sprintf("classdef %d glyphs", len(cd)))
		if f1 < 0 && f2 < 0 {
			k.Skip("classdef-unrepresentable")
			return
		}
		prefix := []byte{0xAA, 0xBB, 0xCC}[:r.IntN(4)]
		var enc []byte
		var declared int
		if k.Guard("classdef.Table.Append", func() {
			enc = cd.Append(append([]byte{}, prefix...))
			declared = cd.AppendLen()
		}) {
			return
		}
		k.Eval()
		if !bytes.HasPrefix(enc, prefix) {
			k.Fail("mismatch", "c08:classdef:prefix-clobbered", "Append does not preserve the bytes it appends to")
			return
		}
		enc = enc[len(prefix):]
		k.Input(enc)
		if declared != len(enc) {
			k.Fail("mismatch", "c08:classdef:declared-size", "AppendLen() = %d, Append emitted %d bytes (independent sizes: format 1 %d, format 2 %d; %d glyphs)", declared, len(enc), f1, f2, len(cd))
		}
		best := f2
		if best < 0 || (f1 >= 0 && f1 < best) {
			best = f1
		}
		dec, probs := otlwalk.ReadClassDef(enc, 0)
		switch {
		case len(probs) > 0:
			k.Fail("mismatch", "c08:classdef:walk:"+probs[0].Class, "independent decoder: %v", probs)
		case dec.Size != len(enc):
			k.Fail("mismatch", "c08:classdef:extent", "independent decoder: the table occupies %d bytes, %d were emitted", dec.Size, len(enc))
		default:
			if d := c08classDiff(cd, c08toTable(dec.Class)); d != "" {
				k.Fail("mismatch", "c08:classdef:content", "independent decoder reads a different mapping: %s", d)
			}
			switch {
			case len(enc) <= best:
			case !zeros:
				k.Fail("mismatch", "c08:classdef:format-not-smallest", "format %d with %d bytes was emitted; format 1 needs %d, format 2 needs %d", dec.Format, len(enc), f1, f2)
			default:
				// Entries with class 0 say what absence says.  The property
				// speaks about the choice between the two formats: the format
				// that was emitted must be the one that can hold the mapping in
				// fewer bytes; padding inside that format is only recorded.
				mine, other := f1, f2
				if dec.Format == 2 {
					mine, other = f2, f1
				}
				if other >= 0 && (mine < 0 || other < mine) {
					k.Fail("mismatch", "c08:classdef:explicit-class-0:larger-format-chosen", "a table with explicit class-0 entries was written in format %d (%d bytes emitted, %d needed); format %d holds the same mapping in %d bytes; entries: %d, of which class 0: %d", dec.Format, len(enc), mine, 3-dec.Format, other, len(cd), nZeros)
				} else {
					k.Class("classdef:explicit-class-0:padded-within-the-smaller-format")
				}
			}
			if zeros {
				k.Class("classdef:explicit-class-0")
			}
			k.Class(fmt.Sprintf("classdef:format%d", dec.Format))
			if span := c08classSpan(cd); span >= 0xFFFD {
				k.Class(fmt.Sprintf("classdef:span-%#x:format%d", span, dec.Format))
			}
			if f1 == f2 {
				k.Class("classdef:tie")
			} else if f1 >= 0 && f2 >= 0 && (f1-f2 == 2 || f2-f1 == 2 || f1-f2 == 4 || f2-f1 == 4) {
				k.Class("classdef:near-tie")
			}
			if f1 < 0 {
				k.Class("classdef:format1-impossible")
			}
		}
		var back classdef.Table
		var err error
		if k.Guard("classdef.Read", func() { back, err = classdef.Read(parser.New(bytes.NewReader(enc)), 0) }) {
			return
		}
		if err != nil {
			k.Fail("mismatch", "c08:classdef:read-error", "classdef.Read: %v", err)
		} else if d := c08classDiff(cd, back); d != "" {
			k.Fail("mismatch", "c08:classdef:roundtrip", "classdef.Read(Append(t)) != t: %s", d)
		}
		k.DistinctBytes(enc)
		if _, ok := cd[0]; ok {
			k.Class("classdef:has-gid-0")
		}
		if _, ok := cd[0xFFFF]; ok {
			k.Class("classdef:has-gid-ffff")
		}
		if len(cd) == 0 {
			k.Class("classdef:empty")
		}
		if zeros && nZeros == len(cd) {
			k.Class("classdef:only-class-0-entries")
		}
	})

	// --- GDEF -----------------------------------------------------------------
	c.Stratum("gdef", c.N(600, 60000), func(k *mon.Case) {
		r := k.Rng
		n := []int{1, 5, 40, 300, 5000, 65536}[r.IntN(6)]
		t := otl.Gdef(r, n)
		if r.IntN(6) == 0 && t.GlyphClass != nil {
			// a large glyph class table (still below the 16-bit offset limit)
			for _, g := range otl.GIDs(r, 2000+r.IntN(6000), 0xFFFF) {
				t.GlyphClass[g] = uint16(1 + r.IntN(4))
			}
		}
		enc, ok := c08gdefJudge(k, t)
		if !ok {
			return
		}
		k.DistinctBytes(enc)
		cls := "gdef:"
		for _, p := range []bool{t.GlyphClass != nil, t.MarkAttachClass != nil, t.MarkGlyphSets != nil} {
			if p {
				cls += "1"
			} else {
				cls += "0"
			}
		}
		k.Class(cls)
	})

	// --- script / language tags -------------------------------------------------
	scripts, langs, hooked := hooks.TagTables()
	var scriptTags, langTags []string
	for s := range scripts {
		scriptTags = append(scriptTags, s)
	}
	for l := range langs {
		langTags = append(langTags, l)
	}
	sort.Strings(scriptTags)
	sort.Strings(langTags)
	if !hooked {
		c.Note("hooks unavailable: script/language coverage limited to a fixed list of tags")
		scriptTags = []string{"DFLT", "latn", "arab", "cyrl", "grek", "deva"}
		langTags = []string{"DEU ", "TRK ", "URD ", "SRB ", "ROM ", "NLD "}
	} else {
		c.Note("tag tables: %d scripts x (%d languages + default)", len(scriptTags), len(langTags))
	}
	c.Stratum("tags", len(scriptTags), func(k *mon.Case) {
		r := k.Rng
		type pair struct{ script, lang string }
		want := map[language.Tag]pair{}
		collect := func(script string, ll []string) {
			for _, lang := range append([]string{""}, ll...) {
				tag, ok := c08tagFor(k, script, lang)
				if !ok {
					k.Class("tags:pair-not-representable")
					continue
				}
				if old, dup := want[tag]; dup && old != (pair{script, lang}) {
					k.Class("tags:two-pairs-one-tag")
					continue
				}
				want[tag] = pair{script, lang}
			}
		}
		collect(scriptTags[k.Index], langTags)
		if len(want) == 0 {
			// not a single language system of this script survives gtab.Read
			k.Eval()
			k.Fail("mismatch", "c08:tags:script-not-representable", "script tag %q is in the library's script table, but gtab.Read drops every language system record of a hand-written script list that uses it (there is no language.Tag for it)", scriptTags[k.Index])
			return
		}
		other := scriptTags[r.IntN(len(scriptTags))]
		if other != scriptTags[k.Index] {
			var some []string
			for _, j := range r.Perm(len(langTags))[:min(5, len(langTags))] {
				some = append(some, langTags[j])
			}
			collect(other, some)
		}
		nf := 1 + r.IntN(20)
		info := &gtab.Info{ScriptList: gtab.ScriptListInfo{}, FeatureList: otl.FeatureList(r, nf, 2), LookupList: otl.LookupList(r, otl.GSUB, otl.Opts{MaxGID: 100, NumLookups: 2, Size: otl.Tiny})}
		for tag := range want {
			info.ScriptList[tag] = otl.Features(r, nf)
		}
		out, ok := c08judge(k, "tags", otl.GSUB, info)
		if !ok || out.rep == nil {
			return
		}
		// the independent walker must find exactly the wanted pairs with the wanted features
		seen := map[pair]otlwalk.LangSys{}
		for _, ls := range out.rep.Scripts {
			seen[pair{ls.Script, ls.Lang}] = ls
		}
		for tag, p := range want {
			ls, found := seen[p]
			if !found {
				k.Fail("mismatch", "c08:tags:pair-missing-in-bytes", "script %q language %q (tag %v) is not in the emitted script list", p.script, p.lang, tag)
				return
			}
			f := info.ScriptList[tag]
			same := ls.Required == uint16(f.Required) && len(ls.Features) == len(f.Optional)
			for j := 0; same && j < len(ls.Features); j++ {
				same = ls.Features[j] == uint16(f.Optional[j])
			}
			if !same {
				k.Fail("mismatch", "c08:tags:langsys-content", "script %q language %q: bytes say required %d features %v, encoded %d %v", p.script, p.lang, ls.Required, ls.Features, f.Required, f.Optional)
				return
			}
		}
		if len(seen) != len(want) {
			k.Fail("mismatch", "c08:tags:extra-pairs-in-bytes", "%d language systems in the bytes, %d encoded", len(seen), len(want))
			return
		}
		k.ClassN("tags:pairs-round-tripped", len(want))
		k.Class("tags:script-complete")
	})

	c08ximageStratum(c)
	c08shapeStrata(c, scriptTags, langTags)

	// --- feature lists up to the 16-bit limit --------------------------------------
	c.Stratum("features", c.N(40, 800), func(k *mon.Case) {
		r := k.Rng
		// offset of the last feature table = limit - d
		d := 2 * (k.Index % 10)
		n := 200 + r.IntN(5000)
		fl := make(gtab.FeatureListInfo, n)
		total := 2 + 6*n
		for i := range fl {
			fl[i] = &gtab.Feature{Tag: otl.FeatureTag(r)}
		}
		// distribute lookup indices so that the last feature starts at 0xFFFE - d
		room := (0xFFFE - d - (total + 4*(n-1))) / 2
		for room > 0 {
			f := fl[r.IntN(n-1)]
			c := min(room, 1+r.IntN(60))
			for j := 0; j < c; j++ {
				f.Lookups = append(f.Lookups, gtab.LookupIndex(r.IntN(3)))
			}
			room -= c
		}
		withLookups := (k.Index/10)%2 == 0
		info := &gtab.Info{ScriptList: gtab.ScriptListInfo{}, FeatureList: fl, LookupList: gtab.LookupList{}}
		if !withLookups {
			// no lookup list: the feature list may end beyond 64 KiB
			info.LookupList = nil
			for j := 0; j < r.IntN(40); j++ {
				fl[n-1].Lookups = append(fl[n-1].Lookups, 0)
			}
		}
		o := c08pipeline(k, otl.GSUB, info)
		k.Eval()
		end := 10 + 2 + 0xFFFE - d + 4 + 2*len(fl[n-1].Lookups)
		switch {
		case o.panicked:
			k.Class("features:refused-loudly")
		case withLookups && end > 0xFFFF:
			// not representable (lookupListOffset does not fit): must not be written silently
			if o.readErr != nil || o.diff != "" || !o.rep.OK() {
				k.Fail("mismatch", "c08:features:header-offset-overflow", "a feature list ending at %d pushes the lookup list beyond 64 KiB; Encode wrote %d bytes without complaint; read error: %v; diff: %s; walker: %v", end, len(o.enc), o.readErr, o.diff, o.rep.Problems)
			}
		case withLookups:
			if o.readErr != nil {
				k.Fail("mismatch", "c08:features:read-error", "%v", o.readErr)
			} else if o.diff != "" {
				k.Fail("mismatch", "c08:features:roundtrip", "%s", o.diff)
			}
			c08walkJudge(k, "features", o.rep)
			k.Class("features:near-limit-roundtrip")
		default:
			// without a lookup list the reader returns an empty table by design
			c08walkJudge(k, "features", o.rep)
			k.Class("features:no-lookup-list")
			// The same encoded feature list behind a lookup list (header, script
			// list, lookup list, feature list - the parts are self-contained, only
			// the three header offsets change): every 16-bit offset is valid although
			// the feature list ends beyond 64 KiB, so the table must read back intact.
			if len(o.enc) >= 10 && o.enc[8] == 0 && o.enc[9] == 0 {
				so := int(o.enc[4])<<8 | int(o.enc[5])
				fo := int(o.enc[6])<<8 | int(o.enc[7])
				if so == 10 && fo > so && fo <= len(o.enc) {
					ll := gtab.LookupList{}
					for j := 0; j < 3; j++ {
						ll = append(ll, &gtab.LookupTable{Meta: &gtab.LookupMetaInfo{LookupType: 1},
							Subtables: []gtab.Subtable{&gtab.Gsub1_1{Cov: coverage.Set{glyph.ID(5 + j): true}, Delta: glyph.ID(1 + j)}}})
					}
					var llEnc []byte
					if pv, _ := mon.Try(func() { llEnc = (&gtab.Info{ScriptList: gtab.ScriptListInfo{}, LookupList: ll}).Encode() }); pv == nil && len(llEnc) > 10 {
						lo2 := int(llEnc[8])<<8 | int(llEnc[9])
						if lo2 >= 10 && lo2 < len(llEnc) {
							sl, flb, llb := o.enc[so:fo], o.enc[fo:], llEnc[lo2:]
							nlo := 10 + len(sl)
							nfo := nlo + len(llb)
							re := []byte{0, 1, 0, 0, 0, 10, byte(nfo >> 8), byte(nfo), byte(nlo >> 8), byte(nlo)}
							re = append(append(append(re, sl...), llb...), flb...)
							var back *gtab.Info
							var rerr error
							pv, stack := mon.Try(func() { back, rerr = gtab.Read(bytes.NewReader(re), gtab.Type(otl.GSUB)) })
							k.Eval()
							want := &gtab.Info{ScriptList: gtab.ScriptListInfo{}, FeatureList: fl, LookupList: ll}
							switch {
							case pv != nil:
								k.Fail("panic", "c08:features:lists-reordered:read-panic", "%v\n%s", pv, stack)
							case rerr != nil:
								k.Fail("mismatch", "c08:features:lists-reordered:read-error", "header + script list + lookup list + the encoded feature list (%d features, last one at offset %d, list of %d bytes): gtab.Read: %v", n, 0xFFFE-d, len(flb), rerr)
							default:
								if df := c08diff(want, back); df != "" {
									k.Fail("mismatch", "c08:features:lists-reordered:roundtrip", "%s", df)
								}
							}
							if len(flb) > 0xFFFF {
								k.Class("features:list-ends-beyond-64k-read-back")
							} else {
								k.Class("features:lists-reordered-read-back")
							}
						}
					}
				}
			}
		}
		k.Max("feature-list-last-offset", float64(0xFFFE-d))
	})

	c08unrepresentable(c)

	req := []string{"ext:extension-path", "ext:measured-largest-first", "ext:measured-largest-middle", "ext:measured-largest-last",
		"walk:cov1", "walk:cov2", "walk:classdef1", "walk:classdef2", "walk:ext",
		"cov:format1", "cov:format2", "cov:tie", "cov:has-gid-0", "cov:has-gid-ffff", "cov:full-range",
		"classdef:format1", "classdef:format2", "classdef:tie", "classdef:has-gid-0", "classdef:has-gid-ffff",
		"classdef:span-0xffff:format1", "classdef:span-0xffff:format2", "classdef:span-0x10000:format2", "classdef:explicit-class-0",
		"tags:script-complete", "gdef:111", "gdef:000",
		"vr:record-yadvance-only", "vr:record-device-offsets-only", "vr:record-all-eight-fields",
		"vr:subtable-format-yadvance-only", "vr:subtable-format-device-offsets-only"}
	for _, cb := range combos {
		req = append(req, "sub:"+otl.Name(cb.tt, cb.lt, cb.f), "ext-uniform:"+otl.Name(cb.tt, cb.lt, cb.f))
	}
	c.Require(req...)
}

// c08lookupSize is the encoded size of a lookup table with its subtables
// stored inline.
func c08lookupSize(l *gtab.LookupTable) int {
	n := 6 + 2*len(l.Subtables)
	if l.Meta.LookupFlags&gtab.UseMarkFilteringSet != 0 {
		n += 2
	}
	for _, s := range l.Subtables {
		n += len(c08encode(s))
	}
	return n
}

func c08encode(s gtab.Subtable) []byte {
	// the size of a subtable as the list encoder will lay it out, measured
	// through the public encoder: a list with this single subtable
	info := &gtab.Info{LookupList: gtab.LookupList{{Meta: &gtab.LookupMetaInfo{LookupType: 1}, Subtables: []gtab.Subtable{s}}}}
	b := info.Encode()
	return b[10+2+2+6+2:]
}

func c08cd16(cd classdef.Table) map[uint16]uint16 {
	m := make(map[uint16]uint16, len(cd))
	for g, c := range cd {
		m[uint16(g)] = c
	}
	return m
}

func c08toTable(m map[uint16]uint16) classdef.Table {
	t := make(classdef.Table, len(m))
	for g, c := range m {
		t[glyph.ID(g)] = c
	}
	return t
}

func c08classDiff(want, got classdef.Table) string {
	for g, c := range want {
		if c != 0 && got[g] != c {
			return fmt.Sprintf("glyph %d: class %d expected, got %d", g, c, got[g])
		}
	}
	for g, c := range got {
		if c != 0 && want[g] != c {
			return fmt.Sprintf("glyph %d: class %d appeared, expected %d", g, c, want[g])
		}
	}
	return ""
}

// c08coverageChecks: declared = emitted, independent decode gives the glyphs
// in order, emitted format is not larger than the alternative.
func c08coverageChecks(k *mon.Case, scen string, want []uint16, enc []byte, declared int) {
	if declared != len(enc) {
		k.Fail("mismatch", "c08:"+scen+":declared-size", "EncodeLen() = %d, Encode emitted %d bytes", declared, len(enc))
	}
	f1, f2 := otlwalk.CoverageSizes(want)
	best := f2
	if f1 >= 0 && f1 < best {
		best = f1
	}
	dec, probs := otlwalk.ReadCoverage(enc, 0)
	switch {
	case len(probs) > 0:
		k.Fail("mismatch", "c08:"+scen+":walk:"+probs[0].Class, "independent decoder: %v", probs)
	case dec.Size != len(enc):
		k.Fail("mismatch", "c08:"+scen+":extent", "independent decoder: the table occupies %d bytes, %d were emitted", dec.Size, len(enc))
	case !reflect.DeepEqual(dec.Glyphs, want) && !(len(dec.Glyphs) == 0 && len(want) == 0):
		k.Fail("mismatch", "c08:"+scen+":content", "independent decoder reads %d glyphs, %d were encoded (or in a different order)", len(dec.Glyphs), len(want))
	default:
		if len(enc) > best {
			k.Fail("mismatch", "c08:"+scen+":format-not-smallest", "format %d with %d bytes was emitted; format 1 needs %d, format 2 needs %d", dec.Format, len(enc), f1, f2)
		}
		k.Class(fmt.Sprintf("cov:format%d", dec.Format))
		if f1 == f2 {
			k.Class("cov:tie")
		} else if f1 >= 0 && (f1-f2 == 2 || f2-f1 == 2 || f1-f2 == 4 || f2-f1 == 4) {
			k.Class("cov:near-tie")
		}
	}
}

// c08coverageGlyphs: glyph sets around the break-even point of the two
// formats (n glyphs in k runs: 4+2n vs 4+6k), at the ends of the glyph range,
// and random shapes.
func c08coverageGlyphs(r *rand.Rand, index int) []glyph.ID {
	switch index % 8 {
	case 0: // exactly k runs with 3k+delta glyphs in total
		k := 1 + r.IntN(40)
		if r.IntN(6) == 0 {
			k = 1 + r.IntN(3000)
		}
		n := 3*k + r.IntN(5) - 2
		if n < k {
			n = k
		}
		return c08runs(r, k, n)
	case 1:
		return otl.GIDs(r, r.IntN(8), 0xFFFF)
	case 2: // at the ends
		var g []glyph.ID
		a, b := r.IntN(6), r.IntN(6)
		for i := 0; i < a; i++ {
			g = append(g, glyph.ID(i))
		}
		for i := 0; i < b; i++ {
			g = append(g, glyph.ID(0xFFFF-b+1+i))
		}
		if r.IntN(2) == 0 {
			g = append(g[:a], append(otl.GIDs(r, r.IntN(5), 0xFFF0)[:], g[a:]...)...)
			sort.Slice(g, func(i, j int) bool { return g[i] < g[j] })
			out := g[:0]
			for i, x := range g {
				if i == 0 || x != g[i-1] {
					out = append(out, x)
				}
			}
			g = out
		}
		return g
	case 3: // everything, or everything but a few
		if r.IntN(4) == 0 {
			return otl.GIDs(r, 65536, 0xFFFF)
		}
		return otl.GIDs(r, 65536-1-r.IntN(40), 0xFFFF)
	case 4:
		return otl.GIDs(r, r.IntN(3000), 0xFFFF)
	case 5:
		return otl.GIDs(r, r.IntN(40), 5+r.IntN(60))
	case 6:
		return otl.GIDs(r, 20000+r.IntN(40000), 0xFFFF)
	default:
		return otl.GIDs(r, 1+r.IntN(200), 0xFFFF)
	}
}

// c08runs returns n glyphs arranged in exactly k maximal runs.
func c08runs(r *rand.Rand, k, n int) []glyph.ID {
	lens := make([]int, k)
	for i := range lens {
		lens[i] = 1
	}
	for i := 0; i < n-k; i++ {
		lens[r.IntN(k)]++
	}
	// gaps
	free := 0x10000 - n - (k - 1)
	if free < 0 {
		return otl.GIDs(r, n, 0xFFFF)
	}
	var out []glyph.ID
	pos := 0
	if r.IntN(3) != 0 {
		g := r.IntN(min(free, 2000) + 1)
		pos += g
		free -= g
	}
	for i, l := range lens {
		for j := 0; j < l; j++ {
			out = append(out, glyph.ID(pos))
			pos++
		}
		if i < k-1 {
			g := 1
			if free > 0 {
				x := r.IntN(min(free, 50) + 1)
				g += x
				free -= x
			}
			pos += g
		}
	}
	return out
}

// c08classDef: class tables around the break-even point (span s, r runs:
// 6+2s vs 4+6r), at the ends of the glyph range, dense and sparse.
func c08classDef(r *rand.Rand, index int) classdef.Table {
	cd := classdef.Table{}
	switch index % 10 {
	case 8:
		// the glyph span at the limit of format 1 (its glyph count is a
		// 16-bit field): 0xFFFD … 0x10000 glyphs between the first and the
		// last classified glyph
		span := 0x10000 - r.IntN(4)
		start := r.IntN(0x10000 - span + 1)
		switch r.IntN(4) {
		case 0: // dense, alternating classes: format 1 is much smaller where it is possible
			for i := 0; i < span; i++ {
				cd[glyph.ID(start+i)] = uint16(1 + i%2)
			}
		case 1: // dense with a few holes (class 0 inside the span)
			for i := 0; i < span; i++ {
				if i == 0 || i == span-1 || r.IntN(50) != 0 {
					cd[glyph.ID(start+i)] = uint16(1 + i%3)
				}
			}
		case 2: // both ends and little in between: format 2 is tiny
			cd[glyph.ID(start)] = uint16(1 + r.IntN(3))
			cd[glyph.ID(start+span-1)] = uint16(1 + r.IntN(3))
			for _, g := range otl.GIDs(r, r.IntN(30), 0xFFFF) {
				if int(g) > start && int(g) < start+span-1 {
					cd[g] = uint16(1 + r.IntN(4))
				}
			}
		default: // runs of three: both formats need (nearly) the same number of bytes
			cls := uint16(1)
			for i := 0; i < span; i++ {
				if i%3 == 0 {
					cls = cls%2 + 1
				}
				cd[glyph.ID(start+i)] = cls
			}
			// a few longer / shorter runs move the balance by some bytes
			for j := r.IntN(4); j > 0; j-- {
				i := 3 * r.IntN(span/3-1)
				cd[glyph.ID(start+i+3)] = cd[glyph.ID(start+i)]
			}
		}
		return cd
	case 9:
		// explicit class-0 entries: the same mapping as without them
		cd = c08classDef(r, r.IntN(8))
		if len(cd) > 3000 {
			cd = classdef.Table{}
			for _, g := range otl.GIDs(r, 1+r.IntN(12), []int{40, 0xFFFF}[r.IntN(2)]) {
				cd[g] = uint16(1 + r.IntN(3))
			}
		}
		lo, hi := 0xFFFF, 0
		for _, g := range c08sortedKeys(cd) {
			lo, hi = min(lo, int(g)), max(hi, int(g))
		}
		zero := func(g int) {
			if g >= 0 && g <= 0xFFFF {
				if _, used := cd[glyph.ID(g)]; !used {
					cd[glyph.ID(g)] = 0
				}
			}
		}
		if len(cd) == 0 {
			lo, hi = 0x8000, 0x8000
		}
		for j := 1 + r.IntN(4); j > 0; j-- {
			switch r.IntN(6) {
			case 0:
				zero(lo - 1 - r.IntN(3))
			case 1:
				zero(hi + 1 + r.IntN(3))
			case 2:
				zero(lo - 1 - r.IntN(lo+1)) // far below
			case 3:
				zero(hi + 1 + r.IntN(0x10000-hi)) // far above
			case 4:
				zero(lo + r.IntN(hi-lo+1)) // inside the span (a gap, if there is one)
			default:
				zero([]int{0, 0xFFFF}[r.IntN(2)])
			}
		}
		return cd
	case 0: // k runs within a span of 3k-1+delta
		k := 1 + r.IntN(40)
		if r.IntN(6) == 0 {
			k = 1 + r.IntN(3000)
		}
		span := 3*k - 1 + r.IntN(5) - 2
		if span < k {
			span = k
		}
		// k runs, different classes for adjacent runs, total extent = span
		extra := span - k // to distribute over run lengths and gaps
		lens := make([]int, k)
		gaps := make([]int, k) // gap after run i (last unused)
		for i := range lens {
			lens[i] = 1
		}
		for i := 0; i < extra; i++ {
			if k > 1 && r.IntN(2) == 0 {
				gaps[r.IntN(k-1)]++
			} else {
				lens[r.IntN(k)]++
			}
		}
		if span > 0x10000 {
			return cd
		}
		pos := r.IntN(0x10000 - span + 1)
		prev := uint16(0)
		for i := 0; i < k; i++ {
			cls := uint16(1 + r.IntN(5))
			if i > 0 && gaps[i-1] == 0 && cls == prev {
				cls = prev%5 + 1
			}
			for j := 0; j < lens[i]; j++ {
				cd[glyph.ID(pos)] = cls
				pos++
			}
			pos += gaps[i]
			prev = cls
		}
	case 1:
		for _, g := range otl.GIDs(r, r.IntN(6), 0xFFFF) {
			cd[g] = uint16(1 + r.IntN(3))
		}
	case 2: // both ends of the range in use: format 1 is impossible
		cd[0] = uint16(1 + r.IntN(3))
		cd[0xFFFF] = uint16(1 + r.IntN(3))
		n := r.IntN(50)
		if r.IntN(3) == 0 {
			n = 20000 + r.IntN(30000) // many ranges: format 2 is long, but it is the only one
		}
		for _, g := range otl.GIDs(r, n, 0xFFFF) {
			cd[g] = uint16(1 + r.IntN(4))
		}
	case 3: // one end
		base := glyph.ID(0)
		if r.IntN(2) == 0 {
			base = glyph.ID(0xFFFF - 40)
		}
		for i := 0; i <= 40; i++ {
			if r.IntN(3) != 0 {
				cd[base+glyph.ID(i)] = uint16(1 + r.IntN(3))
			}
		}
	case 4: // alternating classes: format 1 wins
		s := r.IntN(0x10000 - 300)
		n := 2 + r.IntN(250)
		for i := 0; i < n; i++ {
			cd[glyph.ID(s+i)] = uint16(1 + i%2)
		}
	case 5: // few long runs: format 2 wins
		pos := r.IntN(1000)
		for i := 0; i < 1+r.IntN(6); i++ {
			l := 1 + r.IntN(3000)
			cls := uint16(1 + r.IntN(0xFFFF))
			for j := 0; j < l && pos <= 0xFFFF; j++ {
				cd[glyph.ID(pos)] = cls
				pos++
			}
			pos += r.IntN(5000)
		}
	case 6:
		return otl.ClassDef(r, 1+r.IntN(10), otl.Opts{MaxGID: []int{4, 40, 300, 0xFFFF}[r.IntN(4)], Size: otl.Medium})
	default:
		for _, g := range otl.GIDs(r, r.IntN(400), 0xFFFF) {
			cd[g] = uint16(1 + r.IntN(6))
		}
	}
	return cd
}

func c08sortedKeys(cd classdef.Table) []glyph.ID {
	keys := make([]glyph.ID, 0, len(cd))
	for g := range cd {
		keys = append(keys, g)
	}
	sort.Slice(keys, func(i, j int) bool { return keys[i] < keys[j] })
	return keys
}

// c08classSpan is the number of glyph ids between the first and the last
// glyph with a non-zero class (inclusive), 0 for an empty mapping.
func c08classSpan(cd classdef.Table) int {
	lo, hi := -1, -1
	for g, c := range cd {
		if c == 0 {
			continue
		}
		if lo < 0 || int(g) < lo {
			lo = int(g)
		}
		if int(g) > hi {
			hi = int(g)
		}
	}
	if lo < 0 {
		return 0
	}
	return hi - lo + 1
}

func c08gdefAgainst(k *mon.Case, t *gdef.Table, g *otlwalk.GDEF) {
	chk := func(name string, want classdef.Table, got *otlwalk.ClassDef) {
		if (want != nil) != (got != nil) {
			k.Fail("mismatch", "c08:gdef:walk-presence", "%s: present in the structure: %v, in the bytes: %v", name, want != nil, got != nil)
			return
		}
		if want == nil {
			return
		}
		if d := c08classDiff(want, c08toTable(got.Class)); d != "" {
			k.Fail("mismatch", "c08:gdef:walk-content", "%s: %s", name, d)
		}
	}
	chk("GlyphClass", t.GlyphClass, g.GlyphClass)
	chk("MarkAttachClass", t.MarkAttachClass, g.MarkAttachClass)
	if (t.MarkGlyphSets != nil) != g.HasSets || len(t.MarkGlyphSets) != len(g.MarkGlyphSets) {
		k.Fail("mismatch", "c08:gdef:walk-presence", "MarkGlyphSets: %d sets (nil=%v) in the structure, %d (present=%v) in the bytes", len(t.MarkGlyphSets), t.MarkGlyphSets == nil, len(g.MarkGlyphSets), g.HasSets)
		return
	}
	for i, s := range t.MarkGlyphSets {
		want := c08glyphs16(s.Glyphs())
		if !reflect.DeepEqual(want, g.MarkGlyphSets[i].Glyphs) && len(want)+len(g.MarkGlyphSets[i].Glyphs) > 0 {
			k.Fail("mismatch", "c08:gdef:walk-content", "mark glyph set %d differs in the bytes", i)
		}
	}
}

// c08gdefJudge applies the oracles for a representable GDEF table: encode,
// read back equal, structural walk, walker's view equal to the structure.
func c08gdefJudge(k *mon.Case, t *gdef.Table) ([]byte, bool) {
	k.Step("gdef encode")
	var enc []byte
	if k.Guard("gdef.Table.Encode", func() { enc = t.Encode() }) {
		return nil, false
	}
	k.Input(enc)
	k.Eval()
	var back *gdef.Table
	var err error
	if k.Guard("gdef.Read", func() { back, err = gdef.Read(bytes.NewReader(enc)) }) {
		return enc, false
	}
	if err != nil {
		k.Fail("mismatch", "c08:gdef:read-error", "gdef.Read: %v", err)
	} else if d := c08diff(t, back); d != "" {
		k.Fail("mismatch", "c08:gdef:roundtrip", "gdef.Read(Encode(t)) != t at %s", d)
	}
	rep, g := otlwalk.WalkGDEF(enc)
	c08walkJudge(k, "gdef", rep)
	if rep.OK() {
		c08gdefAgainst(k, t, g)
	}
	return enc, true
}

// c08tagFor asks the library's reader which language.Tag it uses for an
// OpenType (script, language) tag pair, by decoding a minimal hand-written
// GSUB table that contains just this pair.
func c08tagFor(k *mon.Case, script, lang string) (language.Tag, bool) {
	b := []byte{0, 1, 0, 0, 0, 10, 0, 0, 0, 0} // header; offsets patched below
	sl := []byte{0, 1}
	sl = append(sl, script...)
	sl = append(sl, 0, 8)
	if lang == "" {
		sl = append(sl, 0, 4, 0, 0) // default LangSys at 4, no records
	} else {
		sl = append(sl, 0, 0, 0, 1)
		sl = append(sl, lang...)
		sl = append(sl, 0, 10)
	}
	sl = append(sl, 0, 0, 0xFF, 0xFF, 0, 0) // LangSys: no required feature, no features
	b = append(b, sl...)
	fl := len(b)
	b = append(b, 0, 0) // feature list
	ll := len(b)
	b = append(b, 0, 0) // lookup list
	b[6], b[7] = byte(fl>>8), byte(fl)
	b[8], b[9] = byte(ll>>8), byte(ll)
	var info *gtab.Info
	var err error
	pv, _ := mon.Try(func() { info, err = gtab.Read(bytes.NewReader(b), gtab.TypeGsub) })
	if pv != nil || err != nil || len(info.ScriptList) != 1 {
		return language.Tag{}, false
	}
	for tag := range info.ScriptList {
		return tag, true
	}
	return language.Tag{}, false
}
