package props

import (
	"fmt"
	"math/rand/v2"
	"time"

	"seehuhn.de/go/postscript/funit"
	"seehuhn.de/go/sfnt/cmap"
	"seehuhn.de/go/sfnt/glyf"
	"seehuhn.de/go/sfnt/glyph"
	"seehuhn.de/go/sfnt/head"
	"seehuhn.de/go/sfnt/hmtx"
	"seehuhn.de/go/sfnt/kern"
	"seehuhn.de/go/sfnt/maxp"
	"seehuhn.de/go/sfnt/name"
	"seehuhn.de/go/sfnt/os2"
	"seehuhn.de/go/sfnt/post"

	"verif/harness/internal/mon"
)

// An aliasEncoder draws a random value and returns the byte slices its
// encoder produced.
type aliasEncoder struct {
	name string
	run  func(r *rand.Rand) [][]byte
}

// encodeAliasing: results of Encode calls must stay intact when further
// Encode calls (same encoder, other values; other encoders) follow - a
// batch "encode everything, then use the results" is ordinary use.  Each case
// runs 4..8 encoder calls, keeps every result and compares all of them with
// the copies taken at the time of the call.
func encodeAliasing(c *mon.Ctx, prefix string, n int, encs []aliasEncoder) {
	c.Stratum(prefix+"-encode-aliasing", n, func(k *mon.Case) {
		r := k.Rng
		var ag aliasGuard
		calls := 4 + r.IntN(5)
		var seq []string
		for i := 0; i < calls; i++ {
			e := encs[r.IntN(len(encs))]
			if i == 1 {
				e = encs[k.Index%len(encs)] // every encoder is second at least once per len(encs) cases
			}
			var out [][]byte
			if k.Guard(e.name, func() { out = e.run(r) }) {
				return
			}
			for j, b := range out {
				ag.Keep(fmt.Sprintf("%s (call %d, result %d)", e.name, i+1, j), b)
			}
			seq = append(seq, e.name)
			k.Eval()
		}
		ag.Check(k, prefix+":encode-result-overwritten-by-later-call")
		k.Distinct(prefix, k.Index, fmt.Sprint(seq))
		k.Class(prefix + ":encode-aliasing-checked")
	})
}

func rndNames(r *rand.Rand, n int) []string {
	out := make([]string, n)
	for i := range out {
		out[i] = fmt.Sprintf("n%d_%d", i, r.IntN(1000))
	}
	if n > 0 {
		out[0] = ".notdef"
	}
	return out
}

var cmapAliasEncoders = []aliasEncoder{
	{"cmap.Format4.Encode", func(r *rand.Rand) [][]byte {
		m := cmap.Format4{}
		for i := 1 + r.IntN(40); i > 0; i-- {
			m[uint16(r.IntN(0x10000))] = glyph.ID(1 + r.IntN(500))
		}
		return [][]byte{m.Encode(0)}
	}},
	{"cmap.Format12.Encode", func(r *rand.Rand) [][]byte {
		m := cmap.Format12{}
		for i := 1 + r.IntN(40); i > 0; i-- {
			m[uint32(r.IntN(0x30000))] = glyph.ID(1 + r.IntN(500))
		}
		return [][]byte{m.Encode(0)}
	}},
	{"cmap.Table.Encode", func(r *rand.Rand) [][]byte {
		m := cmap.Format4{uint16(r.IntN(0x10000)): 1, 65: 2}
		t := cmap.Table{{PlatformID: 3, EncodingID: 1}: m.Encode(0), {PlatformID: 0, EncodingID: 3}: m.Encode(0)}
		return [][]byte{t.Encode()}
	}},
}

var tableAliasEncoders = []aliasEncoder{
	{"hmtx.Info.Encode", func(r *rand.Rand) [][]byte {
		n := 1 + r.IntN(30)
		info := &hmtx.Info{Widths: make([]funit.Int16, n), GlyphExtents: make([]funit.Rect16, n), Ascent: funit.Int16(r.IntN(1000))}
		for i := range info.Widths {
			info.Widths[i] = funit.Int16(r.IntN(1000))
			info.GlyphExtents[i] = funit.Rect16{LLx: funit.Int16(r.IntN(100)), URx: funit.Int16(100 + r.IntN(500)), URy: funit.Int16(r.IntN(700))}
		}
		a, b := info.Encode()
		return [][]byte{a, b}
	}},
	{"head.Info.Encode", func(r *rand.Rand) [][]byte {
		info := &head.Info{UnitsPerEm: uint16(16 + r.IntN(4000)), FontRevision: head.Version(r.Uint32N(1 << 20)), Created: time.Unix(int64(r.IntN(1<<30)), 0), IsBold: r.IntN(2) == 0}
		return [][]byte{info.Encode()}
	}},
	{"maxp.Info.Encode", func(r *rand.Rand) [][]byte {
		info := &maxp.Info{NumGlyphs: 1 + r.IntN(1000)}
		if r.IntN(2) == 0 {
			info.TTF = &maxp.TTFInfo{MaxPoints: uint16(r.IntN(1000)), MaxZones: 2}
		}
		return [][]byte{info.Encode()}
	}},
	{"os2.Info.Encode", func(r *rand.Rand) [][]byte {
		info := &os2.Info{WeightClass: os2.Weight(1 + r.IntN(1000)), WidthClass: os2.Width(1 + r.IntN(9)), Ascent: funit.Int16(r.IntN(1000)), CodePageRange: os2.CodePageRange(r.Uint64())}
		return [][]byte{info.Encode()}
	}},
	{"post.Info.Encode", func(r *rand.Rand) [][]byte {
		info := &post.Info{UnderlinePosition: -funit.Int16(r.IntN(300)), UnderlineThickness: funit.Int16(r.IntN(100))}
		if r.IntN(3) != 0 {
			info.Names = rndNames(r, 1+r.IntN(40))
		}
		return [][]byte{info.Encode()}
	}},
}

var nameAliasEncoders = []aliasEncoder{
	{"name.Info.Encode", func(r *rand.Rand) [][]byte {
		t := &name.Table{Family: fmt.Sprintf("Family %d", r.IntN(1000)), Subfamily: "Regular", Version: fmt.Sprintf("Version %d.%03d", r.IntN(9), r.IntN(1000)), Description: text20(r)}
		info := &name.Info{Mac: name.Tables{"en": t}, Windows: name.Tables{"en-US": t}}
		if r.IntN(2) == 0 {
			info.Mac = nil
		}
		return [][]byte{info.Encode(1)}
	}},
	tableAliasEncoders[4],
}

func text20(r *rand.Rand) string {
	b := make([]rune, 1+r.IntN(60))
	for i := range b {
		b[i] = rune('a' + r.IntN(26))
	}
	return string(b)
}

var glyfAliasEncoders = []aliasEncoder{
	{"glyf.Glyphs.Encode", func(r *rand.Rand) [][]byte {
		n := 1 + r.IntN(12)
		gs := make(glyf.Glyphs, n)
		for i := range gs {
			if r.IntN(4) == 0 {
				continue
			}
			body := make([]byte, 2*(1+r.IntN(20)))
			for j := range body {
				body[j] = byte(r.Uint32())
			}
			body[0], body[1] = 0, 0 // zero instructions for a zero-contour glyph
			gs[i] = &glyf.Glyph{Data: glyf.SimpleGlyph{NumContours: 0, Encoded: body[:2]}, Rect16: funit.Rect16{URx: funit.Int16(r.IntN(500))}}
		}
		enc := gs.Encode()
		return [][]byte{enc.GlyfData, enc.LocaData}
	}},
}

var kernAliasEncoders = []aliasEncoder{
	{"kern.Info.Encode", func(r *rand.Rand) [][]byte {
		info := kern.Info{}
		for i := 1 + r.IntN(30); i > 0; i-- {
			info[glyph.Pair{Left: glyph.ID(r.IntN(50)), Right: glyph.ID(r.IntN(50))}] = funit.Int16(r.IntN(400) - 200)
		}
		return [][]byte{info.Encode()}
	}},
	cmapAliasEncoders[0],
}
