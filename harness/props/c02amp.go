package props

// C02 amplifiers: hand-built hostile inputs (written from the OpenType / CFF
// specifications with the little writer "bw"), each at three sizes so that the
// growth of work and allocation with the input size is visible in the evidence
// (max_observed "amp:<name>:<size>:…").

type c02amp struct {
	name  string
	dec   string
	build func(size int, thorough bool) []byte // size = 0, 1, 2
}

// ---- CFF writer (Adobe TN5176) ---------------------------------------------

func cffIndex(items [][]byte) []byte {
	w := &bw{}
	w.u16(len(items))
	if len(items) == 0 {
		return w.b
	}
	total := 1
	for _, it := range items {
		total += len(it)
	}
	offSize := 1
	for total >= 1<<(8*offSize) {
		offSize++
	}
	w.u8(offSize)
	put := func(v int) {
		for j := offSize - 1; j >= 0; j-- {
			w.u8(v >> (8 * j))
		}
	}
	pos := 1
	put(pos)
	for _, it := range items {
		pos += len(it)
		put(pos)
	}
	for _, it := range items {
		w.raw(it...)
	}
	return w.b
}

// 5-byte DICT integer (fixed width, so that offsets can be patched)
func cffInt(v int) []byte { return []byte{29, byte(v >> 24), byte(v >> 16), byte(v >> 8), byte(v)} }

type cffSpec struct {
	nStrings    int      // number of (empty) custom strings
	gsubrs      [][]byte // global subrs
	charstrings [][]byte
	private     []byte   // Private DICT bytes (without Subrs op)
	subrs       [][]byte // local subrs
	privSize    int      // if != 0: declared Private DICT size
	cid         bool
	nFD         int
	charset     []byte // if nil: predefined (0) for simple fonts, format 2 single range for CID
	encoding    []byte // simple fonts: if nil, standard encoding
	fdselect    []byte
	predef      int // simple fonts: predefined charset id 1 (Expert) or 2 (ExpertSubset) instead of charset data
}

// c02cff lays out: header, Name, Top DICT, String, GSubr INDEXes, charset,
// encoding, FDSelect, CharStrings, [FDArray], Private, Subrs.  All offsets in
// DICTs use the 5-byte integer form, so sizes do not depend on their values.
func c02cff(s *cffSpec) []byte {
	if s.charstrings == nil {
		s.charstrings = [][]byte{{14}} // endchar
	}
	n := len(s.charstrings)
	strs := make([][]byte, s.nStrings)
	priv := append([]byte(nil), s.private...)
	if len(s.subrs) > 0 {
		priv = append(priv, cffInt(len(priv)+6)...) // Subrs INDEX directly behind the Private DICT
		priv = append(priv, 19)
	}
	privSize := len(priv)
	if s.privSize != 0 {
		privSize = s.privSize
	}
	charset := s.charset
	if charset == nil && s.cid {
		cw := &bw{}
		if n == 1 {
			cw.u8(0)
		} else {
			cw.u8(2).u16(1, n-2) // format 2: first CID 1, nLeft
		}
		charset = cw.b
	}
	fdsel := s.fdselect
	if fdsel == nil && s.cid {
		fdsel = (&bw{}).u8(3).u16(1, 0).u8(0).u16(n).b
	}
	nfd := s.nFD
	if nfd == 0 {
		nfd = 1
	}
	hasEnc := s.encoding != nil && !s.cid
	head := func(offCharset, offEnc, offFDSel, offCS, offFDA, offPriv int) []byte {
		w := &bw{}
		w.u8(1, 0, 4, 4)
		w.raw(cffIndex([][]byte{[]byte("A")})...)
		var td []byte
		if s.cid {
			td = append(td, 0x8C, 0x8D, 0x8B, 12, 30) // ROS: SID 1, SID 2, supplement 0
		}
		td = append(append(td, cffInt(offCS)...), 17)
		if charset != nil {
			td = append(append(td, cffInt(offCharset)...), 15)
		} else if s.predef != 0 {
			td = append(append(td, cffInt(s.predef)...), 15)
		}
		if s.cid {
			td = append(append(td, cffInt(offFDA)...), 12, 36)
			td = append(append(td, cffInt(offFDSel)...), 12, 37)
		} else {
			if hasEnc {
				td = append(append(td, cffInt(offEnc)...), 16)
			}
			td = append(append(append(td, cffInt(privSize)...), cffInt(offPriv)...), 18)
		}
		w.raw(cffIndex([][]byte{td})...)
		w.raw(cffIndex(strs)...)
		w.raw(cffIndex(s.gsubrs)...)
		return w.b
	}
	fdarray := func(offPriv int) []byte {
		var fds [][]byte
		for i := 0; i < nfd; i++ {
			fds = append(fds, append(append(cffInt(privSize), cffInt(offPriv)...), 18))
		}
		return cffIndex(fds)
	}
	pos := len(head(0, 0, 0, 0, 0, 0))
	offCharset, offEnc, offFDSel, offFDA := 0, 0, 0, 0
	if charset != nil {
		offCharset = pos
		pos += len(charset)
	}
	if hasEnc {
		offEnc = pos
		pos += len(s.encoding)
	}
	if s.cid {
		offFDSel = pos
		pos += len(fdsel)
	}
	offCS := pos
	cs := cffIndex(s.charstrings)
	pos += len(cs)
	if s.cid {
		offFDA = pos
		pos += len(fdarray(0))
	}
	offPriv := pos
	w := &bw{}
	w.raw(head(offCharset, offEnc, offFDSel, offCS, offFDA, offPriv)...)
	w.raw(charset...)
	if hasEnc {
		w.raw(s.encoding...)
	}
	if s.cid {
		w.raw(fdsel...)
	}
	w.raw(cs...)
	if s.cid {
		w.raw(fdarray(offPriv)...)
	}
	w.raw(priv...)
	if len(s.subrs) > 0 {
		w.raw(cffIndex(s.subrs)...)
	}
	return w.b
}

// ---- OpenType layout pieces ------------------------------------------------------

func otCoverageFull() []byte { return (&bw{}).u16(2, 1, 0, 0xFFFF, 0).b }

// classdef format 2 with "reset" ranges: a range whose end lies before its
// start moves the reader's overlap cursor back, so that the same 65 534
// glyphs can be assigned again and again.
func otClassdefReset(pairs int) []byte {
	w := &bw{}
	w.u16(2, 2*pairs)
	for i := 0; i < pairs; i++ {
		w.u16(1, 0xFFFE, 1+i%7) // glyphs 1..0xFFFE -> class
		w.u16(0xFFFF, 0, 0)     // start 0xFFFF, end 0: empty, resets the cursor to 0
	}
	return w.b
}

// lookup with k subtable offsets that all point at the same subtable
func otLookupFanout(lookupType, k int, subtable []byte) []byte {
	w := &bw{}
	w.u16(lookupType, 0, k)
	for i := 0; i < k; i++ {
		w.u16(6 + 2*k)
	}
	w.raw(subtable...)
	return w.b
}

// GSUB/GPOS table with the given lookup tables (raw bytes)
func otTable(lookups ...[]byte) []byte {
	w := &bw{}
	w.u16(1, 0, 10, 30, 44)
	w.u16(1).str("DFLT").u16(8).u16(4, 0).u16(0, 0xFFFF, 1, 0)
	for w.len() < 30 {
		w.u8(0)
	}
	w.u16(1).str("test").u16(8).u16(0, 1, 0)
	for w.len() < 44 {
		w.u8(0)
	}
	ll := w.len()
	w.u16(len(lookups))
	offs := w.len()
	for range lookups {
		w.u16(0)
	}
	for i, l := range lookups {
		w.put16(offs+2*i, w.len()-ll)
		w.raw(l...)
	}
	return w.b
}

func pick3(size int, a, b, c int) int { return [3]int{a, b, c}[size] }

var c02amps = []c02amp{
	{"cff-string-index-count", dCFF, func(size int, th bool) []byte {
		return c02cff(&cffSpec{nStrings: pick3(size, 1000, 8000, 65535)})
	}},
	{"cff-gsubr-index-count", dCFF, func(size int, th bool) []byte {
		return c02cff(&cffSpec{gsubrs: make([][]byte, pick3(size, 1000, 8000, 65535))})
	}},
	{"cff-private-dict-size", dCFF, func(size int, th bool) []byte {
		return c02cff(&cffSpec{privSize: pick3(size, 1<<27, 1<<29, 1<<31-1)})
	}},
	{"cff-cid-glyphs-charset-fdselect-ranges", dCFF, func(size int, th bool) []byte {
		n := pick3(size, 256, 4096, 50000)
		if th {
			n = pick3(size, 256, 4096, 65535)
		}
		cs := make([][]byte, n)
		for i := range cs {
			cs[i] = []byte{14}
		}
		// charset format 1 with 256-glyph ranges, FDSelect format 3 with one range per glyph
		cw := &bw{}
		cw.u8(1)
		for c := 1; c < n; c += 256 {
			left := 255
			if c+left >= n {
				left = n - 1 - c
			}
			cw.u16(c).u8(left)
		}
		fw := &bw{}
		fw.u8(3).u16(n)
		for g := 0; g < n; g++ {
			fw.u16(g).u8(g % 3)
		}
		fw.u16(n)
		return c02cff(&cffSpec{cid: true, nFD: 3, charstrings: cs, charset: cw.b, fdselect: fw.b})
	}},
	{"cff-predefined-charset-glyph-counts", dCFF, func(size int, th bool) []byte {
		// predefined charsets have fixed sizes (ISOAdobe 229, Expert 166,
		// ExpertSubset 87 glyphs): one glyph more than the charset names
		id := size // 0, 1, 2
		n := []int{229, 166, 87}[size] + 1
		cs := make([][]byte, n)
		for i := range cs {
			cs[i] = []byte{14}
		}
		return c02cff(&cffSpec{charstrings: cs, predef: id})
	}},
	{"cff-predefined-charset-expertsubset-100", dCFF, func(size int, th bool) []byte {
		n := pick3(size, 88, 100, 166)
		cs := make([][]byte, n)
		for i := range cs {
			cs[i] = []byte{14}
		}
		return c02cff(&cffSpec{charstrings: cs, predef: 2})
	}},
	{"cff-fdselect3-redundant-ranges", dCFF, func(size int, th bool) []byte {
		// legal but redundant: adjacent format-3 ranges that select the same
		// font dict (the library's own writer merges them)
		pattern := [][]int{{0, 0}, {1, 1, 1, 1}, {0, 1, 1, 2, 2, 0, 0}}[size]
		n := 4 * len(pattern)
		cs := make([][]byte, n)
		for i := range cs {
			cs[i] = []byte{14}
		}
		fw := &bw{}
		fw.u8(3).u16(len(pattern))
		for i, fd := range pattern {
			fw.u16(4 * i).u8(fd)
		}
		fw.u16(n)
		return c02cff(&cffSpec{cid: true, nFD: 3, charstrings: cs, fdselect: fw.b})
	}},
	{"cff-cid-256-font-dicts-shared-private", dCFF, func(size int, th bool) []byte {
		// every Font DICT points at the same Private DICT and the same Subrs INDEX
		// (linear: at most 256 x (24 bytes per subr + data); sizes stay below the frozen bound)
		subrs := make([][]byte, pick3(size, 100, 1000, 4000))
		for i := range subrs {
			subrs[i] = []byte{11}
		}
		return c02cff(&cffSpec{cid: true, nFD: 256, subrs: subrs})
	}},
	{"cff-encoding-ranges-supplements", dCFF, func(size int, th bool) []byte {
		n := pick3(size, 16, 100, 200)
		cs := make([][]byte, n)
		for i := range cs {
			cs[i] = []byte{14}
		}
		ew := &bw{}
		ew.u8(1 | 0x80).u8(n - 1)
		for c := 0; c < n-1; c++ {
			ew.u8(c).u8(0)
		}
		ew.u8(255 - (n - 1))
		for c := n - 1; c < 255; c++ {
			ew.u8(c).u16(1 + c%(n-1))
		}
		return c02cff(&cffSpec{charstrings: cs, encoding: ew.b})
	}},
	{"cff-subr-call-tree", dCFF, func(size int, th bool) []byte {
		// charstring calls subr 0 k times; subr j calls subr j+1 k times; the
		// last subr draws one point: k^depth points from ~3*k*depth bytes
		k, depth := 16, pick3(size, 3, 4, 5)
		call := func(idx int) []byte { return []byte{byte(idx + 32), 10} } // operand idx-107, callsubr
		var top []byte
		for i := 0; i < k; i++ {
			top = append(top, call(0)...)
		}
		top = append(top, 14)
		var subrs [][]byte
		for j := 0; j < depth-1; j++ {
			var s []byte
			for i := 0; i < k; i++ {
				s = append(s, call(j+1)...)
			}
			subrs = append(subrs, append(s, 11))
		}
		subrs = append(subrs, []byte{140, 140, 21, 11}) // 1 1 rmoveto return
		return c02cff(&cffSpec{charstrings: [][]byte{top}, subrs: subrs})
	}},
	{"cff-subr-recursion", dCFF, func(size int, th bool) []byte {
		// size 0: local subr 0 calls itself; 1: subrs 0 and 1 call each other; 2: global subr 0 calls itself
		call := func(idx int) []byte { return []byte{byte(idx + 32), 10} }
		top := append(call(0), 14)
		switch size {
		case 0:
			return c02cff(&cffSpec{charstrings: [][]byte{top}, subrs: [][]byte{append(call(0), 11)}})
		case 1:
			return c02cff(&cffSpec{charstrings: [][]byte{top}, subrs: [][]byte{append(call(1), 11), append(call(0), 11)}})
		}
		g := []byte{byte(0 + 32), 29, byte(0 + 32), 29, 11} // callgsubr twice
		return c02cff(&cffSpec{charstrings: [][]byte{{byte(0 + 32), 29, 14}}, gsubrs: [][]byte{g}})
	}},
	{"cff-dict-operand-flood", dCFF, func(size int, th bool) []byte {
		// Private DICT consisting of operands only (one byte each), then an operator
		n := pick3(size, 1000, 20000, 200000)
		p := make([]byte, n)
		for i := range p {
			p[i] = 139
		}
		p = append(p, 6) // BlueValues
		return c02cff(&cffSpec{private: p})
	}},
	{"cmap12-one-code-groups", dCmap, func(size int, th bool) []byte {
		n := pick3(size, 1024, 4096, 16384)
		if th {
			n = pick3(size, 4096, 16384, 65536)
		}
		w := &bw{}
		w.u16(12, 0).u32(16+12*n, 0, n)
		for i := 0; i < n; i++ {
			w.u32(0x10000+2*i, 0x10000+2*i, i%60000)
		}
		return c02cmapWrap(3, 10, w.b)
	}},
	{"cmap12-one-huge-group", dCmap, func(size int, th bool) []byte {
		n := pick3(size, 256, 4096, 65536)
		w := &bw{}
		w.u16(12, 0).u32(28, 0, 1).u32(0x20000, 0x20000+n-1, 0)
		return c02cmapWrap(3, 10, w.b)
	}},
	{"cmap12-group-beyond-cap", dCmap, func(size int, th bool) []byte {
		n := pick3(size, 65537, 1<<20, 0x10FFFF)
		w := &bw{}
		w.u16(12, 0).u32(28, 0, 1).u32(0, n-1, 0)
		return c02cmapWrap(3, 10, w.b)
	}},
	{"cmap12-many-maximal-groups", dCmap, func(size int, th bool) []byte {
		// g groups of 0x10FFFF codes each (the largest a group may be), far beyond the 65536-code cap
		g := pick3(size, 1, 4, 12)
		w := &bw{}
		w.u16(12, 0).u32(16+12*g, 0, g)
		for i := 0; i < g; i++ {
			w.u32(i*0x110000, i*0x110000+0x10FFFE, 1)
		}
		return c02cmapWrap(3, 10, w.b)
	}},
	{"cmap-k-records-one-full-format4", dCmap, func(size int, th bool) []byte {
		// k encoding records share one format 4 subtable that maps all 65535 codes
		k := pick3(size, 8, 128, 2048)
		sub := (&bw{}).u16(4, 32, 0, 4, 4, 1, 0, 0xFFFE, 0xFFFF, 0, 0, 0xFFFF, 1, 1, 0, 0).b
		w := &bw{}
		w.u16(0, k)
		for i := 0; i < k; i++ {
			w.u16(i%5, i/5).u32(4 + 8*k)
		}
		w.raw(sub...)
		return w.b
	}},
	{"coverage-full-range", dCoverage, func(size int, th bool) []byte {
		e := pick3(size, 0xFF, 0xFFF, 0xFFFF)
		return (&bw{}).u16(2, 1, 0, e, 0).b
	}},
	{"classdef-full-range-format1", dClassdef, func(size int, th bool) []byte {
		n := pick3(size, 256, 4096, 65535)
		w := &bw{}
		w.u16(1, 0, n)
		for i := 0; i < n; i++ {
			w.u16(1 + i%5)
		}
		return w.b
	}},
	{"classdef-reset-ranges", dClassdef, func(size int, th bool) []byte {
		if th {
			return otClassdefReset(pick3(size, 100, 400, 1600))
		}
		return otClassdefReset(pick3(size, 25, 50, 100))
	}},
	{"gsub1-full-coverage-x-k-subtables", dGsub, func(size int, th bool) []byte {
		k := pick3(size, 8, 24, 72)
		sub := (&bw{}).u16(1, 6, 1).raw(otCoverageFull()...).b // single subst format 1: coverage at 6, delta 1
		return otTable(otLookupFanout(1, k, sub))
	}},
	{"gsub6-chained-context3-full-coverages-x-k", dGsub, func(size int, th bool) []byte {
		k := pick3(size, 2, 5, 14)
		// format 3: 2 backtrack, 2 input, 2 lookahead coverages, all the same full-range table
		sub := (&bw{}).u16(3, 2, 22, 22, 2, 22, 22, 2, 22, 22, 0).raw(otCoverageFull()...).b
		return otTable(otLookupFanout(6, k, sub))
	}},
	{"gpos2.2-full-classdefs-x-k-subtables", dGpos, func(size int, th bool) []byte {
		k := pick3(size, 4, 9, 30)
		cd := (&bw{}).u16(2, 1, 0, 0xFFFF, 1).b // every glyph in class 1
		sub := &bw{}
		sub.u16(2, 16, 0, 0, 26, 26, 2, 2) // coverage at 16, no value records, classdefs at 26, 2x2 classes
		sub.raw(otCoverageFull()...)
		sub.raw(cd...)
		return otTable(otLookupFanout(2, k, sub.b))
	}},
	{"gsub5-classdef-reset-x-k-subtables", dGsub, func(size int, th bool) []byte {
		// context format 2 whose class definition is a (small) reset chain
		k := pick3(size, 2, 4, 8)
		sub := &bw{}
		sub.u16(2, 10, 20, 0, 0) // coverage at 10, classdef at 20, 0 rule sets
		sub.raw(otCoverageFull()...)
		sub.raw(otClassdefReset(12)...)
		return otTable(otLookupFanout(5, k, sub.b))
	}},
	{"gsub5-classdef-reset-5000-pairs-x-k-subtables", dGsub, func(size int, th bool) []byte {
		// the same, at the size where a reader that accepts reset ranges does
		// not return: 5000 pairs cost 13 s per reference (measured), k
		// references k times that; the work is quadratic in the input length
		k := pick3(size, 1, 6, 40)
		sub := &bw{}
		sub.u16(2, 10, 20, 0, 0)
		sub.raw(otCoverageFull()...)
		sub.raw(otClassdefReset(5000)...)
		return otTable(otLookupFanout(5, k, sub.b))
	}},
	{"gsub4-componentCount-0", dGsub, func(size int, th bool) []byte {
		m := pick3(size, 100, 400, 1600)
		w := &bw{}
		// ligature subst: coverage, 1 ligature set with m ligature offsets that all
		// point at one ligature record with componentCount = 0 (read as 65535 components)
		w.u16(1, 8, 1, 14) // format, coverageOffset, ligSetCount, ligSetOffset
		w.u16(1, 1, 5)     // coverage format 1, 1 glyph
		w.u16(m)           // at 14: ligature set: count, offsets from 14
		for i := 0; i < m; i++ {
			w.u16(2 + 2*m)
		}
		w.u16(77, 0) // ligatureGlyph, componentCount = 0
		w.b = append(w.b, make([]byte, 2*65535)...)
		return otTable(otLookupFanout(4, 1, w.b))
	}},
	{"gsub5-shared-seqrule-65535-glyphs", dGsub, func(size int, th bool) []byte {
		m := pick3(size, 100, 400, 1600)
		w := &bw{}
		// context format 1: 1 rule set with m rule offsets to one rule with glyphCount = 65535
		w.u16(1, 8, 1, 14)
		w.u16(1, 1, 5)
		w.u16(m)
		for i := 0; i < m; i++ {
			w.u16(2 + 2*m)
		}
		w.u16(0xFFFF, 0) // glyphCount = 65535, seqLookupCount = 0
		w.b = append(w.b, make([]byte, 2*65535)...)
		return otTable(otLookupFanout(5, 1, w.b))
	}},
	{"gsub-nested-contextual-lookups", dGsub, func(size int, th bool) []byte {
		n := pick3(size, 10, 100, 1000)
		var lookups [][]byte
		for i := 0; i < n; i++ {
			// context format 3: 1 glyph, 2 actions: lookup i (itself) and lookup i+1
			sub := (&bw{}).u16(3, 1, 2, 14, 0, i, 0, (i+1)%n).u16(1, 1, 5).b
			lookups = append(lookups, otLookupFanout(5, 1, sub))
		}
		return otTable(lookups...)
	}},
	{"gsub-lookup-budget-6000-shared", dGsub, func(size int, th bool) []byte {
		// many lookup-list entries pointing at one small lookup table
		n := pick3(size, 100, 1000, 2999)
		sub := (&bw{}).u16(1, 6, 1, 1, 1, 5).b
		l := otLookupFanout(1, 1, sub)
		w := &bw{}
		w.u16(1, 0, 10, 30, 44)
		w.u16(1).str("DFLT").u16(8).u16(4, 0).u16(0, 0xFFFF, 1, 0)
		for w.len() < 30 {
			w.u8(0)
		}
		w.u16(1).str("test").u16(8).u16(0, 1, 0)
		for w.len() < 44 {
			w.u8(0)
		}
		w.u16(n)
		for i := 0; i < n; i++ {
			w.u16(2 + 2*n)
		}
		w.raw(l...)
		return w.b
	}},
	{"gpos4-max-base-array-x-k", dGpos, func(size int, th bool) []byte {
		k := pick3(size, 4, 16, 64)
		w := &bw{}
		// mark-to-base: 1 mark, baseCount*classCount = 32764 offsets, all NULL
		w.u16(1, 12, 18, 4, 28, 36) // format, markCov, baseCov, classCount, markArray, baseArray
		w.u16(1, 1, 8)              // at 12: mark coverage {8}
		w.u16(2, 1, 0, 8190, 0)     // at 18: base coverage 0..8190 (8191 glyphs)
		w.u16(1, 0, 6, 1, 0, 0)     // at 28: mark array: 1 record class 0 anchor at +6; anchor format 1
		for w.len() < 36 {
			w.u8(0)
		}
		w.u16(8191)
		w.b = append(w.b, make([]byte, 2*8191*4)...)
		return otTable(otLookupFanout(4, k, w.b))
	}},
	{"gdef-k-markglyphsets-full-coverage", dGdef, func(size int, th bool) []byte {
		k := pick3(size, 8, 24, 72)
		w := &bw{}
		w.u16(1, 2, 0, 0, 0, 0, 14)
		w.u16(1, k)
		for i := 0; i < k; i++ {
			w.u32(4 + 4*k)
		}
		w.raw(otCoverageFull()...)
		return w.b
	}},
	{"gdef-k-markglyphsets-overlapping-ranges", dGdef, func(size int, th bool) []byte {
		// k mark glyph sets share one format 2 coverage table whose m range
		// records all span 0..0xFFFF (coverage indices 0, 65536 mod 2^16, ...):
		// a reader which accepts overlapping ranges fills the same 65536
		// entries m times per set
		k := pick3(size, 2, 4, 16)
		m := pick3(size, 100, 2000, 42000)
		w := &bw{}
		w.u16(1, 2, 0, 0, 0, 0, 14)
		w.u16(1, k)
		for i := 0; i < k; i++ {
			w.u32(4 + 4*k)
		}
		w.u16(2, m)
		for i := 0; i < m; i++ {
			w.u16(0, 0xFFFF, 0)
		}
		return w.b
	}},
	{"coverage-set-overlapping-ranges", dCovSet, func(size int, th bool) []byte {
		m := pick3(size, 100, 2000, 42000)
		w := &bw{}
		w.u16(2, m)
		for i := 0; i < m; i++ {
			w.u16(0, 0xFFFF, 0)
		}
		return w.b
	}},
	{"gdef-classdef-reset-ranges", dGdef, func(size int, th bool) []byte {
		w := &bw{}
		w.u16(1, 0, 12, 0, 0, 12)
		w.raw(otClassdefReset(pick3(size, 10, 20, 40))...)
		return w.b
	}},
	{"kern-overlapping-subtables", dKern, func(size int, th bool) []byte {
		// nt subtable headers 14 bytes apart, each claiming as many pairs as fit
		// into the rest of the file: the same bytes are read nt times
		l := pick3(size, 32<<10, 64<<10, 128<<10)
		nt := l / 14
		total := 4 + 14*nt + l
		w := &bw{}
		w.u16(0, nt)
		for i := 0; i < nt; i++ {
			pos := 4 + 14*i
			np := (total - pos - 14) / 6
			if np > 65535 {
				np = 65535
			}
			w.u16(0, 14).u8(0, 1).u16(np, 0, 0, 0)
		}
		w.b = append(w.b, make([]byte, l)...)
		return w.b
	}},
	{"kern-overlapping-subtables-10921-pairs", dKern, func(size int, th bool) []byte {
		// as above, but every subtable claims 10921 pairs: 14 + 6*10921 = 65540
		// does not fit the 16-bit length field (it wraps to 4)
		nt := pick3(size, 2000, 4000, 8000)
		w := &bw{}
		w.u16(0, nt)
		for i := 0; i < nt; i++ {
			w.u16(0, 14).u8(0, 1).u16(10921, 0, 0, 0)
		}
		w.b = append(w.b, make([]byte, 6*10921)...)
		return w.b
	}},
	{"kern-many-skipped-subtables", dKern, func(size int, th bool) []byte {
		nt := pick3(size, 500, 4000, 16000)
		w := &bw{}
		w.u16(0, nt)
		for i := 0; i < nt; i++ {
			w.u16(0, 14).u8(2, 1).u16(0, 0, 0, 0) // format 2: skipped
		}
		return w.b
	}},
	{"post2-maximal-name-indices", dPost, func(size int, th bool) []byte {
		n := pick3(size, 1000, 10000, 65535)
		w := &bw{}
		w.u32(0x00020000, 0).u16(0, 0).u32(0, 0, 0, 0, 0)
		w.u16(n)
		for i := 0; i < n; i++ {
			w.u16(0xFFFF)
		}
		w.b = append(w.b, make([]byte, 65535-258+1)...) // 65278 empty Pascal strings
		return w.b
	}},
	{"post2-long-names", dPost, func(size int, th bool) []byte {
		n := pick3(size, 100, 400, 900)
		w := &bw{}
		w.u32(0x00020000, 0).u16(0, 0).u32(0, 0, 0, 0, 0)
		w.u16(n)
		for i := 0; i < n; i++ {
			w.u16(258 + i)
		}
		for i := 0; i < n; i++ {
			w.u8(255)
			w.b = append(w.b, make([]byte, 255)...)
		}
		return w.b
	}},
	{"name-records-sharing-one-long-string", dName, func(size int, th bool) []byte {
		n := pick3(size, 25, 100, 400)
		w := &bw{}
		w.u16(0, n, 6+12*n)
		for i := 0; i < n; i++ {
			w.u16(3, 1, 0x0409, i%26, 65534, 0)
		}
		s := make([]byte, 65534)
		for i := range s {
			s[i] = byte('A' + i%26)
			if i%2 == 0 {
				s[i] = 0
			}
		}
		w.raw(s...)
		return w.b
	}},
	{"glyf-loca-empty-glyphs", dGlyf, func(size int, th bool) []byte {
		n := pick3(size, 1000, 8000, 65535)
		return c02packGlyf([]byte{0, 0, 0, 0}, make([]byte, 2*(n+1)), 0)
	}},
	{"glyf-simple-glyph-65536-points", dGlyf, func(size int, th bool) []byte {
		// one contour ending at point 65535, flags written with the repeat
		// form (2 bytes per 256 points), all coordinates "same as previous"
		g := pick3(size, 1, 16, 128) // number of such glyphs
		one := &bw{}
		one.u16(1, 0, 0, 0, 0, 0xFFFF, 0)
		for i := 0; i < 256; i++ {
			one.u8(0x01|0x08|0x10|0x20, 255)
		}
		one.pad4()
		w := &bw{}
		loca := &bw{}
		for i := 0; i < g; i++ {
			loca.u32(w.len())
			w.raw(one.b...)
		}
		loca.u32(w.len())
		return c02packGlyf(w.b, loca.b, 1)
	}},
	{"glyf-composite-many-components", dGlyf, func(size int, th bool) []byte {
		n := pick3(size, 100, 2000, 16000)
		w := &bw{}
		w.u16(0xFFFF, 0, 0, 0, 0)
		for i := 0; i < n; i++ {
			fl := 0x0020
			if i == n-1 {
				fl = 0
			}
			w.u16(fl, 0).u8(0, 0)
		}
		w.pad4()
		loca := (&bw{}).u32(0, w.len()).b
		return c02packGlyf(w.b, loca, 1)
	}},
	{"hmtx-long-metrics", dHmtx, func(size int, th bool) []byte {
		n := pick3(size, 1000, 8000, 60000)
		if th {
			n = pick3(size, 1000, 8000, 65535)
		}
		hh := (&bw{}).u32(0x00010000).u16(800, 0xFF38, 0, 1000, 0, 0, 1000, 1, 0, 0, 0, 0, 0, 0, 0, n).b
		return c02packHmtx(hh, make([]byte, 4*n))
	}},
	{"header-280-tables", dHeader, func(size int, th bool) []byte {
		n := pick3(size, 28, 280, 281)
		w := &bw{}
		w.u32(0x00010000).u16(n, 0, 0, 0)
		for i := 0; i < n; i++ {
			w.str("T").u8('0'+i/100, '0'+i/10%10, '0'+i%10).u32(0, 12+16*n+4*i, 4)
		}
		w.b = append(w.b, make([]byte, 4*n)...)
		return w.b
	}},
	{"sfnt-table-record-wraps-2^32", dSfnt, func(size int, th bool) []byte {
		// offset+length of one table record wraps around 2^32, so that the
		// record passes range checks done in 32-bit arithmetic while its
		// length field promises gigabytes
		hd := (&bw{}).u32(0x00010000, 0x00010000, 0, 0x5F0F3CF5).u16(0, 1000).u32(0, 0, 0, 0).u16(0, 0, 0, 0, 0, 8, 2, 0, 0).b
		mx := (&bw{}).u32(0x00010000).u16(2, 0, 0, 0, 0, 1, 0, 0, 0, 0, 0, 0, 0, 0).b
		hh := (&bw{}).u32(0x00010000).u16(800, 0xFF38, 0, 1000, 0, 0, 1000, 1, 0, 0, 0, 0, 0, 0, 0, 1).b
		hm := (&bw{}).u16(500, 0, 0).b
		b := c02sfnt(0x00010000, map[string][]byte{"head": hd, "maxp": mx, "hhea": hh, "hmtx": hm,
			"loca": make([]byte, 6), "glyf": {0, 0, 0, 0}, "cmap": {0, 0, 0, 0}, "name": {0, 0, 0, 0, 0, 6}})
		victim := []string{"hhea", "cmap", "name"}[size]
		n := int(b[4])<<8 | int(b[5])
		for i := 0; i < n; i++ {
			rec := b[12+16*i:]
			if string(rec[:4]) != victim {
				continue
			}
			off := uint32(rec[8])<<24 | uint32(rec[9])<<16 | uint32(rec[10])<<8 | uint32(rec[11])
			var length uint32
			switch size {
			case 0:
				length = 0xFFFFFFFF // end = offset-1
			case 1:
				length = 0 - off + 0x14 // end = 0x14 after the wrap
			default:
				length = 0x10000000 // 256 MiB, and move the table so that the sum wraps
				off = 0xF0000000 + off
				rec[8], rec[9], rec[10], rec[11] = byte(off>>24), byte(off>>16), byte(off>>8), byte(off)
			}
			rec[12], rec[13], rec[14], rec[15] = byte(length>>24), byte(length>>16), byte(length>>8), byte(length)
		}
		return b
	}},
	{"sfnt-empty-glyphs", dSfnt, func(size int, th bool) []byte {
		n := pick3(size, 1000, 8000, 60000)
		if th {
			n = pick3(size, 1000, 8000, 65535)
		}
		hd := (&bw{}).u32(0x00010000, 0x00010000, 0, 0x5F0F3CF5).u16(0, 1000).u32(0, 0, 0, 0).u16(0, 0, 0, 0, 0, 8, 2, 0, 0).b
		mx := (&bw{}).u32(0x00010000).u16(n, 0, 0, 0, 0, 1, 0, 0, 0, 0, 0, 0, 0, 0).b
		hh := (&bw{}).u32(0x00010000).u16(800, 0xFF38, 0, 1000, 0, 0, 1000, 1, 0, 0, 0, 0, 0, 0, 0, 1).b
		hm := append((&bw{}).u16(500, 0).b, make([]byte, 2*(n-1))...)
		return c02sfnt(0x00010000, map[string][]byte{"head": hd, "maxp": mx, "hhea": hh, "hmtx": hm,
			"loca": make([]byte, 2*(n+1)), "glyf": {0, 0, 0, 0}})
	}},
}
