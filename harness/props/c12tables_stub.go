package props

import "verif/harness/internal/mon"

// c12tables: table-level strata of C12 (placeholder until the table monitors are merged).
func c12tables(c *mon.Ctx) {}
