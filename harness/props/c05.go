package props

import (
	"bytes"
	"fmt"
	"math"
	"math/rand/v2"
	"strings"
	"sync"

	"golang.org/x/image/font/sfnt"

	"seehuhn.de/go/sfnt/cff"

	"verif/harness/internal/mon"
	"verif/harness/internal/ref/cffmini"
	"verif/harness/internal/ref/t2interp"
)

// C05: Type 2 charstring interpretation conforms to the specification.

func init() {
	mon.RegisterCfg("C05", mon.Config{
		Rule: "grammar-generated well-formed Type 2 programs (symbolic operand stack; optional width; hstem/vstem/hstemhm/vstemhm with 0..96 stems, hintmask/cntrmask with implicit vstem; every path operator in every operand-count shape; flex, hflex, hflex1, flex1 in both orientations; operands produced by arithmetic fragments abs add sub div neg mul sqrt drop exch index roll dup put get and or not eq ifelse random; all five number encodings; token ranges outlined into local/global subroutines, nesting 1..10, table sizes 0,1,107,1239,1240,1241,33899,33900,40000) are wrapped by the independent CFF writer cffmini into simple and CID-keyed fonts (several FDs, default/nominal widths as integers and reals) and read with cff.Read; judges: the generator's own intent, the independent interpreter t2interp (exact 16.16) and, on its subset, golang.org/x/image. Single-fault mutants (stack underflow before an arithmetic/call operator, 49th operand, endchar removed, subroutine index just outside the table, path operator before the first moveto) must be rejected by cff.Read; nesting depth 11, truncated number, short mask and operand underflow of path/stem operators are recorded only. distinct = distinct charstrings (hash)",
		Assumptions: []string{
			"all coordinates stay within +-31000 and single deltas within +-32000 (the decoder documents a clamp)",
			"div, mul and sqrt are generated with results that are exactly representable in 16.16 (TN5177 does not define the rounding); no division by zero, no sqrt of negatives, roll with N >= 1, get only after put, random only followed by drop",
			"every stem operator starts again at 0 (TN5177: 'in the first pair, y is relative to 0')",
			"hstemhm/vstemhm are used iff the program contains hintmask/cntrmask",
			"a program is well formed if generator intent and t2interp (strict, no violation) agree; disagreement between those two is reported as a harness fault",
			"the deprecated forms of TN5177 appendix C are part of the specification the property names: dotsection (a no-op, generated inside the path section with an empty stack) and endchar with four extra operands 'adx ady bchar achar' (seac form, with or without a leading width). For the seac form the glyph's own path, stems and width (the width detection with 4 / 5 operands) are judged; the composition of the base and accent glyphs is not among the operators the property lists and is not judged. x/image (which composes) is not consulted for these glyphs",
		},
	}, runC05)
}

var c05sizes = []int{0, 1, 107, 1239, 1240, 1241, 33899, 33900, 40000}

func c05size(r *rand.Rand, allowBig bool) int {
	switch q := r.IntN(20); {
	case q < 6:
		return []int{1, 107}[r.IntN(2)]
	case q < 9:
		return 5 + r.IntN(300)
	case q < 15:
		return []int{1239, 1240, 1241}[r.IntN(3)]
	case q < 16:
		return 0
	default:
		if allowBig {
			return []int{33899, 33900, 40000}[r.IntN(3)]
		}
		return []int{107, 1240}[r.IntN(2)]
	}
}

type c05width struct {
	num cffmini.Num
	val float64
}

func c05privWidth(r *rand.Rand) *c05width {
	switch r.IntN(6) {
	case 0:
		return nil
	case 1:
		v := r.IntN(2000) - 200
		return &c05width{cffmini.IntNum(v), float64(v)}
	case 2:
		v := []int{107, 108, 1131, 1132, 32767, -32768, 40000, 0}[r.IntN(8)]
		return &c05width{cffmini.IntNum(v), float64(v)}
	case 3:
		t := []struct {
			s string
			v float64
		}{{"500.5", 500.5}, {"620.25", 620.25}, {"1E3", 1000}, {".25", 0.25}, {"-12.75", -12.75}, {"2.5E2", 250}, {"1234.125", 1234.125}, {"5E-1", 0.5}}[r.IntN(8)]
		return &c05width{cffmini.RealNum(t.s), t.v}
	default:
		v := r.IntN(1200)
		return &c05width{cffmini.IntNum(v), float64(v)}
	}
}

// c05font is a font under construction.
type c05font struct {
	cid      bool
	nFD      int
	tables   *c05tables
	def, nom []*c05width
	fdsel    []int
	progs    []*c05gen
	codes    [][]byte
	w        cffmini.WFont
}

func c05newFont(r *rand.Rand, nGlyphs int, big bool) *c05font {
	f := &c05font{nFD: 1}
	if r.IntN(3) == 0 {
		f.cid = true
		f.nFD = 1 + r.IntN(4)
	}
	nLocal := make([]int, f.nFD)
	anyBig := false
	for i := range nLocal {
		nLocal[i] = c05size(r, big && !anyBig)
		anyBig = anyBig || nLocal[i] > 30000
	}
	f.tables = c05newTables(r, c05size(r, big && (!anyBig || r.IntN(2) == 0)), nLocal)
	for i := 0; i < f.nFD; i++ {
		f.def = append(f.def, c05privWidth(r))
		f.nom = append(f.nom, c05privWidth(r))
	}
	f.fdsel = make([]int, nGlyphs)
	if f.cid {
		fd := r.IntN(f.nFD)
		for i := range f.fdsel {
			if r.IntN(3) == 0 {
				fd = r.IntN(f.nFD)
			}
			f.fdsel[i] = fd
		}
	}
	return f
}

func (f *c05font) env(gid int) *t2interp.Env {
	fd := f.fdsel[gid]
	e := &t2interp.Env{GSubrs: f.tables.global, Subrs: f.tables.local[fd]}
	if f.def[fd] != nil {
		e.DefaultWidthX = f.def[fd].val
	}
	if f.nom[fd] != nil {
		e.NominalWidthX = f.nom[fd].val
	}
	return e
}

func (f *c05font) bytes(r *rand.Rand) []byte {
	w := &f.w
	w.FontName = "VerifC05"
	w.CharStrings = f.codes
	w.GSubrs = f.tables.global
	w.CID = f.cid
	w.FDSelect = f.fdsel
	w.FDSelectFormat = []int{0, 3}[r.IntN(2)]
	w.CharsetFormat = r.IntN(3)
	if r.IntN(8) == 0 {
		w.IndexOffSize = 1 + r.IntN(4)
	}
	w.FDs = make([]cffmini.WFD, f.nFD)
	for i := range w.FDs {
		fd := &w.FDs[i]
		fd.Subrs = f.tables.local[i]
		if len(fd.Subrs) == 0 && r.IntN(2) == 0 {
			fd.NoSubrsOp = true
		}
		if f.def[i] != nil {
			fd.DefaultWidthX = &f.def[i].num
		}
		if f.nom[i] != nil {
			fd.NominalWidthX = &f.nom[i].num
		}
		if r.IntN(6) == 0 {
			fd.SubrsGap = 1 + r.IntN(9)
		}
		fd.SubrsFirst = r.IntN(2) == 0
		if r.IntN(4) == 0 {
			var d cffmini.DictBuilder
			d.Put(cffmini.OpBlueValues, cffmini.IntNum(-15), cffmini.IntNum(15), cffmini.IntNum(700), cffmini.IntNum(12))
			d.Put(cffmini.OpStdHW, cffmini.IntNum(50+r.IntN(80)))
			fd.PrivateExtra = d.B
		}
	}
	return w.Bytes()
}

func c05randOpts(r *rand.Rand) c05opts {
	o := c05opts{arith: r.IntN(2) == 0, frac: r.IntN(2) == 0, maxPathOps: 1 + r.IntN(10), width: r.IntN(2) == 0}
	if r.IntN(10) == 0 {
		o.maxPathOps = 0
	}
	switch r.IntN(8) {
	case 0, 1, 2, 3:
	case 4:
		o.nh, o.nv = r.IntN(4), r.IntN(4)
	case 5:
		o.nh, o.nv = r.IntN(13), r.IntN(13)
	case 6:
		tot := 1 + r.IntN(96)
		o.nh = r.IntN(tot + 1)
		o.nv = tot - o.nh
	default:
		tot := []int{8, 9, 16, 17, 24, 25, 48, 95, 96}[r.IntN(9)]
		o.nh = r.IntN(tot + 1)
		o.nv = tot - o.nh
	}
	o.masks = o.nh+o.nv > 0 && r.IntN(2) == 0
	return o
}

// c05checkWellFormed applies the oracles to a font of well-formed programs.
func c05checkWellFormed(k *mon.Case, f *c05font, data []byte, tag string) {
	n := len(f.codes)
	results := make([]*t2interp.Result, n)
	eligible := make([]bool, n)
	anyEligible := false
	for gid := 0; gid < n; gid++ {
		p := f.progs[gid]
		res := t2interp.Run(f.codes[gid], f.env(gid))
		results[gid] = res
		k.DistinctBytes(f.codes[gid])
		where := func() string {
			return fmt.Sprintf("glyph %d (FD %d, %d global / %d local subrs)\n charstring % x\n flat program % x", gid, f.fdsel[gid], len(f.tables.global), len(f.tables.local[f.fdsel[gid]]), f.codes[gid][:min(300, len(f.codes[gid]))], c05bytes(p.toks)[:min(300, len(c05bytes(p.toks)))])
		}
		// harness self-check: the generated program must be legal and mean what the generator intended
		// the deprecated forms of appendix C are reported by the strict interpreter; they are intended here
		nViol := len(res.Violations)
		if p.usedDeprecated {
			nViol = 0
			for _, v := range res.Violations {
				if v.Class != t2interp.VDeprecatedOp {
					nViol++
				}
			}
		}
		if nViol > 0 || res.Fatal || !res.Ended {
			k.Fail("mismatch", "harness:generated-program-not-well-formed", "t2interp (strict) objects to a generated program: %v\n%s", res.Violations, where())
			return
		}
		if res.RangeExceeded {
			k.Fail("mismatch", "harness:range-exceeded", "an intermediate value left the 16.16 range\n%s", where())
			return
		}
		if res.Inexact {
			k.Fail("mismatch", "harness:inexact-arithmetic", "the generator produced an arithmetic result that is not exact in 16.16\n%s", where())
			return
		}
		bad := ""
		if len(res.Ops) != len(p.ops) {
			bad = fmt.Sprintf("%d commands vs %d intended", len(res.Ops), len(p.ops))
		} else {
			for i := range res.Ops {
				a, b := res.Ops[i], p.ops[i]
				if a.Kind != b.Kind || a.X != b.X || a.Y != b.Y || !bytes.Equal(a.Mask, b.Mask) {
					bad = fmt.Sprintf("command %d: %v vs intended %v", i, a, b)
					break
				}
			}
		}
		if bad == "" && (fmt.Sprint(res.HStem) != fmt.Sprint(p.hstem) || fmt.Sprint(res.VStem) != fmt.Sprint(p.vstem)) {
			bad = fmt.Sprintf("stems %v %v vs intended %v %v", res.HStem, res.VStem, p.hstem, p.vstem)
		}
		if bad == "" && (res.HasWidth != p.hasWidth || (p.hasWidth && res.WidthArg != p.widthArg)) {
			bad = fmt.Sprintf("width operand %v %v vs intended %v %v", res.HasWidth, res.WidthArg, p.hasWidth, p.widthArg)
		}
		if bad == "" && ((res.Seac == nil) != (p.seac == nil) || (p.seac != nil && *res.Seac != *p.seac)) {
			bad = fmt.Sprintf("seac operands %v vs intended %v", res.Seac, p.seac)
		}
		if bad != "" {
			k.Fail("mismatch", "harness:intent-vs-interp", "generator intent and t2interp disagree: %s\n%s", bad, where())
			return
		}
		eligible[gid] = !p.usedArith && !p.usedFrac && !p.usedFlex && !p.usedDeprecated // x/image composes seac glyphs
		if p.flex1Tie {
			k.Class("flex1:tie")
		}
		anyEligible = anyEligible || eligible[gid]
		// coverage
		for name, cnt := range res.OpCount {
			k.ClassN("op:"+name, cnt)
		}
		for i, nm := range []string{"", "int1", "int2", "int3", "fixed16.16"} {
			if i > 0 && res.NumForms[i] > 0 {
				k.ClassN("num:"+nm, res.NumForms[i])
			}
		}
		for _, cl := range res.Calls {
			kind := "local"
			if cl.Global {
				kind = "global"
			}
			k.Class(fmt.Sprintf("call:%s:bias%d", kind, t2interp.Bias(cl.NSubrs)))
			k.Class(fmt.Sprintf("call:tablesize=%d", cl.NSubrs))
			if cl.Index == 0 {
				k.Class("call:first-entry")
			}
			if cl.Index == cl.NSubrs-1 {
				k.Class("call:last-entry")
			}
		}
		k.Class(fmt.Sprintf("call-depth:%d", res.MaxDepth))
		if res.MaxStack == 48 {
			k.Class("stack-depth-48")
		}
		if res.HasWidth {
			k.Class("width:explicit")
		} else {
			k.Class("width:default")
		}
		ns := (len(res.HStem) + len(res.VStem)) / 2
		switch {
		case ns == 0:
		case ns <= 8:
			k.Class("stems:1-8")
		case ns <= 48:
			k.Class("stems:9-48")
		case ns < 96:
			k.Class("stems:49-95")
		default:
			k.Class("stems:96")
		}
		if res.HStemOps > 1 || res.VStemOps > 1 {
			k.Class("stems:several-operators-per-direction")
		}
		if p.opHist["flex1"] > 0 {
			k.Class("flex1")
		}
	}

	lib, err, panicked := cffReadGuard(k, data)
	if panicked {
		return
	}
	k.Eval()
	if err != nil {
		k.Fail("mismatch", tag+"wellformed-rejected", "cff.Read rejects a font of well-formed programs: %v\n glyph 0: % x", err, f.codes[0][:min(200, len(f.codes[0]))])
		return
	}
	if len(lib.Glyphs) != n {
		k.Fail("mismatch", tag+"glyph-count", "cff.Read returns %d glyphs, font has %d", len(lib.Glyphs), n)
		return
	}
	for gid := 0; gid < n; gid++ {
		res := results[gid]
		lg := lib.Glyphs[gid]
		k.Eval()
		where := func() string {
			return fmt.Sprintf("glyph %d (FD %d, %d global / %d local subrs; default %v nominal %v)\n charstring % x\n flat program % x", gid, f.fdsel[gid], len(f.tables.global), len(f.tables.local[f.fdsel[gid]]),
				f.env(gid).DefaultWidthX, f.env(gid).NominalWidthX, f.codes[gid][:min(300, len(f.codes[gid]))], c05bytes(f.progs[gid].toks)[:min(300, len(c05bytes(f.progs[gid].toks)))])
		}
		// the deprecated forms get witness classes of their own
		p, sfx := f.progs[gid], ""
		switch {
		case p.seac != nil:
			sfx = ":endchar-seac-form"
		case p.usedDeprecated:
			sfx = ":dotsection"
		}
		before := k.Failed()
		if d := cffCompareOps(lg.Cmds, res.Ops, 1e-9); d != "" {
			k.Fail("mismatch", tag+"path-differs"+sfx, "cff.Read decodes a different path than TN5177 defines: %s\n%s\n lib:%s\n ref:%s", d, where(), cffOpsString(lg.Cmds, 30), cffInterpString(res.Ops, 30))
		}
		if d := cffCompareStems(lg.HStem, res.HStem, 1e-9); d != "" {
			k.Fail("mismatch", tag+"hstem-differs"+sfx, "hstem: %s\n%s", d, where())
		}
		if d := cffCompareStems(lg.VStem, res.VStem, 1e-9); d != "" {
			k.Fail("mismatch", tag+"vstem-differs"+sfx, "vstem: %s\n%s", d, where())
		}
		if !(math.Abs(lg.Width-res.Width) <= 1e-9) {
			k.Fail("mismatch", tag+"width-differs"+sfx, "width: cff.Read %v, reference %v (explicit %v)\n%s", lg.Width, res.Width, res.HasWidth, where())
		}
		if p.usedDeprecated && k.Failed() == before {
			if p.seac != nil {
				// own path, stems and width are judged; the composition of base and accent glyph is not
				// (it is not among the operators the property lists, and cff.Glyph has no component field)
				if res.HasWidth {
					k.Class("deprecated:endchar-seac-form:with-width")
				} else {
					k.Class("deprecated:endchar-seac-form:without-width")
				}
				if len(res.Ops) > 0 {
					k.Class("deprecated:endchar-seac-form:behind-a-path")
				}
			}
			if p.opHist["dotsection"] > 0 {
				k.Class("deprecated:dotsection")
			}
		}
	}

	// x/image on the subset it supports
	if !anyEligible {
		k.Class("ximage-ineligible-font")
		return
	}
	if len(f.tables.global) > 30000 && k.Index%4 != 0 {
		return
	}
	xf, xerr := ximageParse(data, n)
	if xerr != nil {
		if isUnsupportedXimage(xerr) {
			k.Skip("ximage_unsupported")
		} else {
			k.Fail("mismatch", "harness:ximage-rejects-font", "x/image cannot parse the font: %v", xerr)
		}
		return
	}
	var xb sfnt.Buffer
	for gid := 0; gid < n; gid++ {
		if !eligible[gid] {
			k.Class("ximage-ineligible-glyph")
			continue
		}
		want, isInt := xiExpected(results[gid].Ops)
		if !isInt {
			continue
		}
		got, gerr := ximageSegs(xf, &xb, gid)
		if gerr != nil {
			if isUnsupportedXimage(gerr) {
				k.Skip("ximage_unsupported")
				continue
			}
			k.Fail("mismatch", "harness:ximage-rejects-glyph", "x/image cannot load glyph %d: %v\n charstring % x", gid, gerr, f.codes[gid])
			continue
		}
		k.Eval()
		if !xiEqual(got, want) {
			k.Fail("mismatch", "harness:ximage-vs-interp", "x/image and t2interp disagree on glyph %d\n x/image: %v\n interp: %v\n charstring % x", gid, got, want, f.codes[gid])
		} else {
			k.Class("ximage-agrees")
		}
	}
}

// c05insert inserts raw bytes in front of token index at.
func c05insert(toks []c05tok, at int, b []byte, name string) []c05tok {
	out := append([]c05tok{}, toks[:at]...)
	d := 0
	if at < len(toks) {
		d = toks[at].depth
	}
	out = append(out, c05tok{b: b, depth: d, name: name})
	return append(out, toks[at:]...)
}

var c05judged = map[string]bool{"underflow": true, "overflow": true, "missing-endchar": true, "bad-subr": true, "draw-before-move": true}

var c05expectClass = map[string]string{
	"underflow": t2interp.VStackUnderflow, "overflow": t2interp.VStackOverflow, "missing-endchar": t2interp.VMissingEndchar,
	"bad-subr": t2interp.VBadSubr, "draw-before-move": t2interp.VDrawBeforeMove, "depth11": t2interp.VCallDepth,
	"truncated-number": t2interp.VTruncatedNumber, "short-mask": t2interp.VShortMask, "pathop-underflow": "",
}

func runC05(c *mon.Ctx) {
	// ---- well-formed programs ----
	c.Stratum("fonts", c.N(10000, 600000), func(k *mon.Case) {
		r := k.Rng
		n := 1 + r.IntN(6)
		f := c05newFont(r, n, k.Index%8 == 0)
		deepGlyph := -1
		if r.IntN(3) == 0 {
			deepGlyph = r.IntN(n)
		}
		for gid := 0; gid < n; gid++ {
			o := c05randOpts(r)
			// the deprecated-but-specified forms of TN5177 appendix C
			if r.IntN(8) == 0 {
				o.seac = true
			}
			if r.IntN(8) == 0 {
				o.dotsection = true
			}
			p := c05program(r, o, "")
			deep := 0
			if gid == deepGlyph {
				deep = 2 + r.IntN(9)
			}
			code := c05carve(f.tables, p.toks, f.fdsel[gid], 0, deep)
			f.progs = append(f.progs, p)
			f.codes = append(f.codes, code)
		}
		data := f.bytes(r)
		k.Input(data)
		if f.cid {
			k.Class(fmt.Sprintf("font:cid:fds=%d", f.nFD))
		} else {
			k.Class("font:simple")
		}
		c05checkWellFormed(k, f, data, "")
		// writer/reader self-check
		if k.Index%8 == 1 {
			mf, err := cffmini.Parse(data)
			if err != nil || len(mf.Problems) > 0 || mf.NGlyphs != n {
				k.Fail("mismatch", "harness:cffmini-roundtrip", "cffmini cannot read what it wrote: %v %v", err, mf.Problems)
			} else {
				for gid := range f.codes {
					if !bytes.Equal(mf.CharStrings.Data[gid], f.codes[gid]) {
						k.Fail("mismatch", "harness:cffmini-roundtrip", "charstring %d differs after cffmini write/read", gid)
					}
				}
			}
		}
		if k.Index < 2 {
			k.Sample(fmt.Sprintf("font: cid=%v, %d glyphs, %d global subrs; glyph 0: % x", f.cid, n, len(f.tables.global), f.codes[0][:min(len(f.codes[0]), 60)]))
		}
	})

	// ---- the same interpretation when several fonts are read at the same time ----
	// (the interpreter must not keep state that survives a call or is shared
	// between calls: a charstring means the same whatever else is being read)
	c.Stratum("concurrent-read", c.N(60, 3000), func(k *mon.Case) {
		r := k.Rng
		const nFonts = 8
		datas := make([][]byte, nFonts)
		for i := range datas {
			n := 2 + r.IntN(5)
			f := c05newFont(r, n, r.IntN(4) == 0)
			for gid := 0; gid < n; gid++ {
				p := c05program(r, c05randOpts(r), "")
				f.progs = append(f.progs, p)
				f.codes = append(f.codes, c05carve(f.tables, p.toks, f.fdsel[gid], 0, 0))
			}
			datas[i] = f.bytes(r)
		}
		digestOf := func(data []byte) string {
			fnt, err := cff.Read(bytes.NewReader(data))
			if err != nil {
				return "error: " + err.Error()
			}
			var b strings.Builder
			for _, g := range fnt.Glyphs {
				fmt.Fprintf(&b, "%v|%v|%v|%v;", g.Width, g.HStem, g.VStem, g.Cmds)
			}
			return b.String()
		}
		alone := make([]string, nFonts)
		for i, d := range datas {
			var s string
			if k.Guard("cff.Read", func() { s = digestOf(d) }) {
				return
			}
			alone[i] = s
		}
		for round := 0; round < 4; round++ {
			got := make([]string, nFonts)
			var wg sync.WaitGroup
			for i := range datas {
				wg.Add(1)
				go func(i int) {
					defer wg.Done()
					if pv, _ := mon.Try(func() { got[i] = digestOf(datas[i]) }); pv != nil {
						got[i] = fmt.Sprint("panic: ", pv)
					}
				}(i)
			}
			wg.Wait()
			k.Evals(nFonts)
			for i := range got {
				if got[i] != alone[i] {
					a, b := got[i], alone[i]
					if len(a) > 300 {
						a = a[:300] + "…"
					}
					if len(b) > 300 {
						b = b[:300] + "…"
					}
					k.Fail("mismatch", "concurrent-read-differs", "font %d of %d read concurrently gives a different result than read alone\n concurrent: %s\n alone:      %s", i, nFonts, a, b)
					return
				}
			}
		}
		k.Distinct("concurrent", k.Index)
		k.Class("concurrent-read")
	})

	// ---- isolated operators: one path operator and one arithmetic fragment per program ----
	nIso := len(c05pathOps) * (len(c05fragNames) + 1)
	c.Stratum("isolated", c.N(2*nIso, 40*nIso), func(k *mon.Case) {
		r := k.Rng
		sel := k.Index % nIso
		pop := c05pathOps[sel%len(c05pathOps)]
		frag := sel / len(c05pathOps) // 0 = none
		o := c05opts{arith: frag > 0, frac: r.IntN(2) == 0, maxPathOps: 1 + r.IntN(4), width: r.IntN(2) == 0, onlyOps: []string{pop}, onlyFrag: frag}
		f := c05newFont(r, 1, false)
		p := c05program(r, o, "")
		f.progs = []*c05gen{p}
		f.codes = [][]byte{c05bytes(p.toks)}
		data := f.bytes(r)
		k.Input(data)
		tag := "isolated:" + pop + ":"
		if frag > 0 {
			tag = "isolated:" + pop + "+" + c05fragNames[frag-1] + ":"
		}
		c05checkWellFormed(k, f, data, tag)
	})

	// ---- single-fault mutants ----
	kinds := []string{"underflow", "overflow", "missing-endchar", "bad-subr", "draw-before-move", "depth11", "truncated-number", "short-mask", "pathop-underflow"}
	c.Stratum("mutants", c.N(9000, 400000), func(k *mon.Case) {
		r := k.Rng
		kind := kinds[k.Index%len(kinds)]
		n := 1 + r.IntN(3)
		bad := r.IntN(n)
		f := c05newFont(r, n, k.Index%36 < 9)
		detail := kind
		for gid := 0; gid < n; gid++ {
			o := c05randOpts(r)
			if gid != bad {
				p := c05program(r, o, "")
				f.progs = append(f.progs, p)
				f.codes = append(f.codes, c05carve(f.tables, p.toks, f.fdsel[gid], 0, 0))
				continue
			}
			fd := f.fdsel[gid]
			var p *c05gen
			var code []byte
			switch kind {
			case "underflow", "overflow", "draw-before-move", "missing-endchar":
				p = c05program(r, o, kind)
				if kind == "missing-endchar" || r.IntN(2) == 0 {
					code = c05bytes(p.toks)
				} else {
					code = c05carve(f.tables, p.toks, fd, 0, 0)
				}
			case "bad-subr":
				p = c05program(r, o, "")
				global := r.IntN(2) == 0
				nsub := len(f.tables.local[fd])
				if global {
					nsub = len(f.tables.global)
				}
				bias := t2interp.Bias(nsub)
				idx := nsub
				switch {
				case nsub == 0:
					idx = r.IntN(300) - 150
				case r.IntN(2) == 0 && bias < 32768:
					idx = -1
				case r.IntN(6) == 0:
					idx = nsub + 1 + r.IntN(50)
				}
				detail = fmt.Sprintf("bad-subr: index %d of %d (global %v)", idx, nsub, global)
				var at int
				for try := 0; ; try++ {
					at = r.IntN(len(p.toks))
					if p.toks[at].depth <= 47 {
						break
					}
				}
				call := append(t2num(r, t2interp.FromInt(idx-bias)), 10)
				if global {
					call[len(call)-1] = 29
				}
				code = c05bytes(c05insert(p.toks, at, call, "badcall"))
				if idx < 0 {
					k.Class(fmt.Sprintf("mutant:bad-subr:below:bias%d", bias))
				} else {
					k.Class(fmt.Sprintf("mutant:bad-subr:above:bias%d", bias))
				}
			case "depth11":
				p = c05program(r, o, "")
				// chain of 11 nested calls; the innermost subroutine just returns
				type slot struct {
					global bool
					idx    int
				}
				var chain []slot
				for len(chain) < 11 {
					g := r.IntN(2) == 0
					idx, ok := f.tables.alloc(g, fd)
					if !ok {
						g = !g
						idx, ok = f.tables.alloc(g, fd)
					}
					if !ok {
						break
					}
					chain = append(chain, slot{g, idx})
				}
				if len(chain) < 11 {
					k.Skip("depth11:tables-too-small")
					return
				}
				callTo := func(s slot) []byte {
					nsub := len(f.tables.local[fd])
					op := byte(10)
					if s.global {
						nsub = len(f.tables.global)
						op = 29
					}
					return append(t2num(r, t2interp.FromInt(s.idx-t2interp.Bias(nsub))), op)
				}
				for i, s := range chain {
					body := []byte{11}
					if i+1 < len(chain) {
						body = append(callTo(chain[i+1]), 11)
					}
					if s.global {
						f.tables.global[s.idx] = body
					} else {
						f.tables.local[fd][s.idx] = body
					}
				}
				var at int
				for {
					at = r.IntN(len(p.toks))
					if p.toks[at].depth <= 47 {
						break
					}
				}
				code = c05bytes(c05insert(p.toks, at, callTo(chain[0]), "deepcall"))
			case "truncated-number", "short-mask":
				if kind == "short-mask" {
					if o.nh+o.nv == 0 {
						o.nh, o.nv = 1+r.IntN(20), r.IntN(20)
					}
					o.masks = true
				}
				p = c05program(r, o, "")
				g := r.IntN(2) == 0
				idx, ok := f.tables.alloc(g, fd)
				if !ok {
					g = !g
					idx, ok = f.tables.alloc(g, fd)
				}
				if !ok {
					k.Skip(kind + ":tables-too-small")
					return
				}
				var body []byte
				at := len(p.toks) - 1 // in front of endchar, the stack is empty there
				if kind == "truncated-number" {
					full := [][]byte{{28, 1, 2}, {247, 5}, {251, 9}, {255, 0, 3, 128, 0}, {12}}[r.IntN(5)]
					body = full[:1+r.IntN(max(1, len(full)-1))]
					if len(full) == 1 {
						body = full
					}
					if r.IntN(2) == 0 {
						body = append([]byte{139, 12, 18}, body...) // 0 drop, then the truncated number
					}
					for {
						at = r.IntN(len(p.toks))
						if p.toks[at].depth <= 47 {
							break
						}
					}
				} else {
					nb := (o.nh + o.nv + 7) / 8
					body = []byte{19}
					for i := 0; i < r.IntN(nb); i++ {
						body = append(body, byte(r.UintN(256)))
					}
				}
				nsub := len(f.tables.local[fd])
				op := byte(10)
				if g {
					nsub = len(f.tables.global)
					op = 29
					f.tables.global[idx] = body
				} else {
					f.tables.local[fd][idx] = body
				}
				call := append(t2num(r, t2interp.FromInt(idx-t2interp.Bias(nsub))), op)
				code = c05bytes(c05insert(p.toks, at, call, "call"))
			case "pathop-underflow":
				// a path, moveto or stem operator with fewer operands than its smallest legal shape
				for try := 0; try < 20; try++ {
					p = c05program(r, o, "")
					if p.toks[len(p.toks)-1].depth == 0 {
						break
					}
					o.width = false
				}
				cands := []struct {
					op   string
					need int
				}{{"rmoveto", 2}, {"hmoveto", 1}, {"rlineto", 2}, {"hlineto", 1}, {"rrcurveto", 6}, {"hhcurveto", 4}, {"hvcurveto", 4},
					{"rcurveline", 8}, {"rlinecurve", 8}, {"flex", 13}, {"hflex", 7}, {"hflex1", 9}, {"flex1", 11}}
				cd := cands[r.IntN(len(cands))]
				var frag []byte
				for i := r.IntN(cd.need); i > 0; i-- {
					frag = append(frag, t2num(r, t2interp.FromInt(1+r.IntN(40)))...)
				}
				frag = append(frag, t2opcode[cd.op]...)
				detail = "pathop-underflow: " + cd.op
				code = c05bytes(c05insert(p.toks, len(p.toks)-1, frag, "short-op"))
			}
			f.progs = append(f.progs, p)
			f.codes = append(f.codes, code)
		}
		data := f.bytes(r)
		k.Input(data)
		where := func() string {
			return fmt.Sprintf("%s; glyph %d of %d (FD %d, %d global / %d local subrs)\n charstring % x", detail, bad, n, f.fdsel[bad], len(f.tables.global), len(f.tables.local[f.fdsel[bad]]), f.codes[bad][:min(400, len(f.codes[bad]))])
		}
		// classification by the strict reference interpreter (self-check of the mutant construction)
		res := t2interp.Run(f.codes[bad], f.env(bad))
		k.DistinctBytes(f.codes[bad])
		if want := c05expectClass[kind]; want != "" && !res.Has(want) {
			k.Fail("mismatch", "harness:mutant-not-classified", "t2interp does not report %s for a %s mutant: %v\n%s", want, kind, res.Violations, where())
			return
		}
		if kind == "pathop-underflow" && len(res.Violations) == 0 {
			k.Fail("mismatch", "harness:mutant-not-classified", "t2interp accepts a pathop-underflow mutant\n%s", where())
			return
		}
		_, err, panicked := cffReadGuard(k, data)
		if panicked {
			return
		}
		k.Eval()
		k.Class("mutant:" + kind + ":evaluated")
		if err != nil {
			k.Class("mutant:" + kind + ":rejected")
			return
		}
		k.Class("mutant:" + kind + ":accepted")
		if c05judged[kind] {
			k.Fail("mismatch", "mutant-accepted:"+kind, "cff.Read accepts a malformed program (%s) instead of returning an error\n%s", kind, where())
		}
	})

	req := []string{"call:local:bias107", "call:local:bias1131", "call:local:bias32768", "call:global:bias107", "call:global:bias1131", "call:global:bias32768",
		"call-depth:0", "call-depth:1", "call-depth:5", "call-depth:10", "call:first-entry", "call:last-entry", "stack-depth-48",
		"num:int1", "num:int2", "num:int3", "num:fixed16.16", "width:explicit", "width:default", "stems:1-8", "stems:9-48", "stems:49-95", "stems:96",
		"font:simple", "font:cid:fds=1", "font:cid:fds=4", "ximage-agrees", "flex1",
		"mutant:bad-subr:below:bias107", "mutant:bad-subr:below:bias1131", "mutant:bad-subr:above:bias107", "mutant:bad-subr:above:bias1131", "mutant:bad-subr:above:bias32768"}
	for _, s := range c05sizes[1:] {
		req = append(req, fmt.Sprintf("call:tablesize=%d", s))
	}
	for _, n := range t2interp.OpNames() {
		req = append(req, "op:"+n)
	}
	for _, kd := range kinds {
		req = append(req, "mutant:"+kd+":evaluated")
		if c05judged[kd] {
			req = append(req, "mutant:"+kd+":rejected")
		}
	}
	c.Require(req...)
	c.Require("concurrent-read", "flex1:tie", "deprecated:endchar-seac-form:with-width", "deprecated:endchar-seac-form:without-width", "deprecated:endchar-seac-form:behind-a-path", "deprecated:dotsection")
}

var _ = cff.OpMoveTo
