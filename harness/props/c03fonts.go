package props

import "verif/harness/internal/mon"

// c03fonts: stratum over complete fonts (filled in once the font generator exists)
func c03fonts(c *mon.Ctx) {}
