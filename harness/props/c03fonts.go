package props

import (
	"bytes"
	"fmt"
	"math"
	"strings"

	"seehuhn.de/go/sfnt"
	"seehuhn.de/go/sfnt/cff"
	"seehuhn.de/go/sfnt/glyf"
	"seehuhn.de/go/sfnt/glyph"
	"seehuhn.de/go/sfnt/header"

	"verif/harness/internal/gen/fontgen"
	"verif/harness/internal/mon"
	"verif/harness/internal/ref/cffmini"
	"verif/harness/internal/ref/glyfref"
	"verif/harness/internal/ref/sfntwalk"
	"verif/harness/internal/ref/tabread"
	"verif/harness/internal/ref/ximg"
)

// ttExpected computes the outline segments of TrueType glyph gid (composites
// through their XY offsets).  ok=false when the glyph uses something the
// comparison does not cover (transforms, point-matching, degenerate contours).
func ttExpected(o *glyf.Outlines, gid int, dx, dy int, depth int) (segs []ximg.Seg, ok bool) {
	if depth > 6 {
		return nil, false
	}
	g := o.Glyphs[gid]
	if g == nil {
		return nil, true
	}
	switch d := g.Data.(type) {
	case glyf.SimpleGlyph:
		ref, _, err := glyfref.Decode(int(d.NumContours), d.Encoded)
		if err != nil || ximg.Degenerate(ref.Contours) {
			return nil, false
		}
		for _, c := range ref.Contours {
			on := false
			for _, p := range c {
				on = on || p.OnCurve
			}
			if !on && len(c) < 2 {
				return nil, false
			}
		}
		return ximg.TTSegments(ref.Contours, dx, dy), true
	case glyf.CompositeGlyph:
		for _, c := range d.Components {
			if c.Flags&glyf.FlagArgsAreXYValues == 0 || c.Flags&(glyf.FlagWeHaveAScale|glyf.FlagWeHaveAnXAndYScale|glyf.FlagWeHaveATwoByTwo) != 0 {
				return nil, false
			}
			var cx, cy int
			if c.Flags&glyf.FlagArg1And2AreWords != 0 {
				cx = int(int16(uint16(c.Data[0])<<8 | uint16(c.Data[1])))
				cy = int(int16(uint16(c.Data[2])<<8 | uint16(c.Data[3])))
			} else {
				cx, cy = int(int8(c.Data[0])), int(int8(c.Data[1]))
			}
			sub, ok := ttExpected(o, int(c.GlyphIndex), dx+cx, dy+cy, depth+1)
			if !ok {
				return nil, false
			}
			segs = append(segs, sub...)
		}
		return segs, true
	}
	return nil, false
}

// cffExpected converts a CFF glyph with integer coordinates to segments:
// every subpath is closed with a line back to its start when needed.
func cffExpected(g *cff.Glyph) (segs []ximg.Seg, ok bool) {
	q := func(v float64) (int64, bool) {
		i := int64(v)
		return i * 64, float64(i) == v
	}
	var sx, sy, cx, cy int64
	open := false
	closeSub := func() {
		if open && (cx != sx || cy != sy) {
			segs = append(segs, ximg.Seg{Op: 'L', X: [3]int64{sx}, Y: [3]int64{sy}})
		}
		open = false
	}
	for _, c := range g.Cmds {
		switch c.Op {
		case cff.OpMoveTo:
			closeSub()
			x, ok1 := q(c.Args[0])
			y, ok2 := q(c.Args[1])
			if !ok1 || !ok2 {
				return nil, false
			}
			segs = append(segs, ximg.Seg{Op: 'M', X: [3]int64{x}, Y: [3]int64{y}})
			sx, sy, cx, cy = x, y, x, y
			open = true
		case cff.OpLineTo:
			x, ok1 := q(c.Args[0])
			y, ok2 := q(c.Args[1])
			if !ok1 || !ok2 {
				return nil, false
			}
			segs = append(segs, ximg.Seg{Op: 'L', X: [3]int64{x}, Y: [3]int64{y}})
			cx, cy = x, y
		case cff.OpCurveTo:
			var s ximg.Seg
			s.Op = 'C'
			for i := 0; i < 3; i++ {
				x, ok1 := q(c.Args[2*i])
				y, ok2 := q(c.Args[2*i+1])
				if !ok1 || !ok2 {
					return nil, false
				}
				s.X[i], s.Y[i] = x, y
			}
			segs = append(segs, s)
			cx, cy = s.X[2], s.Y[2]
		case cff.OpHintMask, cff.OpCntrMask:
			// hints do not draw
		default:
			return nil, false
		}
	}
	closeSub()
	return segs, true
}

// ximageCompare compares what x/image sees in the written file with the font.
func ximageCompare(k *mon.Case, f *sfnt.Font, info *fontgen.Info, out []byte, desc string) {
	if f.CMapTable == nil {
		k.Skip("ximage:font-without-cmap-is-not-complete")
		return
	}
	xf, err := ximg.Parse(out)
	if err != nil {
		k.Fail("mismatch", "ximage:parse", "x/image rejects the written file: %v (%s)", err, desc)
		return
	}
	k.Eval()
	if xf.NumGlyphs() != f.NumGlyphs() {
		k.Fail("mismatch", "ximage:num-glyphs", "x/image sees %d glyphs, font has %d (%s)", xf.NumGlyphs(), f.NumGlyphs(), desc)
		return
	}
	if xf.Upm != int(f.UnitsPerEm) {
		k.Fail("mismatch", "ximage:units-per-em", "x/image sees %d units per em, font has %d (%s)", xf.Upm, f.UnitsPerEm, desc)
	}
	// character mapping
	macFormat6 := false // x/image translates Mac Roman codes for format 0 only
	for _, cl := range info.Classes {
		macFormat6 = macFormat6 || cl == "cmap:mac-format6"
	}
	if macFormat6 {
		k.Class("ximage:cmap-skipped:mac-format6")
	}
	if f.CMapTable != nil && info.CMap != "legacy" && !macFormat6 {
		sub, err := f.CMapTable.GetBest()
		if err == nil {
			check := func(r rune) {
				gi, err := xf.GlyphIndex(r)
				if err != nil {
					k.Skip("ximage:glyphindex-error")
					return
				}
				k.Eval()
				want := int(info.CodeToGID[r])
				if lib := int(sub.Lookup(r)); lib != want {
					k.Fail("mismatch", "cmap:library-lookup", "library maps U+%04X to %d, generated map says %d (%s)", r, lib, want, desc)
				}
				if gi != want {
					k.Fail("mismatch", "ximage:glyph-index", "x/image maps U+%04X to glyph %d, font maps it to %d (%s)", r, gi, want, desc)
				}
			}
			n := 0
			for r := range info.CodeToGID {
				if (info.CMap == "both" || info.CMap == "12") || r <= 0xffff {
					check(r)
				}
				if n++; n > 300 {
					break
				}
			}
			for _, r := range []rune{0, 1, 0x20, 0x7f, 0xfffe, 0x1f600} {
				if _, mapped := info.CodeToGID[r]; !mapped {
					check(r)
				}
			}
			k.Class("ximage:cmap-compared")
		}
	}
	// vertical metrics, post header and name strings as x/image reads them
	// from hhea, OS/2, post and name
	{
		upm := float64(f.UnitsPerEm)
		fits := func(vs ...float64) bool {
			for _, v := range vs {
				if v*upm*64 >= 1<<30 || v*upm*64 <= -(1<<30) {
					return false
				}
			}
			return true
		}
		asc, desc, gap := float64(f.Ascent), float64(f.Descent), float64(f.LineGap)
		if fits(asc, desc, gap, asc-desc+gap, float64(f.XHeight), float64(f.CapHeight)) {
			a, d, h, xh, ch, err := xf.VMetrics()
			k.Eval()
			switch {
			case err != nil:
				k.Skip("ximage:metrics-error")
			case a != int(f.Ascent) || d != -int(f.Descent) || h != int(f.Ascent)-int(f.Descent)+int(f.LineGap):
				k.Fail("mismatch", "ximage:vertical-metrics", "x/image reads ascent %d descent %d height %d from hhea, the font has ascent %d descent %d line gap %d (%s)", a, d, h, f.Ascent, f.Descent, f.LineGap, desc)
			case f.XHeight > 0 && xh != int(f.XHeight) || f.CapHeight > 0 && ch != int(f.CapHeight):
				k.Fail("mismatch", "ximage:heights", "x/image reads x height %d cap height %d from OS/2, the font has %d and %d (%s)", xh, ch, f.XHeight, f.CapHeight, desc)
			default:
				k.Class("ximage:vertical-metrics-compared")
			}
		}
		if pt := xf.Post(); pt != nil {
			k.Eval()
			wantAngle := math.Round(f.ItalicAngle*65536) / 65536
			if pt.ItalicAngle != wantAngle || float64(pt.UnderlinePosition) != math.Round(float64(f.UnderlinePosition)) ||
				float64(pt.UnderlineThickness) != math.Round(float64(f.UnderlineThickness)) || pt.IsFixedPitch != f.IsFixedPitch() {
				k.Fail("mismatch", "ximage:post-header", "x/image reads post header %+v, the font has italic angle %v underline %v/%v fixed pitch %v (%s)", *pt, f.ItalicAngle, f.UnderlinePosition, f.UnderlineThickness, f.IsFixedPitch(), desc)
			} else {
				k.Class("ximage:post-header-compared")
			}
		}
		for _, nm := range []struct {
			id   int
			want string
		}{{0, f.Copyright}, {1, f.FamilyName}, {7, f.Trademark}, {10, f.Description}, {13, f.License}, {14, f.LicenseURL}, {19, f.SampleText}} {
			// the first record is the Macintosh one: only strings of the Mac
			// Roman repertoire are stored there without loss
			roman := true
			for _, ch := range nm.want {
				if _, ok := tabread.MacRomanByte(ch); !ok {
					roman = false
				}
			}
			if !roman {
				continue
			}
			got, found, err := xf.Name(nm.id)
			k.Eval()
			if err != nil {
				k.Skip("ximage:name-error")
				continue
			}
			if found != (nm.want != "") || got != nm.want {
				k.Fail("mismatch", "ximage:name-string", "x/image reads name id %d as %q (found=%v), the font has %q (%s)", nm.id, got, found, nm.want, desc)
				break
			}
			k.Class("ximage:name-strings-compared")
		}
	}
	// advances, names, outlines
	ng := f.NumGlyphs()
	step := 1
	if ng > 400 {
		step = ng / 200
	}
	for gid := 0; gid < ng; gid += step {
		// x/image scales in 32-bit 26.6 arithmetic: stay inside its range
		fits := func(v float64) bool {
			return v*float64(f.UnitsPerEm)*64 < 1<<30 && v*float64(f.UnitsPerEm)*64 > -(1<<30)
		}
		bb := f.GlyphBBox(glyphID(gid))
		boxFits := fits(float64(bb.LLx)) && fits(float64(bb.LLy)) && fits(float64(bb.URx)) && fits(float64(bb.URy))
		adv, err := xf.Advance(gid)
		if !fits(f.GlyphWidth(glyphID(gid))) {
			k.Skip("ximage:advance-exceeds-26.6-range")
		} else if err == nil {
			k.Eval()
			if float64(adv) != f.GlyphWidth(glyphID(gid)) {
				k.Fail("mismatch", "ximage:advance", "x/image advance of glyph %d is %d, font says %v (%s)", gid, adv, f.GlyphWidth(glyphID(gid)), desc)
				return
			}
		}
		switch o := f.Outlines.(type) {
		case *glyf.Outlines:
			if o.Names != nil {
				name, err := xf.GlyphName(gid)
				if err == nil {
					k.Eval()
					if name != o.Names[gid] {
						k.Fail("mismatch", "ximage:glyph-name", "x/image name of glyph %d is %q, font says %q (%s)", gid, name, o.Names[gid], desc)
						return
					}
					k.Class("ximage:name-compared")
				} else if !isUnsupportedXimage(err) && o.Names[gid] != "" {
					k.Eval()
					k.Fail("mismatch", "ximage:glyph-name-missing", "x/image finds no name for glyph %d (%v), the font names it %q (%s)", gid, err, o.Names[gid], desc)
					return
				}
			}
			want, ok := ttExpected(o, gid, 0, 0, 0)
			if !boxFits {
				k.Skip("ximage:outline-exceeds-26.6-range")
				continue
			}
			if !ok {
				k.Skip("ximage:outline-not-comparable")
				continue
			}
			got, err := xf.Outline(gid)
			if err != nil {
				if isUnsupportedXimage(err) {
					k.Skip("ximage:outline-unsupported")
					continue
				}
				k.Fail("mismatch", "ximage:rejects-glyph", "x/image cannot load the outline of glyph %d: %v (%s)", gid, err, desc)
				return
			}
			k.Eval()
			if !ximg.SameSegs(got, want) {
				k.Fail("mismatch", "ximage:outline-truetype", "x/image outline of glyph %d differs (%s)\n got %v\nwant %v", gid, desc, got, want)
				return
			}
			if o.Glyphs[gid] == nil {
				k.Class("ximage:empty-outline-compared")
			} else if _, isC := o.Glyphs[gid].Data.(glyf.CompositeGlyph); isC {
				k.Class("ximage:composite-outline-compared")
			} else {
				k.Class("ximage:simple-outline-compared")
			}
		case *cff.Outlines:
			want, ok := cffExpected(o.Glyphs[gid])
			if !boxFits {
				k.Skip("ximage:outline-exceeds-26.6-range")
				continue
			}
			if !ok {
				k.Skip("ximage:cff-fractional-coordinates")
				continue
			}
			got, err := xf.Outline(gid)
			if err != nil {
				if isUnsupportedXimage(err) {
					k.Skip("ximage:outline-unsupported")
					continue
				}
				k.Fail("mismatch", "ximage:rejects-glyph", "x/image cannot load the outline of glyph %d: %v (%s)", gid, err, desc)
				return
			}
			k.Eval()
			if !ximg.SameSegs(got, want) {
				k.Fail("mismatch", "ximage:outline-cff", "x/image outline of glyph %d differs (%s)\n got %v\nwant %v", gid, desc, got, want)
				return
			}
			k.Class("ximage:cff-outline-compared")
		}
	}
}

// c03fonts: stratum over complete fonts: every writer output is a well-formed
// container, and x/image agrees with the font on the complete files.
func c03fonts(c *mon.Ctx) {
	c.Stratum("fonts", c.N(1500, 20000), func(k *mon.Case) {
		r := k.Rng
		o := fontgen.Opts{Kind: []string{"glyf", "cff", "cid"}[k.Index%3], IntCoords: r.IntN(3) != 0}
		switch k.Index / 3 % 6 {
		case 0:
			o.MaxGlyphs = 3
		case 1:
			o.MinGlyphs, o.MaxGlyphs = 255, 257
			if k.Index/18%2 == 1 {
				o.MinGlyphs, o.MaxGlyphs = 258, 262
			}
		case 2:
			if c.Thorough() {
				o.MinGlyphs, o.MaxGlyphs = 900, 1100
			}
		}
		if r.IntN(2) == 0 {
			o.Layout = "subset"
		}
		f, info := fontgen.Font(r, o)
		if f.CreationTime.IsZero() && f.ModificationTime.IsZero() {
			f.ModificationTime = f.ModificationTime.AddDate(2001, 0, 0)
		}
		desc := fmt.Sprintf("kind=%s glyphs=%d cmap=%s", info.Kind, info.NGlyphs, info.CMap)
		if info.Kind != "glyf" && k.Index%5 == 1 {
			// tune one string so that the data of the CFF String INDEX is
			// exactly 254, 255 or 256 bytes long (the last offset 256 is the
			// first that needs two bytes)
			f.Trademark = ""
			if probe, ok := writeFont(k, f, "Write(F)"); ok {
				if pw, _ := sfntwalk.Walk(probe); pw != nil {
					if t := pw.Get("CFF "); t != nil {
						if mf, err := cffmini.Parse(t.Data); err == nil && mf.Strings != nil {
							have := 0
							for _, d := range mf.Strings.Data {
								have += len(d)
							}
							target := 254 + k.Index/15%3
							if pad := target - have; pad >= 2 {
								f.Trademark = "TM" + strings.Repeat("x", pad-2)
								k.Class(fmt.Sprintf("cff:string-index-data=%d", target))
								desc += fmt.Sprintf(" string-index-data=%d", target)
							}
						}
					}
				}
			}
		}
		if co, isCFF := f.Outlines.(*cff.Outlines); isCFF && !co.IsCIDKeyed() && len(co.Glyphs) >= 259 && k.Index/36%2 == 0 {
			// glyph names whose string ids form one run of exactly 255, 256 or
			// 257 consecutive values (custom names, numbered in glyph order),
			// with glyphs of standard names behind the run
			run := min(255+k.Index/72%3, len(co.Glyphs)-2)
			// (the built-in encoding must not depend on the old names)
			enc := make([]glyph.ID, 256)
			for g := 1; g <= 10; g++ {
				enc[64+g] = glyph.ID(g)
			}
			co.Encoding = enc
			std := []string{"space", "exclam", "A", "B", "C", "D", "E", "F", "G", "H"}
			for i := 1; i < len(co.Glyphs); i++ {
				switch {
				case i <= run:
					co.Glyphs[i].Name = fmt.Sprintf("cst%03d", i)
				case i-run-1 < len(std):
					co.Glyphs[i].Name = std[i-run-1]
				default:
					co.Glyphs[i].Name = fmt.Sprintf("tail%03d", i)
				}
			}
			k.Class(fmt.Sprintf("cff:custom-name-run=%d", run))
			desc += fmt.Sprintf(" custom-name-run=%d", run)
		}
		out, ok := writeFont(k, f, "Write(F)")
		if !ok {
			return
		}
		k.DistinctBytes(out)
		wf, probs := sfntwalk.Walk(out)
		k.Eval()
		for _, p := range probs {
			k.Fail("mismatch", "container:"+p.Rule, "Write output: %s (%s)", p, desc)
		}
		if wf != nil {
			// header.Read sees exactly the tables of the file
			info2, err := header.Read(bytes.NewReader(out))
			if err != nil || len(info2.Toc) != len(wf.Tables) {
				k.Fail("mismatch", "readback:table-set", "header.Read on Write output: err=%v", err)
			}
		}
		k.Class("writer:Write:" + info.Kind)
		ximageCompare(k, f, info, out, desc)
		// the same font value written again after a glyph was renamed in place:
		// the file must carry the names the font has now
		if go_, isGlyf := f.Outlines.(*glyf.Outlines); isGlyf && len(go_.Names) > 2 && k.Index%4 == 2 {
			g := 1 + r.IntN(len(go_.Names)-1)
			go_.Names[g] = fmt.Sprintf("renamed.%d", g)
			if out2, ok := writeFont(k, f, "Write(F) after a glyph was renamed"); ok {
				ximageCompare(k, f, info, out2, desc+fmt.Sprintf(" (second write, glyph %d renamed in place)", g))
				k.Class("ximage:second-write-after-rename")
			}
		}
		// glyph names of a simple CFF font, as an independent reader finds
		// them in the charset of the written file (x/image does not decode
		// CFF glyph names)
		if co, isCFF := f.Outlines.(*cff.Outlines); isCFF && !co.IsCIDKeyed() && wf != nil && wf.Get("CFF ") != nil {
			mf, err := cffmini.Parse(wf.Get("CFF ").Data)
			k.Eval()
			if err != nil {
				k.Fail("mismatch", "cff:independent-reader-rejects-table", "the independent CFF reader cannot follow the CFF table of the written file: %v (%s)", err, desc)
			} else if len(mf.Problems) > 0 {
				k.Fail("mismatch", "cff:structure:"+mf.Problems[0].Rule, "CFF table of the written file: %s (%s)", mf.Problems[0], desc)
			} else if mf.NGlyphs == len(co.Glyphs) {
				for gid, g := range co.Glyphs {
					name, ok := mf.GlyphName(gid)
					if !ok || name != g.Name {
						k.Fail("mismatch", "cff:glyph-name-in-bytes", "glyph %d is named %q in the font and %q (found: %v) in the charset of the written file (%s)", gid, g.Name, name, ok, desc)
						break
					}
				}
				k.Class("cff:glyph-names-compared")
			}
		}

		// the PDF writers
		buf := &bytes.Buffer{}
		switch info.Kind {
		case "glyf":
			var n int64
			var err error
			// optional extra tables: (name, data) pairs that are included and
			// override the default tables
			var extra []any
			extraWant := map[string][]byte{}
			if r.IntN(2) == 0 {
				for _, tag := range []string{"OS/2", "name", "xtra", "cvt ", "post"}[r.IntN(3):] {
					b := make([]byte, 1+r.IntN(40))
					for i := range b {
						b[i] = byte(r.Uint32())
					}
					extra = append(extra, tag, b)
					extraWant[tag] = append([]byte{}, b...)
				}
				k.Class("writer:WriteTrueTypePDF:extra-tables")
			}
			if k.Guard("WriteTrueTypePDF", func() { n, err = f.WriteTrueTypePDF(buf, extra...) }) {
				return
			}
			if ef, _ := sfntwalk.Walk(buf.Bytes()); ef != nil {
				for tag, want := range extraWant {
					if t := ef.Get(tag); t == nil || !bytes.Equal(t.Data, want) {
						k.Fail("mismatch", "pdf-writer:extra-table", "WriteTrueTypePDF: extra table %q is missing from the output or differs (%s)", tag, desc)
					}
				}
				for _, tag := range []string{"glyf", "loca", "head", "hhea", "hmtx", "maxp"} {
					if ef.Get(tag) == nil {
						k.Fail("mismatch", "pdf-writer:required-table", "WriteTrueTypePDF output lacks table %q (%s)", tag, desc)
					}
				}
			}
			k.Eval()
			if err != nil || n != int64(buf.Len()) {
				k.Fail("mismatch", "pdf-writer", "WriteTrueTypePDF: n=%d len=%d err=%v", n, buf.Len(), err)
				return
			}
			k.Class("writer:WriteTrueTypePDF")
		default:
			var err error
			if k.Guard("WriteOpenTypeCFFPDF", func() { err = f.WriteOpenTypeCFFPDF(buf) }) {
				return
			}
			k.Eval()
			if err != nil {
				k.Fail("mismatch", "pdf-writer", "WriteOpenTypeCFFPDF: %v", err)
				return
			}
			k.Class("writer:WriteOpenTypeCFFPDF")
		}
		pf, probs := sfntwalk.Walk(buf.Bytes())
		for _, p := range probs {
			k.Fail("mismatch", "container:"+p.Rule, "PDF writer output: %s (%s)", p, desc)
		}
		if pf != nil {
			if _, err := header.Read(bytes.NewReader(buf.Bytes())); err != nil {
				k.Fail("mismatch", "header.Read-rejects-own-output", "header.Read on PDF writer output: %v (%s)", err, desc)
			}
		}
		if k.Index < 3 {
			k.Sample(desc + fmt.Sprintf(" file=%d bytes", len(out)))
		}
	})
	c.Require("ximage:second-write-after-rename", "cff:glyph-names-compared", "cff:custom-name-run=255", "cff:custom-name-run=256", "cff:custom-name-run=257", "cff:string-index-data=254", "cff:string-index-data=255", "cff:string-index-data=256", "ximage:vertical-metrics-compared", "ximage:post-header-compared", "ximage:name-strings-compared")
	c.Require("writer:Write:glyf", "writer:Write:cff", "writer:Write:cid", "writer:WriteTrueTypePDF", "writer:WriteTrueTypePDF:extra-tables", "writer:WriteOpenTypeCFFPDF",
		"ximage:cmap-compared", "ximage:simple-outline-compared", "ximage:composite-outline-compared", "ximage:cff-outline-compared", "ximage:name-compared")
}
