package props

import (
	"fmt"

	"seehuhn.de/go/sfnt/glyph"
	"seehuhn.de/go/sfnt/opentype/classdef"
	"seehuhn.de/go/sfnt/opentype/coverage"
	"seehuhn.de/go/sfnt/opentype/gdef"
	"seehuhn.de/go/sfnt/opentype/gtab"

	"verif/harness/internal/gen/otlmini"
	"verif/harness/internal/mon"
)

// Lookups of one list that have the same lookup flags but different mark
// filtering sets (or attachment types), as parent and nested lookup or next
// to each other: a glyph filter must belong to (flags, set), not to the flags.
// The random lists meet this combination only by chance; here all of them
// are enumerated over an alphabet with two marks.

const (
	fA  glyph.ID = 1 // base
	fB  glyph.ID = 2 // base
	fM1 glyph.ID = 3 // mark, attachment class 1, in sets 0 and 2
	fM2 glyph.ID = 4 // mark, attachment class 2, in sets 1 and 2
	fX  glyph.ID = 5 // unclassified
	fL  glyph.ID = 6 // ligature (output)
	fY  glyph.ID = 7 // base (output)
)

func c06filterAlphabet() *otlmini.Alphabet {
	gd := &gdef.Table{
		GlyphClass:      classdef.Table{fA: gdef.GlyphClassBase, fB: gdef.GlyphClassBase, fM1: gdef.GlyphClassMark, fM2: gdef.GlyphClassMark, fL: gdef.GlyphClassLigature, fY: gdef.GlyphClassBase},
		MarkAttachClass: classdef.Table{fM1: 1, fM2: 2},
		MarkGlyphSets:   []coverage.Set{{fM1: true}, {fM2: true}, {fM1: true, fM2: true}, {}},
	}
	return &otlmini.Alphabet{In: []glyph.ID{fA, fB, fM1, fM2, fX}, Out: []glyph.ID{fL, fY}, Gdef: gd}
}

// c06filterMeta: variant 0..3 = mark filtering set 0..3; 4..6 = attachment type 1..3.
func c06filterMeta(lookupType uint16, variant int) *gtab.LookupMetaInfo {
	if variant < 4 {
		return &gtab.LookupMetaInfo{LookupType: lookupType, LookupFlags: gtab.UseMarkFilteringSet, MarkFilteringSet: uint16(variant)}
	}
	return &gtab.LookupMetaInfo{LookupType: lookupType, LookupFlags: gtab.LookupFlags(variant-3) << 8}
}

func c06filterStratum(c *mon.Ctx) {
	alpha := c06filterAlphabet()
	var seqs [][]glyph.ID
	var rec func(prefix []glyph.ID, n int)
	rec = func(prefix []glyph.ID, n int) {
		if len(prefix) == n {
			seqs = append(seqs, append([]glyph.ID(nil), prefix...))
			return
		}
		for _, g := range alpha.In {
			rec(append(prefix, g), n)
		}
	}
	for n := 1; n <= 5; n++ {
		rec(nil, n)
	}
	const nShapes = 4
	// pairs within the filtering sets (16) and within the attachment types (9)
	var pairs [][2]int
	for a := 0; a < 4; a++ {
		for b := 0; b < 4; b++ {
			pairs = append(pairs, [2]int{a, b})
		}
	}
	for a := 4; a < 7; a++ {
		for b := 4; b < 7; b++ {
			pairs = append(pairs, [2]int{a, b})
		}
	}
	c.Stratum("filter-set-pairs", len(pairs)*nShapes, func(k *mon.Case) {
		p := pairs[k.Index%len(pairs)]
		shape := k.Index / len(pairs)
		lig := func(v int) *gtab.LookupTable { // A B -> L
			return &gtab.LookupTable{Meta: c06filterMeta(4, v), Subtables: []gtab.Subtable{
				&gtab.Gsub4_1{Cov: coverage.Table{fA: 0}, Repl: [][]gtab.Ligature{{{In: []glyph.ID{fB}, Out: fL}}}}}}
		}
		single := func(v int) *gtab.LookupTable { // B -> Y
			return &gtab.LookupTable{Meta: c06filterMeta(1, v), Subtables: []gtab.Subtable{
				&gtab.Gsub1_2{Cov: coverage.Table{fB: 0}, SubstituteGlyphIDs: []glyph.ID{fY}}}}
		}
		list := &otlmini.List{}
		switch shape {
		case 0: // coverage-based context [A][B] with one filter calls the ligature with the other
			ctx := &gtab.LookupTable{Meta: c06filterMeta(5, p[0]), Subtables: []gtab.Subtable{
				&gtab.SeqContext3{Input: []coverage.Set{{fA: true}, {fB: true}}, Actions: []gtab.SeqLookup{{SequenceIndex: 0, LookupListIndex: 1}}}}}
			list.LL, list.Lookups = gtab.LookupList{ctx, lig(p[1])}, []gtab.LookupIndex{0}
		case 1: // glyph-based chained context: A followed by B (lookahead) calls a single substitution on a later position
			ctx := &gtab.LookupTable{Meta: c06filterMeta(6, p[0]), Subtables: []gtab.Subtable{
				&gtab.ChainedSeqContext1{Cov: coverage.Table{fA: 0}, Rules: [][]*gtab.ChainedSeqRule{{{Input: []glyph.ID{fB}, Lookahead: []glyph.ID{fX},
					Actions: []gtab.SeqLookup{{SequenceIndex: 1, LookupListIndex: 1}}}}}}}}
			list.LL, list.Lookups = gtab.LookupList{ctx, single(p[1])}, []gtab.LookupIndex{0}
		case 2: // two top-level lookups, one after the other
			list.LL, list.Lookups = gtab.LookupList{lig(p[0]), lig(p[1])}, []gtab.LookupIndex{0, 1}
		default: // the same, a context first (it only looks, its action does nothing new)
			ctx := &gtab.LookupTable{Meta: c06filterMeta(5, p[0]), Subtables: []gtab.Subtable{
				&gtab.SeqContext3{Input: []coverage.Set{{fA: true}, {fB: true}}, Actions: nil}}}
			list.LL, list.Lookups = gtab.LookupList{ctx, lig(p[1])}, []gtab.LookupIndex{0, 1}
		}
		desc := c06describe(list.LL, list.Lookups, alpha.Gdef)
		k.Input([]byte(desc))
		st := &c06stats{undefined: map[string]int{}}
		for _, gids := range seqs {
			if !c06check(k, st, alpha, list, gids, &desc) {
				break
			}
		}
		st.flush(k, "filter-set-pairs:")
		k.DistinctCount(len(seqs))
		kind := "same"
		if p[0] != p[1] {
			kind = "different"
		}
		k.Class(fmt.Sprintf("filter-set-pairs:shape-%d:%s", shape, kind))
		if st.changed > 0 && p[0] != p[1] {
			k.Class("filter-set-pairs:different-filters-with-effect")
		}
	})
	c.Require("filter-set-pairs:different-filters-with-effect", "filter-set-pairs:shape-0:different", "filter-set-pairs:shape-1:different", "filter-set-pairs:shape-2:different", "filter-set-pairs:shape-3:different")
}
