package props

import (
	"bytes"
	"fmt"
	"math"
	"math/rand/v2"
	"time"

	"seehuhn.de/go/postscript/funit"
	"seehuhn.de/go/sfnt/head"
	"seehuhn.de/go/sfnt/hmtx"
	"seehuhn.de/go/sfnt/maxp"
	"seehuhn.de/go/sfnt/os2"
	"seehuhn.de/go/sfnt/post"

	"verif/harness/internal/mon"
	"verif/harness/internal/ref/tabread"
)

// Table-level half of C12: hmtx/hhea, head, maxp, OS/2 and post values
// survive Encode -> Decode field by field, and the spec-derived reader
// tabread sees the same values in the emitted bytes.  Registered by the
// owner of C12 (c12tables is called next to the font-level strata).
//
// Strata (all names start with "t-"):
//
//	t-hmtx-tails   every (glyph count n <= 40, length of the constant tail), three variants each
//	t-hmtx-random  random n up to 65535, int16 extremes, empty / zero-area extents
//	t-caret        every coprime (rise, run) with |.| <= 40, the axes, random pairs up to 32767, random angles
//	t-head         all 256 combinations of the flag and macStyle bits, timestamps 1904..2200 and zero, versions
//	t-maxp         both versions, random maxima
//	t-os2          permissions, allowed selection bit combinations, code page bits, classes, signed extremes
//	t-post         the three writer formats, angles on and off the 16.16 grid
//
// Fields the property does not list (fsSelection bit 7, head flag bits 3 and
// 11..13, win ascent/descent, …) are recorded as classes, not judged.

func i16any(r *rand.Rand) funit.Int16 {
	switch r.IntN(8) {
	case 0:
		return []funit.Int16{-32768, -32767, -1, 0, 1, 32766, 32767}[r.IntN(7)]
	case 1:
		return funit.Int16(r.IntN(0x10000) - 0x8000)
	default:
		return funit.Int16(r.IntN(3001) - 1000)
	}
}

func gcd(a, b int) int {
	if a < 0 {
		a = -a
	}
	if b < 0 {
		b = -b
	}
	for b != 0 {
		a, b = b, a%b
	}
	return a
}

func c12tables(c *mon.Ctx) {
	// ------------------------------------------------------------------
	// hmtx / hhea: all (n, tail)
	type nt struct{ n, tail int }
	var pairs []nt
	for n := 1; n <= 40; n++ {
		for t := 1; t <= n; t++ {
			pairs = append(pairs, nt{n, t})
		}
	}
	c.Stratum("t-hmtx-tails", 3*len(pairs), func(k *mon.Case) {
		p := pairs[k.Index%len(pairs)]
		c12hmtx(k, p.n, p.tail, k.Index/len(pairs))
		k.Class(fmt.Sprintf("hmtx:dropped-%d", p.tail-1))
		k.DistinctCount(1)
	})
	for t := 0; t < 40; t++ {
		c.Require(fmt.Sprintf("hmtx:dropped-%d", t))
	}
	c.Stratum("t-hmtx-random", c.N(600, 60000), func(k *mon.Case) {
		r := k.Rng
		n := 1 + r.IntN(300)
		switch r.IntN(10) {
		case 0:
			n = 65535
		case 1:
			n = 1 + r.IntN(65535)
		case 2:
			n = []int{1, 2, 255, 256, 257, 32767, 32768, 65534}[r.IntN(8)]
		}
		tail := 1 + r.IntN(n)
		if r.IntN(3) == 0 {
			tail = 1 + r.IntN(4)
		}
		if tail > n {
			tail = n
		}
		c12hmtx(k, n, tail, 3+r.IntN(3))
	})
	c.Require("hmtx:lsb-from-extents", "hmtx:lsb-given", "hmtx:derived-fields-checked", "hmtx:65535-glyphs",
		"hmtx:int16-extremes", "hmtx:empty-extents", "hmtx:zero-area-extents",
		"hmtx:derived-fields-checked:advances-up-to-32767", "hmtx:derived-fields-checked:max-advance>=0x4000", "hmtx:derived-fields-checked:max-advance=32767")

	// ------------------------------------------------------------------
	// caret slope
	c.Stratum("t-caret", 81+c.N(300, 30000), func(k *mon.Case) { c12caret(k) })
	c.Require("caret:vertical", "caret:horizontal", "caret:small-coprime", "caret:large-coprime", "caret:random-angle")

	// ------------------------------------------------------------------
	c.Stratum("t-head", c.N(2048, 200000), func(k *mon.Case) { c12head(k) })
	for _, f := range []string{"y-base", "x-base", "nonlinear", "bold", "italic", "shadow", "condensed", "extended"} {
		c.Require("head:"+f+"=0", "head:"+f+"=1")
	}
	c.Require("head:time-zero", "head:time-1904", "head:time-2200", "head:time-subsecond")

	c.Stratum("t-maxp", c.N(600, 60000), func(k *mon.Case) { c12maxp(k) })
	c.Require("maxp:version-0.5", "maxp:version-1.0", "maxp:65535-glyphs", "maxp:1-glyph")

	c.Stratum("t-os2", c.N(3000, 300000), func(k *mon.Case) { c12os2(k) })
	for _, f := range []string{"bold", "italic", "regular", "oblique", "no-subsetting", "only-bitmap"} {
		c.Require("os2:"+f+"=0", "os2:"+f+"=1")
	}
	for i := 0; i < 64; i++ {
		c.Require(fmt.Sprintf("os2:codepage-bit-%d", i))
	}
	c.Require("os2:perm-install", "os2:perm-edit", "os2:perm-view", "os2:perm-restricted", "os2:heights-zero", "os2:signed-extremes",
		"os2:weight-class-outside-1..1000", "os2:width-class-outside-1..9", "os2:class-at-end-of-uint16")

	c.Stratum("t-post", c.N(1500, 150000), func(k *mon.Case) { c12post(k) })
	c.Require("post:writer-format-1", "post:writer-format-2", "post:writer-format-3", "post:angle-on-grid", "post:angle-off-grid", "post:angle-zero")
}

// ---- hmtx / hhea ----

func c12hmtx(k *mon.Case, n, tail, variant int) {
	r := k.Rng
	extreme := variant >= 3 && r.IntN(3) == 0
	// wide: advances over the whole non-negative half of the 16-bit range (where the
	// unsigned reading of the file format and the library's signed data model agree)
	// and extents of up to +-16000: the derived fields are still judged
	wide := !extreme && r.IntN(4) == 0
	width := func() funit.Int16 {
		if extreme {
			return i16any(r)
		}
		if wide {
			switch r.IntN(6) {
			case 0:
				return []funit.Int16{32767, 32766, 16384, 0x4000, 0x7F00, 0x7FFF, 0}[r.IntN(7)]
			case 1, 2:
				return funit.Int16(r.IntN(3000))
			}
			return funit.Int16(r.IntN(32768))
		}
		return funit.Int16(r.IntN(3000))
	}
	info := &hmtx.Info{
		Widths:      make([]funit.Int16, n),
		Ascent:      i16any(r),
		Descent:     i16any(r),
		LineGap:     i16any(r),
		CaretOffset: i16any(r),
	}
	w := width()
	for i := n - tail; i < n; i++ {
		info.Widths[i] = w
	}
	for i := 0; i < n-tail; i++ {
		info.Widths[i] = width()
		// a run of equal widths in the middle is fine, but the tail must
		// have exactly the requested length
		for i == n-tail-1 && info.Widths[i] == w {
			info.Widths[i] = width()
		}
	}
	derived := false
	cls := map[string]bool{}
	lsb := make([]funit.Int16, n)
	switch variant % 3 {
	case 0: // side bearings given, no extents
		for i := range lsb {
			lsb[i] = i16any(r)
		}
		info.LSB = lsb
		k.Class("hmtx:lsb-given")
	case 1: // side bearings taken from the extents; moderate values: derived fields are checked
		info.GlyphExtents = make([]funit.Rect16, n)
		for i := range info.GlyphExtents {
			if r.IntN(4) == 0 {
				cls["hmtx:empty-extents"] = true
				continue // empty glyph
			}
			x0 := funit.Int16(r.IntN(1200) - 400)
			y0 := funit.Int16(r.IntN(1200) - 400)
			info.GlyphExtents[i] = funit.Rect16{LLx: x0, LLy: y0, URx: x0 + funit.Int16(1+r.IntN(1500)), URy: y0 + funit.Int16(1+r.IntN(1500))}
			if wide && r.IntN(2) == 0 {
				x0 = funit.Int16(r.IntN(32000) - 16000)
				y0 = funit.Int16(r.IntN(32000) - 16000)
				info.GlyphExtents[i] = funit.Rect16{LLx: x0, LLy: y0, URx: x0 + funit.Int16(1+r.IntN(16000)), URy: y0 + funit.Int16(1+r.IntN(16000))}
			}
			lsb[i] = x0
		}
		derived = !extreme
		k.Class("hmtx:lsb-from-extents")
	case 2: // both given; zero-area and extreme extents
		info.GlyphExtents = make([]funit.Rect16, n)
		for i := range info.GlyphExtents {
			switch r.IntN(4) {
			case 0:
				cls["hmtx:empty-extents"] = true
			case 1:
				x, y := i16any(r), i16any(r)
				info.GlyphExtents[i] = funit.Rect16{LLx: x, LLy: y, URx: x, URy: y}
				cls["hmtx:zero-area-extents"] = true
			default:
				info.GlyphExtents[i] = funit.Rect16{LLx: i16any(r), LLy: i16any(r), URx: i16any(r), URy: i16any(r)}
			}
			lsb[i] = i16any(r)
		}
		info.LSB = lsb
		k.Class("hmtx:lsb-given")
	}
	for name := range cls {
		k.Class(name)
	}
	if extreme {
		k.Class("hmtx:int16-extremes")
	}
	if n == 65535 {
		k.Class("hmtx:65535-glyphs")
	}

	var hheaData, hmtxData []byte
	if k.Guard("hmtx.Info.Encode", func() { hheaData, hmtxData = info.Encode() }) {
		return
	}
	k.Input(append(append([]byte{}, hheaData...), hmtxData...))

	// the bytes
	hh, err := tabread.ReadHhea(hheaData)
	k.Eval()
	if err != nil {
		k.Fail("mismatch", "hhea:independent-reader-rejects", "%v", err)
		return
	}
	if hh.MajorVersion != 1 || hh.MinorVersion != 0 || hh.MetricDataFormat != 0 || hh.Reserved != [4]int16{} {
		k.Fail("mismatch", "hhea:constant-fields", "version %d.%d, metricDataFormat %d, reserved %v", hh.MajorVersion, hh.MinorVersion, hh.MetricDataFormat, hh.Reserved)
	}
	if hh.Ascender != int16(info.Ascent) || hh.Descender != int16(info.Descent) || hh.LineGap != int16(info.LineGap) || hh.CaretOffset != int16(info.CaretOffset) {
		k.Fail("mismatch", "hhea:fields-in-bytes", "ascender %d descender %d lineGap %d caretOffset %d in the bytes, info has %d %d %d %d",
			hh.Ascender, hh.Descender, hh.LineGap, hh.CaretOffset, info.Ascent, info.Descent, info.LineGap, info.CaretOffset)
	}
	nhm := int(hh.NumberOfHMetrics)
	hm, err := tabread.ReadHmtx(hmtxData, n, nhm)
	if err != nil {
		k.Fail("mismatch", "hmtx:independent-reader-rejects", "n=%d numberOfHMetrics=%d: %v", n, nhm, err)
		return
	}
	for i := 0; i < n; i++ {
		if hm.Advance[i] != uint16(info.Widths[i]) {
			k.Fail("mismatch", "hmtx:advance-in-bytes", "n=%d tail=%d numberOfHMetrics=%d: glyph %d has advance %d in the bytes, %d in the info", n, tail, nhm, i, hm.Advance[i], uint16(info.Widths[i]))
			break
		}
		if hm.LSB[i] != int16(lsb[i]) {
			k.Fail("mismatch", "hmtx:lsb-in-bytes", "n=%d tail=%d numberOfHMetrics=%d: glyph %d has lsb %d in the bytes, expected %d", n, tail, nhm, i, hm.LSB[i], lsb[i])
			break
		}
	}
	if nhm == n-tail+1 {
		k.Class("hmtx:compression-shortest")
	} else {
		k.Class("hmtx:compression-legal-not-shortest")
	}
	if derived {
		var maxAdv uint16
		first := true
		var minL, minR, maxExt int
		for i := 0; i < n; i++ {
			if uint16(info.Widths[i]) > maxAdv {
				maxAdv = uint16(info.Widths[i])
			}
			e := info.GlyphExtents[i]
			if e == (funit.Rect16{}) {
				continue
			}
			l := int(lsb[i])
			ext := l + int(e.URx) - int(e.LLx)
			rsb := int(info.Widths[i]) - ext
			if first || l < minL {
				minL = l
			}
			if first || rsb < minR {
				minR = rsb
			}
			if first || ext > maxExt {
				maxExt = ext
			}
			first = false
		}
		if hh.AdvanceWidthMax != maxAdv {
			k.Fail("mismatch", "hhea:advanceWidthMax", "advanceWidthMax %d, maximum of the widths %d", hh.AdvanceWidthMax, maxAdv)
		}
		if !first && (minR > 32767 || minR < -32768) {
			// the smallest right side bearing is not an int16: the field cannot hold the definition's value
			k.Class("hmtx:min-rsb-outside-int16-not-judged")
			minR = int(hh.MinRightSideBearing)
		}
		if !first && (int(hh.MinLeftSideBearing) != minL || int(hh.MinRightSideBearing) != minR || int(hh.XMaxExtent) != maxExt) {
			k.Fail("mismatch", "hhea:derived-bearings", "minLSB %d minRSB %d xMaxExtent %d in the bytes, definitions give %d %d %d (over non-empty glyphs)",
				hh.MinLeftSideBearing, hh.MinRightSideBearing, hh.XMaxExtent, minL, minR, maxExt)
		}
		k.Eval()
		k.Class("hmtx:derived-fields-checked")
		if wide && !k.Failed() {
			k.Class("hmtx:derived-fields-checked:advances-up-to-32767")
			if maxAdv >= 0x4000 {
				k.Class("hmtx:derived-fields-checked:max-advance>=0x4000")
			}
			if maxAdv == 32767 {
				k.Class("hmtx:derived-fields-checked:max-advance=32767")
			}
		}
	} else if info.Widths != nil {
		// advances of 0x8000 and more: the file format reads them as unsigned
		// numbers, the library's data model (funit.Int16) as negative ones; which
		// maximum the writer stores is recorded, not judged (see the Assumptions of C12 in c12.go)
		neg := false
		var maxU uint16
		maxS := 0
		for _, w := range info.Widths {
			neg = neg || w < 0
			maxU = max(maxU, uint16(w))
			maxS = max(maxS, int(w))
		}
		if neg {
			switch {
			case hh.AdvanceWidthMax == maxU:
				k.Class("hmtx:advance>=0x8000:advanceWidthMax=unsigned-maximum")
			case int(hh.AdvanceWidthMax) == maxS:
				k.Class("hmtx:advance>=0x8000:advanceWidthMax=maximum-of-the-non-negative-int16-values")
			default:
				k.Class("hmtx:advance>=0x8000:advanceWidthMax=other")
			}
		}
	}

	// the library's decoder
	var dec *hmtx.Info
	if k.Guard("hmtx.Decode", func() { dec, err = hmtx.Decode(hheaData, hmtxData) }) {
		return
	}
	k.Eval()
	if err != nil {
		k.Fail("mismatch", "hmtx:decode-rejects-own-output", "%v", err)
		return
	}
	if len(dec.Widths) != n || len(dec.LSB) != n {
		k.Fail("mismatch", "hmtx:roundtrip-count", "n=%d tail=%d: %d widths and %d side bearings come back", n, tail, len(dec.Widths), len(dec.LSB))
		return
	}
	for i := 0; i < n; i++ {
		if dec.Widths[i] != info.Widths[i] {
			k.Fail("mismatch", "hmtx:roundtrip-width", "n=%d tail=%d numberOfHMetrics=%d: width %d is %d, was %d", n, tail, nhm, i, dec.Widths[i], info.Widths[i])
			break
		}
		if dec.LSB[i] != lsb[i] {
			k.Fail("mismatch", "hmtx:roundtrip-lsb", "n=%d tail=%d: lsb %d is %d, was %d", n, tail, i, dec.LSB[i], lsb[i])
			break
		}
	}
	if dec.Ascent != info.Ascent || dec.Descent != info.Descent || dec.LineGap != info.LineGap || dec.CaretOffset != info.CaretOffset {
		k.Fail("mismatch", "hhea:roundtrip-fields", "ascent/descent/lineGap/caretOffset %d %d %d %d, were %d %d %d %d",
			dec.Ascent, dec.Descent, dec.LineGap, dec.CaretOffset, info.Ascent, info.Descent, info.LineGap, info.CaretOffset)
	}
	if dec.CaretAngle != 0 || hh.CaretSlopeRun != 0 || hh.CaretSlopeRise <= 0 {
		k.Fail("mismatch", "hhea:caret-vertical", "angle 0 (vertical) becomes rise %d run %d, angle %v", hh.CaretSlopeRise, hh.CaretSlopeRun, dec.CaretAngle)
	}
	if k.Index < 2 {
		k.Sample(map[string]any{"n": n, "tail": tail, "numberOfHMetrics": nhm})
	}
}

// ---- caret slope ----

// c12hhea returns hhea bytes with the given slope.
func c12hhea(rise, run int16) []byte {
	b := make([]byte, 36)
	b[1] = 1 // version 1.0
	b[18], b[19] = byte(uint16(rise)>>8), byte(rise)
	b[20], b[21] = byte(uint16(run)>>8), byte(run)
	return b
}

// c12slope runs one slope through Decode -> Encode and compares.
func c12slope(k *mon.Case, rise, run int16) {
	var dec *hmtx.Info
	var err error
	in := c12hhea(rise, run)
	if k.Guard("hmtx.Decode", func() { dec, err = hmtx.Decode(in, nil) }) {
		return
	}
	if err != nil {
		k.Fail("mismatch", "hhea:decode-rejects-well-formed", "%v", err)
		return
	}
	// the documented convention: radians, 0 = vertical
	want := math.Atan2(float64(rise), float64(run)) - math.Pi/2
	if d := math.Abs(dec.CaretAngle - want); d > 1e-9 && math.Abs(d-2*math.Pi) > 1e-9 {
		k.Fail("mismatch", "hhea:caret-angle-decoded", "slope %d/%d decodes to angle %v, expected %v", rise, run, dec.CaretAngle, want)
		return
	}
	var out []byte
	if k.Guard("hmtx.Info.Encode", func() { out, _ = dec.Encode() }) {
		return
	}
	hh, err := tabread.ReadHhea(out)
	if err != nil {
		k.Fail("mismatch", "hhea:independent-reader-rejects", "%v", err)
		return
	}
	k.Eval()
	r2, n2 := int(hh.CaretSlopeRise), int(hh.CaretSlopeRun)
	// same slope: proportional pairs
	if r2 == 0 && n2 == 0 || int(rise)*n2 != int(run)*r2 {
		k.Fail("mismatch", "hhea:caret-slope", "slope %d/%d comes back as %d/%d", rise, run, r2, n2)
		return
	}
	if int(rise)*r2 < 0 || int(run)*n2 < 0 {
		k.Class("caret:direction-reversed") // same slope, opposite direction: recorded only
	}
	if gcd(r2, n2) != 1 {
		k.Class("caret:not-in-lowest-terms")
	}
}

func c12caret(k *mon.Case) {
	r := k.Rng
	if k.Index < 81 {
		rise := k.Index - 40
		cnt := 0
		for run := -40; run <= 40; run++ {
			if gcd(rise, run) != 1 {
				continue
			}
			c12slope(k, int16(rise), int16(run))
			cnt++
			switch {
			case run == 0:
				k.Class("caret:vertical")
			case rise == 0:
				k.Class("caret:horizontal")
			default:
				k.Class("caret:small-coprime")
			}
		}
		k.DistinctCount(cnt)
		return
	}
	if k.Index%2 == 0 {
		for i := 0; i < 40; i++ {
			rise, run := r.IntN(65535)-32767, r.IntN(65535)-32767
			switch r.IntN(6) {
			case 0:
				rise = []int{32767, -32767, 32766, 1, -1}[r.IntN(5)]
			case 1:
				run = []int{32767, -32767, 32766, 1, -1}[r.IntN(5)]
			case 2: // a typical italic slope
				rise, run = 1000+r.IntN(31000), r.IntN(600)
			}
			if g := gcd(rise, run); g != 1 {
				if g == 0 {
					continue
				}
				rise, run = rise/g, run/g
			}
			c12slope(k, int16(rise), int16(run))
			k.Class("caret:large-coprime")
			k.Distinct(rise, run)
		}
		return
	}
	// arbitrary angles: the slope is approximated, and the approximation is
	// a fixed point of a second round trip
	for i := 0; i < 20; i++ {
		a := (r.Float64()*2 - 1) * math.Pi
		if r.IntN(2) == 0 {
			a = (r.Float64()*2 - 1) * 0.5 // up to about 28 degrees
		}
		info := &hmtx.Info{CaretAngle: a}
		var b1, b2 []byte
		var dec *hmtx.Info
		var err error
		if k.Guard("hmtx caret", func() {
			b1, _ = info.Encode()
			dec, err = hmtx.Decode(b1, nil)
			if err == nil {
				b2, _ = dec.Encode()
			}
		}) {
			return
		}
		if err != nil {
			k.Fail("mismatch", "hmtx:decode-rejects-own-output", "%v", err)
			return
		}
		k.Eval()
		d := math.Abs(dec.CaretAngle - a)
		if d > math.Pi {
			d = math.Abs(d - 2*math.Pi)
		}
		// The property speaks of the caret *slope*: a line, not a
		// direction.  For angles up to 1.5 rad (86 degrees) from the
		// vertical the angle itself has to come back; closer to the
		// horizontal, where rise is (almost) 0 and its sign carries no
		// information, only the slope is compared.
		if math.Abs(a) > 1.5 && d > math.Pi/2 {
			d = math.Pi - d
			k.Class("caret:direction-reversed-near-horizontal")
		}
		// a best approximation with 16-bit rise and run is within 1/(2*32767) rad
		if d > 1e-4 {
			k.Fail("mismatch", "hhea:caret-angle-roundtrip", "angle %v comes back as %v", a, dec.CaretAngle)
			return
		}
		h1, _ := tabread.ReadHhea(b1)
		h2, _ := tabread.ReadHhea(b2)
		if h1 == nil || h2 == nil || int(h1.CaretSlopeRise)*int(h2.CaretSlopeRun) != int(h1.CaretSlopeRun)*int(h2.CaretSlopeRise) {
			k.Fail("mismatch", "hhea:caret-not-fixed-point", "angle %v: slope %d/%d, after a second round trip %d/%d", a, h1.CaretSlopeRise, h1.CaretSlopeRun, h2.CaretSlopeRise, h2.CaretSlopeRun)
			return
		}
		k.Max("caret:angle-error", d)
		k.Class("caret:random-angle")
		k.Distinct(a)
	}
}

// ---- head ----

func c12head(k *mon.Case) {
	r := k.Rng
	bits := k.Index % 256
	b := func(i int) bool { return bits&(1<<i) != 0 }
	info := &head.Info{
		HasYBaseAt0: b(0), HasXBaseAt0: b(1), IsNonlinear: b(2),
		IsBold: b(3), IsItalic: b(4), HasShadow: b(5), IsCondensed: b(6), IsExtended: b(7),
		FontRevision:  head.Version(r.Uint32()),
		UnitsPerEm:    uint16(16 + r.IntN(16384-15)),
		LowestRecPPEM: uint16(r.IntN(0x10000)),
		LocaFormat:    int16(r.IntN(2)),
		FontBBox:      funit.Rect16{LLx: i16any(r), LLy: i16any(r), URx: i16any(r), URy: i16any(r)},
	}
	switch r.IntN(6) {
	case 0:
		info.FontRevision = []head.Version{0, 0x00010000, 0x00018000, 0xFFFFFFFF, 0x00000001}[r.IntN(5)]
	case 1:
		info.UnitsPerEm = []uint16{16, 1000, 2048, 16384, 1, 65535}[r.IntN(6)]
	}
	const y1904, y2200 = tabread.Epoch1904, 7258118400 // 2200-01-01T00:00:00Z
	tm := func() (time.Time, string) {
		switch r.IntN(8) {
		case 0:
			return time.Time{}, "head:time-zero"
		case 1:
			return time.Unix(y1904+1+int64(r.IntN(366*86400)), 0), "head:time-1904"
		case 2:
			return time.Unix(y2200-1-int64(r.IntN(366*86400)), 0), "head:time-2200"
		case 3:
			return time.Unix(y1904+1+r.Int64N(y2200-y1904-1), int64(r.IntN(1e9))), "head:time-subsecond"
		case 4:
			return time.Unix(y1904+1+r.Int64N(y2200-y1904-1), 0).UTC(), "head:time-utc"
		case 5:
			return time.Unix(y1904+1+r.Int64N(y2200-y1904-1), 0).In(time.FixedZone("x", (r.IntN(27)-12)*3600)), "head:time-zone"
		default:
			return time.Unix(y1904+1+r.Int64N(y2200-y1904-1), 0), "head:time-random"
		}
	}
	var c1, c2 string
	info.Created, c1 = tm()
	info.Modified, c2 = tm()

	var enc []byte
	if k.Guard("head.Info.Encode", func() { enc = info.Encode() }) {
		return
	}
	k.Input(enc)
	h, err := tabread.ReadHead(enc)
	k.Eval()
	if err != nil {
		k.Fail("mismatch", "head:independent-reader-rejects", "%v", err)
		return
	}
	if h.MajorVersion != 1 || h.MinorVersion != 0 || h.GlyphDataFormat != 0 {
		k.Fail("mismatch", "head:constant-fields", "version %d.%d glyphDataFormat %d", h.MajorVersion, h.MinorVersion, h.GlyphDataFormat)
	}
	fl := h.Flags
	if (fl&1 != 0) != info.HasYBaseAt0 || (fl&2 != 0) != info.HasXBaseAt0 || (fl&(4|16) != 0) != info.IsNonlinear {
		k.Fail("mismatch", "head:flags-in-bytes", "flags %#04x for y-base %v x-base %v nonlinear %v", fl, info.HasYBaseAt0, info.HasXBaseAt0, info.IsNonlinear)
	}
	ms := h.MacStyle
	if (ms&1 != 0) != info.IsBold || (ms&2 != 0) != info.IsItalic || (ms&16 != 0) != info.HasShadow || (ms&32 != 0) != info.IsCondensed || (ms&64 != 0) != info.IsExtended {
		k.Fail("mismatch", "head:macstyle-in-bytes", "macStyle %#04x for bold %v italic %v shadow %v condensed %v extended %v", ms, info.IsBold, info.IsItalic, info.HasShadow, info.IsCondensed, info.IsExtended)
	}
	if ms&^0x73 != 0 {
		k.Class("head:macstyle-other-bits")
	}
	if h.FontRevision != uint32(info.FontRevision) || h.UnitsPerEm != info.UnitsPerEm || h.LowestRecPPEM != info.LowestRecPPEM || h.IndexToLocFormat != info.LocaFormat {
		k.Fail("mismatch", "head:fields-in-bytes", "revision %#x upm %d ppem %d loca %d in the bytes, info %#x %d %d %d", h.FontRevision, h.UnitsPerEm, h.LowestRecPPEM, h.IndexToLocFormat, uint32(info.FontRevision), info.UnitsPerEm, info.LowestRecPPEM, info.LocaFormat)
	}
	if h.XMin != int16(info.FontBBox.LLx) || h.YMin != int16(info.FontBBox.LLy) || h.XMax != int16(info.FontBBox.URx) || h.YMax != int16(info.FontBBox.URy) {
		k.Fail("mismatch", "head:bbox-in-bytes", "bbox %d %d %d %d in the bytes, info %v", h.XMin, h.YMin, h.XMax, h.YMax, info.FontBBox)
	}
	chkTime := func(what string, t time.Time, raw int64) {
		if t.IsZero() {
			if raw != 0 {
				k.Fail("mismatch", "head:time-in-bytes", "%s: zero time written as %d", what, raw)
			}
			return
		}
		if raw+tabread.Epoch1904 != t.Unix() {
			k.Fail("mismatch", "head:time-in-bytes", "%s: %v (unix %d) written as %d s after 1904 (unix %d)", what, t, t.Unix(), raw, raw+tabread.Epoch1904)
		}
	}
	chkTime("created", info.Created, h.Created)
	chkTime("modified", info.Modified, h.Modified)

	var dec *head.Info
	if k.Guard("head.Read", func() { dec, err = head.Read(bytes.NewReader(enc)) }) {
		return
	}
	k.Eval()
	if err != nil {
		k.Fail("mismatch", "head:read-rejects-own-output", "%v", err)
		return
	}
	sameTime := func(a, b time.Time) bool {
		if a.IsZero() || b.IsZero() {
			return a.IsZero() && b.IsZero()
		}
		return a.Unix() == b.Unix()
	}
	if !sameTime(dec.Created, info.Created) || !sameTime(dec.Modified, info.Modified) {
		k.Fail("mismatch", "head:roundtrip-time", "created %v modified %v come back as %v %v", info.Created, info.Modified, dec.Created, dec.Modified)
	}
	d, s := *dec, *info
	d.Created, d.Modified, s.Created, s.Modified = time.Time{}, time.Time{}, time.Time{}, time.Time{}
	if d != s {
		k.Fail("mismatch", "head:roundtrip-fields", "%+v comes back as %+v", s, d)
	}
	for i, f := range []string{"y-base", "x-base", "nonlinear", "bold", "italic", "shadow", "condensed", "extended"} {
		v := 0
		if b(i) {
			v = 1
		}
		k.Class(fmt.Sprintf("head:%s=%d", f, v))
	}
	k.Class(c1)
	k.Class(c2)
	k.DistinctBytes(enc)
}

// ---- maxp ----

func c12maxp(k *mon.Case) {
	r := k.Rng
	info := &maxp.Info{NumGlyphs: 1 + r.IntN(65535)}
	switch r.IntN(8) {
	case 0:
		info.NumGlyphs = 1
		k.Class("maxp:1-glyph")
	case 1:
		info.NumGlyphs = 65535
		k.Class("maxp:65535-glyphs")
	case 2:
		info.NumGlyphs = 1 + r.IntN(300)
	}
	var want [13]uint16
	if r.IntN(3) != 0 {
		for i := range want {
			switch r.IntN(5) {
			case 0:
				want[i] = 0
			case 1:
				want[i] = 0xFFFF
			default:
				want[i] = uint16(r.IntN(0x10000))
			}
		}
		info.TTF = &maxp.TTFInfo{
			MaxPoints: want[0], MaxContours: want[1], MaxCompositePoints: want[2], MaxCompositeContours: want[3],
			MaxZones: want[4], MaxTwilightPoints: want[5], MaxStorage: want[6], MaxFunctionDefs: want[7],
			MaxInstructionDefs: want[8], MaxStackElements: want[9], MaxSizeOfInstructions: want[10],
			MaxComponentElements: want[11], MaxComponentDepth: want[12],
		}
	}
	var enc []byte
	if k.Guard("maxp.Info.Encode", func() { enc = info.Encode() }) {
		return
	}
	k.Input(enc)
	m, err := tabread.ReadMaxp(enc)
	k.Eval()
	if err != nil {
		k.Fail("mismatch", "maxp:independent-reader-rejects", "%v", err)
		return
	}
	if int(m.NumGlyphs) != info.NumGlyphs || (m.Version == 0x00010000) != (info.TTF != nil) || m.V1 != want {
		k.Fail("mismatch", "maxp:fields-in-bytes", "version %#x numGlyphs %d maxima %v in the bytes; info %d %v", m.Version, m.NumGlyphs, m.V1, info.NumGlyphs, want)
	}
	var dec *maxp.Info
	if k.Guard("maxp.Read", func() { dec, err = maxp.Read(bytes.NewReader(enc)) }) {
		return
	}
	k.Eval()
	if err != nil {
		k.Fail("mismatch", "maxp:read-rejects-own-output", "%v", err)
		return
	}
	if dec.NumGlyphs != info.NumGlyphs || (dec.TTF == nil) != (info.TTF == nil) || (dec.TTF != nil && *dec.TTF != *info.TTF) {
		k.Fail("mismatch", "maxp:roundtrip", "%+v %+v comes back as %+v %+v", info, info.TTF, dec, dec.TTF)
	}
	if info.TTF == nil {
		k.Class("maxp:version-0.5")
	} else {
		k.Class("maxp:version-1.0")
	}
	k.DistinctBytes(enc)
}

// ---- OS/2 ----

func c12os2(k *mon.Case) {
	r := k.Rng
	info := &os2.Info{
		WeightClass: os2.Weight(1 + r.IntN(1000)),
		WidthClass:  os2.Width(1 + r.IntN(9)),

		FirstCharIndex: uint16(r.IntN(0x10000)),
		LastCharIndex:  uint16(r.IntN(0x10000)),

		Ascent: i16any(r), Descent: i16any(r), WinAscent: i16any(r), WinDescent: i16any(r), LineGap: i16any(r),
		AvgGlyphWidth:  i16any(r),
		SubscriptXSize: i16any(r), SubscriptYSize: i16any(r), SubscriptXOffset: i16any(r), SubscriptYOffset: i16any(r),
		SuperscriptXSize: i16any(r), SuperscriptYSize: i16any(r), SuperscriptXOffset: i16any(r), SuperscriptYOffset: i16any(r),
		StrikeoutSize: i16any(r), StrikeoutPosition: i16any(r),
		FamilyClass: int16(i16any(r)),

		PermUse:          os2.Permissions(k.Index % 4),
		PermNoSubsetting: k.Index/4%2 == 1,
		PermOnlyBitmap:   k.Index/8%2 == 1,
	}
	if r.IntN(4) == 0 {
		info.WeightClass = []os2.Weight{1, 100, 400, 700, 900, 1000}[r.IntN(6)]
	}
	// the classes are 16-bit fields; values outside the ranges the specification
	// names (weight 1..1000, width 1..9) are in field range and must survive as they are
	classExtreme := false
	switch r.IntN(12) {
	case 0:
		info.WeightClass = []os2.Weight{0, 1001, 1023, 1024, 32767, 32768, 65534, 65535}[r.IntN(8)]
		classExtreme = true
	case 1:
		info.WeightClass = os2.Weight(r.IntN(0x10000))
		classExtreme = info.WeightClass == 0 || info.WeightClass > 1000
	}
	switch r.IntN(12) {
	case 0:
		info.WidthClass = []os2.Width{0, 10, 255, 256, 32767, 32768, 65534, 65535}[r.IntN(8)]
		classExtreme = true
	case 1:
		info.WidthClass = os2.Width(r.IntN(0x10000))
		classExtreme = classExtreme || info.WidthClass == 0 || info.WidthClass > 9
	}
	if r.IntN(8) == 0 {
		info.LastCharIndex = 0xFFFF
	}
	// selection bits: regular excludes bold and italic
	switch sel := k.Index / 16 % 5; sel {
	case 0:
		info.IsRegular = true
	default:
		info.IsBold = (sel-1)&1 != 0
		info.IsItalic = (sel-1)&2 != 0
	}
	info.IsOblique = k.Index/80%2 == 1
	// heights: zero or positive
	switch r.IntN(4) {
	case 0:
		k.Class("os2:heights-zero")
	case 1:
		info.XHeight, info.CapHeight = 32767, 1
	default:
		info.XHeight, info.CapHeight = funit.Int16(1+r.IntN(2000)), funit.Int16(1+r.IntN(2000))
	}
	for i := range info.Panose {
		info.Panose[i] = byte(r.Uint32())
	}
	info.Vendor = string([]byte{byte(0x20 + r.IntN(0x5F)), byte(0x20 + r.IntN(0x5F)), byte(0x20 + r.IntN(0x5F)), byte(0x20 + r.IntN(0x5F))})
	for i := range info.UnicodeRange {
		info.UnicodeRange[i] = r.Uint32()
	}
	// bit 57 ("non-plane 0") is derived from the last character index
	info.UnicodeRange.Bool(57, info.LastCharIndex == 0xFFFF)
	// code pages: single bits, random words
	switch r.IntN(3) {
	case 0:
		info.CodePageRange = 1 << uint(k.Index%64)
	case 1:
		info.CodePageRange = os2.CodePageRange(r.Uint64())
	case 2:
		info.CodePageRange = os2.CodePageRange(r.Uint64()) | 1<<uint(k.Index%64)
	}

	var enc []byte
	if k.Guard("os2.Info.Encode", func() { enc = info.Encode() }) {
		return
	}
	k.Input(enc)
	o, err := tabread.ReadOS2(enc)
	k.Eval()
	if err != nil {
		k.Fail("mismatch", "os2:independent-reader-rejects", "%v", err)
		return
	}
	if o.Version < 2 {
		k.Fail("mismatch", "os2:version", "version %d cannot hold code pages and heights", o.Version)
		return
	}
	// permissions: bits 1..3 are exclusive, bit 8 no subsetting, bit 9 bitmap only
	wantType := map[os2.Permissions]uint16{os2.PermInstall: 0, os2.PermRestricted: 2, os2.PermView: 4, os2.PermEdit: 8}[info.PermUse]
	if info.PermNoSubsetting {
		wantType |= 0x100
	}
	if info.PermOnlyBitmap {
		wantType |= 0x200
	}
	if o.FsType != wantType {
		k.Fail("mismatch", "os2:fstype-in-bytes", "fsType %#04x for %v no-subsetting %v only-bitmap %v (want %#04x)", o.FsType, info.PermUse, info.PermNoSubsetting, info.PermOnlyBitmap, wantType)
	}
	sel := o.FsSelection
	if (sel&1 != 0) != info.IsItalic || (sel&0x20 != 0) != info.IsBold || (sel&0x40 != 0) != info.IsRegular || (sel&0x200 != 0) != info.IsOblique {
		k.Fail("mismatch", "os2:fsselection-in-bytes", "fsSelection %#04x for italic %v bold %v regular %v oblique %v", sel, info.IsItalic, info.IsBold, info.IsRegular, info.IsOblique)
	}
	if sel&0x80 != 0 {
		k.Class("os2:use-typo-metrics-set")
	}
	if o.CodePageBits() != uint64(info.CodePageRange) {
		k.Fail("mismatch", "os2:codepages-in-bytes", "code page words %#08x %#08x for %#016x", o.CodePageRange[0], o.CodePageRange[1], uint64(info.CodePageRange))
	}
	if o.WeightClass != uint16(info.WeightClass) || o.WidthClass != uint16(info.WidthClass) {
		k.Fail("mismatch", "os2:classes-in-bytes", "weight %d width %d in the bytes, info %d %d", o.WeightClass, o.WidthClass, info.WeightClass, info.WidthClass)
	}
	if o.TypoAscender != int16(info.Ascent) || o.TypoDescender != int16(info.Descent) || o.TypoLineGap != int16(info.LineGap) {
		k.Fail("mismatch", "os2:typo-metrics-in-bytes", "typo %d %d %d in the bytes, info %d %d %d", o.TypoAscender, o.TypoDescender, o.TypoLineGap, info.Ascent, info.Descent, info.LineGap)
	}
	if o.XHeight != int16(info.XHeight) || o.CapHeight != int16(info.CapHeight) {
		k.Fail("mismatch", "os2:heights-in-bytes", "heights %d %d in the bytes, info %d %d", o.XHeight, o.CapHeight, info.XHeight, info.CapHeight)
	}
	if o.XAvgCharWidth != int16(info.AvgGlyphWidth) || o.FirstCharIndex != info.FirstCharIndex || o.LastCharIndex != info.LastCharIndex ||
		o.YStrikeoutSize != int16(info.StrikeoutSize) || o.YStrikeoutPosition != int16(info.StrikeoutPosition) ||
		o.YSubscriptXSize != int16(info.SubscriptXSize) || o.YSubscriptYSize != int16(info.SubscriptYSize) ||
		o.YSubscriptXOffset != int16(info.SubscriptXOffset) || o.YSubscriptYOffset != int16(info.SubscriptYOffset) ||
		o.YSuperscriptXSize != int16(info.SuperscriptXSize) || o.YSuperscriptYSize != int16(info.SuperscriptYSize) ||
		o.YSuperscriptXOffset != int16(info.SuperscriptXOffset) || o.YSuperscriptYOffset != int16(info.SuperscriptYOffset) ||
		o.FamilyClass != info.FamilyClass || o.Panose != info.Panose || string(o.VendID[:]) != info.Vendor ||
		o.WinAscent != uint16(info.WinAscent) || o.WinDescent != uint16(info.WinDescent) {
		k.Fail("mismatch", "os2:other-fields-in-bytes", "independent reader %+v, info %+v", *o, *info)
	}
	ur := [4]uint32(info.UnicodeRange)
	if o.UnicodeRange != ur {
		k.Fail("mismatch", "os2:unicode-range-in-bytes", "%08x in the bytes, info %08x", o.UnicodeRange, ur)
	}

	var dec *os2.Info
	if k.Guard("os2.Read", func() { dec, err = os2.Read(bytes.NewReader(enc)) }) {
		return
	}
	k.Eval()
	if err != nil {
		k.Fail("mismatch", "os2:read-rejects-own-output", "%v", err)
		return
	}
	if *dec != *info {
		w := "os2:roundtrip"
		switch {
		case dec.PermUse != info.PermUse || dec.PermNoSubsetting != info.PermNoSubsetting || dec.PermOnlyBitmap != info.PermOnlyBitmap:
			w = "os2:roundtrip-permissions"
		case dec.IsBold != info.IsBold || dec.IsItalic != info.IsItalic || dec.IsRegular != info.IsRegular || dec.IsOblique != info.IsOblique:
			w = "os2:roundtrip-selection"
		case dec.CodePageRange != info.CodePageRange:
			w = "os2:roundtrip-codepages"
		case dec.XHeight != info.XHeight || dec.CapHeight != info.CapHeight:
			w = "os2:roundtrip-heights"
		}
		k.Fail("mismatch", w, "%+v comes back as %+v", *info, *dec)
	}
	bit := func(name string, v bool) {
		if v {
			k.Class("os2:" + name + "=1")
		} else {
			k.Class("os2:" + name + "=0")
		}
	}
	bit("bold", info.IsBold)
	bit("italic", info.IsItalic)
	bit("regular", info.IsRegular)
	bit("oblique", info.IsOblique)
	bit("no-subsetting", info.PermNoSubsetting)
	bit("only-bitmap", info.PermOnlyBitmap)
	k.Class(map[os2.Permissions]string{os2.PermInstall: "os2:perm-install", os2.PermEdit: "os2:perm-edit", os2.PermView: "os2:perm-view", os2.PermRestricted: "os2:perm-restricted"}[info.PermUse])
	for i := 0; i < 64; i++ {
		if info.CodePageRange&(1<<uint(i)) != 0 {
			k.Class(fmt.Sprintf("os2:codepage-bit-%d", i))
		}
	}
	if classExtreme && !k.Failed() {
		if info.WeightClass == 0 || info.WeightClass > 1000 {
			k.Class("os2:weight-class-outside-1..1000")
		}
		if info.WidthClass == 0 || info.WidthClass > 9 {
			k.Class("os2:width-class-outside-1..9")
		}
		if info.WeightClass == 0xFFFF || info.WidthClass == 0xFFFF || info.WeightClass == 0 || info.WidthClass == 0 {
			k.Class("os2:class-at-end-of-uint16")
		}
	}
	if info.Ascent == 32767 || info.Descent == -32768 || info.LineGap == -32768 || info.AvgGlyphWidth == -32768 || info.StrikeoutPosition == -32768 {
		k.Class("os2:signed-extremes")
	}
	k.DistinctBytes(enc)
}

// ---- post ----

func c12post(k *mon.Case) {
	r := k.Rng
	info := &post.Info{
		UnderlinePosition:  i16any(r),
		UnderlineThickness: i16any(r),
		IsFixedPitch:       r.IntN(2) == 0,
	}
	onGrid := true
	switch r.IntN(8) {
	case 0:
		k.Class("post:angle-zero")
	case 1, 2:
		info.ItalicAngle = float64(r.IntN(2*90*65536+1)-90*65536) / 65536
	case 3:
		info.ItalicAngle = []float64{-12, 12, -9.5, 0.25, -90, 90, 180, -180, 1.0 / 65536, -1.0 / 65536, 32767, -32768}[r.IntN(12)]
	case 4:
		info.ItalicAngle = float64(int32(r.Uint32())) / 65536 // anything the field can hold
	default:
		info.ItalicAngle = (r.Float64()*2 - 1) * 45
		onGrid = info.ItalicAngle*65536 == math.Trunc(info.ItalicAngle*65536)
	}
	switch k.Index % 3 {
	case 0:
		info.Names = nil
		k.Class("post:writer-format-3")
	case 1:
		info.Names = append([]string(nil), tabread.MacGlyphNames[:]...)
		k.Class("post:writer-format-1")
	default:
		n := 1 + r.IntN(40)
		for i := 0; i < n; i++ {
			if r.IntN(2) == 0 {
				info.Names = append(info.Names, tabread.MacGlyphNames[r.IntN(258)])
			} else {
				info.Names = append(info.Names, fmt.Sprintf("glyph%d", r.IntN(1000)))
			}
		}
		k.Class("post:writer-format-2")
	}
	var enc []byte
	if k.Guard("post.Info.Encode", func() { enc = info.Encode() }) {
		return
	}
	k.Input(enc)
	p, err := tabread.ReadPost(enc)
	k.Eval()
	if err != nil {
		k.Fail("mismatch", "post:independent-reader-rejects", "%v", err)
		return
	}
	wantVersion := map[int]uint32{0: 0x00030000, 1: 0x00010000, 2: 0x00020000}[k.Index%3]
	if p.Version != wantVersion {
		k.Class("post:unexpected-format") // any format that keeps the names is fine; recorded
	}
	var dec *post.Info
	if k.Guard("post.Read", func() { dec, err = post.Read(bytes.NewReader(enc)) }) {
		return
	}
	k.Eval()
	if err != nil {
		k.Fail("mismatch", "post:read-rejects-own-output", "%v", err)
		return
	}
	if p.UnderlinePosition != int16(info.UnderlinePosition) || p.UnderlineThickness != int16(info.UnderlineThickness) || (p.IsFixedPitch != 0) != info.IsFixedPitch {
		k.Fail("mismatch", "post:header-in-bytes", "underline %d/%d fixed %d in the bytes, info %d/%d %v", p.UnderlinePosition, p.UnderlineThickness, p.IsFixedPitch, info.UnderlinePosition, info.UnderlineThickness, info.IsFixedPitch)
	}
	if dec.UnderlinePosition != info.UnderlinePosition || dec.UnderlineThickness != info.UnderlineThickness || dec.IsFixedPitch != info.IsFixedPitch {
		k.Fail("mismatch", "post:roundtrip-header", "underline %d/%d fixed %v come back as %d/%d %v", info.UnderlinePosition, info.UnderlineThickness, info.IsFixedPitch, dec.UnderlinePosition, dec.UnderlineThickness, dec.IsFixedPitch)
	}
	if p.Angle() != dec.ItalicAngle {
		k.Fail("mismatch", "post:angle-readers-disagree", "independent reader %v, library %v", p.Angle(), dec.ItalicAngle)
	}
	if onGrid {
		if dec.ItalicAngle != info.ItalicAngle {
			k.Fail("mismatch", "post:roundtrip-angle", "angle %v (on the 16.16 grid) comes back as %v", info.ItalicAngle, dec.ItalicAngle)
		}
		k.Class("post:angle-on-grid")
	} else {
		// any rounding to a neighbouring grid point
		if math.Abs(dec.ItalicAngle-info.ItalicAngle) >= 1.0/65536 {
			k.Fail("mismatch", "post:roundtrip-angle-offgrid", "angle %v comes back as %v, more than one 16.16 step away", info.ItalicAngle, dec.ItalicAngle)
		}
		k.Class("post:angle-off-grid")
	}
	if (dec.Names == nil) != (info.Names == nil) || len(dec.Names) != len(info.Names) || len(p.Names) != len(info.Names) {
		k.Fail("mismatch", "post:roundtrip-count", "%d names written, %d read, %d in the bytes", len(info.Names), len(dec.Names), len(p.Names))
		return
	}
	for i := range info.Names {
		if dec.Names[i] != info.Names[i] || p.Names[i] != info.Names[i] {
			k.Fail("mismatch", "post:roundtrip-name", "glyph %d: %q written, %q read, %q in the bytes", i, info.Names[i], dec.Names[i], p.Names[i])
			break
		}
	}
	k.DistinctBytes(enc)
}
