package props

import (
	"bytes"
	"fmt"
	"math"
	"math/rand/v2"
	"seehuhn.de/go/geom/matrix"
	"seehuhn.de/go/postscript/cid"

	"golang.org/x/image/font/sfnt"

	"seehuhn.de/go/postscript/type1"
	"seehuhn.de/go/sfnt/cff"
	"seehuhn.de/go/sfnt/glyph"

	"verif/harness/internal/mon"
	"verif/harness/internal/ref/cffmini"
	"verif/harness/internal/ref/t2interp"
)

// C04: compiling glyph programs to Type 2 charstrings preserves outline,
// hints and width; the emitted code is legal Type 2.

func init() {
	mon.RegisterCfg("C04", mon.Config{
		Rule: "generated cff.Glyph programs (families: rlineto runs, alternating h/v lines of run length 1..60 in both phases, rrcurveto runs, hh/vv curves with/without leading operand, hv/vh chains of length 1..13 with/without trailing operand, line/curve junctions, hflex/hflex1 candidates and near-misses, zero-length segments, random interleavings, empty glyphs; coordinates integer / 16.16 grid / arbitrary float, magnitudes up to 32000; 0..96 stems, hintmask/cntrmask at the start and in the interior; width assignments: all equal, dominant, all distinct, fractional, selectWidths corner cases) are compiled with (*cff.Font).Write; the independent CFF reader cffmini extracts CharStrings and Private DICT, the independent interpreter t2interp executes every charstring in strict mode and the result is compared with the source glyph (operation sequence, absolute coordinates within 2^-16, stems, masks, width within 2^-16); cff.Read of the same bytes must agree with t2interp; integer glyphs are additionally loaded with golang.org/x/image. distinct = distinct charstrings (hash) Further strata: recompile (the same glyph values compiled again after in-place edits) and cid-dicts (CID-keyed fonts with several private dictionaries, glyph indices and CIDs that disagree).",
		Assumptions: []string{
			"every delta between consecutive points lies within +-31999 (16.16 operands; the decoder documents a clamp at 32000); larger deltas only in stratum big-deltas with the oracle 'error or faithful'",
			"masks are generated only for glyphs with at least one stem and with ceil(n/8) mask bytes",
			"glyphs whose stems need several stem operators per direction are compared with t2interp's stem values for information only (multi-operator stem semantics), and with cff.Read as the judge",
			"fractional widths of magnitude >= 10000 are multiples of 1/4 (a 9-digit DICT real resolves 2^-16 only below 10^4)",
			"widths: max-min < 32000 within a font in the main strata (including fonts whose widths sit at +-32767 / +-32767.5 - the limit for default-width candidates -, fonts whose most frequent width is negative, fonts with only negative widths and fonts with all widths below -32767); stratum wide-widths covers ranges up to 65000 (a nominal width exists), also with negative widths down to -64767 and with non-empty paths",
			"cffmini and t2interp (own code from TN5176/TN5177) are right where they agree with cff.Read or x/image",
		},
	}, runC04)
}

// ---- glyph generator ----

type c04gen struct {
	r     *rand.Rand
	cls   int     // coordinate class
	R     float64 // coordinate bound
	x, y  float64
	intOK bool // all coordinates integers so far
}

const (
	c04Small  = iota // integers, |delta| <= 107
	c04Medium        // integers, |delta| <= 1131
	c04Large         // integers, |delta| <= 31999
	c04Grid          // multiples of 2^-16
	c04Float         // arbitrary float64
	c04Mixed
	c04NClasses
)

// delta draws one delta of the generator's class (never zero unless zero is set).
func (g *c04gen) delta() float64 {
	r := g.r
	cls := g.cls
	if cls == c04Mixed {
		cls = r.IntN(c04Mixed)
	}
	sign := float64(1 - 2*r.IntN(2))
	switch cls {
	case c04Small:
		return sign * float64(1+r.IntN(107))
	case c04Medium:
		if r.IntN(4) == 0 {
			return sign * float64([]int{107, 108, 1131, 109, 363, 364, 619, 620}[r.IntN(8)])
		}
		return sign * float64(1+r.IntN(1131))
	case c04Large:
		switch r.IntN(4) {
		case 0:
			return sign * float64([]int{1131, 1132, 31999, 32000 - 1, 255, 256, 4096}[r.IntN(7)])
		case 1:
			return sign * float64(1+r.IntN(31999))
		default:
			return sign * float64(1+r.IntN(3000))
		}
	case c04Grid:
		g.intOK = false
		switch r.IntN(4) {
		case 0:
			return sign * (float64(r.IntN(200)) + float64(1+r.IntN(65535))/65536)
		case 1:
			return sign * float64(1+r.IntN(65535)) / 65536
		case 2:
			return sign * (float64(r.IntN(3000)) + 0.5)
		default:
			return sign * (float64(r.IntN(31000)) + float64(1+r.IntN(65535))/65536)
		}
	default:
		g.intOK = false
		switch r.IntN(4) {
		case 0:
			return sign * r.Float64() * 100
		case 1:
			return sign * (float64(r.IntN(1000)) + r.Float64())
		case 2:
			return sign * r.Float64() * 1e-4
		default:
			return sign * r.Float64() * 31000
		}
	}
}

// step moves a coordinate by d, reflecting at the bound.
func (g *c04gen) step(c, d float64) float64 {
	if math.Abs(d) > 31999 {
		d = math.Copysign(31999, d)
	}
	n := c + d
	if math.Abs(n) > g.R {
		n = c - d
	}
	if math.Abs(n) > g.R {
		n = c
	}
	return n
}

func (g *c04gen) move(dx, dy float64) cff.GlyphOp {
	g.x, g.y = g.step(g.x, dx), g.step(g.y, dy)
	return cff.GlyphOp{Op: cff.OpMoveTo, Args: []float64{g.x, g.y}}
}

func (g *c04gen) line(dx, dy float64) cff.GlyphOp {
	g.x, g.y = g.step(g.x, dx), g.step(g.y, dy)
	return cff.GlyphOp{Op: cff.OpLineTo, Args: []float64{g.x, g.y}}
}

func (g *c04gen) curve(d [6]float64) cff.GlyphOp {
	xa, ya := g.step(g.x, d[0]), g.step(g.y, d[1])
	xb, yb := g.step(xa, d[2]), g.step(ya, d[3])
	xc, yc := g.step(xb, d[4]), g.step(yb, d[5])
	g.x, g.y = xc, yc
	return cff.GlyphOp{Op: cff.OpCurveTo, Args: []float64{xa, ya, xb, yb, xc, yc}}
}

// dz returns a delta that is zero with probability p.
func (g *c04gen) dz(p float64) float64 {
	if g.r.Float64() < p {
		return 0
	}
	return g.delta()
}

var c04Families = []string{"rline", "hvline", "mixline", "rrcurve", "hhvv", "hvchain", "junction", "flex", "zero", "random", "empty", "long", "hvline-enum", "hvchain-enum"}

// c04path generates the path commands of family fam.  sel is an enumeration
// index for the *-enum families.
func (g *c04gen) path(fam string, sel int) []cff.GlyphOp {
	r := g.r
	var cmds []cff.GlyphOp
	start := func() {
		switch r.IntN(4) {
		case 0:
			cmds = append(cmds, g.move(g.delta(), 0))
		case 1:
			cmds = append(cmds, g.move(0, g.delta()))
		default:
			cmds = append(cmds, g.move(g.delta(), g.delta()))
		}
	}
	hvLines := func(n int, horiz bool) {
		for i := 0; i < n; i++ {
			if horiz {
				cmds = append(cmds, g.line(g.delta(), 0))
			} else {
				cmds = append(cmds, g.line(0, g.delta()))
			}
			horiz = !horiz
		}
	}
	hvChain := func(n int, horiz bool, trailing bool) {
		for i := 0; i < n; i++ {
			var d [6]float64
			d[2], d[3] = g.delta(), g.delta()
			if horiz {
				d[0], d[5] = g.delta(), g.delta()
			} else {
				d[1], d[4] = g.delta(), g.delta()
			}
			if i == n-1 && trailing {
				if horiz {
					d[4] = g.delta()
				} else {
					d[5] = g.delta()
				}
			}
			cmds = append(cmds, g.curve(d))
			horiz = !horiz
		}
	}
	general := func() [6]float64 {
		return [6]float64{g.delta(), g.delta(), g.delta(), g.delta(), g.delta(), g.delta()}
	}
	switch fam {
	case "empty":
		return nil
	case "rline":
		start()
		n := 1 + r.IntN(60)
		for i := 0; i < n; i++ {
			cmds = append(cmds, g.line(g.delta(), g.delta()))
		}
	case "hvline":
		start()
		hvLines(1+r.IntN(60), r.IntN(2) == 0)
	case "hvline-enum":
		start()
		hvLines(1+sel%60, (sel/60)%2 == 0)
	case "mixline":
		start()
		n := 1 + r.IntN(70)
		for i := 0; i < n; i++ {
			cmds = append(cmds, g.line(g.dz(0.4), g.dz(0.4)))
		}
	case "rrcurve":
		start()
		n := 1 + r.IntN(20)
		for i := 0; i < n; i++ {
			cmds = append(cmds, g.curve(general()))
		}
	case "hhvv":
		start()
		n := 1 + r.IntN(14)
		hh := r.IntN(2) == 0
		lead := r.IntN(2) == 0
		for i := 0; i < n; i++ {
			var d [6]float64
			d[2], d[3] = g.delta(), g.delta()
			if hh {
				d[0], d[4] = g.delta(), g.delta()
				if i == 0 && lead {
					d[1] = g.delta()
				}
			} else {
				d[1], d[5] = g.delta(), g.delta()
				if i == 0 && lead {
					d[0] = g.delta()
				}
			}
			cmds = append(cmds, g.curve(d))
		}
	case "hvchain":
		start()
		hvChain(1+r.IntN(13), r.IntN(2) == 0, r.IntN(2) == 0)
		if r.IntN(3) == 0 {
			hvChain(1+r.IntN(6), r.IntN(2) == 0, r.IntN(2) == 0)
		}
	case "hvchain-enum":
		start()
		hvChain(1+sel%13, (sel/13)%2 == 0, (sel/26)%2 == 0)
	case "junction":
		start()
		for rep := 1 + r.IntN(3); rep > 0; rep-- {
			if r.IntN(2) == 0 {
				// lines then one curve (rlinecurve)
				for n := 1 + r.IntN(22); n > 0; n-- {
					cmds = append(cmds, g.line(g.delta(), g.delta()))
				}
				cmds = append(cmds, g.curve(general()))
			} else {
				// curves then one line (rcurveline)
				for n := 1 + r.IntN(8); n > 0; n-- {
					cmds = append(cmds, g.curve(general()))
				}
				cmds = append(cmds, g.line(g.delta(), g.delta()))
			}
		}
	case "flex":
		start()
		for rep := 1 + r.IntN(2); rep > 0; rep-- {
			if r.IntN(3) == 0 {
				cmds = append(cmds, g.line(g.delta(), g.delta()))
			}
			dy2 := g.delta()
			var a, b [6]float64
			a[0], a[2], a[3], a[4] = g.delta(), g.delta(), dy2, g.delta()
			b[0], b[2], b[3], b[4] = g.delta(), g.delta(), -dy2, g.delta()
			switch r.IntN(5) {
			case 0: // exact hflex
			case 1: // hflex1: dy1 + dy2 + dy5 + dy6 = 0
				a[1] = g.delta()
				b[3] = g.delta()
				b[5] = -(a[1] + a[3] + b[3])
			case 2: // hflex1 with dy1 = 0
				b[3] = g.delta()
				b[5] = -(a[3] + b[3])
			case 3: // near miss: does not return to the start height
				b[3] = -dy2 + math.Copysign(1, dy2)
				if g.cls >= c04Grid {
					b[3] = -dy2 + 1.0/65536
				}
			case 4: // near miss: joining point not flat
				a[5] = g.delta()
				b[1] = g.dz(0.5)
			}
			x0, y0 := g.x, g.y
			ca := g.curve(a)
			cb := g.curve(b)
			_ = x0
			_ = y0
			cmds = append(cmds, ca, cb)
			if r.IntN(3) == 0 {
				cmds = append(cmds, g.curve(general()))
			}
		}
	case "zero":
		start()
		n := 1 + r.IntN(12)
		for i := 0; i < n; i++ {
			switch r.IntN(5) {
			case 0:
				cmds = append(cmds, g.line(0, 0))
			case 1:
				cmds = append(cmds, g.curve([6]float64{}))
			case 2:
				cmds = append(cmds, g.move(0, 0))
			case 3:
				cmds = append(cmds, g.curve([6]float64{g.dz(0.7), g.dz(0.7), g.dz(0.7), g.dz(0.7), g.dz(0.7), g.dz(0.7)}))
			default:
				cmds = append(cmds, g.line(g.dz(0.5), g.dz(0.5)))
			}
		}
	case "long":
		start()
		if r.IntN(2) == 0 {
			n := 20 + r.IntN(80)
			mode := r.IntN(3)
			for i := 0; i < n; i++ {
				switch mode {
				case 0:
					cmds = append(cmds, g.line(g.delta(), g.delta()))
				case 1:
					if i%2 == 0 {
						cmds = append(cmds, g.line(g.delta(), 0))
					} else {
						cmds = append(cmds, g.line(0, g.delta()))
					}
				default:
					cmds = append(cmds, g.line(g.dz(0.3), g.dz(0.3)))
				}
			}
		} else {
			n := 7 + r.IntN(24)
			mode := r.IntN(4)
			horiz := r.IntN(2) == 0
			for i := 0; i < n; i++ {
				switch mode {
				case 0:
					cmds = append(cmds, g.curve(general()))
				case 1:
					hvChain(1, horiz, false)
					horiz = !horiz
				case 2:
					d := [6]float64{g.delta(), 0, g.delta(), g.delta(), g.delta(), 0}
					cmds = append(cmds, g.curve(d))
				default:
					d := [6]float64{g.dz(0.4), g.dz(0.4), g.delta(), g.delta(), g.dz(0.4), g.dz(0.4)}
					cmds = append(cmds, g.curve(d))
				}
			}
		}
	default: // random
		nsub := 1 + r.IntN(4)
		for s := 0; s < nsub; s++ {
			start()
			n := r.IntN(16)
			pz := []float64{0, 0.2, 0.5}[r.IntN(3)]
			for i := 0; i < n; i++ {
				if r.IntN(2) == 0 {
					cmds = append(cmds, g.line(g.dz(pz), g.dz(pz)))
				} else {
					d := [6]float64{g.dz(pz), g.dz(pz), g.dz(pz / 2), g.dz(pz / 2), g.dz(pz), g.dz(pz)}
					cmds = append(cmds, g.curve(d))
				}
			}
		}
	}
	return cmds
}

// c04stems generates n stems (2n edges) on the 16.16 grid.
func c04stems(r *rand.Rand, n int, frac bool) []float64 {
	var out []float64
	pos := float64(r.IntN(400) - 200)
	if r.IntN(8) == 0 {
		pos = float64(r.IntN(20000) - 25000)
	}
	for i := 0; i < n; i++ {
		gap := float64(r.IntN(120))
		w := float64(1 + r.IntN(150))
		switch r.IntN(12) {
		case 0:
			w = -20 // ghost hints
		case 1:
			w = -21
		case 2:
			gap = float64(r.IntN(1500))
		case 3:
			gap = -float64(r.IntN(30))
		}
		if frac && r.IntN(2) == 0 {
			gap += float64(r.IntN(65536)) / 65536
			w += float64(r.IntN(65536)) / 65536
		}
		a := pos + gap
		b := a + w
		if math.Abs(b) > 30000 || math.Abs(a) > 30000 {
			a, b = 0, 10
		}
		out = append(out, a, b)
		pos = b
	}
	return out
}

// c04glyph builds one glyph.
type c04info struct {
	family   string
	intOnly  bool
	nStems   int
	hasMasks bool
}

func c04glyph(r *rand.Rand, name string, fam string, sel int, cls int, hints bool) (*cff.Glyph, c04info) {
	g := &c04gen{r: r, cls: cls, intOK: true}
	switch r.IntN(3) {
	case 0:
		g.R = 1500
	case 1:
		g.R = 16000
	default:
		g.R = 32000
	}
	gl := &cff.Glyph{Name: name}
	gl.Cmds = g.path(fam, sel)
	info := c04info{family: fam, intOnly: g.intOK}
	if hints {
		var nh, nv int
		switch r.IntN(8) {
		case 0, 1, 2:
			nh, nv = r.IntN(4), r.IntN(4)
		case 3:
			nh, nv = r.IntN(13), r.IntN(13)
		case 4:
			nh, nv = 20+r.IntN(10), 20+r.IntN(10) // 23/24 per operator boundary
		case 5:
			tot := 49 + r.IntN(48)
			nh = r.IntN(tot + 1)
			nv = tot - nh
		case 6:
			nh, nv = []int{0, 96, 48, 24, 23, 47, 1}[r.IntN(7)], 0
			if r.IntN(2) == 0 {
				nh, nv = nv, nh
			}
			if r.IntN(3) == 0 {
				nh, nv = 48, 48
			}
		default:
			nh, nv = 1+r.IntN(30), 1+r.IntN(30)
		}
		frac := cls >= c04Grid && r.IntN(2) == 0
		gl.HStem = c04stems(r, nh, frac)
		gl.VStem = c04stems(r, nv, frac)
		info.nStems = nh + nv
		if info.nStems > 0 && r.IntN(2) == 0 {
			info.hasMasks = true
			nb := (info.nStems + 7) / 8
			mask := func(op cff.GlyphOpType) cff.GlyphOp {
				args := make([]float64, nb)
				for i := range args {
					args[i] = float64(r.IntN(256))
				}
				return cff.GlyphOp{Op: op, Args: args}
			}
			var out []cff.GlyphOp
			// masks at the start (implicit vstem) ...
			if r.IntN(3) != 0 {
				if r.IntN(3) == 0 {
					for n := 1 + r.IntN(2); n > 0; n-- {
						out = append(out, mask(cff.OpCntrMask))
					}
				}
				if r.IntN(4) != 0 {
					out = append(out, mask(cff.OpHintMask))
				}
			}
			// ... and in the interior
			pm := []float64{0, 0.05, 0.3}[r.IntN(3)]
			for i, c := range gl.Cmds {
				out = append(out, c)
				if r.Float64() < pm || (pm > 0 && i == len(gl.Cmds)-1 && r.IntN(4) == 0) {
					op := cff.OpHintMask
					if r.IntN(6) == 0 {
						op = cff.OpCntrMask
					}
					out = append(out, mask(op))
				}
			}
			if len(out) == len(gl.Cmds) {
				out = append([]cff.GlyphOp{mask(cff.OpHintMask)}, out...)
			}
			gl.Cmds = out
		}
	}
	return gl, info
}

// c04widths assigns widths to n glyphs.
func c04widths(r *rand.Rand, n int, k *mon.Case) []float64 {
	w := make([]float64, n)
	val := func(mode int) float64 {
		switch mode {
		case 0:
			return float64(r.IntN(2000))
		case 1:
			return float64(r.IntN(2000)) + []float64{0.5, 0.25, 0.75, 0.125}[r.IntN(4)]
		case 2:
			return float64(r.IntN(1500)) + float64(r.IntN(65536))/65536
		case 3:
			return math.Round((r.Float64()*3000)*1e6) / 1e6 // arbitrary decimal fraction
		case 4:
			return r.Float64() * 2500
		default:
			return float64(r.IntN(2000))
		}
	}
	pat := r.IntN(16)
	mode := r.IntN(6)
	switch pat {
	case 12: // around the threshold |w| = 32767 above which a width is no candidate for the default width
		sign := 1.0
		if r.IntN(2) == 0 {
			sign = -1
		}
		pool := []float64{32767, 32767.5, 32766.75, 32768, 32766, 32767.25, 32769.5, 32760}
		dom := pool[r.IntN(4)] * sign // the most frequent width: exactly at / just beyond the threshold
		for i := range w {
			w[i] = dom
			if r.IntN(3) == 0 {
				w[i] = pool[r.IntN(len(pool))] * sign
			}
		}
		if n > 3 && r.IntN(2) == 0 {
			// a runner-up on the other side of the threshold
			o := pool[r.IntN(len(pool))] * sign
			w[r.IntN(n)], w[r.IntN(n)] = o, o
		}
		k.Class("widths:at-default-candidate-threshold")
		if sign < 0 {
			k.Class("widths:at-default-candidate-threshold:negative")
		}
	case 13: // the most frequent width is negative
		v := -val(mode) - 1
		for i := range w {
			w[i] = v
			if r.IntN(4) == 0 {
				w[i] = val(r.IntN(6)) * []float64{1, -1}[r.IntN(2)]
			}
		}
		k.Class("widths:negative-dominant")
	case 14: // all widths negative
		base := -val(mode) - 1
		for i := range w {
			switch r.IntN(3) {
			case 0:
				w[i] = base
			case 1:
				w[i] = base - float64(r.IntN(150))
			default:
				w[i] = -val(r.IntN(6)) - 1
			}
		}
		k.Class("widths:all-negative")
	case 15: // widths below -32767 (no candidates for the default width), limited range
		base := -float64(32768 + r.IntN(20000))
		for i := range w {
			w[i] = base - float64(r.IntN(5000))
			if r.IntN(4) == 0 {
				w[i] -= []float64{0.5, 0.25, 0.75}[r.IntN(3)]
			}
		}
		if r.IntN(2) == 0 {
			w[r.IntN(n)] = base
			w[r.IntN(n)] = base
		}
		if r.IntN(4) == 0 {
			w[r.IntN(n)] = -32767.5
			w[r.IntN(n)] = -32767
		}
		k.Class("widths:below--32767")
	case 0: // all equal
		v := val(mode)
		for i := range w {
			w[i] = v
		}
		k.Class("widths:all-equal")
	case 1, 2: // one dominant value
		v := val(mode)
		for i := range w {
			w[i] = v
			if r.IntN(4) == 0 {
				w[i] = val(r.IntN(6))
			}
		}
		k.Class("widths:dominant")
	case 3: // all distinct
		base := val(mode)
		step := 1 + r.IntN(30)
		if n*step > 28000 {
			step = 1
		}
		for i := range w {
			w[i] = base + float64((i*step)%28000)
		}
		k.Class("widths:distinct")
	case 4: // narrow cluster: nominal is pushed to min+107 (> max-107)
		base := val(mode)
		for i := range w {
			w[i] = base + float64(r.IntN(100))
		}
		k.Class("widths:narrow-cluster")
	case 5: // one default value and a single other value: min = max
		v, o := val(mode), val(r.IntN(6))
		for i := range w {
			w[i] = v
		}
		w[r.IntN(n)] = o
		if n > 2 && r.IntN(2) == 0 {
			w[r.IntN(n)] = o
		}
		k.Class("widths:single-outlier")
	case 6: // fractional min so that min+107 is fractional
		base := float64(r.IntN(1000)) + []float64{0.5, 0.25, 0.3, 0.125}[r.IntN(4)]
		for i := range w {
			w[i] = base + float64(r.IntN(150))
		}
		k.Class("widths:fractional-cluster")
	case 7: // large widths up to 32767, limited range
		base := float64(10000 + r.IntN(20000))
		for i := range w {
			w[i] = base + float64(r.IntN(2500))
			if r.IntN(3) == 0 {
				w[i] += []float64{0.5, 0.25, 0.75}[r.IntN(3)]
			}
		}
		k.Class("widths:large")
	case 8: // widths above 32768 (not candidates for the default width), limited range
		base := float64(32768 + r.IntN(20000))
		for i := range w {
			w[i] = base + float64(r.IntN(5000))
		}
		if r.IntN(2) == 0 {
			w[r.IntN(n)] = base
			w[r.IntN(n)] = base
		}
		k.Class("widths:above-32767")
	case 9: // skewed: many small, few big (mean far from max)
		for i := range w {
			w[i] = float64(r.IntN(300))
			if r.IntN(6) == 0 {
				w[i] = float64(5000 + r.IntN(20000))
			}
		}
		k.Class("widths:skewed")
	default:
		for i := range w {
			w[i] = val(r.IntN(6))
		}
		k.Class("widths:random")
	}
	return w
}

func c04font(glyphs []*cff.Glyph) *cff.Font {
	return &cff.Font{
		FontInfo: &type1.FontInfo{
			FontName:   "VerifC04",
			FontMatrix: [6]float64{0.001, 0, 0, 0.001, 0, 0},
		},
		Outlines: &cff.Outlines{
			Glyphs:   glyphs,
			Private:  []*type1.PrivateDict{{BlueScale: 0.039625, BlueShift: 7, BlueFuzz: 1}},
			FDSelect: func(glyph.ID) int { return 0 },
		},
	}
}

var c04opNames = []string{"rmoveto", "hmoveto", "vmoveto", "rlineto", "hlineto", "vlineto", "rrcurveto", "hhcurveto", "vvcurveto",
	"hvcurveto", "vhcurveto", "rcurveline", "rlinecurve", "hflex", "hflex1", "hstem", "vstem", "hstemhm", "vstemhm", "hintmask", "cntrmask", "endchar"}

// c04check compiles the font and applies the oracles.  strictDomain=false
// is used by the out-of-domain strata ("error or faithful").
func c04check(k *mon.Case, glyphs []*cff.Glyph, infos []c04info, inDomain bool, tag string) {
	c04checkFont(k, c04font(glyphs), glyphs, infos, inDomain, tag)
}

// c04checkFont is c04check for a font the caller has assembled around the
// glyphs (CID-keyed fonts with several private dictionaries).
func c04checkFont(k *mon.Case, font *cff.Font, glyphs []*cff.Glyph, infos []c04info, inDomain bool, tag string) {
	buf := &bytes.Buffer{}
	var err error
	if k.Guard("cff.Font.Write", func() { err = font.Write(buf) }) {
		return
	}
	k.Eval()
	if err != nil {
		if inDomain {
			k.Fail("mismatch", tag+"write-error", "(*cff.Font).Write failed: %v", err)
		} else {
			k.Class(tag + "outcome:write-error")
		}
		return
	}
	data := buf.Bytes()
	k.Input(data)
	mf, perr := cffmini.Parse(data)
	if perr != nil {
		k.Fail("mismatch", tag+"cffmini-cannot-parse", "independent CFF reader rejects the output: %v", perr)
		return
	}
	for _, p := range mf.Problems {
		k.Fail("mismatch", tag+"structure:"+p.Rule, "%s", p)
	}
	if mf.NGlyphs != len(glyphs) {
		k.Fail("mismatch", tag+"glyph-count", "CharStrings INDEX has %d entries, font has %d glyphs", mf.NGlyphs, len(glyphs))
		return
	}
	// one interpreter environment per font dictionary (a simple font has one)
	envs := make([]*t2interp.Env, len(mf.FDs))
	for i, fd := range mf.FDs {
		envs[i] = &t2interp.Env{GSubrs: mf.GSubrs.Data, Subrs: fd.LocalSubrs(), DefaultWidthX: fd.DefaultWidthX, NominalWidthX: fd.NominalWidthX}
		if fd.DefaultWidthX != math.Trunc(fd.DefaultWidthX) {
			k.Class("width:fractional-default")
		}
		if fd.NominalWidthX != math.Trunc(fd.NominalWidthX) {
			k.Class("width:fractional-nominal")
		}
	}
	fdOf := func(gid int) int {
		if mf.IsCID && gid < len(mf.FDSelect) && mf.FDSelect[gid] < len(mf.FDs) {
			return mf.FDSelect[gid]
		}
		return 0
	}
	if len(mf.FDs) == 0 {
		k.Fail("mismatch", tag+"no-font-dict", "the written font has no private dictionary")
		return
	}

	lib, rerr, panicked := cffReadGuard(k, data)
	if panicked {
		return
	}
	if rerr != nil {
		if inDomain {
			k.Fail("mismatch", tag+"read-rejects-own-output", "cff.Read rejects the bytes written by Write: %v", rerr)
		} else {
			k.Class(tag + "outcome:read-error")
		}
		lib = nil
	} else if len(lib.Glyphs) != len(glyphs) {
		k.Fail("mismatch", tag+"read-glyph-count", "cff.Read returns %d glyphs, wrote %d", len(lib.Glyphs), len(glyphs))
		lib = nil
	}

	results := make([]*t2interp.Result, len(glyphs))
	allInt := true
	faithful := true
	for gid, src := range glyphs {
		code := mf.CharStrings.Data[gid]
		k.DistinctBytes(code)
		fd, env := mf.FDs[fdOf(gid)], envs[fdOf(gid)]
		res := t2interp.Run(code, env)
		results[gid] = res
		k.Eval()
		fam := "?"
		if infos != nil {
			fam = infos[gid].family
			allInt = allInt && infos[gid].intOnly
		}
		where := func() string {
			return fmt.Sprintf("glyph %d (family %s, %d commands, %d+%d stem edges, width %v; default %v nominal %v)\n charstring % x",
				gid, fam, len(src.Cmds), len(src.HStem), len(src.VStem), src.Width, fd.DefaultWidthX, fd.NominalWidthX, code[:min(len(code), 200)])
		}
		// legality
		for _, v := range res.Violations {
			cl := v.Class
			k.Fail("mismatch", tag+"illegal-charstring:"+cl, "strict interpreter: %s\n%s", v, where())
		}
		if res.Fatal || !res.Ended {
			continue
		}
		for name, cnt := range res.OpCount {
			k.ClassN("op:"+name, cnt)
		}
		for i, nm := range []string{"", "int1", "int2", "int3", "fixed16.16"} {
			if i > 0 && res.NumForms[i] > 0 {
				k.ClassN("num:"+nm, res.NumForms[i])
			}
		}
		k.Max("stack-depth", float64(res.MaxStack))
		if res.MaxStack == 48 {
			k.Class("stack-depth-48")
		}
		if res.HasWidth {
			k.Class("width:explicit")
		} else {
			k.Class("width:omitted")
		}
		// faithfulness
		wit := func(s string) string {
			if inDomain {
				return s
			}
			return tag + s
		}
		ok := true
		if d := cffCompareOps(src.Cmds, res.Ops, cffTol16); d != "" {
			ok = false
			if inDomain {
				k.Fail("mismatch", wit("path-differs"), "executing the emitted charstring does not reproduce the glyph: %s\n%s\n source:%s\n interp:%s", d, where(), cffOpsString(src.Cmds, 40), cffInterpString(res.Ops, 40))
			}
		}
		multi := res.HStemOps > 1 || res.VStemOps > 1
		dh := cffCompareStems(src.HStem, res.HStem, cffTol16)
		dv := cffCompareStems(src.VStem, res.VStem, cffTol16)
		if dh != "" || dv != "" {
			if multi && len(src.HStem) == len(res.HStem) && len(src.VStem) == len(res.VStem) {
				k.Class("info:multi-operator-stem-reading-differs")
			} else {
				ok = false
				if inDomain {
					k.Fail("mismatch", wit("stems-differ"), "stems differ: hstem %q vstem %q\n%s", dh, dv, where())
				}
			}
		}
		if multi {
			k.Class("stems:multi-operator")
		} else if len(src.HStem)+len(src.VStem) > 0 {
			k.Class("stems:single-operator")
		}
		if !(math.Abs(res.Width-src.Width) <= cffTol16) {
			ok = false
			if inDomain {
				class := "width-differs"
				if !res.HasWidth {
					class = "width-differs:default-width"
				} else if fd.NominalWidthX != 0 {
					class = "width-differs:nominal-width"
				}
				k.Fail("mismatch", wit(class), "width: source %v, charstring gives %v (explicit operand %v: %v)\n%s", src.Width, res.Width, res.HasWidth, res.WidthArg.Float(), where())
			}
		}
		// second judge: the library's reader against the independent interpreter
		if lib != nil && tag != "big-deltas:" { // the library's reader documents a clamp of every delta at +-32000
			lg := lib.Glyphs[gid]
			k.Eval()
			if d := cffCompareOps(lg.Cmds, res.Ops, 1e-9); d != "" {
				k.Fail("mismatch", tag+"read-vs-interp:path", "cff.Read and t2interp disagree on the emitted charstring: %s\n%s\n lib:%s\n interp:%s", d, where(), cffOpsString(lg.Cmds, 40), cffInterpString(res.Ops, 40))
			}
			if d := cffCompareStems(lg.HStem, res.HStem, 1e-9); d != "" {
				k.Fail("mismatch", tag+"read-vs-interp:hstem", "cff.Read and t2interp disagree on hstem: %s\n%s", d, where())
			}
			if d := cffCompareStems(lg.VStem, res.VStem, 1e-9); d != "" {
				k.Fail("mismatch", tag+"read-vs-interp:vstem", "cff.Read and t2interp disagree on vstem: %s\n%s", d, where())
			}
			if !(math.Abs(lg.Width-res.Width) <= 1e-9) {
				k.Fail("mismatch", tag+"read-vs-interp:width", "cff.Read width %v, t2interp %v\n%s", lg.Width, res.Width, where())
			}
			// round trip through the library's own reader (also the judge for multi-operator stems)
			if d := cffCompareFloats(src.HStem, lg.HStem, cffTol16); d != "" && inDomain {
				k.Fail("mismatch", "roundtrip:hstem", "hstem after Write/Read: %s\n%s", d, where())
			}
			if d := cffCompareFloats(src.VStem, lg.VStem, cffTol16); d != "" && inDomain {
				k.Fail("mismatch", "roundtrip:vstem", "vstem after Write/Read: %s\n%s", d, where())
			}
			if lg.Name != src.Name && !mf.IsCID {
				k.Fail("mismatch", tag+"roundtrip:name", "glyph name %q came back as %q", src.Name, lg.Name)
			}
		}
		if infos != nil {
			k.Class("family:" + fam)
			if infos[gid].hasMasks {
				k.Class("glyph:with-masks")
			}
			switch n := infos[gid].nStems; {
			case n == 0:
			case n <= 24:
				k.Class("stems:1-24")
			case n <= 48:
				k.Class("stems:25-48")
			case n < 96:
				k.Class("stems:49-95")
			default:
				k.Class("stems:96")
			}
		}
		faithful = faithful && ok
	}
	if !inDomain {
		if faithful {
			k.Class(tag + "outcome:faithful")
		} else {
			k.Fail("mismatch", tag+"silent-corruption", "Write succeeded but the emitted charstrings do not reproduce the glyphs (first glyph: %s)", cffOpsString(glyphs[min(1, len(glyphs)-1)].Cmds, 12))
		}
	}

	// third judge: x/image on integer-coordinate fonts
	if allInt && infos != nil && k.Index%2 == 0 {
		xf, xerr := ximageParse(data, len(glyphs))
		if xerr != nil {
			if isUnsupportedXimage(xerr) {
				k.Skip("ximage_unsupported")
			} else {
				k.Fail("mismatch", tag+"ximage-rejects-font", "x/image cannot parse the font: %v", xerr)
			}
			return
		}
		var xb sfnt.Buffer
		for gid := range glyphs {
			res := results[gid]
			if res == nil || res.Fatal || !res.Ended {
				continue
			}
			want, isInt := xiExpected(res.Ops)
			if !isInt {
				continue
			}
			got, gerr := ximageSegs(xf, &xb, gid)
			if gerr != nil {
				if isUnsupportedXimage(gerr) {
					k.Skip("ximage_unsupported")
					continue
				}
				k.Fail("mismatch", tag+"ximage-rejects-glyph", "x/image cannot load glyph %d: %v\n charstring % x", gid, gerr, mf.CharStrings.Data[gid])
				continue
			}
			k.Eval()
			if !xiEqual(got, want) {
				k.Fail("mismatch", tag+"ximage-vs-interp", "x/image and t2interp disagree on glyph %d\n x/image: %v\n interp: %v", gid, got, want)
			} else {
				k.Class("ximage-agrees")
			}
		}
	}
}

func sign(x float64) float64 {
	if x < 0 {
		return -1
	}
	return 1
}

func runC04(c *mon.Ctx) {
	// main stratum: fonts of ~20 glyphs
	c.Stratum("fonts", c.N(6000, 500000), func(k *mon.Case) {
		r := k.Rng
		n := 2 + r.IntN(36)
		switch r.IntN(12) {
		case 0:
			n = 1
		case 1:
			n = 2
		}
		cls := r.IntN(c04NClasses)
		if k.Index%3 == 0 {
			cls = r.IntN(3) // integer fonts for the x/image judge
		}
		glyphs := make([]*cff.Glyph, n)
		infos := make([]c04info, n)
		for i := range glyphs {
			name := fmt.Sprintf("g%d", i)
			if i == 0 {
				name = ".notdef"
			}
			fam := c04Families[r.IntN(len(c04Families)-2)]
			sel := 0
			hints := r.IntN(3) == 0
			glyphs[i], infos[i] = c04glyph(r, name, fam, sel, cls, hints)
		}
		ws := c04widths(r, n, k)
		for i, g := range glyphs {
			g.Width = ws[i]
		}
		c04check(k, glyphs, infos, true, "")
		if k.Index < 2 {
			k.Sample(fmt.Sprintf("font of %d glyphs, class %d; glyph 1: %s", n, cls, cffOpsString(glyphs[min(1, n-1)].Cmds, 8)))
		}
	})

	// the same glyph values compiled again after they were edited in place:
	// what is written is a function of the glyph description at the time of
	// the call, whatever was compiled from the same memory before
	c.Stratum("recompile", c.N(900, 40000), func(k *mon.Case) {
		r := k.Rng
		n := 1 + r.IntN(12)
		cls := r.IntN(c04NClasses)
		glyphs := make([]*cff.Glyph, n)
		infos := make([]c04info, n)
		for i := range glyphs {
			name := fmt.Sprintf("g%d", i)
			if i == 0 {
				name = ".notdef"
			}
			glyphs[i], infos[i] = c04glyph(r, name, c04Families[r.IntN(len(c04Families)-2)], 0, cls, r.IntN(3) == 0)
		}
		ws := c04widths(r, n, k)
		for i, g := range glyphs {
			g.Width = ws[i]
		}
		c04check(k, glyphs, infos, true, "")
		if k.Failed() {
			return
		}
		rounds := 1 + r.IntN(3)
		for round := 0; round < rounds; round++ {
			mode := (k.Index + round) % 4
			edited := 0
			for _, g := range glyphs {
				if n > 1 && r.IntN(3) == 0 {
					continue // some glyphs stay as they were
				}
				coords := 0
				for _, cmd := range g.Cmds {
					if cmd.Op == cff.OpMoveTo || cmd.Op == cff.OpLineTo || cmd.Op == cff.OpCurveTo {
						coords += len(cmd.Args) / 2
					}
				}
				if coords == 0 {
					continue
				}
				pick := r.IntN(coords)
				seen := 0
				for ci, cmd := range g.Cmds {
					if cmd.Op != cff.OpMoveTo && cmd.Op != cff.OpLineTo && cmd.Op != cff.OpCurveTo {
						continue
					}
					for j := 0; j+1 < len(cmd.Args); j += 2 {
						switch mode {
						case 0: // mirror everything on the diagonal
							cmd.Args[j], cmd.Args[j+1] = cmd.Args[j+1], cmd.Args[j]
						case 1: // mirror everything on the y axis
							cmd.Args[j] = -cmd.Args[j]
						case 2: // one point only
							if seen == pick {
								cmd.Args[j], cmd.Args[j+1] = cmd.Args[j+1], -cmd.Args[j]
							}
						case 3: // one command gets a new argument list, the command list stays
							if seen == pick {
								na := append([]float64(nil), cmd.Args...)
								na[j], na[j+1] = -na[j+1], na[j]
								g.Cmds[ci].Args = na
								cmd.Args = na
							}
						}
						seen++
					}
				}
				edited++
			}
			if edited == 0 {
				continue
			}
			// the edit must stay inside the domain: no step of more than
			// 32000 units between consecutive points
			inside := true
			for _, g := range glyphs {
				x, y := 0.0, 0.0
				for _, cmd := range g.Cmds {
					if cmd.Op != cff.OpMoveTo && cmd.Op != cff.OpLineTo && cmd.Op != cff.OpCurveTo {
						continue
					}
					for j := 0; j+1 < len(cmd.Args); j += 2 {
						if math.Abs(cmd.Args[j]-x) > 32000 || math.Abs(cmd.Args[j+1]-y) > 32000 {
							inside = false
						}
						x, y = cmd.Args[j], cmd.Args[j+1]
					}
				}
			}
			if !inside {
				k.Class("recompile:edit-leaves-domain")
				return
			}
			k.Class(fmt.Sprintf("recompile:edit-mode-%d", mode))
			c04check(k, glyphs, infos, true, "recompiled:")
			if k.Failed() {
				return
			}
		}
	})
	c.Require("recompile:edit-mode-0", "recompile:edit-mode-1", "recompile:edit-mode-2", "recompile:edit-mode-3")

	// CID-keyed fonts with several private dictionaries: the default and
	// nominal widths belong to the dictionary FDSelect assigns to the glyph
	// index (not to the CID); the glyph indices and CIDs disagree, and the
	// widths of the dictionaries are distributed differently
	c.Stratum("cid-dicts", c.N(600, 30000), func(k *mon.Case) {
		r := k.Rng
		n := 2 + r.IntN(30)
		nd := 2 + r.IntN(4)
		cls := r.IntN(3)
		glyphs := make([]*cff.Glyph, n)
		infos := make([]c04info, n)
		sel := make([]int, n)
		// each dictionary has its own typical width
		typical := make([]float64, nd)
		for i := range typical {
			typical[i] = float64(200 + 150*i + r.IntN(40))
		}
		for i := range glyphs {
			glyphs[i], infos[i] = c04glyph(r, "", c04Families[r.IntN(len(c04Families)-2)], 0, cls, r.IntN(4) == 0)
			sel[i] = r.IntN(nd)
			if i == 0 {
				sel[i] = 0
			}
			switch r.IntN(4) {
			case 0:
				glyphs[i].Width = float64(r.IntN(2000))
			default:
				glyphs[i].Width = typical[sel[i]]
			}
		}
		// CIDs: a permutation of 1..n-1 that is not the identity, or scattered values
		cids := make([]cid.CID, n)
		perm := r.Perm(n - 1)
		for i := 1; i < n; i++ {
			cids[i] = cid.CID(1 + perm[i-1])
			if k.Index%3 == 0 {
				cids[i] = cid.CID(1 + perm[i-1]*7 + r.IntN(7))
			}
		}
		priv := make([]*type1.PrivateDict, nd)
		mats := make([]matrix.Matrix, nd)
		for i := range priv {
			priv[i] = &type1.PrivateDict{BlueScale: 0.039625, BlueShift: 7, BlueFuzz: 1, StdHW: float64(20 + i)}
			mats[i] = matrix.Identity
		}
		font := &cff.Font{
			FontInfo: &type1.FontInfo{FontName: "VerifC04CID", FontMatrix: [6]float64{0.001, 0, 0, 0.001, 0, 0}},
			Outlines: &cff.Outlines{
				Glyphs:       glyphs,
				Private:      priv,
				FDSelect:     func(g glyph.ID) int { return sel[g] },
				ROS:          &cid.SystemInfo{Registry: "Adobe", Ordering: "Identity", Supplement: 0},
				GIDToCID:     cids,
				FontMatrices: mats,
			},
		}
		c04checkFont(k, font, glyphs, infos, true, "cid:")
		if !k.Failed() {
			k.Class(fmt.Sprintf("cid-dicts:%d", min(nd, 4)))
		}
	})
	c.Require("cid-dicts:2", "cid-dicts:4")

	// enumerations: every h/v run length 1..60 in both phases; every hv/vh chain
	// length 1..13 x start direction x trailing operand; in every integer class
	c.Stratum("enum", c.N(120, 4000), func(k *mon.Case) {
		r := k.Rng
		var glyphs []*cff.Glyph
		var infos []c04info
		add := func(fam string, sel int) {
			name := fmt.Sprintf("g%d", len(glyphs))
			if len(glyphs) == 0 {
				name = ".notdef"
			}
			cls := []int{c04Small, c04Medium, c04Large, c04Grid}[k.Index%4]
			g, info := c04glyph(r, name, fam, sel, cls, false)
			g.Width = float64(500 + len(glyphs)%7)
			glyphs = append(glyphs, g)
			infos = append(infos, info)
		}
		add("empty", 0)
		for sel := 0; sel < 120; sel++ {
			add("hvline-enum", sel)
		}
		for sel := 0; sel < 52; sel++ {
			add("hvchain-enum", sel)
		}
		c04check(k, glyphs, infos, true, "")
		k.DistinctCount(172)
		k.Class("enum:hv-runs-1..60x2")
		k.Class("enum:hv-chains-1..13x2x2")
	})

	// hints: stems of every count and masks
	c.Stratum("hints", c.N(2000, 150000), func(k *mon.Case) {
		r := k.Rng
		n := 2 + r.IntN(12)
		cls := r.IntN(c04NClasses)
		glyphs := make([]*cff.Glyph, n)
		infos := make([]c04info, n)
		for i := range glyphs {
			name := fmt.Sprintf("h%d", i)
			if i == 0 {
				name = ".notdef"
			}
			fam := []string{"random", "mixline", "empty", "hvline", "hhvv", "junction", "zero"}[r.IntN(7)]
			glyphs[i], infos[i] = c04glyph(r, name, fam, 0, cls, true)
		}
		ws := c04widths(r, n, k)
		for i, g := range glyphs {
			g.Width = ws[i]
		}
		c04check(k, glyphs, infos, true, "")
	})

	// out of domain: deltas beyond the 16.16 operand range.  Demanded: an error, or a faithful result.
	c.Stratum("big-deltas", c.N(300, 10000), func(k *mon.Case) {
		r := k.Rng
		g := &cff.Glyph{Name: ".notdef", Width: 500}
		x, y := float64(r.IntN(2000)-1000), float64(r.IntN(2000)-1000)
		g.MoveTo(x, y)
		for i := 0; i < 1+r.IntN(5); i++ {
			big := float64(32768 + r.IntN(32000))
			if r.IntN(2) == 0 {
				big = float64(32001 + r.IntN(767))
			}
			if x > 0 {
				big = -big
			}
			x += big
			if r.IntN(2) == 0 {
				g.LineTo(x, y)
			} else {
				y += float64(r.IntN(100))
				g.CurveTo(x, y, x+10, y+10, x+20, y)
				x += 20
			}
		}
		if k.Index%3 == 0 {
			// the last segment of the glyph has a delta of exactly +32768, the
			// first value beyond the 16.16 range (or just below it, or -32768,
			// the last value inside)
			g = &cff.Glyph{Name: ".notdef", Width: 500}
			x0 := float64(-16384 - r.IntN(15000))
			y0 := float64(r.IntN(2000) - 1000)
			d := []float64{32768, 32768 - 1.0/(1<<17), 32768 + 1.0/(1<<10), -32768}[k.Index/3%4]
			g.MoveTo(x0, y0)
			g.LineTo(x0+100, y0+50)
			if d < 0 {
				g.MoveTo(-x0, y0)
				g.LineTo(-x0+100, y0+50)
			}
			switch r.IntN(3) {
			case 0:
				g.LineTo(x0+100+d*sign(-x0), y0+50)
			case 1:
				g.LineTo(x0+100+d*sign(-x0), y0+50+d*sign(-x0)/2)
			default:
				g.CurveTo(x0+110, y0+60, x0+120, y0+70, x0+120+d*sign(-x0), y0+70)
			}
			k.Class("big-deltas:last-delta-at-the-end-of-the-16.16-range")
		}
		c04check(k, []*cff.Glyph{g}, nil, false, "big-deltas:")
	})

	// width ranges for which a nominal width exists (max-min <= 65000) but which
	// are wider than the main strata use, also around zero (negative widths):
	// in the domain, the font must be written and must be faithful
	c.Stratum("wide-widths", c.N(300, 10000), func(k *mon.Case) {
		r := k.Rng
		n := 3 + r.IntN(20)
		glyphs := make([]*cff.Glyph, n)
		lo := float64(r.IntN(500))
		span := float64(33000 + r.IntN(32000))
		if r.IntN(2) == 0 {
			lo = -float64(r.IntN(32001))
			if r.IntN(3) == 0 {
				lo = -float64(32768 + r.IntN(32000)) // the lower end below -32767: also the upper end may be negative
				k.Class("wide-widths:below--32767")
			}
			k.Class("wide-widths:negative")
		}
		mid := r.IntN(3) == 0 // some widths in between pull the mean around
		withPaths := r.IntN(2) == 0
		var infos []c04info
		if withPaths {
			infos = make([]c04info, n)
			k.Class("wide-widths:with-paths")
		}
		for i := range glyphs {
			name := fmt.Sprintf("w%d", i)
			if i == 0 {
				name = ".notdef"
			}
			glyphs[i] = &cff.Glyph{Name: name}
			if withPaths {
				glyphs[i], infos[i] = c04glyph(r, name, []string{"random", "mixline", "hvline", "empty"}[r.IntN(4)], 0, r.IntN(3), r.IntN(4) == 0)
			}
			glyphs[i].Width = lo + float64(r.IntN(300))
			switch {
			case r.IntN(5) == 0:
				glyphs[i].Width = lo + span - float64(r.IntN(300))
			case mid && r.IntN(2) == 0:
				glyphs[i].Width = lo + float64(r.IntN(int(span)))
			}
		}
		glyphs[n-1].Width = lo + span
		if r.IntN(2) == 0 {
			// many glyphs at the upper end: the mean is far from the lower end
			glyphs[1].Width = lo
			for i := 2; i < n-1; i++ {
				glyphs[i].Width = lo + span - float64(r.IntN(200))
			}
			k.Class("wide-widths:mean-near-one-end")
		}
		c04check(k, glyphs, infos, true, "wide-widths:")
	})

	// fonts of a thousand and more glyphs (the sizes of real text fonts; the
	// main strata stay small so that they can be many): every glyph, also the
	// first and the last, must be compiled
	c.Stratum("many-glyphs", c.N(12, 400), func(k *mon.Case) {
		r := k.Rng
		n := []int{1023, 1024, 1025, 1500, 2047, 2048, 4097}[k.Index%7]
		if k.Index >= 7 {
			n = 1000 + r.IntN(3200)
		}
		glyphs := make([]*cff.Glyph, n)
		infos := make([]c04info, n)
		ws := c04widths(r, n, k)
		for i := range glyphs {
			name := fmt.Sprintf("g%d", i)
			if i == 0 {
				name = ".notdef"
			}
			glyphs[i], infos[i] = c04glyph(r, name, []string{"random", "mixline", "hvline", "empty"}[r.IntN(4)], 0, r.IntN(2), r.IntN(8) == 0)
			glyphs[i].Width = ws[i]
		}
		c04check(k, glyphs, infos, true, "many-glyphs:")
		k.Class("many-glyphs")
		if n >= 1024 {
			k.Class("many-glyphs:1024-and-more")
		}
	})

	req := []string{"many-glyphs:1024-and-more", "stack-depth-48", "width:explicit", "width:omitted", "width:fractional-default", "width:fractional-nominal",
		"num:int1", "num:int2", "num:int3", "num:fixed16.16", "stems:1-24", "stems:25-48", "stems:49-95", "stems:96", "glyph:with-masks",
		"stems:multi-operator", "stems:single-operator", "ximage-agrees", "enum:hv-runs-1..60x2", "enum:hv-chains-1..13x2x2",
		"widths:all-equal", "widths:dominant", "widths:distinct", "widths:narrow-cluster", "widths:single-outlier", "widths:fractional-cluster", "widths:large", "widths:above-32767", "widths:skewed", "wide-widths:negative", "wide-widths:mean-near-one-end",
		"widths:at-default-candidate-threshold", "widths:at-default-candidate-threshold:negative", "widths:negative-dominant", "widths:all-negative", "widths:below--32767",
		"wide-widths:with-paths", "wide-widths:below--32767"}
	for _, n := range c04opNames {
		req = append(req, "op:"+n)
	}
	for _, f := range c04Families[:len(c04Families)-2] {
		req = append(req, "family:"+f)
	}
	c.Require(req...)
}
