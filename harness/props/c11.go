package props

import (
	"bytes"
	"encoding/binary"
	"fmt"
	"math/rand/v2"
	"reflect"

	"seehuhn.de/go/postscript/funit"
	"seehuhn.de/go/sfnt/glyf"
	"seehuhn.de/go/sfnt/glyph"

	"verif/harness/internal/mon"
	"verif/harness/internal/ref/glyfref"
)

// C11: TrueType glyph data round-trips and decodes as the specification says.

func init() {
	mon.RegisterCfg("C11", mon.Config{
		Rule: "random glyph sets (nil / simple / composite glyphs; simple glyph bodies written by the independent encoder glyfref with every flag/coordinate form drawn at random, 0..3 padding bytes; composites with all 16 argument/transform size combinations, with and without instructions; totals on both sides of 65535 and 131070 bytes) are (a) encoded by the library and decoded again, loca parsed independently; (b) assembled into glyf/loca bytes by the harness in both loca formats and decoded by the library; every simple glyph is point-decoded by the library and by glyfref; Components/FixComponents compared with the generated lists. distinct = distinct glyph bodies (hash)",
		Assumptions: []string{
			"composite glyphs carry instructions iff a component has WE_HAVE_INSTRUCTIONS (well-formed per the spec)",
			"every coordinate and every delta of a simple glyph is an int16 (one contour in eight runs along the limits: coordinates +32767 / -32768, deltas +32767 / -32768); delta sums that leave the int16 range are not generated, the format does not say what they mean",
			"simple glyph normal form = body without trailing padding",
			"glyfref (own code from the OpenType glyf chapter) is right where it agrees with the library; x/image is the third opinion in C03",
		},
	}, runC11)
}

func c11simple(r *rand.Rand, forms glyfref.Forms) (*glyfref.Simple, []byte) {
	g := &glyfref.Simple{}
	nc := 0
	switch r.IntN(10) {
	case 0:
		nc = 0
	case 1, 2, 3:
		nc = 1
	case 4, 5, 6, 7:
		nc = 1 + r.IntN(4)
	default:
		nc = 1 + r.IntN(12)
	}
	var x, y int16
	coincident := false
	for i := 0; i < nc; i++ {
		np := 1 + r.IntN(8)
		switch r.IntN(12) {
		case 0:
			np = 1
		case 1:
			np = 200 + r.IntN(400)
		}
		c := make([]glyfref.Point, np)
		mode := r.IntN(5)
		if r.IntN(8) == 0 {
			mode = 5
		}
		if r.IntN(10) == 0 {
			coincident = true
			// coincident points (zero deltas, identical flags): in the compact
			// encoding a run of up to 256 of them takes two bytes, so that the
			// glyph has more points than bytes
			mode = 6
			if r.IntN(2) == 0 {
				np = 2 + r.IntN(30)
			}
		}
		for j := range c {
			var dx, dy int16
			if mode == 5 {
				// coordinates at the limits of the int16 range, long deltas of the
				// largest magnitude; every delta and every coordinate is an int16
				// (sums that leave the range are not generated: the format does
				// not say what they mean)
				next := func(cur int16) int16 {
					for {
						t := []int16{32767, -32768, 32766, -32767, 0, 1, -1, 16384, -16384, 32767, -32768}[r.IntN(11)]
						if d := int32(t) - int32(cur); d >= -32768 && d <= 32767 {
							return t
						}
					}
				}
				nx, ny := x, y
				if r.IntN(3) != 0 {
					nx = next(x)
				}
				if r.IntN(3) != 0 {
					ny = next(y)
				}
				if forms != nil {
					for _, v := range [][2]int16{{x, nx}, {y, ny}} {
						switch d := int32(v[1]) - int32(v[0]); {
						case d == 32767:
							forms["delta=+32767"]++
						case d == -32768:
							forms["delta=-32768"]++
						}
						if v[1] == 32767 || v[1] == -32768 {
							forms["coordinate-at-int16-limit"]++
						}
					}
				}
				x, y = nx, ny
				c[j] = glyfref.Point{X: x, Y: y, OnCurve: r.IntN(3) != 0}
				continue
			}
			switch mode {
			case 0: // identical flags: long runs
				dx, dy = 3, 0
			case 1:
				dx, dy = int16(r.IntN(511)-255), int16(r.IntN(511)-255)
			case 2:
				dx, dy = int16(r.IntN(4001)-2000), int16(r.IntN(4001)-2000)
			case 3:
				if r.IntN(2) == 0 {
					dx = int16(r.IntN(600) - 300)
				} else {
					dy = int16(r.IntN(600) - 300)
				}
			case 6:
				dx, dy = 0, 0
			default:
				dx, dy = int16(r.IntN(9)-4), int16(r.IntN(9)-4)
			}
			nx, ny := int32(x)+int32(dx), int32(y)+int32(dy)
			if nx > 16000 || nx < -16000 {
				nx = int32(x) - int32(dx)
			}
			if ny > 16000 || ny < -16000 {
				ny = int32(y) - int32(dy)
			}
			// (behind a contour at the int16 limits: come back in one representable step)
			if nx > 16000 || nx < -16000 {
				nx = int32(x) / 2
			}
			if ny > 16000 || ny < -16000 {
				ny = int32(y) / 2
			}
			x, y = int16(nx), int16(ny)
			on := r.IntN(3) != 0
			if mode == 0 || mode == 6 {
				on = true
			}
			c[j] = glyfref.Point{X: x, Y: y, OnCurve: on}
		}
		g.Contours = append(g.Contours, c)
	}
	switch r.IntN(4) {
	case 0:
		g.Instructions = []byte{}
	case 1:
		g.Instructions = make([]byte, 1+2*r.IntN(8))
	case 2:
		g.Instructions = make([]byte, r.IntN(300))
	default:
		g.Instructions = []byte{}
	}
	for i := range g.Instructions {
		g.Instructions[i] = byte(r.Uint32())
	}
	var body []byte
	if r.IntN(8) == 0 || (coincident && r.IntN(2) == 0) {
		// the most compact encoding: identical flags are run-length coded
		// with the longest possible runs (repeat count 255 for 256 points)
		body = glyfref.Encode(g, nil, forms)
	} else {
		body = glyfref.Encode(g, r, forms)
	}
	if forms != nil {
		np := 0
		for _, c := range g.Contours {
			np += len(c)
		}
		if np > len(body)-2*len(g.Contours)-2-len(g.Instructions) {
			forms["more-points-than-flag-and-coordinate-bytes"]++
		}
	}
	return g, body
}

type c11glyph struct {
	kind   int // 0 nil, 1 simple, 2 composite
	simple *glyfref.Simple
	body   []byte // normal-form body (no padding)
	pad    int
	comps  []glyfref.Component
	instr  []byte
	box    funit.Rect16
	nc     int16
}

func c11composite(r *rand.Rand, numGlyphs int, k *mon.Case) ([]glyfref.Component, []byte) {
	n := 1 + r.IntN(4)
	if r.IntN(8) == 0 {
		n = 1 + r.IntN(12)
	}
	withInstr := r.IntN(3) == 0
	flagOn := r.IntN(n)
	cs := make([]glyfref.Component, n)
	for i := range cs {
		var fl uint16
		words := r.IntN(2)
		xy := r.IntN(2)
		tr := r.IntN(4)
		if words == 1 {
			fl |= 0x0001
		}
		if xy == 1 {
			fl |= 0x0002
		}
		if r.IntN(6) == 0 {
			// more than one transformation flag: the first in the order
			// scale, x-and-y scale, two-by-two decides the size (every
			// rasterizer reads the flags as an if / else-if chain)
			tr = 4 + r.IntN(4)
		}
		switch tr {
		case 1:
			fl |= 0x0008
		case 2:
			fl |= 0x0040
		case 3:
			fl |= 0x0080
		case 4:
			fl |= 0x0008 | 0x0040
		case 5:
			fl |= 0x0008 | 0x0080
		case 6:
			fl |= 0x0040 | 0x0080
		case 7:
			fl |= 0x0008 | 0x0040 | 0x0080
		}
		if tr >= 4 {
			k.Class("composite:several-transformation-flags")
		} else {
			k.Class(fmt.Sprintf("composite:words=%d,xy=%d,transform=%d", words, xy, tr))
		}
		for _, extra := range []uint16{0x0004, 0x0200, 0x0400, 0x0800, 0x1000} {
			if r.IntN(5) == 0 {
				fl |= extra
			}
		}
		if i < n-1 {
			fl |= 0x0020
		}
		if withInstr && (i == flagOn || r.IntN(3) == 0) {
			fl |= 0x0100 // WE_HAVE_INSTRUCTIONS: on at least one component, not necessarily the last
		}
		args := make([]byte, glyfref.ArgLen(fl))
		for j := range args {
			args[j] = byte(r.Uint32())
		}
		cs[i] = glyfref.Component{Flags: fl, Gid: uint16(r.IntN(numGlyphs)), Args: args}
	}
	var instr []byte
	if withInstr {
		if cs[n-1].Flags&0x0100 == 0 {
			k.Class("composite:instructions-flag-not-on-last-component")
		}
		instr = make([]byte, r.IntN(40))
		if r.IntN(5) == 0 {
			// the length is a 16-bit field: blocks that need its high byte
			instr = make([]byte, []int{255, 256, 257, 300 + r.IntN(700), 4096 + r.IntN(100)}[r.IntN(5)])
		}
		for j := range instr {
			instr[j] = byte(r.Uint32())
		}
		if len(instr) >= 256 {
			k.Class("composite:instructions>=256-bytes")
		}
		k.Class("composite:instructions")
	} else {
		k.Class("composite:no-instructions")
	}
	return cs, instr
}

func (g *c11glyph) lib() *glyf.Glyph {
	switch g.kind {
	case 1:
		enc := append(append([]byte{}, g.body...), make([]byte, g.pad)...)
		return &glyf.Glyph{Rect16: g.box, Data: glyf.SimpleGlyph{NumContours: g.nc, Encoded: enc}}
	case 2:
		cg := glyf.CompositeGlyph{Instructions: g.instr}
		for _, c := range g.comps {
			cg.Components = append(cg.Components, glyf.GlyphComponent{Flags: glyf.ComponentFlag(c.Flags), GlyphIndex: glyph.ID(c.Gid), Data: c.Args})
		}
		return &glyf.Glyph{Rect16: g.box, Data: cg}
	}
	return nil
}

// normal returns the glyph the library must hand back after a round trip.
func (g *c11glyph) normal() *glyf.Glyph {
	if g.kind == 1 {
		return &glyf.Glyph{Rect16: g.box, Data: glyf.SimpleGlyph{NumContours: g.nc, Encoded: g.body}}
	}
	return g.lib()
}

// raw returns the glyph record as the harness writes it into a glyf table.
func (g *c11glyph) raw() []byte {
	if g.kind == 0 {
		return nil
	}
	out := make([]byte, 10)
	nc := g.nc
	if g.kind == 2 {
		nc = -1
	}
	binary.BigEndian.PutUint16(out[0:], uint16(nc))
	binary.BigEndian.PutUint16(out[2:], uint16(g.box.LLx))
	binary.BigEndian.PutUint16(out[4:], uint16(g.box.LLy))
	binary.BigEndian.PutUint16(out[6:], uint16(g.box.URx))
	binary.BigEndian.PutUint16(out[8:], uint16(g.box.URy))
	if g.kind == 1 {
		out = append(out, g.body...)
		out = append(out, make([]byte, g.pad)...)
	} else {
		out = append(out, glyfref.EncodeComposite(g.comps, g.instr)...)
	}
	return out
}

func glyphEqual(a, b *glyf.Glyph) bool {
	if a == nil || b == nil {
		return a == nil && b == nil
	}
	if a.Rect16 != b.Rect16 {
		return false
	}
	switch da := a.Data.(type) {
	case glyf.SimpleGlyph:
		db, ok := b.Data.(glyf.SimpleGlyph)
		return ok && da.NumContours == db.NumContours && bytes.Equal(da.Encoded, db.Encoded)
	case glyf.CompositeGlyph:
		db, ok := b.Data.(glyf.CompositeGlyph)
		if !ok || len(da.Components) != len(db.Components) {
			return false
		}
		for i := range da.Components {
			x, y := da.Components[i], db.Components[i]
			if x.Flags != y.Flags || x.GlyphIndex != y.GlyphIndex || !bytes.Equal(x.Data, y.Data) {
				return false
			}
		}
		if (da.Instructions == nil) != (db.Instructions == nil) {
			return false
		}
		return bytes.Equal(da.Instructions, db.Instructions)
	}
	return false
}

// checkLoca parses loca independently.
func checkLoca(k *mon.Case, enc *glyf.Encoded, n int) []int {
	var offs []int
	switch enc.LocaFormat {
	case 0:
		if len(enc.LocaData) != 2*(n+1) {
			k.Fail("mismatch", "loca:length", "short loca has %d bytes for %d glyphs", len(enc.LocaData), n)
			return nil
		}
		for i := 0; i <= n; i++ {
			offs = append(offs, 2*int(binary.BigEndian.Uint16(enc.LocaData[2*i:])))
		}
	case 1:
		if len(enc.LocaData) != 4*(n+1) {
			k.Fail("mismatch", "loca:length", "long loca has %d bytes for %d glyphs", len(enc.LocaData), n)
			return nil
		}
		for i := 0; i <= n; i++ {
			offs = append(offs, int(binary.BigEndian.Uint32(enc.LocaData[4*i:])))
		}
	default:
		k.Fail("mismatch", "loca:format", "loca format %d", enc.LocaFormat)
		return nil
	}
	k.Class(fmt.Sprintf("loca-format-%d", enc.LocaFormat))
	for i, o := range offs {
		if o%2 != 0 {
			k.Fail("mismatch", "loca:odd-offset", "loca[%d]=%d is odd", i, o)
			return nil
		}
		if o > len(enc.GlyfData) || (i > 0 && o < offs[i-1]) {
			k.Fail("mismatch", "loca:offset-range", "loca[%d]=%d (prev %d, glyf length %d)", i, o, offs[max(i-1, 0)], len(enc.GlyfData))
			return nil
		}
	}
	if offs[0] != 0 || offs[n] != len(enc.GlyfData) {
		// not stated by the property; recorded only
		k.Class("loca-not-tight")
	}
	return offs
}

func runC11(c *mon.Ctx) {
	c.Stratum("sets", c.N(4000, 60000), func(k *mon.Case) {
		r := k.Rng
		n := 1 + r.IntN(60)
		switch r.IntN(20) {
		case 0:
			n = 1
		case 1:
			n = 300 + r.IntN(600)

		case 2:
			n = 255 + r.IntN(3)
		}
		if k.Index%2000 == 7 {
			n = 65535 // the largest number of glyphs there can be
			k.Class("glyphs:65535")
		}
		forms := glyfref.Forms{}
		gs := make([]*c11glyph, n)
		total := 0
		for i := range gs {
			g := &c11glyph{}
			switch q := r.IntN(10); {
			case q == 0:
				g.kind = 0
			case q <= 6 || n > 5000:
				g.kind = 1
				if n > 5000 && r.IntN(4) != 0 {
					g.kind = 0
					break
				}
				g.simple, g.body = c11simple(r, forms)
				g.nc = int16(len(g.simple.Contours))
				if llx, lly, urx, ury, ok := g.simple.Bounds(); ok {
					g.box = funit.Rect16{LLx: funit.Int16(llx), LLy: funit.Int16(lly), URx: funit.Int16(urx), URy: funit.Int16(ury)}
				}
				if r.IntN(3) == 0 {
					g.pad = r.IntN(4)
				}
				if len(g.simple.Instructions) >= 256 {
					k.Class("simple:instructions>=256-bytes")
				}
				if g.nc == 0 {
					k.Class("zero-contour-glyph")
				}
			default:
				g.kind = 2
				g.comps, g.instr = c11composite(r, n, k)
				g.box = funit.Rect16{LLx: funit.Int16(r.IntN(2000) - 1000), LLy: funit.Int16(r.IntN(2000) - 1000), URx: funit.Int16(r.IntN(2000)), URy: funit.Int16(r.IntN(2000))}
			}
			gs[i] = g
			total += len(g.raw())
			if g.kind != 0 {
				k.DistinctBytes(g.raw())
			}
		}
		c11check(c, k, gs, forms, total)
	})

	encodeAliasing(c, "glyf", c.N(200, 10000), glyfAliasEncoders)

	// exact table sizes around the loca format limits
	sizes := []int{65530, 65532, 65534, 65536, 65538, 65540, 131066, 131068, 131070, 131072, 131074, 131076, 131078, 140000}
	c.Stratum("size-boundaries", len(sizes)*4, func(k *mon.Case) {
		r := k.Rng
		target := sizes[k.Index%len(sizes)]
		forms := glyfref.Forms{}
		var gs []*c11glyph
		total := 0
		add := func(g *c11glyph) {
			gs = append(gs, g)
			n := len(g.raw())
			total += n + n%2
		}
		// a few ordinary glyphs, then zero-contour glyphs whose instruction
		// lengths are chosen so that the glyf table has exactly the target size
		for i := 0; i < 1+r.IntN(4); i++ {
			g := &c11glyph{kind: 1}
			g.simple, g.body = c11simple(r, forms)
			g.nc = int16(len(g.simple.Contours))
			if llx, lly, urx, ury, ok := g.simple.Bounds(); ok {
				g.box = funit.Rect16{LLx: funit.Int16(llx), LLy: funit.Int16(lly), URx: funit.Int16(urx), URy: funit.Int16(ury)}
			}
			add(g)
		}
		for total < target {
			rest := target - total
			l := rest - 12
			if l > 60000 {
				l = 60000 - 2*r.IntN(1000)
			}
			if l < 0 || l%2 != 0 {
				break
			}
			sg := &glyfref.Simple{Instructions: make([]byte, l)}
			for i := range sg.Instructions {
				sg.Instructions[i] = byte(r.Uint32())
			}
			add(&c11glyph{kind: 1, simple: sg, body: glyfref.Encode(sg, nil, nil)})
		}
		if total != target {
			k.Skip("size-boundary-not-hit")
			return
		}
		if k.Index/len(sizes)%2 == 1 {
			gs = append(gs, &c11glyph{}) // trailing empty glyph
		}
		k.Class(fmt.Sprintf("exact-glyf-size=%d", target))
		k.Distinct("size-boundary", target, len(gs), k.Index)
		c11check(c, k, gs, forms, total)
	})
	req := []string{"harness-loca-format-1:glyphs-at-odd-offsets", "composite:several-transformation-flags", "glyphs:65535", "zero-contour-glyph", "simple-decoded", "composite-checked", "loca-format-0", "loca-format-1",
		"harness-loca-format-0", "harness-loca-format-1", "composite:instructions", "composite:no-instructions",
		"form:repeat-0", "form:repeat-1", "form:repeat-n", "form:repeat-255", "composite:instructions-flag-not-on-last-component", "form:flag-literal", "form:overlap-bit", "size<=65535", "size>131070",
		"form:delta=+32767", "form:delta=-32768", "form:coordinate-at-int16-limit", "composite:instructions>=256-bytes", "simple:instructions>=256-bytes"}
	for _, a := range []string{"x", "y"} {
		for _, f := range []string{"same", "short-pos", "short-neg", "long"} {
			req = append(req, "form:"+a+"-"+f)
		}
	}
	for _, sz := range []int{65534, 65536, 131070, 131072, 131074} {
		req = append(req, fmt.Sprintf("exact-glyf-size=%d", sz))
	}
	for w := 0; w < 2; w++ {
		for xy := 0; xy < 2; xy++ {
			for t := 0; t < 4; t++ {
				req = append(req, fmt.Sprintf("composite:words=%d,xy=%d,transform=%d", w, xy, t))
			}
		}
	}
	c.Require(req...)
}

// c11check runs all C11 clauses on one glyph set.
func c11check(c *mon.Ctx, k *mon.Case, gs []*c11glyph, forms glyfref.Forms, total int) {
	r := k.Rng
	n := len(gs)
	for f, cnt := range forms {
		k.ClassN("form:"+f, cnt)
	}
	in := make(glyf.Glyphs, n)
	want := make(glyf.Glyphs, n)
	for i, g := range gs {
		in[i] = g.lib()
		want[i] = g.normal()
	}
	desc := func() string { return fmt.Sprintf("set of %d glyphs, %d raw bytes", n, total) }

	// (a) library encode -> independent loca check -> library decode
	var enc *glyf.Encoded
	if k.Guard("glyf.Encode", func() { enc = in.Encode() }) {
		return
	}
	k.Eval()
	offs := checkLoca(k, enc, n)
	switch {
	case len(enc.GlyfData) <= 0xFFFF:
		k.Class("size<=65535")
	case len(enc.GlyfData) <= 131070:
		k.Class("size 65536..131070")
	default:
		k.Class("size>131070")
	}
	var back glyf.Glyphs
	var err error
	if k.Guard("glyf.Decode", func() { back, err = glyf.Decode(enc) }) {
		return
	}
	if err != nil {
		k.Fail("mismatch", "roundtrip:decode-error", "glyf.Decode(Encode(G)): %v\n%s", err, desc())
		return
	}
	if len(back) != n {
		k.Fail("mismatch", "roundtrip:count", "%d glyphs came back, want %d", len(back), n)
		return
	}
	for i := range back {
		if !glyphEqual(back[i], want[i]) {
			k.Fail("mismatch", fmt.Sprintf("roundtrip:glyph-differs:kind%d", gs[i].kind), "glyph %d (kind %d, pad %d) differs after Encode/Decode:\n got %+v\nwant %+v", i, gs[i].kind, gs[i].pad, back[i], want[i])
			break
		}
		if offs != nil && (back[i] == nil) != (offs[i] == offs[i+1]) {
			k.Fail("mismatch", "loca:empty-glyph", "glyph %d nil=%v but loca span %d", i, back[i] == nil, offs[i+1]-offs[i])
		}
	}

	// (b) harness-written glyf/loca in both formats -> library decode
	var glyfData []byte
	hoffs := make([]int, n+1)
	for i, g := range gs {
		glyfData = append(glyfData, g.raw()...)
		if len(glyfData)%2 != 0 {
			glyfData = append(glyfData, 0)
		}
		if r.IntN(8) == 0 && g.kind != 0 {
			glyfData = append(glyfData, 0, 0) // 4-byte style padding inside the glyph's span
		}
		hoffs[i+1] = len(glyfData)
	}
	for format := int16(0); format <= 1; format++ {
		if format == 0 && len(glyfData) > 131070 {
			continue
		}
		var loca []byte
		for _, o := range hoffs {
			if format == 0 {
				loca = binary.BigEndian.AppendUint16(loca, uint16(o/2))
			} else {
				loca = binary.BigEndian.AppendUint32(loca, uint32(o))
			}
		}
		henc := &glyf.Encoded{GlyfData: glyfData, LocaData: loca, LocaFormat: format}
		if format == 1 && k.Index%2 == 1 {
			// the long format also allows glyphs at odd offsets: the same
			// glyphs back to back without any padding
			var tight []byte
			var tl []byte
			tl = binary.BigEndian.AppendUint32(tl, 0)
			for _, g := range gs {
				tight = append(tight, g.raw()...)
				tl = binary.BigEndian.AppendUint32(tl, uint32(len(tight)))
			}
			henc = &glyf.Encoded{GlyfData: tight, LocaData: tl, LocaFormat: 1}
			k.Class("harness-loca-format-1:glyphs-at-odd-offsets")
		}
		srcCopy := append([]byte(nil), henc.GlyfData...)
		var dec glyf.Glyphs
		if k.Guard("glyf.Decode", func() { dec, err = glyf.Decode(henc) }) {
			return
		}
		k.Eval()
		if err != nil {
			k.Fail("mismatch", "spec-bytes:decode-error", "glyf.Decode of harness-written tables (loca format %d): %v\n%s", format, err, desc())
			return
		}
		for i := range dec {
			if !glyphEqual(dec[i], want[i]) {
				k.Fail("mismatch", fmt.Sprintf("spec-bytes:glyph-differs:kind%d", gs[i].kind), "glyph %d (kind %d, pad %d) decoded from harness-written bytes differs:\n got %+v\nwant %+v", i, gs[i].kind, gs[i].pad, dec[i], want[i])
				break
			}
		}
		// the table the glyphs were decoded from is the caller's: encoding
		// the decoded glyphs again must leave it alone
		if k.Guard("Glyphs.Encode (decoded from harness-written tables)", func() { dec.Encode() }) {
			return
		}
		k.Eval()
		if !bytes.Equal(srcCopy, henc.GlyfData) {
			k.Fail("mismatch", "spec-bytes:source-table-modified-by-encode", "Glyphs.Encode on the glyphs decoded from a glyf table changed that table (first difference at byte %d of %d, loca format %d)\n%s", firstDiff(srcCopy, henc.GlyfData), len(srcCopy), henc.LocaFormat, desc())
			return
		}
		k.Class(fmt.Sprintf("harness-loca-format-%d", format))
	}

	// (c) point decoding, components
	perm := map[glyph.ID]glyph.ID{}
	for i, p := range r.Perm(n) {
		perm[glyph.ID(i)] = glyph.ID(p)
	}
	for i, g := range back {
		src := gs[i]
		switch src.kind {
		case 1:
			sg := g.Data.(glyf.SimpleGlyph)
			var info *glyf.GlyphInfo
			var derr error
			if k.Guard("SimpleGlyph.Decode", func() { info, derr = sg.Decode() }) {
				return
			}
			k.Eval()
			if derr != nil {
				k.Fail("mismatch", "points:decode-error", "SimpleGlyph.Decode: %v (glyph %d, %d contours)", derr, i, src.nc)
				return
			}
			ref, used, rerr := glyfref.Decode(int(src.nc), src.body)
			if rerr != nil || used != len(src.body) {
				k.Fail("mismatch", "harness:glyfref-self-check", "glyfref cannot decode its own encoding: %v used=%d len=%d", rerr, used, len(src.body))
				return
			}
			if !c11samePoints(info, ref) || !c11samePoints(info, src.simple) {
				k.Fail("mismatch", "points:differ", "glyph %d: points from SimpleGlyph.Decode differ from the generated glyph\n lib: %+v\n ref: %+v", i, info, src.simple)
				return
			}
			// the contours are the caller's: closing or extending one of them
			// (append) must not reach into another one
			if len(info.Contours) > 1 {
				for ci := range info.Contours {
					cc := info.Contours[ci]
					if len(cc) > 0 {
						_ = append(cc, cc[0])
					}
					_ = append(info.Instructions, 0xEE)
				}
				if !c11samePoints(info, src.simple) {
					k.Fail("mismatch", "points:contours-share-storage", "glyph %d: appending a point to one contour returned by SimpleGlyph.Decode changes another contour (the contours share one array with spare capacity)", i)
					return
				}
				k.Class("simple-decoded:contours-independent")
			}
			k.Class("simple-decoded")
			if i < 2 && k.Index < 2 {
				k.Sample(fmt.Sprintf("simple glyph: %d contours, body %x…", src.nc, src.body[:min(len(src.body), 24)]))
			}
		case 2:
			comps := g.Components()
			k.Eval()
			if len(comps) != len(src.comps) {
				k.Fail("mismatch", "components:count", "Components() has %d entries, want %d", len(comps), len(src.comps))
				return
			}
			for j := range comps {
				if uint16(comps[j]) != src.comps[j].Gid {
					k.Fail("mismatch", "components:gid", "Components()[%d]=%d want %d", j, comps[j], src.comps[j].Gid)
					return
				}
			}
			before := src.raw()
			g2 := g.FixComponents(perm)
			if !glyphEqual(g, want[i]) {
				k.Fail("mismatch", "fixcomponents:receiver-changed", "FixComponents modified its receiver (glyph %d)", i)
				return
			}
			exp := *src
			exp.comps = append([]glyfref.Component{}, src.comps...)
			for j := range exp.comps {
				exp.comps[j].Gid = uint16(perm[glyph.ID(exp.comps[j].Gid)])
			}
			one := glyf.Glyphs{g2}.Encode()
			wantBytes := exp.raw()
			if len(wantBytes)%2 != 0 {
				wantBytes = append(wantBytes, 0)
			}
			if !bytes.Equal(one.GlyfData, wantBytes) {
				k.Fail("mismatch", "fixcomponents:bytes", "FixComponents: re-encoded glyph differs from the expected record\n got %x\nwant %x\n was %x", one.GlyfData, wantBytes, before)
				return
			}
			k.Class("composite-checked")
		}
	}
	if g := (*glyf.Glyph)(nil); g.Components() != nil || g.FixComponents(perm) != nil {
		k.Fail("mismatch", "components:nil-glyph", "nil glyph has components")
	}
}

func c11samePoints(info *glyf.GlyphInfo, ref *glyfref.Simple) bool {
	if len(info.Contours) != len(ref.Contours) {
		return false
	}
	for i, cc := range info.Contours {
		if len(cc) != len(ref.Contours[i]) {
			return false
		}
		for j, p := range cc {
			q := ref.Contours[i][j]
			if int16(p.X) != q.X || int16(p.Y) != q.Y || p.OnCurve != q.OnCurve {
				return false
			}
		}
	}
	return bytes.Equal(info.Instructions, ref.Instructions) || (len(info.Instructions) == 0 && len(ref.Instructions) == 0)
}

var _ = reflect.DeepEqual
